(* Reads one request per line (blank-separated decimal integers), applies the
   extracted Gallina function Model.run, prints the answer as decimals. *)
open Model

let rec pos_of_int (n : int) : positive =
  if n = 1 then XH
  else if n land 1 = 0 then XO (pos_of_int (n lsr 1))
  else XI (pos_of_int (n lsr 1))

let z_of_small (n : int) : z =
  if n = 0 then Z0 else if n > 0 then Zpos (pos_of_int n) else Zneg (pos_of_int (-n))

let ten = z_of_small 10

let z_of_string (s : string) : z =
  let neg = String.length s > 0 && s.[0] = '-' in
  let body = if neg then String.sub s 1 (String.length s - 1) else s in
  let v =
    if String.length body <= 17 then z_of_small (int_of_string body)
    else begin
      let acc = ref Z0 in
      String.iter (fun c ->
        acc := Z.add (Z.mul !acc ten) (z_of_small (Char.code c - 48))) body;
      !acc
    end in
  if neg then Z.opp v else v

let rec int_of_pos_opt (p : positive) (depth : int) : int option =
  if depth > 60 then None else
  match p with
  | XH -> Some 1
  | XO q -> (match int_of_pos_opt q (depth + 1) with Some v -> Some (2 * v) | None -> None)
  | XI q -> (match int_of_pos_opt q (depth + 1) with Some v -> Some (2 * v + 1) | None -> None)

let rec big_pos_to_string (z : z) : string =
  (* z > 0 *)
  match z with
  | Z0 -> ""
  | _ ->
    let (q, r) = Z.div_eucl z ten in
    let d = (match r with Z0 -> 0 | Zpos p -> (match int_of_pos_opt p 0 with Some v -> v | None -> 0) | Zneg _ -> 0) in
    big_pos_to_string q ^ string_of_int d

let string_of_z (z : z) : string =
  match z with
  | Z0 -> "0"
  | Zpos p -> (match int_of_pos_opt p 0 with Some v -> string_of_int v | None -> big_pos_to_string z)
  | Zneg p -> (match int_of_pos_opt p 0 with Some v -> string_of_int (-v) | None -> "-" ^ big_pos_to_string (Zpos p))

let () =
  try
    while true do
      let line = input_line stdin in
      let toks = List.filter (fun s -> s <> "") (String.split_on_char ' ' (String.trim line)) in
      let req = List.map z_of_string toks in
      let ans = run req in
      print_string (String.concat " " (List.map string_of_z ans));
      print_newline ()
    done
  with End_of_file -> ()
