(* Driver for the ExtrOcamlZBigInt extraction: Coq Z = Zarith Z.t *)
let () =
  try
    while true do
      let line = input_line stdin in
      let toks = List.filter (fun s -> s <> "") (String.split_on_char ' ' (String.trim line)) in
      let req = List.map Z.of_string toks in
      let ans = Modelfast.run req in
      print_string (String.concat " " (List.map Z.to_string ans));
      print_newline ()
    done
  with End_of_file -> ()
