#!/bin/bash
# seeded_all.sh [ids...] : run every seeded change (default: all of seeded/C*-m*) against the quick check of its own
# property plus a few related ones, each in its own scratch worktree of /repo (tools/run_seeded.sh; /repo itself is
# never modified), 4 at a time; writes seeded/<id>/detection.txt and regenerates seeded/RESULTS.md.
cd /verif
declare -A EXTRA=( [C02-m2]="C01" [C04-m1]="C14" [C11-m1]="C01" [C11-m2]="C06" [C15-m1]="C18" [C18-m1]="C02" [C10-m2]="C17"
  [C17-m1]="C03" [C12-m1]="C01" [C12-m2]="C13" [C18-m2]="C08"
  [C01-m3]="C15 C17" [C01-m4]="C17 C11" [C02-m3]="C17" [C04-m4]="C18 C14" [C05-m4]="C18" [C09-m4]="C18" [C10-m3]="C18"
  [C11-m3]="C17 C01" [C11-m4]="C09" [C13-m4]="C18" [C15-m3]="C01" [C17-m3]="C01" [C17-m4]="C02" [C18-m3]="C16"
  [C18-m4]="C04 C10" [C19-m3]="C16" [C19-m4]="C16" [C12-m4]="C13" [C06-m3]="C12" [C20-m4]="C18" )
ids=("$@"); [ ${#ids[@]} -eq 0 ] && ids=($(ls -d seeded/C*-m* | xargs -n1 basename))
one() {
  t=$1; p=${t%%-*}
  res=$(tools/run_seeded.sh $t $p $2 2>&1 | grep -v "^VIOLATION" | grep "check=\|does not apply")
  echo "$res" > seeded/$t/detection.txt
  det=$(echo "$res" | grep "rc=1" | sed 's/.*check=\([A-Z0-9]*\).*/\1/' | tr '\n' ' ')
  echo "$t -> ${det:-NONE}"
}
export -f one
for t in "${ids[@]}"; do echo "$t ${EXTRA[$t]:-}" | sed 's/ *$//'; done | xargs -P4 -L1 bash -c 'one "$0" "$*"'
python3 tools/seeded_results.py
