#!/usr/bin/env python3
"""Regenerate seeded/EQUIV.md from seeded/equiv/<id>/{meta.json,outcome.txt}."""
import glob
import json
import os
import re

root = '/verif/seeded/equiv'
rows, alarms, hooks = [], 0, 0
for d in sorted(glob.glob(root + '/C*-e*')):
    sid = os.path.basename(d)
    meta = json.load(open(d + '/meta.json')) if os.path.exists(d + '/meta.json') else {}
    res = []
    if os.path.exists(d + '/outcome.txt'):
        for line in open(d + '/outcome.txt'):
            m = re.search(r'check=(C\d+) rc=(\d+) violations=(\d+) with-failing-input=(\d+)', line)
            if m:
                c, rc, nv, nf = m.group(1), int(m.group(2)), int(m.group(3)), int(m.group(4))
                if rc == 0:
                    res.append(c + ':quiet')
                elif nf == 0:
                    res.append(c + ':correspondence(no-failing-input-found)')
                    hooks += 1
                else:
                    res.append(c + ':ALARM')
                    alarms += 1
    priv = meta.get('private_api_changed') or []
    rows.append('| %s | %s | %s | %s | %s |' % (
        sid, 'yes' if meta.get('float_order_changed') else 'no', len(priv) if isinstance(priv, list) else priv,
        ' '.join(res) or 'not run', (meta.get('summary') or '').replace('|', '/').replace('\n', ' ')[:230]))
head = '''# Behaviour-preserving rewrites and what the checks say about them

Each row: a rewrite of the code a property is anchored in, produced by an independent sub-agent that was told to KEEP the
property true (different algorithm, other float operation order within 1e-13, private helpers split / merged / renamed,
reworded messages, value-keyed caches, ...), with the agent's own randomized differential test `equiv.py` (original vs
rewritten tree through the public API, JIT on and off) and the pinned suite unchanged. `tools/run_equiv.sh` applies the
patch to a scratch worktree of /repo and runs the quick checks of the property and of its neighbours against it.
Expected: `quiet` (exit 0).  `correspondence(no-failing-input-found)` is the documented outcome when a rewrite removes a
private helper the harness instruments; `ALARM` (a failing input reported although the property holds) would be a false
alarm and has to be corrected.

| rewrite | float order changed | private helpers changed | checks run -> outcome | what was rewritten |
|---|---|---|---|---|
'''
open('/verif/seeded/EQUIV.md', 'w').write(head + '\n'.join(rows) + '\n\nTotals: %d rewrites, %d false alarms, %d broken-correspondence reports.\n' % (len(rows), alarms, hooks))
print('%d rewrites, %d alarms, %d correspondence reports' % (len(rows), alarms, hooks))
