#!/bin/bash
# run_seeded.sh <seeded-dir-name> <check ids...> : apply the seeded change to /repo, run the quick checks, undo.
set -u
D=/verif/seeded/$1; shift
cd /repo
if [ -n "$(git status --porcelain --untracked-files=no)" ]; then echo "repo dirty"; exit 2; fi
git apply $D/patch.diff || { echo "patch does not apply"; exit 2; }
cd /verif
for c in "$@"; do
  out=$(./check $c quick 2>&1); rc=$?
  echo "$(basename $D) check=$c rc=$rc :: $(echo "$out" | grep -c VIOLATION) violation lines :: $(echo "$out" | tail -1)"
  echo "$out" | grep VIOLATION | head -2
done
git -C /repo checkout -- .
