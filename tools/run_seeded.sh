#!/bin/bash
# run_seeded.sh <seeded-dir-name> <check ids...> : apply the seeded change to a scratch worktree of /repo
# (VERIF_REPO points the harness at it; /repo itself is not touched), run the quick checks (TIER=thorough for the thorough tier), remove the worktree.
set -u
D=/verif/seeded/$1; T=$1; shift
WT=/tmp/seedrun_$T
git -C /repo worktree remove --force $WT 2>/dev/null
git -C /repo worktree add -q --detach $WT HEAD || exit 2
if ! git -C $WT apply $D/patch.diff; then echo "$T: patch does not apply"; git -C /repo worktree remove --force $WT; exit 2; fi
cd /verif
for c in "$@"; do
  out=$(VERIF_REPO=$WT ./check $c ${TIER:-quick} 2>&1); rc=$?
  echo "$T check=$c rc=$rc :: $(echo "$out" | grep -c '^VIOLATION') violation lines :: $(echo "$out" | tail -1)"
  echo "$out" | grep '^VIOLATION' | head -2
done
git -C /repo worktree remove --force $WT
