#!/usr/bin/env python3
"""Regenerate MANIFEST.json from the table below (kept by hand)."""
import json
import os

V = os.path.dirname(os.path.dirname(os.path.abspath(__file__)))
props = [json.loads(l) for l in open(os.path.join(V, 'properties.jsonl'))]
COMMON_NOTE = ('Trusted: Coq 8.16.1 kernel, the hand-written Gallina model, the standard-library extraction '
               '(ExtrOcamlBasic + ExtrOcamlZBigInt for bin/mrun, cross-checked every run against the ExtrOcamlBasic-only '
               'bin/mrun_ref; directives listed verbatim in TRUSTED_BASE.md), the OCaml drivers, the Python correspondence '
               'harness (sampled tie between model and /repo/src; generators widened over four rounds of seeded changes, see DESIGN.md S.4). ')

# id -> (technique, level text, level note, design ref)
CLAIMED = {
 'C07': ('Coq proof (inverse-CDF step = half-open interval of length T_ij, zero-probability never sampled, chain length/head/range) + differential runs with injected and recorded draws',
         'proof: for every cumulative row and draw the next state is the first column whose cumulative value strictly exceeds u; for a stochastic row the preimage of column k is the interval [c_(k-1), c_k) of length T[i, perm k], '
         'so transitions with T_ij = 0 are never sampled; chains have N frames, start in the start state and stay in range (Coq theorems, draws as an explicit argument). Tie: JIT off with INJECTED draws at every breakpoint, its float '
         'neighbours, midpoints, 0 and 1-2^-53; JIT on with RECORDED draws: whole chains of propagate_MCMC / propagate_tmat equal the model chain; cumulative matrix vs exact T within 1e-12; reproducibility.',
         COMMON_NOTE + 'Generator uniformity trusted. Two defects repaired (fix: commits), one known finding (start=-1 sentinel).',
         'DESIGN.md section 6 C07'),
 'C08': ('Coq proof (online counters = event extraction on the realised chain; histogram laws) + exact coupling to the generator state',
         'proof (partial): the online waiting-time counter is a permutation of the event durations of the chain realised by the same draws, the transition-time counter of the durations from the last start-set visit (disjoint sets), '
         'edges are multiples of the lag, bin k holds the fraction of events lasting k lags, the density integrates to one (Coq theorems); the distributional sentence reduces to C07 + generator uniformity (trusted). '
         'Tie: seeds fixed, draws recorded, list/histogram/paths of the implementation compared with the model on the same draws.',
         COMMON_NOTE + 'One defect repaired (unsorted list).',
         'DESIGN.md section 6 C08'),
 'C09': ('Coq proof (time grid law, curve = diagonal of the exact power, power laws) + differential correspondence within 1e-10',
         'proof: model times are exactly k*tau <= tmax (strictly increasing, empty above tmax), the curve entry is the diagonal of the k-th power (integer-scaled power = plain power), T^(a+b) = T^a T^b, powers of stochastic matrices stay stochastic; '
         'the reference uses the plain macro trajectory (definitional). Tie: whole result dictionary for plain and lumped input vs exact powers of the exact (Hummer-Szabo) model; reference grid checked as the property states it; flags on threshold-free cases.',
         COMMON_NOTE + 'The geomspace/around reference grid is checked, not modelled; float matrix_power within 1e-10.',
         'DESIGN.md section 6 C09'),
 'C10': ('Coq proof (positivity/monotonicity of -tau/ln(lambda) in Coq Reals, rule case analysis, exact two-state eigenvalue) + exact residual checking of LAPACK output',
         'proof (partial): -tau/ln(lambda) > 0 and strictly increasing on (0,1) (Coq Reals), the rule yields NaN or that positive value for real eigenvalues, lambda_2 = T00+T11-1 for two-state models (exact); '
         'the spectrum is LAPACK\'s: every eigen-pair returned by the four solver functions is validated by the exact Gallina residual checker, ordering and count checked; implied timescales are compared with the rule applied to the validated eigenvalues (ln by libm) and with the exact lambda_2 for two-state models.',
         COMMON_NOTE + 'Axioms: Coq standard-library real-number axioms (sig_forall_dec, sig_not_dec, functional_extensionality_dep, classic) in the two real-analysis theorems only. One defect repaired (masked value leak).',
         'DESIGN.md section 6 C10'),
 'C12': ('Coq proof (order- and chunking-freedom of the exact reduction) + differential execution across JIT on/off and thread counts',
         'proof (partial by nature): the exact sum behind the parallel kernels is invariant under permutation and chunking; everything else is runtime: the same calls are executed with NUMBA_DISABLE_JIT in {0,1}, NUMBA_NUM_THREADS in {1,3,16} (thorough: 2) and numba.set_num_threads(1,2,3,16) '
         'and compared pairwise (integers identical, floats 1e-12 / 1e-9, same error kinds); in addition every other property runs its cases JIT on and off against one model.',
         COMMON_NOTE + 'numba code generation and scheduling are outside any model.',
         'DESIGN.md section 6 C12'),
 'C16': ('Coq proof (byte-level codec: number and table round trip, column order, limits, dtype rules) + bidirectional differential correspondence on real files',
         'proof (partial): on a byte-level model of writer and reader, every integer table written with any header lines is read back identically, requested columns come in the requested order, limits give pieces of the listed lengths or are rejected, '
         'the microstate reader returns the requested integer dtype (int16 default) and rejects float dtypes (Coq theorems); pandas/numpy are modelled: the tie compares the bytes the implementation writes with the model rendering and the tables both read.',
         COMMON_NOTE + 'Two defects repaired (dtype ignored, CR in header).',
         'DESIGN.md section 6 C16'),
 'C17': ('Coq proof (monotone and injective relabelling theorems for states, ranks, counts, coring, events, paths) + metamorphic runs over container forms, widths and relabellings',
         'proof: a strictly increasing relabelling maps the state list and leaves ranks unchanged; an injective relabelling carries counts, cored trajectories, events and loop-erased paths along (Coq theorems); that every container form denotes the same trajectories is checked by running every analysis on '
         'list / list of lists / 1-d / 2-d / list and tuple of arrays in all integer widths (uniform and mixed, narrow-first) / object, function and method, plain and lumped, and comparing bit-identically.',
         COMMON_NOTE + 'One defect repaired (mixed integer widths).',
         'DESIGN.md section 6 C17'),
 'C18': ('Coq proof (frame and determinism of calls on the aliasing model) + byte-snapshot histories with reseeding',
         'proof (partial by nature): in the aliasing model a call reads argument values and allocates its results: arrays held before are unchanged after any history, results depend on argument values only; the tie snapshots every shared argument (buffers, dtypes, shapes, object slots) '
         'around every call of random histories, repeats deterministic calls after reseeding all generators and randomised calls from equal seeds.',
         COMMON_NOTE + 'That compiled kernels do not write through buffers is a runtime fact observed by snapshots only.',
         'DESIGN.md section 6 C18'),
 'C19': ('Coq proof (chunking partition; per-trajectory composition by the C05/C16/C20 theorems) + CLI runs compared with API and exact model',
         'proof (partial): the chunking helper returns consecutive non-empty chunks of at most the chunk size whose concatenation is the list; the CLI commands are compositions of pieces proved elsewhere (limits split, per-trajectory coring, per-column filter); click, files and figures are outside the model. '
         'Tie: CliRunner (thorough: real subprocess) on generated files with 1..4 trajectories, outputs compared with the API and with the exact per-trajectory model; chunking exhaustively for n <= 40.',
         COMMON_NOTE,
         'DESIGN.md section 6 C19'),
 'C20': ('Coq proof (Gaussian filter with any normalised non-negative symmetric kernel: linear, constants, bounds, reversal; running mean = documented window) + differential correspondence within 1e-9',
         'proof (partial): for every odd-length kernel (non-negative, normalised, symmetric) the edge-repeating filter preserves length, is linear, maps constants to themselves, stays within the bounds, commutes with reversal; the running mean equals the documented centred window with zeros outside, w=1 is the identity '
         '(Coq theorems, exact rationals). That SciPy\'s kernel is the truncated Gaussian is validated numerically: the harness computes the weights, checks the kernel hypotheses and compares outputs column by column.',
         COMMON_NOTE + 'exp by libm; SciPy internals trusted within 1e-9.',
         'DESIGN.md section 6 C20'),
 'C02': ('Coq proof (constructor = rank in sorted labels, round trip, lumped views; isolation on an aliasing model) + differential op-sequence correspondence with alias matrix',
         'proof: the object reports the input back (all three label branches), states/index/counters, and a lumped object reports macro, micro and assignment, '
         'for every trajectory set / consistent lumping (Coq theorems about the model); isolation is a theorem about the aliasing model (accessors and constructor copy); '
         'the tie runs random and (thorough) exhaustive op sequences (reads, in-place writes into returned arrays and constructor arguments, reconstruction) on the real '
         'classes and checks every read against the model of the original input plus np.shares_memory between all arrays.',
         COMMON_NOTE + 'That NumPy copy/arithmetic/fancy-indexing allocate fresh arrays is an assumption, observed by shares_memory each run.',
         'DESIGN.md section 6 C02'),
 'C03': ('Coq proof (row sums and stationarity of the projection on executable rational matrices; totality on ergodic input: Gauss-Jordan completeness, existence of the stationary vector, invertibility of both matrices; MathComp field-generic second proof of the identities) + differential correspondence within 1e-8',
         'proof: for the executable Hummer-Szabo formula on exact rationals, whenever it returns a matrix rows sum to one and '
         'pi A is stationary (positive=False); positive=True gives non-negative rows summing to one; refusal of non-ergodic micro models and labels are theorems; and it ALWAYS returns a matrix on the '
         'domain of the property: for a stochastic micro matrix with an entrywise positive power and any surjective assignment the stationary vector is found and both inverses exist '
         '(hs_total_on_ergodic_input, on Gauss-Jordan soundness/completeness, the maximum principle and the Dirichlet-form identity; Proofs/GaussFacts.v, Proofs/Totality.v). Tie: implementation vs exact matrix within 1e-8, labels, refusal, plus exact row-sum/stationarity checks of the implementation output.',
         COMMON_NOTE + 'LAPACK inv/eig trusted within 1e-8; certificates can fail (reported as model failure, never observed).',
         'DESIGN.md section 6 C03'),
 'C04': ('Coq proof (first clause in full: found, stationary for T, zero outside the closed class, unique; second clause: stationary for the renormalised restriction; strict mode rejects) + differential correspondence within 1e-9 and exact relational checker',
         'proof: for a stochastic matrix away from the 1e-8 threshold whose only closed class is aperiodic and larger than every other class, the model returns a vector, it is a probability vector with pi T = pi, zero outside the class, and every stationary probability vector of T equals it '
         '(peq_closed_unique_thm; Proofs/PeqClosed.v on the C14 mask theorem, the Wielandt bound, existence of the stationary vector and a mass-balance argument for transient states; guard: every class with a cycle aperiodic); whatever the model returns for any other accepted matrix is a probability vector stationary for the renormalised restriction to the mask (peq_general); strict mode rejects every non-ergodic '
         'input. Tie: |pi_impl - pi_exact| <= 1e-9 where the exact vector is unique, the exact checker peq_ok on every accepted output, error iff. LAPACK itself is outside the model.',
         COMMON_NOTE + 'One genuine defect (periodic classes) is a recorded known finding.',
         'DESIGN.md section 6 C04'),
 'C06': ('Coq proof (event automaton = reference extraction; loop erasure invariants; dictionary partition; sorted-merge intersection) + differential correspondence, exhaustive small scope',
         'proof: for all trajectories and basins the automaton equals "first start-set frame while closed, then first later final-set frame", events are ordered/disjoint/inside one trajectory, loop-erased keys are duplicate-free, '
         'end at the final frame, start at the last start-set frame, use only observed transitions, the dictionary partitions the events in occurrence order, validation by sorted merge = label-set test, public wrappers = reference '
         '(all Coq theorems); tie: random multi-trajectory sets and exhaustive 4-label enumeration, JIT on/off.',
         COMMON_NOTE,
         'DESIGN.md section 6 C06'),
 'C11': ('Coq proof (counts additive, permutation invariant, cut = straddling pairs; per-trajectory map for coring/events) + metamorphic and differential runs',
         'proof: counts of a set = sum over trajectories, invariant under reordering, a cut removes exactly the straddling pairs, coring/waiting times/pathways are per-trajectory maps (Coq theorems); '
         'tie: the implementation on the set, a permutation, every single trajectory and a cut, compared with each other and with the exact model.',
         COMMON_NOTE,
         'DESIGN.md section 6 C11'),
 'C13': ('Coq proof (code-shaped computation = contingency formula; bounds, symmetry, refinement, permutation invariance) + differential correspondence within 1e-10',
         'proof: the per-state index lists / sorted-merge counts / per-frame sum equal the contingency-table formulas, both values lie in [0,1], symmetric >= directed, swap symmetry, refinement and identical partitions give 1, '
         'joint frame permutations change nothing, wrapper = formula incl. rejections (Coq theorems); tie: random pairs of labelings (N up to 3000, thorough 1e5; thread counts) against the exact rational value.',
         COMMON_NOTE + 'float summation order of the parallel reduction is covered by the 1e-10 tolerance only.',
         'DESIGN.md section 6 C13'),
 'C14': ('Coq proof (positive power entry iff walk; soundness and completeness of the power test via the Wielandt bound; boolean powers) + two-layer differential correspondence',
         'proof: entry of T^k positive iff walk of length k; reported ergodic => strongly connected, aperiodic, primitive; conversely (Wielandt bound (n-1)^2+1, proved for every n in Proofs/Wielandt.v) strongly connected and aperiodic => every entry of the power positive, so for accepted threshold-free matrices '
         'is_ergodic <=> strongly connected and aperiodic (is_ergodic_iff_graph_thm); ergodic => fuzzy; non-stochastic => neither; the mask clause (Proofs/MaskFacts.v): when every class with a cycle is aperiodic the executable mask marks exactly the states whose communicating class has maximal size, hence the largest closed class(es) under the property\'s guard (ergodic_mask_classes_thm, mask_largest_closed_thm). All of this also compared on every case with an independent exact graph algorithm. '
         'Tie: implementation vs exact thresholded power away from the thresholds; model vs graph specification on threshold-free cases.',
         COMMON_NOTE + 'np.linalg.matrix_power floats trusted away from the 1e-8 threshold (cases within 1e-12 skipped and counted).',
         'DESIGN.md section 6 C14'),
 'C01': ('Coq proof (counting kernel = in-trajectory pair counts, constructor branches = rank, entry formula in Qc) + differential correspondence, bit-exact',
         'proof: the nested counting loop equals the table of frame pairs (k,k+lag) inside single trajectories, the three label->index '
         'branches all produce the rank in the ascending distinct labels, and T[i,j] = C_ij/sum_k C_ik with zero rows, entries in [0,1], row sums 0/1 '
         'are Coq theorems about the model for every trajectory set and lag; the implementation (function and method, JIT on/off, all dtypes and '
         'container forms) is compared bit-exactly with float(C_ij/S_i) of the extracted model.',
         COMMON_NOTE + 'IEEE division trusted; numba typed-list conversion exercised, not modelled.',
         'DESIGN.md section 6 C01'),
 'C05': ('Coq proof (in-place loop = suffix-recursive reference rule; run-length, shortcut soundness, iterative = successive, idempotence) + differential correspondence, exhaustive small scope',
         'proof: for all trajectories and windows, the single-pass in-place kernel equals the published reference rule, results have all maximal runs >= tau, '
         'the iterative last-frame shortcut is sound so iterative mode = successive plain stages 2..tau, coring is idempotent, errors iff no window, '
         'tau=1/tau<=0 wrapper behaviour; tie: exhaustive 3-label enumeration (quick: length <= 6, thorough: length <= 10, tau <= 5, both modes) and random '
         'ragged multi-trajectory sets, JIT on and off.',
         COMMON_NOTE + 'Two genuine defects found by this check were repaired by fix: commits (see KNOWN_FINDINGS.json).',
         'DESIGN.md section 6 C05'),
 'C15': ('Coq proof (substitution/rank theorems over all lists) + differential correspondence model vs code',
         'proof: shift_data = simultaneous substitution, container structure, rename_by_index = rank in sorted distinct labels, '
         'uniqueness of the sorted distinct list and soundness of the rename_by_population oracle are Coq theorems about the model '
         '(all data, all maps inside the documented guard, unbounded); the model is tied to the code by differential runs on all '
         'container forms and label alphabets (thorough: exhaustive small scope).',
         COMMON_NOTE + 'NumPy fancy indexing/astype/split modelled. Population ties are checked relationally (oracle proved sound).',
         'DESIGN.md section 6 C15'),
}
checks = []
for p in props:
    pid = p['id']
    if pid not in CLAIMED:
        continue
    tech, text, note, ref = CLAIMED[pid]
    checks.append({
        'property_id': pid,
        'quick_cmd': './check %s quick' % pid,
        'thorough_cmd': './check %s thorough' % pid,
        'evidence_file': 'evidence/%s.json' % pid,
        'replay_cmd_template': './check replay {path}',
        'engine': 'coq-model+mrun+harness',
        'level_claimed': {'category': 'proof', 'text': text, 'design_ref': ref},
        'level_note': note,
        'technique': tech,
    })
na = [{'property_id': p['id'], 'reason': 'check not built yet (work in progress, see DESIGN.md section 10)'}
      for p in props if p['id'] not in CLAIMED]
CLAIMED = dict(sorted(CLAIMED.items()))
m = {
 'version': 1,
 'setup_cmd': './setup.sh',
 'hooks': {
  'guard': 'MSMHELPER_VERIF',
  'enable': 'no source hooks are needed; every check imports the working tree via PYTHONPATH=/repo/src',
  'baseline_off_cmd': 'cd /repo && /venv/bin/python -m pytest -ra -q -p no:cacheprovider --timeout=900 --continue-on-collection-errors',
  'source_commits': [],
  'add_only': True,
 },
 'engines': [
  {'name': 'coq-model', 'path': 'coq/', 'serves_properties': sorted(CLAIMED),
   'kind_free_text': 'hand-written Gallina model (coq/Model, coq/Spec), lemmas (coq/Proofs), property theorems (coq/Props/CXX.v), Coq 8.16.1'},
  {'name': 'mrun', 'path': 'bin/mrun (built by setup.sh from coq/Run/ExtractFast.v + ocaml/driverfast.ml); bin/mrun_ref (coq/Run/Extract.v + ocaml/driver.ml)', 'serves_properties': sorted(CLAIMED),
   'kind_free_text': 'OCaml extraction of the model dispatcher Run.run: mrun with ExtrOcamlBasic + ExtrOcamlZBigInt (zarith), mrun_ref with ExtrOcamlBasic only; a sample of every run is compared between the two, in the thorough tier also with vm_compute inside Coq'},
  {'name': 'harness', 'path': 'harness/', 'serves_properties': sorted(CLAIMED),
   'kind_free_text': 'Python differential correspondence check: implementation from /repo/src vs extracted model; generators, shrinking, evidence'},
 ],
 'checks': checks,
 'not_applicable': na,
 'notes': 'All checks: ./check CXX quick|thorough ; replay: ./check replay <file>. See DESIGN.md.',
}
json.dump(m, open(os.path.join(V, 'MANIFEST.json'), 'w'), indent=1)
print('claimed', sorted(CLAIMED), 'n/a', len(na))
