#!/usr/bin/env python3
"""Regenerate MANIFEST.json from the table below (kept by hand)."""
import json
import os

V = os.path.dirname(os.path.dirname(os.path.abspath(__file__)))
props = [json.loads(l) for l in open(os.path.join(V, 'properties.jsonl'))]
COMMON_NOTE = ('Trusted: Coq 8.16.1 kernel, the hand-written Gallina model, ExtrOcamlBasic extraction + '
               'ocaml/driver.ml, the Python correspondence harness (sampled tie between model and /repo/src). ')

# id -> (technique, level text, level note, design ref)
CLAIMED = {
 'C01': ('Coq proof (counting kernel = in-trajectory pair counts, constructor branches = rank, entry formula in Qc) + differential correspondence, bit-exact',
         'proof: the nested counting loop equals the table of frame pairs (k,k+lag) inside single trajectories, the three label->index '
         'branches all produce the rank in the ascending distinct labels, and T[i,j] = C_ij/sum_k C_ik with zero rows, entries in [0,1], row sums 0/1 '
         'are Coq theorems about the model for every trajectory set and lag; the implementation (function and method, JIT on/off, all dtypes and '
         'container forms) is compared bit-exactly with float(C_ij/S_i) of the extracted model.',
         COMMON_NOTE + 'IEEE division trusted; numba typed-list conversion exercised, not modelled.',
         'DESIGN.md section 6 C01'),
 'C05': ('Coq proof (in-place loop = suffix-recursive reference rule; run-length, shortcut soundness, iterative = successive, idempotence) + differential correspondence, exhaustive small scope',
         'proof: for all trajectories and windows, the single-pass in-place kernel equals the published reference rule, results have all maximal runs >= tau, '
         'the iterative last-frame shortcut is sound so iterative mode = successive plain stages 2..tau, coring is idempotent, errors iff no window, '
         'tau=1/tau<=0 wrapper behaviour; tie: exhaustive 3-label enumeration (quick: length <= 6, thorough: length <= 10, tau <= 5, both modes) and random '
         'ragged multi-trajectory sets, JIT on and off.',
         COMMON_NOTE + 'Two genuine defects found by this check were repaired by fix: commits (see KNOWN_FINDINGS.json).',
         'DESIGN.md section 6 C05'),
 'C15': ('Coq proof (substitution/rank theorems over all lists) + differential correspondence model vs code',
         'proof: shift_data = simultaneous substitution, container structure, rename_by_index = rank in sorted distinct labels, '
         'uniqueness of the sorted distinct list and soundness of the rename_by_population oracle are Coq theorems about the model '
         '(all data, all maps inside the documented guard, unbounded); the model is tied to the code by differential runs on all '
         'container forms and label alphabets (thorough: exhaustive small scope).',
         COMMON_NOTE + 'NumPy fancy indexing/astype/split modelled. Population ties are checked relationally (oracle proved sound).',
         'DESIGN.md section 6 C15'),
}
checks = []
for p in props:
    pid = p['id']
    if pid not in CLAIMED:
        continue
    tech, text, note, ref = CLAIMED[pid]
    checks.append({
        'property_id': pid,
        'quick_cmd': './check %s quick' % pid,
        'thorough_cmd': './check %s thorough' % pid,
        'evidence_file': 'evidence/%s.json' % pid,
        'replay_cmd_template': './check replay {path}',
        'engine': 'coq-model+mrun+harness',
        'level_claimed': {'category': 'proof', 'text': text, 'design_ref': ref},
        'level_note': note,
        'technique': tech,
    })
na = [{'property_id': p['id'], 'reason': 'check not built yet (work in progress, see DESIGN.md section 10)'}
      for p in props if p['id'] not in CLAIMED]
m = {
 'version': 1,
 'setup_cmd': './setup.sh',
 'hooks': {
  'guard': 'MSMHELPER_VERIF',
  'enable': 'no source hooks are needed; every check imports the working tree via PYTHONPATH=/repo/src',
  'baseline_off_cmd': 'cd /repo && /venv/bin/python -m pytest -ra -q -p no:cacheprovider --timeout=900 --continue-on-collection-errors',
  'source_commits': [],
  'add_only': True,
 },
 'engines': [
  {'name': 'coq-model', 'path': 'coq/', 'serves_properties': sorted(CLAIMED),
   'kind_free_text': 'hand-written Gallina model (coq/Model, coq/Spec), lemmas (coq/Proofs), property theorems (coq/Props/CXX.v), Coq 8.16.1'},
  {'name': 'mrun', 'path': 'bin/mrun (built by setup.sh from coq/Run/Extract.v + ocaml/driver.ml)', 'serves_properties': sorted(CLAIMED),
   'kind_free_text': 'OCaml extraction of the model dispatcher Run.run (ExtrOcamlBasic only)'},
  {'name': 'harness', 'path': 'harness/', 'serves_properties': sorted(CLAIMED),
   'kind_free_text': 'Python differential correspondence check: implementation from /repo/src vs extracted model; generators, shrinking, evidence'},
 ],
 'checks': checks,
 'not_applicable': na,
 'notes': 'All checks: ./check CXX quick|thorough ; replay: ./check replay <file>. See DESIGN.md.',
}
json.dump(m, open(os.path.join(V, 'MANIFEST.json'), 'w'), indent=1)
print('claimed', sorted(CLAIMED), 'n/a', len(na))
