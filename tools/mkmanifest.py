#!/usr/bin/env python3
"""Regenerate MANIFEST.json from the table below (kept by hand)."""
import json
import os

V = os.path.dirname(os.path.dirname(os.path.abspath(__file__)))
props = [json.loads(l) for l in open(os.path.join(V, 'properties.jsonl'))]
COMMON_NOTE = ('Trusted: Coq 8.16.1 kernel, the hand-written Gallina model, ExtrOcamlBasic extraction + '
               'ocaml/driver.ml, the Python correspondence harness (sampled tie between model and /repo/src). ')

# id -> (technique, level text, level note, design ref)
CLAIMED = {
 'C02': ('Coq proof (constructor = rank in sorted labels, round trip, lumped views; isolation on an aliasing model) + differential op-sequence correspondence with alias matrix',
         'proof: the object reports the input back (all three label branches), states/index/counters, and a lumped object reports macro, micro and assignment, '
         'for every trajectory set / consistent lumping (Coq theorems about the model); isolation is a theorem about the aliasing model (accessors and constructor copy); '
         'the tie runs random and (thorough) exhaustive op sequences (reads, in-place writes into returned arrays and constructor arguments, reconstruction) on the real '
         'classes and checks every read against the model of the original input plus np.shares_memory between all arrays.',
         COMMON_NOTE + 'That NumPy copy/arithmetic/fancy-indexing allocate fresh arrays is an assumption, observed by shares_memory each run.',
         'DESIGN.md section 6 C02'),
 'C03': ('Coq proof (row sums and stationarity of the projection on executable rational matrices, under run-time certified inverses; MathComp field-generic second proof) + differential correspondence within 1e-8',
         'proof (partial): for the executable Hummer-Szabo formula on exact rationals, whenever it returns a matrix (exact certificates K Z = Z K = I, N M = M N = I pass) rows sum to one and '
         'pi A is stationary (positive=False); positive=True gives non-negative rows summing to one; refusal of non-ergodic micro models and labels are theorems; invertibility itself is certified per '
         'case, not proved. Tie: implementation vs exact matrix within 1e-8, labels, refusal, plus exact row-sum/stationarity checks of the implementation output.',
         COMMON_NOTE + 'LAPACK inv/eig trusted within 1e-8; certificates can fail (reported as model failure, never observed).',
         'DESIGN.md section 6 C03'),
 'C04': ('Coq proof (returned vector is a certified stationary probability vector; strict mode rejects) + differential correspondence within 1e-9 and exact relational checker',
         'proof (partial): whatever the model returns is a probability vector stationary for T (ergodic) resp. for the renormalised restriction to the ergodic mask, and strict mode rejects every non-ergodic '
         'input (theorems); uniqueness of the stationary vector is the textbook fact, stated but not proved. Tie: |pi_impl - pi_exact| <= 1e-9 where the exact vector is unique, the exact checker peq_ok on every accepted output, error iff.',
         COMMON_NOTE + 'One genuine defect (periodic classes) is a recorded known finding.',
         'DESIGN.md section 6 C04'),
 'C06': ('Coq proof (event automaton = reference extraction; loop erasure invariants; dictionary partition; sorted-merge intersection) + differential correspondence, exhaustive small scope',
         'proof: for all trajectories and basins the automaton equals "first start-set frame while closed, then first later final-set frame", events are ordered/disjoint/inside one trajectory, loop-erased keys are duplicate-free, '
         'end at the final frame, start at the last start-set frame, use only observed transitions, the dictionary partitions the events in occurrence order, validation by sorted merge = label-set test, public wrappers = reference '
         '(all Coq theorems); tie: random multi-trajectory sets and exhaustive 4-label enumeration, JIT on/off.',
         COMMON_NOTE,
         'DESIGN.md section 6 C06'),
 'C11': ('Coq proof (counts additive, permutation invariant, cut = straddling pairs; per-trajectory map for coring/events) + metamorphic and differential runs',
         'proof: counts of a set = sum over trajectories, invariant under reordering, a cut removes exactly the straddling pairs, coring/waiting times/pathways are per-trajectory maps (Coq theorems); '
         'tie: the implementation on the set, a permutation, every single trajectory and a cut, compared with each other and with the exact model.',
         COMMON_NOTE,
         'DESIGN.md section 6 C11'),
 'C13': ('Coq proof (code-shaped computation = contingency formula; bounds, symmetry, refinement, permutation invariance) + differential correspondence within 1e-10',
         'proof: the per-state index lists / sorted-merge counts / per-frame sum equal the contingency-table formulas, both values lie in [0,1], symmetric >= directed, swap symmetry, refinement and identical partitions give 1, '
         'joint frame permutations change nothing, wrapper = formula incl. rejections (Coq theorems); tie: random pairs of labelings (N up to 3000, thorough 1e5; thread counts) against the exact rational value.',
         COMMON_NOTE + 'float summation order of the parallel reduction is covered by the 1e-10 tolerance only.',
         'DESIGN.md section 6 C13'),
 'C14': ('Coq proof (positive power entry iff walk; soundness of the power test; completeness for graphs with a self-loop; boolean powers) + two-layer differential correspondence',
         'proof (partial): entry of T^k positive iff walk of length k; reported ergodic => strongly connected, aperiodic, primitive; ergodic => fuzzy; non-stochastic => neither; threshold-free equivalence; completeness proved for lazy-connected graphs with a self-loop '
         '(2(n-1) <= (n-1)^2+1); the general Wielandt bound and the mask clause are compared against an independent exact graph algorithm (all 4x4 supports in the thorough tier), not proved. '
         'Tie: implementation vs exact thresholded power away from the thresholds; model vs graph specification on threshold-free cases.',
         COMMON_NOTE + 'np.linalg.matrix_power floats trusted away from the 1e-8 threshold (cases within 1e-12 skipped and counted).',
         'DESIGN.md section 6 C14'),
 'C01': ('Coq proof (counting kernel = in-trajectory pair counts, constructor branches = rank, entry formula in Qc) + differential correspondence, bit-exact',
         'proof: the nested counting loop equals the table of frame pairs (k,k+lag) inside single trajectories, the three label->index '
         'branches all produce the rank in the ascending distinct labels, and T[i,j] = C_ij/sum_k C_ik with zero rows, entries in [0,1], row sums 0/1 '
         'are Coq theorems about the model for every trajectory set and lag; the implementation (function and method, JIT on/off, all dtypes and '
         'container forms) is compared bit-exactly with float(C_ij/S_i) of the extracted model.',
         COMMON_NOTE + 'IEEE division trusted; numba typed-list conversion exercised, not modelled.',
         'DESIGN.md section 6 C01'),
 'C05': ('Coq proof (in-place loop = suffix-recursive reference rule; run-length, shortcut soundness, iterative = successive, idempotence) + differential correspondence, exhaustive small scope',
         'proof: for all trajectories and windows, the single-pass in-place kernel equals the published reference rule, results have all maximal runs >= tau, '
         'the iterative last-frame shortcut is sound so iterative mode = successive plain stages 2..tau, coring is idempotent, errors iff no window, '
         'tau=1/tau<=0 wrapper behaviour; tie: exhaustive 3-label enumeration (quick: length <= 6, thorough: length <= 10, tau <= 5, both modes) and random '
         'ragged multi-trajectory sets, JIT on and off.',
         COMMON_NOTE + 'Two genuine defects found by this check were repaired by fix: commits (see KNOWN_FINDINGS.json).',
         'DESIGN.md section 6 C05'),
 'C15': ('Coq proof (substitution/rank theorems over all lists) + differential correspondence model vs code',
         'proof: shift_data = simultaneous substitution, container structure, rename_by_index = rank in sorted distinct labels, '
         'uniqueness of the sorted distinct list and soundness of the rename_by_population oracle are Coq theorems about the model '
         '(all data, all maps inside the documented guard, unbounded); the model is tied to the code by differential runs on all '
         'container forms and label alphabets (thorough: exhaustive small scope).',
         COMMON_NOTE + 'NumPy fancy indexing/astype/split modelled. Population ties are checked relationally (oracle proved sound).',
         'DESIGN.md section 6 C15'),
}
checks = []
for p in props:
    pid = p['id']
    if pid not in CLAIMED:
        continue
    tech, text, note, ref = CLAIMED[pid]
    checks.append({
        'property_id': pid,
        'quick_cmd': './check %s quick' % pid,
        'thorough_cmd': './check %s thorough' % pid,
        'evidence_file': 'evidence/%s.json' % pid,
        'replay_cmd_template': './check replay {path}',
        'engine': 'coq-model+mrun+harness',
        'level_claimed': {'category': 'proof', 'text': text, 'design_ref': ref},
        'level_note': note,
        'technique': tech,
    })
na = [{'property_id': p['id'], 'reason': 'check not built yet (work in progress, see DESIGN.md section 10)'}
      for p in props if p['id'] not in CLAIMED]
m = {
 'version': 1,
 'setup_cmd': './setup.sh',
 'hooks': {
  'guard': 'MSMHELPER_VERIF',
  'enable': 'no source hooks are needed; every check imports the working tree via PYTHONPATH=/repo/src',
  'baseline_off_cmd': 'cd /repo && /venv/bin/python -m pytest -ra -q -p no:cacheprovider --timeout=900 --continue-on-collection-errors',
  'source_commits': [],
  'add_only': True,
 },
 'engines': [
  {'name': 'coq-model', 'path': 'coq/', 'serves_properties': sorted(CLAIMED),
   'kind_free_text': 'hand-written Gallina model (coq/Model, coq/Spec), lemmas (coq/Proofs), property theorems (coq/Props/CXX.v), Coq 8.16.1'},
  {'name': 'mrun', 'path': 'bin/mrun (built by setup.sh from coq/Run/Extract.v + ocaml/driver.ml)', 'serves_properties': sorted(CLAIMED),
   'kind_free_text': 'OCaml extraction of the model dispatcher Run.run (ExtrOcamlBasic only)'},
  {'name': 'harness', 'path': 'harness/', 'serves_properties': sorted(CLAIMED),
   'kind_free_text': 'Python differential correspondence check: implementation from /repo/src vs extracted model; generators, shrinking, evidence'},
 ],
 'checks': checks,
 'not_applicable': na,
 'notes': 'All checks: ./check CXX quick|thorough ; replay: ./check replay <file>. See DESIGN.md.',
}
json.dump(m, open(os.path.join(V, 'MANIFEST.json'), 'w'), indent=1)
print('claimed', sorted(CLAIMED), 'n/a', len(na))
