#!/bin/bash
# Runs every seeded change against the quick check of its own property (and a few related ones),
# records the outcome in seeded/<id>/detection.txt and seeded/RESULTS.md. /repo is restored after each.
cd /verif
declare -A EXTRA=( [C02-m2]="C01" [C04-m1]="C14" [C11-m1]="C01" [C11-m2]="C06" [C15-m1]="C18" [C18-m1]="C02" [C10-m2]="C17" [C17-m1]="C03" [C12-m1]="C01" [C12-m2]="C13" [C18-m2]="C08" )
echo "| seeded change | property | checks run | detected by |" > seeded/RESULTS.md.new
echo "|---|---|---|---|" >> seeded/RESULTS.md.new
for d in seeded/C*-m*; do
  id=$(basename $d); prop=${id%%-*}
  checks="$prop ${EXTRA[$id]:-}"
  det=""
  : > $d/detection.txt
  if ! git -C /repo apply --check /verif/$d/patch.diff 2>/dev/null; then echo "$id: patch does not apply" | tee -a $d/detection.txt; continue; fi
  git -C /repo apply /verif/$d/patch.diff
  for c in $checks; do
    out=$(./check $c quick 2>&1); rc=$?
    n=$(echo "$out" | grep -c '^VIOLATION')
    echo "check=$c rc=$rc violations=$n :: $(echo "$out" | tail -1)" >> $d/detection.txt
    echo "$out" | grep '^VIOLATION' | head -2 >> $d/detection.txt
    [ $rc -ne 0 ] && det="$det $c"
  done
  git -C /repo checkout -- .
  echo "| $id | $prop | $checks | ${det:-NONE} |" >> seeded/RESULTS.md.new
  echo "$id -> ${det:-NONE}"
done
mv seeded/RESULTS.md.new seeded/RESULTS.md
