#!/bin/bash
# confirm_mut.sh CXX k [srcdir] : copy /tmp/wt_CXX/_mutk to /verif/seeded/CXX-mk and confirm it in a fresh scratch worktree:
#  demo passes on original, fails with the patch, and the baseline test-suite outcome is unchanged.
set -u
P=$1; K=$2
SRC=${3:-/tmp/wt_$P/_mut$K}
DST=/verif/seeded/$P-m$K
mkdir -p $DST
cp $SRC/patch.diff $SRC/demo.py $SRC/meta.json $DST/ 2>/dev/null
WT=/tmp/confirm_${P}_$K
git -C /repo worktree remove --force $WT 2>/dev/null
git -C /repo worktree add -q --detach $WT HEAD || exit 2
cd $WT
export PYTHONPATH=$WT/src MPLBACKEND=Agg
timeout 600 /venv/bin/python $DST/demo.py > $DST/demo_orig.log 2>&1; R0=$?
if ! git apply $DST/patch.diff; then echo "$P-m$K: patch does not apply" | tee $DST/confirm.txt; git -C /repo worktree remove --force $WT; exit 1; fi
timeout 600 /venv/bin/python $DST/demo.py > $DST/demo_mut.log 2>&1; R1=$?
timeout 1800 /venv/bin/python -m pytest -q -p no:cacheprovider --timeout=900 -x --deselect test/test___main__.py::test_main -k "not test_submodules and not test_waiting_time_dist and not test_plot_wtd" test > $DST/tests_mut.log 2>&1; RT=$?
tail -1 $DST/tests_mut.log > $DST/tests_summary.txt
cd /; git -C /repo worktree remove --force $WT
echo "$P-m$K: demo_orig=$R0 demo_mut=$R1 tests_rc=$RT $(cat $DST/tests_summary.txt)" | tee $DST/confirm.txt
