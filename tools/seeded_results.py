#!/usr/bin/env python3
"""Regenerate seeded/RESULTS.md from seeded/<id>/{meta.json,detection.txt,confirm.txt}."""
import glob
import json
import os
import re

root = '/verif/seeded'
rows = []
for d in sorted(glob.glob(root + '/C*-m*')):
    sid = os.path.basename(d)
    prop = sid.split('-')[0]
    meta = json.load(open(d + '/meta.json')) if os.path.exists(d + '/meta.json') else {}
    det, run = [], []
    if os.path.exists(d + '/detection.txt'):
        for line in open(d + '/detection.txt'):
            m = re.search(r'check=(C\d+) rc=(\d+)', line)
            if m:
                run.append(m.group(1))
                if m.group(2) == '1' and ' 0 violation lines' not in line:
                    det.append(m.group(1))
    detT = []
    if os.path.exists(d + '/detection_thorough.txt'):
        for line in open(d + '/detection_thorough.txt'):
            m = re.search(r'check=(C\d+) rc=(\d+)', line)
            if m and m.group(2) == '1' and ' 0 violation lines' not in line:
                detT.append(m.group(1))
    meta['detected_by'] = det
    meta['detected_by_thorough'] = detT
    meta['checks_run'] = run
    if meta:
        json.dump(meta, open(d + '/meta.json', 'w'), indent=1, sort_keys=True)
    needs = (meta.get('needs') or meta.get('manifest') or '').replace('|', '/').replace('\n', ' ')[:170]
    rows.append('| %s | %s | %s | %s | %s |' % (sid, prop, ' '.join(run), ' '.join(det) or (('thorough tier: ' + ' '.join(detT)) if detT else 'NONE'), needs))
head = '''# Seeded changes and the checks that catch them

Each row: a change produced by an independent sub-agent from the property text alone (waves m1/m2: "realistic
breaking change"; waves m3/m4: "subtle, hard to hit: rare shapes / dtypes / boundaries, multi-step sequences on
shared objects, cooperating edits"; waves m5..m11: the same brief with the earlier changes listed as ideas not to repeat, each wave
evaluated first with a frozen copy of the checks - `heldout_first_pass.txt` in the directories), confirmed by `tools/confirm_mut.sh` (demo passes on the original tree, fails
with the patch; the pinned suite passes unchanged), then applied to a scratch worktree of /repo
(`tools/run_seeded.sh`, harness pointed at it by VERIF_REPO) and checked with `./check <id> quick`.
`detected by` lists the checks that exited 1 with a VIOLATION line ("thorough tier:" when only
`./check <id> thorough` does, `TIER=thorough tools/run_seeded.sh`).

| seeded change | property | checks run | detected by | what it needs to manifest |
|---|---|---|---|---|
'''
open(root + '/RESULTS.md', 'w').write(head + '\n'.join(rows) + '\n')
miss = [r for r in rows if '| NONE |' in r]
own = [r for r in rows if r.split('|')[2].strip() not in r.split('|')[4].split()]
thor = [r for r in rows if 'thorough tier:' in r]
print('%d detected only by the thorough tier' % len(thor))
print('%d seeded changes, %d undetected, %d not detected by the check of their own property' % (len(rows), len(miss), len(own)))
for r in own:
    print('  ', r[:60])
