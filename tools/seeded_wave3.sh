#!/bin/bash
# evaluate the wave-3 (harder) seeded changes CXX-m3 / CXX-m4 with run_seeded.sh; append to /tmp/wave3.log
cd /verif
declare -A EXTRA=( [C01-m3]="C15 C17" [C01-m4]="C17 C11" [C02-m3]="C17" [C04-m4]="C18 C14" [C05-m4]="C18" [C09-m4]="C18" [C10-m3]="C18" [C11-m3]="C17 C01" [C11-m4]="C09" [C13-m4]="C18 C12" [C15-m3]="C01" [C17-m3]="C01 C11" [C17-m4]="C02" [C18-m3]="C16" [C18-m4]="C04 C10" [C19-m3]="C16" [C19-m4]="C16" [C12-m4]="C13" [C06-m3]="C12" [C20-m4]="C18")
for t in "$@"; do
  p=${t%%-*}
  res=$(tools/run_seeded.sh $t $p ${EXTRA[$t]:-} 2>&1 | grep "check=")
  echo "$res" > seeded/$t/detection.txt
  det=$(echo "$res" | grep "rc=1" | sed 's/.*check=\([A-Z0-9]*\).*/\1/' | tr '\n' ' ')
  echo "$t -> ${det:-NONE}"
done
