#!/bin/bash
# run_equiv.sh <equiv-id> <check ids...> : apply a behaviour-preserving rewrite (seeded/equiv/<id>/patch.diff) to a scratch
# worktree of /repo, run the quick checks against it (VERIF_REPO), record the outcome in seeded/equiv/<id>/outcome.txt.
# Expected: exit 0 (no alarm), or - when the rewrite renames/removes a private helper the harness instruments - exactly one
# "VIOLATION ... no-failing-input-found" (broken correspondence). Anything else is a false alarm to be corrected.
set -u
D=/verif/seeded/equiv/$1; T=$1; shift
WT=/tmp/eqrun_$T
git -C /repo worktree remove --force $WT 2>/dev/null
git -C /repo worktree add -q --detach $WT HEAD || exit 2
if ! git -C $WT apply $D/patch.diff; then echo "$T: patch does not apply to the current /repo HEAD (outcome.txt left as it was)"; git -C /repo worktree remove --force $WT; exit 2; fi
cd /verif
touch $D/outcome.txt
for c in "$@"; do
  grep -v "check=$c " $D/outcome.txt | grep -v "^VIOLATION property=$c " > $D/outcome.txt.new; mv $D/outcome.txt.new $D/outcome.txt
  out=$(VERIF_REPO=$WT ./check $c quick 2>&1); rc=$?
  nv=$(echo "$out" | grep -c '^VIOLATION'); nf=$(echo "$out" | grep '^VIOLATION' | grep -vc 'no-failing-input-found')
  echo "$T check=$c rc=$rc violations=$nv with-failing-input=$nf :: $(echo "$out" | tail -1)" | tee -a $D/outcome.txt
  echo "$out" | grep '^VIOLATION' | head -3 >> $D/outcome.txt
done
git -C /repo worktree remove --force $WT
