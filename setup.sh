#!/bin/sh
# Build the whole machinery from files on disk: Coq development (full .vo),
# extraction, OCaml runner.  Idempotent; `--incremental` is the same build
# (make only redoes what changed) and is what every check calls first.
set -e
cd "$(dirname "$0")"
export LC_ALL=C
cd coq
find . -name '*.v' ! -path './Run/cases*' | LC_ALL=C sort | { if [ -f .wip ]; then grep -v -x -F -f .wip; else cat; fi; } > .vfiles.new
if [ ! -f Makefile ] || ! cmp -s .vfiles.new .vfiles; then
  mv .vfiles.new .vfiles
  coq_makefile -f _CoqProject $(cat .vfiles) -o Makefile > /dev/null
else
  rm -f .vfiles.new
fi
if ! timeout 7200 make -j16 > .make.log 2>&1; then
  tail -40 .make.log
  exit 1
fi
cd ..
mkdir -p bin ocaml/_build
if [ ! -x bin/mrun ] || [ coq/Run/model.ml -nt bin/mrun ] || [ ocaml/driver.ml -nt bin/mrun ]; then
  cp coq/Run/model.ml coq/Run/model.mli ocaml/driver.ml ocaml/_build/
  (cd ocaml/_build && ocamlfind ocamlopt -O3 -unboxed-types 2>/dev/null -w -a model.mli model.ml driver.ml -o ../../bin/mrun.new \
     || ocamlfind ocamlopt -w -a model.mli model.ml driver.ml -o ../../bin/mrun.new)
  mv bin/mrun.new bin/mrun
fi
# self-test: the runner answers a known request
out=$(echo "1502 3 5 7 5 2 5 7 2 7 5" | bin/mrun)
[ "$out" = "0 3 7 5 7 3 7 5 7" ] || { echo "mrun self-test failed: $out"; exit 1; }
exit 0
