#!/bin/sh
# Build the whole machinery from files on disk: Coq development (full .vo),
# extraction, OCaml runner.  Idempotent; `--incremental` is the same build
# (make only redoes what changed) and is what every check calls first.
set -e
cd "$(dirname "$0")"
export LC_ALL=C
cd coq
find . -name '*.v' ! -path './Run/cases*' | LC_ALL=C sort | { if [ -f .wip ]; then grep -v -x -F -f .wip; else cat; fi; } > .vfiles.new
if [ ! -f Makefile ] || ! cmp -s .vfiles.new .vfiles; then
  mv .vfiles.new .vfiles
  coq_makefile -f _CoqProject $(cat .vfiles) -o Makefile > /dev/null
else
  rm -f .vfiles.new
fi
if ! timeout 7200 make -j16 > .make.log 2>&1; then
  tail -40 .make.log
  exit 1
fi
cd ..
mkdir -p bin ocaml/_build
# reference runner: ExtrOcamlBasic only (Z, positive, nat stay Coq inductives) - slow, used for cross-checks
if [ ! -x bin/mrun_ref ] || [ coq/Run/model.ml -nt bin/mrun_ref ] || [ ocaml/driver.ml -nt bin/mrun_ref ]; then
  cp coq/Run/model.ml coq/Run/model.mli ocaml/driver.ml ocaml/_build/
  (cd ocaml/_build && ocamlfind ocamlopt -w -a model.mli model.ml driver.ml -o ../../bin/mrun_ref.new)
  mv bin/mrun_ref.new bin/mrun_ref
fi
# fast runner: same dispatcher extracted with the standard library's ExtrOcamlZBigInt (Zarith integers)
if [ ! -x bin/mrun ] || [ coq/Run/modelfast.ml -nt bin/mrun ] || [ ocaml/driverfast.ml -nt bin/mrun ]; then
  cp coq/Run/modelfast.ml coq/Run/modelfast.mli ocaml/driverfast.ml ocaml/_build/
  (cd ocaml/_build && ocamlfind ocamlopt -package zarith -linkpkg -w -a modelfast.mli modelfast.ml driverfast.ml -o ../../bin/mrun.new)
  mv bin/mrun.new bin/mrun
fi
# self-test: the runner answers a known request
for b in bin/mrun bin/mrun_ref; do
  out=$(echo "1502 3 5 7 5 2 5 7 2 7 5" | $b)
  [ "$out" = "0 3 7 5 7 3 7 5 7" ] || { echo "$b self-test failed: $out"; exit 1; }
done
exit 0
