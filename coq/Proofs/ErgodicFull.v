(* C14: the complete characterisation of the ergodicity predicate, using the general
   Wielandt bound of Proofs/Wielandt.v *)
From Coq Require Import List ZArith Arith Bool Lia QArith Qcanon.
From MsmV Require Import Lib.Result Lib.PyList Lib.QMat Model.Ergodic Proofs.QMatFacts
  Proofs.ErgodicFacts Proofs.Wielandt.
Import ListNotations.
Local Open Scope nat_scope.

Lemma bwf_supp n M : wf n n M -> bwf n (supp M).
Proof.
  intros HM. split.
  - rewrite length_supp. apply (wf_length _ _ _ HM).
  - intros r Hr. unfold supp in Hr. apply in_map_iff in Hr. destruct Hr as [r0 [<- Hr0]].
    rewrite map_length.
    destruct (In_nth _ _ [] Hr0) as [i [Hi Hnth]].
    rewrite (wf_length _ _ _ HM) in Hi. rewrite <- Hnth. apply (wf_row _ _ _ _ HM Hi).
Qed.

(* an all_entries test from pointwise facts *)
Lemma all_entries_of_mget p n m P : wf n m P ->
  (forall i j, i < n -> j < m -> p (mget P i j) = true) -> all_entries p P = true.
Proof.
  intros HP H. unfold all_entries. apply forallb_forall. intros r Hr.
  apply forallb_forall. intros x Hx.
  destruct (In_nth _ _ [] Hr) as [i [Hi Hri]].
  destruct (In_nth _ _ 0%Qc Hx) as [j [Hj Hxj]].
  rewrite (wf_length _ _ _ HP) in Hi.
  assert (Hlen : length r = m) by (rewrite <- Hri; apply (wf_row _ _ _ _ HP Hi)).
  rewrite Hlen in Hj. specialize (H i j Hi Hj). unfold mget in H. rewrite Hri, Hxj in H. exact H.
Qed.

(* completeness in full generality: strongly connected and aperiodic support =>
   every entry of the power with the Wielandt exponent is positive *)
Lemma ergodic_complete n M : 0 < n -> wf n n M -> entries_nonneg M ->
  strongly_connected (supp M) -> aperiodic (supp M) ->
  forall i j, i < n -> j < n -> (0 < mget (mpow M (wexp n)) i j)%Qc.
Proof.
  intros Hn HM NM Hsc Hap i j Hi Hj.
  apply (pos_pow_iff_walk n M (wexp n) i j Hn HM NM Hi Hj).
  apply (wielandt n (supp M) (bwf_supp n M HM) Hn Hsc Hap i j Hi Hj).
Qed.

(* the predicate that runs, characterised: for a matrix accepted as transition matrix whose
   Wielandt power has no entry in (0, 1e-8], "ergodic" is reported exactly when the transition
   graph is strongly connected and aperiodic *)
Definition power_threshold_free (n : nat) (M : mat) : Prop :=
  forall i j, i < n -> j < n ->
    mget (mpow M (wexp n)) i j = 0%Qc \/ (atol8 < mget (mpow M (wexp n)) i j)%Qc.

Theorem is_ergodic_iff_graph n M : 0 < n -> wf n n M -> entries_nonneg M -> rows_sum_one M ->
  is_tmat atol8 M = true -> power_threshold_free n M ->
  (is_ergodic atol8 M = true <-> strongly_connected (supp M) /\ aperiodic (supp M)).
Proof.
  intros Hn HM NM SM Ht Hfree. split.
  - intros He. destruct (ergodic_sound n M Hn HM NM SM He) as [H1 [H2 _]]. split; assumption.
  - intros [Hsc Hap]. rewrite (is_ergodic_unfold n M Hn HM), Ht. cbn [andb].
    assert (HP : wf n n (mpow M (wexp n))) by (apply wf_mpow; assumption).
    apply (all_entries_of_mget _ n n _ HP). intros i j Hi Hj.
    apply Qc_ltb_iff.
    destruct (Hfree i j Hi Hj) as [H0|Hgt]; [|exact Hgt].
    exfalso. assert (Hpos := ergodic_complete n M Hn HM NM Hsc Hap i j Hi Hj).
    rewrite H0 in Hpos. exact (Qclt_irrefl _ Hpos).
Qed.

Lemma ball_of_bget n B : bwf n B ->
  (forall i j, i < n -> j < n -> bget B i j = true) -> ball B = true.
Proof.
  intros [Hlen Hrows] H. unfold ball. apply forallb_forall. intros r Hr.
  apply forallb_forall. intros x Hx.
  destruct (In_nth _ _ [] Hr) as [i [Hi Hri]].
  destruct (In_nth _ _ false Hx) as [j [Hj Hxj]].
  rewrite Hlen in Hi. rewrite (Hrows r Hr) in Hj.
  specialize (H i j Hi Hj). unfold bget in H. rewrite Hri, Hxj in H. exact H.
Qed.

(* the boolean power test with the Wielandt exponent decides "strongly connected and
   aperiodic" for EVERY size (the exhaustive enumeration of ErgodicFinite covers n <= 4 only) *)
Theorem bpow_wexp_iff_graph n G : bwf n G -> 0 < n ->
  (ball (bpow G (wexp n)) = true <-> strongly_connected G /\ aperiodic G).
Proof.
  intros HG Hn. split.
  - intros Hb.
    assert (Hw : forall i j, i < n -> j < n -> walk G (wexp n) i j).
    { intros i j Hi Hj. apply (bpow_walk n G (wexp n) i j HG Hi Hj).
      apply (ball_bget n _ i j (bwf_bpow n G _ HG) Hb Hi Hj). }
    assert (Hlen : length G = n) by exact (proj1 HG). split.
    + intros i j Hi Hj. rewrite Hlen in Hi, Hj. exists (wexp n). apply Hw; assumption.
    + intros d Hd.
      assert (H1 : Nat.divide d (wexp n)).
      { apply (Hd 0 (wexp n)); [rewrite Hlen; exact Hn|apply wexp_pos|apply Hw; assumption]. }
      assert (H2 : Nat.divide d (S (wexp n))).
      { assert (Hk : exists k, wexp n = S k) by (exists (wexp n - 1); pose proof (wexp_pos n); lia).
        destruct Hk as [k Hk]. pose proof (Hw 0 0 Hn Hn) as H00. rewrite Hk in H00.
        cbn [walk] in H00. destruct H00 as [m [Hm [Hb0 _]]].
        apply (Hd 0 (S (wexp n))); [rewrite Hlen; exact Hn|lia|].
        cbn [walk]. exists m. split; [exact Hm|]. split; [exact Hb0|].
        rewrite Hlen in Hm. apply Hw; assumption. }
      assert (H3 : Nat.divide d 1).
      { replace 1 with (S (wexp n) - wexp n) by lia. apply Nat.divide_sub_r; assumption. }
      apply Nat.divide_1_r in H3. exact H3.
  - intros [Hsc Hap]. apply (ball_of_bget n _ (bwf_bpow n G _ HG)). intros i j Hi Hj.
    apply (bpow_walk n G (wexp n) i j HG Hi Hj).
    apply (wielandt n G HG Hn Hsc Hap i j Hi Hj).
Qed.
