(* C14: for all transition graphs on at most 4 vertices, the power test with the Wielandt
   exponent agrees with the independent graph test (strong connectivity by lazy closure
   and period 1) - exhaustive enumeration inside the kernel (vm_compute), lifted to a
   quantified statement. *)
From Coq Require Import List Arith Bool Lia.
From MsmV Require Import Model.Ergodic Proofs.ErgodicFacts.
Import ListNotations.

Fixpoint all_rows (n : nat) : list (list bool) :=
  match n with
  | O => [[]]
  | S k => flat_map (fun r => [true :: r; false :: r]) (all_rows k)
  end.
Fixpoint all_lists {A} (rows : list A) (n : nat) : list (list A) :=
  match n with
  | O => [[]]
  | S k => flat_map (fun g => map (fun r => r :: g) rows) (all_lists rows k)
  end.
Definition all_graphs (n : nat) : list bmat := all_lists (all_rows n) n.

Definition agree (G : bmat) : bool :=
  Bool.eqb (graph_ergodic G) (ball (bpow G (wexp (length G)))).

Lemma all_rows_complete n r : length r = n -> In r (all_rows n).
Proof.
  revert r; induction n as [|n IH]; intros r H.
  - destruct r; [left; reflexivity|discriminate].
  - destruct r as [|b r]; [discriminate|]. simpl. apply in_flat_map. exists r. split; [apply IH; simpl in H; lia|].
    destruct b; simpl; auto.
Qed.
Lemma all_lists_complete {A} (rows : list A) n g : length g = n -> (forall r, In r g -> In r rows) -> In g (all_lists rows n).
Proof.
  revert g; induction n as [|n IH]; intros g H Hin.
  - destruct g; [left; reflexivity|discriminate].
  - destruct g as [|r g]; [discriminate|]. simpl. apply in_flat_map. exists g. split.
    + apply IH; [simpl in H; lia|]. intros r' Hr'. apply Hin. right. exact Hr'.
    + apply (in_map (fun r0 => r0 :: g)). apply Hin. left. reflexivity.
Qed.
Lemma all_graphs_complete n G : bwf n G -> In G (all_graphs n).
Proof.
  intros [H1 H2]. apply all_lists_complete; [exact H1|]. intros r Hr. apply all_rows_complete. apply H2. exact Hr.
Qed.

Lemma agree_le3 : forallb agree (all_graphs 1 ++ all_graphs 2 ++ all_graphs 3) = true.
Proof. vm_compute. reflexivity. Qed.
Lemma agree_4 : forallb agree (all_graphs 4) = true.
Proof. vm_compute. reflexivity. Qed.

(* bound in the statement: 1 <= n <= 4 *)
Lemma wielandt_le4 n G : bwf n G -> 1 <= n -> n <= 4 ->
  graph_ergodic G = ball (bpow G (wexp n)).
Proof.
  intros Hwf H1 H4. pose proof (all_graphs_complete n G Hwf) as Hin.
  assert (Hlen : length G = n) by (destruct Hwf as [H _]; exact H).
  assert (Ha : agree G = true).
  { destruct n as [|[|[|[|[|n]]]]]; try lia.
    - pose proof agree_le3 as H. rewrite forallb_forall in H. apply H. apply in_or_app. left. exact Hin.
    - pose proof agree_le3 as H. rewrite forallb_forall in H. apply H. apply in_or_app. right. apply in_or_app. left. exact Hin.
    - pose proof agree_le3 as H. rewrite forallb_forall in H. apply H. apply in_or_app. right. apply in_or_app. right. exact Hin.
    - pose proof agree_4 as H. rewrite forallb_forall in H. apply H. exact Hin. }
  unfold agree in Ha. rewrite Hlen in Ha. apply Bool.eqb_prop in Ha. exact Ha.
Qed.
