From Coq Require Import List ZArith Arith Bool.
From MsmV Require Import Lib.Result Lib.PyList Model.StateTraj Model.Heap.
Import ListNotations.

Lemma step_priv w o : priv (step w o) = priv w.
Proof. destruct o; reflexivity. Qed.

Lemma run_priv ops : forall w, priv (fold_left step ops w) = priv w.
Proof. induction ops as [|o ops IH]; intros w; simpl; [reflexivity|]. rewrite IH. apply step_priv. Qed.

(* no sequence of reads, writes into returned arrays or into the constructor
   arguments changes anything the object reports *)
Lemma isolation ops w a : observe a (fold_left step ops w) = observe a w.
Proof. unfold observe. now rewrite run_priv. Qed.

Lemma rebuild_same w : step w Rebuild = w.
Proof. reflexivity. Qed.
