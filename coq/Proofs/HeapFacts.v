From Coq Require Import List ZArith Arith Bool.
From MsmV Require Import Lib.Result Lib.PyList Model.StateTraj Model.Heap.
Import ListNotations.

Lemma step_priv w o : priv (step w o) = priv w.
Proof. destruct o; reflexivity. Qed.

Lemma run_priv ops : forall w, priv (fold_left step ops w) = priv w.
Proof. induction ops as [|o ops IH]; intros w; simpl; [reflexivity|]. rewrite IH. apply step_priv. Qed.

(* no sequence of reads, writes into returned arrays or into the constructor
   arguments changes anything the object reports *)
Lemma isolation ops w a : observe a (fold_left step ops w) = observe a w.
Proof. unfold observe. now rewrite run_priv. Qed.

Lemma rebuild_same w : step w Rebuild = w.
Proof. reflexivity. Qed.

(* a call never writes an existing array: every array the caller held before is unchanged *)
Lemma api_frame w args f k : k < length (user w) ->
  nth k (user (api_call w args f)) [] = nth k (user w) [].
Proof. intros H. unfold api_call. cbn [user]. now rewrite app_nth1. Qed.

(* the result depends on the argument VALUES only: equal argument values, equal results,
   whatever else the two worlds contain *)
Lemma api_deterministic w w' args f :
  map (fun k => nth k (user w) []) args = map (fun k => nth k (user w') []) args ->
  skipn (length (user w)) (user (api_call w args f)) = skipn (length (user w')) (user (api_call w' args f)).
Proof.
  intros H. unfold api_call. cbn [user].
  rewrite !skipn_app, !Nat.sub_diag, !skipn_all. cbn [skipn app]. now rewrite H.
Qed.

(* calls compose: after any sequence of calls, all originally held arrays are unchanged *)
Lemma api_calls_frame (calls : list (list nat * (list (list Z) -> list (list Z)))) : forall w k,
  k < length (user w) ->
  nth k (user (fold_left (fun w c => api_call w (fst c) (snd c)) calls w)) [] = nth k (user w) [].
Proof.
  induction calls as [|c cs IH]; intros w k H; simpl; [reflexivity|].
  rewrite IH; [apply api_frame; exact H|]. unfold api_call. cbn [user]. rewrite app_length. apply Nat.lt_lt_add_r. exact H.
Qed.
