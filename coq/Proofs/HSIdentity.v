(* C03: when every macrostate holds exactly one microstate (the aggregation matrix is a
   permutation matrix) the Hummer-Szabo matrix is the microstate model itself, re-indexed *)
From Coq Require Import List ZArith Arith Bool Lia QArith Qcanon.
From MsmV Require Import Lib.Result Lib.PyList Lib.QMat Model.Ergodic Model.Peq Model.HS Proofs.QMatFacts Proofs.HSFacts.
Import ListNotations.
Local Open Scope nat_scope.

Section Identity.
Variables (n : nat) (T : mat) (pi : vec) (A Z M2 : mat).
Hypothesis Hn : 0 < n.
Hypothesis HT : wf n n T.
Hypothesis Hpi : length pi = n.
Hypothesis HA : wf n n A.
Hypothesis HZ : wf n n Z.
Hypothesis HM2 : wf n n M2.
Hypothesis T1 : rows_sum_one T.
Hypothesis piT : vmul pi T = pi.
Hypothesis pi1 : qsum pi = 1%Qc.
Hypothesis pipos : forall x, In x pi -> x <> 0%Qc.        (* every microstate is populated *)
Hypothesis A1 : rows_sum_one A.
(* A is a permutation matrix *)
Hypothesis AAt : mmul A (transpose A) = identity n.
Hypothesis AtA : mmul (transpose A) A = identity n.
Let K := msub (madd (identity n) (outer (ones n) pi)) T.
Let pA := vmul pi A.
Let N := mmul (transpose A) (mmul (diag pi) (mmul Z A)).
Let TA := msub (madd (identity n) (outer (ones n) pA)) (mmul M2 (diag pA)).
Hypothesis KZ : mmul K Z = identity n.
Hypothesis ZK : mmul Z K = identity n.
Hypothesis NM : mmul N M2 = identity n.
Hypothesis MN : mmul M2 N = identity n.

(* the lumped matrix is A^T T A: the microstate model in the order of the macrostate labels *)
Lemma hs_identity_lumping : TA = mmul (transpose A) (mmul T A).
Proof. TODO. Qed.
End Identity.
