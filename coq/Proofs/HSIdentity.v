(* C03: when every macrostate holds exactly one microstate (the aggregation matrix is a
   permutation matrix) the Hummer-Szabo matrix is the microstate model itself, re-indexed *)
From Coq Require Import List ZArith Arith Bool Lia QArith Qcanon.
From MsmV Require Import Lib.Result Lib.PyList Lib.QMat Model.Ergodic Model.Peq Model.HS Proofs.QMatFacts Proofs.HSFacts.
Import ListNotations.
Local Open Scope nat_scope.

(* ------------------------------------------------------------------ *)
(* helpers: the matrix product distributes over entrywise sums          *)
(* ------------------------------------------------------------------ *)
Lemma mmul_madd_l n p m B C A : 0 < p -> wf n p B -> wf n p C -> wf p m A ->
  mmul (madd B C) A = madd (mmul B A) (mmul C A).
Proof.
  intros Hp HB HC HA.
  assert (HBC := wf_madd n p B C HB HC).
  assert (HBA := wf_mmul n p m B A Hp HB HA).
  assert (HCA := wf_mmul n p m C A Hp HC HA).
  apply (mat_ext n m).
  - apply (wf_mmul n p m); assumption.
  - apply wf_madd; assumption.
  - intros i j Hi Hj.
    rewrite (mget_mmul n p m _ A i j Hp HBC HA Hi Hj).
    rewrite (mget_madd n m _ _ i j HBA HCA Hi Hj).
    rewrite (mget_mmul n p m B A i j Hp HB HA Hi Hj), (mget_mmul n p m C A i j Hp HC HA Hi Hj).
    rewrite <- qsum_map_plus. apply qsum_map_ext. intros k Hk. apply in_seq in Hk.
    rewrite (mget_madd n p B C i k HB HC Hi) by lia. ring.
Qed.

Lemma mmul_msub_l n p m B C A : 0 < p -> wf n p B -> wf n p C -> wf p m A ->
  mmul (msub B C) A = msub (mmul B A) (mmul C A).
Proof.
  intros Hp HB HC HA.
  assert (HBC := wf_msub n p B C HB HC).
  assert (HBA := wf_mmul n p m B A Hp HB HA).
  assert (HCA := wf_mmul n p m C A Hp HC HA).
  apply (mat_ext n m).
  - apply (wf_mmul n p m); assumption.
  - apply wf_msub; assumption.
  - intros i j Hi Hj.
    rewrite (mget_mmul n p m _ A i j Hp HBC HA Hi Hj).
    rewrite (mget_msub n m _ _ i j HBA HCA Hi Hj).
    rewrite (mget_mmul n p m B A i j Hp HB HA Hi Hj), (mget_mmul n p m C A i j Hp HC HA Hi Hj).
    rewrite <- qsum_map_minus. apply qsum_map_ext. intros k Hk. apply in_seq in Hk.
    rewrite (mget_msub n p B C i k HB HC Hi) by lia. ring.
Qed.

Lemma mmul_madd_r n p m A B C : 0 < p -> wf n p A -> wf p m B -> wf p m C ->
  mmul A (madd B C) = madd (mmul A B) (mmul A C).
Proof.
  intros Hp HA HB HC.
  assert (HBC := wf_madd p m B C HB HC).
  assert (HAB := wf_mmul n p m A B Hp HA HB).
  assert (HAC := wf_mmul n p m A C Hp HA HC).
  apply (mat_ext n m).
  - apply (wf_mmul n p m); assumption.
  - apply wf_madd; assumption.
  - intros i j Hi Hj.
    rewrite (mget_mmul n p m A _ i j Hp HA HBC Hi Hj).
    rewrite (mget_madd n m _ _ i j HAB HAC Hi Hj).
    rewrite (mget_mmul n p m A B i j Hp HA HB Hi Hj), (mget_mmul n p m A C i j Hp HA HC Hi Hj).
    rewrite <- qsum_map_plus. apply qsum_map_ext. intros k Hk. apply in_seq in Hk.
    rewrite (mget_madd p m B C k j HB HC) by lia. ring.
Qed.

Lemma mmul_msub_r n p m A B C : 0 < p -> wf n p A -> wf p m B -> wf p m C ->
  mmul A (msub B C) = msub (mmul A B) (mmul A C).
Proof.
  intros Hp HA HB HC.
  assert (HBC := wf_msub p m B C HB HC).
  assert (HAB := wf_mmul n p m A B Hp HA HB).
  assert (HAC := wf_mmul n p m A C Hp HA HC).
  apply (mat_ext n m).
  - apply (wf_mmul n p m); assumption.
  - apply wf_msub; assumption.
  - intros i j Hi Hj.
    rewrite (mget_mmul n p m A _ i j Hp HA HBC Hi Hj).
    rewrite (mget_msub n m _ _ i j HAB HAC Hi Hj).
    rewrite (mget_mmul n p m A B i j Hp HA HB Hi Hj), (mget_mmul n p m A C i j Hp HA HC Hi Hj).
    rewrite <- qsum_map_minus. apply qsum_map_ext. intros k Hk. apply in_seq in Hk.
    rewrite (mget_msub p m B C k j HB HC) by lia. ring.
Qed.

(* rank-one matrices *)
Lemma wf_outer' n m u v : length u = n -> length v = m -> wf n m (outer u v).
Proof. intros Hu Hv. assert (HO := wf_outer u v). rewrite Hu, Hv in HO. exact HO. Qed.

Lemma mmul_outer_l n p m u v M : 0 < p -> length u = n -> length v = p -> wf p m M ->
  mmul (outer u v) M = outer u (vmul v M).
Proof.
  intros Hp Hu Hv HM.
  assert (HO := wf_outer' n p u v Hu Hv).
  assert (HvM : length (vmul v M) = m) by (apply (length_vmul p m); assumption).
  apply (mat_ext n m).
  - apply (wf_mmul n p m); assumption.
  - apply wf_outer'; assumption.
  - intros i j Hi Hj.
    rewrite (mget_mmul n p m _ M i j Hp HO HM Hi Hj).
    rewrite mget_outer by lia.
    rewrite (nth_vmul p m v M j Hp Hv HM Hj), <- qsum_map_scale_l.
    apply qsum_map_ext. intros k Hk. apply in_seq in Hk.
    rewrite mget_outer by lia. ring.
Qed.

Lemma mmul_outer_r n p m M u v : 0 < p -> wf n p M -> length u = p -> length v = m ->
  mmul M (outer u v) = outer (mvec M u) v.
Proof.
  intros Hp HM Hu Hv.
  assert (HO := wf_outer' p m u v Hu Hv).
  assert (HMu : length (mvec M u) = n) by (rewrite length_mvec; apply (wf_length _ _ _ HM)).
  apply (mat_ext n m).
  - apply (wf_mmul n p m); assumption.
  - apply wf_outer'; assumption.
  - intros i j Hi Hj.
    rewrite (mget_mmul n p m M _ i j Hp HM HO Hi Hj).
    rewrite mget_outer by lia.
    rewrite (nth_mvec n p M u i HM Hu Hi), <- qsum_map_scale_r.
    apply qsum_map_ext. intros k Hk. apply in_seq in Hk.
    rewrite mget_outer by lia. ring.
Qed.

(* ------------------------------------------------------------------ *)
(* the algebraic core, for an abstract A with  A A^T = A^T A = I,       *)
(* A 1 = 1  and  A diag(pi A) = diag(pi) A                              *)
(* ------------------------------------------------------------------ *)
Section Gen.
Variables (n : nat) (T : mat) (pi : vec) (A Z M2 : mat).
Hypothesis Hn : 0 < n.
Hypothesis HT : wf n n T.
Hypothesis Hpi : length pi = n.
Hypothesis HA : wf n n A.
Hypothesis HZ : wf n n Z.
Hypothesis HM2 : wf n n M2.
Hypothesis A1 : rows_sum_one A.
Hypothesis AAt : mmul A (transpose A) = identity n.
Hypothesis AtA : mmul (transpose A) A = identity n.
Let K := msub (madd (identity n) (outer (ones n) pi)) T.
Let pA := vmul pi A.
(* column b of A is supported on the microstates whose weight is (pi A)_b *)
Hypothesis ADA : mmul A (diag pA) = mmul (diag pi) A.
Let N := mmul (transpose A) (mmul (diag pi) (mmul Z A)).
Let TA := msub (madd (identity n) (outer (ones n) pA)) (mmul M2 (diag pA)).
Hypothesis ZK : mmul Z K = identity n.
Hypothesis MN : mmul M2 N = identity n.

Let gen_wfAt : wf n n (transpose A).
Proof. apply wf_transpose; assumption. Qed.
Let gen_wfK : wf n n K.
Proof. unfold K. apply wf_ipm; assumption. Qed.
Let gen_len_pA : length pA = n.
Proof. unfold pA. apply (length_vmul n n); assumption. Qed.
Let gen_wfD : wf n n (diag pi).
Proof. assert (HD := wf_diag pi). rewrite Hpi in HD. exact HD. Qed.
Let gen_wfDA : wf n n (diag pA).
Proof. assert (HD := wf_diag pA). rewrite gen_len_pA in HD. exact HD. Qed.
Let gen_wfO : wf n n (outer (ones n) pi).
Proof. apply wf_outer'; [apply length_ones|exact Hpi]. Qed.
Let gen_wfOA : wf n n (outer (ones n) pA).
Proof. apply wf_outer'; [apply length_ones|exact gen_len_pA]. Qed.

Ltac wfs := repeat first
  [ assumption | apply wf_identity | apply (wf_mmul n n n) | apply wf_madd | apply wf_msub ].

Let assoc X Y W : wf n n X -> wf n n Y -> wf n n W -> mmul (mmul X Y) W = mmul X (mmul Y W).
Proof. intros HX HY HW. apply (mmul_assoc n n n n); assumption. Qed.

(* A^T 1 = 1 *)
Let gen_At1 : mvec (transpose A) (ones n) = ones n.
Proof.
  rewrite <- (mvec_ones n n A HA A1) at 1.
  rewrite <- (mvec_mmul n n n (transpose A) A _ Hn gen_wfAt HA (length_ones n)), AtA.
  apply mvec_identity, length_ones.
Qed.

(* N (A^T K A) = diag (pi A) *)
Let gen_NY : mmul N (mmul (transpose A) (mmul K A)) = diag pA.
Proof.
  unfold N.
  rewrite (assoc (transpose A) (mmul (diag pi) (mmul Z A))) by wfs.
  rewrite (assoc (diag pi) (mmul Z A)) by wfs.
  rewrite (assoc Z A) by wfs.
  rewrite <- (assoc A (transpose A) (mmul K A)) by wfs.
  rewrite AAt, (mmul_identity_l n n (mmul K A)) by wfs.
  rewrite <- (assoc Z K A) by wfs.
  rewrite ZK, (mmul_identity_l n n A) by wfs.
  rewrite <- ADA, <- (assoc (transpose A) A (diag pA)) by wfs.
  rewrite AtA. apply (mmul_identity_l n n); wfs.
Qed.

(* hence M2 diag(pi A) = A^T K A *)
Let gen_M2D : mmul M2 (diag pA) = mmul (transpose A) (mmul K A).
Proof.
  rewrite <- gen_NY.
  assert (HN : wf n n N) by (unfold N; wfs).
  rewrite <- (assoc M2 N) by wfs.
  rewrite MN. apply (mmul_identity_l n n); wfs.
Qed.

(* A^T K A = I + 1 (pi A) - A^T T A *)
Let gen_AtKA : mmul (transpose A) (mmul K A) =
  msub (madd (identity n) (outer (ones n) pA)) (mmul (transpose A) (mmul T A)).
Proof.
  unfold K.
  rewrite (mmul_msub_l n n n _ T A) by wfs.
  rewrite (mmul_madd_l n n n _ _ A) by wfs.
  rewrite (mmul_identity_l n n A) by wfs.
  rewrite (mmul_outer_l n n n (ones n) pi A Hn (length_ones n) Hpi HA).
  fold pA.
  rewrite (mmul_msub_r n n n (transpose A)) by wfs.
  rewrite (mmul_madd_r n n n (transpose A)) by wfs.
  rewrite AtA.
  rewrite (mmul_outer_r n n n (transpose A) (ones n) pA Hn gen_wfAt (length_ones n) gen_len_pA).
  rewrite gen_At1. reflexivity.
Qed.

Lemma hs_identity_lumping_gen : TA = mmul (transpose A) (mmul T A).
Proof.
  unfold TA. rewrite gen_M2D, gen_AtKA.
  assert (HW : wf n n (mmul (transpose A) (mmul T A))) by wfs.
  assert (HIO : wf n n (madd (identity n) (outer (ones n) pA))) by wfs.
  apply (mat_ext n n); [wfs|exact HW|].
  intros i j Hi Hj.
  rewrite (mget_msub n n _ _ i j HIO (wf_msub n n _ _ HIO HW) Hi Hj).
  rewrite (mget_msub n n _ _ i j HIO HW Hi Hj). ring.
Qed.
End Gen.

(* ------------------------------------------------------------------ *)
(* the aggregation matrix of a bijective assignment                    *)
(* ------------------------------------------------------------------ *)
Lemma mget_aggregation nm aidx i j : i < length aidx -> j < nm ->
  mget (aggregation nm aidx) i j = (if Nat.eqb (nth i aidx 0%nat) j then 1 else 0)%Qc.
Proof.
  intros Hi Hj. unfold mget, aggregation.
  rewrite (nth_map_lt _ aidx i [] 0 Hi).
  rewrite (nth_map_seq _ nm j 0%Qc Hj). reflexivity.
Qed.

Section Perm.
Variables (n : nat) (aidx : list nat).
Hypothesis Hn : 0 < n.
Hypothesis Hlen : length aidx = n.
Hypothesis Hnd : NoDup aidx.
Hypothesis Hlt : forall a, In a aidx -> a < n.
Let A := aggregation n aidx.

Lemma perm_wf : wf n n A.
Proof. unfold A. rewrite <- Hlen at 1. apply aggregation_rows. exact Hlt. Qed.

Lemma perm_rows : rows_sum_one A.
Proof. apply aggregation_rows. exact Hlt. Qed.

Lemma perm_mget i j : i < n -> j < n ->
  mget A i j = (if Nat.eqb (nth i aidx 0%nat) j then 1 else 0)%Qc.
Proof. intros Hi Hj. apply mget_aggregation; lia. Qed.

Lemma perm_lt i : i < n -> nth i aidx 0%nat < n.
Proof. intros Hi. apply Hlt, nth_In. lia. Qed.

Lemma perm_inj i j : i < n -> j < n -> nth i aidx 0%nat = nth j aidx 0%nat -> i = j.
Proof. intros Hi Hj E. apply (proj1 (NoDup_nth aidx 0%nat) Hnd); lia. Qed.

Lemma perm_surj a : a < n -> exists i, i < n /\ nth i aidx 0%nat = a.
Proof.
  intros Ha. assert (Hin : In a aidx).
  { apply (NoDup_length_incl (l := aidx) (l' := seq 0 n) Hnd).
    - rewrite seq_length. lia.
    - intros x Hx. apply in_seq. specialize (Hlt x Hx). lia.
    - apply in_seq. lia. }
  destruct (In_nth aidx a 0 Hin) as [i [Hi E]]. exists i. split; [lia|exact E].
Qed.

(* A A^T = I *)
Lemma perm_AAt : mmul A (transpose A) = identity n.
Proof.
  assert (HA := perm_wf). assert (HAt := wf_transpose n n A Hn HA).
  apply (mat_ext n n); [apply (wf_mmul n n n); assumption|apply wf_identity|].
  intros i j Hi Hj.
  rewrite (mget_mmul n n n A _ i j Hn HA HAt Hi Hj), mget_identity by assumption.
  transitivity (qsum (map (fun k => ((if Nat.eqb (nth i aidx 0%nat) k then 1 else 0) *
                                     (if Nat.eqb (nth j aidx 0%nat) k then 1 else 0))%Qc) (seq 0 n))).
  { apply qsum_map_ext. intros k Hk. apply in_seq in Hk.
    rewrite (mget_transpose n n A k j Hn HA) by lia.
    rewrite !perm_mget by lia. reflexivity. }
  rewrite (qsum_delta (fun k => (if Nat.eqb (nth j aidx 0%nat) k then 1 else 0)%Qc) _ n (perm_lt i Hi)).
  destruct (Nat.eqb_spec (nth j aidx 0%nat) (nth i aidx 0%nat)) as [E|E];
    destruct (Nat.eqb_spec i j) as [E'|E']; try reflexivity.
  - exfalso. apply E'. symmetry. apply perm_inj; assumption.
  - exfalso. apply E. rewrite E'. reflexivity.
Qed.

(* A^T A = I *)
Lemma perm_AtA : mmul (transpose A) A = identity n.
Proof.
  assert (HA := perm_wf). assert (HAt := wf_transpose n n A Hn HA).
  apply (mat_ext n n); [apply (wf_mmul n n n); assumption|apply wf_identity|].
  intros a b Ha Hb.
  rewrite (mget_mmul n n n _ A a b Hn HAt HA Ha Hb), mget_identity by assumption.
  destruct (perm_surj a Ha) as [i0 [Hi0 E0]].
  transitivity (qsum (map (fun i => ((if Nat.eqb i0 i then 1 else 0) *
                                     (if Nat.eqb (nth i aidx 0%nat) b then 1 else 0))%Qc) (seq 0 n))).
  { apply qsum_map_ext. intros i Hi. apply in_seq in Hi.
    rewrite (mget_transpose n n A a i Hn HA) by lia.
    rewrite !perm_mget by lia. f_equal.
    destruct (Nat.eqb_spec (nth i aidx 0%nat) a) as [E|E];
      destruct (Nat.eqb_spec i0 i) as [E'|E']; try reflexivity.
    - exfalso. apply E'. apply perm_inj; [assumption|lia|]. rewrite E0, E. reflexivity.
    - exfalso. apply E. rewrite <- E'. exact E0. }
  rewrite (qsum_delta (fun i => (if Nat.eqb (nth i aidx 0%nat) b then 1 else 0)%Qc) i0 n Hi0).
  rewrite E0. reflexivity.
Qed.

(* A diag(pi A) = diag(pi) A *)
Lemma perm_ADA pi : length pi = n ->
  mmul A (diag (vmul pi A)) = mmul (diag pi) A.
Proof.
  intros Hpi. assert (HA := perm_wf).
  assert (HpA : length (vmul pi A) = n) by (apply (length_vmul n n); assumption).
  assert (HD : wf n n (diag pi)) by (assert (HD := wf_diag pi); rewrite Hpi in HD; exact HD).
  assert (HDA : wf n n (diag (vmul pi A)))
    by (assert (HD' := wf_diag (vmul pi A)); rewrite HpA in HD'; exact HD').
  apply (mat_ext n n); [apply (wf_mmul n n n); assumption|apply (wf_mmul n n n); assumption|].
  intros i b Hi Hb.
  rewrite (mget_mmul n n n A _ i b Hn HA HDA Hi Hb).
  rewrite (mget_mmul n n n _ A i b Hn HD HA Hi Hb).
  transitivity (mget A i b * nth b (vmul pi A) 0)%Qc.
  { rewrite <- (qsum_delta_r (fun k => (mget A i k * nth b (vmul pi A) 0)%Qc) b n Hb).
    apply qsum_map_ext. intros k Hk. apply in_seq in Hk.
    rewrite mget_diag by lia. ring. }
  transitivity (nth i pi 0 * mget A i b)%Qc.
  2:{ rewrite <- (qsum_delta (fun k => (nth k pi 0 * mget A k b)%Qc) i n Hi).
      apply qsum_map_ext. intros k Hk. apply in_seq in Hk.
      rewrite mget_diag by lia. ring. }
  rewrite perm_mget by assumption.
  destruct (Nat.eqb_spec (nth i aidx 0%nat) b) as [E|E]; [|ring].
  rewrite (nth_vmul n n pi A b Hn Hpi HA Hb).
  rewrite Qcmult_1_l, Qcmult_1_r.
  rewrite <- (qsum_delta_r (fun k => nth k pi 0%Qc) i n Hi).
  apply qsum_map_ext. intros k Hk. apply in_seq in Hk.
  rewrite perm_mget by lia. f_equal.
  destruct (Nat.eqb_spec (nth k aidx 0%nat) b) as [E1|E1];
    destruct (Nat.eqb_spec k i) as [E2|E2]; try reflexivity.
  - exfalso. apply E2. apply perm_inj; [lia|assumption|]. rewrite E1, E. reflexivity.
  - exfalso. apply E1. rewrite E2. exact E.
Qed.
End Perm.

(* Remark: with an abstract A that is only assumed to satisfy A A^T = A^T A = I and
   A 1 = 1 the claim is false (an orthogonal matrix with unit row sums need not be a
   permutation matrix): n = 3, T = [[1/2,1/2,0],[1/4,1/2,1/4],[0,1/2,1/2]],
   pi = [1/4,1/2,1/4], A = [[2/3,-1/3,2/3],[-1/3,2/3,2/3],[2/3,2/3,-1/3]] gives
   TA_00 = 29/54 but (A^T T A)_00 = 1/6. *)

Section Identity.
(* STATEMENT CHANGED: A specialised to aggregation n aidx with aidx a permutation *)
Variables (n : nat) (T : mat) (pi : vec) (aidx : list nat) (Z M2 : mat).
Hypothesis Hn : 0 < n.
Hypothesis HT : wf n n T.
Hypothesis Hpi : length pi = n.
(* every macrostate holds exactly one microstate: aidx is a permutation of 0..n-1 *)
Hypothesis Hlen : length aidx = n.
Hypothesis Hnd : NoDup aidx.
Hypothesis Hlt : forall a, In a aidx -> a < n.
Let A := aggregation n aidx.
Hypothesis HZ : wf n n Z.
Hypothesis HM2 : wf n n M2.
Let K := msub (madd (identity n) (outer (ones n) pi)) T.
Let pA := vmul pi A.
Let N := mmul (transpose A) (mmul (diag pi) (mmul Z A)).
Let TA := msub (madd (identity n) (outer (ones n) pA)) (mmul M2 (diag pA)).
(* only the left-inverse halves of the two certificates are used; the identity is purely
   algebraic: T 1 = 1, pi T = pi, pi 1 = 1, pi_i <> 0, K Z = I and N M2 = I are not needed *)
Hypothesis ZK : mmul Z K = identity n.
Hypothesis MN : mmul M2 N = identity n.

(* the lumped matrix is A^T T A: the microstate model in the order of the macrostate labels *)
Lemma hs_identity_lumping : TA = mmul (transpose A) (mmul T A).
Proof.
  unfold TA, pA, N, K, A in *.
  apply (hs_identity_lumping_gen n T pi (aggregation n aidx) Z M2); try assumption.
  - apply perm_wf; assumption.
  - apply perm_rows; assumption.
  - apply perm_AAt; assumption.
  - apply perm_AtA; assumption.
  - apply perm_ADA; assumption.
Qed.
End Identity.
