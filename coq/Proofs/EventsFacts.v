(* C06: waiting-time events, loop-erased paths, sorted-merge intersection *)
From Coq Require Import List ZArith Arith Bool Lia Permutation Sorted.
From MsmV Require Import Lib.Result Lib.PyList Lib.Sorting Model.Labels Model.StateTraj Model.Events.
Import ListNotations.
Local Open Scope nat_scope.

(* ---------- events ---------- *)

Lemma first_in_spec P s a : first_in P s = Some a ->
  a < length s /\ mem_Z (nth a s 0%Z) P = true /\
  (forall k, k < a -> mem_Z (nth k s 0%Z) P = false).
Proof.
  revert a; induction s as [|x rest IH]; intros a H; cbn [first_in] in H; [discriminate|].
  destruct (mem_Z x P) eqn:E.
  - injection H as <-. cbn [length nth]. split; [lia|]. split; [exact E|]. intros k Hk; lia.
  - destruct (first_in P rest) as [k0|]; [|discriminate]. injection H as <-.
    destruct (IH _ eq_refl) as (H1 & H2 & H3). cbn [length]. split; [lia|]. split; [exact H2|].
    intros k Hk. destruct k as [|k]; [exact E|]. cbn [nth]. apply H3. lia.
Qed.

Lemma nth_skipn_Z n (l : list Z) i d : nth i (skipn n l) d = nth (n + i) l d.
Proof.
  revert l; induction n as [|n IH]; intros l; [reflexivity|].
  destruct l as [|x xs]; [destruct i; reflexivity|]. cbn [skipn Nat.add nth]. apply IH.
Qed.

Lemma events_from_ref Ss F s : forall fuel off i0, length s <= fuel ->
  events_from off false i0 s Ss F = events_ref fuel off s Ss F /\
  events_from off true i0 s Ss F =
    match first_in F s with
    | None => []
    | Some b => (i0, off + b) :: events_ref fuel (off + b + 1) (skipn (b + 1) s) Ss F
    end.
Proof.
  induction s as [|x rest IH]; intros fuel off i0 Hf.
  - split; [destruct fuel; reflexivity | reflexivity].
  - cbn [length] in Hf. destruct fuel as [|f]; [lia|].
    assert (Hf1 : length rest <= f) by lia. assert (Hf2 : length rest <= S f) by lia.
    split.
    + cbn [events_from events_ref first_in negb andb].
      destruct (mem_Z x Ss) eqn:ES.
      * destruct (IH f (off+1) off Hf1) as [_ ->].
        change (skipn (0+1) (x :: rest)) with rest.
        destruct (first_in F rest) as [b|]; [|reflexivity].
        change (skipn (0+1+b+1) (x::rest)) with (skipn (b+1) rest).
        f_equal; [f_equal; lia|]. f_equal; lia.
      * destruct (IH (S f) (off+1) i0 Hf2) as [-> _].
        cbn [events_ref].
        destruct (first_in Ss rest) as [a|]; [|reflexivity].
        change (skipn (S a + 1) (x :: rest)) with (skipn (a + 1) rest).
        destruct (first_in F (skipn (a + 1) rest)) as [b|]; [|reflexivity].
        change (skipn (S a + 1 + b + 1) (x :: rest)) with (skipn (a + 1 + b + 1) rest).
        f_equal; [f_equal; lia|]. f_equal; lia.
    + cbn [events_from first_in negb andb].
      destruct (mem_Z x F) eqn:EF.
      * destruct (IH (S f) (off+1) i0 Hf2) as [-> _].
        change (skipn (0+1) (x :: rest)) with rest.
        f_equal; [f_equal; lia|]. f_equal; lia.
      * destruct (IH (S f) (off+1) i0 Hf2) as [_ ->].
        destruct (first_in F rest) as [b|]; [|reflexivity].
        change (skipn (S b + 1) (x :: rest)) with (skipn (b + 1) rest).
        f_equal; [f_equal; lia|]. f_equal; lia.
Qed.

(* the automaton equals the reference extraction *)
Lemma events_eq_ref t S F : events t S F = events_ref (length t) 0 t S F.
Proof. unfold events. apply (events_from_ref S F t (length t) 0 0). lia. Qed.

Lemma events_ref_facts Ss F fuel : forall off s p, In p (events_ref fuel off s Ss F) ->
  off <= fst p /\ fst p < snd p /\ snd p < off + length s /\
  mem_Z (nth (fst p - off) s 0%Z) Ss = true /\ mem_Z (nth (snd p - off) s 0%Z) F = true /\
  (forall k, fst p < k -> k < snd p -> mem_Z (nth (k - off) s 0%Z) F = false).
Proof.
  induction fuel as [|f IH]; intros off s p Hin; cbn [events_ref] in Hin; [contradiction|].
  destruct (first_in Ss s) as [a|] eqn:Ea; [|contradiction].
  destruct (first_in F (skipn (a + 1) s)) as [b|] eqn:Eb; [|contradiction].
  destruct (first_in_spec _ _ _ Ea) as (Ha1 & Ha2 & Ha3).
  destruct (first_in_spec _ _ _ Eb) as (Hb1 & Hb2 & Hb3).
  rewrite skipn_length in Hb1. rewrite nth_skipn_Z in Hb2.
  destruct Hin as [<-|Hin].
  - cbn [fst snd]. split; [lia|]. split; [lia|]. split; [lia|].
    split; [replace (off + a - off) with a by lia; exact Ha2|].
    split; [replace (off + a + 1 + b - off) with (a + 1 + b) by lia; exact Hb2|].
    intros k Hk1 Hk2. specialize (Hb3 (k - off - (a + 1))). rewrite nth_skipn_Z in Hb3.
    replace (a + 1 + (k - off - (a + 1))) with (k - off) in Hb3 by lia. apply Hb3. lia.
  - destruct (IH _ _ _ Hin) as (H1 & H2 & H3 & H4 & H5 & H6).
    rewrite skipn_length in H3. rewrite nth_skipn_Z in H4, H5.
    split; [lia|]. split; [lia|]. split; [lia|].
    split; [replace (fst p - off) with (a + 1 + b + 1 + (fst p - (off + a + 1 + b + 1))) by lia; exact H4|].
    split; [replace (snd p - off) with (a + 1 + b + 1 + (snd p - (off + a + 1 + b + 1))) by lia; exact H5|].
    intros k Hk1 Hk2. specialize (H6 k Hk1 Hk2). rewrite nth_skipn_Z in H6.
    replace (k - off) with (a + 1 + b + 1 + (k - (off + a + 1 + b + 1))) by lia; exact H6.
Qed.

(* every event lies inside the trajectory, start before end *)
Lemma events_ref_bounds fuel off s S F p : In p (events_ref fuel off s S F) ->
  off <= fst p /\ fst p < snd p /\ snd p < off + length s.
Proof.
  intros H. destruct (events_ref_facts _ _ _ _ _ _ H) as (H1 & H2 & H3 & _). auto.
Qed.

(* events are ordered and do not overlap: each starts after the previous one ended *)
Lemma events_ref_sorted fuel off s S F :
  StronglySorted (fun p q => snd p < fst q) (events_ref fuel off s S F).
Proof.
  revert off s; induction fuel as [|f IH]; intros off s; cbn [events_ref]; [constructor|].
  destruct (first_in S s) as [a|]; [|constructor].
  destruct (first_in F (skipn (a + 1) s)) as [b|]; [|constructor].
  constructor; [apply IH|]. apply Forall_forall. intros q Hq.
  apply events_ref_bounds in Hq. cbn [snd]. lia.
Qed.

(* an event starts at a frame in S, ends at the first later frame in F *)
Lemma events_sound t S F p : In p (events t S F) ->
  mem_Z (nth (fst p) t 0%Z) S = true /\ mem_Z (nth (snd p) t 0%Z) F = true /\
  (forall k, fst p < k -> k < snd p -> mem_Z (nth k t 0%Z) F = false).
Proof.
  rewrite events_eq_ref. intros H.
  destruct (events_ref_facts _ _ _ _ _ _ H) as (_ & _ & _ & H4 & H5 & H6).
  rewrite Nat.sub_0_r in H4, H5. split; [exact H4|]. split; [exact H5|].
  intros k Hk1 Hk2. specialize (H6 k Hk1 Hk2). rewrite Nat.sub_0_r in H6. exact H6.
Qed.

(* ---------- loop erasure ---------- *)
Definition adjacent (a b : Z) (l : list Z) : Prop := exists l1 l2, l = l1 ++ a :: b :: l2.

Lemma index_of_split x l k : index_of x l = Some k ->
  l = firstn k l ++ x :: skipn (Datatypes.S k) l /\ ~ In x (firstn k l).
Proof.
  revert k; induction l as [|y ys IH]; intros k H; cbn [index_of] in H; [discriminate|].
  destruct (Z.eqb_spec x y) as [->|Hne].
  - injection H as <-. split; [reflexivity|intros []].
  - destruct (index_of x ys) as [j|]; [|discriminate]. injection H as <-.
    destruct (IH _ eq_refl) as [H1 H2]. cbn [firstn skipn app]. split.
    + f_equal. exact H1.
    + intros [E|Hin]; [congruence|exact (H2 Hin)].
Qed.

Lemma index_of_None x l : index_of x l = None -> ~ In x l.
Proof.
  intros H Hin. destruct (index_of_In _ _ Hin) as [k Hk]. congruence.
Qed.

Lemma NoDup_firstn_Z k (l : list Z) : NoDup l -> NoDup (firstn k l).
Proof.
  revert k; induction l as [|y ys IH]; intros k H; [rewrite firstn_nil; constructor|].
  destruct k as [|k]; [constructor|]. cbn [firstn]. inversion H as [|? ? Hn Hd]; subst.
  constructor; [|apply IH; exact Hd]. intros Hin. apply Hn.
  rewrite <- (firstn_skipn k ys). apply in_or_app. left; exact Hin.
Qed.

Lemma NoDup_snoc_Z (l : list Z) x : NoDup l -> ~ In x l -> NoDup (l ++ [x]).
Proof.
  intros H1 H2. apply (Permutation_NoDup (Permutation_cons_append l x)).
  constructor; assumption.
Qed.

Lemma erase_step_nodup Ss path x : NoDup path -> NoDup (erase_step Ss path x).
Proof.
  intros H. unfold erase_step. destruct (mem_Z x Ss).
  - cbn [app]. constructor; [intros []|constructor].
  - destruct (index_of x path) as [k|] eqn:E.
    + destruct (index_of_split _ _ _ E) as [_ Hn].
      apply NoDup_snoc_Z; [apply NoDup_firstn_Z; exact H|exact Hn].
    + apply NoDup_snoc_Z; [exact H|apply index_of_None; exact E].
Qed.

Lemma loop_erase_snoc Ss slice x :
  loop_erase Ss (slice ++ [x]) = erase_step Ss (loop_erase Ss slice) x.
Proof. unfold loop_erase. rewrite fold_left_app. reflexivity. Qed.

Lemma loop_erase_nodup S slice : NoDup (loop_erase S slice).
Proof.
  induction slice as [|x l IH] using rev_ind; [constructor|].
  rewrite loop_erase_snoc. apply erase_step_nodup. exact IH.
Qed.

Lemma loop_erase_last S slice x : exists p, loop_erase S (slice ++ [x]) = p ++ [x].
Proof. rewrite loop_erase_snoc. unfold erase_step. eexists; reflexivity. Qed.

Lemma adjacent_snoc a b Q x : adjacent a b (Q ++ [x]) ->
  adjacent a b Q \/ ((exists Q', Q = Q' ++ [a]) /\ b = x).
Proof.
  intros (l1 & l2 & H). destruct l2 as [|y l2' _] using rev_ind.
  - right. change (l1 ++ [a; b]) with (l1 ++ [a] ++ [b]) in H. rewrite app_assoc in H.
    apply app_inj_tail in H as [H1 H2]. split; [exists l1; exact H1|congruence].
  - left. change (l1 ++ a :: b :: l2' ++ [y]) with (l1 ++ (a :: b :: l2') ++ [y]) in H.
    rewrite app_assoc in H. apply app_inj_tail in H as [H1 _]. exists l1, l2'. exact H1.
Qed.

Lemma adjacent_app_l a b l r : adjacent a b l -> adjacent a b (l ++ r).
Proof.
  intros (l1 & l2 & ->). exists l1, (l2 ++ r). rewrite <- app_assoc. reflexivity.
Qed.

(* consecutive labels of the path are directly observed transitions of the slice *)
Lemma loop_erase_steps S slice a b : adjacent a b (loop_erase S slice) -> adjacent a b slice.
Proof.
  revert a b; induction slice as [|x l IH] using rev_ind; intros a b H.
  - destruct H as (l1 & l2 & H). cbn in H. destruct l1; discriminate.
  - rewrite loop_erase_snoc in H. unfold erase_step in H.
    destruct (mem_Z x S).
    + destruct H as (l1 & l2 & H). destruct l1 as [|? [|? ?]]; discriminate.
    + destruct (index_of x (loop_erase S l)) as [k|] eqn:E.
      * destruct (index_of_split _ _ _ E) as [Hsp _].
        apply adjacent_snoc in H as [H|[[Q' HQ] ->]].
        -- apply adjacent_app_l. apply IH. rewrite Hsp. apply adjacent_app_l. exact H.
        -- apply adjacent_app_l. apply IH. rewrite Hsp, HQ.
           exists Q', (skipn (Datatypes.S k) (loop_erase S l)). rewrite <- app_assoc. reflexivity.
      * apply adjacent_snoc in H as [H|[[Q' HQ] ->]].
        -- apply adjacent_app_l. apply IH. exact H.
        -- destruct l as [|z l' _] using rev_ind.
           ++ cbn in HQ. destruct Q'; discriminate.
           ++ destruct (loop_erase_last S l' z) as [p Hp]. rewrite Hp in HQ.
              apply app_inj_tail in HQ as [_ ->]. exists l', []. rewrite <- app_assoc. reflexivity.
Qed.

Lemma erase_step_incl Ss path x y : In y (erase_step Ss path x) -> In y path \/ y = x.
Proof.
  unfold erase_step. intros H. apply in_app_or in H as [H|[H|[]]]; [|right; congruence].
  left. destruct (mem_Z x Ss); [destruct H|].
  destruct (index_of x path) as [k|]; [|exact H].
  rewrite <- (firstn_skipn k path). apply in_or_app. left; exact H.
Qed.

(* labels of the path occur in the slice *)
Lemma loop_erase_incl S slice x : In x (loop_erase S slice) -> In x slice.
Proof.
  induction slice as [|y l IH] using rev_ind; intros H; [destruct H|].
  rewrite loop_erase_snoc in H. apply erase_step_incl in H as [H| ->]; apply in_or_app.
  - left; apply IH; exact H.
  - right; left; reflexivity.
Qed.

Lemma erase_run_head Ss x post : mem_Z x Ss = true ->
  (forall y, In y post -> mem_Z y Ss = false) ->
  forall tl, (forall y, In y tl -> mem_Z y Ss = false) ->
  exists tl', fold_left (erase_step Ss) post (x :: tl) = x :: tl' /\
              (forall y, In y tl' -> mem_Z y Ss = false).
Proof.
  intros Hx. induction post as [|z post IH]; intros Hpost tl Htl.
  - exists tl. split; [reflexivity|exact Htl].
  - cbn [fold_left].
    assert (Hz : mem_Z z Ss = false) by (apply Hpost; left; reflexivity).
    assert (Hzx : (z =? x)%Z = false).
    { destruct (Z.eqb_spec z x) as [->|]; [congruence|reflexivity]. }
    assert (Hst : exists tl1, erase_step Ss (x :: tl) z = x :: tl1 /\
                              (forall y, In y tl1 -> mem_Z y Ss = false)).
    { unfold erase_step. rewrite Hz. cbn [index_of]. rewrite Hzx.
      destruct (index_of z tl) as [k|].
      - exists (firstn k tl ++ [z]). split; [reflexivity|].
        intros y Hy. apply in_app_or in Hy as [Hy|[<-|[]]]; [|exact Hz].
        apply Htl. rewrite <- (firstn_skipn k tl). apply in_or_app. left; exact Hy.
      - exists (tl ++ [z]). split; [reflexivity|].
        intros y Hy. apply in_app_or in Hy as [Hy|[<-|[]]]; [apply Htl; exact Hy|exact Hz]. }
    destruct Hst as (tl1 & -> & Htl1).
    apply IH; [intros y Hy; apply Hpost; right; exact Hy|exact Htl1].
Qed.

(* if the slice visits S, the path begins with the label of its LAST S-frame and
   contains no other label of S *)
Lemma loop_erase_head S pre x post :
  mem_Z x S = true -> (forall y, In y post -> mem_Z y S = false) ->
  exists tl, loop_erase S (pre ++ x :: post) = x :: tl /\ (forall y, In y tl -> mem_Z y S = false).
Proof.
  intros Hx Hpost. unfold loop_erase. rewrite fold_left_app. cbn [fold_left].
  unfold erase_step at 2. rewrite Hx. cbn [app].
  apply erase_run_head; [exact Hx|exact Hpost|intros y []].
Qed.

(* ---------- sorted-merge intersection ---------- *)
Lemma intersect_fuel_spec fuel : forall a b, length a + length b <= fuel ->
  ssorted a -> ssorted b ->
  intersect_fuel fuel a b = length (filter (fun x => mem_Z x b) a).
Proof.
  induction fuel as [|f IH]; intros a b Hf Ha Hb.
  - destruct a as [|x a']; [reflexivity|cbn [length] in Hf; lia].
  - cbn [intersect_fuel]. destruct a as [|x a']; [reflexivity|].
    destruct b as [|y b'].
    + clear. induction a' as [|z a' IH']; [reflexivity|]. cbn [filter mem_Z] in *. exact IH'.
    + cbn [length] in Hf.
      destruct (ssorted_inv _ _ Ha) as [Ha' Hlx]. destruct (ssorted_inv _ _ Hb) as [Hb' Hly].
      destruct (Z.eqb_spec x y) as [->|Hne].
      * rewrite (IH a' b'); [|lia|exact Ha'|exact Hb'].
        cbn [filter mem_Z]. rewrite Z.eqb_refl. cbn [length]. f_equal. f_equal.
        apply filter_ext_in. intros z Hz. cbn [mem_Z]. specialize (Hlx z Hz).
        destruct (Z.eqb_spec z y); [lia|reflexivity].
      * destruct (Z.ltb_spec y x) as [Hlt|Hge].
        -- rewrite (IH (x :: a') b'); [|cbn [length]; lia|exact Ha|exact Hb'].
           f_equal. apply filter_ext_in. intros z Hz. cbn [mem_Z].
           assert (x <= z)%Z by (destruct Hz as [<-|Hz]; [lia|specialize (Hlx z Hz); lia]).
           destruct (Z.eqb_spec z y); [lia|reflexivity].
        -- rewrite (IH a' (y :: b')); [|cbn [length]; lia|exact Ha'|exact Hb].
           cbn [filter].
           assert (Hm : mem_Z x (y :: b') = false).
           { destruct (mem_Z x (y :: b')) eqn:E; [|reflexivity].
             apply mem_Z_In in E as [E|E]; [congruence|]. specialize (Hly x E). lia. }
           rewrite Hm. reflexivity.
Qed.

Lemma intersect_spec a b : ssorted a -> ssorted b ->
  intersect a b = length (filter (fun x => mem_Z x b) a).
Proof. intros Ha Hb. unfold intersect. apply intersect_fuel_spec; [lia|exact Ha|exact Hb]. Qed.

(* ---------- grouping into the dictionary ---------- *)
Definition flatten_dict (d : list (list Z * list Z)) : list (list Z * Z) :=
  concat (map (fun kv => map (fun v => (fst kv, v)) (snd kv)) d).

Lemma list_eqb_spec a b : reflect (a = b) (list_eqb a b).
Proof.
  destruct (list_eqb a b) eqn:E; constructor.
  - apply list_eqb_eq; exact E.
  - intros H. apply list_eqb_eq in H. congruence.
Qed.

Lemma group_snoc l kv : group (l ++ [kv]) = dict_add (group l) (fst kv) (snd kv).
Proof. unfold group. rewrite fold_left_app. reflexivity. Qed.

Lemma flatten_dict_add d k v :
  Permutation (flatten_dict (dict_add d k v)) (flatten_dict d ++ [(k, v)]).
Proof.
  induction d as [|[k' vs] rest IH]; cbn [dict_add].
  - apply Permutation_refl.
  - destruct (list_eqb_spec k k') as [->|Hne].
    + unfold flatten_dict. cbn [map concat fst snd]. rewrite map_app. cbn [map].
      rewrite <- !app_assoc. apply Permutation_app_head.
      change ((k', v) :: concat (map (fun kv => map (fun v0 => (fst kv, v0)) (snd kv)) rest))
        with ([(k', v)] ++ concat (map (fun kv => map (fun v0 => (fst kv, v0)) (snd kv)) rest)).
      apply Permutation_app_comm.
    + unfold flatten_dict in *. cbn [map concat fst snd]. rewrite <- app_assoc.
      apply Permutation_app_head. exact IH.
Qed.

(* the dictionary partitions exactly the events *)
Lemma group_partition l : Permutation (flatten_dict (group l)) l.
Proof.
  induction l as [|[k v] l IH] using rev_ind; [apply Permutation_refl|].
  rewrite group_snoc. cbn [fst snd].
  eapply Permutation_trans; [apply flatten_dict_add|].
  apply Permutation_app_tail. exact IH.
Qed.

Lemma dict_add_keys_in d k v k' :
  In k' (map fst (dict_add d k v)) -> In k' (map fst d) \/ k' = k.
Proof.
  induction d as [|[k1 vs] rest IH]; cbn [dict_add].
  - intros [H|[]]. right; symmetry; exact H.
  - destruct (list_eqb_spec k k1) as [->|Hne]; cbn [map fst].
    + intros H; left; exact H.
    + intros [H|H]; [left; left; exact H|]. destruct (IH H) as [H'|H']; [left; right; exact H'|right; exact H'].
Qed.

Lemma dict_add_keys_nodup d k v : NoDup (map fst d) -> NoDup (map fst (dict_add d k v)).
Proof.
  induction d as [|[k1 vs] rest IH]; cbn [dict_add]; intros H.
  - cbn. constructor; [intros []|constructor].
  - destruct (list_eqb_spec k k1) as [->|Hne]; cbn [map fst] in *; [exact H|].
    inversion H as [|? ? Hn Hd]; subst. constructor; [|apply IH; exact Hd].
    intros Hin. apply dict_add_keys_in in Hin as [Hin|Hin]; [exact (Hn Hin)|congruence].
Qed.

(* keys are distinct; the values of a key are the times of its events in occurrence order *)
Lemma group_keys_nodup l : NoDup (map fst (group l)).
Proof.
  induction l as [|kv l IH] using rev_ind; [constructor|].
  rewrite group_snoc. apply dict_add_keys_nodup. exact IH.
Qed.

Fixpoint dlookup (d : list (list Z * list Z)) (k : list Z) : option (list Z) :=
  match d with
  | [] => None
  | (k', vs) :: rest => if list_eqb k k' then Some vs else dlookup rest k
  end.

Lemma dlookup_add d k v k' :
  dlookup (dict_add d k v) k' =
  if list_eqb k' k
  then Some (match dlookup d k with Some vs => vs ++ [v] | None => [v] end)
  else dlookup d k'.
Proof.
  induction d as [|[k1 vs] rest IH]; cbn [dict_add dlookup].
  - destruct (list_eqb k' k); reflexivity.
  - destruct (list_eqb_spec k k1) as [->|Hne]; cbn [dlookup].
    + destruct (list_eqb_spec k' k1) as [E'|Hne']; reflexivity.
    + rewrite IH. destruct (list_eqb_spec k' k1) as [E'|Hne'].
      * subst k'. destruct (list_eqb_spec k1 k) as [E|_]; [congruence|reflexivity].
      * reflexivity.
Qed.

Lemma In_dlookup d k vs : NoDup (map fst d) -> In (k, vs) d -> dlookup d k = Some vs.
Proof.
  induction d as [|[k1 vs1] rest IH]; intros Hnd Hin; [destruct Hin|].
  cbn [map fst] in Hnd. inversion Hnd as [|? ? Hn Hd]; subst. cbn [dlookup].
  destruct Hin as [E|Hin].
  - injection E as -> ->. destruct (list_eqb_spec k k); [reflexivity|congruence].
  - destruct (list_eqb_spec k k1) as [->|Hne]; [|apply IH; assumption].
    exfalso. apply Hn. change k1 with (fst (k1, vs)). apply in_map. exact Hin.
Qed.

Lemma dlookup_group l k :
  dlookup (group l) k =
  match filter (fun kv => list_eqb (fst kv) k) l with
  | [] => None
  | fl => Some (map snd fl)
  end.
Proof.
  induction l as [|[k0 v] l IH] using rev_ind; [reflexivity|].
  rewrite group_snoc, dlookup_add, filter_app. cbn [filter fst snd].
  destruct (list_eqb_spec k k0) as [->|Hne].
  - destruct (list_eqb_spec k0 k0) as [_|C]; [|congruence].
    rewrite IH. destruct (filter (fun kv => list_eqb (fst kv) k0) l) as [|e fl]; [reflexivity|].
    cbn [app map snd]. rewrite map_app. reflexivity.
  - destruct (list_eqb_spec k0 k) as [E|_]; [congruence|]. rewrite app_nil_r. exact IH.
Qed.

Lemma group_values l k vs : In (k, vs) (group l) ->
  vs = map snd (filter (fun kv => list_eqb (fst kv) k) l).
Proof.
  intros Hin. apply In_dlookup in Hin; [|apply group_keys_nodup].
  rewrite dlookup_group in Hin.
  destruct (filter (fun kv => list_eqb (fst kv) k) l) as [|e fl]; [discriminate|].
  injection Hin as <-. reflexivity.
Qed.
