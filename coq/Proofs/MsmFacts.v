(* C01: transition counting and row normalisation *)
From Coq Require Import List ZArith Arith Bool Lia QArith Qcanon.
From MsmV Require Import Lib.Result Lib.PyList Lib.Sorting Lib.QMat Model.Labels Model.StateTraj Model.Msm.
From MsmV Require Import Proofs.LabelsFacts.
Import ListNotations.
Local Open Scope nat_scope.

(* ---------- list plumbing ---------- *)
Lemma nth_firstn_lt {A} (l : list A) m k d : k < m -> nth k (firstn m l) d = nth k l d.
Proof.
  revert m k; induction l as [|x xs IH]; intros m k H; [now rewrite firstn_nil|].
  destruct m as [|m]; [lia|]. destruct k as [|k]; simpl; [reflexivity|]. apply IH. lia.
Qed.
Lemma nth_skipn {A} (l : list A) m k d : nth k (skipn m l) d = nth (m + k) l d.
Proof.
  revert l; induction m as [|m IH]; intros l; simpl; [reflexivity|].
  destruct l as [|x xs]; [destruct k; reflexivity|]. apply IH.
Qed.

Lemma pairs_length {A} lag (t : list A) : 1 <= lag -> length (pairs lag t) = length t - lag.
Proof.
  intros H. unfold pairs, slice_to_neg, slice_from. destruct lag as [|l]; [lia|].
  rewrite combine_length, firstn_length, skipn_length. lia.
Qed.

Lemma pairs_eq {A} lag (t : list A) d : 1 <= lag ->
  pairs lag t = map (fun k => (nth k t d, nth (k + lag) t d)) (seq 0 (length t - lag)).
Proof.
  intros H. apply (nth_ext _ _ (d, d) (d, d)).
  - rewrite pairs_length by exact H. now rewrite map_length, seq_length.
  - intros k Hk. rewrite pairs_length in Hk by exact H.
    unfold pairs, slice_to_neg, slice_from. destruct lag as [|l]; [lia|].
    rewrite combine_nth by (rewrite firstn_length, skipn_length; lia).
    rewrite nth_firstn_lt by lia. rewrite nth_skipn.
    set (f := fun k0 => (nth k0 t d, nth (k0 + S l) t d)).
    rewrite (nth_indep _ (d, d) (f 0)) by (rewrite map_length, seq_length; lia).
    rewrite (map_nth f), seq_nth by lia. unfold f. simpl. f_equal. f_equal. lia.
Qed.

(* the k-th counted pair is (traj[k], traj[k+lag]); none when |traj| <= lag *)
Lemma pairs_spec {A} lag (t : list A) k d : 1 <= lag -> k + lag < length t ->
  nth_error (pairs lag t) k = Some (nth k t d, nth (k + lag) t d).
Proof.
  intros H Hk. rewrite (pairs_eq lag t d H).
  rewrite nth_error_map, nth_error_nth' with (d := 0) by (rewrite seq_length; lia).
  rewrite seq_nth by lia. reflexivity.
Qed.
Lemma pairs_short {A} lag (t : list A) : 1 <= lag -> length t <= lag -> pairs lag t = [].
Proof.
  intros H Hl. apply length_zero_iff_nil. rewrite pairs_length by exact H. lia.
Qed.

(* ---------- integer matrices ---------- *)
Definition shaped (n : nat) (M : zmat) : Prop := length M = n /\ forall r, In r M -> length r = n.

Lemma zeros_shaped n : shaped n (zeros n n).
Proof.
  split; [apply repeat_length|]. intros r Hr. apply repeat_spec in Hr. subst. apply repeat_length.
Qed.
Lemma zeros_get n a b : zget (zeros n n) a b = 0%Z.
Proof.
  unfold zget, zeros. destruct (Nat.lt_ge_cases a n) as [Ha|Ha].
  - rewrite (nth_indep _ [] (repeat 0%Z n)) by (rewrite repeat_length; exact Ha).
    rewrite nth_repeat. destruct (Nat.lt_ge_cases b n) as [Hb|Hb].
    + rewrite nth_repeat. reflexivity.
    + apply nth_overflow. rewrite repeat_length. exact Hb.
  - rewrite (nth_overflow _ []) by (rewrite repeat_length; exact Ha). destruct b; reflexivity.
Qed.

Lemma nth_list_upd_eq {A} (l : list A) i v d : i < length l -> nth i (list_upd l i v) d = v.
Proof. revert i; induction l as [|x xs IH]; intros [|i] H; simpl in *; try lia; [reflexivity|apply IH; lia]. Qed.
Lemma nth_list_upd_ne {A} (l : list A) i j v d : i <> j -> nth j (list_upd l i v) d = nth j l d.
Proof.
  revert i j; induction l as [|x xs IH]; intros [|i] [|j] H; simpl; try reflexivity; try lia.
  apply IH. lia.
Qed.
Lemma In_list_upd {A} (l : list A) i v x : In x (list_upd l i v) -> x = v \/ In x l.
Proof.
  revert i; induction l as [|y ys IH]; intros [|i]; simpl; try tauto.
  - intros [H|H]; [left; congruence|right; right; exact H].
  - intros [H|H]; [right; left; exact H|]. apply IH in H. tauto.
Qed.

Lemma incr_shaped n M a b : shaped n M -> a < n -> shaped n (incr M a b).
Proof.
  intros [H1 H2] Ha. unfold incr. split; [now rewrite list_upd_length|].
  intros r Hr. apply In_list_upd in Hr as [->|Hr]; [|apply H2; exact Hr].
  rewrite list_upd_length. apply H2. apply nth_In. lia.
Qed.

Lemma incr_get n M a b a' b' : shaped n M -> a < n -> b < n ->
  zget (incr M a b) a' b' = (zget M a' b' + (if Nat.eqb a a' && Nat.eqb b b' then 1 else 0))%Z.
Proof.
  intros [H1 H2] Ha Hb. unfold zget, incr.
  destruct (Nat.eqb_spec a a') as [<-|Hne]; cbn [andb].
  - rewrite nth_list_upd_eq by lia.
    assert (Hr : length (nth a M []) = n) by (apply H2, nth_In; lia).
    destruct (Nat.eqb_spec b b') as [<-|Hne'].
    + rewrite nth_list_upd_eq by lia. reflexivity.
    + rewrite nth_list_upd_ne by exact Hne'. lia.
  - rewrite nth_list_upd_ne by exact Hne. lia.
Qed.

Definition pcount (a b : nat) (ps : list (nat * nat)) : nat :=
  length (filter (fun p => Nat.eqb (fst p) a && Nat.eqb (snd p) b) ps).

Lemma fold_incr_get n ps : forall M a b, shaped n M ->
  (forall p, In p ps -> fst p < n /\ snd p < n) ->
  shaped n (fold_left (fun M ab => incr M (fst ab) (snd ab)) ps M) /\
  zget (fold_left (fun M ab => incr M (fst ab) (snd ab)) ps M) a b
  = (zget M a b + Z.of_nat (pcount a b ps))%Z.
Proof.
  induction ps as [|p ps IH]; intros M a b HM Hin; simpl.
  - split; [exact HM|unfold pcount; simpl; lia].
  - destruct (Hin p (or_introl eq_refl)) as [Hp1 Hp2].
    destruct (IH (incr M (fst p) (snd p)) a b) as [S1 S2].
    + apply incr_shaped; assumption.
    + intros q Hq. apply Hin. right. exact Hq.
    + split; [exact S1|]. rewrite S2, (incr_get n) by assumption.
      unfold pcount. simpl. destruct (Nat.eqb (fst p) a && Nat.eqb (snd p) b); simpl; lia.
Qed.

Definition all_below (n : nat) (ts : list (list nat)) : Prop :=
  forall t, In t ts -> forall x, In x t -> x < n.

Lemma pairs_In {A} lag (t : list A) p : In p (pairs lag t) -> In (fst p) t /\ In (snd p) t.
Proof.
  unfold pairs, slice_to_neg, slice_from. intros H. destruct p as [x y]. simpl.
  split.
  - apply in_combine_l in H. destruct lag; [destruct H|]. revert H; generalize (length t - S lag); intros m; revert t; induction m as [|m IHm]; intros [|z zs]; simpl; try tauto; intros [E|E]; [left; exact E|right; apply IHm; exact E].
  - apply in_combine_r in H. revert H; generalize lag; intros m; revert t; induction m as [|m IHm]; intros t; simpl; [tauto|]; destruct t as [|z zs]; [tauto|]; intros E; right; apply IHm; exact E.
Qed.

Lemma filter_map_length {A B} (f : A -> B) (P : B -> bool) l :
  length (filter P (map f l)) = length (filter (fun x => P (f x)) l).
Proof. induction l as [|x xs IH]; simpl; [reflexivity|]. destruct (P (f x)); simpl; now rewrite IH. Qed.

Lemma pcount_pairs lag t a b : 1 <= lag -> pcount a b (pairs lag t) = pair_count lag t a b.
Proof.
  intros H. unfold pcount, pair_count. rewrite (pairs_eq lag t 0 H), filter_map_length. reflexivity.
Qed.

Lemma count_traj_spec n lag t M a b : 1 <= lag -> shaped n M -> (forall x, In x t -> x < n) ->
  shaped n (count_traj M lag t) /\
  zget (count_traj M lag t) a b = (zget M a b + Z.of_nat (pair_count lag t a b))%Z.
Proof.
  intros Hl HM Ht. unfold count_traj. rewrite <- pcount_pairs by exact Hl.
  apply fold_incr_get; [exact HM|]. intros p Hp. apply pairs_In in Hp as [H1 H2]. split; apply Ht; assumption.
Qed.

Lemma count_fold_spec n lag ts : forall M a b, 1 <= lag -> shaped n M -> all_below n ts ->
  shaped n (fold_left (fun M t => count_traj M lag t) ts M) /\
  zget (fold_left (fun M t => count_traj M lag t) ts M) a b
  = (zget M a b + Z.of_nat (Spec_C lag ts a b))%Z.
Proof.
  induction ts as [|t ts IH]; intros M a b Hl HM Hb; simpl.
  - split; [exact HM|unfold Spec_C; simpl; lia].
  - destruct (count_traj_spec n lag t M a b Hl HM) as [S1 S2]; [apply Hb; left; reflexivity|].
    destruct (IH (count_traj M lag t) a b Hl S1) as [R1 R2].
    + intros t' Ht'. apply Hb. right. exact Ht'.
    + split; [exact R1|]. rewrite R2, S2. unfold Spec_C. simpl. lia.
Qed.

(* the count matrix is the table of in-trajectory pair counts *)
Lemma count_matrix_spec n lag ts a b : 1 <= lag -> all_below n ts ->
  zget (count_matrix n lag ts) a b = Z.of_nat (Spec_C lag ts a b).
Proof.
  intros Hl Hb. unfold count_matrix.
  destruct (count_fold_spec n lag ts (zeros n n) a b Hl (zeros_shaped n) Hb) as [_ H].
  rewrite H, zeros_get. lia.
Qed.
Lemma count_matrix_shaped n lag ts : 1 <= lag -> all_below n ts -> shaped n (count_matrix n lag ts).
Proof.
  intros Hl Hb. unfold count_matrix.
  exact (proj1 (count_fold_spec n lag ts (zeros n n) 0 0 Hl (zeros_shaped n) Hb)).
Qed.

(* no pair across a trajectory boundary: the count of a set is the sum over its members *)
Lemma Spec_C_app lag ts1 ts2 a b : Spec_C lag (ts1 ++ ts2) a b = Spec_C lag ts1 a b + Spec_C lag ts2 a b.
Proof. unfold Spec_C. now rewrite map_app, list_sum_app. Qed.

(* ---------- rationals ---------- *)
Local Open Scope Qc_scope.

Lemma Qc_of_Z_plus a b : Qc_of_Z (a + b) = Qc_of_Z a + Qc_of_Z b.
Proof.
  unfold Qc_of_Z. apply Qc_is_canon. unfold Qcplus, Q2Qc. cbn [this].
  rewrite !Qred_correct. rewrite inject_Z_plus. reflexivity.
Qed.
Lemma Qc_of_Z_0 : Qc_of_Z 0 = 0.
Proof. apply Qc_is_canon. reflexivity. Qed.

Lemma qsum_of_Z (r : list Z) : qsum (map Qc_of_Z r) = Qc_of_Z (fold_right Z.add 0%Z r).
Proof.
  induction r as [|x xs IH]; simpl; [symmetry; apply Qc_of_Z_0|]. rewrite IH, Qc_of_Z_plus. reflexivity.
Qed.

Lemma qsum_div (r : list Qc) d : qsum (map (fun x => x / d) r) = qsum r / d.
Proof.
  induction r as [|x xs IH]; simpl.
  - unfold Qcdiv. ring.
  - rewrite IH. unfold Qcdiv. ring.
Qed.

Lemma Qc_eqb_eq a b : Qc_eqb a b = true <-> a = b.
Proof.
  unfold Qc_eqb. rewrite Qeq_bool_iff. split; [apply Qc_is_canon|intros ->; reflexivity].
Qed.

Definition row_div (r : list Qc) : Qc := if Qc_eqb (qsum r) 0 then 1 else qsum r.

Lemma row_normalize_get (M : mat) i j : (i < length M)%nat ->
  mget (row_normalize M) i j = mget M i j / row_div (nth i M []).
Proof.
  intros Hi. unfold mget, row_normalize.
  set (f := fun r : list Qc => map (fun x => x / (if Qc_eqb (qsum r) 0 then 1 else qsum r)) r).
  rewrite (nth_indep _ [] (f [])) by (rewrite map_length; exact Hi).
  rewrite (map_nth f). unfold f, row_div. set (r := nth i M []).
  set (d := if Qc_eqb (qsum r) 0 then 1 else qsum r).
  destruct (Nat.lt_ge_cases j (length r)) as [Hj|Hj].
  - set (g := fun x : Qc => x / d). rewrite (nth_indep _ 0 (g 0)) by (rewrite map_length; exact Hj).
    rewrite (map_nth g). reflexivity.
  - rewrite !nth_overflow by (try rewrite map_length; exact Hj). unfold Qcdiv. ring.
Qed.

Lemma row_normalize_rowsum (M : mat) i : (i < length M)%nat ->
  qsum (nth i (row_normalize M) []) = if Qc_eqb (qsum (nth i M [])) 0 then 0 else 1.
Proof.
  intros Hi. unfold row_normalize.
  set (f := fun r : list Qc => map (fun x => x / (if Qc_eqb (qsum r) 0 then 1 else qsum r)) r).
  rewrite (nth_indep _ [] (f [])) by (rewrite map_length; exact Hi).
  rewrite (map_nth f). unfold f. set (r := nth i M []). rewrite qsum_div.
  destruct (Qc_eqb (qsum r) 0) eqn:E.
  - apply Qc_eqb_eq in E. rewrite E. unfold Qcdiv. ring.
  - assert (qsum r <> 0) by (intros H; apply Qc_eqb_eq in H; congruence).
    unfold Qcdiv. apply Qcmult_inv_r. assumption.
Qed.

Local Open Scope nat_scope.

(* ---------- constructor branches ---------- *)
Lemma arange_rank n0 n x : In x (arange_from n0 n) ->
  rank (arange_from n0 n) x = Z.to_nat (x - n0).
Proof.
  intros Hin. apply In_nth with (d := 0%Z) in Hin as (k & Hk & <-).
  rewrite arange_from_length in Hk. unfold rank.
  assert (Hnd : NoDup (arange_from n0 n)).
  { clear. revert n0. induction n as [|n IH]; intros n0; simpl; [constructor|].
    constructor; [|apply IH]. intros H. apply arange_from_In in H. lia. }
  rewrite index_of_nth_NoDup by (try rewrite arange_from_length; assumption).
  rewrite arange_from_nth by exact Hk. lia.
Qed.

Lemma mk_spec_correct ts :
  concat ts <> [] -> (forall v, In v (concat ts) -> small29 v) -> mk ts = Ok (mk_spec ts).
Proof.
  intros Hne Hsm. unfold mk, mk_spec.
  assert (Hst : forall x, In x (unique ts) <-> In x (concat ts)) by (intros x; apply usort_In).
  assert (Hin : forall l x, In l ts -> In x l -> In x (unique ts)).
  { intros l x Hl Hx. apply Hst. apply in_concat. exists l. split; assumption. }
  destruct (list_eqb (unique ts) (arange (length (unique ts)))) eqn:E1.
  - apply list_eqb_eq in E1. f_equal. f_equal.
    apply map_ext_in. intros l Hl. apply map_ext_in. intros x Hx.
    specialize (Hin l x Hl Hx). rewrite E1 in Hin |- *. unfold arange in *.
    rewrite arange_rank by exact Hin. f_equal. lia.
  - destruct (list_eqb (unique ts) (arange1 (length (unique ts)))) eqn:E2.
    + apply list_eqb_eq in E2. f_equal. rewrite <- E2. f_equal.
      apply map_ext_in. intros l Hl. apply map_ext_in. intros x Hx.
      specialize (Hin l x Hl Hx). rewrite E2 in Hin |- *. unfold arange1 in *.
      rewrite arange_rank by exact Hin. reflexivity.
    + rewrite rename_by_index_spec by assumption. cbn [bind fst snd]. f_equal. f_equal.
      rewrite map_map. apply map_ext. intros l. rewrite map_map. apply map_ext. intros x.
      apply Nat2Z.id.
Qed.

Lemma mk_spec_below ts : all_below (length (unique ts)) (st_idx (mk_spec ts)).
Proof.
  intros t Ht x Hx. unfold mk_spec in Ht. cbn [st_idx] in Ht.
  apply in_map_iff in Ht as (l & <- & Hl). apply in_map_iff in Hx as (v & <- & Hv).
  apply rank_nth. apply usort_In. apply in_concat. exists l. split; assumption.
Qed.

(* ---------- label-level counts ---------- *)
Definition label_pair_count (lag : nat) (t : list Z) (x y : Z) : nat :=
  length (filter (fun k => Z.eqb (nth k t 0%Z) x && Z.eqb (nth (k + lag) t 0%Z) y)
                 (seq 0 (length t - lag))).
(* C_xy: number of frame pairs (k, k+lag) inside one and the same trajectory going x -> y *)
Definition Label_C (lag : nat) (ts : list (list Z)) (x y : Z) : nat :=
  list_sum (map (fun t => label_pair_count lag t x y) ts).

Lemma filter_ext_in_len {A} (f g : A -> bool) l : (forall a, In a l -> f a = g a) ->
  length (filter f l) = length (filter g l).
Proof.
  induction l as [|a l IH]; intros H; simpl; [reflexivity|].
  rewrite (H a (or_introl eq_refl)). destruct (g a); simpl; rewrite IH; auto; intros b Hb; apply H; right; exact Hb.
Qed.

Lemma rank_eqb st x i : NoDup st -> In x st -> i < length st ->
  Nat.eqb (rank st x) i = Z.eqb x (nth i st 0%Z).
Proof.
  intros Hnd Hx Hi. destruct (rank_nth st x Hx) as [R1 R2].
  destruct (Nat.eqb_spec (rank st x) i) as [E|E]; destruct (Z.eqb_spec x (nth i st 0%Z)) as [E'|E']; try reflexivity.
  - exfalso. apply E'. rewrite <- E. symmetry. exact R1.
  - exfalso. apply E. subst x. unfold rank. rewrite index_of_nth_NoDup by assumption. reflexivity.
Qed.

Lemma pair_count_labels st lag t i j : NoDup st -> (forall x, In x t -> In x st) ->
  i < length st -> j < length st ->
  pair_count lag (map (rank st) t) i j = label_pair_count lag t (nth i st 0%Z) (nth j st 0%Z).
Proof.
  intros Hnd Ht Hi Hj. unfold pair_count, label_pair_count. rewrite map_length.
  apply filter_ext_in_len. intros k Hk. apply in_seq in Hk.
  assert (Hd : rank st 0%Z = rank st 0%Z) by reflexivity.
  rewrite !(nth_indep (map (rank st) t) 0 (rank st 0%Z)) by (rewrite map_length; lia).
  rewrite !(map_nth (rank st)).
  rewrite !rank_eqb; try assumption; try reflexivity; apply Ht, nth_In; lia.
Qed.

Lemma Spec_C_labels ts lag i j : i < length (unique ts) -> j < length (unique ts) ->
  Spec_C lag (st_idx (mk_spec ts)) i j = Label_C lag ts (nth i (unique ts) 0%Z) (nth j (unique ts) 0%Z).
Proof.
  intros Hi Hj. unfold Spec_C, Label_C, mk_spec. cbn [st_idx]. rewrite map_map. f_equal.
  apply map_ext_in. intros t Ht. apply pair_count_labels; try assumption.
  - apply ssorted_NoDup, usort_sorted.
  - intros x Hx. apply usort_In. apply in_concat. exists t. split; assumption.
Qed.

(* ---------- row sums of the count matrix ---------- *)
Lemma map_nth_seq {A} (r : list A) d : map (fun k => nth k r d) (seq 0 (length r)) = r.
Proof.
  apply (nth_ext _ _ d d); [now rewrite map_length, seq_length|].
  intros k Hk. rewrite map_length, seq_length in Hk.
  set (f := fun k0 => nth k0 r d).
  rewrite (nth_indep _ d (f 0)) by (rewrite map_length, seq_length; exact Hk).
  rewrite (map_nth f), seq_nth by exact Hk. reflexivity.
Qed.

Lemma fold_right_add_nth (r : list Z) :
  fold_right Z.add 0%Z r = fold_right Z.add 0%Z (map (fun k => nth k r 0%Z) (seq 0 (length r))).
Proof. now rewrite map_nth_seq. Qed.

Lemma fold_right_add_of_nat (f : nat -> nat) l :
  fold_right Z.add 0%Z (map (fun k => Z.of_nat (f k)) l) = Z.of_nat (list_sum (map f l)).
Proof. induction l as [|x xs IH]; simpl; [reflexivity|]. rewrite IH. lia. Qed.

Definition row_total (lag : nat) (idx : list (list nat)) (n i : nat) : nat :=
  list_sum (map (fun k => Spec_C lag idx i k) (seq 0 n)).

Lemma count_row_sum n lag idx i : 1 <= lag -> all_below n idx -> i < n ->
  fold_right Z.add 0%Z (nth i (count_matrix n lag idx) []) = Z.of_nat (row_total lag idx n i).
Proof.
  intros Hl Hb Hi. destruct (count_matrix_shaped n lag idx Hl Hb) as [S1 S2].
  rewrite fold_right_add_nth. rewrite (S2 (nth i (count_matrix n lag idx) [])) by (apply nth_In; lia).
  unfold row_total. rewrite <- fold_right_add_of_nat. f_equal.
  apply map_ext. intros k. fold (zget (count_matrix n lag idx) i k).
  apply count_matrix_spec; assumption.
Qed.

Local Open Scope Qc_scope.

Lemma mat_of_Z_get M i j : mget (mat_of_Z M) i j = Qc_of_Z (zget M i j).
Proof.
  unfold mget, mat_of_Z, zget.
  destruct (Nat.lt_ge_cases i (length M)) as [Hi|Hi].
  - set (f := map Qc_of_Z). rewrite (nth_indep _ [] (f [])) by (rewrite map_length; exact Hi).
    rewrite (map_nth f). unfold f.
    destruct (Nat.lt_ge_cases j (length (nth i M []))) as [Hj|Hj].
    + rewrite (nth_indep _ 0 (Qc_of_Z 0%Z)) by (rewrite map_length; exact Hj). apply map_nth.
    + rewrite !nth_overflow by (try rewrite map_length; exact Hj). symmetry. apply Qc_of_Z_0.
  - rewrite !(nth_overflow _ []) by (try rewrite map_length; exact Hi).
    destruct j; simpl; symmetry; apply Qc_of_Z_0.
Qed.

Lemma Qc_of_Z_inj_0 z : Qc_of_Z z = 0 <-> z = 0%Z.
Proof.
  split; [|intros ->; apply Qc_of_Z_0]. intros H. unfold Qc_of_Z in H.
  assert (E : (Q2Qc (inject_Z z) == 0)%Q) by (rewrite H; reflexivity).
  unfold Q2Qc in E. cbn [this] in E. rewrite Qred_correct in E.
  unfold Qeq, inject_Z in E. simpl in E. lia.
Qed.

(* entry formula of the estimated model (on index trajectories) *)
Lemma emm_entry_idx (s : statetraj) lag i j : (1 <= lag)%nat ->
  all_below (nstates s) (st_idx s) -> (i < nstates s)%nat -> (j < nstates s)%nat ->
  mget (fst (emm s lag)) i j =
    if Nat.eqb (row_total lag (st_idx s) (nstates s) i) 0 then 0
    else Qc_of_Z (Z.of_nat (Spec_C lag (st_idx s) i j))
         / Qc_of_Z (Z.of_nat (row_total lag (st_idx s) (nstates s) i)).
Proof.
  intros Hl Hb Hi Hj. unfold emm. cbn [fst].
  set (n := nstates s) in *. set (C := count_matrix n lag (st_idx s)).
  destruct (count_matrix_shaped n lag (st_idx s) Hl Hb) as [S1 S2]. fold C in S1, S2.
  rewrite row_normalize_get by (unfold mat_of_Z; rewrite map_length; lia).
  rewrite mat_of_Z_get. unfold C at 1. rewrite count_matrix_spec by assumption.
  unfold row_div.
  assert (Hrow : nth i (mat_of_Z C) [] = map Qc_of_Z (nth i C [])).
  { unfold mat_of_Z. set (f := map Qc_of_Z). rewrite (nth_indep _ [] (f [])) by (rewrite map_length; lia).
    apply (map_nth f). }
  rewrite Hrow, qsum_of_Z. unfold C. rewrite count_row_sum by assumption.
  set (R := row_total lag (st_idx s) n i).
  destruct (Nat.eqb_spec R 0) as [E|E].
  - rewrite E. simpl Z.of_nat. rewrite Qc_of_Z_0.
    assert (Hz : Qc_eqb 0 0 = true) by (apply Qc_eqb_eq; reflexivity). rewrite Hz.
    assert (Hc : Spec_C lag (st_idx s) i j = 0%nat).
    { pose (f := fun k => Spec_C lag (st_idx s) i k). change (f j = 0%nat).
      assert (E' : list_sum (map f (seq 0 n)) = 0%nat) by exact E. clearbody f.
      assert (G : forall l, list_sum (map f l) = 0%nat -> forall k, In k l -> f k = 0%nat).
      { induction l as [|a l IH]; simpl; intros H k Hk; [contradiction|]. destruct Hk as [<-|Hk]; [lia|apply IH; [lia|exact Hk]]. }
      apply (G _ E'). apply in_seq. lia. }
    rewrite Hc. simpl Z.of_nat. rewrite Qc_of_Z_0. unfold Qcdiv. ring.
  - destruct (Qc_eqb (Qc_of_Z (Z.of_nat R)) 0) eqn:Eq; [|reflexivity].
    apply Qc_eqb_eq, Qc_of_Z_inj_0 in Eq. lia.
Qed.

Lemma Qc_div_01 a b : (0 <= a <= b)%Z -> (0 < b)%Z -> 0 <= Qc_of_Z a / Qc_of_Z b /\ Qc_of_Z a / Qc_of_Z b <= 1.
Proof.
  intros Ha Hb. unfold Qcle, Qcdiv, Qcmult, Qcinv, Qc_of_Z, Q2Qc. cbn [this].
  rewrite !Qred_correct.
  assert (Hb' : (0 < inject_Z b)%Q) by (change (inject_Z 0 < inject_Z b)%Q; rewrite <- Zlt_Qlt; exact Hb).
  split.
  - apply Qle_shift_div_l; [exact Hb'|]. rewrite Qmult_0_l. change (inject_Z 0 <= inject_Z a)%Q. rewrite <- Zle_Qle. lia.
  - apply Qle_shift_div_r; [exact Hb'|]. rewrite Qmult_1_l. rewrite <- Zle_Qle. lia.
Qed.

Lemma list_sum_ge (f : nat -> nat) l k : In k l -> (f k <= list_sum (map f l))%nat.
Proof.
  induction l as [|a l IH]; simpl; intros H; [contradiction|]. destruct H as [<-|H]; [lia|].
  specialize (IH H). lia.
Qed.

Lemma emm_entry_01_idx (s : statetraj) lag i j : (1 <= lag)%nat ->
  all_below (nstates s) (st_idx s) -> (i < nstates s)%nat -> (j < nstates s)%nat ->
  0 <= mget (fst (emm s lag)) i j /\ mget (fst (emm s lag)) i j <= 1.
Proof.
  intros Hl Hb Hi Hj. rewrite emm_entry_idx by assumption.
  destruct (Nat.eqb_spec (row_total lag (st_idx s) (nstates s) i) 0) as [E|E].
  - split; [apply Qcle_refl|]. unfold Qcle. simpl. unfold Qle. simpl. lia.
  - apply Qc_div_01; [|lia]. split; [lia|]. apply inj_le. unfold row_total.
    apply (list_sum_ge (fun k => Spec_C lag (st_idx s) i k)). apply in_seq. lia.
Qed.

Lemma emm_rowsum_idx (s : statetraj) lag i : (1 <= lag)%nat ->
  all_below (nstates s) (st_idx s) -> (i < nstates s)%nat ->
  qsum (nth i (fst (emm s lag)) []) =
    if Nat.eqb (row_total lag (st_idx s) (nstates s) i) 0 then 0 else 1.
Proof.
  intros Hl Hb Hi. unfold emm. cbn [fst].
  set (n := nstates s) in *. set (C := count_matrix n lag (st_idx s)).
  destruct (count_matrix_shaped n lag (st_idx s) Hl Hb) as [S1 S2]. fold C in S1, S2.
  rewrite row_normalize_rowsum by (unfold mat_of_Z; rewrite map_length; lia).
  assert (Hrow : nth i (mat_of_Z C) [] = map Qc_of_Z (nth i C [])).
  { unfold mat_of_Z. set (f := map Qc_of_Z). rewrite (nth_indep _ [] (f [])) by (rewrite map_length; lia).
    apply (map_nth f). }
  rewrite Hrow, qsum_of_Z. unfold C. rewrite count_row_sum by assumption.
  set (R := row_total lag (st_idx s) n i).
  destruct (Nat.eqb_spec R 0) as [E|E].
  - rewrite E. simpl Z.of_nat. rewrite Qc_of_Z_0.
    assert (Hz : Qc_eqb 0 0 = true) by (apply Qc_eqb_eq; reflexivity). now rewrite Hz.
  - destruct (Qc_eqb (Qc_of_Z (Z.of_nat R)) 0) eqn:Eq; [|reflexivity].
    apply Qc_eqb_eq, Qc_of_Z_inj_0 in Eq. lia.
Qed.

(* ---------- the statements at the level of labels ---------- *)
Local Open Scope nat_scope.

Definition Label_row (lag : nat) (ts : list (list Z)) (x : Z) : nat :=
  list_sum (map (fun y => Label_C lag ts x y) (unique ts)).

Lemma row_total_labels ts lag i : i < length (unique ts) ->
  row_total lag (st_idx (mk_spec ts)) (length (unique ts)) i = Label_row lag ts (nth i (unique ts) 0%Z).
Proof.
  intros Hi. unfold row_total, Label_row.
  transitivity (list_sum (map (fun y => Label_C lag ts (nth i (unique ts) 0%Z) y)
                              (map (fun k => nth k (unique ts) 0%Z) (seq 0 (length (unique ts)))))).
  2:{ now rewrite map_nth_seq. }
  rewrite map_map. f_equal.
  apply map_ext_in. intros k Hk. apply in_seq in Hk. apply Spec_C_labels; lia.
Qed.

Lemma estimate_markov_model_spec ts lag :
  concat ts <> [] -> (forall v, In v (concat ts) -> small29 v) -> 1 <= lag ->
  exists T, estimate_markov_model ts lag = Ok (T, unique ts) /\
    length T = length (unique ts) /\
    forall i j, i < length (unique ts) -> j < length (unique ts) ->
      let x := nth i (unique ts) 0%Z in let y := nth j (unique ts) 0%Z in
      mget T i j = (if Nat.eqb (Label_row lag ts x) 0 then 0
                    else Qc_of_Z (Z.of_nat (Label_C lag ts x y)) / Qc_of_Z (Z.of_nat (Label_row lag ts x)))%Qc
      /\ (0 <= mget T i j)%Qc /\ (mget T i j <= 1)%Qc
      /\ qsum (nth i T []) = (if Nat.eqb (Label_row lag ts x) 0 then 0 else 1)%Qc.
Proof.
  intros Hne Hsm Hl. unfold estimate_markov_model. rewrite mk_spec_correct by assumption. cbn [bind].
  set (s := mk_spec ts). exists (fst (emm s lag)). split; [reflexivity|].
  assert (Hn : nstates s = length (unique ts)) by reflexivity.
  assert (Hb : all_below (nstates s) (st_idx s)) by (rewrite Hn; apply mk_spec_below).
  split.
  { unfold emm, row_normalize, mat_of_Z. cbn [fst]. rewrite !map_length.
    apply (proj1 (count_matrix_shaped _ _ _ Hl Hb)). }
  intros i j Hi Hj. cbv zeta. set (x := nth i (unique ts) 0%Z). set (y := nth j (unique ts) 0%Z).
  rewrite <- Hn in Hi, Hj.
  rewrite emm_entry_idx by assumption.
  pose proof (emm_entry_01_idx s lag i j Hl Hb Hi Hj) as [B1 B2].
  pose proof (emm_rowsum_idx s lag i Hl Hb Hi) as R.
  rewrite emm_entry_idx in B1, B2 by assumption.
  rewrite Hn in *. unfold s in *. rewrite row_total_labels in * by exact Hi.
  rewrite Spec_C_labels in * by assumption. fold x y in B1, B2, R |- *.
  repeat split; assumption.
Qed.

Lemma Label_C_app lag ts1 ts2 x y : Label_C lag (ts1 ++ ts2) x y = Label_C lag ts1 x y + Label_C lag ts2 x y.
Proof. unfold Label_C. now rewrite map_app, list_sum_app. Qed.

(* a trajectory not longer than the lag contributes nothing *)
Lemma label_pair_count_short lag t x y : length t <= lag -> label_pair_count lag t x y = 0.
Proof. intros H. unfold label_pair_count. replace (length t - lag) with 0 by lia. reflexivity. Qed.

(* every counted pair is a pair of frames (k, k+lag) of one trajectory *)
Lemma label_pair_count_pos lag t x y : 0 < label_pair_count lag t x y ->
  exists k, k + lag < length t /\ nth k t 0%Z = x /\ nth (k + lag) t 0%Z = y.
Proof.
  unfold label_pair_count. intros H.
  destruct (filter _ _) as [|k l] eqn:E; [simpl in H; lia|].
  assert (Hk : In k (k :: l)) by (left; reflexivity). rewrite <- E in Hk.
  apply filter_In in Hk as [Hk1 Hk2]. apply in_seq in Hk1.
  apply andb_true_iff in Hk2 as [A B]. apply Z.eqb_eq in A, B. exists k. repeat split; [lia|exact A|exact B].
Qed.
