(* C02 (value part): StateTraj reports its input back *)
From Coq Require Import List ZArith Arith Bool Lia.
From MsmV Require Import Lib.Result Lib.PyList Lib.Sorting Model.Labels Model.StateTraj.
From MsmV Require Import Proofs.LabelsFacts.
Import ListNotations.
Local Open Scope nat_scope.

Lemma NoDup_arange_from n0 n : NoDup (arange_from n0 n).
Proof.
  revert n0. induction n as [|n IH]; intros n0; simpl; [constructor|].
  constructor; [|apply IH]. intros H. apply arange_from_In in H. lia.
Qed.

Lemma rank_arange n0 n x : In x (arange_from n0 n) -> rank (arange_from n0 n) x = Z.to_nat (x - n0).
Proof.
  intros Hin. apply In_nth with (d := 0%Z) in Hin as (k & Hk & <-).
  rewrite arange_from_length in Hk. unfold rank.
  rewrite index_of_nth_NoDup by (try rewrite arange_from_length; try apply NoDup_arange_from; assumption).
  rewrite arange_from_nth by exact Hk. lia.
Qed.

Lemma mk_spec_nstates ts : nstates (mk_spec ts) = length (unique ts).
Proof. reflexivity. Qed.

(* the object reports the input back: same number of trajectories, same
   lengths, same label in every frame *)
Lemma trajs_mk_spec ts :
  concat ts <> [] -> (forall v, In v (concat ts) -> small29 v) -> trajs (mk_spec ts) = Ok ts.
Proof.
  intros Hne Hsm. unfold trajs. rewrite mk_spec_nstates. cbn [st_states mk_spec].
  set (st := unique ts).
  assert (Hst : forall x, In x st <-> In x (concat ts)) by (intros x; apply usort_In).
  assert (Hin : forall l x, In l ts -> In x l -> In x st).
  { intros l x Hl Hx. apply Hst. apply in_concat. exists l. split; assumption. }
  assert (Hnd : NoDup st) by (apply ssorted_NoDup, usort_sorted).
  destruct (list_eqb st (arange1 (length st))) eqn:E1.
  - apply list_eqb_eq in E1. f_equal. cbn [st_idx mk_spec]. rewrite map_map.
    rewrite <- (map_id ts) at 2. apply map_ext_in. intros l Hl. rewrite map_map.
    rewrite <- (map_id l) at 2. apply map_ext_in. intros x Hx.
    specialize (Hin l x Hl Hx). fold st. rewrite E1 in Hin |- *. unfold arange1 in *.
    rewrite rank_arange by exact Hin. apply arange_from_In in Hin. lia.
  - destruct (list_eqb st (arange (length st))) eqn:E2.
    + apply list_eqb_eq in E2. f_equal. unfold index_trajs. cbn [st_idx mk_spec]. rewrite map_map.
      rewrite <- (map_id ts) at 2. apply map_ext_in. intros l Hl. rewrite !map_map.
      rewrite <- (map_id l) at 2. apply map_ext_in. intros x Hx.
      specialize (Hin l x Hl Hx). fold st. rewrite E2 in Hin |- *. unfold arange in *.
      rewrite rank_arange by exact Hin. apply arange_from_In in Hin. lia.
    + (* general alphabet: shift_data(index trajectories, arange(n), states) *)
      assert (Hn : (Z.of_nat (length st) <= 1073741824)%Z).
      { pose proof (ssorted_length_bound st (usort_sorted _) (-536870912)%Z 536870912%Z) as G.
        assert (G0 : forall x, In x st -> (-536870912 <= x < 536870912)%Z).
        { intros x Hx. apply Hst in Hx. apply Hsm in Hx. exact Hx. }
        specialize (G G0). lia. }
      assert (Hidx : index_trajs (mk_spec ts) = map (map (fun x => Z.of_nat (rank st x))) ts).
      { unfold index_trajs. cbn [st_idx mk_spec]. rewrite map_map. apply map_ext. intros l. now rewrite map_map. }
      rewrite Hidx.
      assert (Hc : concat (map (map (fun x => Z.of_nat (rank st x))) ts)
                   = map (fun x => Z.of_nat (rank st x)) (concat ts)) by (now rewrite concat_map).
      rewrite shift_nested_spec.
      * f_equal. rewrite map_map. rewrite <- (map_id ts) at 2. apply map_ext_in. intros l Hl.
        rewrite map_map. rewrite <- (map_id l) at 2. apply map_ext_in. intros x Hx.
        specialize (Hin l x Hl Hx). destruct (rank_nth st x Hin) as [R1 R2].
        unfold subst, arange.
        assert (Ei : index_of (Z.of_nat (rank st x)) (arange_from 0 (length st)) = Some (rank st x)).
        { rewrite <- (arange_from_nth 0 (length st) (rank st x) 0%Z R2) at 1.
          apply index_of_nth_NoDup; [apply NoDup_arange_from|now rewrite arange_from_length]. }
        rewrite Ei. rewrite (nth_indep _ _ 0%Z) by exact R2. exact R1.
      * rewrite Hc. intros H. apply map_eq_nil in H. contradiction.
      * destruct st as [|s0 st'] eqn:Est; [|discriminate]. exfalso.
        destruct (concat ts) as [|a t] eqn:Ec; [congruence|].
        assert (In a []) by (apply Hst; left; reflexivity). contradiction.
      * apply NoDup_arange_from.
      * unfold arange. now rewrite arange_from_length.
      * intros o Ho. unfold arange in Ho. apply arange_from_In in Ho.
        assert (Hk : (Z.to_nat o < length st)) by lia.
        exists o, o. rewrite Hc. repeat split; try lia;
        (apply in_map_iff; exists (nth (Z.to_nat o) st 0%Z); split;
          [unfold rank; rewrite index_of_nth_NoDup by assumption; lia
          |apply Hst; apply nth_In; exact Hk]).
      * intros v [Hv|Hv].
        -- rewrite Hc in Hv. apply in_map_iff in Hv as (x & <- & Hx). apply Hst in Hx.
           destruct (rank_nth st x Hx) as [_ R2]. unfold small. lia.
        -- apply Hst in Hv. apply Hsm in Hv. unfold small, small29 in *. lia.
Qed.

Lemma states_mk_spec ts : st_states (mk_spec ts) = usort (concat ts).
Proof. reflexivity. Qed.

Lemma index_rank ts : st_idx (mk_spec ts) = map (map (rank (unique ts))) ts.
Proof. reflexivity. Qed.

Lemma counters_mk_spec ts :
  ntrajs (mk_spec ts) = length ts /\
  nframes (mk_spec ts) = length (concat ts) /\
  nstates (mk_spec ts) = length (usort (concat ts)).
Proof.
  unfold ntrajs, nframes, nstates, mk_spec. cbn [st_idx st_states]. rewrite map_length.
  split; [reflexivity|]. split; [|reflexivity].
  rewrite map_map. generalize (rank (unique ts)). intros f.
  induction ts as [|t ts IH]; simpl; [reflexivity|].
  rewrite app_length, map_length, IH. reflexivity.
Qed.
