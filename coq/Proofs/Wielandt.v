(* Wielandt's bound: a strongly connected aperiodic graph on n vertices has walks of
   length exactly (n-1)^2+1 between all pairs of vertices. *)
From Coq Require Import List ZArith Arith Bool Lia PeanoNat.
From MsmV Require Import Lib.Result Lib.PyList Lib.QMat Model.Ergodic Proofs.QMatFacts Proofs.ErgodicFacts.
Import ListNotations.
Local Open Scope nat_scope.

(* ------------------------------------------------------------------ *)
(* 0. generic facts on naturals: bounded search, least witness, pigeonhole *)
(* ------------------------------------------------------------------ *)
Lemma dec_ex_lt (P : nat -> Prop) : (forall i, P i \/ ~ P i) ->
  forall k, (exists i, i < k /\ P i) \/ (forall i, i < k -> ~ P i).
Proof.
  intros Pdec. induction k as [|k IH].
  - right. intros i Hi. lia.
  - destruct IH as [[i [Hi HP]]|IH].
    + left. exists i. split; [lia|exact HP].
    + destruct (Pdec k) as [HP|HP].
      * left. exists k. split; [lia|exact HP].
      * right. intros i Hi. destruct (Nat.eq_dec i k) as [->|Hne]; [exact HP|apply IH; lia].
Qed.

Lemma least_ex (P : nat -> Prop) : (forall k, P k \/ ~ P k) ->
  forall k, P k -> exists m, m <= k /\ P m /\ forall m', m' < m -> ~ P m'.
Proof.
  intros Pdec.
  assert (H : forall k, (exists m, m < k /\ P m /\ forall m', m' < m -> ~ P m')
                        \/ (forall m, m < k -> ~ P m)).
  { induction k as [|k IH].
    - right. intros m Hm. lia.
    - destruct IH as [[m [Hm [HP Hmin]]]|IH].
      + left. exists m. split; [lia|]. split; [exact HP|exact Hmin].
      + destruct (Pdec k) as [HP|HP].
        * left. exists k. split; [lia|]. split; [exact HP|exact IH].
        * right. intros m Hm. destruct (Nat.eq_dec m k) as [->|Hne]; [exact HP|apply IH; lia]. }
  intros k HP. destruct (H (S k)) as [[m [Hm [HPm Hmin]]]|Hno].
  - exists m. split; [lia|]. split; assumption.
  - exfalso. apply (Hno k); [lia|exact HP].
Qed.

Lemma php : forall n f, (forall a, a <= n -> f a < n) ->
  exists p q, p < q /\ q <= n /\ f p = f q.
Proof.
  induction n as [|n IH]; intros f Hf.
  - specialize (Hf 0 (le_n 0)). lia.
  - assert (Pdec : forall a, f a = f (S n) \/ ~ f a = f (S n)).
    { intros a. destruct (Nat.eq_dec (f a) (f (S n))); [left|right]; assumption. }
    destruct (dec_ex_lt _ Pdec (S n)) as [[a [Ha E]]|Hno].
    + exists a, (S n). split; [lia|]. split; [lia|exact E].
    + assert (Hv : f (S n) < S n) by (apply Hf; lia).
      destruct (IH (fun a => if f a <? f (S n) then f a else f a - 1)) as [p [q [Hpq [Hq E]]]].
      * intros a Ha. assert (Ha1 : f a < S n) by (apply Hf; lia).
        assert (Ha2 : f a <> f (S n)) by (apply Hno; lia).
        destruct (Nat.ltb_spec (f a) (f (S n))); lia.
      * exists p, q. split; [exact Hpq|]. split; [lia|].
        assert (Hp2 : f p <> f (S n)) by (apply Hno; lia).
        assert (Hq2 : f q <> f (S n)) by (apply Hno; lia).
        cbv beta in E.
        destruct (Nat.ltb_spec (f p) (f (S n))); destruct (Nat.ltb_spec (f q) (f (S n))); lia.
Qed.

Lemma inj_bound k m f : (forall a, a < k -> f a < m) ->
  (forall p q, p < q -> q < k -> f p <> f q) -> k <= m.
Proof.
  intros Hf Hinj. destruct (le_lt_dec k m) as [H|H]; [exact H|]. exfalso.
  destruct (php m f) as [p [q [Hpq [Hq E]]]].
  { intros a Ha. apply Hf. lia. }
  apply (Hinj p q Hpq); [lia|exact E].
Qed.

Lemma inj_surj m f : (forall a, a < m -> f a < m) ->
  (forall p q, p < q -> q < m -> f p <> f q) ->
  forall v, v < m -> exists a, a < m /\ f a = v.
Proof.
  intros Hf Hinj v Hv.
  assert (Pdec : forall a, f a = v \/ ~ f a = v).
  { intros a. destruct (Nat.eq_dec (f a) v); [left|right]; assumption. }
  destruct (dec_ex_lt _ Pdec m) as [H|Hno]; [exact H|]. exfalso.
  assert (Hle : S m <= m); [|lia].
  apply (inj_bound (S m) m (fun a => if a <? m then f a else v)).
  - intros a Ha. destruct (Nat.ltb_spec a m); [apply Hf; assumption|exact Hv].
  - intros p q Hpq Hq. destruct (Nat.ltb_spec p m) as [Hp|Hp]; [|lia].
    destruct (Nat.ltb_spec q m) as [Hq'|Hq'].
    + apply Hinj; assumption.
    + apply Hno. exact Hp.
Qed.

Lemma div_dec g k : Nat.divide g k \/ ~ Nat.divide g k.
Proof.
  destruct g as [|g].
  - destruct k as [|k].
    + left. exists 0. reflexivity.
    + right. intros [x Hx]. lia.
  - destruct (Nat.eq_dec (k mod S g) 0) as [E|E].
    + left. apply Nat.mod_divide; [lia|exact E].
    + right. intros H. apply E. apply Nat.mod_divide; [lia|exact H].
Qed.

(* ------------------------------------------------------------------ *)
(* 1. additive semigroups of naturals                                  *)
(* ------------------------------------------------------------------ *)
Section Semigroup.
Variable S : nat -> Prop.
Hypothesis S0 : S 0.
Hypothesis Sadd : forall a b, S a -> S b -> S (a + b).

(* all sufficiently large multiples of g are in S *)
Definition ev (g : nat) : Prop := exists N, forall m, N <= m -> Nat.divide g m -> S m.

Lemma S_mul a t : S a -> S (t * a).
Proof.
  intros Ha. induction t as [|t IH]; cbn [Nat.mul]; [exact S0|].
  apply Sadd; assumption.
Qed.

Lemma ev_self a : S a -> ev a.
Proof.
  intros Ha. exists 0. intros m _ [t Ht]. subst m. apply S_mul. exact Ha.
Qed.

Lemma ev_gcd g b : 1 <= g -> 1 <= b -> ev g -> S b -> ev (Nat.gcd g b).
Proof.
  intros Hg Hb [N HN] Sb.
  destruct (Nat.gcd_bezout_pos b g) as [u [v Huv]]; [lia|].
  rewrite (Nat.gcd_comm b g) in Huv.
  set (d := Nat.gcd g b) in *.
  exists (N + g * b). intros m Hm [t Ht].
  set (y0 := t * u).
  assert (Hg0 : g <> 0) by lia.
  assert (Hdm : y0 = g * (y0 / g) + y0 mod g) by (apply Nat.div_mod; exact Hg0).
  assert (Hy : y0 mod g < g) by (apply Nat.mod_upper_bound; exact Hg0).
  set (y := y0 mod g) in *. set (q := y0 / g) in *.
  assert (Hyb : y * b <= g * b) by (apply Nat.mul_le_mono_r; lia).
  (* y0 * b = m + t * v * g *)
  assert (H1 : y0 * b = m + t * v * g).
  { unfold y0. rewrite <- Nat.mul_assoc, Huv, Ht. ring. }
  assert (H2 : y0 * b = g * (q * b) + y * b).
  { rewrite Hdm at 1. ring. }
  assert (Hx : Nat.divide g (m - y * b)).
  { exists (q * b - t * v). rewrite Nat.mul_sub_distr_r.
    replace (q * b * g) with (g * (q * b)) by ring. lia. }
  replace m with ((m - y * b) + y * b) by lia.
  apply Sadd.
  - apply HN; [lia|exact Hx].
  - apply S_mul. exact Sb.
Qed.

Lemma ev_one :
  (forall g, 2 <= g -> exists b, S b /\ ~ Nat.divide g b) ->
  forall g, 1 <= g -> ev g -> ev 1.
Proof.
  intros Hfind g. induction g as [g IH] using lt_wf_ind. intros Hg Hev.
  destruct (Nat.eq_dec g 1) as [->|Hne]; [exact Hev|].
  destruct (Hfind g) as [b [Sb Hnd]]; [lia|].
  assert (Hb : 1 <= b).
  { destruct b as [|b]; [|lia]. exfalso. apply Hnd. exists 0. reflexivity. }
  assert (Hd1 : Nat.divide (Nat.gcd g b) g) by apply Nat.gcd_divide_l.
  assert (Hd2 : Nat.divide (Nat.gcd g b) b) by apply Nat.gcd_divide_r.
  assert (Hle : Nat.gcd g b <= g) by (apply Nat.divide_pos_le; [lia|exact Hd1]).
  assert (Hpos : Nat.gcd g b <> 0).
  { intros E. apply Nat.gcd_eq_0_l in E. lia. }
  assert (Hneq : Nat.gcd g b <> g).
  { intros E. apply Hnd. rewrite <- E. exact Hd2. }
  apply (IH (Nat.gcd g b)); [lia|lia|].
  apply ev_gcd; assumption.
Qed.
End Semigroup.

(* ------------------------------------------------------------------ *)
(* 2. walks: basic facts, traces (vertex sequences), cutting           *)
(* ------------------------------------------------------------------ *)
Section Walks.
Variables (n : nat) (G : bmat).
Hypothesis HG : bwf n G.
Local Notation W := (walk G).

Lemma bget_true_lt i m : bget G i m = true -> i < n.
Proof.
  intros H. destruct (lt_dec i n) as [Hi|Hi]; [exact Hi|]. exfalso.
  unfold bget in H. rewrite (nth_overflow G []) in H by (rewrite (proj1 HG); lia).
  destruct m; cbn in H; discriminate.
Qed.

Lemma walk_0 i j : W 0 i j <-> i = j /\ i < n.
Proof. cbn [walk]. rewrite (proj1 HG). tauto. Qed.

Lemma walk_S k i j : W (S k) i j <-> exists m, m < n /\ bget G i m = true /\ W k m j.
Proof. cbn [walk]. rewrite (proj1 HG). tauto. Qed.

Lemma walk_lt_l k i j : W k i j -> i < n.
Proof.
  destruct k as [|k]; intros H.
  - apply walk_0 in H. tauto.
  - apply walk_S in H. destruct H as [m [_ [Hb _]]]. eapply bget_true_lt; exact Hb.
Qed.

Lemma walk_lt_r k : forall i j, W k i j -> j < n.
Proof.
  induction k as [|k IH]; intros i j H.
  - apply walk_0 in H. destruct H as [E Hi]. subst j. exact Hi.
  - apply walk_S in H. destruct H as [m [_ [_ Hw]]]. eapply IH; exact Hw.
Qed.

Lemma walk_refl i : i < n -> W 0 i i.
Proof. intros Hi. apply walk_0. split; [reflexivity|exact Hi]. Qed.

Lemma walk_split a b : forall i j, W (a + b) i j -> exists v, W a i v /\ W b v j.
Proof.
  induction a as [|a IH]; intros i j H.
  - cbn [Nat.add] in H. exists i. split; [|exact H].
    apply walk_refl. eapply walk_lt_l; exact H.
  - cbn [Nat.add] in H. apply walk_S in H. destruct H as [m [Hm [Hb Hw]]].
    destruct (IH m j Hw) as [v [H1 H2]]. exists v. split; [|exact H2].
    apply walk_S. exists m. split; [exact Hm|]. split; [exact Hb|exact H1].
Qed.

Lemma walk_dec k i j : W k i j \/ ~ W k i j.
Proof.
  destruct (lt_dec i n) as [Hi|Hi];
    [|right; intros H; apply Hi; eapply walk_lt_l; exact H].
  destruct (lt_dec j n) as [Hj|Hj];
    [|right; intros H; apply Hj; eapply walk_lt_r; exact H].
  destruct (bget (bpow G k) i j) eqn:E.
  - left. apply (bpow_walk n G k i j HG Hi Hj). exact E.
  - right. intros H. apply (bpow_walk n G k i j HG Hi Hj) in H. congruence.
Qed.

Lemma walk_mul_loop s u t : W s u u -> W (s * t) u u.
Proof.
  intros H. induction t as [|t IH].
  - rewrite Nat.mul_0_r. apply walk_refl. eapply walk_lt_l; exact H.
  - rewrite Nat.mul_succ_r. eapply walk_app; [exact IH|exact H].
Qed.

(* a vertex sequence f 0, f 1, ..., f t whose consecutive members are joined by
   walks of length s *)
Definition trace (s : nat) (f : nat -> nat) (t : nat) : Prop :=
  forall a, a < t -> W s (f a) (f (S a)).

Lemma walk_trace s t : forall i j, W (s * t) i j ->
  exists f, f 0 = i /\ f t = j /\ trace s f t.
Proof.
  induction t as [|t IH]; intros i j H.
  - rewrite Nat.mul_0_r in H. apply walk_0 in H. destruct H as [E _].
    exists (fun _ => i). split; [reflexivity|]. split; [exact E|].
    intros a Ha. lia.
  - rewrite Nat.mul_succ_r, Nat.add_comm in H. apply walk_split in H.
    destruct H as [v [H1 H2]].
    destruct (IH v j H2) as [f [F0 [Ft Ftr]]].
    exists (fun a => match a with 0 => i | S a' => f a' end).
    split; [reflexivity|]. split; [exact Ft|].
    intros a Ha. destruct a as [|a].
    + rewrite F0. exact H1.
    + apply Ftr. lia.
Qed.

Lemma walk_trace1 t i j : W t i j -> exists f, f 0 = i /\ f t = j /\ trace 1 f t.
Proof. intros H. apply walk_trace. rewrite Nat.mul_1_l. exact H. Qed.

Lemma trace_lt s f t : trace s f t -> f 0 < n -> forall a, a <= t -> f a < n.
Proof.
  intros Htr H0 a Ha. destruct a as [|a]; [exact H0|].
  eapply walk_lt_r. apply (Htr a). lia.
Qed.

Lemma trace_seg_add s f t : trace s f t -> f 0 < n ->
  forall d a, a + d <= t -> W (s * d) (f a) (f (a + d)).
Proof.
  intros Htr H0. induction d as [|d IH]; intros a Ha.
  - rewrite Nat.mul_0_r, Nat.add_0_r. apply walk_refl.
    apply (trace_lt s f t Htr H0). lia.
  - rewrite Nat.mul_succ_r. replace (a + S d) with (S (a + d)) by lia.
    eapply walk_app; [apply IH; lia|]. apply Htr. lia.
Qed.

Lemma trace_seg s f t : trace s f t -> f 0 < n ->
  forall a b, a <= b -> b <= t -> W (s * (b - a)) (f a) (f b).
Proof.
  intros Htr H0 a b Hab Hb.
  assert (H := trace_seg_add s f t Htr H0 (b - a) a).
  replace (a + (b - a)) with b in H by lia. apply H. lia.
Qed.

Lemma trace_seg1 f t : trace 1 f t -> f 0 < n ->
  forall a b, a <= b -> b <= t -> W (b - a) (f a) (f b).
Proof.
  intros Htr H0 a b Hab Hb. rewrite <- (Nat.mul_1_l (b - a)).
  apply (trace_seg 1 f t); assumption.
Qed.

(* cutting out the piece between two equal members of a trace *)
Lemma trace_cut s f t : trace s f t -> f 0 < n ->
  forall p q, p <= q -> q <= t -> f p = f q -> W (s * (p + (t - q))) (f 0) (f t).
Proof.
  intros Htr H0 p q Hpq Hq E.
  rewrite Nat.mul_add_distr_l.
  eapply walk_app.
  - replace p with (p - 0) at 1 by lia. apply (trace_seg s f t Htr H0); lia.
  - rewrite E. apply (trace_seg s f t Htr H0); lia.
Qed.

(* shortest walks in the s-step graph have at most n-1 steps *)
Lemma short_walk s i j : (exists t, W (s * t) i j) ->
  exists t, t <= n - 1 /\ W (s * t) i j.
Proof.
  intros [t0 H0].
  destruct (least_ex (fun t => W (s * t) i j)) with (k := t0) as [t [_ [Ht Hmin]]];
    [intros k; apply walk_dec|exact H0|].
  exists t. split; [|exact Ht].
  destruct (walk_trace s t i j Ht) as [f [F0 [Ft Ftr]]].
  assert (Hi : f 0 < n) by (rewrite F0; eapply walk_lt_l; exact Ht).
  assert (Hb : S t <= n); [|lia].
  apply (inj_bound (S t) n f).
  - intros a Ha. apply (trace_lt s f t Ftr Hi). lia.
  - intros p q Hpq Hq E.
    apply (Hmin (p + (t - q))); [lia|].
    rewrite <- F0, <- Ft. apply (trace_cut s f t Ftr Hi p q); [lia|lia|exact E].
Qed.

(* a divisor of all closed-walk lengths up to n divides all closed-walk lengths *)
Lemma closed_div_bounded g :
  (forall i k, 1 <= k -> k <= n -> W k i i -> Nat.divide g k) ->
  forall k i, 1 <= k -> W k i i -> Nat.divide g k.
Proof.
  intros Hb k. induction k as [k IH] using lt_wf_ind. intros i Hk Hw.
  destruct (le_lt_dec k n) as [Hle|Hlt]; [apply (Hb i); assumption|].
  destruct (walk_trace1 k i i Hw) as [f [F0 [Fk Ftr]]].
  assert (Hi : f 0 < n) by (rewrite F0; eapply walk_lt_l; exact Hw).
  destruct (php n f) as [p [q [Hpq [Hq E]]]].
  { intros a Ha. apply (trace_lt 1 f k Ftr Hi). lia. }
  assert (H1 : W (q - p) (f p) (f p)).
  { rewrite E at 2. apply (trace_seg1 f k Ftr Hi); lia. }
  assert (H2 : W (p + (k - q)) i i).
  { assert (H := trace_cut 1 f k Ftr Hi p q).
    rewrite Nat.mul_1_l, F0, Fk in H. apply H; [lia|lia|exact E]. }
  replace k with ((q - p) + (p + (k - q))) by lia.
  apply Nat.divide_add_r.
  - apply (IH (q - p)) with (i := f p); [lia|lia|exact H1].
  - apply (IH (p + (k - q))) with (i := i); [lia|lia|exact H2].
Qed.
End Walks.

(* ------------------------------------------------------------------ *)
(* 3. the main argument, for n >= 2                                    *)
(* ------------------------------------------------------------------ *)
Section Main.
Variables (n : nat) (G : bmat).
Hypothesis HG : bwf n G.
Hypothesis Hn2 : 2 <= n.
Hypothesis Hsc : forall i j, i < n -> j < n -> exists k, walk G k i j.
Hypothesis Hap : forall d,
  (forall i k, i < n -> 1 <= k -> walk G k i i -> Nat.divide d k) -> d = 1.
Local Notation W := (walk G).

Lemma closed_at c : c < n -> exists a, 1 <= a /\ W a c c.
Proof.
  intros Hc. set (c' := if c =? 0 then 1 else 0).
  assert (Hc' : c' < n /\ c' <> c).
  { unfold c'. destruct (Nat.eqb_spec c 0); lia. }
  destruct (Hsc c c') as [a Ha]; [exact Hc|tauto|].
  destruct (Hsc c' c) as [b Hb]; [tauto|exact Hc|].
  exists (a + b). split.
  - destruct a as [|a]; [|lia]. apply (walk_0 n G HG) in Ha. lia.
  - eapply walk_app; eassumption.
Qed.

(* aperiodicity, constructively: a non-trivial d fails to divide some closed-walk length *)
Lemma find_nondiv g : 2 <= g -> exists i k, 1 <= k /\ W k i i /\ ~ Nat.divide g k.
Proof.
  intros Hg.
  set (Q := fun i k => 1 <= k /\ W k i i /\ ~ Nat.divide g k).
  assert (Qdec : forall i k, Q i k \/ ~ Q i k).
  { intros i k. unfold Q. destruct (le_lt_dec 1 k) as [H1|H1]; [|right; lia].
    destruct (walk_dec n G HG k i i) as [H2|H2]; [|right; tauto].
    destruct (div_dec g k) as [H3|H3]; [right; tauto|left; tauto]. }
  assert (Rdec : forall i, (exists k, k < S n /\ Q i k) \/ ~ (exists k, k < S n /\ Q i k)).
  { intros i. destruct (dec_ex_lt (Q i) (Qdec i) (S n)) as [H|H]; [left; exact H|].
    right. intros [k [Hk HQ]]. exact (H k Hk HQ). }
  destruct (dec_ex_lt _ Rdec n) as [[i [Hi [k [Hk HQ]]]]|Hno].
  - exists i, k. exact HQ.
  - exfalso. assert (E : g = 1); [|lia]. apply Hap. intros i k Hi Hk Hw.
    apply (closed_div_bounded n G HG g) with (i := i); [|exact Hk|exact Hw].
    intros i' k' Hk1 Hk2 Hw'. destruct (div_dec g k') as [H|H]; [exact H|]. exfalso.
    apply (Hno i').
    + eapply (walk_lt_l n G HG); exact Hw'.
    + exists k'. split; [lia|]. unfold Q. tauto.
Qed.

Lemma find_at c g : c < n -> 2 <= g -> exists b, W b c c /\ ~ Nat.divide g b.
Proof.
  intros Hc Hg. destruct (find_nondiv g Hg) as [i [k [Hk [Hw Hnd]]]].
  assert (Hi : i < n) by (eapply (walk_lt_l n G HG); exact Hw).
  destruct (Hsc c i Hc Hi) as [a Ha]. destruct (Hsc i c Hi Hc) as [b Hb].
  destruct (div_dec g (a + b)) as [H|H].
  - exists (a + (k + b)). split.
    + eapply walk_app; [exact Ha|]. eapply walk_app; eassumption.
    + intros H'. apply Hnd.
      apply (Nat.divide_add_cancel_r g (a + b) k); [exact H|].
      replace (a + b + k) with (a + (k + b)) by lia. exact H'.
  - exists (a + b). split; [eapply walk_app; eassumption|exact H].
Qed.

(* primitivity: all walks of some common length exist *)
Lemma primitive_G : exists k0, 1 <= k0 /\ forall i j, i < n -> j < n -> W k0 i j.
Proof.
  assert (H0 : 0 < n) by lia.
  destruct (closed_at 0 H0) as [a [Ha Hwa]].
  assert (S0 : W 0 0 0) by (apply (walk_refl n G HG); exact H0).
  assert (Sadd : forall x y, W x 0 0 -> W y 0 0 -> W (x + y) 0 0).
  { intros x y Hx Hy. eapply walk_app; eassumption. }
  assert (Hev : ev (fun k => W k 0 0) 1).
  { apply (ev_one (fun k => W k 0 0) S0 Sadd) with (g := a).
    - intros g Hg. apply find_at; assumption.
    - exact Ha.
    - apply (ev_self (fun k => W k 0 0) S0 Sadd). exact Hwa. }
  destruct Hev as [N HN].
  exists (N + 2 * (n - 1) + 1). split; [lia|]. intros i j Hi Hj.
  destruct (short_walk n G HG 1 i 0) as [a' [Ha' Hwa']].
  { destruct (Hsc i 0 Hi H0) as [k Hk]. exists k. rewrite Nat.mul_1_l. exact Hk. }
  destruct (short_walk n G HG 1 0 j) as [b' [Hb' Hwb']].
  { destruct (Hsc 0 j H0 Hj) as [k Hk]. exists k. rewrite Nat.mul_1_l. exact Hk. }
  rewrite Nat.mul_1_l in Hwa', Hwb'.
  replace (N + 2 * (n - 1) + 1) with (a' + ((N + 2 * (n - 1) + 1 - a' - b') + b')) by lia.
  eapply walk_app; [exact Hwa'|]. eapply walk_app; [|exact Hwb'].
  apply HN; [lia|]. apply Nat.divide_1_l.
Qed.

(* a closed walk of minimal positive length, as a vertex sequence *)
Lemma min_cycle : exists s f, 1 <= s /\ f 0 < n /\ f s = f 0 /\ trace G 1 f s /\
  (forall k i, 1 <= k -> k < s -> ~ W k i i).
Proof.
  set (P := fun s => 1 <= s /\ exists i, i < n /\ W s i i).
  assert (Pdec : forall s, P s \/ ~ P s).
  { intros s. unfold P. destruct (le_lt_dec 1 s) as [H1|H1]; [|right; lia].
    destruct (dec_ex_lt (fun i => W s i i) (fun i => walk_dec n G HG s i i) n) as [H|H].
    - left. split; [exact H1|exact H].
    - right. intros [_ [i [Hi Hw]]]. exact (H i Hi Hw). }
  destruct (closed_at 0) as [a [Ha Hwa]]; [lia|].
  destruct (least_ex P Pdec a) as [s [_ [[Hs [c [Hc Hw]]] Hmin]]].
  { split; [exact Ha|]. exists 0. split; [lia|exact Hwa]. }
  destruct (walk_trace1 n G HG s c c Hw) as [f [F0 [Fs Ftr]]].
  exists s, f. split; [exact Hs|]. split; [rewrite F0; exact Hc|].
  split; [congruence|]. split; [exact Ftr|].
  intros k i Hk1 Hk2 Hwk. apply (Hmin k Hk2). split; [exact Hk1|].
  exists i. split; [eapply (walk_lt_l n G HG); exact Hwk|exact Hwk].
Qed.

Section Cycle.
Variables (s : nat) (f : nat -> nat).
Hypothesis Hs : 1 <= s.
Hypothesis Hf0 : f 0 < n.
Hypothesis Hfs : f s = f 0.
Hypothesis Htr : trace G 1 f s.
Hypothesis Hmin : forall k i, 1 <= k -> k < s -> ~ W k i i.

Lemma cyc_seg a b : a <= b -> b <= s -> W (b - a) (f a) (f b).
Proof. apply (trace_seg1 n G HG f s Htr Hf0). Qed.

Lemma cyc_inj p q : p < q -> q < s -> f p <> f q.
Proof.
  intros Hpq Hq E. apply (Hmin (q - p) (f p)); [lia|lia|].
  rewrite E at 2. apply cyc_seg; lia.
Qed.

Lemma cyc_inj_eq a b : a < s -> b < s -> f a = f b -> a = b.
Proof.
  intros Ha Hb E. destruct (lt_eq_lt_dec a b) as [[H|H]|H]; [|exact H|]; exfalso.
  - exact (cyc_inj a b H Hb E).
  - exact (cyc_inj b a H Ha (eq_sym E)).
Qed.

Lemma cyc_lt a : a <= s -> f a < n.
Proof. apply (trace_lt n G HG 1 f s Htr Hf0). Qed.

Lemma s_le_n : s <= n.
Proof.
  apply (inj_bound s n f).
  - intros a Ha. apply cyc_lt. lia.
  - exact cyc_inj.
Qed.

Definition cyc (u : nat) : Prop := exists b, b < s /\ u = f b.

Lemma cyc_loop u : cyc u -> W s u u.
Proof.
  intros [b [Hb ->]].
  assert (H1 : W (s - b) (f b) (f s)) by (apply cyc_seg; lia).
  assert (H2 : W (b - 0) (f 0) (f b)) by (apply cyc_seg; lia).
  rewrite Hfs in H1. rewrite Nat.sub_0_r in H2.
  assert (H : W ((s - b) + b) (f b) (f b)) by (eapply walk_app; eassumption).
  replace (s - b + b) with s in H by lia. exact H.
Qed.

Lemma cyc_next u : cyc u -> exists u', cyc u' /\ W 1 u u'.
Proof.
  intros [b [Hb ->]]. assert (H := Htr b Hb).
  destruct (Nat.eq_dec (S b) s) as [E|E].
  - exists (f 0). split; [exists 0; split; [lia|reflexivity]|].
    rewrite E, Hfs in H. exact H.
  - exists (f (S b)). split; [exists (S b); split; [lia|reflexivity]|exact H].
Qed.

Lemma cyc_run t : forall u, cyc u -> exists u', cyc u' /\ W t u u'.
Proof.
  induction t as [|t IH]; intros u Hu.
  - exists u. split; [exact Hu|]. apply (walk_refl n G HG).
    destruct Hu as [b [Hb ->]]. apply cyc_lt. lia.
  - destruct (cyc_next u Hu) as [u1 [Hu1 Hw1]].
    destruct (IH u1 Hu1) as [u' [Hu' Hw']].
    exists u'. split; [exact Hu'|].
    change (S t) with (1 + t). eapply walk_app; eassumption.
Qed.

(* the minimal closed walk is not Hamiltonian: otherwise every edge is an edge of the
   cycle and n divides every closed-walk length *)
Lemma s_lt_n : s <= n - 1.
Proof.
  destruct (le_lt_dec s (n - 1)) as [H|H]; [exact H|]. exfalso.
  assert (Hsn : s = n) by (pose proof s_le_n; lia).
  assert (Hsurj : forall v, v < n -> exists a, a < n /\ f a = v).
  { apply inj_surj.
    - intros a Ha. apply cyc_lt. lia.
    - intros p q Hpq Hq. apply cyc_inj; lia. }
  assert (Hbig : forall k i, 1 <= k -> W k i i -> n <= k).
  { intros k i Hk Hw. destruct (le_lt_dec n k) as [Hle|Hlt]; [exact Hle|].
    exfalso. apply (Hmin k i Hk); [lia|exact Hw]. }
  assert (Hedge : forall u v, W 1 u v -> exists a, a < n /\ u = f a /\ v = f (S a)).
  { intros u v Huv.
    assert (Hu : u < n) by (eapply (walk_lt_l n G HG); exact Huv).
    assert (Hv : v < n) by (eapply (walk_lt_r n G HG); exact Huv).
    destruct (Hsurj u Hu) as [a [Ha Ea]]. destruct (Hsurj v Hv) as [b [Hb Eb]].
    subst u v. exists a. split; [exact Ha|]. split; [reflexivity|].
    destruct (le_lt_dec b a) as [Hba|Hab].
    - assert (H1 : W (a - b) (f b) (f a)) by (apply cyc_seg; lia).
      assert (H2 : W ((a - b) + 1) (f b) (f b)) by (eapply walk_app; eassumption).
      apply Hbig in H2; [|lia].
      assert (b = 0) by lia. assert (S a = s) by lia.
      subst b. rewrite H3. symmetry. exact Hfs.
    - assert (H1 : W (s - b) (f b) (f s)) by (apply cyc_seg; lia).
      assert (H2 : W (a - 0) (f 0) (f a)) by (apply cyc_seg; lia).
      rewrite Hfs in H1. rewrite Nat.sub_0_r in H2.
      assert (H3 : W ((s - b) + (a + 1)) (f b) (f b)).
      { eapply walk_app; [exact H1|]. eapply walk_app; eassumption. }
      apply Hbig in H3; [|lia].
      replace b with (S a) by lia. reflexivity. }
  assert (Hpot : forall k a b, a < n -> b < n -> W k (f a) (f b) ->
                 exists q, a + k = b + n * q).
  { induction k as [|k IH]; intros a b Ha Hb Hw.
    - apply (walk_0 n G HG) in Hw. destruct Hw as [E _].
      apply cyc_inj_eq in E; [|lia|lia]. exists 0. lia.
    - change (S k) with (1 + k) in Hw. apply (walk_split n G HG) in Hw.
      destruct Hw as [m [Hw1 Hw2]].
      destruct (Hedge _ _ Hw1) as [a' [Ha' [Ea Em]]].
      apply cyc_inj_eq in Ea; [|lia|lia]. subst a' m.
      destruct (Nat.eq_dec (S a) n) as [E|E].
      + rewrite E, <- Hsn, Hfs in Hw2.
        destruct (IH 0 b) as [q Hq]; [lia|exact Hb|exact Hw2|].
        exists (S q). rewrite Nat.mul_succ_r. lia.
      + destruct (IH (S a) b) as [q Hq]; [lia|exact Hb|exact Hw2|].
        exists q. lia. }
  assert (E : n = 1); [|lia].
  apply Hap. intros i k Hi Hk Hw.
  destruct (Hsurj i Hi) as [a [Ha Ea]]. subst i.
  destruct (Hpot k a a Ha Ha Hw) as [q Hq].
  exists q. rewrite Nat.mul_comm. lia.
Qed.

(* every vertex reaches the cycle in exactly n - s steps *)
Lemma reach_cyc i : i < n -> exists u, cyc u /\ W (n - s) i u.
Proof.
  intros Hi.
  set (P := fun t => exists b, b < s /\ W t i (f b)).
  assert (Pdec : forall t, P t \/ ~ P t).
  { intros t. unfold P.
    destruct (dec_ex_lt (fun b => W t i (f b)) (fun b => walk_dec n G HG t i (f b)) s) as [H|H].
    - left. exact H.
    - right. intros [b [Hb Hw]]. exact (H b Hb Hw). }
  destruct (Hsc i (f 0) Hi Hf0) as [t0 Ht0].
  destruct (least_ex P Pdec t0) as [t [_ [[b [Hb Hw]] Hleast]]].
  { exists 0. split; [lia|exact Ht0]. }
  destruct (walk_trace1 n G HG t i (f b) Hw) as [g [G0 [Gt Gtr]]].
  assert (Hg0 : g 0 < n) by (rewrite G0; exact Hi).
  assert (Hts : t + s <= n).
  { apply (inj_bound (t + s) n (fun a => if a <? t then g a else f (a - t))).
    - intros a Ha. destruct (Nat.ltb_spec a t) as [Hat|Hat].
      + apply (trace_lt n G HG 1 g t Gtr Hg0). lia.
      + apply cyc_lt. lia.
    - intros p q Hpq Hq. cbv beta.
      destruct (Nat.ltb_spec p t) as [Hp|Hp]; destruct (Nat.ltb_spec q t) as [Hq'|Hq'].
      + intros E. apply (Hleast (p + (t - q))); [lia|].
        exists b. split; [exact Hb|].
        assert (H := trace_cut n G HG 1 g t Gtr Hg0 p q).
        rewrite Nat.mul_1_l, G0, Gt in H. apply H; [lia|lia|exact E].
      + intros E. apply (Hleast p Hp).
        exists (q - t). split; [lia|].
        assert (H := trace_seg1 n G HG g t Gtr Hg0 0 p).
        rewrite Nat.sub_0_r, G0, E in H. apply H; lia.
      + lia.
      + apply cyc_inj; lia. }
  destruct (cyc_run (n - s - t) (f b)) as [u' [Hu' Hw']].
  { exists b. split; [exact Hb|reflexivity]. }
  exists u'. split; [exact Hu'|].
  replace (n - s) with (t + (n - s - t)) by lia.
  eapply walk_app; eassumption.
Qed.

(* from a cycle vertex every vertex is reached in exactly s (n-1) steps *)
Lemma from_cyc u j : cyc u -> j < n -> W (s * (n - 1)) u j.
Proof.
  intros Hu Hj.
  assert (Hun : u < n) by (destruct Hu as [b [Hb ->]]; apply cyc_lt; lia).
  destruct primitive_G as [k0 [Hk0 Hall]].
  destruct (short_walk n G HG s u j) as [t [Ht Hw]].
  { exists k0. apply (walks_monotone n G k0 HG Hk0 Hall); [|exact Hun|exact Hj].
    destruct s as [|s']; [lia|]. cbn [Nat.mul]. lia. }
  assert (Hl : W (s * (n - 1 - t)) u u) by (apply (walk_mul_loop n G HG), cyc_loop; exact Hu).
  replace (s * (n - 1)) with (s * (n - 1 - t) + s * t).
  - eapply walk_app; eassumption.
  - rewrite <- Nat.mul_add_distr_l. f_equal. lia.
Qed.

Lemma all_L i j : i < n -> j < n -> W ((n - s) + s * (n - 1)) i j.
Proof.
  intros Hi Hj. destruct (reach_cyc i Hi) as [u [Hu Hw]].
  eapply walk_app; [exact Hw|]. apply from_cyc; assumption.
Qed.
End Cycle.

Lemma wielandt_ge2 i j : i < n -> j < n -> W (wexp n) i j.
Proof.
  intros Hi Hj.
  destruct min_cycle as [s [f [Hs [Hf0 [Hfs [Htr Hmin]]]]]].
  assert (Hsn : s <= n - 1) by (apply (s_lt_n s f); assumption).
  assert (HL : forall i j, i < n -> j < n -> W ((n - s) + s * (n - 1)) i j).
  { intros i' j'. apply (all_L s f); assumption. }
  apply (walks_monotone n G ((n - s) + s * (n - 1)) HG); [ | exact HL | | exact Hi | exact Hj].
  { generalize (s * (n - 1)). intros x. lia. }
  unfold wexp. destruct n as [|m]; [lia|].
  replace (S m - 1) with m by lia. replace (S m - 1) with m in Hsn by lia.
  nia.
Qed.
End Main.

(* ------------------------------------------------------------------ *)
(* 4. Wielandt's theorem                                               *)
(* ------------------------------------------------------------------ *)
Theorem wielandt : forall n G, bwf n G -> 0 < n ->
  strongly_connected G -> aperiodic G ->
  forall i j, i < n -> j < n -> walk G (wexp n) i j.
Proof.
  intros n G HG Hn Hsc Hap i j Hi Hj.
  unfold strongly_connected in Hsc. unfold aperiodic in Hap.
  rewrite (proj1 HG) in Hsc, Hap.
  destruct (le_lt_dec 2 n) as [Hn2|Hn1].
  - apply (wielandt_ge2 n G HG Hn2 Hsc Hap); assumption.
  - assert (n = 1) by lia. subst n.
    assert (i = 0) by lia. assert (j = 0) by lia. subst i j.
    destruct (bget G 0 0) eqn:E.
    + apply walk_loop; [rewrite (proj1 HG); lia|exact E].
    + exfalso. assert (H2 : 2 = 1); [|lia]. apply Hap. intros i k Hi' Hk Hw.
      destruct k as [|k]; [lia|]. apply (walk_S 1 G HG) in Hw.
      destruct Hw as [m [Hm [Hb _]]].
      assert (i = 0) by lia. assert (m = 0) by lia. subst i m. congruence.
Qed.

Print Assumptions wielandt.
