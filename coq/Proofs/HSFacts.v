(* C03: the Hummer-Szabo projection keeps rows normalised and the aggregated
   equilibrium stationary (algebra under run-time certified inverses) *)
From Coq Require Import List ZArith Arith Bool Lia QArith Qcanon.
From MsmV Require Import Lib.Result Lib.PyList Lib.QMat Model.Ergodic Model.Peq Model.HS Proofs.QMatFacts.
Import ListNotations.
Local Open Scope nat_scope.

(* ------------------------------------------------------------------ *)
(* helpers: boolean equality                                           *)
(* ------------------------------------------------------------------ *)
Lemma Qc_eqb_eq a b : Qc_eqb a b = true -> a = b.
Proof. unfold Qc_eqb. intros H. apply Qc_is_canon. apply Qeq_bool_eq. exact H. Qed.

Lemma veq_aux (a b : vec) : length a = length b ->
  forallb (fun q : Qc * Qc => Qc_eqb (fst q) (snd q)) (combine a b) = true -> a = b.
Proof.
  revert b. induction a as [|x a IH]; intros [|y b] Hl H; cbn [length] in Hl;
    try discriminate; [reflexivity|].
  cbn [combine forallb fst snd] in H. apply andb_true_iff in H. destruct H as [H1 H2].
  f_equal; [apply Qc_eqb_eq; exact H1 | apply IH; [lia | exact H2]].
Qed.

Lemma meq_aux (A B : mat) : length A = length B ->
  forallb (fun p : list Qc * list Qc => Nat.eqb (length (fst p)) (length (snd p)) &&
     forallb (fun q : Qc * Qc => Qc_eqb (fst q) (snd q)) (combine (fst p) (snd p)))
    (combine A B) = true -> A = B.
Proof.
  revert B. induction A as [|x A IH]; intros [|y B] Hl H; cbn [length] in Hl;
    try discriminate; [reflexivity|].
  cbn [combine forallb fst snd] in H. apply andb_true_iff in H. destruct H as [H1 H2].
  apply andb_true_iff in H1. destruct H1 as [H1 H3]. apply Nat.eqb_eq in H1.
  f_equal; [apply veq_aux; assumption | apply IH; [lia | exact H2]].
Qed.

(* boolean equality tests of QMat decide Leibniz equality *)
Lemma mat_eqb_eq A B : mat_eqb A B = true -> A = B.
Proof.
  unfold mat_eqb. intros H. apply andb_true_iff in H. destruct H as [H1 H2].
  apply Nat.eqb_eq in H1. apply meq_aux; assumption.
Qed.
Lemma vec_eqb_eq a b : vec_eqb a b = true -> a = b.
Proof.
  unfold vec_eqb. intros H. apply andb_true_iff in H. destruct H as [H1 H2].
  apply Nat.eqb_eq in H1. apply veq_aux; assumption.
Qed.

(* the certificate returned by inverse_cert *)
Lemma inverse_cert_spec A X : inverse_cert A = Some X ->
  mmul A X = identity (length A) /\ mmul X A = identity (length A).
Proof.
  unfold inverse_cert. destruct (inverse A) as [Y|]; [|discriminate].
  destruct (mat_eqb (mmul A Y) (identity (length A)) && mat_eqb (mmul Y A) (identity (length A))) eqn:E;
    [|discriminate].
  intros H. injection H as <-. apply andb_true_iff in E. destruct E as [E1 E2].
  split; apply mat_eqb_eq; assumption.
Qed.

(* the certified stationary vector *)
Lemma stationary_spec T v : stationary T = Some v ->
  vmul v T = v /\ qsum v = 1%Qc /\ (forall x, In x v -> (0 <= x)%Qc).
Proof.
  unfold stationary. cbv zeta. destruct (solve _ _) as [x|]; [|discriminate].
  destruct (is_stationary T x) eqn:E; [|discriminate].
  intros H; injection H as <-. unfold is_stationary in E.
  apply andb_true_iff in E. destruct E as [E E3]. apply andb_true_iff in E. destruct E as [E1 E2].
  split; [apply vec_eqb_eq; exact E1|]. split; [apply Qc_eqb_eq; exact E2|].
  intros y Hy. rewrite forallb_forall in E3. specialize (E3 y Hy).
  unfold Qc_leb in E3. apply Qle_bool_iff in E3. exact E3.
Qed.

(* ------------------------------------------------------------------ *)
(* helpers: vectors, entrywise views                                   *)
(* ------------------------------------------------------------------ *)
Lemma qsum_map_minus {X} (f g : X -> Qc) l :
  qsum (map (fun i => (f i - g i)%Qc) l) = (qsum (map f l) - qsum (map g l))%Qc.
Proof.
  induction l as [|x l IH]; cbn [map].
  - rewrite qsum_nil. ring.
  - rewrite !qsum_cons, IH. ring.
Qed.

Lemma vec_ext n (a b : vec) : length a = n -> length b = n ->
  (forall i, i < n -> nth i a 0%Qc = nth i b 0%Qc) -> a = b.
Proof.
  intros Ha Hb H. apply nth_ext with (d := 0%Qc) (d' := 0%Qc); [congruence|].
  intros i Hi. apply H. lia.
Qed.

Lemma length_ones n : length (ones n) = n.
Proof. unfold ones. apply repeat_length. Qed.

Lemma nth_ones n i : i < n -> nth i (ones n) 0%Qc = 1%Qc.
Proof.
  unfold ones. revert i. induction n as [|n IH]; intros i Hi; [lia|].
  destruct i as [|i]; cbn [repeat nth]; [reflexivity|]. apply IH. lia.
Qed.

Lemma qsum_seq_ones_r b n : length b = n ->
  qsum (map (fun j => (nth j b 0 * nth j (ones n) 0)%Qc) (seq 0 n)) = qsum b.
Proof.
  intros Hb. rewrite (qsum_nth_seq b n Hb). apply qsum_map_ext.
  intros j Hj. apply in_seq in Hj. rewrite nth_ones by lia. ring.
Qed.

Lemma qsum_seq_ones_l b n : length b = n ->
  qsum (map (fun j => (nth j (ones n) 0 * nth j b 0)%Qc) (seq 0 n)) = qsum b.
Proof.
  intros Hb. rewrite (qsum_nth_seq b n Hb). apply qsum_map_ext.
  intros j Hj. apply in_seq in Hj. rewrite nth_ones by lia. ring.
Qed.

(* row vector times matrix *)
Lemma length_vmul n m v M : 0 < n -> wf n m M -> length (vmul v M) = m.
Proof.
  intros Hn HM. unfold vmul. rewrite map_length.
  apply (wf_length _ _ _ (wf_transpose n m M Hn HM)).
Qed.

Lemma nth_vmul n m v M j : 0 < n -> length v = n -> wf n m M -> j < m ->
  nth j (vmul v M) 0%Qc = qsum (map (fun i => (nth i v 0 * mget M i j)%Qc) (seq 0 n)).
Proof.
  intros Hn Hv HM Hj. unfold vmul.
  rewrite (wf_transpose_eq n m M Hn HM), map_map.
  rewrite (nth_map_seq _ m j 0%Qc Hj).
  rewrite (vdot_qsum _ _ n).
  - apply qsum_map_ext. intros k _. rewrite nth_col. reflexivity.
  - exact Hv.
  - rewrite length_col. apply (wf_length _ _ _ HM).
Qed.

(* matrix times column vector *)
Lemma length_mvec M v : length (mvec M v) = length M.
Proof. unfold mvec. apply map_length. Qed.

Lemma nth_mvec n m M v i : wf n m M -> length v = m -> i < n ->
  nth i (mvec M v) 0%Qc = qsum (map (fun j => (mget M i j * nth j v 0)%Qc) (seq 0 m)).
Proof.
  intros HM Hv Hi. unfold mvec.
  rewrite (nth_map_lt (fun r => vdot r v) M i 0%Qc [])
    by (unfold vec; rewrite (wf_length _ _ _ HM); exact Hi).
  rewrite (vdot_qsum _ _ m); [reflexivity| |exact Hv].
  apply (wf_row _ _ _ _ HM Hi).
Qed.

Lemma mvec_mmul n p m A B v : 0 < p -> wf n p A -> wf p m B -> length v = m ->
  mvec (mmul A B) v = mvec A (mvec B v).
Proof.
  intros Hp HA HB Hv.
  assert (HAB : wf n m (mmul A B)) by (apply (wf_mmul n p m); assumption).
  assert (HBv : length (mvec B v) = p) by (rewrite length_mvec; apply (wf_length _ _ _ HB)).
  apply (vec_ext n).
  - rewrite length_mvec. apply (wf_length _ _ _ HAB).
  - rewrite length_mvec. apply (wf_length _ _ _ HA).
  - intros i Hi.
    rewrite (nth_mvec n m _ v i HAB Hv Hi), (nth_mvec n p A _ i HA HBv Hi).
    transitivity (qsum (map (fun j => qsum (map (fun k => (mget A i k * mget B k j * nth j v 0)%Qc) (seq 0 p))) (seq 0 m))).
    + apply qsum_map_ext. intros j Hj. apply in_seq in Hj.
      rewrite (mget_mmul n p m A B i j Hp HA HB Hi) by lia.
      rewrite <- qsum_map_scale_r. reflexivity.
    + rewrite qsum_exchange. apply qsum_map_ext. intros k Hk. apply in_seq in Hk.
      rewrite (nth_mvec p m B v k HB Hv) by lia.
      rewrite <- qsum_map_scale_l. apply qsum_map_ext. intros j _. ring.
Qed.

Lemma vmul_mmul n p m v A B : 0 < n -> 0 < p -> length v = n -> wf n p A -> wf p m B ->
  vmul v (mmul A B) = vmul (vmul v A) B.
Proof.
  intros Hn Hp Hv HA HB.
  assert (HAB : wf n m (mmul A B)) by (apply (wf_mmul n p m); assumption).
  assert (HvA : length (vmul v A) = p) by (apply (length_vmul n p); assumption).
  apply (vec_ext m).
  - apply (length_vmul n m); assumption.
  - apply (length_vmul p m); assumption.
  - intros j Hj.
    rewrite (nth_vmul n m v _ j Hn Hv HAB Hj), (nth_vmul p m _ B j Hp HvA HB Hj).
    transitivity (qsum (map (fun i => qsum (map (fun k => (nth i v 0 * mget A i k * mget B k j)%Qc) (seq 0 p))) (seq 0 n))).
    + apply qsum_map_ext. intros i Hi. apply in_seq in Hi.
      rewrite (mget_mmul n p m A B i j Hp HA HB) by lia.
      rewrite <- qsum_map_scale_l. apply qsum_map_ext. intros k _. ring.
    + rewrite qsum_exchange. apply qsum_map_ext. intros k Hk. apply in_seq in Hk.
      rewrite (nth_vmul n p v A k Hn Hv HA) by lia.
      rewrite <- qsum_map_scale_r. reflexivity.
Qed.

Lemma mvec_identity n v : length v = n -> mvec (identity n) v = v.
Proof.
  intros Hv. apply (vec_ext n).
  - rewrite length_mvec. apply (wf_length _ _ _ (wf_identity n)).
  - exact Hv.
  - intros i Hi. rewrite (nth_mvec n n _ v i (wf_identity n) Hv Hi).
    rewrite <- (qsum_delta (fun k => nth k v 0%Qc) i n Hi).
    apply qsum_map_ext. intros k Hk. apply in_seq in Hk.
    rewrite mget_identity by lia. reflexivity.
Qed.

Lemma vmul_identity n v : 0 < n -> length v = n -> vmul v (identity n) = v.
Proof.
  intros Hn Hv. apply (vec_ext n).
  - apply (length_vmul n n); [exact Hn|apply wf_identity].
  - exact Hv.
  - intros j Hj. rewrite (nth_vmul n n v _ j Hn Hv (wf_identity n) Hj).
    rewrite <- (qsum_delta_r (fun k => nth k v 0%Qc) j n Hj).
    apply qsum_map_ext. intros k Hk. apply in_seq in Hk.
    rewrite mget_identity by lia. reflexivity.
Qed.

(* M 1 = 1 is the row-sum condition *)
Lemma nth_mvec_ones n m M i : wf n m M -> i < n ->
  nth i (mvec M (ones m)) 0%Qc = qsum (nth i M []).
Proof.
  intros HM Hi. rewrite (nth_mvec n m M _ i HM (length_ones m) Hi).
  unfold mget. apply qsum_seq_ones_r. apply (wf_row _ _ _ _ HM Hi).
Qed.

Lemma mvec_ones n m M : wf n m M -> rows_sum_one M -> mvec M (ones m) = ones n.
Proof.
  intros HM SM. apply (vec_ext n).
  - rewrite length_mvec. apply (wf_length _ _ _ HM).
  - apply length_ones.
  - intros i Hi. rewrite (nth_mvec_ones n m M i HM Hi), nth_ones by exact Hi.
    apply SM. apply nth_In. rewrite (wf_length _ _ _ HM). exact Hi.
Qed.

Lemma rows_sum_one_of_mvec n m M : wf n m M -> mvec M (ones m) = ones n -> rows_sum_one M.
Proof.
  intros HM E r Hr. destruct (In_nth M r [] Hr) as [i [Hi <-]].
  rewrite (wf_length _ _ _ HM) in Hi.
  rewrite <- (nth_mvec_ones n m M i HM Hi), E. apply nth_ones. exact Hi.
Qed.

Lemma qsum_vmul n m v M : 0 < n -> length v = n -> wf n m M -> rows_sum_one M ->
  qsum (vmul v M) = qsum v.
Proof.
  intros Hn Hv HM SM.
  rewrite (qsum_nth_seq (vmul v M) m) by (apply (length_vmul n m); assumption).
  transitivity (qsum (map (fun j => qsum (map (fun i => (nth i v 0 * mget M i j)%Qc) (seq 0 n))) (seq 0 m))).
  { apply qsum_map_ext. intros j Hj. apply in_seq in Hj.
    apply (nth_vmul n m); try assumption. lia. }
  rewrite qsum_exchange, (qsum_nth_seq v n Hv).
  apply qsum_map_ext. intros i Hi. apply in_seq in Hi.
  rewrite qsum_map_scale_l. unfold mget.
  rewrite <- (qsum_nth_seq (nth i M []) m) by (apply (wf_row _ _ _ _ HM); lia).
  rewrite SM by (apply nth_In; rewrite (wf_length _ _ _ HM); lia). ring.
Qed.

(* transpose *)
Lemma mvec_transpose n m A v : 0 < n -> wf n m A -> length v = n ->
  mvec (transpose A) v = vmul v A.
Proof.
  intros Hn HA Hv. assert (HAt := wf_transpose n m A Hn HA).
  apply (vec_ext m).
  - rewrite length_mvec. apply (wf_length _ _ _ HAt).
  - apply (length_vmul n m); assumption.
  - intros j Hj. rewrite (nth_mvec m n _ v j HAt Hv Hj), (nth_vmul n m v A j Hn Hv HA Hj).
    apply qsum_map_ext. intros i Hi. apply in_seq in Hi.
    rewrite (mget_transpose n m A j i Hn HA Hj) by lia. ring.
Qed.

Lemma vmul_transpose n m A v : 0 < n -> 0 < m -> wf n m A -> length v = m ->
  vmul v (transpose A) = mvec A v.
Proof.
  intros Hn Hm HA Hv. assert (HAt := wf_transpose n m A Hn HA).
  apply (vec_ext n).
  - apply (length_vmul m n); assumption.
  - rewrite length_mvec. apply (wf_length _ _ _ HA).
  - intros i Hi. rewrite (nth_vmul m n v _ i Hm Hv HAt Hi), (nth_mvec n m A v i HA Hv Hi).
    apply qsum_map_ext. intros j Hj. apply in_seq in Hj.
    rewrite (mget_transpose n m A j i Hn HA) by lia. ring.
Qed.

(* diag *)
Lemma wf_diag v : wf (length v) (length v) (diag v).
Proof.
  split.
  - unfold diag. rewrite map_length, seq_length. reflexivity.
  - intros r Hr. unfold diag in Hr. apply in_map_iff in Hr.
    destruct Hr as [i [<- _]]. rewrite map_length, seq_length. reflexivity.
Qed.

Lemma mget_diag v i j : i < length v -> j < length v ->
  mget (diag v) i j = ((if Nat.eqb i j then 1 else 0) * nth j v 0)%Qc.
Proof.
  intros Hi Hj. unfold mget, diag.
  rewrite (nth_map_seq _ (length v) i [] Hi).
  rewrite (nth_map_seq _ (length v) j 0%Qc Hj).
  destruct (Nat.eqb_spec i j) as [->|_]; ring.
Qed.

Lemma vmul_diag n v p : 0 < n -> length v = n -> length p = n ->
  forall j, j < n -> nth j (vmul v (diag p)) 0%Qc = (nth j v 0 * nth j p 0)%Qc.
Proof.
  intros Hn Hv Hp j Hj. assert (HD := wf_diag p). rewrite Hp in HD.
  rewrite (nth_vmul n n v _ j Hn Hv HD Hj).
  rewrite <- (qsum_delta_r (fun k => (nth k v 0 * nth j p 0)%Qc) j n Hj).
  apply qsum_map_ext. intros k Hk. apply in_seq in Hk.
  rewrite mget_diag by lia. ring.
Qed.

Lemma mvec_diag n p v : length p = n -> length v = n ->
  forall i, i < n -> nth i (mvec (diag p) v) 0%Qc = (nth i p 0 * nth i v 0)%Qc.
Proof.
  intros Hp Hv i Hi. assert (HD := wf_diag p). rewrite Hp in HD.
  rewrite (nth_mvec n n _ v i HD Hv Hi).
  rewrite <- (qsum_delta (fun k => (nth k p 0 * nth k v 0)%Qc) i n Hi).
  apply qsum_map_ext. intros k Hk. apply in_seq in Hk.
  rewrite mget_diag by lia. ring.
Qed.

Lemma vmul_ones_diag n p : 0 < n -> length p = n -> vmul (ones n) (diag p) = p.
Proof.
  intros Hn Hp. assert (HD := wf_diag p). rewrite Hp in HD.
  apply (vec_ext n); [apply (length_vmul n n); assumption|exact Hp|].
  intros j Hj. rewrite (vmul_diag n _ p Hn (length_ones n) Hp j Hj), nth_ones by exact Hj. ring.
Qed.

Lemma mvec_diag_ones n p : length p = n -> mvec (diag p) (ones n) = p.
Proof.
  intros Hp. assert (HD := wf_diag p). rewrite Hp in HD.
  apply (vec_ext n); [rewrite length_mvec; apply (wf_length _ _ _ HD)|exact Hp|].
  intros i Hi. rewrite (mvec_diag n p _ Hp (length_ones n) i Hi), nth_ones by exact Hi. ring.
Qed.

(* outer *)
Lemma wf_outer a b : wf (length a) (length b) (outer a b).
Proof.
  split.
  - unfold outer. apply map_length.
  - intros r Hr. unfold outer in Hr. apply in_map_iff in Hr.
    destruct Hr as [x [<- _]]. apply map_length.
Qed.

Lemma mget_outer a b i j : i < length a -> j < length b ->
  mget (outer a b) i j = (nth i a 0 * nth j b 0)%Qc.
Proof.
  intros Hi Hj. unfold mget, outer.
  rewrite (nth_map_lt (fun x => map (fun y => (x * y)%Qc) b) a i [] 0%Qc Hi).
  rewrite (nth_map_lt (fun y => (nth i a 0 * y)%Qc) b j 0%Qc 0%Qc Hj). reflexivity.
Qed.

Lemma nth_mvec_outer n m a b v i : length a = n -> length b = m -> length v = m -> i < n ->
  nth i (mvec (outer a b) v) 0%Qc =
  (nth i a 0 * qsum (map (fun j => (nth j b 0 * nth j v 0)%Qc) (seq 0 m)))%Qc.
Proof.
  intros Ha Hb Hv Hi. assert (HO := wf_outer a b). rewrite Ha, Hb in HO.
  rewrite (nth_mvec n m _ v i HO Hv Hi), <- qsum_map_scale_l.
  apply qsum_map_ext. intros j Hj. apply in_seq in Hj.
  rewrite mget_outer by lia. ring.
Qed.

Lemma nth_vmul_outer n m a b v j : 0 < n -> length a = n -> length b = m -> length v = n -> j < m ->
  nth j (vmul v (outer a b)) 0%Qc =
  (qsum (map (fun i => (nth i v 0 * nth i a 0)%Qc) (seq 0 n)) * nth j b 0)%Qc.
Proof.
  intros Hn Ha Hb Hv Hj. assert (HO := wf_outer a b). rewrite Ha, Hb in HO.
  rewrite (nth_vmul n m v _ j Hn Hv HO Hj), <- qsum_map_scale_r.
  apply qsum_map_ext. intros i Hi. apply in_seq in Hi.
  rewrite mget_outer by lia. ring.
Qed.

(* entrywise sum and difference *)
Definition mzip (f : Qc -> Qc -> Qc) (A B : mat) : mat :=
  map (fun p => map (fun q => f (fst q) (snd q)) (combine (fst p) (snd p))) (combine A B).

Lemma madd_mzip A B : madd A B = mzip Qcplus A B.
Proof. reflexivity. Qed.
Lemma msub_mzip A B : msub A B = mzip Qcminus A B.
Proof. reflexivity. Qed.

Lemma wf_mzip f n m A B : wf n m A -> wf n m B -> wf n m (mzip f A B).
Proof.
  intros [HA1 HA2] [HB1 HB2]. split.
  - unfold mzip. rewrite map_length, combine_length. lia.
  - intros r Hr. unfold mzip in Hr. apply in_map_iff in Hr. destruct Hr as [[a b] [<- Hp]].
    cbn [fst snd]. rewrite map_length, combine_length.
    rewrite (HA2 a (in_combine_l _ _ _ _ Hp)), (HB2 b (in_combine_r _ _ _ _ Hp)). lia.
Qed.

Lemma mget_mzip f n m A B i j : wf n m A -> wf n m B -> i < n -> j < m ->
  mget (mzip f A B) i j = f (mget A i j) (mget B i j).
Proof.
  intros HA HB Hi Hj. unfold mget, mzip.
  rewrite (nth_map_lt _ (combine A B) i [] ([],[]))
    by (rewrite combine_length, (wf_length _ _ _ HA), (wf_length _ _ _ HB); lia).
  rewrite combine_nth by (rewrite (wf_length _ _ _ HA), (wf_length _ _ _ HB); reflexivity).
  cbn [fst snd].
  rewrite (nth_map_lt _ (combine _ _) j 0%Qc (0%Qc,0%Qc))
    by (rewrite combine_length, (wf_row _ _ _ _ HA Hi), (wf_row _ _ _ _ HB Hi); lia).
  rewrite combine_nth by (rewrite (wf_row _ _ _ _ HA Hi), (wf_row _ _ _ _ HB Hi); reflexivity).
  reflexivity.
Qed.

Lemma wf_madd n m A B : wf n m A -> wf n m B -> wf n m (madd A B).
Proof. rewrite madd_mzip. apply wf_mzip. Qed.
Lemma wf_msub n m A B : wf n m A -> wf n m B -> wf n m (msub A B).
Proof. rewrite msub_mzip. apply wf_mzip. Qed.
Lemma mget_madd n m A B i j : wf n m A -> wf n m B -> i < n -> j < m ->
  mget (madd A B) i j = (mget A i j + mget B i j)%Qc.
Proof. rewrite madd_mzip. apply mget_mzip. Qed.
Lemma mget_msub n m A B i j : wf n m A -> wf n m B -> i < n -> j < m ->
  mget (msub A B) i j = (mget A i j - mget B i j)%Qc.
Proof. rewrite msub_mzip. apply mget_mzip. Qed.

Lemma nth_mvec_madd n m A B v i : wf n m A -> wf n m B -> length v = m -> i < n ->
  nth i (mvec (madd A B) v) 0%Qc = (nth i (mvec A v) 0 + nth i (mvec B v) 0)%Qc.
Proof.
  intros HA HB Hv Hi.
  rewrite (nth_mvec n m _ v i (wf_madd n m A B HA HB) Hv Hi).
  rewrite (nth_mvec n m A v i HA Hv Hi), (nth_mvec n m B v i HB Hv Hi), <- qsum_map_plus.
  apply qsum_map_ext. intros j Hj. apply in_seq in Hj.
  rewrite (mget_madd n m) by (assumption || lia). ring.
Qed.

Lemma nth_mvec_msub n m A B v i : wf n m A -> wf n m B -> length v = m -> i < n ->
  nth i (mvec (msub A B) v) 0%Qc = (nth i (mvec A v) 0 - nth i (mvec B v) 0)%Qc.
Proof.
  intros HA HB Hv Hi.
  rewrite (nth_mvec n m _ v i (wf_msub n m A B HA HB) Hv Hi).
  rewrite (nth_mvec n m A v i HA Hv Hi), (nth_mvec n m B v i HB Hv Hi), <- qsum_map_minus.
  apply qsum_map_ext. intros j Hj. apply in_seq in Hj.
  rewrite (mget_msub n m) by (assumption || lia). ring.
Qed.

Lemma nth_vmul_madd n m A B v j : 0 < n -> wf n m A -> wf n m B -> length v = n -> j < m ->
  nth j (vmul v (madd A B)) 0%Qc = (nth j (vmul v A) 0 + nth j (vmul v B) 0)%Qc.
Proof.
  intros Hn HA HB Hv Hj.
  rewrite (nth_vmul n m v _ j Hn Hv (wf_madd n m A B HA HB) Hj).
  rewrite (nth_vmul n m v A j Hn Hv HA Hj), (nth_vmul n m v B j Hn Hv HB Hj), <- qsum_map_plus.
  apply qsum_map_ext. intros i Hi. apply in_seq in Hi.
  rewrite (mget_madd n m) by (assumption || lia). ring.
Qed.

Lemma nth_vmul_msub n m A B v j : 0 < n -> wf n m A -> wf n m B -> length v = n -> j < m ->
  nth j (vmul v (msub A B)) 0%Qc = (nth j (vmul v A) 0 - nth j (vmul v B) 0)%Qc.
Proof.
  intros Hn HA HB Hv Hj.
  rewrite (nth_vmul n m v _ j Hn Hv (wf_msub n m A B HA HB) Hj).
  rewrite (nth_vmul n m v A j Hn Hv HA Hj), (nth_vmul n m v B j Hn Hv HB Hj), <- qsum_map_minus.
  apply qsum_map_ext. intros i Hi. apply in_seq in Hi.
  rewrite (mget_msub n m) by (assumption || lia). ring.
Qed.

(* the matrix  I + 1 p^T - M  acting on 1 and on a row vector *)
Lemma wf_ipm n p M : length p = n -> wf n n M ->
  wf n n (msub (madd (identity n) (outer (ones n) p)) M).
Proof.
  intros Hp HM. apply wf_msub; [|exact HM]. apply wf_madd; [apply wf_identity|].
  assert (HO := wf_outer (ones n) p). rewrite length_ones, Hp in HO. exact HO.
Qed.

Lemma mvec_ipm_ones n p M i : length p = n -> wf n n M -> i < n ->
  nth i (mvec (msub (madd (identity n) (outer (ones n) p)) M) (ones n)) 0%Qc =
  (1 + qsum p - nth i (mvec M (ones n)) 0)%Qc.
Proof.
  intros Hp HM Hi.
  assert (HO : wf n n (outer (ones n) p)).
  { assert (HO := wf_outer (ones n) p). rewrite length_ones, Hp in HO. exact HO. }
  assert (HIO : wf n n (madd (identity n) (outer (ones n) p))) by (apply wf_madd; [apply wf_identity|exact HO]).
  rewrite (nth_mvec_msub n n _ M _ i HIO HM (length_ones n) Hi).
  rewrite (nth_mvec_madd n n _ _ _ i (wf_identity n) HO (length_ones n) Hi).
  rewrite mvec_identity by apply length_ones.
  rewrite (nth_mvec_outer n n _ p _ i (length_ones n) Hp (length_ones n) Hi).
  rewrite nth_ones by exact Hi. rewrite (qsum_seq_ones_r p n Hp). ring.
Qed.

Lemma vmul_ipm n p M v j : 0 < n -> length p = n -> wf n n M -> length v = n -> j < n ->
  nth j (vmul v (msub (madd (identity n) (outer (ones n) p)) M)) 0%Qc =
  (nth j v 0 + qsum v * nth j p 0 - nth j (vmul v M) 0)%Qc.
Proof.
  intros Hn Hp HM Hv Hj.
  assert (HO : wf n n (outer (ones n) p)).
  { assert (HO := wf_outer (ones n) p). rewrite length_ones, Hp in HO. exact HO. }
  assert (HIO : wf n n (madd (identity n) (outer (ones n) p))) by (apply wf_madd; [apply wf_identity|exact HO]).
  rewrite (nth_vmul_msub n n _ M v j Hn HIO HM Hv Hj).
  rewrite (nth_vmul_madd n n _ _ v j Hn (wf_identity n) HO Hv Hj).
  rewrite vmul_identity by assumption.
  rewrite (nth_vmul_outer n n _ p v j Hn (length_ones n) Hp Hv Hj).
  rewrite (qsum_seq_ones_r v n Hv). ring.
Qed.

(* ------------------------------------------------------------------ *)
(* helpers: the Gauss-Jordan inverse of a square matrix is square       *)
(* ------------------------------------------------------------------ *)
Lemma find_pivot_spec k rows p others : find_pivot k rows = Some (p, others) ->
  length rows = S (length others) /\ (forall r, In r (p :: others) -> In r rows).
Proof.
  revert p others. induction rows as [|r rest IH]; intros p others H; cbn [find_pivot] in H;
    [discriminate|].
  destruct (Qc_eqb (nth k r 0%Qc) 0).
  - destruct (find_pivot k rest) as [[p' o']|] eqn:E; [|discriminate].
    injection H as <- <-. destruct (IH p' o' eq_refl) as [IH1 IH2]. split.
    + cbn [length]. rewrite IH1. reflexivity.
    + intros x [<-|[<-|Hx]].
      * right. apply IH2. left; reflexivity.
      * left; reflexivity.
      * right. apply IH2. right; exact Hx.
  - injection H as <- <-. split; [reflexivity|]. intros x Hx. exact Hx.
Qed.

Lemma length_row_scale c r : length (row_scale c r) = length r.
Proof. unfold row_scale. apply map_length. Qed.

Lemma length_row_sub r s c : length (row_sub r s c) = Nat.min (length r) (length s).
Proof. unfold row_sub. rewrite map_length. apply combine_length. Qed.

Lemma gauss_jordan_wf L fuel : forall k done todo res,
  (forall r, In r done -> length r = L) -> (forall r, In r todo -> length r = L) ->
  gauss_jordan fuel k done todo = Some res ->
  length res = length done + length todo /\ (forall r, In r res -> length r = L).
Proof.
  induction fuel as [|f IH]; intros k done todo res Hd Ht H; cbn [gauss_jordan] in H.
  - destruct todo as [|t todo']; [|discriminate]. injection H as <-.
    split; [cbn [length]; unfold vec in *; lia|exact Hd].
  - destruct todo as [|t todo'].
    + injection H as <-. split; [cbn [length]; unfold vec in *; lia|exact Hd].
    + destruct (find_pivot k (t :: todo')) as [[p others]|] eqn:E; [|discriminate].
      apply find_pivot_spec in E. destruct E as [E1 E2].
      assert (Hp : length (row_scale (/ nth k p 0)%Qc p) = L).
      { rewrite length_row_scale. apply Ht, E2. left; reflexivity. }
      apply IH in H.
      * destruct H as [H1 H2]. split; [|exact H2].
        rewrite H1, app_length, !map_length. unfold vec in *. cbn [length] in *. lia.
      * intros r Hr. apply in_app_iff in Hr. destruct Hr as [Hr|[<-|[]]]; [|exact Hp].
        apply in_map_iff in Hr. destruct Hr as [r0 [<- Hr0]].
        rewrite length_row_sub, Hp, (Hd r0 Hr0). lia.
      * intros r Hr. apply in_map_iff in Hr. destruct Hr as [r0 [<- Hr0]].
        rewrite length_row_sub, Hp, (Ht r0 (E2 r0 (or_intror Hr0))). lia.
Qed.

Lemma inverse_wf n A X : wf n n A -> inverse A = Some X -> wf n n X.
Proof.
  intros HA H. unfold inverse in H. cbv zeta in H. rewrite (wf_length _ _ _ HA) in H.
  destruct (gauss_jordan n 0 [] _) as [rows|] eqn:E; [|discriminate].
  injection H as <-.
  apply (gauss_jordan_wf (n + n)) in E.
  - destruct E as [E1 E2]. split.
    + rewrite map_length. unfold vec in *. rewrite E1, map_length, combine_length.
      rewrite (wf_length _ _ _ HA), (wf_length _ _ _ (wf_identity n)). cbn [length]. lia.
    + intros r Hr. apply in_map_iff in Hr. destruct Hr as [r0 [<- Hr0]].
      rewrite skipn_length, (E2 r0 Hr0). lia.
  - intros r [].
  - intros r Hr. apply in_map_iff in Hr. destruct Hr as [[a b] [<- Hp]].
    cbn [fst snd]. rewrite app_length.
    destruct HA as [_ HA2]. destruct (wf_identity n) as [_ HI2].
    rewrite (HA2 a (in_combine_l _ _ _ _ Hp)), (HI2 b (in_combine_r _ _ _ _ Hp)). reflexivity.
Qed.

Lemma inverse_cert_wf n A X : wf n n A -> inverse_cert A = Some X -> wf n n X.
Proof.
  intros HA H. unfold inverse_cert in H. destruct (inverse A) as [Y|] eqn:E; [|discriminate].
  destruct (_ && _); [|discriminate]. injection H as <-. apply (inverse_wf n A); assumption.
Qed.

(* ------------------------------------------------------------------ *)
(* helpers: row normalisation                                          *)
(* ------------------------------------------------------------------ *)
Lemma row_normalize_noop M : rows_sum_one M -> row_normalize M = M.
Proof.
  intros H. unfold row_normalize. apply map_id_in. intros r Hr. cbv zeta.
  rewrite (H r Hr). replace (Qc_eqb 1 0) with false by reflexivity.
  apply map_id_in. intros x _. field. apply Q_apart_0_1.
Qed.

Lemma Qcinv_nonneg d : (0 <= d)%Qc -> (0 <= / d)%Qc.
Proof.
  unfold Qcle. intros H. unfold Qcinv. cbn [this Q2Qc]. rewrite (Qred_correct (/ d)).
  apply Qinv_le_0_compat. exact H.
Qed.

Lemma qsum_map_div r d : qsum (map (fun x => (x / d)%Qc) r) = (qsum r / d)%Qc.
Proof.
  induction r as [|x r IH]; cbn [map].
  - rewrite qsum_nil. unfold Qcdiv. ring.
  - rewrite !qsum_cons, IH. unfold Qcdiv. ring.
Qed.

Lemma row_normalize_nonneg M : entries_nonneg M ->
  entries_nonneg (row_normalize M) /\
  (forall r, In r (row_normalize M) -> qsum r = 1%Qc \/ qsum r = 0%Qc).
Proof.
  intros HM. split.
  - intros r x Hr Hx. unfold row_normalize in Hr. apply in_map_iff in Hr.
    destruct Hr as [r0 [<- Hr0]]. cbv zeta in Hx. apply in_map_iff in Hx.
    destruct Hx as [y [<- Hy]].
    assert (Hs : (0 <= qsum r0)%Qc) by (apply qsum_nonneg; intros z Hz; apply (HM r0 z Hr0 Hz)).
    unfold Qcdiv. apply Qcmult_nonneg; [apply (HM r0 y Hr0 Hy)|]. apply Qcinv_nonneg.
    destruct (Qc_eqb (qsum r0) 0); [apply Qc_0_le_1|exact Hs].
  - intros r Hr. unfold row_normalize in Hr. apply in_map_iff in Hr.
    destruct Hr as [r0 [<- Hr0]]. cbv zeta. rewrite qsum_map_div.
    destruct (Qc_eqb (qsum r0) 0) eqn:E.
    + right. apply Qc_eqb_eq in E. rewrite E. unfold Qcdiv. ring.
    + left. field. intros E0. rewrite E0 in E. unfold Qc_eqb in E.
      rewrite Qeq_bool_refl in E. discriminate.
Qed.

Lemma clip_entries_nonneg M :
  entries_nonneg (map (map (fun x => if Qc_ltb x 0 then 0%Qc else x)) M).
Proof.
  intros r x Hr Hx. apply in_map_iff in Hr. destruct Hr as [r0 [<- _]].
  apply in_map_iff in Hx. destruct Hx as [y [<- _]].
  unfold Qc_ltb. destruct (Qle_bool _ _) eqn:E; cbn [negb].
  - apply Qle_bool_iff in E. exact E.
  - apply Qcle_refl.
Qed.

Section HS.
Variables (n m : nat) (T : mat) (pi : vec) (A Z M2 : mat).
Hypothesis Hn : 0 < n.
Hypothesis Hm : 0 < m.
Hypothesis HT : wf n n T.
Hypothesis Hpi : length pi = n.
Hypothesis HA : wf n m A.
Hypothesis HZ : wf n n Z.
Hypothesis HM2 : wf m m M2.
Hypothesis T1 : rows_sum_one T.                 (* T 1 = 1 *)
Hypothesis piT : vmul pi T = pi.                (* pi T = pi *)
Hypothesis pi1 : qsum pi = 1%Qc.                (* pi 1 = 1 *)
Hypothesis A1 : rows_sum_one A.                 (* A 1 = 1: every microstate in exactly one macrostate *)
Let K := msub (madd (identity n) (outer (ones n) pi)) T.
Let pA := vmul pi A.
Let N := mmul (transpose A) (mmul (diag pi) (mmul Z A)).
Let TA := msub (madd (identity m) (outer (ones m) pA)) (mmul M2 (diag pA)).
Hypothesis KZ : mmul K Z = identity n.
Hypothesis ZK : mmul Z K = identity n.
Hypothesis NM : mmul N M2 = identity m.
Hypothesis MN : mmul M2 N = identity m.

Lemma hs_wfK : wf n n K.
Proof. unfold K. apply wf_ipm; assumption. Qed.

Lemma hs_len_pA : length pA = m.
Proof. unfold pA. apply (length_vmul n m); assumption. Qed.

Lemma hs_wfD : wf n n (diag pi).
Proof. assert (HD := wf_diag pi). rewrite Hpi in HD. exact HD. Qed.

Lemma hs_wfDA : wf m m (diag pA).
Proof. assert (HD := wf_diag pA). rewrite hs_len_pA in HD. exact HD. Qed.

Lemma hs_wfZA : wf n m (mmul Z A).
Proof. apply (wf_mmul n n m); assumption. Qed.

Lemma hs_wfDZA : wf n m (mmul (diag pi) (mmul Z A)).
Proof. apply (wf_mmul n n m); [exact Hn|exact hs_wfD|exact hs_wfZA]. Qed.

Lemma hs_wfAt : wf m n (transpose A).
Proof. apply wf_transpose; assumption. Qed.

Lemma hs_wfN : wf m m N.
Proof. unfold N. apply (wf_mmul m n m); [exact Hn|exact hs_wfAt|exact hs_wfDZA]. Qed.

Lemma hs_wfM2D : wf m m (mmul M2 (diag pA)).
Proof. apply (wf_mmul m m m); [exact Hm|exact HM2|exact hs_wfDA]. Qed.

Lemma hs_wfTA : wf m m TA.
Proof. unfold TA. apply wf_ipm; [exact hs_len_pA|exact hs_wfM2D]. Qed.

(* K 1 = 1 *)
Lemma hs_K1 : mvec K (ones n) = ones n.
Proof.
  apply (vec_ext n).
  - rewrite length_mvec. apply (wf_length _ _ _ hs_wfK).
  - apply length_ones.
  - intros i Hi. unfold K. rewrite (mvec_ipm_ones n pi T i Hpi HT Hi).
    rewrite pi1, (mvec_ones n n T HT T1), nth_ones by exact Hi. ring.
Qed.

(* Z 1 = 1 *)
Lemma hs_Z1 : mvec Z (ones n) = ones n.
Proof.
  transitivity (mvec Z (mvec K (ones n))); [rewrite hs_K1; reflexivity|].
  rewrite <- (mvec_mmul n n n Z K _ Hn HZ hs_wfK (length_ones n)), ZK.
  apply mvec_identity, length_ones.
Qed.

(* pi K = pi *)
Lemma hs_piK : vmul pi K = pi.
Proof.
  apply (vec_ext n).
  - apply (length_vmul n n); [exact Hn|exact hs_wfK].
  - exact Hpi.
  - intros j Hj. unfold K. rewrite (vmul_ipm n pi T pi j Hn Hpi HT Hpi Hj).
    rewrite pi1, piT. ring.
Qed.

(* pi Z = pi *)
Lemma hs_piZ : vmul pi Z = pi.
Proof.
  transitivity (vmul (vmul pi K) Z); [rewrite hs_piK; reflexivity|].
  rewrite <- (vmul_mmul n n n pi K Z Hn Hn Hpi hs_wfK HZ), KZ.
  apply vmul_identity; assumption.
Qed.

Lemma hs_A1 : mvec A (ones m) = ones n.
Proof. apply (mvec_ones n m A HA A1). Qed.

(* N 1 = pA^T *)
Lemma hs_N1 : mvec N (ones m) = pA.
Proof.
  unfold N.
  rewrite (mvec_mmul m n m (transpose A) _ _ Hn hs_wfAt hs_wfDZA (length_ones m)).
  rewrite (mvec_mmul n n m (diag pi) _ _ Hn hs_wfD hs_wfZA (length_ones m)).
  rewrite (mvec_mmul n n m Z A _ Hn HZ HA (length_ones m)).
  rewrite hs_A1, hs_Z1, (mvec_diag_ones n pi Hpi).
  apply (mvec_transpose n m A pi Hn HA Hpi).
Qed.

(* 1^T N = pA *)
Lemma hs_1N : vmul (ones m) N = pA.
Proof.
  unfold N.
  rewrite (vmul_mmul m n m (ones m) (transpose A) _ Hm Hn (length_ones m) hs_wfAt hs_wfDZA).
  rewrite (vmul_transpose n m A _ Hn Hm HA (length_ones m)), hs_A1.
  rewrite (vmul_mmul n n m (ones n) (diag pi) _ Hn Hn (length_ones n) hs_wfD hs_wfZA).
  rewrite (vmul_ones_diag n pi Hn Hpi).
  rewrite (vmul_mmul n n m pi Z A Hn Hn Hpi HZ HA), hs_piZ. reflexivity.
Qed.

(* pA 1 = 1 *)
Lemma hs_pA1 : qsum pA = 1%Qc.
Proof. unfold pA. rewrite (qsum_vmul n m pi A Hn Hpi HA A1). exact pi1. Qed.

(* M2 D_A 1 = M2 pA^T = M2 N 1 = 1 *)
Lemma hs_M2D1 : mvec (mmul M2 (diag pA)) (ones m) = ones m.
Proof.
  rewrite (mvec_mmul m m m M2 (diag pA) _ Hm HM2 hs_wfDA (length_ones m)).
  rewrite (mvec_diag_ones m pA hs_len_pA).
  transitivity (mvec M2 (mvec N (ones m))); [rewrite hs_N1; reflexivity|].
  rewrite <- (mvec_mmul m m m M2 N _ Hm HM2 hs_wfN (length_ones m)), MN.
  apply mvec_identity, length_ones.
Qed.

(* pA M2 D_A = 1^T N M2 D_A = 1^T D_A = pA *)
Lemma hs_pAM2D : vmul pA (mmul M2 (diag pA)) = pA.
Proof.
  rewrite (vmul_mmul m m m pA M2 (diag pA) Hm Hm hs_len_pA HM2 hs_wfDA).
  assert (E : vmul pA M2 = ones m).
  { transitivity (vmul (vmul (ones m) N) M2); [rewrite hs_1N; reflexivity|].
    rewrite <- (vmul_mmul m m m (ones m) N M2 Hm Hm (length_ones m) hs_wfN HM2), NM.
    apply vmul_identity; [exact Hm|apply length_ones]. }
  rewrite E. apply vmul_ones_diag; [exact Hm|exact hs_len_pA].
Qed.

(* rows of the lumped matrix sum to one *)
Lemma hs_rowsum : rows_sum_one TA.
Proof.
  apply (rows_sum_one_of_mvec m m TA hs_wfTA). apply (vec_ext m).
  - rewrite length_mvec. apply (wf_length _ _ _ hs_wfTA).
  - apply length_ones.
  - intros i Hi. unfold TA.
    rewrite (mvec_ipm_ones m pA _ i hs_len_pA hs_wfM2D Hi).
    rewrite hs_pA1, hs_M2D1, nth_ones by exact Hi. ring.
Qed.

(* the per-macrostate sums of the equilibrium populations are stationary *)
Lemma hs_stationary : vmul pA TA = pA.
Proof.
  apply (vec_ext m).
  - apply (length_vmul m m); [exact Hm|exact hs_wfTA].
  - exact hs_len_pA.
  - intros j Hj. unfold TA.
    rewrite (vmul_ipm m pA _ pA j Hm hs_len_pA hs_wfM2D hs_len_pA Hj).
    rewrite hs_pA1, hs_pAM2D. ring.
Qed.

(* hence the final row normalisation does not change the unclipped matrix *)
Lemma hs_normalise_noop : row_normalize TA = TA.
Proof. apply row_normalize_noop. exact hs_rowsum. Qed.
End HS.

(* the executable formula: whenever it returns a matrix (certificates passed) for
   positive=false, that matrix has unit row sums and keeps pi A stationary *)
Lemma hs_formula_sound n m T pi A R : 0 < n -> 0 < m -> wf n n T -> length pi = n -> wf n m A ->
  rows_sum_one T -> vmul pi T = pi -> qsum pi = 1%Qc -> rows_sum_one A ->
  hs_formula T pi A false = Some R ->
  rows_sum_one R /\ vmul (vmul pi A) R = vmul pi A.
Proof.
  intros Hn Hm HT Hpi HA T1 piT pi1 A1 H.
  unfold hs_formula in H. cbv zeta in H.
  rewrite (wf_length _ _ _ HT), (wf_ncols n m A Hn HA) in H.
  set (K := msub (madd (identity n) (outer (ones n) pi)) T) in *.
  assert (HK : wf n n K) by (apply wf_ipm; assumption).
  destruct (inverse_cert K) as [Z|] eqn:EK; [|discriminate].
  set (N := mmul (transpose A) (mmul (diag pi) (mmul Z A))) in *.
  destruct (inverse_cert N) as [M2|] eqn:EN; [|discriminate].
  injection H as <-.
  assert (HZ : wf n n Z) by (apply (inverse_cert_wf n K); assumption).
  assert (HN : wf m m N).
  { apply (wf_mmul m n m); [exact Hn|apply wf_transpose; assumption|].
    apply (wf_mmul n n m); [exact Hn| |apply (wf_mmul n n m); assumption].
    assert (HD := wf_diag pi). rewrite Hpi in HD. exact HD. }
  assert (HM2 : wf m m M2) by (apply (inverse_cert_wf m N); assumption).
  destruct (inverse_cert_spec K Z EK) as [KZ ZK]. rewrite (wf_length _ _ _ HK) in KZ, ZK.
  destruct (inverse_cert_spec N M2 EN) as [NM MN]. rewrite (wf_length _ _ _ HN) in NM, MN.
  rewrite (hs_normalise_noop n m T pi A Z M2) by assumption.
  split.
  - apply (hs_rowsum n m T pi A Z M2); assumption.
  - apply (hs_stationary n m T pi A Z M2); assumption.
Qed.

(* positive=true: no negative entry, rows sum to one (or are all zero) *)
Lemma hs_formula_positive T pi A R : hs_formula T pi A true = Some R ->
  (forall r x, In r R -> In x r -> (0 <= x)%Qc) /\
  (forall r, In r R -> qsum r = 1%Qc \/ qsum r = 0%Qc).
Proof.
  unfold hs_formula. cbv zeta.
  destruct (inverse_cert _) as [Z|]; [|discriminate].
  destruct (inverse_cert _) as [M2|]; [|discriminate].
  intros H. injection H as <-.
  apply row_normalize_nonneg. apply clip_entries_nonneg.
Qed.

(* the aggregation matrix built from an assignment has exactly one 1 per row *)
Lemma aggregation_rows nmacro aidx : (forall a, In a aidx -> a < nmacro) ->
  wf (length aidx) nmacro (aggregation nmacro aidx) /\ rows_sum_one (aggregation nmacro aidx).
Proof.
  intros H. split.
  - split.
    + unfold aggregation. apply map_length.
    + intros r Hr. unfold aggregation in Hr. apply in_map_iff in Hr.
      destruct Hr as [a [<- _]]. rewrite map_length, seq_length. reflexivity.
  - intros r Hr. unfold aggregation in Hr. apply in_map_iff in Hr.
    destruct Hr as [a [<- Ha]]. specialize (H a Ha).
    transitivity (qsum (map (fun k => ((if Nat.eqb a k then 1 else 0) * 1)%Qc) (seq 0 nmacro))).
    + apply qsum_map_ext. intros k _. ring.
    + apply (qsum_delta (fun _ => 1%Qc) a nmacro). exact H.
Qed.
