(* C03: the Hummer-Szabo projection keeps rows normalised and the aggregated
   equilibrium stationary (algebra under run-time certified inverses) *)
From Coq Require Import List ZArith Arith Bool Lia QArith Qcanon.
From MsmV Require Import Lib.Result Lib.PyList Lib.QMat Model.Ergodic Model.Peq Model.HS Proofs.QMatFacts.
Import ListNotations.
Local Open Scope nat_scope.

(* boolean equality tests of QMat decide Leibniz equality *)
Lemma mat_eqb_eq A B : mat_eqb A B = true -> A = B.
Proof. TODO. Qed.
Lemma vec_eqb_eq a b : vec_eqb a b = true -> a = b.
Proof. TODO. Qed.

(* the certificate returned by inverse_cert *)
Lemma inverse_cert_spec A X : inverse_cert A = Some X ->
  mmul A X = identity (length A) /\ mmul X A = identity (length A).
Proof. TODO. Qed.

(* the certified stationary vector *)
Lemma stationary_spec T v : stationary T = Some v ->
  vmul v T = v /\ qsum v = 1%Qc /\ (forall x, In x v -> (0 <= x)%Qc).
Proof. TODO. Qed.

Section HS.
Variables (n m : nat) (T : mat) (pi : vec) (A Z M2 : mat).
Hypothesis Hn : 0 < n.
Hypothesis Hm : 0 < m.
Hypothesis HT : wf n n T.
Hypothesis Hpi : length pi = n.
Hypothesis HA : wf n m A.
Hypothesis HZ : wf n n Z.
Hypothesis HM2 : wf m m M2.
Hypothesis T1 : rows_sum_one T.                 (* T 1 = 1 *)
Hypothesis piT : vmul pi T = pi.                (* pi T = pi *)
Hypothesis pi1 : qsum pi = 1%Qc.                (* pi 1 = 1 *)
Hypothesis A1 : rows_sum_one A.                 (* A 1 = 1: every microstate in exactly one macrostate *)
Let K := msub (madd (identity n) (outer (ones n) pi)) T.
Let pA := vmul pi A.
Let N := mmul (transpose A) (mmul (diag pi) (mmul Z A)).
Let TA := msub (madd (identity m) (outer (ones m) pA)) (mmul M2 (diag pA)).
Hypothesis KZ : mmul K Z = identity n.
Hypothesis ZK : mmul Z K = identity n.
Hypothesis NM : mmul N M2 = identity m.
Hypothesis MN : mmul M2 N = identity m.

(* rows of the lumped matrix sum to one *)
Lemma hs_rowsum : rows_sum_one TA.
Proof. TODO. Qed.

(* the per-macrostate sums of the equilibrium populations are stationary *)
Lemma hs_stationary : vmul pA TA = pA.
Proof. TODO. Qed.

(* hence the final row normalisation does not change the unclipped matrix *)
Lemma hs_normalise_noop : row_normalize TA = TA.
Proof. TODO. Qed.
End HS.

(* the executable formula: whenever it returns a matrix (certificates passed) for
   positive=false, that matrix has unit row sums and keeps pi A stationary *)
Lemma hs_formula_sound n m T pi A R : 0 < n -> 0 < m -> wf n n T -> length pi = n -> wf n m A ->
  rows_sum_one T -> vmul pi T = pi -> qsum pi = 1%Qc -> rows_sum_one A ->
  hs_formula T pi A false = Some R ->
  rows_sum_one R /\ vmul (vmul pi A) R = vmul pi A.
Proof. TODO. Qed.

(* positive=true: no negative entry, rows sum to one (or are all zero) *)
Lemma hs_formula_positive T pi A R : hs_formula T pi A true = Some R ->
  (forall r x, In r R -> In x r -> (0 <= x)%Qc) /\
  (forall r, In r R -> qsum r = 1%Qc \/ qsum r = 0%Qc).
Proof. TODO. Qed.

(* the aggregation matrix built from an assignment has exactly one 1 per row *)
Lemma aggregation_rows nmacro aidx : (forall a, In a aidx -> a < nmacro) ->
  wf (length aidx) nmacro (aggregation nmacro aidx) /\ rows_sum_one (aggregation nmacro aidx).
Proof. TODO. Qed.
