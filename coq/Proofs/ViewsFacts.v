(* C02 (lumped views), C11 (independent pieces), C17 (relabelling) *)
From Coq Require Import List ZArith Arith Bool Lia Permutation.
From MsmV Require Import Lib.Result Lib.PyList Lib.Sorting Lib.QMat Model.Labels Model.StateTraj Model.Msm
  Model.Coring Model.Events Model.HS.
From MsmV Require Import Proofs.LabelsFacts Proofs.MsmFacts Proofs.StateTrajFacts Proofs.CoringFacts Proofs.EventsFacts.
Import ListNotations.
Local Open Scope nat_scope.

(* ---------- C11: trajectories are independent pieces ---------- *)
Lemma list_sum_perm l l' : Permutation l l' -> list_sum l = list_sum l'.
Proof. intros H. induction H; simpl; lia. Qed.

(* reordering the trajectories leaves the counts unchanged *)
Lemma Label_C_perm lag ts ts' x y : Permutation ts ts' -> Label_C lag ts x y = Label_C lag ts' x y.
Proof. intros H. unfold Label_C. apply list_sum_perm. apply Permutation_map. exact H. Qed.

(* pairs (k, k+lag) with k in t1 and k+lag in t2: the pairs lost by cutting t1 ++ t2 *)
(* STATEMENT CHANGED: the number of straddling start indices was
     Nat.min lag (Nat.min (length t1) (length t1 + length t2 - lag)),
   which is too large when length t2 < lag <= length t1 (it then reads past the
   end of t1 ++ t2, where nth returns the default label 0).  Counterexample to
   the original counts_cut: lag = 2, t1 = [0;0;0;0;0], t2 = [0], x = y = 0 gives 4 <> 5.
   The straddling start indices are exactly [length t1 - lag, min (length t1) (length t1 + length t2 - lag)). *)
Definition straddle (lag : nat) (t1 t2 : list Z) (x y : Z) : nat :=
  length (filter (fun k => Z.eqb (nth k (t1 ++ t2) 0%Z) x && Z.eqb (nth (k + lag) (t1 ++ t2) 0%Z) y)
                 (seq (length t1 - lag)
                      (Nat.min (length t1) (length t1 + length t2 - lag) - (length t1 - lag)))).

Lemma seq_shift_add a : forall n b, seq (a + b) n = map (fun k => a + k) (seq b n).
Proof.
  induction n as [|n IH]; intros b; simpl; [reflexivity|].
  f_equal. rewrite <- IH. f_equal. lia.
Qed.

(* cutting a trajectory in two changes the counts only by the straddling pairs *)
Lemma counts_cut lag t1 t2 x y : 1 <= lag ->
  label_pair_count lag (t1 ++ t2) x y
  = label_pair_count lag t1 x y + label_pair_count lag t2 x y + straddle lag t1 t2 x y.
Proof.
  intros Hlag. unfold label_pair_count, straddle.
  set (P := fun k => Z.eqb (nth k (t1 ++ t2) 0%Z) x && Z.eqb (nth (k + lag) (t1 ++ t2) 0%Z) y).
  set (n1 := length t1). set (n2 := length t2).
  set (A := n1 - lag). set (B := Nat.min n1 (n1 + n2 - lag) - (n1 - lag)). set (C := n2 - lag).
  assert (Hlen : length (t1 ++ t2) - lag = A + (B + C)).
  { rewrite app_length. fold n1 n2. unfold A, B, C. lia. }
  rewrite Hlen. rewrite seq_app, filter_app, app_length. rewrite seq_app, filter_app, app_length.
  assert (E1 : length (filter P (seq 0 A))
             = length (filter (fun k => Z.eqb (nth k t1 0%Z) x && Z.eqb (nth (k + lag) t1 0%Z) y) (seq 0 A))).
  { apply filter_ext_in_len. intros k Hk. apply in_seq in Hk. unfold P.
    rewrite !app_nth1 by (fold n1; unfold A in Hk; lia). reflexivity. }
  assert (E3 : length (filter P (seq (0 + A + B) C))
             = length (filter (fun k => Z.eqb (nth k t2 0%Z) x && Z.eqb (nth (k + lag) t2 0%Z) y) (seq 0 C))).
  { destruct (Nat.eq_dec C 0) as [HC|HC]; [rewrite HC; reflexivity|].
    assert (HAB : 0 + A + B = n1 + 0) by (unfold A, B, C in *; lia).
    rewrite HAB, seq_shift_add, filter_map_length.
    apply filter_ext_in_len. intros k Hk. unfold P.
    replace (n1 + k + lag) with (n1 + (k + lag)) by lia. unfold n1.
    rewrite !nth_app_len. reflexivity. }
  rewrite E1, E3. change (0 + A) with A. unfold B, A. lia.
Qed.

(* cored trajectories of a set = per-trajectory results, in order *)
Lemma core_stage_app w iter ts1 ts2 r : core_stage w iter (ts1 ++ ts2) = Ok r ->
  exists r1 r2, core_stage w iter ts1 = Ok r1 /\ core_stage w iter ts2 = Ok r2 /\ r = r1 ++ r2.
Proof.
  unfold core_stage. revert r. induction ts1 as [|t ts1 IH]; intros r H; simpl in *.
  - exists [], r. repeat split. exact H.
  - destruct (core_single t w iter) as [c|e]; simpl in *; [|discriminate].
    destruct (mapM (fun t0 => core_single t0 w iter) (ts1 ++ ts2)) as [rr|e] eqn:E; simpl in *; [|discriminate].
    injection H as <-. destruct (IH _ eq_refl) as (r1 & r2 & H1 & H2 & ->).
    exists (c :: r1), r2. rewrite H1. simpl. repeat split. exact H2.
Qed.

(* ---------- C17: relabelling ---------- *)
Definition increasing (phi : Z -> Z) : Prop := forall a b, (a < b)%Z -> (phi a < phi b)%Z.
Definition injective (phi : Z -> Z) : Prop := forall a b, phi a = phi b -> a = b.

Lemma increasing_injective phi : increasing phi -> injective phi.
Proof.
  intros Hi a b E. destruct (Z.lt_trichotomy a b) as [H|[H|H]]; [|exact H|].
  - apply Hi in H. lia.
  - apply Hi in H. lia.
Qed.

Lemma ssorted_map_increasing phi l : increasing phi -> ssorted l -> ssorted (map phi l).
Proof.
  intros Hi. induction l as [|a l IH]; intros Hs; simpl; [constructor|].
  destruct (ssorted_inv _ _ Hs) as [Hs' Hlb].
  apply ssorted_cons; [apply IH; exact Hs'|].
  intros y Hy. apply in_map_iff in Hy as (z & <- & Hz). apply Hi. apply Hlb. exact Hz.
Qed.

Lemma usort_map_increasing phi l : increasing phi -> usort (map phi l) = map phi (usort l).
Proof.
  intros Hi. apply ssorted_unique.
  - apply usort_sorted.
  - apply ssorted_map_increasing; [exact Hi|apply usort_sorted].
  - intros x. split; intros H.
    + apply (proj1 (usort_In _ _)) in H. apply in_map_iff in H as (z & E & Hz). apply in_map_iff.
      exists z. split; [exact E|apply (proj2 (usort_In _ _)); exact Hz].
    + apply in_map_iff in H as (z & E & Hz). apply (proj2 (usort_In _ _)). apply in_map_iff.
      exists z. split; [exact E|apply (proj1 (usort_In _ _)) in Hz; exact Hz].
Qed.

Lemma eqb_injective phi a b : injective phi -> Z.eqb (phi a) (phi b) = Z.eqb a b.
Proof.
  intros Hj. destruct (Z.eqb_spec a b) as [->|Hne]; [apply Z.eqb_refl|].
  apply Z.eqb_neq. intros E. apply Hne, Hj, E.
Qed.

Lemma index_of_map_injective phi x l : injective phi -> index_of (phi x) (map phi l) = index_of x l.
Proof.
  intros Hj. induction l as [|a l IH]; simpl; [reflexivity|].
  rewrite eqb_injective by exact Hj. rewrite IH. reflexivity.
Qed.

Lemma mem_Z_map_injective phi x l : injective phi -> mem_Z (phi x) (map phi l) = mem_Z x l.
Proof.
  intros Hj. induction l as [|a l IH]; simpl; [reflexivity|].
  rewrite eqb_injective by exact Hj. rewrite IH. reflexivity.
Qed.

(* ranks, hence index trajectories, are unchanged by a strictly increasing relabelling *)
Lemma rank_map_increasing phi l x : increasing phi -> In x l ->
  rank (usort (map phi l)) (phi x) = rank (usort l) x.
Proof.
  intros Hi _. rewrite usort_map_increasing by exact Hi. unfold rank.
  rewrite index_of_map_injective by (apply increasing_injective; exact Hi). reflexivity.
Qed.

Lemma nth_map_in (phi : Z -> Z) l k : k < length l -> nth k (map phi l) 0%Z = phi (nth k l 0%Z).
Proof.
  intros Hk. rewrite (nth_indep _ 0%Z (phi 0%Z)) by (rewrite map_length; exact Hk). apply map_nth.
Qed.

Lemma label_pair_count_injective phi lag t x y : injective phi ->
  label_pair_count lag (map phi t) (phi x) (phi y) = label_pair_count lag t x y.
Proof.
  intros Hj. unfold label_pair_count. rewrite map_length.
  apply filter_ext_in_len. intros k Hk. apply in_seq in Hk.
  rewrite !nth_map_in by lia. rewrite !eqb_injective by exact Hj. reflexivity.
Qed.

(* counts are carried along by any injective relabelling *)
Lemma Label_C_injective phi lag ts x y : injective phi ->
  Label_C lag (map (map phi) ts) (phi x) (phi y) = Label_C lag ts x y.
Proof.
  intros Hj. unfold Label_C. rewrite map_map. f_equal. apply map_ext. intros t.
  apply label_pair_count_injective. exact Hj.
Qed.

Lemma window_map_injective phi w s : injective phi -> window w (map phi s) = window w s.
Proof.
  intros Hj. unfold window. rewrite map_length.
  destruct (Nat.leb_spec w (length s)) as [Hw|Hw]; [|reflexivity]. simpl.
  apply forallb_ext_in. intros k Hk. apply in_seq in Hk.
  rewrite !nth_map_in by lia. apply eqb_injective. exact Hj.
Qed.

Lemma first_window_map_injective phi w s : injective phi ->
  first_window w (map phi s) = option_map phi (first_window w s).
Proof.
  intros Hj. induction s as [|a s IH]; [reflexivity|].
  change (map phi (a :: s)) with (phi a :: map phi s) at 1. cbn [first_window].
  change (phi a :: map phi s) with (map phi (a :: s)).
  rewrite window_map_injective by exact Hj.
  destruct (window w (a :: s)); [reflexivity|exact IH].
Qed.

Lemma core_ref_map_injective phi w : injective phi -> forall s c,
  core_ref w (phi c) (map phi s) = map phi (core_ref w c s).
Proof.
  intros Hj. induction s as [|a s IH]; intros c; [reflexivity|].
  change (map phi (a :: s)) with (phi a :: map phi s) at 1. cbn [core_ref].
  change (phi a :: map phi s) with (map phi (a :: s)).
  rewrite window_map_injective by exact Hj. rewrite eqb_injective by exact Hj.
  destruct (Z.eqb a c); [cbn [map]; f_equal; apply IH|].
  destruct (window w (a :: s)); cbn [map]; f_equal; apply IH.
Qed.

(* the coring rule commutes with any injective relabelling *)
Lemma core_single_ref_injective phi w t : injective phi ->
  core_single_ref w (map phi t) = rmap (map phi) (core_single_ref w t).
Proof.
  intros Hj. unfold core_single_ref. rewrite first_window_map_injective by exact Hj.
  destruct (first_window w t) as [c|]; simpl; [|reflexivity].
  f_equal. apply core_ref_map_injective. exact Hj.
Qed.

Lemma events_from_injective phi S F : injective phi -> forall t idx op i0,
  events_from idx op i0 (map phi t) (map phi S) (map phi F) = events_from idx op i0 t S F.
Proof.
  intros Hj. induction t as [|a t IH]; intros idx op i0; [reflexivity|].
  cbn [map events_from]. rewrite !mem_Z_map_injective by exact Hj. rewrite !IH. reflexivity.
Qed.

(* events only depend on membership in the basins *)
Lemma events_injective phi t S F : injective phi ->
  events (map phi t) (map phi S) (map phi F) = events t S F.
Proof. intros Hj. unfold events. apply events_from_injective. exact Hj. Qed.

Lemma erase_step_injective phi S path x : injective phi ->
  erase_step (map phi S) (map phi path) (phi x) = map phi (erase_step S path x).
Proof.
  intros Hj. unfold erase_step. rewrite mem_Z_map_injective, index_of_map_injective by exact Hj.
  rewrite map_app. cbn [map]. f_equal.
  destruct (mem_Z x S); [reflexivity|].
  destruct (index_of x path) as [k|]; [|reflexivity]. apply firstn_map.
Qed.

Lemma loop_erase_injective phi S sl : injective phi ->
  loop_erase (map phi S) (map phi sl) = map phi (loop_erase S sl).
Proof.
  intros Hj. unfold loop_erase. change (@nil Z) with (map phi []) at 1. generalize (@nil Z) as acc.
  induction sl as [|a sl IH]; intros acc; [reflexivity|].
  cbn [map fold_left]. rewrite erase_step_injective by exact Hj. apply IH.
Qed.

(* ---------- C02: a lumped object reports what it was built from ---------- *)
Lemma lumped_views (f : Z -> Z) macro micro pos :
  concat micro <> [] -> (forall v, In v (concat micro) -> small29 v) ->
  (forall v, In v (concat micro) -> small29 (f v)) ->
  macro = map (map f) micro ->
  exists l, mk_lumped macro micro pos = Ok l /\
    lumped_trajs l = Ok macro /\                 (* macro trajectories *)
    trajs (lu_micro l) = Ok micro /\             (* micro trajectories *)
    lu_assign l = map f (unique micro) /\        (* micro -> macro assignment *)
    lu_macrostates l = unique macro /\ lu_positive l = pos.
Proof.
  intros Hne Hsm Hfsm ->.
  set (macro := map (map f) micro).
  assert (Hassign :
    map (fun ms => match index_of ms (concat micro) with
                   | Some k => nth k (concat macro) 0%Z
                   | None => nth (length (concat macro) - 1) (concat macro) 0%Z
                   end) (unique micro) = map f (unique micro)).
  { apply map_ext_in. intros ms Hms. apply (proj1 (usort_In _ _)) in Hms.
    destruct (index_of_In _ _ Hms) as [k Hk]. rewrite Hk.
    destruct (index_of_Some _ _ _ Hk) as [H1 H2].
    unfold macro. rewrite <- concat_map. rewrite nth_map_in by exact H2.
    f_equal. apply nth_error_nth. exact H1. }
  eexists. split.
  { unfold mk_lumped. rewrite mk_spec_correct by assumption. cbn [bind].
    rewrite trajs_mk_spec by assumption. cbn [bind]. reflexivity. }
  cbn [lu_micro lu_assign lu_macrostates lu_positive].
  split; [|split; [apply trajs_mk_spec; assumption|split; [exact Hassign|split; reflexivity]]].
  unfold lumped_trajs. cbn [lu_micro lu_assign]. cbn [st_states mk_spec]. rewrite Hassign. rewrite mk_spec_nstates.
  set (st := unique micro).
  assert (Hst : forall x, In x st <-> In x (concat micro)) by (intros x; apply usort_In).
  assert (Hin : forall l x, In l micro -> In x l -> In x st).
  { intros l x Hl Hx. apply Hst. apply in_concat. exists l. split; assumption. }
  assert (Hnd : NoDup st) by (apply ssorted_NoDup, usort_sorted).
  assert (Hn : (Z.of_nat (length st) <= 1073741824)%Z).
  { pose proof (ssorted_length_bound st (usort_sorted _) (-536870912)%Z 536870912%Z) as G.
    assert (G0 : forall x, In x st -> (-536870912 <= x < 536870912)%Z).
    { intros x Hx. apply Hst in Hx. apply Hsm in Hx. exact Hx. }
    specialize (G G0). lia. }
  assert (Hidx : index_trajs (mk_spec micro) = map (map (fun x => Z.of_nat (rank st x))) micro).
  { unfold index_trajs. cbn [st_idx mk_spec]. rewrite map_map. apply map_ext. intros l. now rewrite map_map. }
  rewrite Hidx.
  assert (Hc : concat (map (map (fun x => Z.of_nat (rank st x))) micro)
               = map (fun x => Z.of_nat (rank st x)) (concat micro)) by (now rewrite concat_map).
  assert (Hstne : st <> []).
  { destruct st as [|s0 st'] eqn:Est; [|discriminate]. exfalso.
    destruct (concat micro) as [|a t] eqn:Ec; [congruence|].
    assert (In a []) by (apply Hst; left; reflexivity). contradiction. }
  rewrite shift_nested_spec.
  - f_equal. unfold macro. rewrite map_map. apply map_ext_in. intros l Hl.
    rewrite map_map. apply map_ext_in. intros x Hx.
    specialize (Hin l x Hl Hx). destruct (rank_nth st x Hin) as [R1 R2].
    unfold subst, arange.
    assert (Ei : index_of (Z.of_nat (rank st x)) (arange_from 0 (length st)) = Some (rank st x)).
    { rewrite <- (arange_from_nth 0 (length st) (rank st x) 0%Z R2) at 1.
      apply index_of_nth_NoDup; [apply NoDup_arange_from|now rewrite arange_from_length]. }
    rewrite Ei. rewrite (nth_indep _ _ (f 0%Z)) by (rewrite map_length; exact R2).
    rewrite map_nth. f_equal. exact R1.
  - rewrite Hc. intros H. apply map_eq_nil in H. contradiction.
  - intros H. apply map_eq_nil in H. contradiction.
  - apply NoDup_arange_from.
  - unfold arange. now rewrite arange_from_length, map_length.
  - intros o Ho. unfold arange in Ho. apply arange_from_In in Ho.
    assert (Hk : (Z.to_nat o < length st)) by lia.
    exists o, o. rewrite Hc. repeat split; try lia;
    (apply in_map_iff; exists (nth (Z.to_nat o) st 0%Z); split;
      [unfold rank; rewrite index_of_nth_NoDup by assumption; lia
      |apply Hst; apply nth_In; exact Hk]).
  - intros v [Hv|Hv].
    + rewrite Hc in Hv. apply in_map_iff in Hv as (x & <- & Hx). apply Hst in Hx.
      destruct (rank_nth st x Hx) as [_ R2]. unfold small. lia.
    + apply in_map_iff in Hv as (x & <- & Hx). apply Hst in Hx. apply Hfsm in Hx.
      unfold small, small29 in *. lia.
Qed.
