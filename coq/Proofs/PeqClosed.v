(* Equilibrium population of a reducible chain with exactly one closed, aperiodic class:
   peq M true returns THE stationary probability vector of M. *)
From Coq Require Import List ZArith Arith Bool Lia QArith Qcanon.
From Coq Require FinFun.
From MsmV Require Import Lib.Result Lib.PyList Lib.QMat Model.Ergodic Model.Peq Proofs.QMatFacts
  Proofs.HSFacts Proofs.ErgodicFacts Proofs.Wielandt Proofs.ErgodicFull Proofs.MaskFacts Proofs.MaskCorollary
  Proofs.UniqueFacts Proofs.PeqFacts Proofs.GaussFacts Proofs.Totality.
Import ListNotations.
Local Open Scope nat_scope.

Definition guard (n : nat) (M : mat) (c : nat) : Prop :=
  0 < n /\ wf n n M /\ entries_nonneg M /\ rows_sum_one M /\ is_tmat atol8 M = true /\
  power_threshold_free n M /\
  (forall i, i < n -> cyclic (supp M) i -> aperiodic_at (supp M) i) /\
  c < n /\ class_closed (supp M) (reach (supp M)) c = true /\
  (* c's class is the only closed class ... *)
  (forall j, j < n -> class_closed (supp M) (reach (supp M)) j = true -> comm (supp M) c j) /\
  (* ... and larger than every other class *)
  (forall j, j < n -> class_closed (supp M) (reach (supp M)) j = false -> csize (supp M) j < csize (supp M) c).

(* ------------------------------------------------------------------ *)
(* 1. the index list of a mask; select and scatter through it          *)
(* ------------------------------------------------------------------ *)
Fixpoint idx (mask : list bool) : list nat :=
  match mask with
  | [] => []
  | b :: m => (if b then [0] else []) ++ map S (idx m)
  end.

Lemma In_idx mask : forall u, In u (idx mask) <-> u < length mask /\ nth u mask false = true.
Proof.
  induction mask as [|b m IH]; intros u; cbn [idx length].
  - split; [intros []|intros [H _]; lia].
  - rewrite in_app_iff, in_map_iff. split.
    + intros [H|[u' [<- H]]].
      * destruct b; [|destruct H]. destruct H as [<-|[]]. cbn [nth]. split; [lia|reflexivity].
      * apply IH in H. cbn [nth]. split; [lia|tauto].
    + intros [Hu Hn]. destruct u as [|u'].
      * left. cbn [nth] in Hn. subst b. left. reflexivity.
      * right. exists u'. split; [reflexivity|]. apply IH. cbn [nth] in Hn. split; [lia|exact Hn].
Qed.

Lemma NoDup_map_S l : NoDup l -> NoDup (map S l).
Proof.
  intros H. apply FinFun.Injective_map_NoDup; [|exact H].
  intros a b E. injection E as E. exact E.
Qed.

Lemma NoDup_idx mask : NoDup (idx mask).
Proof.
  induction mask as [|b m IH]; cbn [idx]; [constructor|].
  destruct b; cbn [app].
  - constructor; [|apply NoDup_map_S; exact IH].
    intros H. apply in_map_iff in H. destruct H as [x [E _]]. discriminate.
  - apply NoDup_map_S. exact IH.
Qed.

Lemma length_idx mask : length (idx mask) <= length mask.
Proof.
  induction mask as [|b m IH]; cbn [idx length]; [lia|].
  rewrite app_length, map_length. destruct b; cbn [length]; lia.
Qed.

Lemma nth_map_S l a : a < length l -> nth a (map S l) 0 = S (nth a l 0).
Proof. intros Ha. apply (nth_map_lt S l a 0 0 Ha). Qed.

Lemma select_cons_true {A} m (x : A) l : select (true :: m) (x :: l) = x :: select m l.
Proof. reflexivity. Qed.
Lemma select_cons_false {A} m (x : A) l : select (false :: m) (x :: l) = select m l.
Proof. reflexivity. Qed.

Lemma select_idx {A} (d : A) mask : forall l, length mask <= length l ->
  select mask l = map (fun i => nth i l d) (idx mask).
Proof.
  induction mask as [|b m IH]; intros l Hl.
  - reflexivity.
  - destruct l as [|x l]; cbn [length] in Hl; [lia|].
    cbn [idx]. rewrite map_app, map_map. cbn [nth].
    rewrite <- (IH l) by lia.
    destruct b; [rewrite select_cons_true|rewrite select_cons_false]; reflexivity.
Qed.

Lemma length_scatter mask : forall w, length (scatter mask w) = length mask.
Proof.
  induction mask as [|b m IH]; intros w; [reflexivity|].
  destruct b; [destruct w|]; cbn [scatter length]; rewrite IH; reflexivity.
Qed.

Lemma scatter_in mask : forall w a, a < length (idx mask) ->
  nth (nth a (idx mask) 0) (scatter mask w) 0%Qc = nth a w 0%Qc.
Proof.
  induction mask as [|b m IH]; intros w a Ha; cbn [idx length] in Ha; [lia|].
  cbn [idx]. destruct b; cbn [app] in *.
  - cbn [length] in Ha. rewrite map_length in Ha.
    destruct a as [|a]; cbn [nth].
    + destruct w; reflexivity.
    + rewrite nth_map_S by lia.
      destruct w as [|x w]; cbn [scatter nth]; rewrite IH by lia; [destruct a|]; reflexivity.
  - rewrite map_length in Ha. rewrite nth_map_S by exact Ha.
    cbn [scatter nth]. apply IH. exact Ha.
Qed.

Lemma scatter_out mask : forall w i, nth i mask false = false -> nth i (scatter mask w) 0%Qc = 0%Qc.
Proof.
  induction mask as [|b m IH]; intros w i Hi.
  - destruct i; reflexivity.
  - destruct i as [|i]; cbn [nth] in Hi.
    + subst b. reflexivity.
    + destruct b; [destruct w|]; cbn [scatter nth]; apply IH; exact Hi.
Qed.

Lemma scatter_In mask : forall w x, In x (scatter mask w) -> x = 0%Qc \/ In x w.
Proof.
  induction mask as [|b m IH]; intros w x Hx; [destruct Hx|].
  destruct b; [destruct w as [|y w]|]; cbn [scatter] in Hx; destruct Hx as [<-|Hx].
  - left; reflexivity.
  - apply IH in Hx. exact Hx.
  - right; left; reflexivity.
  - apply IH in Hx. destruct Hx as [Hx|Hx]; [left; exact Hx|right; right; exact Hx].
  - left; reflexivity.
  - apply IH in Hx. exact Hx.
Qed.

(* a sum over all positions whose terms vanish off the mask is the sum over the index list *)
Lemma qsum_idx mask : forall g : nat -> Qc,
  (forall i, i < length mask -> nth i mask false = false -> g i = 0%Qc) ->
  qsum (map g (seq 0 (length mask))) = qsum (map g (idx mask)).
Proof.
  induction mask as [|b m IH]; intros g Hg; [reflexivity|].
  cbn [length seq idx map]. rewrite <- seq_shift, map_app, qsum_app, !map_map, qsum_cons.
  rewrite (IH (fun i => g (S i))).
  - f_equal. destruct b; cbn [map]; [rewrite qsum_cons, qsum_nil; ring|].
    rewrite qsum_nil. apply (Hg 0); [cbn [length]; lia|reflexivity].
  - intros i Hi Hn. apply (Hg (S i)); [cbn [length]; lia|exact Hn].
Qed.

Lemma map_nth_self {A} (d : A) l : l = map (fun a => nth a l d) (seq 0 (length l)).
Proof.
  apply (nth_ext _ _ d d).
  - rewrite map_length, seq_length. reflexivity.
  - intros a Ha. rewrite (nth_map_seq _ (length l) a d Ha). reflexivity.
Qed.

Lemma qsum_over_list (g : nat -> Qc) C :
  qsum (map g C) = qsum (map (fun a => g (nth a C 0)) (seq 0 (length C))).
Proof. rewrite (map_nth_self 0 C) at 1. rewrite map_map. reflexivity. Qed.

Lemma scatter_qsum mask w : length w = length (idx mask) -> qsum (scatter mask w) = qsum w.
Proof.
  intros Hw. rewrite (qsum_nth_seq (scatter mask w) (length mask) (length_scatter mask w)).
  rewrite (qsum_idx mask (fun i => nth i (scatter mask w) 0%Qc)).
  - rewrite qsum_over_list, (qsum_nth_seq w (length (idx mask)) Hw). apply qsum_map_ext.
    intros a Ha. apply in_seq in Ha. apply scatter_in. lia.
  - intros i _ Hf. apply scatter_out. exact Hf.
Qed.

Lemma qsum_filter_ind {A} (f : A -> Qc) (p : A -> bool) l :
  qsum (map f (filter p l)) = qsum (map (fun x => (f x * (if p x then 1 else 0))%Qc) l).
Proof.
  induction l as [|a l IH]; cbn [filter map]; [reflexivity|].
  rewrite qsum_cons. destruct (p a); [cbn [map]; rewrite qsum_cons|]; rewrite IH; ring.
Qed.

(* ------------------------------------------------------------------ *)
(* 2. graph facts: classes, closed classes, every state reaches one    *)
(* ------------------------------------------------------------------ *)
Lemma forallb_false_ex {A} (f : A -> bool) l : forallb f l = false -> exists x, In x l /\ f x = false.
Proof.
  induction l as [|a l IH]; cbn [forallb]; intros H; [discriminate|].
  destruct (f a) eqn:E.
  - cbn [andb] in H. destruct (IH H) as [x [Hx Hf]]. exists x. split; [right; exact Hx|exact Hf].
  - exists a. split; [left; reflexivity|exact E].
Qed.

Lemma filter_length_le_imp {A} (p q : A -> bool) l :
  (forall x, In x l -> p x = true -> q x = true) -> length (filter p l) <= length (filter q l).
Proof.
  induction l as [|a l IH]; intros H; cbn [filter]; [lia|].
  assert (IH' : length (filter p l) <= length (filter q l)).
  { apply IH. intros x Hx. apply H. right; exact Hx. }
  destruct (p a) eqn:Ep.
  - rewrite (H a (or_introl eq_refl) Ep). cbn [length]. lia.
  - destruct (q a); cbn [length]; lia.
Qed.

Lemma filter_length_lt {A} (p q : A -> bool) l :
  (forall x, In x l -> p x = true -> q x = true) ->
  (exists x, In x l /\ q x = true /\ p x = false) ->
  length (filter p l) < length (filter q l).
Proof.
  induction l as [|a l IH]; intros H [x [Hx [Hq Hp]]]; [destruct Hx|].
  assert (Hl : forall y, In y l -> p y = true -> q y = true).
  { intros y Hy. apply H. right; exact Hy. }
  pose proof (filter_length_le_imp p q l Hl) as Hle.
  cbn [filter]. destruct Hx as [->|Hx].
  - rewrite Hq, Hp. cbn [length]. lia.
  - assert (IH' : length (filter p l) < length (filter q l)).
    { apply IH; [exact Hl|]. exists x. split; [exact Hx|split; assumption]. }
    destruct (p a) eqn:Ep.
    + rewrite (H a (or_introl eq_refl) Ep). cbn [length]. lia.
    + destruct (q a); cbn [length]; lia.
Qed.

Section Graph.
Variables (n : nat) (G : bmat).
Hypothesis HG : bwf n G.
Hypothesis Hn : 0 < n.
Local Notation R := (reach G).

Lemma same_class_spec i j : i < n -> j < n -> (same_class R i j = true <-> comm G i j).
Proof.
  intros Hi Hj. unfold same_class.
  rewrite andb_true_iff, (reach_spec n G i j HG Hn Hi Hj), (reach_spec n G j i HG Hn Hj Hi).
  reflexivity.
Qed.

Lemma same_class_comm i j u : i < n -> j < n -> u < n -> comm G i j ->
  same_class R i u = same_class R j u.
Proof.
  intros Hi Hj Hu Hc. apply Bool.eq_iff_eq_true.
  rewrite (same_class_spec i u Hi Hu), (same_class_spec j u Hj Hu). split; intros H.
  - eapply comm_trans; [apply comm_sym; exact Hc|exact H].
  - eapply comm_trans; [exact Hc|exact H].
Qed.

Lemma class_of_comm i j : i < n -> j < n -> comm G i j -> class_of R i = class_of R j.
Proof.
  intros Hi Hj Hc. unfold class_of. apply filter_ext_in. intros u Hu. apply in_seq in Hu.
  rewrite (proj1 (length_reach n G HG)) in Hu. apply same_class_comm; try assumption. lia.
Qed.

Lemma csize_comm i j : i < n -> j < n -> comm G i j -> csize G i = csize G j.
Proof.
  intros Hi Hj Hc. unfold csize, has_internal_edge. rewrite (class_of_comm i j Hi Hj Hc). reflexivity.
Qed.

Lemma class_closed_spec i : i < n ->
  (class_closed G R i = true <->
   forall j k, j < n -> comm G i j -> k < n -> bget G j k = true -> comm G i k).
Proof.
  intros Hi. unfold class_closed. rewrite forallb_forall. split.
  - intros H j k Hj Hc Hk Hb.
    assert (Hin : In j (class_of R i)) by (apply (class_of_spec n G i j HG Hn Hi); split; assumption).
    specialize (H j Hin). rewrite forallb_forall in H.
    assert (Hk' : In k (seq 0 (length G))) by (rewrite (proj1 HG); apply in_seq; lia).
    specialize (H k Hk'). rewrite Hb in H. cbn [negb orb] in H.
    apply (same_class_spec i k Hi Hk). exact H.
  - intros H j Hj. apply (class_of_spec n G i j HG Hn Hi) in Hj. destruct Hj as [Hj Hc].
    apply forallb_forall. intros k Hk. rewrite (proj1 HG) in Hk. apply in_seq in Hk.
    assert (Hk' : k < n) by lia.
    destruct (bget G j k) eqn:E; cbn [negb orb]; [|reflexivity].
    apply (same_class_spec i k Hi Hk'). apply (H j k); assumption.
Qed.

Lemma class_closed_comm i j : i < n -> j < n -> comm G i j ->
  class_closed G R i = class_closed G R j.
Proof.
  intros Hi Hj Hc. apply Bool.eq_iff_eq_true.
  rewrite (class_closed_spec i Hi), (class_closed_spec j Hj). split; intros H u k Hu Hcu Hk Hb.
  - eapply comm_trans; [apply comm_sym; exact Hc|]. apply (H u k); try assumption.
    eapply comm_trans; [exact Hc|exact Hcu].
  - eapply comm_trans; [exact Hc|]. apply (H u k); try assumption.
    eapply comm_trans; [apply comm_sym; exact Hc|exact Hcu].
Qed.

(* walks starting in a closed class stay in it *)
Lemma closed_walk i : i < n -> class_closed G R i = true ->
  forall k u v, comm G i u -> walk G k u v -> comm G i v.
Proof.
  intros Hi Hcl. induction k as [|k IH]; intros u v Hc Hw.
  - apply (walk_0 n G HG) in Hw. destruct Hw as [<- _]. exact Hc.
  - apply (walk_S n G HG) in Hw. destruct Hw as [m [Hm [Hb Hw]]].
    apply (IH m v); [|exact Hw].
    apply (proj1 (class_closed_spec i Hi) Hcl u m); try assumption.
    eapply (bget_true_lt n G HG). exact Hb.
Qed.

Definition rcount (i : nat) : nat := length (filter (fun j => bget R i j) (seq 0 n)).

Lemma reach_closed_class : forall m i, i < n -> rcount i < m ->
  exists j, j < n /\ reachable G i j /\ class_closed G R j = true.
Proof.
  induction m as [|m IH]; intros i Hi Hr; [lia|].
  destruct (class_closed G R i) eqn:E.
  - exists i. split; [exact Hi|]. split; [apply (reachable_refl n); assumption|exact E].
  - unfold class_closed in E. apply forallb_false_ex in E. destruct E as [j [Hj E]].
    apply forallb_false_ex in E. destruct E as [k [Hk E]].
    apply (class_of_spec n G i j HG Hn Hi) in Hj. destruct Hj as [Hj [Hij Hji]].
    rewrite (proj1 HG) in Hk. apply in_seq in Hk. assert (Hk' : k < n) by lia.
    apply orb_false_iff in E. destruct E as [E1 E2]. apply negb_false_iff in E1.
    assert (Hik : reachable G i k).
    { eapply reachable_trans; [exact Hij|]. apply (reachable_edge n); assumption. }
    assert (Hnki : ~ reachable G k i).
    { intros Hki. assert (Hc : comm G i k) by (split; assumption).
      apply (same_class_spec i k Hi Hk') in Hc. congruence. }
    assert (Hlt : rcount k < rcount i).
    { unfold rcount. apply filter_length_lt.
      - intros x Hx Hp. apply in_seq in Hx. assert (Hx' : x < n) by lia.
        apply (reach_spec n G i x HG Hn Hi Hx').
        apply (reach_spec n G k x HG Hn Hk' Hx') in Hp.
        eapply reachable_trans; eassumption.
      - exists i. split; [apply in_seq; lia|]. split.
        + apply (reach_spec n G i i HG Hn Hi Hi). apply (reachable_refl n); assumption.
        + destruct (bget R k i) eqn:Eb; [|reflexivity]. exfalso. apply Hnki.
          apply (reach_spec n G k i HG Hn Hk' Hi). exact Eb. }
    destruct (IH k Hk') as [j' [Hj' [Hkj' Hcl]]]; [lia|].
    exists j'. split; [exact Hj'|]. split; [|exact Hcl].
    eapply reachable_trans; eassumption.
Qed.

Lemma reaches_closed i : i < n -> exists j, j < n /\ reachable G i j /\ class_closed G R j = true.
Proof. intros Hi. apply (reach_closed_class (S (rcount i)) i Hi). lia. Qed.
End Graph.

(* ------------------------------------------------------------------ *)
(* 3. the chain under the guard                                        *)
(* ------------------------------------------------------------------ *)
Lemma bmat_ext n A B : bwf n A -> bwf n B ->
  (forall i j, i < n -> j < n -> bget A i j = bget B i j) -> A = B.
Proof.
  intros HA HB Hext. apply (nth_ext _ _ [] []).
  - rewrite (proj1 HA), (proj1 HB). reflexivity.
  - intros i Hi. rewrite (proj1 HA) in Hi. apply (nth_ext _ _ false false).
    + rewrite (bwf_row n A i HA Hi), (bwf_row n B i HB Hi). reflexivity.
    + intros j Hj. rewrite (bwf_row n A i HA Hi) in Hj. apply (Hext i j Hi Hj).
Qed.

Lemma Qc_div_1 x : (x / 1 = x)%Qc.
Proof. field. discriminate. Qed.

Section Closed.
Variables (n : nat) (M : mat) (c : nat).
Hypothesis Hn : 0 < n.
Hypothesis HM : wf n n M.
Hypothesis NM : entries_nonneg M.
Hypothesis SM : rows_sum_one M.
Hypothesis Ht : is_tmat atol8 M = true.
Hypothesis Hfree : power_threshold_free n M.
Hypothesis Hap : forall i, i < n -> cyclic (supp M) i -> aperiodic_at (supp M) i.
Hypothesis Hc : c < n.
Hypothesis Hcl : class_closed (supp M) (reach (supp M)) c = true.
Hypothesis Huniq : forall j, j < n -> class_closed (supp M) (reach (supp M)) j = true -> comm (supp M) c j.
Hypothesis Hdom : forall j, j < n -> class_closed (supp M) (reach (supp M)) j = false ->
  csize (supp M) j < csize (supp M) c.
Local Notation G := (supp M).

Lemma cl_HG : bwf n G.
Proof. apply bwf_supp. exact HM. Qed.

(* every state reaches c *)
Lemma cl_reaches_c i : i < n -> reachable G i c.
Proof.
  intros Hi. destruct (reaches_closed n G cl_HG Hn i Hi) as [j [Hj [Hij Hjc]]].
  pose proof (Huniq j Hj Hjc) as [_ Hjc']. eapply reachable_trans; eassumption.
Qed.

(* no mass flows out of the class, for every power *)
Lemma cl_pow_zero k i j : i < n -> j < n -> comm G c i -> ~ comm G c j ->
  mget (mpow M k) i j = 0%Qc.
Proof.
  intros Hi Hj Hci Hncj.
  apply Qcle_antisym.
  - destruct (Qclt_le_dec 0 (mget (mpow M k) i j)) as [Hp|Hle]; [|exact Hle].
    exfalso. apply Hncj.
    apply (pos_pow_iff_walk n M k i j Hn HM NM Hi Hj) in Hp.
    apply (closed_walk n G cl_HG Hn c Hc Hcl k i j Hci Hp).
  - apply (mget_nonneg n n); try assumption.
    + apply wf_mpow; assumption.
    + apply (entries_nonneg_mpow n); assumption.
Qed.

Lemma cl_zero i j : i < n -> j < n -> comm G c i -> ~ comm G c j -> mget M i j = 0%Qc.
Proof.
  intros Hi Hj Hci Hncj. rewrite <- (mpow_1 n M Hn HM) at 1.
  apply cl_pow_zero; assumption.
Qed.

Lemma cl_cyclic : cyclic G c.
Proof.
  destruct (row_has_edge n M c HM NM SM Hc) as [m [Hm Hb]].
  assert (Hcm : comm G c m).
  { apply (proj1 (class_closed_spec n G cl_HG Hn c Hc) Hcl c m); try assumption.
    apply (comm_refl n); [exact cl_HG|exact Hc]. }
  destruct Hcm as [_ [k Hk]]. exists (S k). split; [lia|].
  apply (walk_S n G cl_HG). exists m. split; [exact Hm|]. split; assumption.
Qed.

Lemma cl_ap : aperiodic_at G c.
Proof. apply Hap; [exact Hc|exact cl_cyclic]. Qed.

(* ---------------- stage B: stationary vectors carry no mass off the class ---------------- *)
Section StageB.
Variable u : vec.
Hypothesis Hu : length u = n.
Hypothesis Hunn : forall x, In x u -> (0 <= x)%Qc.
Hypothesis Eu : vmul u M = u.
Variables (i0 k : nat).
Hypothesis Hi0 : i0 < n.
Hypothesis Hnc0 : ~ comm G c i0.
Hypothesis Hk : walk G k i0 c.
Local Notation P := (mpow M k).
Local Notation inC := (same_class (reach G) c).
Local Notation Cl := (filter (same_class (reach G) c) (seq 0 n)).
Local Notation q i := (qsum (map (fun j => mget (mpow M k) i j) (filter (same_class (reach G) c) (seq 0 n)))).
Local Notation chi i := (if same_class (reach G) c i then 1%Qc else 0%Qc).

Lemma sb_HP : wf n n P.
Proof. apply wf_mpow; assumption. Qed.

Lemma sb_NP i j : i < n -> j < n -> (0 <= mget P i j)%Qc.
Proof.
  intros Hi Hj. apply (mget_nonneg n n); try assumption; [exact sb_HP|].
  apply (entries_nonneg_mpow n); assumption.
Qed.

Lemma sb_inC j : j < n -> (inC j = true <-> comm G c j).
Proof. intros Hj. apply (same_class_spec n G cl_HG Hn c j Hc Hj). Qed.

Lemma sb_Cl_lt j : In j Cl -> j < n.
Proof. intros Hj. apply filter_In in Hj. destruct Hj as [Hj _]. apply in_seq in Hj. lia. Qed.

Lemma sb_u_nonneg i : i < n -> (0 <= nth i u 0)%Qc.
Proof. intros Hi. apply Hunn, nth_In. rewrite Hu. exact Hi. Qed.

Lemma sb_q_nonneg i : i < n -> (0 <= q i)%Qc.
Proof.
  intros Hi. apply qsum_nonneg. intros x Hx. apply in_map_iff in Hx. destruct Hx as [j [<- Hj]].
  apply sb_NP; [exact Hi|apply sb_Cl_lt; exact Hj].
Qed.

(* rows of the class keep their whole mass inside the class *)
Lemma sb_q_one i : i < n -> inC i = true -> q i = 1%Qc.
Proof.
  intros Hi Hin. apply (sb_inC i Hi) in Hin.
  rewrite (qsum_filter_ind (fun j => mget P i j) inC (seq 0 n)).
  transitivity (qsum (map (fun j => mget P i j) (seq 0 n)));
    [|apply (row_sum_seq n P i sb_HP (proj1 (mpow_stochastic n M k Hn HM SM NM)) Hi)].
  apply qsum_map_ext. intros j Hj. apply in_seq in Hj. assert (Hj' : j < n) by lia.
  destruct (inC j) eqn:E; cbv iota; [ring|].
  rewrite (cl_pow_zero k i j Hi Hj' Hin); [ring|].
  intros Hcj. apply (sb_inC j Hj') in Hcj. congruence.
Qed.

Lemma sb_q_pos : (0 < q i0)%Qc.
Proof.
  apply qsum_pos.
  - intros x Hx. apply in_map_iff in Hx. destruct Hx as [j [<- Hj]].
    apply sb_NP; [exact Hi0|apply sb_Cl_lt; exact Hj].
  - exists (mget P i0 c). split.
    + apply in_map_iff. exists c. split; [reflexivity|]. apply filter_In. split; [apply in_seq; lia|].
      apply (sb_inC c Hc). apply (comm_refl n); [exact cl_HG|exact Hc].
    + apply (pos_pow_iff_walk n M k i0 c Hn HM NM Hi0 Hc). exact Hk.
Qed.

Lemma sb_balance :
  qsum (map (fun i => (nth i u 0 * q i - nth i u 0 * chi i)%Qc) (seq 0 n)) = 0%Qc.
Proof.
  rewrite (qsum_map_minus (fun i => (nth i u 0 * q i)%Qc) (fun i => (nth i u 0 * chi i)%Qc)).
  rewrite <- (qsum_filter_ind (fun i => nth i u 0%Qc) inC (seq 0 n)).
  assert (E : qsum (map (fun i => (nth i u 0 * q i)%Qc) (seq 0 n)) =
              qsum (map (fun j => nth j u 0%Qc) Cl)).
  { transitivity (qsum (map (fun j => qsum (map (fun i => (nth i u 0 * mget P i j)%Qc) (seq 0 n))) Cl)).
    - rewrite qsum_exchange. apply qsum_map_ext. intros i _.
      rewrite <- qsum_map_scale_l. reflexivity.
    - apply qsum_map_ext. intros j Hj. apply sb_Cl_lt in Hj.
      rewrite <- (nth_vmul n n u P j Hn Hu sb_HP Hj).
      rewrite (stationary_mpow n M u k Hn HM Hu Eu). reflexivity. }
  rewrite E. ring.
Qed.

Lemma sb_zero : nth i0 u 0%Qc = 0%Qc.
Proof.
  assert (Hterm : forall x, In x (map (fun i => (nth i u 0 * q i - nth i u 0 * chi i)%Qc) (seq 0 n)) ->
                            (0 <= x)%Qc).
  { intros x Hx. apply in_map_iff in Hx. destruct Hx as [i [<- Hi]]. apply in_seq in Hi.
    assert (Hi' : i < n) by lia. cbv beta.
    destruct (inC i) eqn:E.
    - rewrite (sb_q_one i Hi' E). replace (nth i u 0 * 1 - nth i u 0 * 1)%Qc with 0%Qc by ring.
      apply Qcle_refl.
    - replace (nth i u 0 * q i - nth i u 0 * 0)%Qc with (nth i u 0 * q i)%Qc by ring.
      apply Qcmult_nonneg; [apply sb_u_nonneg; exact Hi'|apply sb_q_nonneg; exact Hi']. }
  pose proof (qsum_nonneg_zero _ Hterm sb_balance
                (nth i0 u 0 * q i0 - nth i0 u 0 * chi i0)%Qc) as H0.
  assert (Hin0 : inC i0 = false).
  { destruct (inC i0) eqn:E; [|reflexivity]. exfalso. apply Hnc0. apply (sb_inC i0 Hi0). exact E. }
  assert (H1 : (nth i0 u 0 * q i0 - nth i0 u 0 * chi i0)%Qc = 0%Qc).
  { apply H0. apply in_map_iff. exists i0. split; [reflexivity|apply in_seq; lia]. }
  cbv beta in H1. rewrite Hin0 in H1.
  assert (H2 : (nth i0 u 0 * q i0)%Qc = 0%Qc).
  { transitivity (nth i0 u 0 * q i0 - nth i0 u 0 * 0)%Qc; [ring|exact H1]. }
  destruct (Qcmult_integral _ _ H2) as [H3|H3]; [exact H3|].
  exfalso. pose proof sb_q_pos as Hp. rewrite H3 in Hp. exact (Qclt_irrefl _ Hp).
Qed.
End StageB.

Lemma cl_stageB u : length u = n -> (forall x, In x u -> (0 <= x)%Qc) -> vmul u M = u ->
  forall i, i < n -> ~ comm G c i -> nth i u 0%Qc = 0%Qc.
Proof.
  intros Hu Hunn Eu i Hi Hnc. destruct (cl_reaches_c i Hi) as [k Hk].
  apply (sb_zero u Hu Hunn Eu i k Hi Hnc Hk).
Qed.

(* ---------------- the mask ---------------- *)
Section Mask.
Variable mask : list bool.
Hypothesis Hmask : ergodic_mask atol8 M = Ok mask.
Local Notation C := (idx mask).
Local Notation m := (length (idx mask)).
Local Notation T' := (restrict_mat mask M).

Lemma mk_len : length mask = n.
Proof. exact (proj1 (ergodic_mask_classes n M mask Hn HM NM SM Ht Hfree Hap Hmask)). Qed.

Lemma mk_spec i : i < n -> (nth i mask false = true <-> comm G c i).
Proof.
  intros Hi.
  assert (Hle : forall j, j < n -> class_closed G (reach G) j = true -> csize G j <= csize G c).
  { intros j Hj Hjc. rewrite (csize_comm n G cl_HG Hn c j Hc Hj (Huniq j Hj Hjc)). lia. }
  rewrite (mask_largest_closed n M mask c Hn HM NM SM Ht Hfree Hap Hmask Hc Hcl Hle Hdom i Hi).
  split.
  - intros [Hic _]. apply Huniq; assumption.
  - intros Hci. split.
    + rewrite <- (class_closed_comm n G cl_HG Hn c i Hc Hi Hci). exact Hcl.
    + symmetry. apply (csize_comm n G cl_HG Hn c i Hc Hi Hci).
Qed.

Lemma mk_C u : In u C <-> u < n /\ comm G c u.
Proof.
  rewrite In_idx, mk_len. split.
  - intros [Hu Hm]. split; [exact Hu|]. apply (mk_spec u Hu). exact Hm.
  - intros [Hu Hcu]. split; [exact Hu|]. apply (mk_spec u Hu). exact Hcu.
Qed.

Lemma mk_C_lt a : a < m -> nth a C 0 < n.
Proof. intros Ha. apply (mk_C (nth a C 0)). apply nth_In. exact Ha. Qed.

Lemma mk_C_comm a : a < m -> comm G c (nth a C 0).
Proof. intros Ha. apply (mk_C (nth a C 0)). apply nth_In. exact Ha. Qed.

Lemma mk_m_le : m <= n.
Proof. rewrite <- mk_len. apply length_idx. Qed.

Lemma mk_m_pos : 0 < m.
Proof. apply (class_pos n G c C cl_HG Hc mk_C (NoDup_idx mask) mk_m_le). Qed.

Lemma mk_off i : i < n -> nth i mask false = false -> ~ comm G c i.
Proof. intros Hi Hf Hci. apply (mk_spec i Hi) in Hci. congruence. Qed.

Lemma mk_restrict : T' = map (fun i => map (fun j => mget M i j) C) C.
Proof.
  unfold restrict_mat.
  rewrite (select_idx [] mask M) by (rewrite mk_len, (wf_length _ _ _ HM); lia).
  rewrite map_map. apply map_ext_in. intros i Hi. apply mk_C in Hi. destruct Hi as [Hi _].
  rewrite (select_idx 0%Qc mask (nth i M [])) by (rewrite mk_len, (wf_row _ _ _ _ HM Hi); lia).
  reflexivity.
Qed.

Lemma mk_wf : wf m m T'.
Proof.
  rewrite mk_restrict. split.
  - rewrite map_length. reflexivity.
  - intros r Hr. apply in_map_iff in Hr. destruct Hr as [i [<- _]]. rewrite map_length. reflexivity.
Qed.

Lemma mk_mget a b : a < m -> b < m -> mget T' a b = mget M (nth a C 0) (nth b C 0).
Proof.
  intros Ha Hb. unfold mget at 1. rewrite mk_restrict.
  rewrite (nth_map_lt (fun i => map (fun j => mget M i j) C) C a [] 0 Ha).
  rewrite (nth_map_lt (fun j => mget M (nth a C 0) j) C b 0%Qc 0 Hb). reflexivity.
Qed.

Lemma mk_rows : rows_sum_one T'.
Proof.
  intros r Hr. rewrite mk_restrict in Hr. apply in_map_iff in Hr. destruct Hr as [i [<- Hi]].
  apply mk_C in Hi. destruct Hi as [Hi Hci].
  rewrite <- (qsum_idx mask (fun j => mget M i j)).
  - rewrite mk_len. apply (row_sum_seq n M i HM SM Hi).
  - intros j Hj Hf. rewrite mk_len in Hj. apply cl_zero; try assumption. apply mk_off; assumption.
Qed.

Lemma mk_nonneg : entries_nonneg T'.
Proof.
  intros r x Hr Hx. rewrite mk_restrict in Hr. apply in_map_iff in Hr. destruct Hr as [i [<- Hi]].
  apply in_map_iff in Hx. destruct Hx as [j [<- Hj]].
  apply mk_C in Hi. apply mk_C in Hj. apply (mget_nonneg n n); tauto.
Qed.

Lemma mk_normalize : row_normalize T' = T'.
Proof.
  unfold row_normalize. apply map_id_in. intros r Hr. rewrite (mk_rows r Hr).
  change (Qc_eqb 1 0) with false. cbv iota.
  apply map_id_in. intros x _. apply Qc_div_1.
Qed.

Lemma mk_supp : supp T' = induced G C.
Proof.
  apply (bmat_ext m); [apply bwf_supp; exact mk_wf|apply bwf_induced|].
  intros a b Ha Hb.
  rewrite (bget_supp m m T' a b mk_wf Ha Hb), (bget_induced G C a b Ha Hb), (mk_mget a b Ha Hb).
  symmetry. apply (bget_supp n n M _ _ HM); apply mk_C_lt; assumption.
Qed.

Lemma mk_pos : forall a b, a < m -> b < m -> (0 < mget (mpow T' (wexp m)) a b)%Qc.
Proof.
  apply (ergodic_complete m T' mk_m_pos mk_wf mk_nonneg).
  - rewrite mk_supp. apply (induced_sc n G c C cl_HG mk_C (NoDup_idx mask)).
  - rewrite mk_supp. apply (induced_ap n G c C cl_HG Hc mk_C (NoDup_idx mask) cl_ap).
Qed.

Lemma mk_stationary : exists w, stationary (row_normalize T') = Some w /\ length w = m /\
  vmul w T' = w /\ qsum w = 1%Qc /\ (forall t, In t w -> (0 <= t)%Qc).
Proof.
  rewrite mk_normalize.
  apply (stationary_exists_spec m (wexp m) T' mk_m_pos mk_wf mk_nonneg mk_rows mk_pos).
Qed.

(* the scattered vector *)
Lemma mk_len_scatter w : length (scatter mask w) = n.
Proof. rewrite length_scatter. exact mk_len. Qed.

Lemma mk_vmul_scatter w j : j < n ->
  nth j (vmul (scatter mask w) M) 0%Qc =
  qsum (map (fun a => (nth a w 0 * mget M (nth a C 0%nat) j)%Qc) (seq 0 m)).
Proof.
  intros Hj.
  rewrite (nth_vmul n n (scatter mask w) M j Hn (mk_len_scatter w) HM Hj).
  rewrite <- mk_len.
  rewrite (qsum_idx mask (fun i => (nth i (scatter mask w) 0 * mget M i j)%Qc)).
  - rewrite qsum_over_list. apply qsum_map_ext. intros a Ha. apply in_seq in Ha.
    rewrite scatter_in by lia. reflexivity.
  - intros i Hi Hf. rewrite (scatter_out mask w i Hf). ring.
Qed.

Lemma mk_scatter_stationary w : length w = m -> vmul w T' = w ->
  vmul (scatter mask w) M = scatter mask w.
Proof.
  intros Hw Ew. apply (vec_ext n).
  - apply (length_vmul n n); assumption.
  - apply mk_len_scatter.
  - intros j Hj. rewrite (mk_vmul_scatter w j Hj).
    destruct (nth j mask false) eqn:E.
    + assert (HjC : In j C) by (apply In_idx; rewrite mk_len; split; assumption).
      destruct (In_nth C j 0 HjC) as [b [Hb Eb]]. subst j.
      rewrite (scatter_in mask w b Hb).
      transitivity (nth b (vmul w T') 0%Qc); [|rewrite Ew; reflexivity].
      rewrite (nth_vmul m m w T' b mk_m_pos Hw mk_wf Hb).
      apply qsum_map_ext. intros a Ha. apply in_seq in Ha. rewrite mk_mget by lia. reflexivity.
    + rewrite (scatter_out mask w j E).
      transitivity (qsum (map (fun _ : nat => 0%Qc) (seq 0 m))); [|apply qsum_map_zero].
      apply qsum_map_ext. intros a Ha. apply in_seq in Ha.
      rewrite (cl_zero (nth a C 0) j);
        [ring|apply mk_C_lt; lia|exact Hj|apply mk_C_comm; lia|apply mk_off; assumption].
Qed.

Lemma mk_scatter_nonneg w : (forall t, In t w -> (0 <= t)%Qc) ->
  forall x, In x (scatter mask w) -> (0 <= x)%Qc.
Proof.
  intros Hw x Hx. destruct (scatter_In mask w x Hx) as [->|Hin]; [apply Qcle_refl|apply Hw; exact Hin].
Qed.

Lemma mk_scatter_off w i : i < n -> ~ comm G c i -> nth i (scatter mask w) 0%Qc = 0%Qc.
Proof.
  intros Hi Hnc. apply scatter_out. destruct (nth i mask false) eqn:E; [|reflexivity].
  exfalso. apply Hnc. apply (mk_spec i Hi). exact E.
Qed.

(* a stationary probability vector of M that vanishes off the class is the scattered
   stationary vector of the restriction *)
Lemma mk_unique u w : length u = n -> (forall x, In x u -> (0 <= x)%Qc) -> qsum u = 1%Qc ->
  vmul u M = u -> (forall i, i < n -> ~ comm G c i -> nth i u 0%Qc = 0%Qc) ->
  length w = m -> (forall t, In t w -> (0 <= t)%Qc) -> qsum w = 1%Qc -> vmul w T' = w ->
  u = scatter mask w.
Proof.
  intros Hu Hunn Su Eu Hoff Hw Hwnn Sw Ew.
  set (u' := map (fun i => nth i u 0%Qc) C).
  assert (Hu' : length u' = m) by (unfold u'; apply map_length).
  assert (Hnth : forall a, a < m -> nth a u' 0%Qc = nth (nth a C 0) u 0%Qc).
  { intros a Ha. unfold u'. apply (nth_map_lt (fun i => nth i u 0%Qc) C a 0%Qc 0 Ha). }
  assert (Hoffm : forall i, i < length mask -> nth i mask false = false -> nth i u 0%Qc = 0%Qc).
  { intros i Hi Hf. rewrite mk_len in Hi. apply Hoff; [exact Hi|apply mk_off; assumption]. }
  assert (Hu'nn : forall x, In x u' -> (0 <= x)%Qc).
  { intros x Hx. unfold u' in Hx. apply in_map_iff in Hx. destruct Hx as [i [<- Hi]].
    apply mk_C in Hi. apply Hunn. apply nth_In. rewrite Hu. tauto. }
  assert (Su' : qsum u' = 1%Qc).
  { unfold u'. rewrite <- (qsum_idx mask (fun i => nth i u 0%Qc) Hoffm).
    rewrite mk_len, <- (qsum_nth_seq u n Hu). exact Su. }
  assert (Eu' : vmul u' T' = u').
  { apply (vec_ext m); [apply (length_vmul m m); [exact mk_m_pos|exact mk_wf]|exact Hu'|].
    intros b Hb. rewrite (nth_vmul m m u' T' b mk_m_pos Hu' mk_wf Hb).
    rewrite (Hnth b Hb).
    transitivity (nth (nth b C 0) (vmul u M) 0%Qc); [|rewrite Eu; reflexivity].
    rewrite (nth_vmul n n u M (nth b C 0) Hn Hu HM (mk_C_lt b Hb)).
    rewrite <- mk_len.
    rewrite (qsum_idx mask (fun i => (nth i u 0 * mget M i (nth b C 0%nat))%Qc)).
    - rewrite (qsum_over_list _ C). apply qsum_map_ext. intros a Ha. apply in_seq in Ha.
      rewrite Hnth, mk_mget by lia. reflexivity.
    - intros i Hi Hf. rewrite (Hoffm i Hi Hf). ring. }
  assert (E : u' = w).
  { apply (stationary_unique m T' (wexp m) u' w mk_m_pos mk_wf Hu' Hw mk_pos); assumption. }
  rewrite <- E. apply (vec_ext n); [exact Hu|apply mk_len_scatter|].
  intros i Hi. destruct (nth i mask false) eqn:Em.
  - assert (HiC : In i C) by (apply In_idx; rewrite mk_len; split; assumption).
    destruct (In_nth C i 0 HiC) as [a [Ha Ea]]. subst i.
    rewrite (scatter_in mask u' a Ha). symmetry. apply Hnth. exact Ha.
  - rewrite (scatter_out mask u' i Em). apply Hoff; [exact Hi|apply mk_off; assumption].
Qed.
End Mask.
End Closed.

(* ------------------------------------------------------------------ *)
(* 4. stage A: the non-ergodic branch finds a stationary vector of M   *)
(* ------------------------------------------------------------------ *)
Lemma ergodic_mask_ok n M : 0 < n -> wf n n M -> is_tmat atol8 M = true ->
  exists mask, ergodic_mask atol8 M = Ok mask.
Proof. intros Hn HM Ht. rewrite (ergodic_mask_unfold n M Hn HM Ht). eexists. reflexivity. Qed.

Lemma peq_nonergodic M mask w : is_ergodic atol8 M = false -> ergodic_mask atol8 M = Ok mask ->
  stationary (row_normalize (restrict_mat mask M)) = Some w ->
  peq M true = Ok (Some (scatter mask w)).
Proof.
  intros He Hmask Hst. unfold peq. rewrite He, Hmask. cbn [negb andb bind]. rewrite Hst. reflexivity.
Qed.

Theorem peq_closed_found : forall n M c, guard n M c -> is_ergodic atol8 M = false ->
  exists mask w, ergodic_mask atol8 M = Ok mask /\
    (forall i, i < n -> (nth i mask false = true <-> comm (supp M) c i)) /\
    stationary (row_normalize (restrict_mat mask M)) = Some w /\
    peq M true = Ok (Some (scatter mask w)) /\
    length (scatter mask w) = n /\
    vmul (scatter mask w) M = scatter mask w /\ qsum (scatter mask w) = 1%Qc /\
    (forall x, In x (scatter mask w) -> (0 <= x)%Qc) /\
    (forall i, i < n -> ~ comm (supp M) c i -> nth i (scatter mask w) 0%Qc = 0%Qc).
Proof.
  intros n M c (Hn & HM & NM & SM & Ht & Hfree & Hap & Hc & Hcl & Huniq & Hdom) He.
  destruct (ergodic_mask_ok n M Hn HM Ht) as [mask Hmask].
  destruct (mk_stationary n M c Hn HM NM SM Ht Hfree Hap Hc Hcl Huniq Hdom mask Hmask)
    as (w & Hst & Hw & Ew & Sw & Hwnn).
  exists mask, w.
  split; [exact Hmask|].
  split; [intros i Hi; eapply mk_spec; eassumption|].
  split; [exact Hst|].
  split; [apply peq_nonergodic; assumption|].
  split; [eapply mk_len_scatter; eassumption|].
  split; [eapply mk_scatter_stationary; eassumption|].
  split; [rewrite (scatter_qsum mask w Hw); exact Sw|].
  split; [apply mk_scatter_nonneg; exact Hwnn|].
  intros i Hi Hnc. eapply (mk_scatter_off n M c); eassumption.
Qed.

(* ------------------------------------------------------------------ *)
(* 5. stage B and the final statement                                  *)
(* ------------------------------------------------------------------ *)
Theorem stationary_zero_on_transient : forall n M c u, guard n M c ->
  length u = n -> (forall x, In x u -> (0 <= x)%Qc) -> qsum u = 1%Qc -> vmul u M = u ->
  forall i, i < n -> ~ comm (supp M) c i -> nth i u 0%Qc = 0%Qc.
Proof.
  intros n M c u (Hn & HM & NM & SM & Ht & Hfree & Hap & Hc & Hcl & Huniq & Hdom) Hu Hunn Su Eu i Hi Hnc.
  eapply (cl_stageB n M c); eassumption.
Qed.

Theorem peq_closed_unique : forall n M c, guard n M c ->
  exists v, peq M true = Ok (Some v) /\ length v = n /\
    vmul v M = v /\ qsum v = 1%Qc /\ (forall x, In x v -> (0 <= x)%Qc) /\
    (forall i, i < n -> ~ comm (supp M) c i -> nth i v 0%Qc = 0%Qc) /\
    (forall u, length u = n -> (forall x, In x u -> (0 <= x)%Qc) -> qsum u = 1%Qc -> vmul u M = u -> u = v).
Proof.
  intros n M c Hg.
  pose proof Hg as (Hn & HM & NM & SM & Ht & Hfree & Hap & Hc & Hcl & Huniq & Hdom).
  destruct (is_ergodic atol8 M) eqn:He.
  - (* the ergodic branch *)
    destruct (ergodic_sound n M Hn HM NM SM He) as [Hsc [Hape _]].
    assert (Hpos : forall i j, i < n -> j < n -> (0 < mget (mpow M (wexp n)) i j)%Qc)
      by (apply ergodic_complete; assumption).
    destruct (stationary_exists_spec n (wexp n) M Hn HM NM SM Hpos) as (v & Hst & Hv & Ev & Sv & Hvnn).
    exists v.
    split. { unfold peq. rewrite He. cbn [negb andb]. rewrite Hst. reflexivity. }
    split; [exact Hv|]. split; [exact Ev|]. split; [exact Sv|]. split; [exact Hvnn|]. split.
    + intros i Hi Hnc. exfalso. apply Hnc.
      assert (Hlen : length (supp M) = n) by (rewrite length_supp; apply (wf_length _ _ _ HM)).
      split; apply Hsc; rewrite Hlen; assumption.
    + intros u Hu Hunn Su Eu.
      apply (stationary_unique n M (wexp n) u v Hn HM Hu Hv Hpos Hunn Hvnn Su Sv Eu Ev).
  - (* the non-ergodic branch *)
    destruct (peq_closed_found n M c Hg He)
      as (mask & w & Hmask & Hspec & Hst & Hpeq & Hlen & Est & Ssum & Hnn & Hoff).
    exists (scatter mask w).
    split; [exact Hpeq|]. split; [exact Hlen|]. split; [exact Est|]. split; [exact Ssum|].
    split; [exact Hnn|]. split; [exact Hoff|].
    intros u Hu Hunn Su Eu.
    destruct (mk_stationary n M c Hn HM NM SM Ht Hfree Hap Hc Hcl Huniq Hdom mask Hmask)
      as (w' & Hst' & Hw & Ew & Sw & Hwnn).
    rewrite Hst in Hst'. injection Hst' as <-.
    pose proof (stationary_zero_on_transient n M c u Hg Hu Hunn Su Eu) as Hzero.
    eapply (mk_unique n M c); eassumption.
Qed.

(* ------------------------------------------------------------------ *)
(* 6. the guard is satisfiable: closed class {0,1}, transient state 2   *)
(* ------------------------------------------------------------------ *)
Lemma wf_of_bool n m M : length M = n -> forallb (fun r => Nat.eqb (length r) m) M = true -> wf n m M.
Proof.
  intros Hl H. split; [exact Hl|]. intros r Hr. rewrite forallb_forall in H.
  apply Nat.eqb_eq. apply H. exact Hr.
Qed.

Lemma nonneg_of_bool M : nonneg M = true -> entries_nonneg M.
Proof.
  unfold nonneg, all_entries. intros H r x Hr Hx. rewrite forallb_forall in H.
  specialize (H r Hr). rewrite forallb_forall in H. specialize (H x Hx).
  unfold Qc_leb in H. apply Qle_bool_iff in H. exact H.
Qed.

Lemma rows_of_bool M : forallb (fun r => Qc_eqb (qsum r) 1) M = true -> rows_sum_one M.
Proof.
  intros H r Hr. rewrite forallb_forall in H. apply Qc_eqb_eq. apply H. exact Hr.
Qed.

Lemma ptf_of_bool n M :
  forallb (fun i => forallb (fun j => Qc_eqb (mget (mpow M (wexp n)) i j) 0
                                      || Qc_ltb atol8 (mget (mpow M (wexp n)) i j))
                            (seq 0 n)) (seq 0 n) = true ->
  power_threshold_free n M.
Proof.
  intros H i j Hi Hj. rewrite forallb_forall in H.
  assert (Hi' : In i (seq 0 n)) by (apply in_seq; lia).
  assert (Hj' : In j (seq 0 n)) by (apply in_seq; lia).
  specialize (H i Hi'). rewrite forallb_forall in H. specialize (H j Hj').
  apply orb_true_iff in H. destruct H as [H|H].
  - left. apply Qc_eqb_eq. exact H.
  - right. apply Qc_ltb_iff. exact H.
Qed.

Lemma aperiodic_self_loop n G i : bwf n G -> i < n -> bget G i i = true -> aperiodic_at G i.
Proof.
  intros HG Hi Hb d Hd. apply Nat.divide_1_r. apply (Hd 1); [lia|].
  apply (walk_S n G HG). exists i. split; [exact Hi|]. split; [exact Hb|].
  apply (walk_refl n G HG). exact Hi.
Qed.

Lemma lt3_cases (P : nat -> Prop) : P 0 -> P 1 -> P 2 -> forall i, i < 3 -> P i.
Proof. intros H0 H1 H2 i Hi. destruct i as [|[|[|i]]]; [assumption|assumption|assumption|lia]. Qed.

Definition Tex : mat := row_normalize (mat_of_Z [[1; 1; 0]; [1; 3; 0]; [1; 1; 2]]%Z).

Example guard_example : guard 3 Tex 0.
Proof.
  assert (HM : wf 3 3 Tex) by (apply wf_of_bool; vm_compute; reflexivity).
  assert (HG : bwf 3 (supp Tex)) by (apply bwf_supp; exact HM).
  split; [lia|]. split; [exact HM|].
  split; [apply nonneg_of_bool; vm_compute; reflexivity|].
  split; [apply rows_of_bool; vm_compute; reflexivity|].
  split; [vm_compute; reflexivity|].
  split; [apply ptf_of_bool; vm_compute; reflexivity|].
  split.
  { apply (lt3_cases (fun i => cyclic (supp Tex) i -> aperiodic_at (supp Tex) i)); intros _;
      (apply (aperiodic_self_loop 3 _ _ HG); [lia|vm_compute; reflexivity]). }
  split; [lia|].
  split; [vm_compute; reflexivity|].
  split.
  - apply (lt3_cases (fun j => class_closed (supp Tex) (reach (supp Tex)) j = true -> comm (supp Tex) 0 j)).
    + intros _. apply (comm_refl 3); [exact HG|lia].
    + intros _. split; apply (reachable_edge 3 _ _ _ HG); try lia; vm_compute; reflexivity.
    + intros H. vm_compute in H. discriminate H.
  - apply (lt3_cases (fun j => class_closed (supp Tex) (reach (supp Tex)) j = false ->
                               csize (supp Tex) j < csize (supp Tex) 0)).
    + intros H. vm_compute in H. discriminate H.
    + intros H. vm_compute in H. discriminate H.
    + intros _. assert (E2 : csize (supp Tex) 2 = 1) by (vm_compute; reflexivity).
      assert (E0 : csize (supp Tex) 0 = 2) by (vm_compute; reflexivity). rewrite E2, E0. lia.
Qed.

(* the example runs through the non-ergodic branch *)
Example guard_example_nonergodic : is_ergodic atol8 Tex = false.
Proof. vm_compute. reflexivity. Qed.

Print Assumptions peq_closed_found.
Print Assumptions stationary_zero_on_transient.
Print Assumptions peq_closed_unique.
Print Assumptions guard_example.
