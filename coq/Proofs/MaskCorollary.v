(* C14, mask clause in the wording of the property: when the largest closed class is larger than
   every class that is not closed, the mask marks exactly the states of the largest closed class(es) *)
From Coq Require Import List ZArith Arith Bool Lia QArith Qcanon.
From MsmV Require Import Lib.Result Lib.PyList Lib.QMat Model.Ergodic Proofs.QMatFacts
  Proofs.ErgodicFacts Proofs.Wielandt Proofs.ErgodicFull Proofs.MaskFacts.
Import ListNotations.
Local Open Scope nat_scope.

Corollary mask_largest_closed n M mask c : 0 < n -> wf n n M -> entries_nonneg M -> rows_sum_one M ->
  is_tmat atol8 M = true -> power_threshold_free n M ->
  (forall i, i < n -> cyclic (supp M) i -> aperiodic_at (supp M) i) ->
  ergodic_mask atol8 M = Ok mask ->
  let G := supp M in
  c < n -> class_closed G (reach G) c = true ->
  (forall j, j < n -> class_closed G (reach G) j = true -> csize G j <= csize G c) ->
  (forall j, j < n -> class_closed G (reach G) j = false -> csize G j < csize G c) ->
  forall i, i < n ->
    (nth i mask false = true <-> class_closed G (reach G) i = true /\ csize G i = csize G c).
Proof.
  intros Hn HM NM SM Ht Hfree Hap Hmask G Hc Hcc Hle Hlt i Hi.
  destruct (ergodic_mask_classes n M mask Hn HM NM SM Ht Hfree Hap Hmask) as [_ Hspec].
  fold G in Hspec. rewrite (Hspec i Hi). split.
  - intros Hall. pose proof (Hall c Hc) as Hci.
    destruct (class_closed G (reach G) i) eqn:E.
    + split; [reflexivity|]. pose proof (Hle i Hi E). lia.
    + pose proof (Hlt i Hi E). lia.
  - intros [Hcl Heq] j Hj. rewrite Heq.
    destruct (class_closed G (reach G) j) eqn:E.
    + apply Hle; assumption.
    + pose proof (Hlt j Hj E). lia.
Qed.
Print Assumptions mask_largest_closed.
