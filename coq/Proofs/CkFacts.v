(* C09: time grid of the model curves *)
From Coq Require Import List ZArith Arith Bool Lia.
From MsmV Require Import Model.CkTest.
Import ListNotations.
Local Open Scope nat_scope.

Lemma calc_times_length lag tmax : length (calc_times lag tmax) = tmax / lag.
Proof. unfold calc_times. now rewrite map_length, seq_length. Qed.

Lemma calc_times_nth lag tmax i : i < tmax / lag -> nth i (calc_times lag tmax) 0 = lag * (i + 1).
Proof.
  intros H. unfold calc_times.
  rewrite (nth_indep _ 0 ((fun k => lag * k) 0)) by (rewrite map_length, seq_length; exact H).
  rewrite (map_nth (fun k => lag * k)), seq_nth by exact H. f_equal. lia.
Qed.

(* every model time is k * lag with 1 <= k and k * lag <= tmax, and all such k occur *)
Lemma calc_times_spec lag tmax t : 1 <= lag ->
  (In t (calc_times lag tmax) <-> exists k, 1 <= k /\ t = lag * k /\ t <= tmax).
Proof.
  intros Hl. unfold calc_times. rewrite in_map_iff. split.
  - intros (k & <- & Hk). apply in_seq in Hk. exists k. repeat split; try lia.
    assert (k <= tmax / lag) by lia.
    pose proof (Nat.mul_div_le tmax lag ltac:(lia)) as Hd.
    apply Nat.le_trans with (lag * (tmax / lag)); [apply Nat.mul_le_mono_l; lia|exact Hd].
  - intros (k & Hk & -> & Hle). exists k. split; [reflexivity|]. apply in_seq. split; [lia|].
    assert (k <= tmax / lag); [|lia].
    apply Nat.div_le_lower_bound; lia.
Qed.

Lemma calc_times_increasing lag tmax i j : 1 <= lag -> i < j -> j < tmax / lag ->
  nth i (calc_times lag tmax) 0 < nth j (calc_times lag tmax) 0.
Proof.
  intros Hl Hij Hj. rewrite !calc_times_nth by lia. apply Nat.mul_lt_mono_pos_l; lia.
Qed.

(* lags above tmax give an empty curve *)
Lemma calc_times_empty lag tmax : tmax < lag -> calc_times lag tmax = [].
Proof. intros H. unfold calc_times. now rewrite Nat.div_small by exact H. Qed.
