(* C15: shift_data / rename_by_index / rename_by_population / unique *)
From Coq Require Import List ZArith Arith Bool Lia.
From MsmV Require Import Lib.Result Lib.PyList Lib.Sorting Model.Labels.
Import ListNotations.
Local Open Scope Z_scope.

(* ---------- min / max ---------- *)
Lemma Zmin_list_le d l : Zmin_list d l <= d /\ (forall x, In x l -> Zmin_list d l <= x).
Proof.
  unfold Zmin_list. revert d; induction l as [|y ys IH]; intros d; simpl.
  - split; [lia|intros x []].
  - destruct (IH (Z.min d y)) as [H1 H2]. split; [lia|].
    intros x [->|Hx]; [lia|apply H2; exact Hx].
Qed.
Lemma Zmax_list_ge d l : d <= Zmax_list d l /\ (forall x, In x l -> x <= Zmax_list d l).
Proof.
  unfold Zmax_list. revert d; induction l as [|y ys IH]; intros d; simpl.
  - split; [lia|intros x []].
  - destruct (IH (Z.max d y)) as [H1 H2]. split; [lia|].
    intros x [->|Hx]; [lia|apply H2; exact Hx].
Qed.
Lemma Zmin_list_In d l : Zmin_list d l = d \/ In (Zmin_list d l) l.
Proof.
  unfold Zmin_list. revert d; induction l as [|y ys IH]; intros d; simpl; [left; reflexivity|].
  destruct (IH (Z.min d y)) as [H|H]; [|right; right; exact H].
  rewrite H. destruct (Z.min_spec d y) as [[_ ->]|[_ ->]]; [left; reflexivity|right; left; reflexivity].
Qed.
Lemma Zmax_list_In d l : Zmax_list d l = d \/ In (Zmax_list d l) l.
Proof.
  unfold Zmax_list. revert d; induction l as [|y ys IH]; intros d; simpl; [left; reflexivity|].
  destruct (IH (Z.max d y)) as [H|H]; [|right; right; exact H].
  rewrite H. destruct (Z.max_spec d y) as [[_ ->]|[_ ->]]; [right; left; reflexivity|left; reflexivity].
Qed.
Lemma min_of_spec l m : min_of l = Some m -> In m l /\ forall x, In x l -> m <= x.
Proof.
  destruct l as [|a t]; simpl; [discriminate|]. intros H; injection H as <-.
  destruct (Zmin_list_le a t) as [H1 H2]. split.
  - destruct (Zmin_list_In a t) as [->|H]; [left; reflexivity|right; exact H].
  - intros x [<-|Hx]; [exact H1|apply H2; exact Hx].
Qed.
Lemma max_of_spec l m : max_of l = Some m -> In m l /\ forall x, In x l -> x <= m.
Proof.
  destruct l as [|a t]; simpl; [discriminate|]. intros H; injection H as <-.
  destruct (Zmax_list_ge a t) as [H1 H2]. split.
  - destruct (Zmax_list_In a t) as [->|H]; [left; reflexivity|right; exact H].
  - intros x [<-|Hx]; [exact H1|apply H2; exact Hx].
Qed.
Lemma min_of_some l : l <> [] -> exists m, min_of l = Some m.
Proof. destruct l; [congruence|eexists; reflexivity]. Qed.
Lemma max_of_some l : l <> [] -> exists m, max_of l = Some m.
Proof. destruct l; [congruence|eexists; reflexivity]. Qed.

(* ---------- lookup table ---------- *)
Lemma index_of_None x l : index_of x l = None <-> ~ In x l.
Proof.
  induction l as [|y ys IH]; simpl; [tauto|].
  destruct (Z.eqb_spec x y) as [->|Hne].
  - split; [discriminate|intros H; exfalso; apply H; left; reflexivity].
  - destruct (index_of x ys) as [n|].
    + split; [discriminate|]. intros H. exfalso. destruct IH as [_ IH2].
      apply H. right. destruct (in_dec Z.eq_dec x ys) as [i|ni]; [exact i|].
      specialize (IH2 ni). discriminate.
    + split; [|reflexivity]. intros _ [H|H]; [congruence|]. destruct IH as [IH1 _]. exact (IH1 eq_refl H).
Qed.

Lemma lookup_last_gen (ks vs : list Z) (i acc : Z) :
  NoDup ks -> length ks = length vs ->
  fold_left (fun a kv => if fst kv =? i then snd kv else a) (combine ks vs) acc
  = match index_of i ks with Some k => nth k vs acc | None => acc end.
Proof.
  revert vs acc; induction ks as [|k0 ks IH]; intros vs acc Hnd Hlen; simpl; [reflexivity|].
  destruct vs as [|v0 vs]; [discriminate|]. simpl. inversion Hnd as [|? ? Hnin Hnd']; subst.
  rewrite IH by (simpl in Hlen; auto; lia).
  rewrite (Z.eqb_sym k0 i).
  destruct (Z.eqb_spec i k0) as [->|Hne].
  - assert (E : index_of k0 ks = None) by (apply index_of_None; exact Hnin). now rewrite E.
  - destruct (index_of i ks) as [k|] eqn:E; [|reflexivity].
    destruct (index_of_Some _ _ _ E) as [_ Hk].
    apply nth_indep. simpl in Hlen. lia.
Qed.

Lemma index_of_map_shift off x l :
  index_of (x - off) (map (fun v => v - off) l) = index_of x l.
Proof.
  induction l as [|y ys IH]; simpl; [reflexivity|].
  destruct (Z.eqb_spec (x - off) (y - off)) as [E|E]; destruct (Z.eqb_spec x y) as [E'|E']; try lia; try reflexivity.
  now rewrite IH.
Qed.

Lemma NoDup_map_shift off l : NoDup l -> NoDup (map (fun v => v - off) l).
Proof.
  induction l as [|y ys IH]; intros H; simpl; [constructor|]. inversion H as [|? ? Hn Hd]; subst.
  constructor; [|apply IH; exact Hd]. intros Hin. apply in_map_iff in Hin as (z & Hz & Hin).
  assert (z = y) by lia. subst. contradiction.
Qed.

Lemma mapM_norm_index len l :
  (forall x, In x l -> 0 <= x < len) -> mapM (norm_index len) l = Ok l.
Proof.
  induction l as [|y ys IH]; intros H; simpl; [reflexivity|].
  assert (Hy : 0 <= y < len) by (apply H; left; reflexivity).
  unfold norm_index at 1.
  destruct (Z.leb_spec 0 y); [|lia]. destruct (Z.ltb_spec y len); [|lia]. simpl.
  rewrite IH; [reflexivity|]. intros x Hx. apply H. right. exact Hx.
Qed.

Lemma wrap32_small z : 0 <= z < 2147483648 -> wrap32 z = z.
Proof. intros H. unfold wrap32. rewrite Z.mod_small by lia. lia. Qed.

Definition small (v : Z) : Prop := -1073741824 <= v < 1073741824.

(* ---------- the central statement ---------- *)
Lemma shift_flat_spec (data old new : list Z) :
  data <> [] -> new <> [] -> NoDup old -> length old = length new ->
  (forall o, In o old -> exists lo hi, In lo data /\ In hi data /\ lo <= o <= hi) ->
  (forall v, In v data \/ In v new -> small v) ->
  shift_flat data old new = Ok (map (subst old new) data).
Proof.
  intros Hd Hn Hnd Hlen Hrange Hsmall. unfold shift_flat.
  destruct (min_of_some _ Hd) as [md Emd]. destruct (min_of_some _ Hn) as [mn Emn].
  destruct (max_of_some _ Hd) as [mx Emx]. rewrite Emd, Emn, Emx.
  destruct (min_of_spec _ _ Emd) as [Imd Lmd]. destruct (min_of_spec _ _ Emn) as [Imn Lmn].
  destruct (max_of_spec _ _ Emx) as [Imx Lmx].
  apply Nat.eqb_eq in Hlen as Hlen'. rewrite Hlen'. cbn [negb].
  set (off := Z.min md mn).
  rewrite mapM_norm_index.
  2:{ intros x Hx. apply in_map_iff in Hx as (o & <- & Ho).
      destruct (Hrange o Ho) as (lo & hi & Hlo & Hhi & Hb).
      specialize (Lmd _ Hlo). specialize (Lmx _ Hhi). subst off. lia. }
  cbn [bind]. f_equal. apply map_ext_in. intros v Hv.
  unfold lookup_last. rewrite lookup_last_gen.
  2:{ apply NoDup_map_shift. exact Hnd. }
  2:{ now rewrite !map_length. }
  rewrite index_of_map_shift. unfold subst.
  assert (Sv : small v) by (apply Hsmall; left; exact Hv).
  assert (Smd : small md) by (apply Hsmall; left; exact Imd).
  assert (Smn : small mn) by (apply Hsmall; right; exact Imn).
  destruct (index_of v old) as [k|] eqn:E.
  - destruct (index_of_Some _ _ _ E) as [_ Hk].
    pose proof (map_nth (fun w => w - off) new v k) as Hm. cbv beta in Hm. rewrite Hm.
    assert (Hin : In (nth k new v) new) by (apply nth_In; lia).
    assert (Sn : small (nth k new v)) by (apply Hsmall; right; exact Hin).
    specialize (Lmn _ Hin). rewrite wrap32_small; [lia|]. unfold small in *. subst off. lia.
  - specialize (Lmd _ Hv). rewrite wrap32_small; [lia|]. unfold small in *. subst off. lia.
Qed.

Lemma subst_untouched old new x : ~ In x old -> subst old new x = x.
Proof. intros H. unfold subst. apply index_of_None in H. now rewrite H. Qed.

Lemma subst_hit old new k d :
  NoDup old -> length old = length new -> (k < length old)%nat ->
  subst old new (nth k old 0) = nth k new d.
Proof.
  intros Hnd Hlen Hk. unfold subst. rewrite index_of_nth_NoDup by assumption.
  apply nth_indep. lia.
Qed.

(* structure: a list of k arrays comes back as k arrays of the same lengths *)
Lemma shift_flat_length data old new r : shift_flat data old new = Ok r -> length r = length data.
Proof.
  unfold shift_flat. destruct (min_of data), (min_of new), (max_of data); try discriminate.
  destruct (negb _); [discriminate|].
  destruct (mapM _ _); cbn [bind]; [|discriminate]. intros H; injection H as <-. now rewrite map_length.
Qed.

Lemma shift_nested_structure ls old new r :
  shift_nested ls old new = Ok r ->
  map (@length Z) r = map (@length Z) ls /\ exists flat, shift_flat (concat ls) old new = Ok flat /\ concat r = flat.
Proof.
  unfold shift_nested. destruct ls as [|l0 ls']; [discriminate|].
  set (ls := l0 :: ls'). destruct (shift_flat (concat ls) old new) as [flat|] eqn:E; cbn [rmap]; [|discriminate].
  intros H; injection H as <-. apply shift_flat_length in E as Hl.
  assert (Hsum : length flat = list_sum (map (@length Z) ls)).
  { rewrite Hl. clear. induction ls as [|a t IH]; simpl; [reflexivity|]. rewrite app_length, IH. reflexivity. }
  split; [exact (split_lens_lengths (map (@length Z) ls) flat Hsum)|]. exists flat.
  split; [reflexivity|exact (split_lens_concat (map (@length Z) ls) flat Hsum)].
Qed.

Lemma shift_nested_spec ls old new :
  concat ls <> [] -> new <> [] -> NoDup old -> length old = length new ->
  (forall o, In o old -> exists lo hi, In lo (concat ls) /\ In hi (concat ls) /\ lo <= o <= hi) ->
  (forall v, In v (concat ls) \/ In v new -> small v) ->
  shift_nested ls old new = Ok (map (map (subst old new)) ls).
Proof.
  intros Hd Hn Hnd Hlen Hr Hs. unfold shift_nested.
  destruct ls as [|l0 ls']; [exfalso; apply Hd; reflexivity|]. set (ls := l0 :: ls') in *.
  rewrite shift_flat_spec by assumption. cbn [rmap]. f_equal.
  rewrite concat_map.
  replace (map (@length Z) ls) with (map (@length Z) (map (map (subst old new)) ls)).
  - apply split_lens_of_concat.
  - rewrite map_map. apply map_ext. intros a. apply map_length.
Qed.

(* ---------- rename_by_index ---------- *)
Lemma arange_from_length z n : length (arange_from z n) = n.
Proof. revert z; induction n as [|n IH]; intros z; simpl; [reflexivity|now rewrite IH]. Qed.
Lemma arange_from_nth z n k d : (k < n)%nat -> nth k (arange_from z n) d = z + Z.of_nat k.
Proof.
  revert z k; induction n as [|n IH]; intros z k Hk; [lia|]. destruct k as [|k]; simpl; [lia|].
  rewrite IH by lia. lia.
Qed.
Lemma arange_from_In z n x : In x (arange_from z n) -> z <= x < z + Z.of_nat n.
Proof.
  revert z; induction n as [|n IH]; intros z; simpl; [tauto|]. intros [<-|H]; [lia|].
  apply IH in H. lia.
Qed.

Lemma subst_rank states n0 x :
  In x states -> subst states (arange_from n0 (length states)) x = n0 + Z.of_nat (rank states x).
Proof.
  intros Hin. unfold subst, rank. destruct (index_of_In _ _ Hin) as [k Hk]. rewrite Hk.
  destruct (index_of_Some _ _ _ Hk) as [_ Hlt]. apply arange_from_nth. exact Hlt.
Qed.

Lemma ssorted_length_bound (st : list Z) : ssorted st -> forall lo hi,
  (forall x, In x st -> lo <= x < hi) -> Z.of_nat (length st) <= Z.max 0 (hi - lo).
Proof.
  induction st as [|a t IH]; intros Hs lo hi Hb; [simpl; lia|].
  destruct (ssorted_inv _ _ Hs) as [Hs' Hlb].
  assert (Ha : lo <= a < hi) by (apply Hb; left; reflexivity).
  specialize (IH Hs' (a + 1) hi).
  assert (H1 : forall x, In x t -> a + 1 <= x < hi).
  { intros x Hx. specialize (Hlb x Hx). assert (lo <= x < hi) by (apply Hb; right; exact Hx). lia. }
  specialize (IH H1). change (length (a :: t)) with (S (length t)). lia.
Qed.

Definition small29 (v : Z) : Prop := -536870912 <= v < 536870912.

Lemma rename_by_index_spec ls :
  concat ls <> [] -> (forall v, In v (concat ls) -> small29 v) ->
  rename_by_index ls =
    Ok (map (map (fun x => Z.of_nat (rank (unique ls) x))) ls, unique ls).
Proof.
  intros Hne Hsm. unfold rename_by_index.
  assert (Hst : forall x, In x (unique ls) <-> In x (concat ls)) by (intros x; apply usort_In).
  assert (Hnd : NoDup (unique ls)) by (apply ssorted_NoDup, usort_sorted).
  assert (Hn : Z.of_nat (length (unique ls)) <= 1073741824).
  { pose proof (ssorted_length_bound (unique ls) (usort_sorted _) (-536870912) 536870912) as G.
    assert (forall x, In x (unique ls) -> -536870912 <= x < 536870912) as G0.
    { intros x Hx. apply Hst in Hx. apply Hsm in Hx. exact Hx. }
    specialize (G G0). lia. }
  rewrite shift_nested_spec; try assumption.
  - cbn [bind]. f_equal. f_equal. apply map_ext_in. intros l Hl. apply map_ext_in. intros x Hx.
    unfold arange. rewrite subst_rank; [lia|]. apply Hst. apply in_concat. exists l. split; assumption.
  - unfold arange. destruct (length (unique ls)) eqn:E; [|simpl; discriminate].
    destruct (concat ls) as [|a t] eqn:Ec; [congruence|].
    assert (In a (unique ls)) by (apply Hst; left; reflexivity).
    destruct (unique ls); [contradiction|discriminate].
  - unfold arange. now rewrite arange_from_length.
  - intros o Ho. apply Hst in Ho. exists o, o. repeat split; try assumption; lia.
  - intros v [Hv|Hv].
    + apply Hsm in Hv. unfold small, small29 in *. lia.
    + unfold arange in Hv. apply arange_from_In in Hv. unfold small. lia.
Qed.

(* indexing the returned permutation with the renamed data reproduces the input *)
Lemma rename_index_roundtrip ls x :
  In x (concat ls) -> nth (rank (unique ls) x) (unique ls) 0 = x.
Proof. intros H. apply rank_nth. apply usort_In. exact H. Qed.

(* ---------- unique ---------- *)
Lemma unique_spec ls :
  ssorted (unique ls) /\ (forall x, In x (unique ls) <-> exists l, In l ls /\ In x l).
Proof.
  split; [apply usort_sorted|]. intros x. unfold unique. rewrite usort_In, in_concat.
  split; intros (l & H1 & H2); exists l; tauto.
Qed.

Lemma unique_determined ls st :
  ssorted st -> (forall x, In x st <-> In x (concat ls)) -> st = unique ls.
Proof.
  intros Hs Hin. apply ssorted_unique; [exact Hs|apply usort_sorted|].
  intros x. rewrite Hin. symmetry. apply usort_In.
Qed.

(* ---------- soundness of the rename_by_population oracle ---------- *)
Lemma nonincreasing_spec l : nonincreasing l = true ->
  forall i, (S i < length l)%nat -> (nth (S i) l O <= nth i l O)%nat.
Proof.
  induction l as [|a t IH]; intros H i Hi; [simpl in Hi; lia|].
  destruct t as [|b t']; [simpl in Hi; lia|].
  cbn [nonincreasing] in H. apply andb_true_iff in H as [H1 H2]. apply Nat.leb_le in H1.
  destruct i as [|i]; [exact H1|]. change (nth (S (S i)) (a :: b :: t') O) with (nth (S i) (b :: t') O).
  change (nth (S i) (a :: b :: t') O) with (nth i (b :: t') O). apply IH; [exact H2|simpl in *; lia].
Qed.

Lemma rename_pop_ok_sound ls out perm :
  rename_pop_ok ls out perm = true ->
  (* perm lists exactly the distinct labels, once each *)
  (forall x, In x perm <-> In x (concat ls)) /\ NoDup perm /\
  (* populations along perm are non-increasing *)
  (forall i, (S i < length perm)%nat ->
     (count_Z (nth (S i) perm 0%Z) (concat ls) <= count_Z (nth i perm 0%Z) (concat ls))%nat) /\
  (* same container structure *)
  map (@length Z) out = map (@length Z) ls /\
  (* renamed labels are 1..n and perm[renamed - 1] reproduces the input *)
  (forall k, (k < length (concat ls))%nat ->
     1 <= nth k (concat out) 0 <= Z.of_nat (length perm) /\
     nth (Z.to_nat (nth k (concat out) 0 - 1)) perm 0 = nth k (concat ls) 0).
Proof.
  unfold rename_pop_ok. intros H.
  apply andb_true_iff in H as [H H5]. apply andb_true_iff in H as [H H4].
  apply andb_true_iff in H as [H H3]. apply andb_true_iff in H as [H1 H2].
  apply list_eqb_eq in H1. apply Nat.eqb_eq in H2. apply list_eqb_eq in H4. apply list_eqb_eq in H5.
  assert (Hset : forall x, In x perm <-> In x (concat ls)).
  { intros x. rewrite <- (usort_In x perm), <- (usort_In x (concat ls)), H1. tauto. }
  assert (Hnd : NoDup perm).
  { apply (NoDup_incl_NoDup (l := usort perm)).
    - apply ssorted_NoDup, usort_sorted.
    - rewrite H1. lia.
    - intros x Hx. exact (proj1 (usort_In _ _) Hx). }
  split; [exact Hset|]. split; [exact Hnd|]. split.
  { intros i Hi. pose proof (nonincreasing_spec _ H3 i) as G. rewrite map_length in G. specialize (G Hi).
    rewrite !(nth_indep _ O (count_Z 0 (concat ls))) in G by (rewrite map_length; lia).
    rewrite !(map_nth (fun s => count_Z s (concat ls))) in G. exact G. }
  split.
  { clear -H5. revert out H5. induction ls as [|a t IH]; intros [|b u] H; simpl in *; try discriminate; [reflexivity|].
    injection H as Hab Ht. apply Nat2Z.inj in Hab. f_equal; [exact Hab|apply IH; exact Ht]. }
  intros k Hk. rewrite H4.
  rewrite (nth_indep _ 0 ((fun x => Z.of_nat (S (rank perm x))) 0)) by (rewrite map_length; exact Hk).
  rewrite (map_nth (fun x => Z.of_nat (S (rank perm x)))).
  set (x := nth k (concat ls) 0).
  assert (Hx : In x perm) by (apply Hset; apply nth_In; exact Hk).
  destruct (rank_nth perm x Hx) as [G1 G2]. split; [lia|].
  replace (Z.to_nat (Z.of_nat (S (rank perm x)) - 1)) with (rank perm x) by lia. exact G1.
Qed.
