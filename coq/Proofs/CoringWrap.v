(* C05: the public wrapper md.dynamical_coring *)
From Coq Require Import List ZArith Arith Bool Lia.
From MsmV Require Import Lib.Result Lib.PyList Lib.Sorting Model.Labels Model.StateTraj Model.Coring.
From MsmV Require Import Proofs.LabelsFacts Proofs.MsmFacts Proofs.StateTrajFacts Proofs.CoringFacts.
Import ListNotations.
Local Open Scope nat_scope.

Lemma dynamical_coring_wrapper ts lag iter :
  concat ts <> [] -> (forall v, In v (concat ts) -> small29 v) ->
  dynamical_coring ts lag iter =
    if (lag <=? 0)%Z then Err ValueError
    else if (lag =? 1)%Z then Ok ts
    else coring_kernel ts (Z.to_nat lag) iter.
Proof.
  intros Hne Hsm. unfold dynamical_coring.
  rewrite mk_spec_correct by assumption. cbn [bind].
  rewrite trajs_mk_spec by assumption. cbn [bind]. reflexivity.
Qed.

(* reference schedule *)
Definition coring_ref (ts : list (list Z)) (lag : nat) (iter : bool) : res (list (list Z)) :=
  fold_left (fun r w => bind r (stage_ref w)) (if iter then seq 2 (lag - 1) else [lag]) (Ok ts).

Lemma fold_stage_ext (f g : nat -> list (list Z) -> res (list (list Z))) l r :
  (forall w x, f w x = g w x) ->
  fold_left (fun r w => bind r (f w)) l r = fold_left (fun r w => bind r (g w)) l r.
Proof.
  intros H. revert r. induction l as [|a l IH]; intros r; simpl; [reflexivity|].
  rewrite IH. f_equal. destruct r; simpl; [apply H|reflexivity].
Qed.

Lemma coring_kernel_eq_ref ts lag iter : coring_kernel ts lag iter = coring_ref ts lag iter.
Proof.
  unfold coring_ref. destruct iter.
  - rewrite coring_kernel_iter_eq. apply fold_stage_ext. intros w x. apply core_stage_ref.
  - unfold coring_kernel. apply fold_stage_ext. intros w x. apply core_stage_ref.
Qed.
