(* Algebra of the executable rational matrices of Lib/QMat.v *)
From Coq Require Import List ZArith Arith Bool Lia QArith Qcanon.
From MsmV Require Import Lib.QMat.
Import ListNotations.
Local Open Scope nat_scope.

(* rectangular n x m matrix *)
Definition wf (n m : nat) (M : mat) : Prop := length M = n /\ forall r, In r M -> length r = m.

Lemma mat_ext n m A B : wf n m A -> wf n m B ->
  (forall i j, i < n -> j < m -> mget A i j = mget B i j) -> A = B.
Proof. TODO. Qed.

Lemma wf_identity n : wf n n (identity n).
Proof. TODO. Qed.
Lemma mget_identity n i j : i < n -> j < n -> mget (identity n) i j = (if Nat.eqb i j then 1 else 0)%Qc.
Proof. TODO. Qed.

Lemma wf_transpose n m M : 0 < n -> wf n m M -> wf m n (transpose M).
Proof. TODO. Qed.
Lemma mget_transpose n m M i j : 0 < n -> wf n m M -> i < m -> j < n -> mget (transpose M) i j = mget M j i.
Proof. TODO. Qed.

Lemma wf_mmul n p m A B : 0 < p -> wf n p A -> wf p m B -> wf n m (mmul A B).
Proof. TODO. Qed.
(* entry of a product = sum over the inner index *)
Lemma mget_mmul n p m A B i j : 0 < p -> wf n p A -> wf p m B -> i < n -> j < m ->
  mget (mmul A B) i j = qsum (map (fun k => (mget A i k * mget B k j)%Qc) (seq 0 p)).
Proof. TODO. Qed.

Lemma mmul_assoc n p q m A B C : 0 < p -> 0 < q -> wf n p A -> wf p q B -> wf q m C ->
  mmul (mmul A B) C = mmul A (mmul B C).
Proof. TODO. Qed.
Lemma mmul_identity_l n m A : 0 < n -> wf n m A -> mmul (identity n) A = A.
Proof. TODO. Qed.
Lemma mmul_identity_r n m A : 0 < m -> wf n m A -> mmul A (identity m) = A.
Proof. TODO. Qed.

Lemma wf_mpow n M k : 0 < n -> wf n n M -> wf n n (mpow M k).
Proof. TODO. Qed.
Lemma mpow_add n M a b : 0 < n -> wf n n M -> mpow M (a + b) = mmul (mpow M a) (mpow M b).
Proof. TODO. Qed.
(* square-and-multiply computes the same power *)
Lemma mpow_fast_eq n M k : 0 < n -> wf n n M -> mpow_fast M k = mpow M k.
Proof. TODO. Qed.
(* the integer-scaled power (common denominator, no normalisation inside) computes the same power *)
Lemma mpow_scaled_eq n M k : 0 < n -> wf n n M -> mpow_scaled M k = mpow M k.
Proof. TODO. Qed.

(* products with stochastic factors *)
Definition rows_sum_one (M : mat) : Prop := forall r, In r M -> qsum r = 1%Qc.
Definition entries_nonneg (M : mat) : Prop := forall r x, In r M -> In x r -> (0 <= x)%Qc.

Lemma rows_sum_one_mmul n p m A B : 0 < p -> wf n p A -> wf p m B ->
  rows_sum_one A -> rows_sum_one B -> rows_sum_one (mmul A B).
Proof. TODO. Qed.
Lemma entries_nonneg_mmul n p m A B : 0 < p -> wf n p A -> wf p m B ->
  entries_nonneg A -> entries_nonneg B -> entries_nonneg (mmul A B).
Proof. TODO. Qed.
(* powers of a row-stochastic matrix are row-stochastic with entries in [0,1] *)
Lemma mpow_stochastic n M k : 0 < n -> wf n n M -> rows_sum_one M -> entries_nonneg M ->
  rows_sum_one (mpow M k) /\ entries_nonneg (mpow M k) /\
  (forall i j, i < n -> j < n -> (mget (mpow M k) i j <= 1)%Qc).
Proof. TODO. Qed.
