(* Algebra of the executable rational matrices of Lib/QMat.v *)
From Coq Require Import List ZArith Arith Bool Lia QArith Qcanon.
From MsmV Require Import Lib.QMat.
Import ListNotations.
Local Open Scope nat_scope.

(* ------------------------------------------------------------------ *)
(* helper lemmas: list plumbing and finite sums                        *)
(* ------------------------------------------------------------------ *)
Local Open Scope Qc_scope.

Lemma nth_map_seq {A} (f : nat -> A) (n i : nat) (d : A) :
  (i < n)%nat -> nth i (map f (seq 0 n)) d = f i.
Proof.
  intros Hi.
  rewrite nth_indep with (d' := f 0%nat) by (rewrite map_length, seq_length; lia).
  rewrite map_nth, seq_nth by lia. reflexivity.
Qed.

Lemma nth_map_lt {A B} (f : A -> B) (l : list A) (i : nat) (d : B) (d' : A) :
  (i < length l)%nat -> nth i (map f l) d = f (nth i l d').
Proof.
  intros Hi.
  rewrite nth_indep with (d' := f d') by (rewrite map_length; lia).
  apply map_nth.
Qed.

Lemma qsum_nil : qsum [] = 0.
Proof. reflexivity. Qed.

Lemma qsum_cons x l : qsum (x :: l) = x + qsum l.
Proof. reflexivity. Qed.

Lemma qsum_app l1 l2 : qsum (l1 ++ l2) = qsum l1 + qsum l2.
Proof.
  induction l1 as [|x l1 IH]; cbn [app].
  - rewrite qsum_nil. ring.
  - rewrite !qsum_cons, IH. ring.
Qed.

Lemma qsum_map_ext {A} (f g : A -> Qc) l :
  (forall i, In i l -> f i = g i) -> qsum (map f l) = qsum (map g l).
Proof. intros H. f_equal. apply map_ext_in, H. Qed.

Lemma qsum_map_plus {A} (f g : A -> Qc) l :
  qsum (map (fun i => f i + g i) l) = qsum (map f l) + qsum (map g l).
Proof.
  induction l as [|x l IH]; cbn [map].
  - rewrite qsum_nil. ring.
  - rewrite !qsum_cons, IH. ring.
Qed.

Lemma qsum_map_zero {A} (l : list A) : qsum (map (fun _ => 0) l) = 0.
Proof.
  induction l as [|x l IH]; cbn [map]; [reflexivity|].
  rewrite qsum_cons, IH. ring.
Qed.

Lemma qsum_map_scale_l {A} c (f : A -> Qc) l :
  qsum (map (fun i => c * f i) l) = c * qsum (map f l).
Proof.
  induction l as [|x l IH]; cbn [map].
  - rewrite qsum_nil. ring.
  - rewrite !qsum_cons, IH. ring.
Qed.

Lemma qsum_map_scale_r {A} c (f : A -> Qc) l :
  qsum (map (fun i => f i * c) l) = qsum (map f l) * c.
Proof.
  induction l as [|x l IH]; cbn [map].
  - rewrite qsum_nil. ring.
  - rewrite !qsum_cons, IH. ring.
Qed.

Lemma qsum_exchange {A B} (f : A -> B -> Qc) (l1 : list A) (l2 : list B) :
  qsum (map (fun i => qsum (map (fun j => f i j) l2)) l1) =
  qsum (map (fun j => qsum (map (fun i => f i j) l1)) l2).
Proof.
  induction l1 as [|x l1 IH]; cbn [map].
  - rewrite qsum_map_zero. reflexivity.
  - rewrite qsum_cons, IH.
    rewrite <- qsum_map_plus. apply qsum_map_ext. intros j _. reflexivity.
Qed.

Lemma qsum_nth_seq l n :
  length l = n -> qsum l = qsum (map (fun j => nth j l 0) (seq 0 n)).
Proof.
  revert n. induction l as [|x l IH]; intros n Hn; cbn [length] in Hn; subst n.
  - reflexivity.
  - cbn [seq map nth]. rewrite !qsum_cons. f_equal.
    rewrite <- seq_shift, map_map. cbn [nth]. apply IH. reflexivity.
Qed.

Lemma qsum_delta_out (f : nat -> Qc) i l :
  ~ In i l -> qsum (map (fun k => (if Nat.eqb i k then 1 else 0) * f k) l) = 0.
Proof.
  intros Hn. transitivity (qsum (map (fun _ : nat => 0) l)); [|apply qsum_map_zero].
  apply qsum_map_ext.
  intros k Hk. destruct (Nat.eqb_spec i k) as [->|_]; [contradiction|cbv beta iota; ring].
Qed.

Lemma qsum_delta (f : nat -> Qc) i n :
  (i < n)%nat ->
  qsum (map (fun k => (if Nat.eqb i k then 1 else 0) * f k) (seq 0 n)) = f i.
Proof.
  induction n as [|n IH]; intros Hi; [lia|].
  rewrite seq_S, map_app, qsum_app. cbn [plus map]. rewrite qsum_cons, qsum_nil.
  destruct (Nat.eq_dec i n) as [->|Hne].
  - rewrite qsum_delta_out by (rewrite in_seq; lia).
    rewrite Nat.eqb_refl. ring.
  - rewrite IH by lia.
    destruct (Nat.eqb_spec i n) as [->|_]; [contradiction|]. ring.
Qed.

Lemma qsum_delta_r (f : nat -> Qc) j n :
  (j < n)%nat ->
  qsum (map (fun k => f k * (if Nat.eqb k j then 1 else 0)) (seq 0 n)) = f j.
Proof.
  intros Hj. rewrite <- (qsum_delta f j n Hj). apply qsum_map_ext.
  intros k _. rewrite (Nat.eqb_sym k j). ring.
Qed.

Lemma vdot_qsum a b n :
  length a = n -> length b = n ->
  vdot a b = qsum (map (fun k => nth k a 0 * nth k b 0) (seq 0 n)).
Proof.
  revert b n. induction a as [|x a IH]; intros b n Ha Hb; cbn [length] in Ha; subst n.
  - reflexivity.
  - destruct b as [|y b]; cbn [length] in Hb; [discriminate|].
    injection Hb as Hb. cbn [vdot seq map nth]. rewrite qsum_cons. f_equal.
    rewrite <- seq_shift, map_map. cbn [nth]. apply IH; auto.
Qed.

Lemma nth_col M j k : nth k (col M j) 0 = mget M k j.
Proof.
  unfold col, mget.
  destruct (Nat.lt_ge_cases k (length M)) as [Hk|Hk].
  - apply (nth_map_lt (fun r : list Qc => nth j r 0) M k 0 []). exact Hk.
  - rewrite (nth_overflow (map _ M)) by (rewrite map_length; exact Hk).
    rewrite (nth_overflow M) by exact Hk.
    destruct j; reflexivity.
Qed.

Lemma length_col M j : length (col M j) = length M.
Proof. unfold col. apply map_length. Qed.

(* order facts *)
Lemma Qc_0_le_1 : 0 <= 1.
Proof. unfold Qcle, Qle. cbn. lia. Qed.

Lemma Qcmult_nonneg x y : 0 <= x -> 0 <= y -> 0 <= x * y.
Proof.
  intros Hx Hy. replace 0 with (0 * y) by ring.
  apply Qcmult_le_compat_r; assumption.
Qed.

Lemma Qcplus_nonneg x y : 0 <= x -> 0 <= y -> 0 <= x + y.
Proof.
  intros Hx Hy. replace 0 with (0 + 0) by ring.
  apply Qcplus_le_compat; assumption.
Qed.

Lemma qsum_nonneg l : (forall x, In x l -> 0 <= x) -> 0 <= qsum l.
Proof.
  induction l as [|x l IH]; intros H.
  - rewrite qsum_nil. apply Qcle_refl.
  - rewrite qsum_cons. apply Qcplus_nonneg.
    + apply H. left; reflexivity.
    + apply IH. intros y Hy. apply H. right; exact Hy.
Qed.

Lemma vdot_nonneg a b :
  (forall x, In x a -> 0 <= x) -> (forall y, In y b -> 0 <= y) -> 0 <= vdot a b.
Proof.
  revert b. induction a as [|x a IH]; intros b Ha Hb.
  - cbn [vdot]. apply Qcle_refl.
  - destruct b as [|y b]; cbn [vdot]; [apply Qcle_refl|].
    apply Qcplus_nonneg.
    + apply Qcmult_nonneg; [apply Ha|apply Hb]; left; reflexivity.
    + apply IH; intros z Hz; [apply Ha|apply Hb]; right; exact Hz.
Qed.

Lemma nth_le_qsum l j :
  (forall x, In x l -> 0 <= x) -> (j < length l)%nat -> nth j l 0 <= qsum l.
Proof.
  revert j. induction l as [|x l IH]; intros j H Hj; cbn [length] in Hj; [lia|].
  rewrite qsum_cons.
  assert (Hl : 0 <= qsum l).
  { apply qsum_nonneg. intros y Hy. apply H. right; exact Hy. }
  assert (Hx : 0 <= x) by (apply H; left; reflexivity).
  destruct j as [|j]; cbn [nth].
  - rewrite <- (Qcplus_0_r x) at 1. apply Qcplus_le_compat; [apply Qcle_refl|exact Hl].
  - rewrite <- (Qcplus_0_l (nth j l 0)). apply Qcplus_le_compat; [exact Hx|].
    apply IH; [|lia]. intros y Hy. apply H. right; exact Hy.
Qed.

Local Open Scope nat_scope.

(* rectangular n x m matrix *)
Definition wf (n m : nat) (M : mat) : Prop := length M = n /\ forall r, In r M -> length r = m.

Lemma wf_length n m M : wf n m M -> length M = n.
Proof. intros [H _]; exact H. Qed.

Lemma wf_row n m M i : wf n m M -> i < n -> length (nth i M []) = m.
Proof. intros [Hl Hr] Hi. apply Hr, nth_In. lia. Qed.

Lemma wf_ncols n m M : 0 < n -> wf n m M -> ncols M = m.
Proof.
  intros Hn [Hl Hr]. destruct M as [|r M]; cbn [length] in Hl; [lia|].
  cbn [ncols]. apply Hr. left; reflexivity.
Qed.

Lemma wf_transpose_eq n m M : 0 < n -> wf n m M -> transpose M = map (col M) (seq 0 m).
Proof. intros Hn HM. unfold transpose. rewrite (wf_ncols n m M Hn HM). reflexivity. Qed.

Lemma mat_ext n m A B : wf n m A -> wf n m B ->
  (forall i j, i < n -> j < m -> mget A i j = mget B i j) -> A = B.
Proof.
  intros HA HB Hext.
  apply nth_ext with (d := []) (d' := []).
  - rewrite (wf_length _ _ _ HA), (wf_length _ _ _ HB). reflexivity.
  - intros i Hi. rewrite (wf_length _ _ _ HA) in Hi.
    apply nth_ext with (d := 0%Qc) (d' := 0%Qc).
    + rewrite (wf_row _ _ _ _ HA Hi), (wf_row _ _ _ _ HB Hi). reflexivity.
    + intros j Hj. rewrite (wf_row _ _ _ _ HA Hi) in Hj.
      apply (Hext i j Hi Hj).
Qed.

Lemma wf_identity n : wf n n (identity n).
Proof.
  split.
  - unfold identity. rewrite map_length, seq_length. reflexivity.
  - intros r Hr. unfold identity in Hr. apply in_map_iff in Hr.
    destruct Hr as [i [<- _]]. rewrite map_length, seq_length. reflexivity.
Qed.
Lemma mget_identity n i j : i < n -> j < n -> mget (identity n) i j = (if Nat.eqb i j then 1 else 0)%Qc.
Proof.
  intros Hi Hj. unfold mget, identity.
  rewrite (nth_map_seq _ n i [] Hi).
  rewrite (nth_map_seq _ n j 0%Qc Hj). reflexivity.
Qed.

Lemma wf_transpose n m M : 0 < n -> wf n m M -> wf m n (transpose M).
Proof.
  intros Hn HM. rewrite (wf_transpose_eq n m M Hn HM). split.
  - rewrite map_length, seq_length. reflexivity.
  - intros r Hr. apply in_map_iff in Hr. destruct Hr as [j [<- _]].
    rewrite length_col. apply (wf_length _ _ _ HM).
Qed.
Lemma mget_transpose n m M i j : 0 < n -> wf n m M -> i < m -> j < n -> mget (transpose M) i j = mget M j i.
Proof.
  intros Hn HM Hi Hj. rewrite (wf_transpose_eq n m M Hn HM).
  unfold mget at 1. transitivity (nth j (col M i) 0%Qc); [|apply nth_col].
  f_equal. apply nth_map_seq. exact Hi.
Qed.

Lemma mmul_row_nth A B i : i < length A ->
  nth i (mmul A B) [] = map (fun c => vdot (nth i A []) c) (transpose B).
Proof.
  intros Hi. unfold mmul.
  apply (nth_map_lt (fun r => map (fun c => vdot r c) (transpose B)) A i [] []). exact Hi.
Qed.

Lemma wf_mmul n p m A B : 0 < p -> wf n p A -> wf p m B -> wf n m (mmul A B).
Proof.
  intros Hp HA HB. split.
  - unfold mmul. rewrite map_length. apply (wf_length _ _ _ HA).
  - intros r Hr. unfold mmul in Hr. apply in_map_iff in Hr.
    destruct Hr as [r' [<- _]]. rewrite map_length.
    apply (wf_length _ _ _ (wf_transpose p m B Hp HB)).
Qed.
(* entry of a product = sum over the inner index *)
Lemma mget_mmul n p m A B i j : 0 < p -> wf n p A -> wf p m B -> i < n -> j < m ->
  mget (mmul A B) i j = qsum (map (fun k => (mget A i k * mget B k j)%Qc) (seq 0 p)).
Proof.
  intros Hp HA HB Hi Hj. unfold mget at 1.
  rewrite mmul_row_nth by (rewrite (wf_length _ _ _ HA); exact Hi).
  rewrite (wf_transpose_eq p m B Hp HB), map_map.
  rewrite (nth_map_seq _ m j 0%Qc Hj).
  rewrite (vdot_qsum _ _ p).
  - apply qsum_map_ext. intros k _. rewrite nth_col. reflexivity.
  - apply (wf_row _ _ _ _ HA Hi).
  - rewrite length_col. apply (wf_length _ _ _ HB).
Qed.

Lemma mmul_assoc n p q m A B C : 0 < p -> 0 < q -> wf n p A -> wf p q B -> wf q m C ->
  mmul (mmul A B) C = mmul A (mmul B C).
Proof.
  intros Hp Hq HA HB HC.
  assert (HAB : wf n q (mmul A B)) by (apply (wf_mmul n p q); assumption).
  assert (HBC : wf p m (mmul B C)) by (apply (wf_mmul p q m); assumption).
  apply (mat_ext n m).
  - apply (wf_mmul n q m); assumption.
  - apply (wf_mmul n p m); assumption.
  - intros i j Hi Hj.
    rewrite (mget_mmul n q m (mmul A B) C i j Hq HAB HC Hi Hj).
    rewrite (mget_mmul n p m A (mmul B C) i j Hp HA HBC Hi Hj).
    transitivity (qsum (map (fun l => qsum (map (fun k => (mget A i k * mget B k l * mget C l j)%Qc) (seq 0 p))) (seq 0 q))).
    + apply qsum_map_ext. intros l Hl. apply in_seq in Hl.
      rewrite (mget_mmul n p q A B i l Hp HA HB Hi) by lia.
      rewrite <- qsum_map_scale_r. reflexivity.
    + rewrite qsum_exchange. apply qsum_map_ext. intros k Hk. apply in_seq in Hk.
      rewrite (mget_mmul p q m B C k j Hq HB HC) by lia.
      rewrite <- qsum_map_scale_l. apply qsum_map_ext. intros l _. ring.
Qed.
Lemma mmul_identity_l n m A : 0 < n -> wf n m A -> mmul (identity n) A = A.
Proof.
  intros Hn HA. apply (mat_ext n m).
  - apply (wf_mmul n n m); [exact Hn|apply wf_identity|exact HA].
  - exact HA.
  - intros i j Hi Hj.
    rewrite (mget_mmul n n m (identity n) A i j Hn (wf_identity n) HA Hi Hj).
    rewrite <- (qsum_delta (fun k => mget A k j) i n Hi).
    apply qsum_map_ext. intros k Hk. apply in_seq in Hk.
    rewrite mget_identity by lia. reflexivity.
Qed.
Lemma mmul_identity_r n m A : 0 < m -> wf n m A -> mmul A (identity m) = A.
Proof.
  intros Hm HA. apply (mat_ext n m).
  - apply (wf_mmul n m m); [exact Hm|exact HA|apply wf_identity].
  - exact HA.
  - intros i j Hi Hj.
    rewrite (mget_mmul n m m A (identity m) i j Hm HA (wf_identity m) Hi Hj).
    rewrite <- (qsum_delta_r (fun k => mget A i k) j m Hj).
    apply qsum_map_ext. intros k Hk. apply in_seq in Hk.
    rewrite mget_identity by lia. reflexivity.
Qed.

Lemma wf_mpow n M k : 0 < n -> wf n n M -> wf n n (mpow M k).
Proof.
  intros Hn HM. induction k as [|k IH]; cbn [mpow].
  - rewrite (wf_length _ _ _ HM). apply wf_identity.
  - apply (wf_mmul n n n); assumption.
Qed.
Lemma mpow_add n M a b : 0 < n -> wf n n M -> mpow M (a + b) = mmul (mpow M a) (mpow M b).
Proof.
  intros Hn HM. induction a as [|a IH]; cbn [plus mpow].
  - rewrite (wf_length _ _ _ HM). symmetry.
    apply (mmul_identity_l n n); [exact Hn|apply wf_mpow; assumption].
  - rewrite IH. symmetry.
    apply (mmul_assoc n n n n); try assumption; apply wf_mpow; assumption.
Qed.

Lemma mpow_1 n M : 0 < n -> wf n n M -> mpow M 1 = M.
Proof.
  intros Hn HM. cbn [mpow]. rewrite (wf_length _ _ _ HM).
  apply (mmul_identity_r n n); assumption.
Qed.

Lemma mpow_pos_eq n M p : 0 < n -> wf n n M -> mpow_pos M p = mpow M (Pos.to_nat p).
Proof.
  intros Hn HM. induction p as [p IH|p IH|]; cbn [mpow_pos].
  - rewrite Pos2Nat.inj_xI. cbn [mpow]. rewrite IH.
    replace (2 * Pos.to_nat p) with (Pos.to_nat p + Pos.to_nat p) by lia.
    rewrite (mpow_add n M _ _ Hn HM). reflexivity.
  - rewrite Pos2Nat.inj_xO. rewrite IH.
    replace (2 * Pos.to_nat p) with (Pos.to_nat p + Pos.to_nat p) by lia.
    rewrite (mpow_add n M _ _ Hn HM). reflexivity.
  - rewrite Pos2Nat.inj_1. symmetry. apply (mpow_1 n); assumption.
Qed.

(* square-and-multiply computes the same power *)
Lemma mpow_fast_eq n M k : 0 < n -> wf n n M -> mpow_fast M k = mpow M k.
Proof.
  intros Hn HM. destruct k as [|k]; [reflexivity|].
  unfold mpow_fast. rewrite (mpow_pos_eq n M _ Hn HM).
  rewrite Nat2Pos.id by lia. reflexivity.
Qed.

(* ------------------------------------------------------------------ *)
(* integer-scaled power: helper lemmas                                 *)
(* ------------------------------------------------------------------ *)
Definition toQ (L : positive) (A : list (list Z)) : mat :=
  map (map (fun z => Q2Qc (z # L))) A.

Lemma Q2Qc_scaled_0 L : Q2Qc (0 # L) = 0%Qc.
Proof. apply Q2Qc_eq_iff. unfold Qeq. cbn [Qnum Qden]. lia. Qed.

Lemma Q2Qc_scaled_mul a b L L' :
  (Q2Qc (a # L) * Q2Qc (b # L'))%Qc = Q2Qc ((a * b) # (L * L')).
Proof.
  unfold Qcmult. apply Q2Qc_eq_iff. cbn [this Q2Qc].
  rewrite !Qred_correct. reflexivity.
Qed.

Lemma Q2Qc_scaled_add a b D :
  (Q2Qc (a # D) + Q2Qc (b # D))%Qc = Q2Qc ((a + b) # D).
Proof.
  unfold Qcplus. apply Q2Qc_eq_iff. cbn [this Q2Qc].
  rewrite !Qred_correct. unfold Qeq, Qplus. cbn [Qnum Qden].
  rewrite Pos2Z.inj_mul. ring.
Qed.

Lemma zdot_nil_l c : zdot [] c = 0%Z.
Proof. reflexivity. Qed.
Lemma zdot_nil_r r : zdot r [] = 0%Z.
Proof. destruct r; reflexivity. Qed.
Lemma zdot_cons x r y c : zdot (x :: r) (y :: c) = (x * y + zdot r c)%Z.
Proof. reflexivity. Qed.

Lemma vdot_toQ L L' r c :
  vdot (map (fun z => Q2Qc (z # L)) r) (map (fun z => Q2Qc (z # L')) c)
  = Q2Qc (zdot r c # (L * L')).
Proof.
  revert c. induction r as [|x r IH]; intros c.
  - cbn [map vdot]. rewrite zdot_nil_l, (Q2Qc_scaled_0 (L * L')). reflexivity.
  - destruct c as [|y c].
    + cbn [map vdot]. rewrite zdot_nil_r, (Q2Qc_scaled_0 (L * L')). reflexivity.
    + cbn [map vdot]. rewrite zdot_cons, IH, Q2Qc_scaled_mul, Q2Qc_scaled_add.
      reflexivity.
Qed.

Lemma transpose_toQ L B : transpose (toQ L B) = toQ L (ztranspose B).
Proof.
  unfold transpose, ztranspose, toQ.
  assert (Hn : ncols (map (map (fun z => Q2Qc (z # L))) B)
               = match B with [] => O | r :: _ => length r end).
  { destruct B as [|r B]; [reflexivity|]. cbn [map ncols]. apply map_length. }
  rewrite Hn, map_map. apply map_ext. intros j.
  unfold col, zcol. rewrite !map_map. apply map_ext. intros r.
  rewrite <- (Q2Qc_scaled_0 L).
  exact (map_nth (fun z => Q2Qc (z # L)) r 0%Z j).
Qed.

Lemma mmul_toQ L L' A B : mmul (toQ L A) (toQ L' B) = toQ (L * L') (zmmul A B).
Proof.
  unfold mmul, zmmul. rewrite transpose_toQ. unfold toQ.
  rewrite !map_map. apply map_ext. intros r.
  rewrite !map_map. apply map_ext. intros c.
  apply vdot_toQ.
Qed.

Lemma pos_pow_xO L p : (L ^ p~0 = L ^ p * L ^ p)%positive.
Proof.
  apply Pos2Z.inj. rewrite Pos2Z.inj_mul, !Pos2Z.inj_pow, Pos2Z.inj_xO.
  apply Z.pow_twice_r.
Qed.

Lemma pos_pow_xI L p : (L ^ p~1 = L * (L ^ p * L ^ p))%positive.
Proof.
  change (p~1)%positive with (Pos.succ p~0).
  rewrite Pos.pow_succ_r, pos_pow_xO. reflexivity.
Qed.

Lemma mpow_pos_toQ L A p :
  toQ (L ^ p) (zmpow_pos A p) = mpow_pos (toQ L A) p.
Proof.
  induction p as [p IH|p IH|]; cbn [zmpow_pos mpow_pos].
  - rewrite pos_pow_xI, <- !mmul_toQ, IH. reflexivity.
  - rewrite pos_pow_xO, <- mmul_toQ, IH. reflexivity.
  - rewrite Pos.pow_1_r. reflexivity.
Qed.

Lemma map_id_in {A} (f : A -> A) l : (forall x, In x l -> f x = x) -> map f l = l.
Proof.
  induction l as [|x l IH]; intros H; cbn [map]; [reflexivity|].
  rewrite (H x) by (left; reflexivity). f_equal.
  apply IH. intros y Hy. apply H. right; exact Hy.
Qed.

Lemma scale_entry L (q : Qc) :
  (Zpos (Qden (this q)) | Zpos L)%Z ->
  Q2Qc ((Qnum (this q) * (Zpos L / Zpos (Qden (this q)))) # L) = q.
Proof.
  intros [c Hc]. apply Qc_is_canon. cbn [this Q2Qc]. rewrite Qred_correct.
  unfold Qeq. cbn [Qnum Qden]. rewrite Hc, Z.div_mul by discriminate. ring.
Qed.

Lemma toQ_scale L M :
  (forall r q, In r M -> In q r -> (Zpos (Qden (this q)) | Zpos L)%Z) ->
  toQ L (scale_to_Z L M) = M.
Proof.
  intros H. unfold toQ, scale_to_Z. rewrite map_map. apply map_id_in.
  intros r Hr. rewrite map_map. apply map_id_in. intros q Hq.
  apply scale_entry. apply (H r q Hr Hq).
Qed.

Lemma plcm_spec a b : Zpos (plcm a b) = Z.lcm (Zpos a) (Zpos b).
Proof.
  unfold plcm. apply Z2Pos.id.
  assert (H0 := Z.lcm_nonneg (Zpos a) (Zpos b)).
  assert (H1 : Z.lcm (Zpos a) (Zpos b) <> 0%Z).
  { intros E. apply Z.lcm_eq_0 in E. destruct E; discriminate. }
  lia.
Qed.

Definition row_den (acc : positive) (r : list Qc) : positive :=
  fold_right (fun q acc' => plcm (Qden (this q)) acc') acc r.

Lemma row_den_acc r acc : (Zpos acc | Zpos (row_den acc r))%Z.
Proof.
  induction r as [|q r IH]; cbn [row_den fold_right].
  - apply Z.divide_refl.
  - fold (row_den acc r). rewrite plcm_spec.
    eapply Z.divide_trans; [exact IH|apply Z.divide_lcm_r].
Qed.

Lemma row_den_in r acc q : In q r -> (Zpos (Qden (this q)) | Zpos (row_den acc r))%Z.
Proof.
  induction r as [|q' r IH]; intros Hq; [destruct Hq|].
  cbn [row_den fold_right]. fold (row_den acc r). rewrite plcm_spec.
  destruct Hq as [->|Hq].
  - apply Z.divide_lcm_l.
  - eapply Z.divide_trans; [exact (IH Hq)|apply Z.divide_lcm_r].
Qed.

Lemma common_den_cons r M : common_den (r :: M) = row_den (common_den M) r.
Proof. reflexivity. Qed.

Lemma common_den_div M r q :
  In r M -> In q r -> (Zpos (Qden (this q)) | Zpos (common_den M))%Z.
Proof.
  induction M as [|r' M IH]; intros Hr Hq; [destruct Hr|].
  rewrite common_den_cons. destruct Hr as [->|Hr].
  - apply row_den_in. exact Hq.
  - eapply Z.divide_trans; [exact (IH Hr Hq)|apply row_den_acc].
Qed.

(* the integer-scaled power equals the square-and-multiply power for every
   matrix (no shape condition) *)
Lemma mpow_scaled_fast M k : mpow_scaled M k = mpow_fast M k.
Proof.
  destruct k as [|k]; [reflexivity|].
  unfold mpow_scaled, mpow_fast.
  change (toQ (common_den M ^ Pos.of_nat (S k))
              (zmpow_pos (scale_to_Z (common_den M) M) (Pos.of_nat (S k)))
          = mpow_pos M (Pos.of_nat (S k))).
  rewrite mpow_pos_toQ, toQ_scale; [reflexivity|].
  intros r q Hr Hq. apply (common_den_div M r q Hr Hq).
Qed.

(* the integer-scaled power (common denominator, no normalisation inside) computes the same power *)
Lemma mpow_scaled_eq n M k : 0 < n -> wf n n M -> mpow_scaled M k = mpow M k.
Proof.
  intros Hn HM. rewrite mpow_scaled_fast. apply (mpow_fast_eq n); assumption.
Qed.

(* products with stochastic factors *)
Definition rows_sum_one (M : mat) : Prop := forall r, In r M -> qsum r = 1%Qc.
Definition entries_nonneg (M : mat) : Prop := forall r x, In r M -> In x r -> (0 <= x)%Qc.

Lemma rows_sum_one_mmul n p m A B : 0 < p -> wf n p A -> wf p m B ->
  rows_sum_one A -> rows_sum_one B -> rows_sum_one (mmul A B).
Proof.
  intros Hp HA HB SA SB r Hr. unfold mmul in Hr. apply in_map_iff in Hr.
  destruct Hr as [a [<- Ha]].
  assert (Hla : length a = p) by (apply HA; exact Ha).
  rewrite (wf_transpose_eq p m B Hp HB), map_map.
  transitivity (qsum (map (fun j => qsum (map (fun k => (nth k a 0 * mget B k j)%Qc) (seq 0 p))) (seq 0 m))).
  { apply qsum_map_ext. intros j _. rewrite (vdot_qsum _ _ p).
    - apply qsum_map_ext. intros k _. rewrite nth_col. reflexivity.
    - exact Hla.
    - rewrite length_col. apply (wf_length _ _ _ HB). }
  rewrite qsum_exchange.
  transitivity (qsum (map (fun k => (nth k a 0 * 1)%Qc) (seq 0 p))).
  { apply qsum_map_ext. intros k Hk. apply in_seq in Hk.
    rewrite qsum_map_scale_l. f_equal.
    unfold mget. rewrite <- (qsum_nth_seq (nth k B []) m).
    - apply SB. apply nth_In. rewrite (wf_length _ _ _ HB). lia.
    - apply (wf_row _ _ _ _ HB). lia. }
  transitivity (qsum a); [|apply SA; exact Ha].
  rewrite (qsum_nth_seq a p Hla). apply qsum_map_ext. intros k _. ring.
Qed.
Lemma entries_nonneg_mmul n p m A B : 0 < p -> wf n p A -> wf p m B ->
  entries_nonneg A -> entries_nonneg B -> entries_nonneg (mmul A B).
Proof.
  intros Hp HA HB NA NB r x Hr Hx. unfold mmul in Hr. apply in_map_iff in Hr.
  destruct Hr as [a [<- Ha]]. apply in_map_iff in Hx.
  destruct Hx as [c [<- Hc]]. unfold transpose in Hc. apply in_map_iff in Hc.
  destruct Hc as [j [<- _]].
  apply vdot_nonneg.
  - intros y Hy. apply (NA a y Ha Hy).
  - intros y Hy. unfold col in Hy. apply in_map_iff in Hy.
    destruct Hy as [b [<- Hb]].
    destruct (nth_in_or_default j b 0%Qc) as [Hin | Hdef].
    + apply (NB b _ Hb Hin).
    + rewrite Hdef. apply Qcle_refl.
Qed.

Lemma rows_sum_one_identity n : rows_sum_one (identity n).
Proof.
  intros r Hr. unfold identity in Hr. apply in_map_iff in Hr.
  destruct Hr as [i [<- Hi]]. apply in_seq in Hi.
  transitivity (qsum (map (fun k => ((if Nat.eqb i k then 1 else 0) * 1)%Qc) (seq 0 n))).
  - apply qsum_map_ext. intros k _. ring.
  - apply (qsum_delta (fun _ => 1%Qc) i n). lia.
Qed.

Lemma entries_nonneg_identity n : entries_nonneg (identity n).
Proof.
  intros r x Hr Hx. unfold identity in Hr. apply in_map_iff in Hr.
  destruct Hr as [i [<- _]]. apply in_map_iff in Hx.
  destruct Hx as [j [<- _]].
  destruct (Nat.eqb i j); [apply Qc_0_le_1|apply Qcle_refl].
Qed.

Lemma stochastic_entry_le_1 n m M i j : wf n m M -> rows_sum_one M -> entries_nonneg M ->
  i < n -> j < m -> (mget M i j <= 1)%Qc.
Proof.
  intros HM SM NM Hi Hj. unfold mget.
  assert (Hin : In (nth i M []) M) by (apply nth_In; rewrite (wf_length _ _ _ HM); exact Hi).
  rewrite <- (SM _ Hin). apply nth_le_qsum.
  - intros x Hx. apply (NM _ x Hin Hx).
  - rewrite (wf_row _ _ _ _ HM Hi). exact Hj.
Qed.

(* powers of a row-stochastic matrix are row-stochastic with entries in [0,1] *)
Lemma mpow_stochastic n M k : 0 < n -> wf n n M -> rows_sum_one M -> entries_nonneg M ->
  rows_sum_one (mpow M k) /\ entries_nonneg (mpow M k) /\
  (forall i j, i < n -> j < n -> (mget (mpow M k) i j <= 1)%Qc).
Proof.
  intros Hn HM SM NM.
  assert (H : rows_sum_one (mpow M k) /\ entries_nonneg (mpow M k)).
  { induction k as [|k [IHs IHn]]; cbn [mpow].
    - split; [apply rows_sum_one_identity|apply entries_nonneg_identity].
    - assert (HP := wf_mpow n M k Hn HM). split.
      + apply (rows_sum_one_mmul n n n); assumption.
      + apply (entries_nonneg_mmul n n n); assumption. }
  destruct H as [Hs Hnn]. split; [exact Hs|]. split; [exact Hnn|].
  intros i j Hi Hj.
  apply (stochastic_entry_le_1 n n); try assumption. apply wf_mpow; assumption.
Qed.
