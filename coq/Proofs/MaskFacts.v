(* The ergodic mask marks the communicating classes of maximal size:
   graph-level facts (reach, classes, Wielandt inside a class) and the executable model. *)
From Coq Require Import List ZArith Arith Bool Lia QArith Qcanon PeanoNat.
From MsmV Require Import Lib.Result Lib.PyList Lib.QMat Model.Ergodic Proofs.QMatFacts
  Proofs.ErgodicFacts Proofs.Wielandt Proofs.ErgodicFull.
Import ListNotations.
Local Open Scope nat_scope.

Definition reachable (G : bmat) (i j : nat) : Prop := exists k, walk G k i j.
Definition comm (G : bmat) (i j : nat) : Prop := reachable G i j /\ reachable G j i.
Definition cyclic (G : bmat) (i : nat) : Prop := exists k, 1 <= k /\ walk G k i i.
Definition aperiodic_at (G : bmat) (i : nat) : Prop :=
  forall d, (forall k, 1 <= k -> walk G k i i -> Nat.divide d k) -> d = 1.
(* size of the communicating class of i, 0 for a state that lies on no cycle *)
Definition csize (G : bmat) (i : nat) : nat :=
  if has_internal_edge G (reach G) i then length (class_of (reach G) i) else 0.

(* ------------------------------------------------------------------ *)
(* G1. the lazy closure (I or G)^(n-1) is reachability                 *)
(* ------------------------------------------------------------------ *)
Lemma bwf_lazy n G : bwf n G -> bwf n (bor (bident n) G).
Proof. intros HG. apply bwf_bor; [apply bwf_bident|exact HG]. Qed.

Lemma bget_lazy n G i j : bwf n G -> i < n -> j < n ->
  bget (bor (bident n) G) i j = Nat.eqb i j || bget G i j.
Proof.
  intros HG Hi Hj.
  rewrite (bget_bor n (bident n) G i j (bwf_bident n) HG Hi Hj).
  rewrite (bget_bident n i j Hi Hj). reflexivity.
Qed.

Lemma walk_to_lazy n G k : bwf n G -> forall i j, walk G k i j -> walk (bor (bident n) G) k i j.
Proof.
  intros HG. pose proof (bwf_lazy n G HG) as HH.
  induction k as [|k IH]; intros i j Hw.
  - apply (walk_0 n G HG) in Hw. apply (walk_0 n _ HH). exact Hw.
  - apply (walk_S n G HG) in Hw. destruct Hw as [m [Hm [Hb Hw]]].
    apply (walk_S n _ HH). exists m. split; [exact Hm|]. split; [|apply IH; exact Hw].
    assert (Hi : i < n) by (eapply (bget_true_lt n G HG); exact Hb).
    rewrite (bget_lazy n G i m HG Hi Hm), Hb. apply orb_true_r.
Qed.

Lemma length_reach n G : bwf n G -> bwf n (reach G).
Proof.
  intros HG. unfold reach. rewrite (proj1 HG). apply bwf_bpow. apply bwf_lazy. exact HG.
Qed.

Lemma reach_spec n G i j : bwf n G -> 0 < n -> i < n -> j < n ->
  (bget (reach G) i j = true <-> reachable G i j).
Proof.
  intros HG Hn Hi Hj. unfold reach. rewrite (proj1 HG).
  pose proof (bwf_lazy n G HG) as HH.
  rewrite (bpow_walk n _ (n - 1) i j HH Hi Hj). split.
  - intros Hw. destruct (walk_lazy n G (n - 1) HG i j Hi Hw) as [a [_ Ha]].
    exists a. exact Ha.
  - intros [k Hk]. destruct (short_walk n G HG 1 i j) as [t [Ht Hw]].
    { exists k. rewrite Nat.mul_1_l. exact Hk. }
    rewrite Nat.mul_1_l in Hw.
    replace (n - 1) with ((n - 1 - t) + t) by lia.
    eapply walk_app; [|apply walk_to_lazy; [exact HG|exact Hw]].
    apply walk_loop; [rewrite (proj1 HH); exact Hi|].
    rewrite (bget_lazy n G i i HG Hi Hi), Nat.eqb_refl. reflexivity.
Qed.

(* ------------------------------------------------------------------ *)
(* basic facts on reachability and communication                       *)
(* ------------------------------------------------------------------ *)
Lemma reachable_refl n G i : bwf n G -> i < n -> reachable G i i.
Proof. intros HG Hi. exists 0. apply (walk_refl n G HG). exact Hi. Qed.

Lemma reachable_trans G i j k : reachable G i j -> reachable G j k -> reachable G i k.
Proof. intros [a Ha] [b Hb]. exists (a + b). eapply walk_app; eassumption. Qed.

Lemma reachable_edge n G i m : bwf n G -> m < n -> bget G i m = true -> reachable G i m.
Proof.
  intros HG Hm Hb. exists 1. apply (walk_S n G HG). exists m. split; [exact Hm|].
  split; [exact Hb|]. apply (walk_refl n G HG). exact Hm.
Qed.

Lemma comm_refl n G i : bwf n G -> i < n -> comm G i i.
Proof. intros HG Hi. split; apply (reachable_refl n); assumption. Qed.

Lemma comm_sym G i j : comm G i j -> comm G j i.
Proof. intros [H1 H2]. split; assumption. Qed.

Lemma comm_trans G i j k : comm G i j -> comm G j k -> comm G i k.
Proof.
  intros [H1 H2] [H3 H4]. split; eapply reachable_trans; eassumption.
Qed.

(* a vertex on a walk between two members of the class of i belongs to the class *)
Lemma comm_closure n G i u w v k : bwf n G -> comm G i u -> comm G i v -> w < n ->
  bget G u w = true -> walk G k w v -> comm G i w.
Proof.
  intros HG [Hiu Hui] [Hiv Hvi] Hw Hb Hwv. split.
  - eapply reachable_trans; [exact Hiu|]. apply (reachable_edge n); assumption.
  - eapply reachable_trans; [|exact Hvi]. exists k. exact Hwv.
Qed.

(* ------------------------------------------------------------------ *)
(* the graph induced on a duplicate-free vertex list, renumbered        *)
(* ------------------------------------------------------------------ *)
Definition induced (G : bmat) (C : list nat) : bmat :=
  map (fun a => map (fun b => bget G (nth a C 0) (nth b C 0)) (seq 0 (length C)))
      (seq 0 (length C)).

Lemma bwf_induced G C : bwf (length C) (induced G C).
Proof.
  split.
  - unfold induced. rewrite map_length, seq_length. reflexivity.
  - intros r Hr. unfold induced in Hr. apply in_map_iff in Hr.
    destruct Hr as [a [<- _]]. rewrite map_length, seq_length. reflexivity.
Qed.

Lemma bget_induced G C a b : a < length C -> b < length C ->
  bget (induced G C) a b = bget G (nth a C 0) (nth b C 0).
Proof.
  intros Ha Hb. unfold bget at 1. unfold induced.
  rewrite (nth_map_seq _ (length C) a [] Ha).
  rewrite (nth_map_seq _ (length C) b false Hb). reflexivity.
Qed.

Section Induced.
Variables (n : nat) (G : bmat) (C : list nat).
Hypothesis HG : bwf n G.
Hypothesis HCn : forall u, In u C -> u < n.
Hypothesis HND : NoDup C.
(* walks between members of C stay in C *)
Hypothesis Hclosed : forall u w v k, In u C -> In v C -> w < n ->
  bget G u w = true -> walk G k w v -> In w C.
Local Notation m := (length C).
Local Notation G' := (induced G C).

Lemma induced_down k : forall a b, walk G' k a b -> walk G k (nth a C 0) (nth b C 0).
Proof.
  pose proof (bwf_induced G C) as HG'.
  induction k as [|k IH]; intros a b Hw.
  - apply (walk_0 m G' HG') in Hw. destruct Hw as [E Ha]. subst b.
    apply (walk_refl n G HG). apply HCn. apply nth_In. exact Ha.
  - apply (walk_S m G' HG') in Hw. destruct Hw as [c [Hc [Hb Hw]]].
    assert (Ha : a < m) by (eapply (bget_true_lt m G' HG'); exact Hb).
    rewrite (bget_induced G C a c Ha Hc) in Hb.
    apply (walk_S n G HG). exists (nth c C 0). split; [apply HCn, nth_In; exact Hc|].
    split; [exact Hb|apply IH; exact Hw].
Qed.

Lemma induced_up k : forall a b, a < m -> b < m ->
  walk G k (nth a C 0) (nth b C 0) -> walk G' k a b.
Proof.
  pose proof (bwf_induced G C) as HG'.
  induction k as [|k IH]; intros a b Ha Hb Hw.
  - apply (walk_0 n G HG) in Hw. destruct Hw as [E _].
    apply (walk_0 m G' HG'). split; [|exact Ha].
    apply (proj1 (NoDup_nth C 0) HND a b Ha Hb E).
  - apply (walk_S n G HG) in Hw. destruct Hw as [w [Hw [Hbw Hwv]]].
    assert (HwC : In w C).
    { apply (Hclosed (nth a C 0) w (nth b C 0) k); try assumption; apply nth_In; assumption. }
    destruct (In_nth C w 0 HwC) as [c [Hc Ec]]. subst w.
    apply (walk_S m G' HG'). exists c. split; [exact Hc|]. split.
    + rewrite (bget_induced G C a c Ha Hc). exact Hbw.
    + apply IH; assumption.
Qed.
End Induced.

(* ------------------------------------------------------------------ *)
(* G2. Wielandt's bound inside the communicating class of i             *)
(* ------------------------------------------------------------------ *)
Lemma wexp_mono m n : m <= n -> wexp m <= wexp n.
Proof.
  intros H. unfold wexp. assert (H1 : m - 1 <= n - 1) by lia.
  pose proof (Nat.mul_le_mono _ _ _ _ H1 H1). lia.
Qed.

Section Class.
Variables (n : nat) (G : bmat) (i : nat) (C : list nat).
Hypothesis HG : bwf n G.
Hypothesis Hi : i < n.
Hypothesis HC : forall u, In u C <-> u < n /\ comm G i u.
Hypothesis HND : NoDup C.
Hypothesis Hmn : length C <= n.
Hypothesis Hap : aperiodic_at G i.
Local Notation m := (length C).
Local Notation G' := (induced G C).

Lemma class_lt u : In u C -> u < n.
Proof. intros H. apply HC in H. tauto. Qed.

Lemma class_closed_walk u w v k : In u C -> In v C -> w < n ->
  bget G u w = true -> walk G k w v -> In w C.
Proof.
  intros Hu Hv Hw Hb Hwv. apply HC in Hu. apply HC in Hv. apply HC. split; [exact Hw|].
  apply (comm_closure n G i u w v k); tauto.
Qed.

Lemma class_self : In i C.
Proof. apply HC. split; [exact Hi|apply (comm_refl n); assumption]. Qed.

Lemma class_pos : 0 < m.
Proof. pose proof class_self as H. destruct C; [destruct H|cbn; lia]. Qed.

Lemma class_connected u v : In u C -> In v C -> reachable G u v.
Proof.
  intros Hu Hv. apply HC in Hu. apply HC in Hv.
  destruct Hu as [_ [_ Hui]]. destruct Hv as [_ [Hiv _]].
  eapply reachable_trans; eassumption.
Qed.

Lemma induced_sc : strongly_connected G'.
Proof.
  intros a b Ha Hb. rewrite (proj1 (bwf_induced G C)) in Ha, Hb.
  destruct (class_connected (nth a C 0) (nth b C 0)) as [k Hk];
    [apply nth_In; exact Ha|apply nth_In; exact Hb|].
  exists k. apply (induced_up n G C HG HND class_closed_walk k a b Ha Hb Hk).
Qed.

Lemma induced_ap : aperiodic G'.
Proof.
  intros d Hd. apply Hap. intros k Hk Hw.
  destruct (In_nth C i 0 class_self) as [a [Ha Ea]].
  apply (Hd a k); [rewrite (proj1 (bwf_induced G C)); exact Ha|exact Hk|].
  apply (induced_up n G C HG HND class_closed_walk k a a Ha Ha). rewrite Ea. exact Hw.
Qed.

Lemma class_wexp_m u v : In u C -> In v C -> walk G (wexp m) u v.
Proof.
  intros Hu Hv.
  destruct (In_nth C u 0 Hu) as [a [Ha Ea]]. destruct (In_nth C v 0 Hv) as [b [Hb Eb]].
  subst u v. apply (induced_down n G C HG class_lt).
  apply (wielandt m G' (bwf_induced G C) class_pos induced_sc induced_ap a b Ha Hb).
Qed.

Lemma class_out_edge u : In u C -> exists w, In w C /\ w < n /\ bget G u w = true.
Proof.
  intros Hu. pose proof (class_wexp_m u u Hu Hu) as Hw.
  pose proof (wexp_pos m) as Hp. destruct (wexp m) as [|k]; [lia|].
  apply (walk_S n G HG) in Hw. destruct Hw as [w [Hw [Hb Hwu]]].
  exists w. split; [|split; assumption].
  apply (class_closed_walk u w u k); assumption.
Qed.

Lemma class_walk_ge e : forall u v, In u C -> In v C -> walk G (e + wexp m) u v.
Proof.
  induction e as [|e IH]; intros u v Hu Hv.
  - apply class_wexp_m; assumption.
  - destruct (class_out_edge u Hu) as [w [HwC [Hw Hb]]].
    cbn [Nat.add]. apply (walk_S n G HG). exists w. split; [exact Hw|].
    split; [exact Hb|]. apply IH; assumption.
Qed.

Lemma class_wexp_n u v : In u C -> In v C -> walk G (wexp n) u v.
Proof.
  intros Hu Hv. pose proof (wexp_mono m n Hmn) as Hle.
  replace (wexp n) with ((wexp n - wexp m) + wexp m) by lia.
  apply class_walk_ge; assumption.
Qed.
End Class.

(* the executable class list *)
Lemma filter_length_le' {A} (f : A -> bool) l : length (filter f l) <= length l.
Proof.
  induction l as [|x l IH]; cbn [filter length]; [lia|].
  destruct (f x); cbn [length]; lia.
Qed.

Lemma class_of_spec n G i u : bwf n G -> 0 < n -> i < n ->
  (In u (class_of (reach G) i) <-> u < n /\ comm G i u).
Proof.
  intros HG Hn Hi. unfold class_of. rewrite filter_In, in_seq.
  rewrite (proj1 (length_reach n G HG)). unfold same_class. split.
  - intros [Hu Hs]. assert (Hu' : u < n) by lia. split; [exact Hu'|].
    apply andb_true_iff in Hs. destruct Hs as [H1 H2].
    split; [apply (reach_spec n G i u)|apply (reach_spec n G u i)]; assumption.
  - intros [Hu [H1 H2]]. split; [lia|]. apply andb_true_iff.
    split; [apply (reach_spec n G i u)|apply (reach_spec n G u i)]; assumption.
Qed.

Lemma class_of_NoDup R i : NoDup (class_of R i).
Proof. unfold class_of. apply NoDup_filter. apply seq_NoDup. Qed.

Lemma class_of_length n G i : bwf n G -> length (class_of (reach G) i) <= n.
Proof.
  intros HG. unfold class_of. rewrite (proj1 (length_reach n G HG)).
  pose proof (filter_length_le' (fun j => same_class (reach G) i j) (seq 0 n)) as H.
  rewrite seq_length in H. exact H.
Qed.

Theorem sym_power_is_class n G i j : bwf n G -> 0 < n -> i < n -> j < n -> aperiodic_at G i ->
  (walk G (wexp n) i j /\ walk G (wexp n) j i <-> comm G i j).
Proof.
  intros HG Hn Hi Hj Hap. split.
  - intros [H1 H2]. split; exists (wexp n); assumption.
  - intros Hc.
    set (C := class_of (reach G) i).
    assert (HC : forall u, In u C <-> u < n /\ comm G i u).
    { intros u. apply class_of_spec; assumption. }
    assert (HiC : In i C) by (apply HC; split; [exact Hi|apply (comm_refl n); assumption]).
    assert (HjC : In j C) by (apply HC; split; assumption).
    split; apply (class_wexp_n n G i C HG Hi HC (class_of_NoDup _ _) (class_of_length n G i HG) Hap);
      assumption.
Qed.

(* ------------------------------------------------------------------ *)
(* G3. a state on no cycle has an empty row in the symmetrised power    *)
(* ------------------------------------------------------------------ *)
Lemma sym_power_acyclic n G i j : bwf n G -> 0 < n -> i < n -> ~ cyclic G i ->
  ~ (walk G (wexp n) i j /\ walk G (wexp n) j i).
Proof.
  intros HG Hn Hi Hnc [H1 H2]. apply Hnc. exists (wexp n + wexp n).
  split; [pose proof (wexp_pos n); lia|]. eapply walk_app; eassumption.
Qed.

(* ------------------------------------------------------------------ *)
(* G4. the executable model                                             *)
(* ------------------------------------------------------------------ *)
(* a state lies on a cycle exactly when its class has an internal edge *)
Lemma cyclic_iff_internal n G i : bwf n G -> 0 < n -> i < n ->
  (has_internal_edge G (reach G) i = true <-> cyclic G i).
Proof.
  intros HG Hn Hi. unfold has_internal_edge. rewrite existsb_exists. split.
  - intros [j [Hj He]]. apply existsb_exists in He. destruct He as [k [Hk Hb]].
    apply (class_of_spec n G i j HG Hn Hi) in Hj. destruct Hj as [Hj [[a Ha] _]].
    apply (class_of_spec n G i k HG Hn Hi) in Hk. destruct Hk as [Hk [_ [b Hb']]].
    exists (a + (1 + b)). split; [lia|].
    eapply walk_app; [exact Ha|]. cbn [Nat.add]. apply (walk_S n G HG).
    exists k. split; [exact Hk|]. split; assumption.
  - intros [k [Hk Hw]]. destruct k as [|k]; [lia|].
    apply (walk_S n G HG) in Hw. destruct Hw as [w [Hw [Hb Hwi]]].
    assert (Hii : comm G i i) by (apply (comm_refl n); assumption).
    exists i. split; [apply (class_of_spec n G i i HG Hn Hi); split; assumption|].
    apply existsb_exists. exists w. split; [|exact Hb].
    apply (class_of_spec n G i w HG Hn Hi). split; [exact Hw|].
    apply (comm_closure n G i i w i k); assumption.
Qed.

(* entrywise "and" of two boolean matrices, transposition, thresholding *)
Definition bandm (A B : bmat) : bmat :=
  map (fun p => map (fun q => fst q && snd q) (combine (fst p) (snd p))) (combine A B).

Lemma bwf_bandm n A B : bwf n A -> bwf n B -> bwf n (bandm A B).
Proof.
  intros [HlA HrA] [HlB HrB]. split.
  - unfold bandm. rewrite map_length, combine_length. lia.
  - intros r Hr. unfold bandm in Hr. apply in_map_iff in Hr.
    destruct Hr as [[a b] [<- Hin]]. cbn [fst snd].
    rewrite map_length, combine_length.
    rewrite (HrA a (in_combine_l _ _ _ _ Hin)), (HrB b (in_combine_r _ _ _ _ Hin)). lia.
Qed.

Lemma bget_bandm n A B i j : bwf n A -> bwf n B -> i < n -> j < n ->
  bget (bandm A B) i j = bget A i j && bget B i j.
Proof.
  intros HA HB Hi Hj. unfold bget, bandm.
  rewrite (nth_map_combine _ A B i [] [] []) by (rewrite ?(proj1 HA), ?(proj1 HB); exact Hi).
  cbn [fst snd].
  rewrite (nth_map_combine _ (nth i A []) (nth i B []) j false false false)
    by (rewrite ?(bwf_row n A i HA Hi), ?(bwf_row n B i HB Hi); exact Hj).
  reflexivity.
Qed.

Lemma bwf_btranspose n B : bwf n B -> bwf n (btranspose B).
Proof.
  intros [Hl Hr]. split.
  - unfold btranspose. rewrite map_length, seq_length. exact Hl.
  - intros r Hin. unfold btranspose in Hin. apply in_map_iff in Hin.
    destruct Hin as [j [<- _]]. rewrite map_length. exact Hl.
Qed.

Lemma bget_btranspose n B i j : bwf n B -> i < n -> j < n ->
  bget (btranspose B) i j = bget B j i.
Proof.
  intros [Hl Hr] Hi Hj. unfold bget at 1. unfold btranspose. rewrite Hl.
  rewrite (nth_map_seq _ n i [] Hi).
  rewrite (nth_map_lt (fun r => nth i r false) B j false []) by lia.
  reflexivity.
Qed.

Lemma bwf_thresh (f : Qc -> bool) n P : wf n n P -> bwf n (map (map f) P).
Proof.
  intros HP. split.
  - rewrite map_length. apply (wf_length _ _ _ HP).
  - intros r Hr. apply in_map_iff in Hr. destruct Hr as [r0 [<- Hr0]].
    rewrite map_length.
    destruct (In_nth _ _ [] Hr0) as [i [Hi Hnth]].
    rewrite (wf_length _ _ _ HP) in Hi. rewrite <- Hnth. apply (wf_row _ _ _ _ HP Hi).
Qed.

Lemma bget_thresh (f : Qc -> bool) n P i j : wf n n P -> i < n -> j < n ->
  bget (map (map f) P) i j = f (mget P i j).
Proof.
  intros HP Hi Hj. unfold bget, mget.
  rewrite (nth_map_lt (map f) P i [] [])
    by (rewrite (wf_length _ _ _ HP); exact Hi).
  apply (nth_map_lt f (nth i P []) j false 0%Qc).
  rewrite (wf_row _ _ _ _ HP Hi). exact Hj.
Qed.

(* counting *)
Lemma count_true_map {A} (g : A -> bool) l : count_true (map g l) = length (filter g l).
Proof.
  unfold count_true. induction l as [|x l IH]; cbn [map filter]; [reflexivity|].
  destruct (g x); cbn [length]; [f_equal|]; exact IH.
Qed.

Lemma bwf_row_eq n B i : bwf n B -> i < n -> nth i B [] = map (fun j => bget B i j) (seq 0 n).
Proof.
  intros HB Hi. apply (nth_ext _ _ false false).
  - rewrite map_length, seq_length. apply (bwf_row n B i HB Hi).
  - intros j Hj. rewrite (bwf_row n B i HB Hi) in Hj.
    rewrite (nth_map_seq _ n j false Hj). reflexivity.
Qed.

Lemma count_row n B i : bwf n B -> i < n ->
  count_true (nth i B []) = length (filter (fun j => bget B i j) (seq 0 n)).
Proof.
  intros HB Hi. rewrite (bwf_row_eq n B i HB Hi) at 1. apply count_true_map.
Qed.

Lemma filter_none {A} (f : A -> bool) l : (forall x, In x l -> f x = false) -> filter f l = [].
Proof.
  induction l as [|x l IH]; intros H; cbn [filter]; [reflexivity|].
  rewrite (H x) by (left; reflexivity). apply IH. intros y Hy. apply H. right; exact Hy.
Qed.

Lemma fold_max_ge l : forall a, a <= fold_left Nat.max l a /\
  forall c, In c l -> c <= fold_left Nat.max l a.
Proof.
  induction l as [|x l IH]; intros a; cbn [fold_left].
  - split; [lia|intros c []].
  - destruct (IH (Nat.max a x)) as [H1 H2]. split; [lia|].
    intros c [->|Hc]; [lia|apply H2; exact Hc].
Qed.

Lemma fold_max_in l : forall a, fold_left Nat.max l a = a \/ In (fold_left Nat.max l a) l.
Proof.
  induction l as [|x l IH]; intros a; cbn [fold_left]; [left; reflexivity|].
  destruct (IH (Nat.max a x)) as [H|H].
  - rewrite H. destruct (Nat.max_spec a x) as [[_ E]|[_ E]]; rewrite E.
    + right. left. reflexivity.
    + left. reflexivity.
  - right. right. exact H.
Qed.

Lemma ergodic_mask_unfold n M : 0 < n -> wf n n M -> is_tmat atol8 M = true ->
  ergodic_mask atol8 M =
  Ok (let B := map (map (fun x => Qc_ltb atol8 x)) (mpow M (wexp n)) in
      let counts := map count_true (bandm B (btranspose B)) in
      map (fun c => Nat.eqb c (fold_left Nat.max counts 0)) counts).
Proof.
  intros Hn HM Ht. unfold ergodic_mask. rewrite Ht. cbn [negb].
  rewrite (wf_length _ _ _ HM), (mpow_scaled_eq n M _ Hn HM). reflexivity.
Qed.

Section Mask.
Variables (n : nat) (M : mat).
Hypothesis Hn : 0 < n.
Hypothesis HM : wf n n M.
Hypothesis NM : entries_nonneg M.
Hypothesis Hfree : power_threshold_free n M.
Hypothesis Hap : forall i, i < n -> cyclic (supp M) i -> aperiodic_at (supp M) i.
Local Notation G := (supp M).
Local Notation B := (map (map (fun x => Qc_ltb atol8 x)) (mpow M (wexp n))).
Local Notation S := (bandm B (btranspose B)).

Lemma mask_HG : bwf n G.
Proof. apply bwf_supp. exact HM. Qed.

Lemma mask_HB : bwf n B.
Proof. apply bwf_thresh. apply wf_mpow; assumption. Qed.

Lemma mask_HS : bwf n S.
Proof. apply bwf_bandm; [exact mask_HB|apply bwf_btranspose; exact mask_HB]. Qed.

Lemma B_walk i j : i < n -> j < n -> (bget B i j = true <-> walk G (wexp n) i j).
Proof.
  intros Hi Hj.
  rewrite (bget_thresh _ n _ i j (wf_mpow n M _ Hn HM) Hi Hj).
  rewrite <- (pos_pow_iff_walk n M (wexp n) i j Hn HM NM Hi Hj).
  rewrite Qc_ltb_iff. split.
  - intros H. eapply Qclt_trans; [exact atol8_pos|exact H].
  - intros H. destruct (Hfree i j Hi Hj) as [E|Hgt]; [|exact Hgt].
    exfalso. rewrite E in H. exact (Qclt_irrefl _ H).
Qed.

Lemma S_walk i j : i < n -> j < n ->
  (bget S i j = true <-> walk G (wexp n) i j /\ walk G (wexp n) j i).
Proof.
  intros Hi Hj.
  rewrite (bget_bandm n _ _ i j mask_HB (bwf_btranspose n _ mask_HB) Hi Hj).
  rewrite (bget_btranspose n _ i j mask_HB Hi Hj).
  rewrite andb_true_iff, (B_walk i j Hi Hj), (B_walk j i Hj Hi). tauto.
Qed.

Lemma count_csize i : i < n -> count_true (nth i S []) = csize G i.
Proof.
  intros Hi. rewrite (count_row n S i mask_HS Hi). unfold csize.
  pose proof mask_HG as HG.
  destruct (has_internal_edge G (reach G) i) eqn:E.
  - apply (cyclic_iff_internal n G i HG Hn Hi) in E.
    pose proof (Hap i Hi E) as Hapi.
    unfold class_of. rewrite (proj1 (length_reach n G HG)). f_equal.
    apply filter_ext_in. intros j Hj. apply in_seq in Hj.
    assert (Hj' : j < n) by lia.
    apply Bool.eq_iff_eq_true. rewrite (S_walk i j Hi Hj').
    rewrite (sym_power_is_class n G i j HG Hn Hi Hj' Hapi).
    unfold same_class. rewrite andb_true_iff.
    rewrite (reach_spec n G i j HG Hn Hi Hj'), (reach_spec n G j i HG Hn Hj' Hi).
    reflexivity.
  - rewrite filter_none; [reflexivity|]. intros j Hj. apply in_seq in Hj.
    assert (Hj' : j < n) by lia.
    destruct (bget S i j) eqn:Es; [|reflexivity]. exfalso.
    apply (S_walk i j Hi Hj') in Es.
    apply (sym_power_acyclic n G i j HG Hn Hi); [|exact Es].
    intros Hc. apply (cyclic_iff_internal n G i HG Hn Hi) in Hc. congruence.
Qed.
End Mask.

Theorem ergodic_mask_classes n M mask : 0 < n -> wf n n M -> entries_nonneg M -> rows_sum_one M ->
  is_tmat atol8 M = true -> power_threshold_free n M ->
  (forall i, i < n -> cyclic (supp M) i -> aperiodic_at (supp M) i) ->
  ergodic_mask atol8 M = Ok mask ->
  length mask = n /\
  forall i, i < n -> (nth i mask false = true <-> forall j, j < n -> csize (supp M) j <= csize (supp M) i).
Proof.
  intros Hn HM NM SM Ht Hfree Hap Hmask.
  rewrite (ergodic_mask_unfold n M Hn HM Ht) in Hmask. cbv zeta in Hmask.
  injection Hmask as Hmask.
  set (S := bandm (map (map (fun x => Qc_ltb atol8 x)) (mpow M (wexp n)))
                  (btranspose (map (map (fun x => Qc_ltb atol8 x)) (mpow M (wexp n))))) in *.
  set (counts := map count_true S) in *.
  set (mx := fold_left Nat.max counts 0) in *.
  pose proof (mask_HS n M Hn HM) as HS. fold S in HS.
  assert (Hlen : length counts = n) by (unfold counts; rewrite map_length; exact (proj1 HS)).
  assert (Hnth : forall i, i < n -> nth i counts 0 = csize (supp M) i).
  { intros i Hi. unfold counts.
    rewrite (nth_map_lt count_true S i 0 []) by (rewrite (proj1 HS); exact Hi).
    apply (count_csize n M Hn HM NM Hfree Hap i Hi). }
  subst mask. split; [rewrite map_length; exact Hlen|].
  intros i Hi.
  rewrite (nth_map_lt (fun c => Nat.eqb c mx) counts i false 0) by (rewrite Hlen; exact Hi).
  rewrite (Hnth i Hi), Nat.eqb_eq.
  destruct (fold_max_ge counts 0) as [_ Hge]. fold mx in Hge.
  split.
  - intros E j Hj. rewrite E, <- (Hnth j Hj). apply Hge. apply nth_In. rewrite Hlen. exact Hj.
  - intros Hall.
    assert (H1 : csize (supp M) i <= mx).
    { rewrite <- (Hnth i Hi). apply Hge. apply nth_In. rewrite Hlen. exact Hi. }
    assert (H2 : mx <= csize (supp M) i).
    { destruct (fold_max_in counts 0) as [E|Hin]; fold mx in E || fold mx in Hin; [lia|].
      destruct (In_nth counts mx 0 Hin) as [j [Hj Ej]]. rewrite Hlen in Hj.
      rewrite <- Ej, (Hnth j Hj). apply Hall. exact Hj. }
    lia.
Qed.

Print Assumptions reach_spec.
Print Assumptions sym_power_is_class.
Print Assumptions sym_power_acyclic.
Print Assumptions ergodic_mask_classes.
