(* Public wrappers = specification wrappers (C06, C13): validation through the
   sorted-merge intersection equals the direct label-set test; the StateTraj
   round trip hands the input trajectories to the kernels. *)
From Coq Require Import List ZArith Arith Bool Lia QArith Qcanon.
From MsmV Require Import Lib.Result Lib.PyList Lib.Sorting Lib.QMat Model.Labels Model.StateTraj
  Model.Events Model.Similarity Spec.Wrappers.
From MsmV Require Import Proofs.LabelsFacts Proofs.MsmFacts Proofs.StateTrajFacts Proofs.EventsFacts
  Proofs.SimilarityFacts.
Import ListNotations.
Local Open Scope nat_scope.

(* md.estimate_waiting_times = reference extraction, incl. the rejection of
   overlapping / absent start and final states *)
Lemma estimate_waiting_times_eq_ref ts start final :
  concat ts <> [] -> (forall v, In v (concat ts) -> small29 v) ->
  estimate_waiting_times ts start final = wt_ref ts start final.
Proof. TODO. Qed.

Lemma estimate_paths_eq_ref ts start final :
  concat ts <> [] -> (forall v, In v (concat ts) -> small29 v) ->
  estimate_paths ts start final = paths_ref ts start final.
Proof. TODO. Qed.

(* md.compare_discretization = contingency formula on the ranks, incl. rejections *)
Lemma compare_discretization_eq_ref ts1 ts2 method :
  concat ts1 <> [] -> concat ts2 <> [] ->
  (forall v, In v (concat ts1) -> small29 v) -> (forall v, In v (concat ts2) -> small29 v) ->
  compare_discretization ts1 ts2 method = sim_ref ts1 ts2 method.
Proof. TODO. Qed.
