(* Public wrappers = specification wrappers (C06, C13): validation through the
   sorted-merge intersection equals the direct label-set test; the StateTraj
   round trip hands the input trajectories to the kernels. *)
From Coq Require Import List ZArith Arith Bool Lia QArith Qcanon.
From MsmV Require Import Lib.Result Lib.PyList Lib.Sorting Lib.QMat Model.Labels Model.StateTraj
  Model.Events Model.Similarity Spec.Wrappers.
From MsmV Require Import Proofs.LabelsFacts Proofs.MsmFacts Proofs.StateTrajFacts Proofs.EventsFacts
  Proofs.SimilarityFacts.
Import ListNotations.
Local Open Scope nat_scope.

(* ---------------- helpers: filter lengths ---------------- *)
Lemma filter_length_le {A} (P : A -> bool) l : length (filter P l) <= length l.
Proof.
  induction l as [|x xs IH]; simpl; [lia|].
  destruct (P x) eqn:EP; simpl; lia.
Qed.

Lemma filter_length_zero {A} (P : A -> bool) l :
  length (filter P l) = 0 <-> (forall x, In x l -> P x = false).
Proof.
  induction l as [|x xs IH]; simpl.
  - split; [intros _ y []|reflexivity].
  - destruct (P x) eqn:EP; simpl.
    + split; [discriminate|]. intros H. specialize (H x (or_introl eq_refl)). congruence.
    + rewrite IH. split.
      * intros H y [<-|Hy]; [exact EP|apply H; exact Hy].
      * intros H y Hy. apply H. right; exact Hy.
Qed.

Lemma filter_length_full {A} (P : A -> bool) l :
  length (filter P l) = length l <-> (forall x, In x l -> P x = true).
Proof.
  induction l as [|x xs IH]; simpl.
  - split; [intros _ y []|reflexivity].
  - destruct (P x) eqn:EP; simpl.
    + split.
      * intros H y [<-|Hy]; [exact EP|]. apply IH; [lia|exact Hy].
      * intros H. f_equal. apply IH. intros y Hy. apply H. right; exact Hy.
    + split.
      * intros H. pose proof (filter_length_le P xs) as Hle. lia.
      * intros H. specialize (H x (or_introl eq_refl)). congruence.
Qed.

(* ---------------- membership in usort ---------------- *)
Lemma mem_Z_usort x l : mem_Z x (usort l) = mem_Z x l.
Proof.
  apply Bool.eq_iff_eq_true. rewrite !mem_Z_In. apply usort_In.
Qed.

Lemma disjoint_check s f :
  Nat.eqb (length (filter (fun x => mem_Z x (usort f)) (usort s))) 0
  = negb (existsb (fun x => mem_Z x f) s).
Proof.
  apply Bool.eq_iff_eq_true. rewrite Nat.eqb_eq, filter_length_zero, negb_true_iff.
  split.
  - intros H. destruct (existsb (fun x => mem_Z x f) s) eqn:EE; [|reflexivity].
    apply existsb_exists in EE as [x [Hx Hm]].
    rewrite <- mem_Z_usort in Hm. rewrite H in Hm; [discriminate|]. apply usort_In; exact Hx.
  - intros H x Hx. rewrite mem_Z_usort. destruct (mem_Z x f) eqn:EM; [|reflexivity].
    assert (HE : existsb (fun x => mem_Z x f) s = true).
    { apply existsb_exists. exists x. split; [apply usort_In; exact Hx|exact EM]. }
    congruence.
Qed.

Lemma subset_check s all :
  Nat.eqb (length (filter (fun x => mem_Z x (usort all)) (usort s))) (length (usort s))
  = forallb (fun x => mem_Z x all) s.
Proof.
  apply Bool.eq_iff_eq_true. rewrite Nat.eqb_eq, filter_length_full, forallb_forall.
  split.
  - intros H x Hx. rewrite <- mem_Z_usort. apply H. apply usort_In; exact Hx.
  - intros H x Hx. rewrite mem_Z_usort. apply H. apply usort_In; exact Hx.
Qed.

Lemma validate_spec ts start final :
  validate (usort (concat ts)) start final
  = if basins_valid ts start final then Ok (usort start, usort final) else Err ValueError.
Proof.
  unfold validate, basins_valid.
  rewrite !intersect_spec by apply usort_sorted.
  rewrite disjoint_check, !subset_check.
  destruct (negb (existsb (fun x => mem_Z x final) start)) eqn:E1;
  destruct (forallb (fun x => mem_Z x (concat ts)) start) eqn:E2;
  destruct (forallb (fun x => mem_Z x (concat ts)) final) eqn:E3; reflexivity.
Qed.

(* ---------------- extensionality in the basin sets ---------------- *)
Lemma first_in_ext P P' s :
  (forall x, mem_Z x P = mem_Z x P') -> first_in P s = first_in P' s.
Proof.
  intros HP. induction s as [|x rest IH]; simpl; [reflexivity|].
  rewrite HP, IH. reflexivity.
Qed.

Lemma events_ref_ext fuel off s S S' F F' :
  (forall x, mem_Z x S = mem_Z x S') -> (forall x, mem_Z x F = mem_Z x F') ->
  events_ref fuel off s S F = events_ref fuel off s S' F'.
Proof.
  intros HS HF. revert off s. induction fuel as [|f IH]; intros off s; simpl; [reflexivity|].
  rewrite (first_in_ext S S' s HS).
  destruct (first_in S' s) as [a|]; [|reflexivity].
  rewrite (first_in_ext F F' _ HF).
  destruct (first_in F' (skipn (a + 1) s)) as [b|]; [|reflexivity].
  rewrite IH. reflexivity.
Qed.

Lemma erase_step_ext S S' path x :
  (forall x, mem_Z x S = mem_Z x S') -> erase_step S path x = erase_step S' path x.
Proof. intros HS. unfold erase_step. rewrite HS. reflexivity. Qed.

Lemma loop_erase_ext S S' slice :
  (forall x, mem_Z x S = mem_Z x S') -> loop_erase S slice = loop_erase S' slice.
Proof.
  intros HS. unfold loop_erase. generalize (@nil Z) as acc.
  induction slice as [|x rest IH]; intros acc; simpl; [reflexivity|].
  rewrite (erase_step_ext S S' acc x HS). apply IH.
Qed.

Lemma events_usort t start final :
  events t (usort start) (usort final) = events_ref (length t) 0 t start final.
Proof.
  rewrite events_eq_ref. apply events_ref_ext; intros x; apply mem_Z_usort.
Qed.

(* md.estimate_waiting_times = reference extraction, incl. the rejection of
   overlapping / absent start and final states *)
Lemma estimate_waiting_times_eq_ref ts start final :
  concat ts <> [] -> (forall v, In v (concat ts) -> small29 v) ->
  estimate_waiting_times ts start final = wt_ref ts start final.
Proof.
  intros Hne Hsm. unfold estimate_waiting_times, wt_ref.
  rewrite (mk_spec_correct ts Hne Hsm). cbn [bind].
  rewrite states_mk_spec, validate_spec.
  destruct (basins_valid ts start final) eqn:EB; cbn [bind]; [|reflexivity].
  rewrite (trajs_mk_spec ts Hne Hsm). cbn [bind fst snd].
  f_equal. f_equal. apply map_ext. intros t. unfold wt_single.
  rewrite events_usort. reflexivity.
Qed.

Lemma estimate_paths_eq_ref ts start final :
  concat ts <> [] -> (forall v, In v (concat ts) -> small29 v) ->
  estimate_paths ts start final = paths_ref ts start final.
Proof.
  intros Hne Hsm. unfold estimate_paths, paths_ref.
  rewrite (mk_spec_correct ts Hne Hsm). cbn [bind].
  rewrite states_mk_spec, validate_spec.
  destruct (basins_valid ts start final) eqn:EB; cbn [bind]; [|reflexivity].
  rewrite (trajs_mk_spec ts Hne Hsm). cbn [bind fst snd].
  f_equal. f_equal. f_equal. apply map_ext. intros t. unfold paths_single.
  rewrite events_usort. apply map_ext. intros p.
  rewrite (loop_erase_ext (usort start) start) by (intros x; apply mem_Z_usort).
  reflexivity.
Qed.

(* ---------------- compare_discretization ---------------- *)
Lemma flat_idx_mk_spec ts :
  concat (st_idx (mk_spec ts)) = map (rank (usort (concat ts))) (concat ts).
Proof.
  rewrite index_rank. unfold unique. symmetry. apply concat_map.
Qed.

Lemma rank_map_below l x :
  In x (map (rank (usort l)) l) -> x < length (usort l).
Proof.
  intros Hx. apply in_map_iff in Hx as [v [<- Hv]].
  apply rank_nth. apply usort_In. exact Hv.
Qed.

(* md.compare_discretization = contingency formula on the ranks, incl. rejections *)
Lemma compare_discretization_eq_ref ts1 ts2 method :
  concat ts1 <> [] -> concat ts2 <> [] ->
  (forall v, In v (concat ts1) -> small29 v) -> (forall v, In v (concat ts2) -> small29 v) ->
  compare_discretization ts1 ts2 method = sim_ref ts1 ts2 method.
Proof.
  intros Hne1 Hne2 Hsm1 Hsm2. unfold compare_discretization, sim_ref.
  rewrite (mk_spec_correct ts1 Hne1 Hsm1), (mk_spec_correct ts2 Hne2 Hsm2). cbn [bind].
  destruct (counters_mk_spec ts1) as [_ [Hf1 Hs1]].
  destruct (counters_mk_spec ts2) as [_ [Hf2 Hs2]].
  rewrite Hf1, Hf2, Hs1, Hs2.
  destruct (negb ((method =? 0)%Z || (method =? 1)%Z)) eqn:EM; [reflexivity|].
  destruct (Nat.eqb (length (concat ts1)) (length (concat ts2))) eqn:EL; cbn [negb]; [|reflexivity].
  apply Nat.eqb_eq in EL.
  destruct (Nat.eqb (length (usort (concat ts1))) 1 || Nat.eqb (length (usort (concat ts2))) 1) eqn:E1;
    [reflexivity|].
  f_equal. rewrite !flat_idx_mk_spec.
  apply compare_idx_eq_spec.
  - rewrite !map_length. exact EL.
  - intros x Hx. apply rank_map_below. exact Hx.
  - intros x Hx. apply rank_map_below. exact Hx.
Qed.
