(* C20: smoothing filters; C19: chunking *)
From Coq Require Import List ZArith Arith Bool Lia QArith Qcanon.
From MsmV Require Import Lib.Result Lib.PyList Lib.QMat Model.Filter Proofs.QMatFacts.
Import ListNotations.
Local Open Scope nat_scope.

(* kernel hypotheses: odd length, non-negative, normalised, symmetric *)
Definition kernel_ok (w : vec) : Prop :=
  Nat.odd (length w) = true /\ (forall x, In x w -> (0 <= x)%Qc) /\ qsum w = 1%Qc /\
  (forall k, k < length w -> nth k w 0%Qc = nth (length w - 1 - k) w 0%Qc).

(* ---- helpers ---- *)
Definition gterm (w xs : vec) (i k : nat) : Qc :=
  (nth k w 0 * clamp_get xs (Z.of_nat i + Z.of_nat k - Z.of_nat ((length w - 1) / 2)))%Qc.

Lemma gfilt_nth w xs i : i < length xs ->
  nth i (gfilt w xs) 0%Qc = qsum (map (gterm w xs i) (seq 0 (length w))).
Proof.
  intros Hi. unfold gfilt. rewrite nth_map_seq by exact Hi. reflexivity.
Qed.

Lemma qsum_lin {A} (a b : Qc) (f g : A -> Qc) l :
  qsum (map (fun k => (a * f k + b * g k)%Qc) l) = (a * qsum (map f l) + b * qsum (map g l))%Qc.
Proof.
  induction l as [|x l IH]; cbn [map].
  - rewrite !qsum_nil. ring.
  - rewrite !qsum_cons, IH. ring.
Qed.

Lemma qsum_rev_index (f : nat -> Qc) m :
  qsum (map f (seq 0 m)) = qsum (map (fun k => f (m - 1 - k)) (seq 0 m)).
Proof.
  induction m as [|m IH]; [reflexivity|].
  rewrite seq_S at 1. rewrite map_app, qsum_app. cbn [Nat.add map]. rewrite qsum_cons, qsum_nil.
  cbn [seq map]. rewrite qsum_cons.
  rewrite <- seq_shift, map_map.
  replace (S m - 1 - 0) with m by lia.
  rewrite IH.
  rewrite (qsum_map_ext (fun k => f (S m - 1 - S k)) (fun k => f (m - 1 - k))).
  - ring.
  - intros k _. f_equal. lia.
Qed.

Lemma clamp_idx_lt n j : 0 < n ->
  Z.to_nat (Z.max 0 (Z.min (Z.of_nat n - 1) j)) < n.
Proof. intros Hn. lia. Qed.

Lemma nth_lin (a b : Qc) xs ys m : length xs = length ys ->
  nth m (map (fun p => (a * fst p + b * snd p)%Qc) (combine xs ys)) 0%Qc
  = (a * nth m xs 0 + b * nth m ys 0)%Qc.
Proof.
  intros Hl. destruct (lt_dec m (length xs)) as [Hm|Hm].
  - rewrite (nth_map_lt _ _ _ _ (0%Qc, 0%Qc)) by (rewrite combine_length; lia).
    rewrite combine_nth by exact Hl. cbn [fst snd]. reflexivity.
  - rewrite !nth_overflow; [ring|lia|lia|rewrite map_length, combine_length; lia].
Qed.

Lemma lin_length (a b : Qc) xs ys : length xs = length ys ->
  length (map (fun p => (a * fst p + b * snd p)%Qc) (combine xs ys)) = length xs.
Proof. intros Hl. rewrite map_length, combine_length. lia. Qed.

(* PRIORITY 1 *)
Lemma gfilt_length w xs : length (gfilt w xs) = length xs.
Proof. unfold gfilt. rewrite map_length, seq_length. reflexivity. Qed.

(* PRIORITY 2: linear (for any kernel) *)
Lemma gfilt_linear w xs ys a b : length xs = length ys ->
  gfilt w (map (fun p => (a * fst p + b * snd p)%Qc) (combine xs ys))
  = map (fun p => (a * fst p + b * snd p)%Qc) (combine (gfilt w xs) (gfilt w ys)).
Proof.
  intros Hl.
  apply (nth_ext _ _ 0%Qc 0%Qc).
  - rewrite gfilt_length, !lin_length; rewrite ?gfilt_length; auto.
  - intros i Hi. rewrite gfilt_length, lin_length in Hi by exact Hl.
    rewrite nth_lin by (rewrite !gfilt_length; exact Hl).
    rewrite !gfilt_nth; [|lia|exact Hi|rewrite lin_length; auto].
    rewrite <- qsum_lin. apply qsum_map_ext. intros k _.
    unfold gterm, clamp_get. rewrite lin_length by exact Hl.
    rewrite nth_lin by exact Hl. rewrite <- Hl. ring.
Qed.


Lemma qsum_kernel w : qsum (map (fun k => nth k w 0%Qc) (seq 0 (length w))) = qsum w.
Proof. symmetry. apply qsum_nth_seq. reflexivity. Qed.

Lemma clamp_get_repeat c n j : 0 < n -> clamp_get (repeat c n) j = c.
Proof.
  intros Hn. unfold clamp_get. rewrite repeat_length.
  rewrite (nth_indep _ 0%Qc c) by (rewrite repeat_length; apply clamp_idx_lt; exact Hn).
  apply nth_repeat.
Qed.

(* PRIORITY 3: a constant series is mapped to itself *)
Lemma gfilt_const w c n : qsum w = 1%Qc -> gfilt w (repeat c n) = repeat c n.
Proof.
  intros Hw.
  apply (nth_ext _ _ 0%Qc 0%Qc).
  - apply gfilt_length.
  - intros i Hi. rewrite gfilt_length, repeat_length in Hi.
    rewrite gfilt_nth by (rewrite repeat_length; exact Hi).
    rewrite (qsum_map_ext _ (fun k => (nth k w 0 * c)%Qc)).
    + rewrite (qsum_map_scale_r c (fun k => nth k w 0%Qc)), qsum_kernel, Hw.
      rewrite (nth_indep _ 0%Qc c) by (rewrite repeat_length; exact Hi).
      rewrite nth_repeat. ring.
    + intros k _. unfold gterm. rewrite clamp_get_repeat by lia. reflexivity.
Qed.

Lemma clamp_get_In xs j : xs <> [] -> In (clamp_get xs j) xs.
Proof.
  intros Hne. unfold clamp_get. apply nth_In. apply clamp_idx_lt.
  destruct xs; [congruence|cbn [length]; lia].
Qed.

Lemma qsum_weighted_le (f g h : nat -> Qc) l :
  (forall k, In k l -> (0 <= f k)%Qc) -> (forall k, In k l -> (g k <= h k)%Qc) ->
  (qsum (map (fun k => (f k * g k)%Qc) l) <= qsum (map (fun k => (f k * h k)%Qc) l))%Qc.
Proof.
  induction l as [|x l IH]; intros Hf Hg; cbn [map].
  - rewrite qsum_nil. apply Qcle_refl.
  - rewrite !qsum_cons. apply Qcplus_le_compat.
    + rewrite (Qcmult_comm (f x) (g x)), (Qcmult_comm (f x) (h x)).
      apply Qcmult_le_compat_r; [apply Hg|apply Hf]; left; reflexivity.
    + apply IH; intros k Hk; [apply Hf|apply Hg]; right; exact Hk.
Qed.

(* PRIORITY 4: every value stays between bounds of the series *)
Lemma gfilt_bounds w xs lo hi : (forall x, In x w -> (0 <= x)%Qc) -> qsum w = 1%Qc ->
  (forall x, In x xs -> (lo <= x)%Qc /\ (x <= hi)%Qc) ->
  forall y, In y (gfilt w xs) -> (lo <= y)%Qc /\ (y <= hi)%Qc.
Proof.
  intros Hpos Hsum Hb y Hy.
  unfold gfilt in Hy. apply in_map_iff in Hy. destruct Hy as [i [Hy Hi]].
  apply in_seq in Hi.
  assert (Hne : xs <> []) by (destruct xs; [cbn [length] in Hi; lia|congruence]).
  assert (Hw : forall k, In k (seq 0 (length w)) -> (0 <= nth k w 0)%Qc).
  { intros k Hk. apply in_seq in Hk. apply Hpos. apply nth_In. lia. }
  set (r := Z.of_nat ((length w - 1) / 2)) in Hy.
  set (g := fun k => clamp_get xs (Z.of_nat i + Z.of_nat k - r)) in *.
  assert (Elo : lo = qsum (map (fun k => (nth k w 0 * lo)%Qc) (seq 0 (length w)))).
  { rewrite (qsum_map_scale_r lo (fun k => nth k w 0%Qc)), qsum_kernel, Hsum. ring. }
  assert (Ehi : hi = qsum (map (fun k => (nth k w 0 * hi)%Qc) (seq 0 (length w)))).
  { rewrite (qsum_map_scale_r hi (fun k => nth k w 0%Qc)), qsum_kernel, Hsum. ring. }
  subst y. split.
  - rewrite Elo at 1.
    apply (qsum_weighted_le (fun k => nth k w 0%Qc) (fun _ => lo) g); [exact Hw|].
    intros k _. apply Hb. apply clamp_get_In. exact Hne.
  - rewrite Ehi at 1.
    apply (qsum_weighted_le (fun k => nth k w 0%Qc) g (fun _ => hi)); [exact Hw|].
    intros k _. apply Hb. apply clamp_get_In. exact Hne.
Qed.

Lemma clamp_get_rev xs j :
  clamp_get (rev xs) j = clamp_get xs (Z.of_nat (length xs) - 1 - j).
Proof.
  unfold clamp_get. rewrite rev_length.
  destruct (Nat.eq_dec (length xs) 0) as [H0|H0].
  - destruct xs; [|discriminate]. cbn [rev length].
    destruct (Z.to_nat _), (Z.to_nat _); reflexivity.
  - rewrite rev_nth by (apply clamp_idx_lt; lia).
    f_equal. lia.
Qed.

Lemma odd_half m : Nat.odd m = true -> m = 2 * ((m - 1) / 2) + 1.
Proof.
  intros Ho. apply Nat.odd_spec in Ho. destruct Ho as [q Hq].
  replace (m - 1) with (q * 2) by lia. rewrite Nat.div_mul by lia. lia.
Qed.

(* PRIORITY 5: commutes with time reversal (symmetric kernel) *)
Lemma gfilt_reverse w xs : kernel_ok w -> gfilt w (rev xs) = rev (gfilt w xs).
Proof.
  intros [Hodd [_ [_ Hsym]]].
  apply (nth_ext _ _ 0%Qc 0%Qc).
  - rewrite rev_length, !gfilt_length, rev_length. reflexivity.
  - intros i Hi. rewrite gfilt_length, rev_length in Hi.
    rewrite rev_nth by (rewrite gfilt_length; exact Hi).
    rewrite gfilt_length.
    rewrite !gfilt_nth; [|lia|rewrite rev_length; exact Hi].
    rewrite (qsum_rev_index (gterm w xs (length xs - S i))).
    apply qsum_map_ext. intros k Hk. apply in_seq in Hk.
    unfold gterm. rewrite clamp_get_rev.
    rewrite <- (Hsym k) by lia.
    pose proof (odd_half _ Hodd) as Hm.
    f_equal. f_equal. lia.
Qed.

(* PRIORITY 6: running mean = the documented centred window with zeros outside; w = 1 is the identity *)
Lemma runningmean_length xs w : length (runningmean xs w) = length xs.
Proof. unfold runningmean. rewrite map_length, seq_length. reflexivity. Qed.

Lemma runningmean_window xs w i : 1 <= w -> i < length xs ->
  nth i (runningmean xs w) 0%Qc = window_mean xs w i.
Proof.
  intros Hw Hi. unfold runningmean, window_mean.
  rewrite nth_map_seq by exact Hi.
  f_equal.
  rewrite (qsum_rev_index _ w).
  apply qsum_map_ext. intros k Hk. apply in_seq in Hk.
  f_equal.
  assert (Hh : (w - 1) / 2 <= w - 1) by (apply Nat.div_le_upper_bound; lia).
  lia.
Qed.

Lemma Qc_of_Z_1 : Qc_of_Z 1 = 1%Qc.
Proof. apply Qc_is_canon. reflexivity. Qed.

Lemma runningmean_w1 xs : runningmean xs 1 = xs.
Proof.
  apply (nth_ext _ _ 0%Qc 0%Qc).
  - apply runningmean_length.
  - intros i Hi. rewrite runningmean_length in Hi.
    unfold runningmean. rewrite nth_map_seq by exact Hi.
    cbn [seq map]. rewrite qsum_cons, qsum_nil.
    change (Z.of_nat 1) with 1%Z. rewrite Qc_of_Z_1.
    change ((1 - 1) / 2) with 0.
    unfold zget.
    replace (Z.of_nat i + Z.of_nat 0 - Z.of_nat 0)%Z with (Z.of_nat i) by lia.
    destruct (Z.ltb_spec (Z.of_nat i) 0) as [H1|H1]; [lia|].
    destruct (Z.leb_spec (Z.of_nat (length xs)) (Z.of_nat i)) as [H2|H2]; [lia|].
    cbn [orb]. rewrite Nat2Z.id. field. discriminate.
Qed.

(* ---- chunking helpers ---- *)
Lemma list_sum_repeat c k : list_sum (repeat c k) = k * c.
Proof.
  induction k as [|k IH]; [reflexivity|]. cbn [repeat].
  change (list_sum (c :: repeat c k)) with (c + list_sum (repeat c k)). rewrite IH. lia.
Qed.

Lemma split_lens_concat_prefix {A} (lens : list nat) (l : list A) :
  list_sum lens <= length l -> concat (split_lens lens l) = firstn (list_sum lens) l.
Proof.
  revert l; induction lens as [|n ns IH]; intros l H; cbn [split_lens concat];
    try change (list_sum (n :: ns)) with (n + list_sum ns) in *.
  - reflexivity.
  - rewrite IH by (rewrite skipn_length; lia).
    rewrite <- (firstn_skipn n l) at 3.
    rewrite firstn_app, firstn_length, firstn_firstn.
    replace (Nat.min (n + list_sum ns) n) with n by lia.
    replace (n + list_sum ns - Nat.min n (length l)) with (list_sum ns) by lia.
    reflexivity.
Qed.

Lemma split_lens_lengths_prefix {A} (lens : list nat) (l : list A) :
  list_sum lens <= length l -> map (@length A) (split_lens lens l) = lens.
Proof.
  revert l; induction lens as [|n ns IH]; intros l H; cbn [split_lens map]; [reflexivity|].
  change (list_sum (n :: ns)) with (n + list_sum ns) in *.
  rewrite firstn_length, IH by (rewrite skipn_length; lia). f_equal. lia.
Qed.

Lemma chunks_fit {A} (l : list A) chunk : 1 <= chunk -> length l / chunk * chunk <= length l.
Proof. intros Hc. rewrite Nat.mul_comm. apply Nat.mul_div_le. lia. Qed.

Lemma last_snoc {A} (l : list A) x d : last (l ++ [x]) d = x.
Proof. apply last_last. Qed.

(* PRIORITY 7 (C19) *)
Lemma split_array_concat {A} (l : list A) chunk : 1 <= chunk -> concat (split_array l chunk) = l.
Proof.
  intros Hc. unfold split_array.
  pose proof (chunks_fit l chunk Hc) as Hfit.
  set (k := length l / chunk) in *.
  rewrite last_snoc, removelast_last.
  assert (Hp : concat (split_lens (repeat chunk k) l) = firstn (k * chunk) l).
  { rewrite split_lens_concat_prefix; rewrite list_sum_repeat; [reflexivity|exact Hfit]. }
  destruct (Nat.eqb_spec (length (skipn (k * chunk) l)) 0) as [He|He].
  - rewrite Hp. rewrite skipn_length in He. apply firstn_all2. lia.
  - rewrite concat_app, Hp. cbn [concat]. rewrite app_nil_r. apply firstn_skipn.
Qed.

Lemma split_array_sizes {A} (l : list A) chunk c : 1 <= chunk -> In c (split_array l chunk) ->
  1 <= length c /\ length c <= chunk.
Proof.
  intros Hc Hin. unfold split_array in Hin.
  pose proof (chunks_fit l chunk Hc) as Hfit.
  pose proof (Nat.div_mod (length l) chunk ltac:(lia)) as Hdm.
  pose proof (Nat.mod_upper_bound (length l) chunk ltac:(lia)) as Hmod.
  set (k := length l / chunk) in *.
  rewrite last_snoc, removelast_last in Hin.
  assert (Hfull : forall c', In c' (split_lens (repeat chunk k) l) -> length c' = chunk).
  { intros c' Hc'. apply (in_map (@length A)) in Hc'.
    rewrite split_lens_lengths_prefix in Hc' by (rewrite list_sum_repeat; exact Hfit).
    apply repeat_spec in Hc'. exact Hc'. }
  destruct (Nat.eqb_spec (length (skipn (k * chunk) l)) 0) as [He|He].
  - rewrite (Hfull c Hin). lia.
  - apply in_app_or in Hin. destruct Hin as [Hin|[Hin|[]]].
    + rewrite (Hfull c Hin). lia.
    + subst c. rewrite skipn_length in *. split; [lia|]. nia.
Qed.
