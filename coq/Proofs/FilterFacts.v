(* C20: smoothing filters; C19: chunking *)
From Coq Require Import List ZArith Arith Bool Lia QArith Qcanon.
From MsmV Require Import Lib.Result Lib.PyList Lib.QMat Model.Filter Proofs.QMatFacts.
Import ListNotations.
Local Open Scope nat_scope.

(* kernel hypotheses: odd length, non-negative, normalised, symmetric *)
Definition kernel_ok (w : vec) : Prop :=
  Nat.odd (length w) = true /\ (forall x, In x w -> (0 <= x)%Qc) /\ qsum w = 1%Qc /\
  (forall k, k < length w -> nth k w 0%Qc = nth (length w - 1 - k) w 0%Qc).

(* PRIORITY 1 *)
Lemma gfilt_length w xs : length (gfilt w xs) = length xs.
Proof. TODO. Qed.

(* PRIORITY 2: linear (for any kernel) *)
Lemma gfilt_linear w xs ys a b : length xs = length ys ->
  gfilt w (map (fun p => (a * fst p + b * snd p)%Qc) (combine xs ys))
  = map (fun p => (a * fst p + b * snd p)%Qc) (combine (gfilt w xs) (gfilt w ys)).
Proof. TODO. Qed.

(* PRIORITY 3: a constant series is mapped to itself *)
Lemma gfilt_const w c n : qsum w = 1%Qc -> gfilt w (repeat c n) = repeat c n.
Proof. TODO. Qed.

(* PRIORITY 4: every value stays between bounds of the series *)
Lemma gfilt_bounds w xs lo hi : (forall x, In x w -> (0 <= x)%Qc) -> qsum w = 1%Qc ->
  (forall x, In x xs -> (lo <= x)%Qc /\ (x <= hi)%Qc) ->
  forall y, In y (gfilt w xs) -> (lo <= y)%Qc /\ (y <= hi)%Qc.
Proof. TODO. Qed.

(* PRIORITY 5: commutes with time reversal (symmetric kernel) *)
Lemma gfilt_reverse w xs : kernel_ok w -> gfilt w (rev xs) = rev (gfilt w xs).
Proof. TODO. Qed.

(* PRIORITY 6: running mean = the documented centred window with zeros outside; w = 1 is the identity *)
Lemma runningmean_length xs w : length (runningmean xs w) = length xs.
Proof. TODO. Qed.
Lemma runningmean_window xs w i : 1 <= w -> i < length xs ->
  nth i (runningmean xs w) 0%Qc = window_mean xs w i.
Proof. TODO. Qed.
Lemma runningmean_w1 xs : runningmean xs 1 = xs.
Proof. TODO. Qed.

(* PRIORITY 7 (C19): the chunks partition the list: concatenation gives the list back, every
   chunk is non-empty and has at most chunk elements *)
Lemma split_array_concat {A} (l : list A) chunk : 1 <= chunk -> concat (split_array l chunk) = l.
Proof. TODO. Qed.
Lemma split_array_sizes {A} (l : list A) chunk c : 1 <= chunk -> In c (split_array l chunk) ->
  1 <= length c /\ length c <= chunk.
Proof. TODO. Qed.
