(* Wire format: every decoder inverts its encoder (a silent decoding slip would forge
   agreement between model and implementation) *)
From Coq Require Import List ZArith Arith Bool Lia QArith Qcanon.
From MsmV Require Import Lib.Result Run.Wire.
Import ListNotations.
Local Open Scope Z_scope.

Lemma dZ_eZ z rest : dZ (z :: rest) = Some (z, rest).
Proof. reflexivity. Qed.
Lemma dnat_enat n rest : dnat (Z.of_nat n :: rest) = Some (n, rest).
Proof.
  unfold dnat. destruct (Z.ltb_spec (Z.of_nat n) 0) as [Hlt|Hge]; [lia|].
  rewrite Nat2Z.id. reflexivity.
Qed.
Lemma dbool_ebool b rest : dbool (ebool b ++ rest) = Some (b, rest).
Proof. destruct b; reflexivity. Qed.

Lemma drep_concat {A} (d : dec A) (e : A -> list Z) :
  (forall a rest, d (e a ++ rest) = Some (a, rest)) ->
  forall l rest, drep d (length l) (concat (map e l) ++ rest) = Some (l, rest).
Proof.
  intros Hde l. induction l as [|a l IH]; intros rest.
  - reflexivity.
  - cbn [length map concat drep]. rewrite <- app_assoc. rewrite Hde. rewrite IH. reflexivity.
Qed.

(* generic: a list encoded with an element encoder e is decoded by the element decoder d *)
Lemma dlist_elist {A} (d : dec A) (e : A -> list Z) :
  (forall a rest, d (e a ++ rest) = Some (a, rest)) ->
  forall l rest, dlist d (elist e l ++ rest) = Some (l, rest).
Proof.
  intros Hde l rest. unfold dlist, elist. rewrite <- app_comm_cons.
  rewrite dnat_enat. apply drep_concat. exact Hde.
Qed.
Lemma dlist_eZs l rest : dlist dZ (eZs l ++ rest) = Some (l, rest).
Proof.
  pose proof (dlist_elist dZ (fun z => [z]) (fun a r => dZ_eZ a r) l rest) as H.
  unfold elist in H. unfold eZs.
  replace (concat (map (fun z => [z]) l)) with l in H; [exact H|].
  clear H. induction l as [|a l IH]; [reflexivity|]. cbn [map concat app]. rewrite <- IH. reflexivity.
Qed.
Lemma dlist_enats l rest : dlist dnat (enats l ++ rest) = Some (l, rest).
Proof.
  pose proof (dlist_elist dnat (fun n => [Z.of_nat n]) (fun a r => dnat_enat a r) l rest) as H.
  unfold elist in H. unfold enats.
  replace (concat (map (fun n => [Z.of_nat n]) l)) with (map Z.of_nat l) in H; [exact H|].
  clear H. induction l as [|a l IH]; [reflexivity|]. cbn [map concat app]. rewrite <- IH. reflexivity.
Qed.
Lemma dnested_enested ls rest : dlist (dlist dZ) (enested ls ++ rest) = Some (ls, rest).
Proof. unfold enested. apply dlist_elist. exact dlist_eZs. Qed.
Lemma dpair_app {A B} (da : dec A) (db : dec B) (ea : A -> list Z) (eb : B -> list Z) :
  (forall a rest, da (ea a ++ rest) = Some (a, rest)) ->
  (forall b rest, db (eb b ++ rest) = Some (b, rest)) ->
  forall a b rest, dpair da db (ea a ++ eb b ++ rest) = Some ((a, b), rest).
Proof.
  intros Ha Hb a b rest. unfold dpair. rewrite Ha, Hb. reflexivity.
Qed.
(* rationals: numerator / positive denominator of a canonical rational *)
Lemma dQ_eQ q rest : dQ (eQ q ++ rest) = Some (q, rest).
Proof.
  unfold eQ, dQ. cbn [app].
  destruct (Z.ltb_spec 0 (Zpos (Qden (this q)))) as [Hpos|Hneg]; [|lia].
  rewrite Pos2Z.id.
  replace (Qnum (this q) # Qden (this q))%Q with (this q) by (destruct (this q); reflexivity).
  f_equal. f_equal.
  apply Qc_is_canon. simpl. apply Qred_correct.
Qed.
