(* C04: the equilibrium population of an ergodic matrix is THE stationary probability vector *)
From Coq Require Import List ZArith Arith Bool Lia QArith Qcanon.
From MsmV Require Import Lib.Result Lib.PyList Lib.QMat Model.Ergodic Model.Peq
  Proofs.QMatFacts Proofs.HSFacts Proofs.ErgodicFacts Proofs.UniqueFacts.
Import ListNotations.
Local Open Scope nat_scope.

Lemma ergodic_unique n T v w : 0 < n -> wf n n T -> is_ergodic atol8 T = true ->
  length v = n -> length w = n ->
  (forall x, In x v -> (0 <= x)%Qc) -> (forall x, In x w -> (0 <= x)%Qc) ->
  qsum v = 1%Qc -> qsum w = 1%Qc -> vmul v T = v -> vmul w T = w -> v = w.
Proof.
  intros Hn Hwf He Hlv Hlw Hv Hw Sv Sw Stv Stw.
  rewrite (is_ergodic_unfold n T Hn Hwf) in He. apply andb_true_iff in He as [_ He].
  apply (stationary_unique n T (wexp n) v w); try assumption.
  intros i j Hi Hj.
  pose proof (all_entries_mget _ n n _ i j (wf_mpow n T (wexp n) Hn Hwf) He Hi Hj) as H.
  apply Qc_ltb_iff in H. eapply Qclt_trans; [apply atol8_pos|exact H].
Qed.

(* hence: whatever the model returns for an ergodic matrix equals ANY stationary probability vector *)
Lemma peq_is_the_stationary_vector n T allow v w : 0 < n -> wf n n T -> is_ergodic atol8 T = true ->
  peq T allow = Ok (Some v) -> length v = n -> length w = n ->
  (forall x, In x w -> (0 <= x)%Qc) -> qsum w = 1%Qc -> vmul w T = w -> v = w.
Proof.
  intros Hn Hwf He Hp Hlv Hlw Hw Sw Stw. unfold peq in Hp. rewrite He in Hp.
  cbn [negb andb] in Hp. rewrite Bool.andb_false_r in Hp. injection Hp as Hp.
  destruct (stationary_spec T v Hp) as (S1 & S2 & S3).
  apply (ergodic_unique n T v w); assumption.
Qed.
