(* C10: positivity and monotonicity of -tau/ln(lambda) (real analysis, Coq Reals);
   exact second eigenvalue of two-state models *)
From Coq Require Import List ZArith Arith Bool QArith Qcanon Lia.
From Coq Require Import Reals Lra.
From MsmV Require Import Lib.QMat Model.Its.
Import ListNotations.

Local Open Scope R_scope.

Lemma ln_neg_unit (x : R) : 0 < x < 1 -> ln x < 0.
Proof. intros [H0 H1]. rewrite <- ln_1. apply ln_increasing; assumption. Qed.

(* 0 < lambda < 1, tau > 0  ==>  -tau / ln(lambda) > 0 *)
Lemma its_pos (tau lam : R) : 0 < tau -> 0 < lam < 1 -> 0 < - tau / ln lam.
Proof.
  intros Ht Hl. pose proof (ln_neg_unit lam Hl) as Hn.
  unfold Rdiv. replace (- tau * / ln lam) with (tau * / (- ln lam)).
  - apply Rmult_lt_0_compat; [exact Ht|]. apply Rinv_0_lt_compat. lra.
  - rewrite Rinv_opp. ring.
Qed.

(* strictly increasing in lambda on (0,1): descending eigenvalues = slowest first *)
Lemma its_mono (tau l1 l2 : R) : 0 < tau -> 0 < l1 -> l1 < l2 -> l2 < 1 ->
  - tau / ln l1 < - tau / ln l2.
Proof.
  intros Ht H0 H12 H1.
  assert (Hn1 : ln l1 < 0) by (apply ln_neg_unit; lra).
  assert (Hn2 : ln l2 < 0) by (apply ln_neg_unit; lra).
  assert (Hlt : ln l1 < ln l2) by (apply ln_increasing; lra).
  unfold Rdiv.
  replace (- tau * / ln l1) with (tau * / (- ln l1)) by (rewrite Rinv_opp; ring).
  replace (- tau * / ln l2) with (tau * / (- ln l2)) by (rewrite Rinv_opp; ring).
  apply Rmult_lt_compat_l; [exact Ht|]. apply Rinv_lt_contravar; [|lra].
  apply Rmult_lt_0_compat; lra.
Qed.

Local Open Scope Qc_scope.

(* the rule never yields anything but NaN or -tau/ln(lambda) with 0 < lambda < 1 (positive by
   its_pos) for a real eigenvalue: in no case a negative or otherwise spurious number *)
Lemma rule_real_cases tau (lam : Qc) :
  its_rule tau (lam, 0) = ItsNaN \/
  (its_rule tau (lam, 0) = ItsMinusTauOverLn tau lam /\ Qc_ltb 0 lam = true /\ Qc_ltb lam 1 = true).
Proof.
  unfold its_rule, classify. cbn [fst snd].
  assert (H0 : Qc_eqb 0 0 = true) by reflexivity. rewrite H0. cbn [negb].
  destruct (Qc_leb lam 0) eqn:E1; [left; reflexivity|].
  destruct (Qc_ltb lam 1) eqn:E2; [|left; reflexivity].
  right. split; [reflexivity|]. split; [|reflexivity].
  unfold Qc_ltb, Qc_leb in *. now rewrite E1.
Qed.

(* two-state stochastic matrix: (1,-1) is a left eigenvector for lambda_2 = T00 + T11 - 1 *)
Lemma two_state_lambda_spec (a b : Qc) :
  let T := [[a; 1 - a]; [1 - b; b]] in
  vmul [1; - (1)] T = map (fun x => two_state_lambda T * x) [1; - (1)].
Proof.
  cbv [vmul transpose ncols col map seq length nth vdot two_state_lambda mget].
  f_equal; [ring|]. f_equal. ring.
Qed.

Lemma select_its_length {A} (n : nat) (l : list A) : (n <= length l - 1)%nat -> length (select_its n l) = n.
Proof.
  intros H. unfold select_its. rewrite firstn_length. destruct l; simpl in *; lia.
Qed.
