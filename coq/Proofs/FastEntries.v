(* The two "fast" entries of the runner (Run.v, 102 and 503) answer with the code-shaped count fold
   resp. the structurally recursive coring rule; these corollaries state that this is the same answer
   as the specification-shaped entries 101 / 501 give. *)
From Coq Require Import List ZArith Arith Bool Lia QArith Qcanon.
From MsmV Require Import Lib.Result Lib.PyList Lib.Sorting Lib.QMat Model.Labels Model.StateTraj Model.Msm Model.Coring.
From MsmV Require Import Proofs.LabelsFacts Proofs.MsmFacts Proofs.StateTrajFacts Proofs.CoringFacts Proofs.CoringWrap.
Import ListNotations.
Local Open Scope nat_scope.

(* entry 102: the counts of the fold over the constructed object are the label-level pair counts *)
Theorem fast_counts_are_label_counts ts lag s i j :
  concat ts <> [] -> (forall v, In v (concat ts) -> small29 v) -> 1 <= lag ->
  mk ts = Ok s -> i < length (unique ts) -> j < length (unique ts) ->
  zget (count_matrix (nstates s) lag (st_idx s)) i j
  = Z.of_nat (Label_C lag ts (nth i (unique ts) 0%Z) (nth j (unique ts) 0%Z)).
Proof.
  intros Hne Hsm Hl Hmk Hi Hj.
  rewrite mk_spec_correct in Hmk by assumption. injection Hmk as <-.
  assert (Hn : nstates (mk_spec ts) = length (unique ts)) by reflexivity.
  rewrite count_matrix_spec; [|exact Hl|rewrite Hn; apply mk_spec_below].
  rewrite Spec_C_labels by assumption. reflexivity.
Qed.

(* entry 503: the reference schedule IS the public wrapper on well-formed input *)
Theorem fast_coring_is_wrapper ts lag iter :
  concat ts <> [] -> (forall v, In v (concat ts) -> small29 v) ->
  dynamical_coring ts lag iter =
    if (lag <=? 0)%Z then Err ValueError
    else if (lag =? 1)%Z then Ok ts
    else coring_ref ts (Z.to_nat lag) iter.
Proof.
  intros Hne Hsm. rewrite dynamical_coring_wrapper by assumption.
  rewrite coring_kernel_eq_ref. reflexivity.
Qed.
