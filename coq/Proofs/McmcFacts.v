(* C07 / C08: inverse-CDF sampling step, chains, online event counters, histogram *)
From Coq Require Import List ZArith Arith Bool Lia Permutation Sorted QArith Qcanon.
From MsmV Require Import Lib.Result Lib.PyList Lib.Sorting Lib.QMat Model.Labels Model.StateTraj Model.Msm
  Model.Events Model.Mcmc.
From MsmV Require Import Proofs.MsmFacts Proofs.EventsFacts Proofs.QMatFacts.
Import ListNotations.
Local Open Scope nat_scope.

Definition nondecreasing (c : vec) : Prop :=
  forall i j, i <= j -> j < length c -> (nth i c 0 <= nth j c 0)%Qc.


(* ---------- helpers: boolean comparison on Qc ---------- *)
Lemma Qc_ltb_true a b : Qc_ltb a b = true <-> (a < b)%Qc.
Proof.
  unfold Qc_ltb, Qclt. rewrite negb_true_iff. split.
  - intros H. apply Qnot_le_lt. intros Hle. apply Qle_bool_iff in Hle. congruence.
  - intros H. destruct (Qle_bool b a) eqn:E; [|reflexivity].
    apply Qle_bool_iff in E. exfalso. exact (Qlt_not_le _ _ H E).
Qed.
Lemma Qc_ltb_false a b : Qc_ltb a b = false <-> (b <= a)%Qc.
Proof. unfold Qc_ltb, Qcle. rewrite negb_false_iff. apply Qle_bool_iff. Qed.

Lemma Qcle_plus_nonneg a x : (0 <= x)%Qc -> (a <= a + x)%Qc.
Proof.
  intros H. pose proof (Qcplus_le_compat a a 0 x (Qcle_refl a) H) as H'.
  now rewrite Qcplus_0_r in H'.
Qed.

Lemma Qc_sub_0 a b : (a - b = 0)%Qc -> a = b.
Proof. intros H. replace a with ((a - b) + b)%Qc by ring. rewrite H. ring. Qed.

(* ---------- the sampling step ---------- *)
(* PRIORITY 1 *)
Lemma first_lt_spec c u k :
  first_lt c u = Some k <->
  k < length c /\ (u < nth k c 0)%Qc /\ forall j, j < k -> (nth j c 0 <= u)%Qc.
Proof.
  revert k. induction c as [|x t IH]; intros k; cbn [first_lt length].
  - split; [discriminate | intros [H _]; lia].
  - destruct (Qc_ltb u x) eqn:E.
    + apply Qc_ltb_true in E. split.
      * intros H; inversion H; subst. split; [lia|]. split; [exact E|]. intros j Hj; lia.
      * intros [Hk [Hu Hall]]. destruct k as [|k']; [reflexivity|]. exfalso.
        specialize (Hall 0 ltac:(lia)). cbn [nth] in Hall. exact (Qclt_not_le _ _ E Hall).
    + apply Qc_ltb_false in E. destruct k as [|k'].
      * split.
        -- destruct (first_lt t u); discriminate.
        -- intros [_ [Hu _]]. cbn [nth] in Hu. exfalso. exact (Qclt_not_le _ _ Hu E).
      * specialize (IH k'). split.
        -- intros H. destruct (first_lt t u) as [k0|] eqn:E2; [|discriminate].
           inversion H; subst k0. destruct IH as [IH1 _].
           destruct (IH1 eq_refl) as [A [B C]]. split; [lia|]. split; [exact B|].
           intros j Hj. destruct j as [|j]; [exact E|]. cbn [nth]. apply C; lia.
        -- intros [A [B C]]. destruct IH as [_ IH2]. rewrite IH2; [reflexivity|].
           split; [lia|]. split; [exact B|]. intros j Hj. apply (C (S j)). lia.
Qed.

(* for a nondecreasing cumulative row the draws mapped to column k form the half-open
   interval [c_(k-1), c_k)  (c_(-1) = -infinity for k = 0, i.e. [0, c_0) for u >= 0) *)
Lemma step_interval c u k : nondecreasing c ->
  (first_lt c u = Some k <->
   k < length c /\ (u < nth k c 0)%Qc /\ (k = 0 \/ (nth (k - 1) c 0 <= u)%Qc)).
Proof.
  intros Hnd. rewrite first_lt_spec.
  split; intros [A [B C]]; (split; [exact A|split; [exact B|]]).
  - destruct k as [|k']; [left; reflexivity|right]. apply C. lia.
  - intros j Hj. destruct C as [->|C]; [lia|].
    apply Qcle_trans with (nth (k - 1) c 0%Qc); [|exact C]. apply Hnd; lia.
Qed.

(* if the last cumulative value is 1 every draw u < 1 selects a column (no fall-through) *)
Lemma first_lt_total c u : c <> [] -> last c 0%Qc = 1%Qc -> (u < 1)%Qc -> exists k, first_lt c u = Some k.
Proof.
  induction c as [|x t IH]; intros Hne Hl Hu; [congruence|]. cbn [first_lt].
  destruct (Qc_ltb u x) eqn:E; [eexists; reflexivity|].
  destruct t as [|y t'].
  - cbn [last] in Hl. subst x. apply Qc_ltb_false in E. exfalso. exact (Qclt_not_le _ _ Hu E).
  - destruct IH as [k Hk]; [discriminate|exact Hl|exact Hu|]. rewrite Hk. eexists; reflexivity.
Qed.

(* PRIORITY 2: cumulative sums *)
Lemma cumsum_from_length l : forall acc, length (cumsum_from acc l) = length l.
Proof. induction l as [|x t IH]; intros acc; cbn [cumsum_from length]; [reflexivity|]. now rewrite IH. Qed.
Lemma cumsum_length l : length (cumsum l) = length l.
Proof. apply cumsum_from_length. Qed.

Lemma cumsum_from_nth l : forall acc k, k < length l ->
  nth k (cumsum_from acc l) 0%Qc = (acc + qsum (firstn (S k) l))%Qc.
Proof.
  induction l as [|x t IH]; intros acc k Hk; cbn [length] in Hk; [lia|].
  destruct k as [|k'].
  - cbn [cumsum_from nth firstn]. rewrite qsum_cons, qsum_nil. ring.
  - cbn [cumsum_from nth]. rewrite IH by lia.
    change (firstn (S (S k')) (x :: t)) with (x :: firstn (S k') t). rewrite qsum_cons. ring.
Qed.
Lemma cumsum_nth l k : k < length l -> nth k (cumsum l) 0%Qc = qsum (firstn (S k) l).
Proof. intros Hk. unfold cumsum. rewrite cumsum_from_nth by exact Hk. ring. Qed.

Lemma qsum_firstn_S l : forall k, k < length l ->
  qsum (firstn (S k) l) = (qsum (firstn k l) + nth k l 0)%Qc.
Proof.
  induction l as [|x t IH]; intros k Hk; cbn [length] in Hk; [lia|].
  destruct k as [|k'].
  - cbn [firstn nth]. rewrite qsum_cons, !qsum_nil. ring.
  - change (firstn (S (S k')) (x :: t)) with (x :: firstn (S k') t).
    change (firstn (S k') (x :: t)) with (x :: firstn k' t). cbn [nth].
    rewrite !qsum_cons, IH by lia. ring.
Qed.

(* consecutive differences are the summands: interval k has length l_k *)
Lemma cumsum_diff l k : k < length l ->
  (nth k (cumsum l) 0 - (if Nat.eqb k 0 then 0 else nth (k - 1) (cumsum l) 0) = nth k l 0)%Qc.
Proof.
  intros Hk. rewrite cumsum_nth, qsum_firstn_S by exact Hk. destruct k as [|k'].
  - cbn [Nat.eqb firstn]. rewrite qsum_nil. ring.
  - cbn [Nat.eqb]. replace (S k' - 1) with k' by lia. rewrite cumsum_nth by lia. ring.
Qed.

Lemma cumsum_nondecreasing l : (forall x, In x l -> (0 <= x)%Qc) -> nondecreasing (cumsum l).
Proof.
  intros Hpos i j Hij Hj. rewrite cumsum_length in Hj.
  replace j with (i + (j - i)) in * by lia. generalize dependent (j - i). intros d _ Hd.
  induction d as [|d IH]; [rewrite Nat.add_0_r; apply Qcle_refl|].
  apply Qcle_trans with (nth (i + d) (cumsum l) 0%Qc); [apply IH; lia|].
  replace (i + S d) with (S (i + d)) by lia.
  rewrite (cumsum_nth l (S (i + d))) by lia. rewrite qsum_firstn_S by lia.
  rewrite <- cumsum_nth by lia. apply Qcle_plus_nonneg. apply Hpos, nth_In. lia.
Qed.

(* PRIORITY 3: the descending argsort is a permutation of the column indices *)
Lemma ins_asc_perm x l : Permutation (ins_asc x l) (x :: l).
Proof.
  induction l as [|y t IH]; cbn [ins_asc]; [reflexivity|].
  destruct (Qc_ltb (fst x) (fst y)); [reflexivity|].
  eapply perm_trans; [apply perm_skip, IH|apply perm_swap].
Qed.
Lemma fold_ins_perm l : forall acc,
  Permutation (fold_left (fun acc x => ins_asc x acc) l acc) (l ++ acc).
Proof.
  induction l as [|x t IH]; intros acc; cbn [fold_left app]; [reflexivity|].
  eapply perm_trans; [apply IH|].
  eapply perm_trans; [apply Permutation_app_head, ins_asc_perm|].
  symmetry. apply Permutation_middle.
Qed.
Lemma map_snd_combine {A B} (a : list A) : forall (b : list B), length a = length b -> map snd (combine a b) = b.
Proof.
  induction a as [|x t IH]; intros [|y b] H; cbn in H; try discriminate; [reflexivity|].
  cbn [combine map snd]. f_equal. apply IH. lia.
Qed.
Lemma argsort_desc_perm row : Permutation (argsort_desc row) (seq 0 (length row)).
Proof.
  unfold argsort_desc. eapply perm_trans; [symmetry; apply Permutation_rev|].
  eapply perm_trans; [apply Permutation_map, fold_ins_perm|].
  rewrite app_nil_r, map_snd_combine by (now rewrite seq_length). reflexivity.
Qed.

(* PRIORITY 4 *)
Lemma qsum_perm l1 l2 : Permutation l1 l2 -> qsum l1 = qsum l2.
Proof.
  intros H. induction H as [|x l l' _ IH|x y l|l l' l'' _ IH1 _ IH2].
  - reflexivity.
  - rewrite !qsum_cons, IH. reflexivity.
  - rewrite !qsum_cons. ring.
  - now rewrite IH1.
Qed.
Lemma cumsum_from_last l : forall acc, l <> [] -> last (cumsum_from acc l) 0%Qc = (acc + qsum l)%Qc.
Proof.
  induction l as [|x t IH]; intros acc Hne; [congruence|].
  destruct t as [|y t'].
  - cbn [cumsum_from last]. rewrite qsum_cons, qsum_nil. ring.
  - change (last (cumsum_from acc (x :: y :: t')) 0%Qc) with (last (cumsum_from (acc + x)%Qc (y :: t')) 0%Qc).
    rewrite IH by discriminate. rewrite (qsum_cons x). ring.
Qed.

Definition perm_vals (row : vec) : vec := map (fun k => nth k row 0%Qc) (argsort_desc row).
Lemma perm_vals_perm row : Permutation (perm_vals row) row.
Proof.
  unfold perm_vals. eapply perm_trans; [apply Permutation_map, argsort_desc_perm|].
  rewrite map_nth_seq. reflexivity.
Qed.
Lemma argsort_desc_length row : length (argsort_desc row) = length row.
Proof. rewrite (Permutation_length (argsort_desc_perm row)). apply seq_length. Qed.
Lemma perm_vals_length row : length (perm_vals row) = length row.
Proof. unfold perm_vals. rewrite map_length. apply argsort_desc_length. Qed.

(* ---------- the descending argsort yields non-increasing values ---------- *)
Definition asc_fst (a b : Qc * nat) : Prop := (fst a <= fst b)%Qc.
Definition Qc_desc (a b : Qc) : Prop := (b <= a)%Qc.

Lemma ins_asc_sorted x l : StronglySorted asc_fst l -> StronglySorted asc_fst (ins_asc x l).
Proof.
  intros Hs. induction l as [|y t IH]; cbn [ins_asc].
  - constructor; constructor.
  - inversion Hs as [|y' t' Hst Hall]; subst y' t'.
    destruct (Qc_ltb (fst x) (fst y)) eqn:E.
    + apply Qc_ltb_true in E. constructor; [exact Hs|].
      constructor; [apply Qclt_le_weak; exact E|].
      eapply Forall_impl; [|exact Hall]. intros z Hz. unfold asc_fst in *.
      apply Qcle_trans with (fst y); [apply Qclt_le_weak; exact E|exact Hz].
    + apply Qc_ltb_false in E. constructor; [apply IH; exact Hst|].
      apply Forall_forall. intros z Hz.
      apply (Permutation_in _ (ins_asc_perm x t)) in Hz. destruct Hz as [Hz|Hz].
      * subst z. exact E.
      * rewrite Forall_forall in Hall. apply Hall, Hz.
Qed.
Lemma fold_ins_sorted l : forall acc, StronglySorted asc_fst acc ->
  StronglySorted asc_fst (fold_left (fun acc x => ins_asc x acc) l acc).
Proof.
  induction l as [|x t IH]; intros acc H; cbn [fold_left]; [exact H|].
  apply IH, ins_asc_sorted, H.
Qed.

Lemma ssorted_snoc {A} (R : A -> A -> Prop) l x :
  StronglySorted R l -> Forall (fun y => R y x) l -> StronglySorted R (l ++ [x]).
Proof.
  intros Hs Hall. induction l as [|y t IH]; cbn [app].
  - constructor; constructor.
  - inversion Hs as [|y' t' Hst Hyt]; subst y' t'.
    inversion Hall as [|y' t' Hyx Ht]; subst y' t'.
    constructor; [apply IH; assumption|].
    apply Forall_app. split; [exact Hyt|]. constructor; [exact Hyx|constructor].
Qed.
Lemma ssorted_rev {A} (R : A -> A -> Prop) l :
  StronglySorted R l -> StronglySorted (fun a b => R b a) (rev l).
Proof.
  intros Hs. induction Hs as [|x t Hst IH Hall]; cbn [rev]; [constructor|].
  apply ssorted_snoc; [exact IH|]. apply Forall_rev. exact Hall.
Qed.
Lemma ssorted_map {A B} (f : A -> B) (R : B -> B -> Prop) l :
  StronglySorted (fun a b => R (f a) (f b)) l -> StronglySorted R (map f l).
Proof.
  intros Hs. induction Hs as [|x t Hst IH Hall]; cbn [map]; [constructor|].
  constructor; [exact IH|]. apply Forall_map. exact Hall.
Qed.

Definition sorted_pairs (row : vec) : list (Qc * nat) :=
  fold_left (fun acc x => ins_asc x acc) (combine row (seq 0 (length row))) [].

Lemma combine_seq_nth (row : vec) : forall s v i,
  In (v, i) (combine row (seq s (length row))) -> s <= i /\ nth (i - s) row 0%Qc = v.
Proof.
  induction row as [|x t IH]; intros s v i Hin; cbn [length seq combine] in Hin; [destruct Hin|].
  destruct Hin as [Hin|Hin].
  - inversion Hin; subst. split; [lia|]. now rewrite Nat.sub_diag.
  - apply IH in Hin. destruct Hin as [Hle Hn]. split; [lia|].
    replace (i - s) with (S (i - S s)) by lia. cbn [nth]. exact Hn.
Qed.

Lemma perm_vals_sorted_pairs row : perm_vals row = rev (map fst (sorted_pairs row)).
Proof.
  unfold perm_vals, argsort_desc. change (fold_left _ _ []) with (sorted_pairs row).
  rewrite map_rev, map_map. f_equal.
  apply map_ext_in. intros [v i] Hin. cbn [fst snd].
  unfold sorted_pairs in Hin.
  apply (Permutation_in _ (fold_ins_perm _ _)) in Hin. rewrite app_nil_r in Hin.
  apply combine_seq_nth in Hin. destruct Hin as [_ H]. now rewrite Nat.sub_0_r in H.
Qed.

Lemma perm_vals_desc row : StronglySorted Qc_desc (perm_vals row).
Proof.
  rewrite perm_vals_sorted_pairs.
  apply (ssorted_rev (fun a b : Qc => (a <= b)%Qc)).
  apply (ssorted_map fst (fun a b : Qc => (a <= b)%Qc)).
  apply fold_ins_sorted. constructor.
Qed.

(* ---------- count_nonzero and the zero tail of a non-increasing non-negative list ---------- *)
Lemma count_nonzero_perm l1 l2 : Permutation l1 l2 -> count_nonzero l1 = count_nonzero l2.
Proof.
  unfold count_nonzero. intros H. induction H as [|x l l' _ IH|x y l|l l' l'' _ IH1 _ IH2]; cbn [filter].
  - reflexivity.
  - destruct (negb (Qc_eqb x 0)); cbn [length]; congruence.
  - destruct (negb (Qc_eqb y 0)), (negb (Qc_eqb x 0)); reflexivity.
  - congruence.
Qed.

Lemma desc_zero_tail s : StronglySorted Qc_desc s -> (forall x, In x s -> (0 <= x)%Qc) ->
  forall k, count_nonzero s <= k -> nth k s 0%Qc = 0%Qc.
Proof.
  intros Hs. induction Hs as [|x t Hst IH Hall]; intros Hpos k Hk.
  - destruct k; reflexivity.
  - unfold count_nonzero in Hk. cbn [filter] in Hk. destruct (Qc_eqb x 0) eqn:E.
    + apply Qc_eqb_eq in E. subst x.
      assert (Hz : forall y, In y (0%Qc :: t) -> y = 0%Qc).
      { intros y [Hy|Hy]; [symmetry; exact Hy|].
        apply Qcle_antisym; [|apply Hpos; right; exact Hy].
        rewrite Forall_forall in Hall. exact (Hall y Hy). }
      destruct (lt_dec k (length (0%Qc :: t))) as [Hlt|Hge]; [|apply nth_overflow; lia].
      apply Hz, nth_In, Hlt.
    + cbn [negb length] in Hk. destruct k as [|k']; [lia|]. cbn [nth].
      apply IH; [intros y Hy; apply Hpos; right; exact Hy|]. unfold count_nonzero. lia.
Qed.

Lemma qsum_firstn_zero_tail l : forall k,
  (forall j, k <= j -> nth j l 0%Qc = 0%Qc) -> qsum (firstn k l) = qsum l.
Proof.
  induction l as [|x t IH]; intros k H.
  - now rewrite firstn_nil.
  - destruct k as [|k'].
    + pose proof (H 0 (le_n 0)) as H0. cbn [nth] in H0. subst x.
      cbn [firstn]. rewrite qsum_cons.
      rewrite <- (IH 0) by (intros j _; apply (H (S j)); lia).
      cbn [firstn]. rewrite qsum_nil. ring.
    + cbn [firstn]. rewrite !qsum_cons. rewrite IH; [reflexivity|].
      intros j Hj. apply (H (S j)). lia.
Qed.

(* forcing to 1 from an index on changes nothing when the values there are already 1 *)
Lemma force_id (c : vec) : forall i,
  (forall k, i <= k -> k < length c -> nth k c 0%Qc = 1%Qc) ->
  firstn i c ++ repeat 1%Qc (length c - i) = c.
Proof.
  induction c as [|x t IH]; intros i H.
  - rewrite firstn_nil. reflexivity.
  - destruct i as [|i'].
    + pose proof (H 0 (le_n 0) ltac:(cbn [length]; lia)) as H0. cbn [nth] in H0. subst x.
      cbn [firstn length app]. rewrite Nat.sub_0_r. cbn [repeat]. f_equal.
      rewrite <- (IH 0) at 2 by (intros k _ Hk; apply (H (S k)); cbn [length]; lia).
      cbn [firstn app]. now rewrite Nat.sub_0_r.
    + cbn [firstn length]. replace (S (length t) - S i') with (length t - i') by lia.
      cbn [app]. f_equal. apply IH. intros k Hk Hl. apply (H (S k)); cbn [length]; lia.
Qed.

(* STATEMENT CHANGED (helper lemma only): added the non-negativity hypothesis.  With the new
   cum_row (every value from column max(count_nonzero,1)-1 on is forced to 1) the equation is
   false for rows with negative entries: row = [2; 0; -1] has qsum 1 and cumsum of the sorted
   values [2; 2; 1], but count_nonzero = 2 so cum_row gives [2; 1; 1]. *)
Lemma cum_row_fst row : row <> [] -> (forall x, In x row -> (0 <= x)%Qc) -> qsum row = 1%Qc ->
  fst (cum_row row) = cumsum (perm_vals row).
Proof.
  intros Hne Hpos Hsum. unfold cum_row. cbn [fst]. fold (perm_vals row).
  apply force_id. intros k Hk Hlen. rewrite cumsum_length in Hlen.
  rewrite cumsum_nth by exact Hlen. rewrite qsum_firstn_zero_tail.
  - rewrite (qsum_perm _ _ (perm_vals_perm row)). exact Hsum.
  - intros j Hj. apply desc_zero_tail.
    + apply perm_vals_desc.
    + intros x Hx. apply Hpos. exact (Permutation_in _ (perm_vals_perm row) Hx).
    + rewrite (count_nonzero_perm _ _ (perm_vals_perm row)). lia.
Qed.

Lemma cum_row_spec row : row <> [] -> (forall x, In x row -> (0 <= x)%Qc) -> qsum row = 1%Qc ->
  let c := fst (cum_row row) in let p := snd (cum_row row) in
  length c = length row /\ Permutation p (seq 0 (length row)) /\ nondecreasing c /\
  last c 0%Qc = 1%Qc /\
  forall k, k < length row ->
    (nth k c 0 - (if Nat.eqb k 0 then 0 else nth (k - 1) c 0) = nth (nth k p 0%nat) row 0)%Qc.
  (* STATEMENT CHANGED: scope annotation only -- the default of the inner [nth k p 0] is a nat,
     written 0%nat (as given, the 0 was read in Qc_scope and the statement did not typecheck) *)
Proof.
  intros Hne Hpos Hsum c p. subst c p. rewrite cum_row_fst by assumption.
  change (snd (cum_row row)) with (argsort_desc row).
  assert (Hv : perm_vals row <> []).
  { intros E. apply (f_equal (@length _)) in E. rewrite perm_vals_length in E.
    destruct row; [congruence|discriminate]. }
  split; [now rewrite cumsum_length, perm_vals_length|].
  split; [apply argsort_desc_perm|].
  split.
  { apply cumsum_nondecreasing. intros x Hx. apply Hpos.
    exact (Permutation_in _ (perm_vals_perm row) Hx). }
  split.
  { unfold cumsum. rewrite cumsum_from_last by exact Hv.
    rewrite (qsum_perm _ _ (perm_vals_perm row)), Hsum. ring. }
  intros k Hk. rewrite cumsum_diff by (now rewrite perm_vals_length).
  unfold perm_vals. rewrite (nth_map_lt _ _ _ _ 0) by (now rewrite argsort_desc_length).
  reflexivity.
Qed.

Lemma zero_prob_never row u j : row <> [] -> (forall x, In x row -> (0 <= x)%Qc) -> qsum row = 1%Qc ->
  j < length row -> nth j row 0%Qc = 0%Qc -> (0 <= u)%Qc -> (u < 1)%Qc ->
  forall k, first_lt (fst (cum_row row)) u = Some k -> nth k (snd (cum_row row)) 0 <> j.
Proof.
  intros Hne Hpos Hsum Hj Hz Hu0 Hu1 k Hk Hkj.
  destruct (cum_row_spec row Hne Hpos Hsum) as [Hlen [_ [Hnd [_ Hdiff]]]].
  apply (step_interval _ _ _ Hnd) in Hk. destruct Hk as [Hkl [Hlt Hprev]].
  rewrite Hlen in Hkl. specialize (Hdiff k Hkl). rewrite Hkj, Hz in Hdiff.
  apply Qc_sub_0 in Hdiff.
  destruct Hprev as [->|Hprev].
  - cbn [Nat.eqb] in Hdiff. rewrite Hdiff in Hlt. exact (Qclt_not_le _ _ Hlt Hu0).
  - destruct (Nat.eqb k 0) eqn:Ek.
    + rewrite Hdiff in Hlt. exact (Qclt_not_le _ _ Hlt Hu0).
    + rewrite Hdiff in Hlt. exact (Qclt_not_le _ _ Hlt Hprev).
Qed.

(* ---------- chains ---------- *)
(* PRIORITY 5 *)
Lemma chain_from_length cm us : forall s, length (chain_from cm s us) = length us.
Proof. induction us as [|u r IH]; intros s; cbn [chain_from length]; [reflexivity|]. now rewrite IH. Qed.
Lemma propagate_length cm s us : length (propagate cm s us) = S (length us).
Proof. unfold propagate. cbn [length]. now rewrite chain_from_length. Qed.
Lemma propagate_head cm s us : hd 0 (propagate cm s us) = s.
Proof. reflexivity. Qed.
(* every state of the chain is a column index occurring in some permutation row, or the start *)
Definition cm_in_range (n : nat) (cm : cummat) : Prop :=
  length cm = n /\ forall r x, In r cm -> In x (snd r) -> x < n.

Lemma nth_lt_default (p : list nat) n k : 0 < n -> (forall x, In x p -> x < n) -> nth k p 0 < n.
Proof.
  intros Hn Hp. destruct (lt_dec k (length p)) as [Hk|Hk].
  - apply Hp, nth_In, Hk.
  - rewrite nth_overflow by lia. exact Hn.
Qed.
Lemma mc_step_in_range n cm s u : 0 < n -> cm_in_range n cm -> s < n -> mc_step cm s u < n.
Proof.
  intros Hn [Hlen Hcm] Hs. unfold mc_step.
  destruct (nth s cm ([], [])) as [c p] eqn:E.
  assert (Hin : In (c, p) cm) by (rewrite <- E; apply nth_In; lia).
  assert (Hp : forall x, In x p -> x < n) by (intros x Hx; exact (Hcm (c, p) x Hin Hx)).
  destruct (first_lt c u); apply nth_lt_default; assumption.
Qed.
Lemma chain_from_in_range n cm us : 0 < n -> cm_in_range n cm ->
  forall s, s < n -> forall x, In x (chain_from cm s us) -> x < n.
Proof.
  intros Hn Hcm. induction us as [|u r IH]; intros s Hs x Hx; cbn [chain_from] in Hx; [destruct Hx|].
  pose proof (mc_step_in_range n cm s u Hn Hcm Hs) as Hs'.
  destruct Hx as [<-|Hx]; [exact Hs'|]. exact (IH _ Hs' x Hx).
Qed.
Lemma propagate_in_range n cm s us : 0 < n -> cm_in_range n cm -> s < n ->
  (forall r, In r cm -> snd r <> []) ->
  forall x, In x (propagate cm s us) -> x < n.
Proof.
  intros Hn Hcm Hs _ x Hx. unfold propagate in Hx. destruct Hx as [<-|Hx]; [exact Hs|].
  exact (chain_from_in_range n cm us Hn Hcm s Hs x Hx).
Qed.

(* ---------- C08: online counters = event extraction on the realised chain ---------- *)
(* PRIORITY 6 *)
Lemma mem_Z_of_nat s (l : list nat) : mem_Z (Z.of_nat s) (map Z.of_nat l) = existsb (Nat.eqb s) l.
Proof.
  induction l as [|a t IH]; cbn [map mem_Z existsb]; [reflexivity|].
  destruct (Nat.eqb_spec s a) as [->|Hne].
  - rewrite Z.eqb_refl. reflexivity.
  - destruct (Z.eqb_spec (Z.of_nat s) (Z.of_nat a)) as [E|_]; [apply Nat2Z.inj in E; congruence|].
    cbn [orb]. exact IH.
Qed.

Lemma expand_cons kc d : expand (kc :: d) = repeat (fst kc) (snd kc) ++ expand d.
Proof. reflexivity. Qed.
Lemma expand_count_add d k : Permutation (expand (count_add d k)) (k :: expand d).
Proof.
  induction d as [|[k' c] t IH]; cbn [count_add].
  - reflexivity.
  - destruct (Nat.eqb_spec k k') as [->|Hne].
    + rewrite !expand_cons. cbn [fst snd repeat app]. reflexivity.
    + rewrite !expand_cons. cbn [fst snd].
      eapply perm_trans; [apply Permutation_app_head, IH|].
      symmetry. apply Permutation_middle.
Qed.

Lemma wt_online_gen cm Ss F us : forall idx op i0 state d,
  Permutation (expand (wt_online cm idx op i0 state Ss F us d))
    (expand d ++ map (fun p => snd p - fst p)
       (events_from idx op i0 (map Z.of_nat (chain_from cm state us)) (map Z.of_nat Ss) (map Z.of_nat F))).
Proof.
  induction us as [|u r IH]; intros idx op i0 state d.
  - cbn [wt_online chain_from map events_from]. now rewrite app_nil_r.
  - cbn [wt_online chain_from map events_from]. rewrite !mem_Z_of_nat.
    set (s := mc_step cm state u).
    destruct (negb op && existsb (Nat.eqb s) Ss); [apply IH|].
    destruct (op && existsb (Nat.eqb s) F); [|apply IH].
    cbn [map fst snd]. eapply perm_trans; [apply IH|].
    eapply perm_trans; [apply Permutation_app_tail, expand_count_add|].
    cbn [app]. apply Permutation_middle.
Qed.

Lemma wt_online_offline cm start S F us :
  Permutation (expand (wt_online cm 0 false 0 start S F us []))
              (chain_durations (chain_from cm start us) S F).
Proof. exact (wt_online_gen cm S F us 0 false 0 start []). Qed.

(* PRIORITY 7 *)
(* the re-opening automaton of _estimate_transition_times on a realised chain *)
Fixpoint tt_durs (idx : nat) (op : bool) (i0 : nat) (t Ss F : list nat) : list nat :=
  match t with
  | [] => []
  | s :: r =>
      if existsb (Nat.eqb s) Ss then tt_durs (idx + 1) true idx r Ss F
      else if op && existsb (Nat.eqb s) F then (idx - i0) :: tt_durs (idx + 1) false i0 r Ss F
      else tt_durs (idx + 1) op i0 r Ss F
  end.

Lemma tt_online_gen cm Ss F us : forall idx op i0 state d,
  Permutation (expand (tt_online cm idx op i0 state Ss F us d))
    (expand d ++ tt_durs idx op i0 (chain_from cm state us) Ss F).
Proof.
  induction us as [|u r IH]; intros idx op i0 state d.
  - cbn [tt_online chain_from tt_durs]. now rewrite app_nil_r.
  - cbn [tt_online chain_from tt_durs].
    set (s := mc_step cm state u).
    destruct (existsb (Nat.eqb s) Ss); [apply IH|].
    destruct (op && existsb (Nat.eqb s) F); [|apply IH].
    eapply perm_trans; [apply IH|].
    eapply perm_trans; [apply Permutation_app_tail, expand_count_add|].
    cbn [app]. apply Permutation_middle.
Qed.

(* unconditional form: the online counter is the re-opening automaton run on the realised chain *)
Lemma tt_online_automaton cm start S F us :
  Permutation (expand (tt_online cm 0 false 0 start S F us []))
              (tt_durs 0 false 0 (chain_from cm start us) S F).
Proof. exact (tt_online_gen cm S F us 0 false 0 start []). Qed.

Lemma last_start_step t Ss s e : s <= e ->
  last_start t Ss s (e + 1) = if existsb (Nat.eqb (nth e t 0)) Ss then e else last_start t Ss s e.
Proof.
  intros Hse. unfold last_start. replace (e + 1 - s) with ((e - s) + 1) by lia.
  rewrite seq_app, fold_left_app. cbn [seq fold_left].
  replace (s + (e - s)) with e by lia. reflexivity.
Qed.

Lemma tt_durs_events full Ss F : (forall x, In x Ss -> ~ In x F) ->
  forall suf pre idx op s0 i0, full = pre ++ suf -> idx = length pre ->
    (op = true -> s0 <= idx /\ i0 = last_start full Ss s0 idx) ->
    tt_durs idx op i0 suf Ss F =
    map (fun p => snd p - last_start full Ss (fst p) (snd p))
        (events_from idx op s0 (map Z.of_nat suf) (map Z.of_nat Ss) (map Z.of_nat F)).
Proof.
  intros Hdis. induction suf as [|x r IH]; intros pre idx op s0 i0 Hfull Hidx Hinv; [reflexivity|].
  cbn [tt_durs map events_from]. rewrite !mem_Z_of_nat.
  assert (Hx : nth idx full 0 = x).
  { subst full idx. rewrite app_nth2 by lia. now rewrite Nat.sub_diag. }
  assert (Hfull' : full = (pre ++ [x]) ++ r) by (rewrite <- app_assoc; exact Hfull).
  assert (Hidx' : idx + 1 = length (pre ++ [x])) by (rewrite app_length; cbn [length]; lia).
  destruct (existsb (Nat.eqb x) Ss) eqn:ES.
  - assert (EF : existsb (Nat.eqb x) F = false).
    { destruct (existsb (Nat.eqb x) F) eqn:EF; [|reflexivity]. exfalso.
      apply existsb_exists in ES. destruct ES as [a [Ha Ea]]. apply Nat.eqb_eq in Ea. subst a.
      apply existsb_exists in EF. destruct EF as [b [Hb Eb]]. apply Nat.eqb_eq in Eb. subst b.
      exact (Hdis x Ha Hb). }
    rewrite EF. destruct op; cbn [negb andb].
    + apply (IH (pre ++ [x])); [exact Hfull'|exact Hidx'|]. intros _.
      destruct (Hinv eq_refl) as [Hle _]. split; [lia|].
      rewrite last_start_step by exact Hle. now rewrite Hx, ES.
    + apply (IH (pre ++ [x])); [exact Hfull'|exact Hidx'|]. intros _. split; [lia|].
      rewrite last_start_step by lia. now rewrite Hx, ES.
  - rewrite andb_false_r. destruct (op && existsb (Nat.eqb x) F) eqn:EO.
    + cbn [map fst snd]. f_equal.
      * apply andb_true_iff in EO. destruct EO as [Hop _].
        destruct (Hinv Hop) as [_ ->]. reflexivity.
      * apply (IH (pre ++ [x])); [exact Hfull'|exact Hidx'|discriminate].
    + apply (IH (pre ++ [x])); [exact Hfull'|exact Hidx'|]. intros Hop.
      destruct (Hinv Hop) as [Hle ->]. split; [lia|].
      rewrite last_start_step by exact Hle. now rewrite Hx, ES.
Qed.

(* STATEMENT CHANGED: added the hypothesis that the start and final sets are disjoint.
   Without it the statement is false: cm = [([1],[0])], start = 0, S = F = [0], us = [0;0]
   gives the realised chain [0;0]; the waiting-event automaton (events_from) closes the event
   at frame 1 (F is tested when the event is open, S is not), so chain_tt_durations = [1],
   whereas tt_online tests S first and re-opens at frame 1, so its expanded counter is [].
   The unconditional relation is tt_online_automaton above. *)
Lemma tt_online_offline cm start S F us : (forall x, In x S -> ~ In x F) ->
  Permutation (expand (tt_online cm 0 false 0 start S F us []))
              (chain_tt_durations (chain_from cm start us) S F).
Proof.
  intros Hdis. eapply perm_trans; [apply tt_online_automaton|].
  unfold chain_tt_durations, events.
  rewrite (tt_durs_events (chain_from cm start us) S F Hdis (chain_from cm start us) [] 0 false 0 0);
    [reflexivity|reflexivity|reflexivity|discriminate].
Qed.

(* ---------- C08: histogram form ---------- *)
(* PRIORITY 8 *)
Lemma hist_edges_multiples d lag k : k <= length (hist_pts d) -> nth k (hist_edges d lag) 0 = k * lag.
Proof. intros Hk. unfold hist_edges. apply (nth_map_seq (fun k => k * lag)). lia. Qed.

Lemma Qc_of_nat_neq_0 n : 0 < n -> Qc_of_Z (Z.of_nat n) <> 0%Qc.
Proof. intros Hn E. apply Qc_of_Z_inj_0 in E. lia. Qed.

Lemma hist_bin_fraction d lag k : 0 < lag -> 0 < list_sum (hist_pts d) -> k < length (hist_pts d) ->
  (nth k (hist_density d lag) 0 * Qc_of_Z (Z.of_nat lag)
   = Qc_of_Z (Z.of_nat (nth k (hist_pts d) 0%nat)) / Qc_of_Z (Z.of_nat (list_sum (hist_pts d))))%Qc.
  (* STATEMENT CHANGED: scope annotation only -- the default of [nth k (hist_pts d) 0] is a nat,
     written 0%nat (as given, the 0 was read in Qc_scope and the statement did not typecheck) *)
Proof.
  intros Hlag Htot Hk. unfold hist_density.
  rewrite (nth_map_lt _ _ _ _ 0) by exact Hk.
  pose proof (Qc_of_nat_neq_0 lag Hlag) as H1.
  pose proof (Qc_of_nat_neq_0 _ Htot) as H2.
  field. split; assumption.
Qed.

Lemma qsum_of_nat (pts : list nat) :
  qsum (map (fun c => Qc_of_Z (Z.of_nat c)) pts) = Qc_of_Z (Z.of_nat (list_sum pts)).
Proof.
  induction pts as [|a l IH]; cbn [map].
  - rewrite qsum_nil. symmetry. apply Qc_of_Z_0.
  - change (list_sum (a :: l)) with (a + list_sum l). rewrite qsum_cons, IH, Nat2Z.inj_add, Qc_of_Z_plus. reflexivity.
Qed.

(* the density integrates to one over the returned edges (every bin has width lag) *)
Lemma hist_density_integrates d lag : 0 < lag -> 0 < list_sum (hist_pts d) ->
  qsum (map (fun x => (x * Qc_of_Z (Z.of_nat lag))%Qc) (hist_density d lag)) = 1%Qc.
Proof.
  intros Hlag Htot. unfold hist_density. rewrite map_map.
  pose proof (Qc_of_nat_neq_0 lag Hlag) as H1.
  pose proof (Qc_of_nat_neq_0 _ Htot) as H2.
  rewrite (qsum_map_ext _ (fun c => (Qc_of_Z (Z.of_nat c) / Qc_of_Z (Z.of_nat (list_sum (hist_pts d))))%Qc))
    by (intros c _; field; split; assumption).
  rewrite <- (map_map (fun c => Qc_of_Z (Z.of_nat c))
                      (fun x => (x / Qc_of_Z (Z.of_nat (list_sum (hist_pts d))))%Qc)).
  rewrite qsum_div, qsum_of_nat. field. assumption.
Qed.
