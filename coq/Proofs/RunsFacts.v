(* C05: the executable run-length test runs_geb decides runs_ge (every frame lies in a block
   of m consecutive equal frames) *)
From Coq Require Import List ZArith Arith Bool Lia.
From MsmV Require Import Lib.PyList Model.Coring Proofs.CoringFacts.
Import ListNotations.
Local Open Scope nat_scope.

(* ---------- helpers ---------- *)
Definition rdecode (l : list (Z * nat)) : list Z :=
  concat (map (fun p => repeat (fst p) (snd p)) l).

(* runs are non-empty and adjacent runs carry different labels *)
Fixpoint rgood (l : list (Z * nat)) : Prop :=
  match l with
  | [] => True
  | p :: tl => 1 <= snd p /\
               match tl with [] => True | q :: _ => fst p <> fst q end /\
               rgood tl
  end.

Lemma rle_good t : rgood (rle t).
Proof.
  induction t as [|x rest IH]; [exact I|].
  cbn [rle]. destruct (rle rest) as [|[y n] tl] eqn:E.
  - cbn. repeat split; lia.
  - destruct (Z.eqb_spec x y) as [Hxy|Hxy].
    + cbn [rgood fst snd] in *. destruct IH as (Hn & Hadj & Hg). repeat split; try lia; assumption.
    + cbn [rgood fst snd] in *. destruct IH as (Hn & Hadj & Hg). repeat split; try lia; assumption.
Qed.

Lemma nth_repeat_lt (x : Z) s d : forall n k, k < n -> nth k (repeat x n ++ s) d = x.
Proof.
  induction n as [|n IH]; intros k Hk; [lia|].
  destruct k as [|k]; [reflexivity|]. cbn [repeat app nth]. apply IH. lia.
Qed.

Lemma nth_repeat_ge (x : Z) s d : forall n k, nth (n + k) (repeat x n ++ s) d = nth k s d.
Proof.
  induction n as [|n IH]; intros k; [reflexivity|]. cbn [repeat app nth plus]. apply IH.
Qed.

(* a block of n copies of x followed by something that does not start with x *)
Lemma runs_ge_block m x n s : 1 <= m -> 1 <= n ->
  match s with [] => True | y :: _ => x <> y end ->
  (runs_ge m (repeat x n ++ s) <-> m <= n /\ runs_ge m s).
Proof.
  intros Hm Hn Hhd. split.
  - intros Hr.
    assert (Hlen : length (repeat x n ++ s) = n + length s)
      by (rewrite app_length, repeat_length; reflexivity).
    (* the frame after the block differs from x *)
    assert (Hbd : 0 < length s -> nth n (repeat x n ++ s) 0%Z <> x).
    { intros Hs. replace n with (n + 0) at 1 by lia. rewrite nth_repeat_ge.
      destruct s as [|y s']; [cbn in Hs; lia|]. cbn [nth]. intros Heq. apply Hhd. symmetry. exact Heq. }
    assert (Hmn : m <= n).
    { destruct (le_lt_dec m n) as [Hle|Hgt]; [exact Hle|].
      destruct (Hr 0) as (a & Ha0 & Ham & Hal & Hc); [rewrite Hlen; lia|].
      assert (a = 0) by lia. subst a.
      exfalso. apply Hbd; [lia|].
      rewrite (Hc n) by lia. apply nth_repeat_lt. lia. }
    split; [exact Hmn|].
    intros i Hi.
    destruct (Hr (n + i)) as (a & Ha0 & Ham & Hal & Hc); [rewrite Hlen; lia|].
    assert (Han : n <= a).
    { destruct (le_lt_dec n a) as [Hle|Hgt]; [exact Hle|].
      exfalso. apply Hbd; [lia|].
      rewrite (Hc n) by lia. rewrite <- (Hc (n - 1)) by lia. apply nth_repeat_lt. lia. }
    exists (a - n). repeat split; try lia.
    intros k Hk1 Hk2.
    specialize (Hc (n + k)). rewrite !nth_repeat_ge in Hc. apply Hc; lia.
  - intros [Hmn Hr] i Hi.
    rewrite app_length, repeat_length in Hi.
    destruct (le_lt_dec n i) as [Hge|Hlt].
    + destruct (Hr (i - n)) as (a & Ha0 & Ham & Hal & Hc); [lia|].
      exists (n + a). rewrite app_length, repeat_length. repeat split; try lia.
      intros k Hk1 Hk2.
      replace k with (n + (k - n)) by lia. replace i with (n + (i - n)) by lia.
      rewrite !nth_repeat_ge. apply Hc; lia.
    + exists (if le_lt_dec (i + m) n then i else n - m).
      rewrite app_length, repeat_length.
      destruct (le_lt_dec (i + m) n) as [Hfit|Hnofit]; repeat split; try lia.
      * intros k Hk1 Hk2. rewrite !nth_repeat_lt by lia. reflexivity.
      * intros k Hk1 Hk2. rewrite !nth_repeat_lt by lia. reflexivity.
Qed.

Lemma rgood_runs m l : 1 <= m -> rgood l ->
  (forallb (fun p => m <=? snd p) l = true <-> runs_ge m (rdecode l)).
Proof.
  intros Hm. induction l as [|[x n] tl IH]; intros Hg.
  - split; [|reflexivity]. intros _ i Hi. cbn in Hi. lia.
  - cbn [rgood fst snd] in Hg. destruct Hg as (Hn & Hadj & Hg).
    specialize (IH Hg).
    change (rdecode ((x, n) :: tl)) with (repeat x n ++ rdecode tl).
    cbn [forallb snd]. rewrite andb_true_iff, Nat.leb_le.
    rewrite runs_ge_block; [rewrite IH; reflexivity|exact Hm|exact Hn|].
    destruct tl as [|[y k] tl']; [exact I|].
    cbn [rgood fst snd] in Hg. destruct Hg as (Hk & _ & _).
    change (rdecode ((y, k) :: tl')) with (repeat y k ++ rdecode tl').
    destruct k as [|k]; [lia|]. cbn [repeat app]. exact Hadj.
Qed.

(* the run-length encoding decodes to the trajectory, runs are maximal and non-empty *)
Lemma rle_decode t : concat (map (fun p => repeat (fst p) (snd p)) (rle t)) = t.
Proof.
  induction t as [|x rest IH]; [reflexivity|].
  cbn [rle]. destruct (rle rest) as [|[y n] tl] eqn:E.
  - cbn in IH. subst rest. reflexivity.
  - destruct (Z.eqb_spec x y) as [Hxy|Hxy].
    + subst y. cbn [map concat fst snd repeat app] in *. rewrite IH. reflexivity.
    + cbn [map concat fst snd repeat app] in *. rewrite IH. reflexivity.
Qed.

Lemma rgood_maximal l : rgood l ->
  forall i, S i < length l -> fst (nth i l (0%Z, 0)) <> fst (nth (S i) l (0%Z, 0)).
Proof.
  induction l as [|p tl IH]; intros Hg i Hi; [cbn in Hi; lia|].
  cbn [rgood] in Hg. destruct Hg as (_ & Hadj & Hg).
  destruct i as [|i].
  - destruct tl as [|q tl']; [cbn in Hi; lia|]. cbn [nth]. exact Hadj.
  - cbn [length] in Hi. change (nth (S i) (p :: tl) (0%Z, 0)) with (nth i tl (0%Z, 0)).
    change (nth (S (S i)) (p :: tl) (0%Z, 0)) with (nth (S i) tl (0%Z, 0)).
    apply IH; [exact Hg|lia].
Qed.

Lemma rle_maximal t : forall i, S i < length (rle t) -> fst (nth i (rle t) (0%Z, 0)) <> fst (nth (S i) (rle t) (0%Z, 0)).
Proof. apply rgood_maximal. apply rle_good. Qed.

Lemma rgood_positive l p : rgood l -> In p l -> 1 <= snd p.
Proof.
  induction l as [|q tl IH]; intros Hg Hin; [destruct Hin|].
  cbn [rgood] in Hg. destruct Hg as (Hq & _ & Hg).
  destruct Hin as [Heq|Hin]; [subst q; exact Hq|]. apply IH; assumption.
Qed.

Lemma rle_positive t p : In p (rle t) -> 1 <= snd p.
Proof. apply rgood_positive. apply rle_good. Qed.

(* the boolean test decides the covering property, for m >= 1 *)
Lemma runs_geb_iff m t : 1 <= m -> (runs_geb m t = true <-> runs_ge m t).
Proof.
  intros Hm. unfold runs_geb.
  rewrite (rgood_runs m (rle t) Hm (rle_good t)).
  unfold rdecode. rewrite rle_decode. reflexivity.
Qed.
