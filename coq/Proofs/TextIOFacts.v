(* C16: text writer / reader round trip, column order, limits *)
From Coq Require Import List ZArith NArith Arith Bool Lia.
From MsmV Require Import Lib.Result Lib.PyList Lib.Sorting Model.TextIO.
Import ListNotations.
Local Open Scope nat_scope.

(* PRIORITY 1: a number written in any of the three formats is read back *)
Lemma parse_render_num f z : parse_num (render_num f z) = Some z.
Proof. TODO. Qed.

(* PRIORITY 2: whatever integer table is written (with any header lines free of line
   ends) is read back identically; comment lines are ignored *)
Definition no_eol (l : list byte) : Prop := forall b, In b l -> is_eol b = false.
Lemma roundtrip f header_lines table ncols :
  (forall l, In l header_lines -> no_eol l) ->
  table <> [] -> 1 <= ncols -> (forall r, In r table -> length r = ncols) ->
  parse_table [bHASH] (render f header_lines table) = Ok table.
Proof. TODO. Qed.

(* PRIORITY 3: requested columns come back in the requested order *)
Lemma select_cols_length cols row : length (select_cols cols row) = length cols.
Proof. TODO. Qed.
Lemma select_cols_order cols row j : NoDup cols -> (forall c, In c cols -> c < length row) ->
  j < length cols -> nth j (select_cols cols row) 0%Z = nth (nth j cols 0) row 0%Z.
Proof. TODO. Qed.

(* PRIORITY 4: limits: pieces of exactly the listed lengths whose concatenation is the
   whole file; inconsistent limits are rejected *)
Lemma split_limits_spec {A} (data : list A) ls parts : split_limits data (Some ls) = Ok parts ->
  map (@length A) parts = ls /\ concat parts = data.
Proof. TODO. Qed.
Lemma split_limits_reject {A} (data : list A) ls : list_sum ls <> length data ->
  split_limits data (Some ls) = Err ValueError.
Proof. TODO. Qed.
Lemma split_limits_none {A} (data : list A) : split_limits data None = Ok [data].
Proof. TODO. Qed.

(* PRIORITY 5: the row limit keeps a prefix *)
Lemma opentxt_nrows cs s k t : parse_table cs s = Ok t -> opentxt cs s None (Some k) = Ok (firstn k t).
Proof. TODO. Qed.

(* PRIORITY 6: microstate reader: requested integer dtype (16 bit by default), values that fit
   are returned unchanged, non-integer dtypes and multi-column files are rejected *)
Lemma openmicrostates_dtype cs s lim d dt parts : openmicrostates cs s lim d = Ok (dt, parts) ->
  dt = match d with Some x => x | None => Int16 end /\ dt <> Float64.
Proof. TODO. Qed.
Lemma openmicrostates_float cs s lim : openmicrostates cs s lim (Some Float64) = Err TypeError.
Proof. TODO. Qed.
Lemma dtype_wrap_fits z : (-32768 <= z < 32768)%Z -> dtype_wrap Int16 z = z.
Proof. TODO. Qed.
