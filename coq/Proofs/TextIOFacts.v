(* C16: text writer / reader round trip, column order, limits *)
From Coq Require Import List ZArith NArith Arith Bool Lia Permutation.
From MsmV Require Import Lib.Result Lib.PyList Lib.Sorting Model.TextIO.
Import ListNotations.
Local Open Scope nat_scope.

(* ------------------------------------------------------------------ *)
(* helpers: split_on                                                   *)
(* ------------------------------------------------------------------ *)
Lemma split_on_app_nosep p a rest cur :
  (forall b, In b a -> p b = false) ->
  split_on p (a ++ rest) cur = split_on p rest (rev a ++ cur).
Proof.
  revert cur; induction a as [|x a IH]; intros cur Ha; [reflexivity|].
  cbn [app split_on]. rewrite (Ha x (or_introl eq_refl)).
  rewrite IH by (intros b Hb; apply Ha; right; exact Hb).
  cbn [rev]. rewrite <- app_assoc. reflexivity.
Qed.

Lemma split_on_nosep p a : (forall b, In b a -> p b = false) -> split_on p a [] = [a].
Proof.
  intros Ha. rewrite <- (app_nil_r a) at 1. rewrite split_on_app_nosep by exact Ha.
  cbn [split_on]. rewrite app_nil_r, rev_involutive. reflexivity.
Qed.

Lemma split_on_app_sep p a s rest :
  (forall b, In b a -> p b = false) -> p s = true ->
  split_on p (a ++ s :: rest) [] = a :: split_on p rest [].
Proof.
  intros Ha Hs. rewrite split_on_app_nosep by exact Ha.
  cbn [split_on]. rewrite Hs, app_nil_r, rev_involutive. reflexivity.
Qed.

(* ------------------------------------------------------------------ *)
(* helpers: decimal rendering                                          *)
(* ------------------------------------------------------------------ *)
Definition isdig (b : byte) : Prop := is_digit b = true.

Lemma size_nat_mono n m : (n <= m)%N -> N.size_nat n <= N.size_nat m.
Proof.
  intros Hle. destruct n as [|p], m as [|q]; cbn [N.size_nat]; try lia.
  destruct (Pos.eq_dec p q) as [->|Hne]; [lia|].
  apply Pos.size_nat_monotone. lia.
Qed.

Lemma size_nat_div2 n : n <> 0%N -> S (N.size_nat (N.div2 n)) = N.size_nat n.
Proof. destruct n as [|[p|p|]]; intros Hn; try congruence; reflexivity. Qed.

Lemma size_nat_div10 n : n <> 0%N -> S (N.size_nat (n / 10)) <= N.size_nat n.
Proof.
  intros Hn. rewrite <- (size_nat_div2 n Hn). apply le_n_S, size_nat_mono.
  rewrite N.div2_div. apply N.div_le_compat_l. lia.
Qed.

Lemma digit_byte_ok n : (n < 10)%N ->
  isdig (b0 + N.to_nat n) /\ N.of_nat (b0 + N.to_nat n - b0) = n.
Proof.
  intros Hn. split.
  - unfold isdig, is_digit, b0. apply andb_true_iff; split; apply Nat.leb_le; lia.
  - lia.
Qed.

Lemma digits_go_spec fuel : forall n acc, N.size_nat n <= fuel ->
  exists ds, digits_go fuel n acc = ds ++ acc /\ Forall isdig ds /\ (n <> 0%N -> ds <> []) /\
             forall rest, parse_digits (ds ++ rest) 0%N = parse_digits rest n.
Proof.
  induction fuel as [|f IH]; intros n acc Hsz.
  - assert (Hn : n = 0%N) by (destruct n; [reflexivity|cbn in Hsz; destruct p; cbn in Hsz; lia]).
    subst n. exists []. cbn [digits_go app]. repeat split; auto; congruence.
  - cbn [digits_go]. destruct (N.eqb_spec n 0) as [->|Hn].
    + exists []. cbn [app]. repeat split; auto; congruence.
    + pose proof (size_nat_div10 n Hn) as Hd.
      destruct (IH (n / 10)%N ((b0 + N.to_nat (n mod 10)) :: acc)) as (ds & Heq & Hdig & _ & Hval); [lia|].
      assert (Hlt : (n mod 10 < 10)%N) by (apply N.mod_lt; lia).
      destruct (digit_byte_ok _ Hlt) as [Hd1 Hd2].
      exists (ds ++ [b0 + N.to_nat (n mod 10)]). split; [|split; [|split]].
      * rewrite Heq, <- app_assoc. reflexivity.
      * apply Forall_app; split; [exact Hdig|constructor; [exact Hd1|constructor]].
      * intros _ Hnil. apply app_eq_nil in Hnil. destruct Hnil as [_ Hnil]; discriminate.
      * intros rest. rewrite <- app_assoc. cbn [app]. rewrite Hval.
        cbn [parse_digits]. unfold isdig in Hd1. rewrite Hd1, Hd2.
        f_equal. rewrite (N.div_mod n 10) at 3 by lia. lia.
Qed.

Lemma render_N_spec n :
  render_N n <> [] /\ Forall isdig (render_N n) /\ parse_digits (render_N n) 0%N = Some n.
Proof.
  unfold render_N. destruct (N.eqb_spec n 0) as [->|Hn].
  - split; [discriminate|]. split; [|reflexivity]. constructor; [reflexivity|constructor].
  - destruct (digits_go_spec (S (N.size_nat n)) n []) as (ds & Heq & Hdig & Hne & Hval); [lia|].
    rewrite Heq, app_nil_r. split; [auto|]. split; [exact Hdig|].
    specialize (Hval []). rewrite app_nil_r in Hval. exact Hval.
Qed.

Lemma isdig_facts b : isdig b ->
  Nat.eqb b bMINUS = false /\ Nat.eqb bDOT b = false /\ is_eol b = false /\ is_ws b = false /\
  Nat.eqb b bHASH = false.
Proof.
  unfold isdig, is_digit, is_eol, is_ws, b0, bMINUS, bDOT, bLF, bCR, bSP, bTAB, bHASH.
  intros Hb. apply andb_true_iff in Hb. destruct Hb as [H1 H2].
  apply Nat.leb_le in H1. apply Nat.leb_le in H2.
  repeat split; try apply orb_false_iff; repeat split; apply Nat.eqb_neq; lia.
Qed.

(* PRIORITY 1: a number written in any of the three formats is read back *)
Lemma parse_num_digits (neg : bool) ds fp n :
  ds <> [] -> Forall isdig ds -> parse_digits ds 0%N = Some n ->
  fp = [] \/ fp = [bDOT; b0; b0; b0; b0; b0] ->
  parse_num ((if neg then [bMINUS] else []) ++ ds ++ fp)
  = Some (if neg then (- Z.of_N n)%Z else Z.of_N n).
Proof.
  intros Hne Hdig Hval Hfp.
  assert (Hnodot : forall b, In b ds -> Nat.eqb bDOT b = false).
  { intros b Hb. rewrite Forall_forall in Hdig. apply (isdig_facts b (Hdig b Hb)). }
  assert (Hbody : parse_num ((if neg then [bMINUS] else []) ++ ds ++ fp) =
          match split_on (Nat.eqb bDOT) (ds ++ fp) [] with
          | [ip] => match ip, parse_digits ip 0%N with
                    | _ :: _, Some n => Some (if neg then (- Z.of_N n)%Z else Z.of_N n)
                    | _, _ => None end
          | [ip; fp] => match ip, parse_digits ip 0%N, forallb (Nat.eqb b0) fp with
                        | _ :: _, Some n, true => Some (if neg then (- Z.of_N n)%Z else Z.of_N n)
                        | _, _, _ => None end
          | _ => None
          end).
  { unfold parse_num. destruct neg.
    - cbn [app]. change (Nat.eqb bMINUS bMINUS) with true. cbv iota. reflexivity.
    - cbn [app]. destruct ds as [|d ds']; [congruence|]. cbn [app].
      assert (Hd : Nat.eqb d bMINUS = false).
      { apply isdig_facts. inversion Hdig; assumption. }
      rewrite Hd. reflexivity. }
  rewrite Hbody. destruct Hfp as [->| ->].
  - rewrite app_nil_r, split_on_nosep by exact Hnodot. cbv beta iota.
    destruct ds; [congruence|]. rewrite Hval. reflexivity.
  - rewrite split_on_app_sep; [|exact Hnodot|reflexivity].
    change (split_on (Nat.eqb bDOT) [b0; b0; b0; b0; b0] []) with [[b0; b0; b0; b0; b0]].
    cbv beta iota. destruct ds; [congruence|]. rewrite Hval. reflexivity.
Qed.

Lemma render_num_shape f z :
  render_num f z = (if Z.ltb z 0 then [bMINUS] else []) ++ render_N (Z.abs_N z) ++
                   match f with F5 => [bDOT; b0; b0; b0; b0; b0] | _ => [] end.
Proof.
  unfold render_num, render_Z. destruct f; rewrite ?app_nil_r, <- ?app_assoc; reflexivity.
Qed.

Lemma parse_render_num f z : parse_num (render_num f z) = Some z.
Proof.
  rewrite render_num_shape.
  destruct (render_N_spec (Z.abs_N z)) as (Hne & Hdig & Hval).
  rewrite (parse_num_digits _ _ _ _ Hne Hdig Hval) by (destruct f; auto).
  f_equal. rewrite N2Z.inj_abs_N. destruct (Z.ltb_spec z 0); lia.
Qed.

(* PRIORITY 2: whatever integer table is written (with any header lines free of line
   ends) is read back identically; comment lines are ignored *)
Definition no_eol (l : list byte) : Prop := forall b, In b l -> is_eol b = false.

Definition numbyte (b : byte) : Prop := isdig b \/ b = bMINUS \/ b = bDOT.

Lemma numbyte_facts b : numbyte b ->
  is_eol b = false /\ is_ws b = false /\ Nat.eqb b bHASH = false.
Proof.
  intros [Hd|[->| ->]]; [|repeat split; reflexivity..].
  destruct (isdig_facts b Hd) as (_ & _ & H1 & H2 & H3). auto.
Qed.

Lemma render_num_bytes f z b : In b (render_num f z) -> numbyte b.
Proof.
  rewrite render_num_shape. intros Hb.
  destruct (render_N_spec (Z.abs_N z)) as (_ & Hdig & _). rewrite Forall_forall in Hdig.
  apply in_app_or in Hb. destruct Hb as [Hb|Hb].
  - destruct (Z.ltb z 0); [|destruct Hb]. destruct Hb as [<-|[]]. right; left; reflexivity.
  - apply in_app_or in Hb. destruct Hb as [Hb|Hb]; [left; apply Hdig; exact Hb|].
    destruct f; cbn [In] in Hb; try tauto.
    destruct Hb as [<-|Hb]; [right; right; reflexivity|].
    left. repeat (destruct Hb as [<-|Hb]; [reflexivity|]). destruct Hb.
Qed.

Lemma render_num_nonempty f z : render_num f z <> [].
Proof.
  rewrite render_num_shape. intros Hnil.
  apply app_eq_nil in Hnil. destruct Hnil as [_ Hnil].
  apply app_eq_nil in Hnil. destruct Hnil as [Hnil _].
  apply (proj1 (render_N_spec (Z.abs_N z))). exact Hnil.
Qed.

Lemma join_In b sep parts : In b (join sep parts) -> In b sep \/ exists p, In p parts /\ In b p.
Proof.
  induction parts as [|p parts IH]; [intros []|].
  destruct parts as [|q parts].
  - cbn [join]. intros Hb. right. exists p. split; [left; reflexivity|exact Hb].
  - change (join sep (p :: q :: parts)) with (p ++ sep ++ join sep (q :: parts)).
    intros Hb. apply in_app_or in Hb. destruct Hb as [Hb|Hb].
    + right. exists p. split; [left; reflexivity|exact Hb].
    + apply in_app_or in Hb. destruct Hb as [Hb|Hb]; [left; exact Hb|].
      destruct (IH Hb) as [H|(p' & Hp' & Hbp')]; [left; exact H|].
      right. exists p'. split; [right; exact Hp'|exact Hbp'].
Qed.

Definition row_line (f : fmt) (r : list Z) : list byte := join [bSP] (map (render_num f) r).

Lemma row_line_bytes f r b : In b (row_line f r) -> numbyte b \/ b = bSP.
Proof.
  intros Hb. apply join_In in Hb. destruct Hb as [[<-|[]]|(p & Hp & Hbp)]; [right; reflexivity|].
  apply in_map_iff in Hp. destruct Hp as (z & <- & _). left. apply (render_num_bytes f z b Hbp).
Qed.

Lemma row_line_no_eol f r : no_eol (row_line f r).
Proof.
  intros b Hb. destruct (row_line_bytes f r b Hb) as [Hn| ->]; [|reflexivity].
  apply numbyte_facts. exact Hn.
Qed.

Lemma lines_of_line l rest : no_eol l -> lines_of (l ++ bLF :: rest) = l :: lines_of rest.
Proof. intros Hl. unfold lines_of. apply split_on_app_sep; [exact Hl|reflexivity]. Qed.

Lemma lines_of_header hl rest : (forall l, In l hl -> no_eol l) ->
  lines_of (render_header hl ++ rest) = map (fun l => bHASH :: bSP :: l) hl ++ lines_of rest.
Proof.
  induction hl as [|l hl IH]; intros Hhl; [reflexivity|].
  replace (render_header (l :: hl) ++ rest)
    with ((bHASH :: bSP :: l) ++ bLF :: (render_header hl ++ rest))
    by (unfold render_header; cbn [map concat]; rewrite <- ?app_assoc; reflexivity).
  rewrite lines_of_line.
  - cbn [map app]. f_equal. apply IH. intros l' Hl'. apply Hhl. right. exact Hl'.
  - intros b [<-|[<-|Hb]]; [reflexivity|reflexivity|]. apply (Hhl l (or_introl eq_refl) b Hb).
Qed.

Lemma lines_of_rows f table rest :
  lines_of (concat (map (render_row f) table) ++ rest) = map (row_line f) table ++ lines_of rest.
Proof.
  induction table as [|r table IH]; [reflexivity|].
  replace (concat (map (render_row f) (r :: table)) ++ rest)
    with (row_line f r ++ bLF :: (concat (map (render_row f) table) ++ rest))
    by (cbn [map concat]; unfold render_row, row_line; rewrite <- ?app_assoc; reflexivity).
  rewrite lines_of_line by apply row_line_no_eol.
  cbn [map app]. f_equal. exact IH.
Qed.

Lemma lines_of_render f hl table : (forall l, In l hl -> no_eol l) ->
  lines_of (render f hl table)
  = map (fun l => bHASH :: bSP :: l) hl ++ map (row_line f) table ++ [[]].
Proof.
  intros Hhl. unfold render. rewrite (lines_of_header hl _ Hhl).
  rewrite <- (app_nil_r (concat (map (render_row f) table))), lines_of_rows. reflexivity.
Qed.

Lemma strip_comment_id l : (forall b, In b l -> Nat.eqb b bHASH = false) ->
  strip_comment [bHASH] l = l.
Proof.
  induction l as [|x l IH]; intros Hl; [reflexivity|].
  cbn [strip_comment existsb]. rewrite (Hl x (or_introl eq_refl)). cbn [orb].
  f_equal. apply IH. intros b Hb. apply Hl. right. exact Hb.
Qed.

Lemma tokens_join parts :
  (forall p, In p parts -> p <> [] /\ forall b, In b p -> is_ws b = false) ->
  tokens (join [bSP] parts) = parts.
Proof.
  induction parts as [|p parts IH]; intros Hparts; [reflexivity|].
  destruct (Hparts p (or_introl eq_refl)) as [Hpne Hpws].
  destruct parts as [|q parts].
  - cbn [join]. unfold tokens. rewrite split_on_nosep by exact Hpws.
    destruct p; [congruence|reflexivity].
  - change (join [bSP] (p :: q :: parts)) with (p ++ bSP :: join [bSP] (q :: parts)).
    unfold tokens. rewrite split_on_app_sep; [|exact Hpws|reflexivity].
    cbn [filter]. replace (negb (Nat.eqb (length p) 0)) with true by (destruct p; [congruence|reflexivity]).
    f_equal. apply IH. intros p' Hp'. apply Hparts. right. exact Hp'.
Qed.

Lemma row_tokens f r : tokens (strip_comment [bHASH] (row_line f r)) = map (render_num f) r.
Proof.
  rewrite strip_comment_id.
  - apply tokens_join. intros p Hp. apply in_map_iff in Hp. destruct Hp as (z & <- & _).
    split; [apply render_num_nonempty|].
    intros b Hb. apply numbyte_facts. apply (render_num_bytes f z b Hb).
  - intros b Hb. destruct (row_line_bytes f r b Hb) as [Hn| ->]; [|reflexivity].
    apply numbyte_facts. exact Hn.
Qed.

Lemma all_some_parse_row f r : all_some (map parse_num (map (render_num f) r)) = Some r.
Proof.
  induction r as [|z r IH]; [reflexivity|].
  cbn [map all_some]. rewrite parse_render_num, IH. reflexivity.
Qed.

Lemma all_some_parse_rows f table :
  all_some (map (fun r => all_some (map parse_num r)) (map (map (render_num f)) table)) = Some table.
Proof.
  induction table as [|r table IH]; [reflexivity|].
  cbn [map all_some]. rewrite all_some_parse_row, IH. reflexivity.
Qed.

Lemma header_rows_dropped hl :
  filter (fun r : list (list byte) => negb (Nat.eqb (length r) 0))
    (map (fun l => tokens (strip_comment [bHASH] l)) (map (fun l => bHASH :: bSP :: l) hl)) = [].
Proof. induction hl as [|l hl IH]; [reflexivity|]. cbn [map]. exact IH. Qed.

Lemma data_rows_kept f table : (forall r, In r table -> 1 <= length r) ->
  filter (fun r : list (list byte) => negb (Nat.eqb (length r) 0))
    (map (fun l => tokens (strip_comment [bHASH] l)) (map (row_line f) table))
  = map (map (render_num f)) table.
Proof.
  induction table as [|r table IH]; intros Hlen; [reflexivity|].
  cbn [map filter]. rewrite row_tokens, map_length.
  pose proof (Hlen r (or_introl eq_refl)) as Hr.
  destruct r as [|z r]; [cbn in Hr; lia|]. cbn [length Nat.eqb negb].
  f_equal. apply IH. intros r' Hr'. apply Hlen. right. exact Hr'.
Qed.

Lemma roundtrip f header_lines table ncols :
  (forall l, In l header_lines -> no_eol l) ->
  table <> [] -> 1 <= ncols -> (forall r, In r table -> length r = ncols) ->
  parse_table [bHASH] (render f header_lines table) = Ok table.
Proof.
  intros Hhl Hne Hn Hrect. unfold parse_table. cbv zeta.
  rewrite (lines_of_render f header_lines table Hhl).
  rewrite !map_app, !filter_app, header_rows_dropped.
  rewrite data_rows_kept by (intros r Hr; rewrite (Hrect r Hr); exact Hn).
  cbn [app]. replace (filter _ (map _ [[]])) with (@nil (list (list byte))) by reflexivity.
  rewrite app_nil_r, all_some_parse_rows.
  destruct table as [|r0 table]; [congruence|].
  replace (forallb _ (r0 :: table)) with true; [reflexivity|].
  symmetry. apply forallb_forall. intros r Hr. apply Nat.eqb_eq.
  rewrite (Hrect r Hr), (Hrect r0 (or_introl eq_refl)). reflexivity.
Qed.

(* PRIORITY 3: requested columns come back in the requested order *)
Lemma nth_list_upd_eq {A} (l : list A) i v d : i < length l -> nth i (list_upd l i v) d = v.
Proof. revert i; induction l as [|x xs IH]; intros [|i] H; simpl in *; try lia; [reflexivity|apply IH; lia]. Qed.
Lemma nth_list_upd_ne {A} (l : list A) i j v d : i <> j -> nth j (list_upd l i v) d = nth j l d.
Proof.
  revert i j; induction l as [|x xs IH]; intros [|i] [|j] H; simpl; try reflexivity; try lia.
  apply IH. lia.
Qed.

Lemma ins_sorted_perm x l : Permutation (x :: l) (ins_sorted x l).
Proof.
  induction l as [|y t IH]; cbn [ins_sorted]; [reflexivity|].
  destruct (Nat.ltb (fst x) (fst y)); [reflexivity|].
  rewrite perm_swap. constructor. exact IH.
Qed.

Lemma fold_ins_perm l : forall acc,
  Permutation (l ++ acc) (fold_left (fun acc x => ins_sorted x acc) l acc).
Proof.
  induction l as [|x l IH]; intros acc; cbn [fold_left app]; [reflexivity|].
  rewrite <- IH. rewrite Permutation_middle. apply Permutation_app_head, ins_sorted_perm.
Qed.

Lemma map_snd_combine {A B} (l : list A) (l' : list B) :
  length l = length l' -> map snd (combine l l') = l'.
Proof.
  revert l'; induction l as [|x l IH]; intros [|y l'] H; cbn in *; try congruence.
  f_equal. apply IH. lia.
Qed.

Lemma argsort_nat_perm cols : Permutation (seq 0 (length cols)) (argsort_nat cols).
Proof.
  unfold argsort_nat. rewrite <- fold_ins_perm, app_nil_r, map_snd_combine; [reflexivity|].
  rewrite seq_length. reflexivity.
Qed.

Lemma argsort_nat_length cols : length (argsort_nat cols) = length cols.
Proof. rewrite <- (Permutation_length (argsort_nat_perm cols)). apply seq_length. Qed.

Lemma fold_upd_length (pos : nat -> nat) (val : nat -> Z) ms : forall out,
  length (fold_left (fun out m => list_upd out (pos m) (val m)) ms out) = length out.
Proof.
  induction ms as [|m ms IH]; intros out; cbn [fold_left]; [reflexivity|].
  rewrite IH. apply list_upd_length.
Qed.

Lemma fold_upd_untouched (pos : nat -> nat) (val : nat -> Z) j ms : forall out,
  ~ In j (map pos ms) ->
  nth j (fold_left (fun out m => list_upd out (pos m) (val m)) ms out) 0%Z = nth j out 0%Z.
Proof.
  induction ms as [|m ms IH]; intros out Hj; cbn [fold_left]; [reflexivity|].
  cbn [map In] in Hj. rewrite IH by tauto. apply nth_list_upd_ne. tauto.
Qed.

Lemma fold_upd_written (pos : nat -> nat) (val : nat -> Z) ms : forall out m,
  NoDup (map pos ms) -> (forall k, In k ms -> pos k < length out) -> In m ms ->
  nth (pos m) (fold_left (fun out m => list_upd out (pos m) (val m)) ms out) 0%Z = val m.
Proof.
  induction ms as [|m0 ms IH]; intros out m Hnd Hlt Hin; [destruct Hin|].
  cbn [fold_left]. cbn [map] in Hnd. inversion Hnd as [|? ? Hnotin Hnd']; subst.
  destruct (Nat.eq_dec (pos m) (pos m0)) as [Heq|Hneq].
  - rewrite Heq, fold_upd_untouched by exact Hnotin.
    rewrite nth_list_upd_eq by (apply Hlt; left; reflexivity).
    destruct Hin as [->|Hin]; [reflexivity|].
    exfalso. apply Hnotin. rewrite <- Heq. apply in_map. exact Hin.
  - destruct Hin as [->|Hin]; [congruence|].
    apply IH; [exact Hnd'| |exact Hin].
    intros k Hk. rewrite list_upd_length. apply Hlt. right. exact Hk.
Qed.

Lemma map_nth_seq {A} (l : list A) d : map (fun m => nth m l d) (seq 0 (length l)) = l.
Proof.
  induction l as [|x l IH]; [reflexivity|].
  cbn [length seq map nth]. f_equal. rewrite <- seq_shift, map_map. exact IH.
Qed.

Lemma nth_map_lt {A B} (f : A -> B) l m d d' : m < length l -> nth m (map f l) d' = f (nth m l d).
Proof. intros Hm. rewrite (nth_indep _ d' (f d)) by (rewrite map_length; exact Hm). apply map_nth. Qed.

Lemma select_cols_length cols row : length (select_cols cols row) = length cols.
Proof.
  unfold select_cols. rewrite fold_upd_length with (pos := fun m => nth m (argsort_nat cols) 0)
    (val := fun m => nth m (map (fun c => nth c row 0%Z) (map (fun i => nth i cols 0) (argsort_nat cols))) 0%Z).
  rewrite !map_length. apply argsort_nat_length.
Qed.

Lemma select_cols_order cols row j : NoDup cols -> (forall c, In c cols -> c < length row) ->
  j < length cols -> nth j (select_cols cols row) 0%Z = nth (nth j cols 0) row 0%Z.
Proof.
  intros _ _ Hj. unfold select_cols.
  set (idx := argsort_nat cols).
  set (read := map (fun c => nth c row 0%Z) (map (fun i => nth i cols 0) idx)).
  pose proof (argsort_nat_perm cols) as Hperm. fold idx in Hperm.
  pose proof (argsort_nat_length cols) as Hlen. fold idx in Hlen.
  assert (Hjin : In j idx).
  { apply (Permutation_in _ Hperm). apply in_seq. lia. }
  destruct (In_nth _ _ 0 Hjin) as (m & Hm & Hmj).
  rewrite <- Hmj at 1.
  rewrite (fold_upd_written (fun m => nth m idx 0) (fun m => nth m read 0%Z)).
  - unfold read. rewrite map_map.
    rewrite (nth_map_lt _ idx m 0) by exact Hm. rewrite Hmj. reflexivity.
  - rewrite <- Hlen, map_nth_seq. apply (Permutation_NoDup Hperm), seq_NoDup.
  - intros k Hk. apply in_seq in Hk. unfold read. rewrite !map_length.
    assert (Hin : In (nth k idx 0) idx) by (apply nth_In; lia).
    apply (Permutation_in _ (Permutation_sym Hperm)) in Hin. apply in_seq in Hin. lia.
  - apply in_seq. lia.
Qed.

(* PRIORITY 4: limits: pieces of exactly the listed lengths whose concatenation is the
   whole file; inconsistent limits are rejected *)
Lemma split_limits_spec {A} (data : list A) ls parts : split_limits data (Some ls) = Ok parts ->
  map (@length A) parts = ls /\ concat parts = data.
Proof.
  unfold split_limits. destruct (Nat.eqb_spec (list_sum ls) (length data)) as [Heq|Hne]; intros H; [|discriminate].
  inversion H; subst parts. split; [apply split_lens_lengths|apply split_lens_concat]; lia.
Qed.
Lemma split_limits_reject {A} (data : list A) ls : list_sum ls <> length data ->
  split_limits data (Some ls) = Err ValueError.
Proof.
  intros Hne. unfold split_limits. destruct (Nat.eqb_spec (list_sum ls) (length data)); [contradiction|reflexivity].
Qed.
Lemma split_limits_none {A} (data : list A) : split_limits data None = Ok [data].
Proof. reflexivity. Qed.

(* PRIORITY 5: the row limit keeps a prefix *)
Lemma opentxt_nrows cs s k t : parse_table cs s = Ok t -> opentxt cs s None (Some k) = Ok (firstn k t).
Proof. intros H. unfold opentxt. rewrite H. reflexivity. Qed.

(* PRIORITY 6: microstate reader: requested integer dtype (16 bit by default), values that fit
   are returned unchanged, non-integer dtypes and multi-column files are rejected *)
Lemma openmicrostates_dtype cs s lim d dt parts : openmicrostates cs s lim d = Ok (dt, parts) ->
  dt = match d with Some x => x | None => Int16 end /\ dt <> Float64.
Proof.
  intros H. unfold openmicrostates, bind in H.
  destruct d as [[]|]; try discriminate;
    destruct (parse_table cs s) as [t|]; try discriminate;
    destruct (split_limits t lim); try discriminate;
    destruct t as [|r t']; try discriminate;
    destruct (Nat.eqb (length r) 1); try discriminate;
    inversion H; subst; split; (reflexivity || discriminate).
Qed.
Lemma openmicrostates_float cs s lim : openmicrostates cs s lim (Some Float64) = Err TypeError.
Proof. reflexivity. Qed.
Lemma dtype_wrap_fits z : (-32768 <= z < 32768)%Z -> dtype_wrap Int16 z = z.
Proof.
  intros Hz. unfold dtype_wrap. change (2 ^ 16)%Z with 65536%Z. change (65536 / 2)%Z with 32768%Z.
  rewrite Z.mod_small by lia. lia.
Qed.
