(* Totality on ergodic input: the stationary vector of a primitive stochastic matrix exists
   and is found by [stationary]; the second matrix of the Hummer-Szabo formula is invertible. *)
From Coq Require Import List ZArith Arith Bool Lia QArith Qcanon.
From MsmV Require Import Lib.Result Lib.PyList Lib.QMat Model.Ergodic Model.Peq Model.HS
  Proofs.QMatFacts Proofs.HSFacts Proofs.ErgodicFacts Proofs.UniqueFacts Proofs.GaussFacts.
Import ListNotations.
Local Open Scope nat_scope.

(* ------------------------------------------------------------------ *)
(* order helpers                                                       *)
(* ------------------------------------------------------------------ *)
Lemma Qc_sum0 a b : (0 <= a)%Qc -> (0 <= b)%Qc -> (a + b = 0)%Qc -> a = 0%Qc /\ b = 0%Qc.
Proof.
  intros Ha Hb E.
  assert (Ea : a = 0%Qc).
  { apply Qcle_antisym; [|exact Ha].
    replace a with (- b)%Qc by (transitivity (a + b - b)%Qc; [rewrite E|]; ring).
    replace 0%Qc with (- 0)%Qc by ring. apply Qcopp_le_compat. exact Hb. }
  split; [exact Ea|]. rewrite Ea in E. rewrite <- E. ring.
Qed.

Lemma qsum_nonneg_zero l : (forall x, In x l -> (0 <= x)%Qc) -> qsum l = 0%Qc ->
  forall x, In x l -> x = 0%Qc.
Proof.
  induction l as [|a l IH]; intros Hnn E x Hx; [destruct Hx|].
  rewrite qsum_cons in E.
  destruct (Qc_sum0 a (qsum l)) as [Ea El].
  - apply Hnn. left; reflexivity.
  - apply qsum_nonneg. intros y Hy. apply Hnn. right; exact Hy.
  - exact E.
  - destruct Hx as [<-|Hx]; [exact Ea|].
    apply IH; [intros y Hy; apply Hnn; right; exact Hy|exact El|exact Hx].
Qed.

Lemma qsum_opp l : qsum (map Qcopp l) = (- qsum l)%Qc.
Proof.
  induction l as [|a l IH]; cbn [map].
  - rewrite qsum_nil. ring.
  - rewrite !qsum_cons, IH. ring.
Qed.

Lemma Qcopp_nonneg x : (x <= 0)%Qc -> (0 <= - x)%Qc.
Proof. intros H. apply Qcopp_le_compat in H. exact H. Qed.

Lemma Qcopp_lt_compat x y : (x < y)%Qc -> (- y < - x)%Qc.
Proof.
  intros H. apply Qclt_minus_iff in H. apply Qclt_minus_iff.
  replace (- x + - - y)%Qc with (y + - x)%Qc by ring. exact H.
Qed.

Lemma Qcopp_nonneg_inv x : (0 <= - x)%Qc -> (x <= 0)%Qc.
Proof.
  intros H. apply Qcopp_le_compat in H.
  replace (Qcopp (Qcopp x)) with x in H by ring.
  replace (Qcopp 0%Qc) with 0%Qc in H by ring. exact H.
Qed.

Lemma Qcopp_zero x : (- x)%Qc = 0%Qc -> x = 0%Qc.
Proof. intros H. transitivity (- - x)%Qc; [ring|]. rewrite H. ring. Qed.

Lemma qsum_nonpos_zero l : (forall x, In x l -> (x <= 0)%Qc) -> qsum l = 0%Qc ->
  forall x, In x l -> x = 0%Qc.
Proof.
  intros Hnp E x Hx. apply Qcopp_zero.
  apply (qsum_nonneg_zero (map Qcopp l)).
  - intros y Hy. apply in_map_iff in Hy. destruct Hy as [z [<- Hz]]. apply Qcopp_nonneg, Hnp, Hz.
  - rewrite qsum_opp, E. ring.
  - apply in_map. exact Hx.
Qed.

Lemma ex_pos_dec (f : nat -> Qc) n :
  (exists i, i < n /\ (0 < f i)%Qc) \/ (forall i, i < n -> (f i <= 0)%Qc).
Proof.
  induction n as [|n [[i [Hi Hp]]|IH]].
  - right. intros i Hi. lia.
  - left. exists i. split; [lia|exact Hp].
  - destruct (Qclt_le_dec 0 (f n)) as [Hp|Hle].
    + left. exists n. split; [lia|exact Hp].
    + right. intros i Hi. destruct (Nat.eq_dec i n) as [->|Hne]; [exact Hle|apply IH; lia].
Qed.

(* positive and negative part *)
Definition pp (t : Qc) : Qc := if Qclt_le_dec 0 t then t else 0%Qc.
Definition pm (t : Qc) : Qc := if Qclt_le_dec 0 t then 0%Qc else (- t)%Qc.

Lemma pp_nonneg t : (0 <= pp t)%Qc.
Proof. unfold pp. destruct (Qclt_le_dec 0 t) as [H|H]; [apply Qclt_le_weak; exact H|apply Qcle_refl]. Qed.

Lemma pm_nonneg t : (0 <= pm t)%Qc.
Proof. unfold pm. destruct (Qclt_le_dec 0 t) as [H|H]; [apply Qcle_refl|apply Qcopp_nonneg; exact H]. Qed.

Lemma pp_pm t : t = (pp t - 1 * pm t)%Qc.
Proof. unfold pp, pm. destruct (Qclt_le_dec 0 t); ring. Qed.

Lemma pp_pos t : (0 < t)%Qc -> pp t = t.
Proof.
  intros H. unfold pp. destruct (Qclt_le_dec 0 t) as [_|H']; [reflexivity|].
  exfalso. exact (Qclt_not_le _ _ H H').
Qed.

Lemma pm_neg t : (t < 0)%Qc -> pm t = (- t)%Qc.
Proof.
  intros H. unfold pm. destruct (Qclt_le_dec 0 t) as [H'|_]; [|reflexivity].
  exfalso. exact (Qclt_irrefl _ (Qclt_trans _ _ _ H H')).
Qed.

Lemma pp_cases t : pp t = t \/ pp t = 0%Qc.
Proof. unfold pp. destruct (Qclt_le_dec 0 t); [left|right]; reflexivity. Qed.

(* ------------------------------------------------------------------ *)
(* a row vector fixed by an entrywise positive stochastic matrix has    *)
(* entries of one sign                                                  *)
(* ------------------------------------------------------------------ *)
Section Sign.
Variables (n : nat) (P : mat) (x : list Qc).
Hypothesis Hn : 0 < n.
Hypothesis HP : wf n n P.
Hypothesis SP : rows_sum_one P.
Hypothesis Hpos : forall i j, i < n -> j < n -> (0 < mget P i j)%Qc.
Hypothesis Hx : length x = n.
Hypothesis ExP : vmul x P = x.

Let xp := map (fun i => pp (nth i x 0%Qc)) (seq 0 n).
Let xm := map (fun i => pm (nth i x 0%Qc)) (seq 0 n).

Lemma sg_len_xp : length xp = n.
Proof. unfold xp. rewrite map_length, seq_length. reflexivity. Qed.
Lemma sg_len_xm : length xm = n.
Proof. unfold xm. rewrite map_length, seq_length. reflexivity. Qed.
Lemma sg_nth_xp i : i < n -> nth i xp 0%Qc = pp (nth i x 0%Qc).
Proof. intros Hi. unfold xp. exact (nth_map_seq (fun i => pp (nth i x 0%Qc)) n i 0%Qc Hi). Qed.
Lemma sg_nth_xm i : i < n -> nth i xm 0%Qc = pm (nth i x 0%Qc).
Proof. intros Hi. unfold xm. exact (nth_map_seq (fun i => pm (nth i x 0%Qc)) n i 0%Qc Hi). Qed.

Lemma sg_xp_nonneg t : In t xp -> (0 <= t)%Qc.
Proof. intros H. unfold xp in H. apply in_map_iff in H. destruct H as [i [<- _]]. apply pp_nonneg. Qed.
Lemma sg_xm_nonneg t : In t xm -> (0 <= t)%Qc.
Proof. intros H. unfold xm in H. apply in_map_iff in H. destruct H as [i [<- _]]. apply pm_nonneg. Qed.

Lemma sg_split : x = vlin n xp xm 1.
Proof.
  apply (vec_ext n); [exact Hx|apply length_vlin|].
  intros i Hi. rewrite nth_vlin, sg_nth_xp, sg_nth_xm by exact Hi. apply pp_pm.
Qed.

Lemma sg_entry j : j < n ->
  nth j x 0%Qc = (nth j (vmul xp P) 0 - 1 * nth j (vmul xm P) 0)%Qc.
Proof.
  intros Hj. rewrite <- ExP at 1. rewrite sg_split at 1.
  rewrite (vmul_vlin n P xp xm 1 Hn HP sg_len_xp sg_len_xm). apply nth_vlin. exact Hj.
Qed.

Lemma sg_not_mixed :
  (exists i, i < n /\ (0 < nth i x 0)%Qc) -> (exists i, i < n /\ (nth i x 0 < 0)%Qc) -> False.
Proof.
  intros [a [Ha Hpa]] [b [Hb Hnb]].
  assert (Hxp : exists t, In t xp /\ (0 < t)%Qc).
  { exists (nth a xp 0%Qc). split; [apply nth_In; rewrite sg_len_xp; exact Ha|].
    rewrite sg_nth_xp, pp_pos by assumption. exact Hpa. }
  assert (Hxm : exists t, In t xm /\ (0 < t)%Qc).
  { exists (nth b xm 0%Qc). split; [apply nth_In; rewrite sg_len_xm; exact Hb|].
    rewrite sg_nth_xm, pm_neg by assumption.
    apply Qcopp_lt_compat in Hnb. exact Hnb. }
  pose proof (vmul_positive n P xp Hn HP sg_len_xp Hpos sg_xp_nonneg Hxp) as Pp.
  pose proof (vmul_positive n P xm Hn HP sg_len_xm Hpos sg_xm_nonneg Hxm) as Pm.
  assert (Hlt : forall j, j < n -> (0 < nth j (vmul xp P) 0 - nth j xp 0)%Qc).
  { intros j Hj. rewrite sg_nth_xp by exact Hj.
    destruct (pp_cases (nth j x 0%Qc)) as [E|E]; rewrite E.
    - rewrite (sg_entry j Hj) at 1.
      replace (nth j (vmul xp P) 0 - (nth j (vmul xp P) 0 - 1 * nth j (vmul xm P) 0))%Qc
        with (nth j (vmul xm P) 0%Qc) by ring.
      apply Pm. exact Hj.
    - replace (nth j (vmul xp P) 0 - 0)%Qc with (nth j (vmul xp P) 0%Qc) by ring.
      apply Pp. exact Hj. }
  assert (Hsum : (0 < qsum (map (fun j => (nth j (vmul xp P) 0 - nth j xp 0)%Qc) (seq 0 n)))%Qc).
  { apply qsum_pos.
    - intros t Ht. apply in_map_iff in Ht. destruct Ht as [j [<- Hj]]. apply in_seq in Hj.
      apply Qclt_le_weak, Hlt. lia.
    - exists (nth 0 (vmul xp P) 0 - nth 0 xp 0)%Qc. split.
      + apply in_map_iff. exists 0. split; [reflexivity|apply in_seq; lia].
      + apply Hlt. exact Hn. }
  rewrite (qsum_map_minus (fun j => nth j (vmul xp P) 0%Qc) (fun j => nth j xp 0%Qc)) in Hsum.
  rewrite <- (qsum_nth_seq (vmul xp P) n) in Hsum
    by (apply (length_vmul n n); [exact Hn|exact HP]).
  rewrite <- (qsum_nth_seq xp n sg_len_xp) in Hsum.
  rewrite (qsum_vmul n n xp P Hn sg_len_xp HP SP) in Hsum.
  replace (qsum xp - qsum xp)%Qc with 0%Qc in Hsum by ring.
  exact (Qclt_irrefl _ Hsum).
Qed.

Lemma sg_one_sign :
  (forall i, i < n -> (0 <= nth i x 0)%Qc) \/ (forall i, i < n -> (nth i x 0 <= 0)%Qc).
Proof.
  destruct (ex_pos_dec (fun i => nth i x 0%Qc) n) as [Hp|Hnp]; [|right; exact Hnp].
  destruct (ex_pos_dec (fun i => (- nth i x 0)%Qc) n) as [Hm|Hnm].
  - exfalso. apply (sg_not_mixed Hp). destruct Hm as [i [Hi Hm]]. exists i. split; [exact Hi|].
    apply Qcopp_lt_compat in Hm. replace (- - nth i x 0)%Qc with (nth i x 0%Qc) in Hm by ring.
    exact Hm.
  - left. intros i Hi. specialize (Hnm i Hi). cbv beta in Hnm.
    apply Qcopp_le_compat in Hnm. replace (- - nth i x 0)%Qc with (nth i x 0%Qc) in Hnm by ring.
    exact Hnm.
Qed.

Lemma sg_zero : qsum x = 0%Qc -> x = repeat 0%Qc n.
Proof.
  intros E. apply (vec_ext n); [exact Hx|apply repeat_length|].
  intros i Hi. rewrite nth_repeat0.
  assert (Hin : In (nth i x 0%Qc) x) by (apply nth_In; rewrite Hx; exact Hi).
  destruct sg_one_sign as [H|H].
  - apply (qsum_nonneg_zero x); [|exact E|exact Hin].
    intros t Ht. destruct (In_nth x t 0%Qc Ht) as [j [Hj <-]]. apply H. lia.
  - apply (qsum_nonpos_zero x); [|exact E|exact Hin].
    intros t Ht. destruct (In_nth x t 0%Qc Ht) as [j [Hj <-]]. apply H. lia.
Qed.

Lemma sg_nonneg : qsum x = 1%Qc -> forall t, In t x -> (0 <= t)%Qc.
Proof.
  intros E t Ht. destruct (In_nth x t 0%Qc Ht) as [j [Hj <-]]. rewrite Hx in Hj.
  destruct sg_one_sign as [H|H]; [apply H; exact Hj|]. exfalso.
  assert (Hle : (0 <= qsum (map Qcopp x))%Qc).
  { apply qsum_nonneg. intros y Hy. apply in_map_iff in Hy. destruct Hy as [z [<- Hz]].
    apply Qcopp_nonneg. destruct (In_nth x z 0%Qc Hz) as [l [Hl <-]]. apply H. lia. }
  rewrite qsum_opp, E in Hle. apply (Qclt_not_le _ _ Qc_0_lt_1).
  apply Qcopp_nonneg_inv. exact Hle.
Qed.
End Sign.

(* ------------------------------------------------------------------ *)
(* the linear system solved by [stationary]                             *)
(* ------------------------------------------------------------------ *)
Definition smat (n : nat) (T : mat) : mat :=
  map (fun j => if Nat.eqb j (n - 1) then ones n
                else map (fun i => (mget T i j - (if Nat.eqb i j then 1 else 0))%Qc) (seq 0 n))
      (seq 0 n).
Definition svec (n : nat) : list Qc :=
  map (fun j => if Nat.eqb j (n - 1) then 1%Qc else 0%Qc) (seq 0 n).

Lemma stationary_unfold n T : wf n n T ->
  stationary T = match solve (smat n T) (svec n) with
                 | Some x => if is_stationary T x then Some x else None
                 | None => None
                 end.
Proof. intros HT. unfold stationary, smat, svec. cbv zeta. rewrite (wf_length _ _ _ HT). reflexivity. Qed.

Lemma wf_smat n T : wf n n (smat n T).
Proof.
  split.
  - unfold smat. rewrite map_length, seq_length. reflexivity.
  - intros r Hr. unfold smat in Hr. apply in_map_iff in Hr. destruct Hr as [j [<- _]].
    destruct (Nat.eqb j (n - 1)); [apply length_ones|rewrite map_length, seq_length; reflexivity].
Qed.

Lemma length_svec n : length (svec n) = n.
Proof. unfold svec. rewrite map_length, seq_length. reflexivity. Qed.

Lemma nth_svec n j : j < n -> nth j (svec n) 0%Qc = if Nat.eqb j (n - 1) then 1%Qc else 0%Qc.
Proof.
  intros Hj. unfold svec.
  exact (nth_map_seq (fun j => if Nat.eqb j (n - 1) then 1%Qc else 0%Qc) n j 0%Qc Hj).
Qed.

Lemma mget_smat n T j i : j < n -> i < n ->
  mget (smat n T) j i =
  if Nat.eqb j (n - 1) then 1%Qc else (mget T i j - (if Nat.eqb i j then 1 else 0))%Qc.
Proof.
  intros Hj Hi. unfold mget at 1.
  assert (E : nth j (smat n T) [] = if Nat.eqb j (n - 1) then ones n
             else map (fun i => (mget T i j - (if Nat.eqb i j then 1 else 0))%Qc) (seq 0 n)).
  { unfold smat.
    exact (nth_map_seq (fun j => if Nat.eqb j (n - 1) then ones n
             else map (fun i => (mget T i j - (if Nat.eqb i j then 1 else 0))%Qc) (seq 0 n)) n j [] Hj). }
  rewrite E. destruct (Nat.eqb j (n - 1)).
  - apply nth_ones. exact Hi.
  - exact (nth_map_seq (fun i => (mget T i j - (if Nat.eqb i j then 1 else 0))%Qc) n i 0%Qc Hi).
Qed.

Lemma nth_mvec_smat n T x j : 0 < n -> wf n n T -> length x = n -> j < n ->
  nth j (mvec (smat n T) x) 0%Qc =
  if Nat.eqb j (n - 1) then qsum x else (nth j (vmul x T) 0 - nth j x 0)%Qc.
Proof.
  intros Hn HT Hx Hj. rewrite (nth_mvec n n _ x j (wf_smat n T) Hx Hj).
  destruct (Nat.eqb j (n - 1)) eqn:E.
  - rewrite (qsum_nth_seq x n Hx). apply qsum_map_ext. intros i Hi. apply in_seq in Hi.
    rewrite mget_smat, E by lia. ring.
  - rewrite (nth_vmul n n x T j Hn Hx HT Hj).
    rewrite <- (qsum_delta_r (fun i => nth i x 0%Qc) j n Hj), <- qsum_map_minus.
    apply qsum_map_ext. intros i Hi. apply in_seq in Hi.
    rewrite mget_smat, E by lia. ring.
Qed.

Lemma last_from_sum (u v : list Qc) n' : length u = S n' -> length v = S n' ->
  qsum u = qsum v -> (forall j, j < n' -> nth j u 0%Qc = nth j v 0%Qc) ->
  nth n' u 0%Qc = nth n' v 0%Qc.
Proof.
  intros Hu Hv E H.
  rewrite (qsum_nth_seq u (S n') Hu), (qsum_nth_seq v (S n') Hv) in E.
  rewrite seq_S, !map_app, !qsum_app in E. cbn [plus map] in E. rewrite !qsum_cons, !qsum_nil in E.
  rewrite (qsum_map_ext (fun j => nth j u 0%Qc) (fun j => nth j v 0%Qc)) in E
    by (intros j Hj; apply in_seq in Hj; apply H; lia).
  transitivity (qsum (map (fun j => nth j v 0%Qc) (seq 0 n')) + (nth n' u 0 + 0)
                - qsum (map (fun j => nth j v 0%Qc) (seq 0 n')))%Qc; [ring|].
  rewrite E. ring.
Qed.

(* the equations of the system, all but the last, force x T = x *)
Lemma smat_fixed n T x : 0 < n -> wf n n T -> rows_sum_one T -> length x = n ->
  (forall j, j < n - 1 -> nth j (mvec (smat n T) x) 0%Qc = 0%Qc) -> vmul x T = x.
Proof.
  intros Hn HT ST Hx H.
  assert (HxT : length (vmul x T) = n) by (apply (length_vmul n n); assumption).
  assert (Hlow : forall j, j < n - 1 -> nth j (vmul x T) 0%Qc = nth j x 0%Qc).
  { intros j Hj. specialize (H j Hj). rewrite (nth_mvec_smat n T x j Hn HT Hx) in H by lia.
    destruct (Nat.eqb_spec j (n - 1)) as [E|_]; [lia|].
    transitivity (nth j (vmul x T) 0 - nth j x 0 + nth j x 0)%Qc; [ring|]. rewrite H. ring. }
  apply (vec_ext n); [exact HxT|exact Hx|].
  intros j Hj. destruct (Nat.eq_dec j (n - 1)) as [->|Hne]; [|apply Hlow; lia].
  apply last_from_sum.
  - rewrite HxT. lia.
  - rewrite Hx. lia.
  - apply (qsum_vmul n n); assumption.
  - exact Hlow.
Qed.

Lemma smat_last n T x : 0 < n -> wf n n T -> length x = n ->
  nth (n - 1) (mvec (smat n T) x) 0%Qc = qsum x.
Proof.
  intros Hn HT Hx. rewrite (nth_mvec_smat n T x (n - 1) Hn HT Hx) by lia.
  rewrite Nat.eqb_refl. reflexivity.
Qed.

Section Stationary.
Variables (n k : nat) (T : mat).
Hypothesis Hn : 0 < n.
Hypothesis HT : wf n n T.
Hypothesis NT : entries_nonneg T.
Hypothesis ST : rows_sum_one T.
Hypothesis Hpos : forall i j, i < n -> j < n -> (0 < mget (mpow T k) i j)%Qc.

Lemma st_SP : rows_sum_one (mpow T k).
Proof. exact (proj1 (mpow_stochastic n T k Hn HT ST NT)). Qed.

Lemma st_kernel : trivial_kernel n (smat n T).
Proof.
  intros y Hy E.
  assert (EyT : vmul y T = y).
  { apply (smat_fixed n T y Hn HT ST Hy). intros j Hj. rewrite E. apply nth_repeat0. }
  assert (Es : qsum y = 0%Qc).
  { rewrite <- (smat_last n T y Hn HT Hy), E. apply nth_repeat0. }
  apply (sg_zero n (mpow T k) y Hn (wf_mpow n T k Hn HT) st_SP Hpos Hy); [|exact Es].
  apply (stationary_mpow n); assumption.
Qed.

(* G4 *)
Theorem stationary_exists : exists pi, stationary T = Some pi.
Proof.
  destruct (solve_complete n (smat n T) (svec n) (wf_smat n T) (length_svec n) st_kernel)
    as (x & Hsolve & Hx & Ex).
  exists x. rewrite (stationary_unfold n T HT), Hsolve.
  assert (ExT : vmul x T = x).
  { apply (smat_fixed n T x Hn HT ST Hx). intros j Hj. rewrite Ex, nth_svec by lia.
    destruct (Nat.eqb_spec j (n - 1)) as [E|_]; [lia|reflexivity]. }
  assert (Es : qsum x = 1%Qc).
  { rewrite <- (smat_last n T x Hn HT Hx), Ex, nth_svec by lia. rewrite Nat.eqb_refl. reflexivity. }
  assert (Hnn : forall t, In t x -> (0 <= t)%Qc).
  { apply (sg_nonneg n (mpow T k) x Hn (wf_mpow n T k Hn HT) st_SP Hpos Hx); [|exact Es].
    apply (stationary_mpow n); assumption. }
  assert (Hst : is_stationary T x = true).
  { unfold is_stationary. rewrite ExT, vec_eqb_refl, Es, Qc_eqb_refl. cbn [andb].
    apply forallb_forall. intros t Ht. unfold Qc_leb. apply Qle_bool_iff. exact (Hnn t Ht). }
  rewrite Hst. reflexivity.
Qed.

(* together with the specification of the certificate and uniqueness: [stationary T]
   is THE stationary probability vector *)
Theorem stationary_exists_spec : exists pi, stationary T = Some pi /\ length pi = n /\
  vmul pi T = pi /\ qsum pi = 1%Qc /\ (forall t, In t pi -> (0 <= t)%Qc).
Proof.
  destruct stationary_exists as [pi H]. exists pi. split; [exact H|].
  destruct (stationary_spec T pi H) as (E1 & E2 & E3).
  split; [|split; [exact E1|split; [exact E2|exact E3]]].
  rewrite <- E1. apply (length_vmul n n); assumption.
Qed.
End Stationary.

(* ------------------------------------------------------------------ *)
(* G5: the quadratic form of  diag(pi) K  and the second inverse of the  *)
(* Hummer-Szabo formula                                                 *)
(* ------------------------------------------------------------------ *)
Lemma Qc_sq_nonneg a : (0 <= a * a)%Qc.
Proof.
  destruct (Qclt_le_dec a 0) as [H|H].
  - replace (a * a)%Qc with ((- a) * (- a))%Qc by ring.
    apply Qcmult_nonneg; apply Qcopp_nonneg, Qclt_le_weak; exact H.
  - apply Qcmult_nonneg; exact H.
Qed.

Lemma Qc_sq_zero a : (a * a)%Qc = 0%Qc -> a = 0%Qc.
Proof. intros H. destruct (Qcmult_integral _ _ H); assumption. Qed.

Lemma Qc_two_neq0 : (1 + 1)%Qc <> 0%Qc.
Proof. intros H. discriminate H. Qed.

Section Quad.
Variables (n k : nat) (T : mat) (pi : list Qc).
Hypothesis Hn : 0 < n.
Hypothesis HT : wf n n T.
Hypothesis NT : entries_nonneg T.
Hypothesis ST : rows_sum_one T.
Hypothesis Hpos : forall i j, i < n -> j < n -> (0 < mget (mpow T k) i j)%Qc.
Hypothesis Hpi : length pi = n.
Hypothesis piT : vmul pi T = pi.
Hypothesis pi1 : qsum pi = 1%Qc.
Hypothesis pinn : forall t, In t pi -> (0 <= t)%Qc.
Let K := msub (madd (identity n) (outer (ones n) pi)) T.

Lemma qd_pi_pos i : i < n -> (0 < nth i pi 0)%Qc.
Proof.
  apply (stationary_positive n (mpow T k) pi Hn (wf_mpow n T k Hn HT) Hpi Hpos pinn pi1).
  apply (stationary_mpow n); assumption.
Qed.

Section Vector.
Variable v : list Qc.
Hypothesis Hv : length v = n.
Let vf := fun i => nth i v 0%Qc.
Let pf := fun i => nth i pi 0%Qc.
Let tf := fun i j => mget T i j.
Let w := fun i => qsum (map (fun j => (tf i j * vf j)%Qc) (seq 0 n)).
Let r := fun i => qsum (map (fun j => (tf i j * (vf j * vf j))%Qc) (seq 0 n)).
Let q := fun i => qsum (map (fun j => (tf i j * ((vf i - vf j) * (vf i - vf j)))%Qc) (seq 0 n)).
Let s := qsum (map (fun j => (pf j * vf j)%Qc) (seq 0 n)).
Let S2 := qsum (map (fun i => (pf i * (vf i * vf i))%Qc) (seq 0 n)).
Let SW := qsum (map (fun i => (pf i * vf i * w i)%Qc) (seq 0 n)).
Let F := qsum (map (fun i => (pf i * vf i * nth i (mvec K v) 0)%Qc) (seq 0 n)).

Lemma qd_Kv i : i < n -> nth i (mvec K v) 0%Qc = (vf i + s - w i)%Qc.
Proof.
  intros Hi. unfold K. rewrite (mvec_ipm n pi T v i Hpi HT Hv Hi).
  rewrite (nth_mvec n n T v i HT Hv Hi). reflexivity.
Qed.

Lemma qd_F : F = (S2 + s * s - SW)%Qc.
Proof.
  unfold F.
  transitivity (qsum (map (fun i => (pf i * (vf i * vf i) + (pf i * vf i) * s - pf i * vf i * w i)%Qc)
                          (seq 0 n))).
  - apply qsum_map_ext. intros i Hi. apply in_seq in Hi. rewrite qd_Kv by lia. ring.
  - rewrite (qsum_map_minus (fun i => (pf i * (vf i * vf i) + (pf i * vf i) * s)%Qc)
                            (fun i => (pf i * vf i * w i)%Qc)).
    rewrite (qsum_map_plus (fun i => (pf i * (vf i * vf i))%Qc) (fun i => ((pf i * vf i) * s)%Qc)).
    rewrite (qsum_map_scale_r s (fun i => (pf i * vf i)%Qc)). reflexivity.
Qed.

Lemma qd_q i : i < n -> q i = (vf i * vf i - (1 + 1) * (vf i * w i) + r i)%Qc.
Proof.
  intros Hi. unfold q.
  transitivity (qsum (map (fun j => (tf i j * (vf i * vf i) - ((1 + 1) * vf i) * (tf i j * vf j)
                                     + tf i j * (vf j * vf j))%Qc) (seq 0 n))).
  - apply qsum_map_ext. intros j _. ring.
  - rewrite (qsum_map_plus (fun j => (tf i j * (vf i * vf i) - ((1 + 1) * vf i) * (tf i j * vf j))%Qc)
                           (fun j => (tf i j * (vf j * vf j))%Qc)).
    rewrite (qsum_map_minus (fun j => (tf i j * (vf i * vf i))%Qc)
                            (fun j => (((1 + 1) * vf i) * (tf i j * vf j))%Qc)).
    rewrite (qsum_map_scale_r (vf i * vf i)%Qc (fun j => tf i j)).
    rewrite (qsum_map_scale_l ((1 + 1) * vf i)%Qc (fun j => (tf i j * vf j)%Qc)).
    unfold tf at 1. rewrite (row_sum_seq n T i HT ST Hi). unfold r, w. ring.
Qed.

Lemma qd_pr : qsum (map (fun i => (pf i * r i)%Qc) (seq 0 n)) = S2.
Proof.
  set (vsq := map (fun j => (vf j * vf j)%Qc) (seq 0 n)).
  assert (Hvsq : length vsq = n) by (unfold vsq; rewrite map_length, seq_length; reflexivity).
  assert (Nvsq : forall j, j < n -> nth j vsq 0%Qc = (vf j * vf j)%Qc).
  { intros j Hj. unfold vsq. exact (nth_map_seq (fun j => (vf j * vf j)%Qc) n j 0%Qc Hj). }
  transitivity (qsum (map (fun i => (nth i pi 0 * nth i (mvec T vsq) 0)%Qc) (seq 0 n))).
  - apply qsum_map_ext. intros i Hi. apply in_seq in Hi.
    rewrite (nth_mvec n n T vsq i HT Hvsq) by lia. unfold pf, r. f_equal.
    apply qsum_map_ext. intros j Hj. apply in_seq in Hj. rewrite Nvsq by lia. reflexivity.
  - rewrite (dot_assoc n n pi T vsq Hn Hpi HT Hvsq), piT. unfold S2.
    apply qsum_map_ext. intros j Hj. apply in_seq in Hj. rewrite Nvsq by lia. reflexivity.
Qed.

Lemma qd_pq : qsum (map (fun i => (pf i * q i)%Qc) (seq 0 n)) = (S2 - (1 + 1) * SW + S2)%Qc.
Proof.
  transitivity (qsum (map (fun i => (pf i * (vf i * vf i) - (1 + 1) * (pf i * vf i * w i)
                                     + pf i * r i)%Qc) (seq 0 n))).
  - apply qsum_map_ext. intros i Hi. apply in_seq in Hi. rewrite qd_q by lia. ring.
  - rewrite (qsum_map_plus (fun i => (pf i * (vf i * vf i) - (1 + 1) * (pf i * vf i * w i))%Qc)
                           (fun i => (pf i * r i)%Qc)).
    rewrite (qsum_map_minus (fun i => (pf i * (vf i * vf i))%Qc)
                            (fun i => ((1 + 1) * (pf i * vf i * w i))%Qc)).
    rewrite (qsum_map_scale_l (1 + 1)%Qc (fun i => (pf i * vf i * w i)%Qc)).
    rewrite qd_pr. reflexivity.
Qed.

Lemma qd_q_terms_nonneg i t : i < n ->
  In t (map (fun j => (tf i j * ((vf i - vf j) * (vf i - vf j)))%Qc) (seq 0 n)) -> (0 <= t)%Qc.
Proof.
  intros Hi Ht. apply in_map_iff in Ht. destruct Ht as [j [<- Hj]]. apply in_seq in Hj.
  apply Qcmult_nonneg; [|apply Qc_sq_nonneg].
  unfold tf. apply (mget_nonneg n n T i j HT NT); lia.
Qed.

Lemma qd_q_nonneg i : i < n -> (0 <= q i)%Qc.
Proof. intros Hi. unfold q. apply qsum_nonneg. intros t Ht. exact (qd_q_terms_nonneg i t Hi Ht). Qed.

Lemma qd_pq_terms_nonneg t : In t (map (fun i => (pf i * q i)%Qc) (seq 0 n)) -> (0 <= t)%Qc.
Proof.
  intros Ht. apply in_map_iff in Ht. destruct Ht as [i [<- Hi]]. apply in_seq in Hi.
  apply Qcmult_nonneg; [apply Qclt_le_weak, qd_pi_pos; lia|apply qd_q_nonneg; lia].
Qed.

(* the form vanishes only on the kernel of K *)
Lemma quad_zero : F = 0%Qc -> mvec K v = repeat 0%Qc n.
Proof.
  intros HF.
  assert (E : (qsum (map (fun i => (pf i * q i)%Qc) (seq 0 n)) + (1 + 1) * (s * s) = 0)%Qc).
  { rewrite qd_pq. transitivity ((1 + 1) * F)%Qc; [rewrite qd_F; ring|rewrite HF; ring]. }
  destruct (Qc_sum0 _ _ (qsum_nonneg _ qd_pq_terms_nonneg)
              (Qcmult_nonneg _ _ (Qcplus_nonneg _ _ Qc_0_le_1 Qc_0_le_1) (Qc_sq_nonneg s)) E)
    as [Epq Ess].
  assert (Es : s = 0%Qc).
  { apply Qc_sq_zero. exact (Qcmult_integral_l _ _ Qc_two_neq0 Ess). }
  assert (Eq : forall i, i < n -> q i = 0%Qc).
  { intros i Hi.
    assert (H0 : (pf i * q i)%Qc = 0%Qc).
    { apply (qsum_nonneg_zero _ qd_pq_terms_nonneg Epq).
      apply in_map_iff. exists i. split; [reflexivity|apply in_seq; lia]. }
    apply (Qcmult_integral_l (pf i)); [|exact H0].
    apply Qc_pos_neq0, qd_pi_pos. exact Hi. }
  assert (Et : forall i j, i < n -> j < n -> (tf i j * vf j)%Qc = (tf i j * vf i)%Qc).
  { intros i j Hi Hj.
    assert (H0 : (tf i j * ((vf i - vf j) * (vf i - vf j)))%Qc = 0%Qc).
    { apply (qsum_nonneg_zero _ (fun t => qd_q_terms_nonneg i t Hi) (Eq i Hi)).
      apply in_map_iff. exists j. split; [reflexivity|apply in_seq; lia]. }
    destruct (Qcmult_integral _ _ H0) as [H1|H1].
    - rewrite H1. ring.
    - apply Qc_sq_zero in H1.
      replace (vf j) with (vf i - (vf i - vf j))%Qc by ring. rewrite H1. ring. }
  assert (Ew : forall i, i < n -> w i = vf i).
  { intros i Hi. unfold w.
    rewrite (qsum_map_ext (fun j => (tf i j * vf j)%Qc) (fun j => (tf i j * vf i)%Qc))
      by (intros j Hj; apply in_seq in Hj; apply Et; lia).
    rewrite (qsum_map_scale_r (vf i) (fun j => tf i j)).
    unfold tf. rewrite (row_sum_seq n T i HT ST Hi). ring. }
  apply (vec_ext n).
  - rewrite length_mvec. apply (wf_length _ _ _ (fund_wfK n T pi HT Hpi)).
  - apply repeat_length.
  - intros i Hi. rewrite nth_repeat0, qd_Kv, Es, Ew by exact Hi. ring.
Qed.
End Vector.
End Quad.

Lemma mget_agg nm aidx i j : i < length aidx -> j < nm ->
  mget (aggregation nm aidx) i j = (if Nat.eqb (nth i aidx 0%nat) j then 1 else 0)%Qc.
Proof.
  intros Hi Hj. unfold mget, aggregation.
  rewrite (nth_map_lt _ aidx i [] 0 Hi).
  rewrite (nth_map_seq _ nm j 0%Qc Hj). reflexivity.
Qed.

(* the aggregation matrix of a surjective assignment is injective on column vectors *)
Lemma aggregation_injective n m aidx : length aidx = n -> (forall a, In a aidx -> a < m) ->
  (forall a, a < m -> In a aidx) ->
  forall x, length x = m -> mvec (aggregation m aidx) x = repeat 0%Qc n -> x = repeat 0%Qc m.
Proof.
  intros Hlen Hlt Hsurj x Hx E.
  assert (HA : wf n m (aggregation m aidx)).
  { rewrite <- Hlen. exact (proj1 (aggregation_rows m aidx Hlt)). }
  apply (vec_ext m); [exact Hx|apply repeat_length|].
  intros a Ha. rewrite nth_repeat0.
  destruct (In_nth aidx a 0 (Hsurj a Ha)) as [i [Hi Hia]]. rewrite Hlen in Hi.
  assert (H : nth i (mvec (aggregation m aidx) x) 0%Qc = nth a x 0%Qc).
  { rewrite (nth_mvec n m _ x i HA Hx Hi).
    rewrite <- (qsum_delta (fun j => nth j x 0%Qc) a m Ha).
    apply qsum_map_ext. intros j Hj. apply in_seq in Hj.
    rewrite mget_agg by lia. rewrite Hia. reflexivity. }
  rewrite <- H, E. apply nth_repeat0.
Qed.

Section SecondInverse.
Variables (n m k : nat) (T : mat) (pi : list Qc) (A Z : mat).
Hypothesis Hn : 0 < n.
Hypothesis Hm : 0 < m.
Hypothesis HT : wf n n T.
Hypothesis NT : entries_nonneg T.
Hypothesis ST : rows_sum_one T.
Hypothesis Hpos : forall i j, i < n -> j < n -> (0 < mget (mpow T k) i j)%Qc.
Hypothesis Hpi : length pi = n.
Hypothesis piT : vmul pi T = pi.
Hypothesis pi1 : qsum pi = 1%Qc.
Hypothesis HA : wf n m A.
Hypothesis Ainj : forall x, length x = m -> mvec A x = repeat 0%Qc n -> x = repeat 0%Qc m.
Let K := msub (madd (identity n) (outer (ones n) pi)) T.
Hypothesis HZ : wf n n Z.
Hypothesis KZ : mmul K Z = identity n.
Let N := mmul (transpose A) (mmul (diag pi) (mmul Z A)).

(* a fixed row vector of total mass one is automatically non-negative *)
Lemma si_pinn : forall t, In t pi -> (0 <= t)%Qc.
Proof.
  apply (sg_nonneg n (mpow T k) pi Hn (wf_mpow n T k Hn HT)
           (proj1 (mpow_stochastic n T k Hn HT ST NT)) Hpos Hpi); [|exact pi1].
  apply (stationary_mpow n); assumption.
Qed.

Lemma si_wfN : wf m m N.
Proof. exact (hs_wfN n m pi A Z Hn Hpi HA HZ). Qed.

Lemma si_kernel : trivial_kernel m N.
Proof.
  intros x Hx E.
  assert (HK : wf n n K) by exact (fund_wfK n T pi HT Hpi).
  assert (HD : wf n n (diag pi)) by exact (hs_wfD n pi Hpi).
  assert (HZA : wf n m (mmul Z A)) by (apply (wf_mmul n n m); assumption).
  assert (HDZA : wf n m (mmul (diag pi) (mmul Z A))) by (apply (wf_mmul n n m); assumption).
  assert (HAt : wf m n (transpose A)) by (apply wf_transpose; assumption).
  set (u := mvec A x). set (v := mvec Z u). set (d := mvec (diag pi) v).
  assert (Hu : length u = n) by (unfold u; rewrite length_mvec; apply (wf_length _ _ _ HA)).
  assert (Hv : length v = n) by (unfold v; rewrite length_mvec; apply (wf_length _ _ _ HZ)).
  assert (Hd : length d = n) by (unfold d; rewrite length_mvec; apply (wf_length _ _ _ HD)).
  assert (EN : mvec N x = vmul d A).
  { unfold N.
    rewrite (mvec_mmul m n m (transpose A) _ x Hn HAt HDZA Hx).
    rewrite (mvec_mmul n n m (diag pi) _ x Hn HD HZA Hx).
    rewrite (mvec_mmul n n m Z A x Hn HZ HA Hx).
    fold u. fold v. fold d. apply (mvec_transpose n m A d Hn HA Hd). }
  assert (EKv : mvec K v = u).
  { unfold v. rewrite <- (mvec_mmul n n n K Z u Hn HK HZ Hu), KZ. apply mvec_identity. exact Hu. }
  assert (HF : qsum (map (fun i => (nth i pi 0 * nth i v 0 * nth i (mvec K v) 0)%Qc) (seq 0 n)) = 0%Qc).
  { rewrite EKv.
    transitivity (qsum (map (fun i => (nth i d 0 * nth i (mvec A x) 0)%Qc) (seq 0 n))).
    - apply qsum_map_ext. intros i Hi. apply in_seq in Hi. fold u. unfold d.
      rewrite (mvec_diag n pi v Hpi Hv i) by lia. reflexivity.
    - rewrite (dot_assoc n m d A x Hn Hd HA Hx), <- EN, E.
      transitivity (qsum (map (fun _ : nat => 0%Qc) (seq 0 m))); [|apply qsum_map_zero].
      apply qsum_map_ext. intros j _. rewrite nth_repeat0. ring. }
  pose proof (quad_zero n k T pi Hn HT NT ST Hpos Hpi piT pi1 si_pinn v Hv HF) as EK0.
  fold K in EK0. rewrite EKv in EK0.
  apply Ainj; [exact Hx|exact EK0].
Qed.

(* G5 *)
Theorem second_inverse_exists : exists M2, inverse_cert N = Some M2.
Proof. apply (inverse_cert_complete m N Hm si_wfN si_kernel). Qed.
End SecondInverse.

(* ------------------------------------------------------------------ *)
(* totality of the Hummer-Szabo model on ergodic input                   *)
(* ------------------------------------------------------------------ *)
Theorem hs_formula_total n m k T pi aidx positive :
  0 < n -> 0 < m -> wf n n T -> entries_nonneg T -> rows_sum_one T ->
  (forall i j, i < n -> j < n -> (0 < mget (mpow T k) i j)%Qc) ->
  length pi = n -> vmul pi T = pi -> qsum pi = 1%Qc ->
  length aidx = n -> (forall a, In a aidx -> a < m) -> (forall a, a < m -> In a aidx) ->
  exists R, hs_formula T pi (aggregation m aidx) positive = Some R.
Proof.
  intros Hn Hm HT NT ST Hpos Hpi piT pi1 Hlen Hlt Hsurj.
  assert (HA : wf n m (aggregation m aidx)).
  { rewrite <- Hlen. exact (proj1 (aggregation_rows m aidx Hlt)). }
  unfold hs_formula. cbv zeta.
  rewrite (wf_length _ _ _ HT), (wf_ncols n m _ Hn HA).
  destruct (fundamental_inverse_exists n k T pi Hn HT NT ST Hpos Hpi piT pi1) as [Z EZ].
  rewrite EZ.
  assert (HK : wf n n (msub (madd (identity n) (outer (ones n) pi)) T)) by exact (fund_wfK n T pi HT Hpi).
  assert (HZ : wf n n Z) by exact (inverse_cert_wf n _ Z HK EZ).
  destruct (inverse_cert_spec _ Z EZ) as [KZ _]. rewrite (wf_length _ _ _ HK) in KZ.
  destruct (second_inverse_exists n m k T pi (aggregation m aidx) Z Hn Hm HT NT ST Hpos Hpi piT pi1
              HA (aggregation_injective n m aidx Hlen Hlt Hsurj) HZ KZ) as [M2 EM].
  rewrite EM. eexists. reflexivity.
Qed.

(* the stationary vector is found and the projection formula returns a matrix *)
Theorem ergodic_total n m k T aidx positive :
  0 < n -> 0 < m -> wf n n T -> entries_nonneg T -> rows_sum_one T ->
  (forall i j, i < n -> j < n -> (0 < mget (mpow T k) i j)%Qc) ->
  length aidx = n -> (forall a, In a aidx -> a < m) -> (forall a, a < m -> In a aidx) ->
  exists pi R, stationary T = Some pi /\ hs_formula T pi (aggregation m aidx) positive = Some R.
Proof.
  intros Hn Hm HT NT ST Hpos Hlen Hlt Hsurj.
  destruct (stationary_exists_spec n k T Hn HT NT ST Hpos) as (pi & H & Hpi & piT & pi1 & pinn).
  exists pi.
  destruct (hs_formula_total n m k T pi aidx positive Hn Hm HT NT ST Hpos Hpi piT pi1 Hlen Hlt Hsurj)
    as [R HR].
  exists R. split; assumption.
Qed.

Print Assumptions stationary_exists.
Print Assumptions si_kernel.
Print Assumptions second_inverse_exists.
Print Assumptions hs_formula_total.
Print Assumptions ergodic_total.
