(* C12: order-freedom of the exact reduction; C20/C19 small list facts *)
From Coq Require Import List ZArith Arith Bool Lia Permutation QArith Qcanon.
From MsmV Require Import Lib.QMat.
Import ListNotations.

(* the exact sum of the per-frame terms does not depend on the order in which the
   (parallel) reduction combines them *)
Lemma qsum_perm l l' : Permutation l l' -> qsum l = qsum l'.
Proof.
  induction 1 as [|x l l' _ IH|x y l|l l' l'' _ IH1 _ IH2]; simpl.
  - reflexivity.
  - now rewrite IH.
  - ring.
  - now rewrite IH1.
Qed.

(* ... nor on how the frames are split into chunks whose partial sums are added *)
Lemma qsum_chunks (chunks : list (list Qc)) : qsum (map qsum chunks) = qsum (concat chunks).
Proof.
  induction chunks as [|c cs IH]; simpl; [reflexivity|]. rewrite IH.
  induction c as [|x c IHc]; simpl; [ring|]. rewrite <- IHc. ring.
Qed.
