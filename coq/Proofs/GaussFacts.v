(* Gauss-Jordan elimination on list matrices: soundness (both inverses), completeness
   (trivial right kernel => the elimination succeeds), the solver, and the fundamental
   matrix of an ergodic chain. *)
From Coq Require Import List ZArith Arith Bool Lia QArith Qcanon.
From MsmV Require Import Lib.Result Lib.PyList Lib.QMat Model.Ergodic Model.Peq Model.HS
  Proofs.QMatFacts Proofs.HSFacts Proofs.ErgodicFacts Proofs.UniqueFacts.
Import ListNotations.
Local Open Scope nat_scope.

(* ------------------------------------------------------------------ *)
(* rows: entries of scaled rows and of row differences                 *)
(* ------------------------------------------------------------------ *)
Lemma Qc_eqb_refl a : Qc_eqb a a = true.
Proof. unfold Qc_eqb. apply Qeq_bool_refl. Qed.

Lemma Qc_eqb_false a b : Qc_eqb a b = false -> a <> b.
Proof. intros H E. subst b. rewrite Qc_eqb_refl in H. discriminate. Qed.

Lemma nth_row_scale c (r : list Qc) i : nth i (row_scale c r) 0%Qc = (c * nth i r 0)%Qc.
Proof.
  unfold row_scale. destruct (Nat.lt_ge_cases i (length r)) as [Hi|Hi].
  - apply (nth_map_lt (fun x => (c * x)%Qc) r i 0%Qc 0%Qc Hi).
  - rewrite (nth_overflow (map _ r)) by (rewrite map_length; exact Hi).
    rewrite (nth_overflow r) by exact Hi. ring.
Qed.

Lemma nth_row_sub (r s : list Qc) c i : length r = length s ->
  nth i (row_sub r s c) 0%Qc = (nth i r 0 - c * nth i s 0)%Qc.
Proof.
  intros Hl. unfold row_sub. destruct (Nat.lt_ge_cases i (length r)) as [Hi|Hi].
  - rewrite (nth_map_combine (fun p : Qc * Qc => (fst p - c * snd p)%Qc) r s i 0%Qc 0%Qc 0%Qc)
      by lia. reflexivity.
  - rewrite (nth_overflow (map _ _)) by (rewrite map_length, combine_length; lia).
    rewrite (nth_overflow r) by exact Hi. rewrite (nth_overflow s) by lia. ring.
Qed.

Lemma length_row_sub_eq (r s : list Qc) c L : length r = L -> length s = L ->
  length (row_sub r s c) = L.
Proof. intros Hr Hs. rewrite length_row_sub, Hr, Hs. apply Nat.min_id. Qed.

Lemma row_scale_inv c (p : list Qc) : c <> 0%Qc -> row_scale c (row_scale (/ c) p) = p.
Proof.
  intros Hc. unfold row_scale. rewrite map_map. apply map_id_in. intros x _. field. exact Hc.
Qed.

Lemma row_sub_undo (r s : list Qc) c : length r = length s ->
  row_sub (row_sub r s c) s (- c) = r.
Proof.
  intros Hl.
  assert (Hl' : length (row_sub r s c) = length s)
    by (apply length_row_sub_eq; [exact Hl|reflexivity]).
  apply (vec_ext (length s)).
  - apply length_row_sub_eq; [exact Hl'|reflexivity].
  - exact Hl.
  - intros i _. rewrite nth_row_sub by exact Hl'. rewrite nth_row_sub by exact Hl. ring.
Qed.

(* ------------------------------------------------------------------ *)
(* pivot search                                                        *)
(* ------------------------------------------------------------------ *)
Lemma find_pivot_some k rows p others : find_pivot k rows = Some (p, others) ->
  nth k p 0%Qc <> 0%Qc /\ length rows = S (length others) /\
  (forall r, In r rows <-> r = p \/ In r others).
Proof.
  revert p others. induction rows as [|r rest IH]; intros p others H; cbn [find_pivot] in H;
    [discriminate|].
  destruct (Qc_eqb (nth k r 0%Qc) 0) eqn:E0.
  - destruct (find_pivot k rest) as [[p' o']|] eqn:E; [|discriminate].
    injection H as <- <-. destruct (IH p' o' eq_refl) as (IH1 & IH2 & IH3).
    split; [exact IH1|]. split; [cbn [length]; rewrite IH2; reflexivity|].
    intros x. cbn [In]. rewrite IH3. split.
    + intros [->|[->|Hx]]; [right; left; reflexivity|left; reflexivity|right; right; exact Hx].
    + intros [->|[->|Hx]]; [right; left; reflexivity|left; reflexivity|right; right; exact Hx].
  - injection H as <- <-. split; [apply Qc_eqb_false; exact E0|]. split; [reflexivity|].
    intros x. cbn [In]. split.
    + intros [->|Hx]; [left; reflexivity|right; exact Hx].
    + intros [->|Hx]; [left; reflexivity|right; exact Hx].
Qed.

Lemma find_pivot_none k rows : find_pivot k rows = None ->
  forall r, In r rows -> nth k r 0%Qc = 0%Qc.
Proof.
  induction rows as [|r rest IH]; intros H x Hx; [destruct Hx|].
  cbn [find_pivot] in H. destruct (Qc_eqb (nth k r 0%Qc) 0) eqn:E0; [|discriminate].
  destruct (find_pivot k rest) as [[p' o']|] eqn:E; [discriminate|].
  destruct Hx as [<-|Hx]; [apply Qc_eqb_eq; exact E0|apply IH; [reflexivity|exact Hx]].
Qed.

(* ------------------------------------------------------------------ *)
(* linear predicates on rows are preserved, in both directions, by the  *)
(* elimination                                                         *)
(* ------------------------------------------------------------------ *)
Definition rows_len (L : nat) (rows : list (list Qc)) : Prop := forall r, In r rows -> length r = L.

Definition linear (L : nat) (Q : list Qc -> Prop) : Prop :=
  (forall c r, length r = L -> Q r -> Q (row_scale c r)) /\
  (forall r s c, length r = L -> length s = L -> Q r -> Q s -> Q (row_sub r s c)).

Definition linmap (L : nat) (f : list Qc -> Qc) : Prop :=
  (forall c r, length r = L -> f (row_scale c r) = (c * f r)%Qc) /\
  (forall r s c, length r = L -> length s = L -> f (row_sub r s c) = (f r - c * f s)%Qc).

Lemma linmap_nth L t : linmap L (fun r => nth t r 0%Qc).
Proof.
  split.
  - intros c r _. apply nth_row_scale.
  - intros r s c Hr Hs. apply nth_row_sub. congruence.
Qed.

Lemma linmap_sum L N off (w : nat -> Qc) :
  linmap L (fun r => qsum (map (fun i => (nth (off + i) r 0 * w i)%Qc) (seq 0 N))).
Proof.
  split.
  - intros c r _. rewrite <- qsum_map_scale_l. apply qsum_map_ext. intros i _.
    rewrite nth_row_scale. ring.
  - intros r s c Hr Hs. rewrite <- qsum_map_scale_l, <- qsum_map_minus.
    apply qsum_map_ext. intros i _. rewrite nth_row_sub by congruence. ring.
Qed.

Lemma linear_eq L f g : linmap L f -> linmap L g -> linear L (fun r => f r = g r).
Proof.
  intros [F1 F2] [G1 G2]. split.
  - intros c r Hr E. rewrite F1, G1, E by exact Hr. reflexivity.
  - intros r s c Hr Hs E1 E2. rewrite F2, G2, E1, E2 by assumption. reflexivity.
Qed.

Lemma linear_eq0 L f : linmap L f -> linear L (fun r => f r = 0%Qc).
Proof.
  intros [F1 F2]. split.
  - intros c r Hr E. rewrite F1, E by exact Hr. ring.
  - intros r s c Hr Hs E1 E2. rewrite F2, E1, E2 by assumption. ring.
Qed.

Lemma linear_all {I} L (P : I -> Prop) (Q : I -> list Qc -> Prop) :
  (forall j, P j -> linear L (Q j)) -> linear L (fun r => forall j, P j -> Q j r).
Proof.
  intros H. split.
  - intros c r Hr Hq j Hj. apply (proj1 (H j Hj)); [exact Hr|apply Hq; exact Hj].
  - intros r s c Hr Hs H1 H2 j Hj. apply (proj2 (H j Hj)); auto.
Qed.

(* one elimination step *)
Section Step.
Variables (L k : nat) (p : list Qc) (others done todo : list (list Qc)).
Hypothesis Hdone : rows_len L done.
Hypothesis Htodo : rows_len L todo.
Hypothesis Hfp : find_pivot k todo = Some (p, others).
Let p' := row_scale (/ nth k p 0)%Qc p.
Let elim := fun r : list Qc => row_sub r p' (nth k r 0%Qc).

Lemma step_p_in : In p todo.
Proof. apply (proj2 (proj2 (find_pivot_some _ _ _ _ Hfp))). left; reflexivity. Qed.

Lemma step_others_in r : In r others -> In r todo.
Proof. intros H. apply (proj2 (proj2 (find_pivot_some _ _ _ _ Hfp))). right; exact H. Qed.

Lemma step_len_p : length p = L.
Proof. apply Htodo, step_p_in. Qed.

Lemma step_len_p' : length p' = L.
Proof. unfold p'. rewrite length_row_scale. exact step_len_p. Qed.

Lemma step_len_elim r : length r = L -> length (elim r) = L.
Proof. intros Hr. unfold elim. apply length_row_sub_eq; [exact Hr|exact step_len_p']. Qed.

Lemma step_len_done' : rows_len L (map elim done ++ [p']).
Proof.
  intros r Hr. apply in_app_iff in Hr. destruct Hr as [Hr|[<-|[]]]; [|exact step_len_p'].
  apply in_map_iff in Hr. destruct Hr as [r0 [<- Hr0]]. apply step_len_elim, Hdone, Hr0.
Qed.

Lemma step_len_todo' : rows_len L (map elim others).
Proof.
  intros r Hr. apply in_map_iff in Hr. destruct Hr as [r0 [<- Hr0]].
  apply step_len_elim, Htodo, step_others_in, Hr0.
Qed.

Lemma step_pk : nth k p 0%Qc <> 0%Qc.
Proof. exact (proj1 (find_pivot_some _ _ _ _ Hfp)). Qed.

Lemma step_p'k : nth k p' 0%Qc = 1%Qc.
Proof. unfold p'. rewrite nth_row_scale. field. exact step_pk. Qed.

Lemma step_k_lt : k < L.
Proof.
  destruct (Nat.lt_ge_cases k L) as [H|H]; [exact H|]. exfalso. apply step_pk.
  apply nth_overflow. rewrite step_len_p. exact H.
Qed.

Variable Q : list Qc -> Prop.
Hypothesis HQ : linear L Q.

Lemma step_fwd : (forall r, In r done -> Q r) -> (forall r, In r todo -> Q r) ->
  (forall r, In r (map elim done ++ [p']) -> Q r) /\ (forall r, In r (map elim others) -> Q r).
Proof.
  intros Qd Qt.
  assert (Qp' : Q p').
  { unfold p'. apply (proj1 HQ); [exact step_len_p|apply Qt, step_p_in]. }
  split.
  - intros r Hr. apply in_app_iff in Hr. destruct Hr as [Hr|[<-|[]]]; [|exact Qp'].
    apply in_map_iff in Hr. destruct Hr as [r0 [<- Hr0]]. unfold elim.
    apply (proj2 HQ); [apply Hdone, Hr0|exact step_len_p'|apply Qd, Hr0|exact Qp'].
  - intros r Hr. apply in_map_iff in Hr. destruct Hr as [r0 [<- Hr0]]. unfold elim.
    apply (proj2 HQ); [apply Htodo, step_others_in, Hr0|exact step_len_p'
                      |apply Qt, step_others_in, Hr0|exact Qp'].
Qed.

Lemma step_bwd :
  (forall r, In r (map elim done ++ [p']) -> Q r) -> (forall r, In r (map elim others) -> Q r) ->
  (forall r, In r done -> Q r) /\ (forall r, In r todo -> Q r).
Proof.
  intros Qd Qt.
  assert (Qp' : Q p') by (apply Qd, in_app_iff; right; left; reflexivity).
  assert (Hback : forall r, length r = L -> Q (elim r) -> Q r).
  { intros r Hr Hq.
    rewrite <- (row_sub_undo r p' (nth k r 0%Qc)) by (rewrite step_len_p'; exact Hr).
    apply (proj2 HQ); [apply step_len_elim, Hr|exact step_len_p'|exact Hq|exact Qp']. }
  split.
  - intros r Hr. apply Hback; [apply Hdone, Hr|].
    apply Qd, in_app_iff. left. apply in_map. exact Hr.
  - intros r Hr. apply (proj2 (proj2 (find_pivot_some _ _ _ _ Hfp))) in Hr.
    destruct Hr as [->|Hr].
    + rewrite <- (row_scale_inv (nth k p 0%Qc) p step_pk).
      apply (proj1 HQ); [exact step_len_p'|exact Qp'].
    + apply Hback; [apply Htodo, step_others_in, Hr|]. apply Qt, in_map, Hr.
Qed.
End Step.

(* the whole run *)
Lemma gj_linear L Q fuel : linear L Q -> forall k done todo res,
  rows_len L done -> rows_len L todo -> gauss_jordan fuel k done todo = Some res ->
  (((forall r, In r done -> Q r) /\ (forall r, In r todo -> Q r)) <-> (forall r, In r res -> Q r)).
Proof.
  intros HQ. induction fuel as [|f IH]; intros k done todo res Hd Ht H; cbn [gauss_jordan] in H.
  - destruct todo as [|t todo']; [|discriminate]. injection H as <-.
    split; [intros [H1 _]; exact H1|intros H1; split; [exact H1|intros r []]].
  - destruct todo as [|t todo'].
    + injection H as <-.
      split; [intros [H1 _]; exact H1|intros H1; split; [exact H1|intros r []]].
    + destruct (find_pivot k (t :: todo')) as [[p others]|] eqn:E; [|discriminate].
      apply IH in H;
        [|exact (step_len_done' L k p others done _ Hd Ht E)
         |exact (step_len_todo' L k p others _ Ht E)].
      rewrite <- H. split.
      * intros [H1 H2]. exact (step_fwd L k p others done _ Hd Ht E Q HQ H1 H2).
      * intros [H1 H2]. exact (step_bwd L k p others done _ Hd Ht E Q HQ H1 H2).
Qed.

(* ------------------------------------------------------------------ *)
(* the pivot structure: after k steps the first k columns of the done   *)
(* rows are the unit vectors and those of the todo rows vanish          *)
(* ------------------------------------------------------------------ *)
Definition pivots (k : nat) (done todo : list (list Qc)) : Prop :=
  length done = k /\
  (forall i j, i < k -> j < k ->
     nth j (nth i done []) 0%Qc = if Nat.eqb i j then 1%Qc else 0%Qc) /\
  (forall r j, In r todo -> j < k -> nth j r 0%Qc = 0%Qc).

Section StepPivots.
Variables (L k : nat) (p : list Qc) (others done todo : list (list Qc)).
Hypothesis Hdone : rows_len L done.
Hypothesis Htodo : rows_len L todo.
Hypothesis Hfp : find_pivot k todo = Some (p, others).
Hypothesis Hpiv : pivots k done todo.
Let p' := row_scale (/ nth k p 0)%Qc p.
Let elim := fun r : list Qc => row_sub r p' (nth k r 0%Qc).

Lemma sp_p'_low j : j < k -> nth j p' 0%Qc = 0%Qc.
Proof.
  intros Hj. unfold p'. rewrite nth_row_scale.
  rewrite (proj2 (proj2 Hpiv) p j (step_p_in k p others todo Hfp) Hj). ring.
Qed.

Lemma sp_p'_k : nth k p' 0%Qc = 1%Qc.
Proof. exact (step_p'k k p others todo Hfp). Qed.

Lemma sp_len_p' : length p' = L.
Proof. exact (step_len_p' L k p others todo Htodo Hfp). Qed.

Lemma sp_elim_low r j : length r = L -> j < k -> nth j (elim r) 0%Qc = nth j r 0%Qc.
Proof.
  intros Hr Hj. unfold elim. rewrite nth_row_sub by (rewrite sp_len_p'; exact Hr).
  rewrite (sp_p'_low j Hj). ring.
Qed.

Lemma sp_elim_k r : length r = L -> nth k (elim r) 0%Qc = 0%Qc.
Proof.
  intros Hr. unfold elim. rewrite nth_row_sub by (rewrite sp_len_p'; exact Hr).
  rewrite sp_p'_k. ring.
Qed.

Lemma step_pivots : pivots (S k) (map elim done ++ [p']) (map elim others).
Proof.
  destruct Hpiv as (Hl & Hd & Ht). split; [|split].
  - rewrite app_length, map_length, Hl. cbn [length]. lia.
  - intros i j Hi Hj.
    destruct (Nat.eq_dec i k) as [->|Hik].
    + rewrite app_nth2 by (rewrite map_length; lia).
      rewrite map_length, Hl, Nat.sub_diag. cbn [nth].
      destruct (Nat.eq_dec j k) as [->|Hjk].
      * rewrite Nat.eqb_refl. exact sp_p'_k.
      * destruct (Nat.eqb_spec k j) as [E|_]; [congruence|]. apply sp_p'_low. lia.
    + assert (Hi' : i < k) by lia.
      rewrite app_nth1 by (rewrite map_length; lia).
      rewrite (nth_map_lt elim done i [] []) by lia.
      assert (Hr : length (nth i done []) = L) by (apply Hdone, nth_In; lia).
      destruct (Nat.eq_dec j k) as [->|Hjk].
      * destruct (Nat.eqb_spec i k) as [E|_]; [congruence|]. apply sp_elim_k. exact Hr.
      * rewrite sp_elim_low by (exact Hr || lia). apply Hd; lia.
  - intros r j Hr Hj. apply in_map_iff in Hr. destruct Hr as [r0 [<- Hr0]].
    assert (Hr0' : In r0 todo) by (apply (step_others_in k p others todo Hfp); exact Hr0).
    destruct (Nat.eq_dec j k) as [->|Hjk].
    + apply sp_elim_k. apply Htodo. exact Hr0'.
    + rewrite sp_elim_low by (first [apply Htodo; exact Hr0' | lia]). apply Ht; [exact Hr0'|lia].
Qed.
End StepPivots.

Lemma gj_pivots L fuel : forall k done todo res,
  rows_len L done -> rows_len L todo -> pivots k done todo -> length todo <= fuel ->
  gauss_jordan fuel k done todo = Some res ->
  length res = k + length todo /\ rows_len L res /\
  (forall i j, i < k + length todo -> j < k + length todo ->
     nth j (nth i res []) 0%Qc = if Nat.eqb i j then 1%Qc else 0%Qc).
Proof.
  induction fuel as [|f IH]; intros k done todo res Hd Ht Hp Hf H; cbn [gauss_jordan] in H.
  - destruct todo as [|t todo']; [|discriminate]. injection H as <-.
    cbn [length]. rewrite Nat.add_0_r. destruct Hp as (Hl & Hdd & _).
    split; [exact Hl|]. split; [exact Hd|exact Hdd].
  - destruct todo as [|t todo'].
    + injection H as <-.
      cbn [length]. rewrite Nat.add_0_r. destruct Hp as (Hl & Hdd & _).
      split; [exact Hl|]. split; [exact Hd|exact Hdd].
    + destruct (find_pivot k (t :: todo')) as [[p others]|] eqn:E; [|discriminate].
      assert (Hlen : length (t :: todo') = S (length others))
        by exact (proj1 (proj2 (find_pivot_some _ _ _ _ E))).
      apply IH in H.
      * rewrite map_length in H. rewrite Hlen.
        replace (k + S (length others)) with (S k + length others) by lia. exact H.
      * exact (step_len_done' L k p others done _ Hd Ht E).
      * exact (step_len_todo' L k p others _ Ht E).
      * exact (step_pivots L k p others done _ Hd Ht E Hp).
      * rewrite map_length. lia.
Qed.

(* ------------------------------------------------------------------ *)
(* completeness: if no non-zero vector is annihilated by the first n    *)
(* columns of all rows, every pivot search succeeds                     *)
(* ------------------------------------------------------------------ *)
Definition lkill (n : nat) (y r : list Qc) : Prop :=
  qsum (map (fun i => (nth (0 + i) r 0 * nth i y 0)%Qc) (seq 0 n)) = 0%Qc.

Lemma linear_lkill L n y : linear L (lkill n y).
Proof. unfold lkill. apply linear_eq0. apply linmap_sum. Qed.

Lemma nth_repeat0 n i : nth i (repeat 0%Qc n) 0%Qc = 0%Qc.
Proof.
  revert i. induction n as [|n IH]; intros [|i]; cbn [repeat nth]; try reflexivity. apply IH.
Qed.

(* the explicit kernel vector at a failed pivot search *)
Definition kvec (n k : nat) (done : list (list Qc)) : list Qc :=
  map (fun j => if Nat.ltb j k then (- nth k (nth j done []) 0)%Qc
                else if Nat.eqb j k then 1%Qc else 0%Qc) (seq 0 n).

Lemma nth_kvec n k done j : j < n ->
  nth j (kvec n k done) 0%Qc =
  if Nat.ltb j k then (- nth k (nth j done []) 0)%Qc else if Nat.eqb j k then 1%Qc else 0%Qc.
Proof.
  intros Hj. unfold kvec.
  exact (nth_map_seq (fun j => if Nat.ltb j k then (- nth k (nth j done []) 0)%Qc
                               else if Nat.eqb j k then 1%Qc else 0%Qc) n j 0%Qc Hj).
Qed.

Lemma kvec_kills n k done todo : k < n -> pivots k done todo ->
  (forall r, In r todo -> nth k r 0%Qc = 0%Qc) ->
  forall r, In r done \/ In r todo -> lkill n (kvec n k done) r.
Proof.
  intros Hk (Hl & Hd & Ht) H0 r [Hr|Hr]; unfold lkill.
  - destruct (In_nth done r [] Hr) as [i [Hi <-]]. rewrite Hl in Hi.
    set (d := nth k (nth i done []) 0%Qc).
    transitivity (qsum (map (fun j => ((if Nat.eqb i j then 1 else 0) * (- nth k (nth j done []) 0)
                                       + (if Nat.eqb k j then 1 else 0) * d)%Qc) (seq 0 n))).
    + apply qsum_map_ext. intros j Hj. apply in_seq in Hj. cbn [plus].
      rewrite nth_kvec by lia.
      destruct (Nat.ltb_spec j k) as [Hjk|Hjk].
      * rewrite (Hd i j Hi Hjk).
        destruct (Nat.eqb_spec k j) as [E|_]; [lia|]. ring.
      * destruct (Nat.eqb_spec i j) as [E|_]; [lia|].
        destruct (Nat.eqb_spec j k) as [->|Hne].
        -- rewrite Nat.eqb_refl. unfold d. ring.
        -- destruct (Nat.eqb_spec k j) as [E|_]; [congruence|]. ring.
    + rewrite (qsum_map_plus (fun j => ((if Nat.eqb i j then 1 else 0) * (- nth k (nth j done []) 0))%Qc)
                             (fun j => ((if Nat.eqb k j then 1 else 0) * d)%Qc)).
      rewrite (qsum_delta (fun j => (- nth k (nth j done []) 0)%Qc) i n) by lia.
      rewrite (qsum_delta (fun _ => d) k n Hk). unfold d. ring.
  - transitivity (qsum (map (fun _ : nat => 0%Qc) (seq 0 n))); [|apply qsum_map_zero].
    apply qsum_map_ext. intros j Hj. apply in_seq in Hj. cbn [plus].
    rewrite nth_kvec by lia.
    destruct (Nat.ltb_spec j k) as [Hjk|Hjk].
    + rewrite (Ht r j Hr Hjk). ring.
    + destruct (Nat.eqb_spec j k) as [->|Hne]; [rewrite (H0 r Hr)|]; ring.
Qed.

Lemma gj_complete L n fuel : forall k done todo,
  rows_len L done -> rows_len L todo -> pivots k done todo -> length todo <= fuel ->
  k + length todo = n ->
  (forall y, length y = n -> (forall r, In r done \/ In r todo -> lkill n y r) -> y = repeat 0%Qc n) ->
  exists res, gauss_jordan fuel k done todo = Some res.
Proof.
  induction fuel as [|f IH]; intros k done todo Hd Ht Hp Hf Hn Hker.
  - destruct todo as [|t todo']; [|cbn [length] in Hf; lia]. exists done. reflexivity.
  - cbn [gauss_jordan]. destruct todo as [|t todo']; [exists done; reflexivity|].
    destruct (find_pivot k (t :: todo')) as [[p others]|] eqn:E.
    + assert (Hlen : length (t :: todo') = S (length others))
        by exact (proj1 (proj2 (find_pivot_some _ _ _ _ E))).
      apply IH.
      * exact (step_len_done' L k p others done _ Hd Ht E).
      * exact (step_len_todo' L k p others _ Ht E).
      * exact (step_pivots L k p others done _ Hd Ht E Hp).
      * rewrite map_length. lia.
      * rewrite map_length. lia.
      * intros y Hy Hk. apply Hker; [exact Hy|].
        destruct (step_bwd L k p others done _ Hd Ht E (lkill n y) (linear_lkill L n y)) as [B1 B2].
        -- intros r Hr. apply Hk. left; exact Hr.
        -- intros r Hr. apply Hk. right; exact Hr.
        -- intros r [Hr|Hr]; [apply B1|apply B2]; exact Hr.
    + exfalso.
      assert (Hk : k < n) by (cbn [length] in Hn; lia).
      assert (Hy : kvec n k done = repeat 0%Qc n).
      { apply Hker.
        - unfold kvec. rewrite map_length, seq_length. reflexivity.
        - apply (kvec_kills n k done (t :: todo') Hk Hp). apply find_pivot_none. exact E. }
      assert (H1 : nth k (kvec n k done) 0%Qc = 1%Qc).
      { rewrite nth_kvec by exact Hk. rewrite Nat.ltb_irrefl, Nat.eqb_refl. reflexivity. }
      rewrite Hy, nth_repeat0 in H1. discriminate.
Qed.

(* ------------------------------------------------------------------ *)
(* the full run from an n-row system                                    *)
(* ------------------------------------------------------------------ *)
Lemma pivots_init todo : pivots 0 [] todo.
Proof. split; [reflexivity|]. split; [intros i j Hi; lia|intros r j _ Hj; lia]. Qed.

Lemma rows_len_nil L : rows_len L [].
Proof. intros r []. Qed.

Theorem gj_spec L n init res : rows_len L init -> length init = n ->
  gauss_jordan n 0 [] init = Some res ->
  length res = n /\ rows_len L res /\
  (forall i j, i < n -> j < n -> nth j (nth i res []) 0%Qc = if Nat.eqb i j then 1%Qc else 0%Qc) /\
  (forall Q, linear L Q -> ((forall r, In r init -> Q r) <-> (forall r, In r res -> Q r))).
Proof.
  intros Hlen Hn H.
  destruct (gj_pivots L n 0 [] init res (rows_len_nil L) Hlen (pivots_init init)) as (P1 & P2 & P3);
    [lia|exact H|].
  cbn [plus] in P1, P3. rewrite Hn in P1, P3.
  split; [exact P1|]. split; [exact P2|]. split; [exact P3|].
  intros Q HQ.
  rewrite <- (gj_linear L Q n HQ 0 [] init res (rows_len_nil L) Hlen H).
  split; [intros H1; split; [intros r []|exact H1]|intros [_ H1]; exact H1].
Qed.

Theorem gj_total L n init : rows_len L init -> length init = n ->
  (forall y, length y = n -> (forall r, In r init -> lkill n y r) -> y = repeat 0%Qc n) ->
  exists res, gauss_jordan n 0 [] init = Some res.
Proof.
  intros Hlen Hn Hker.
  apply (gj_complete L n n 0 [] init (rows_len_nil L) Hlen (pivots_init init)); [lia|lia|].
  intros y Hy Hk. apply Hker; [exact Hy|]. intros r Hr. apply Hk. right; exact Hr.
Qed.

(* augmented systems [A | B] *)
Definition aug (A B : mat) : list (list Qc) := map (fun p => fst p ++ snd p) (combine A B).

Lemma length_aug n m k A B : wf n m A -> wf n k B -> length (aug A B) = n.
Proof.
  intros HA HB. unfold aug. rewrite map_length, combine_length.
  rewrite (wf_length _ _ _ HA), (wf_length _ _ _ HB). apply Nat.min_id.
Qed.

Lemma rows_len_aug n m k A B : wf n m A -> wf n k B -> rows_len (m + k) (aug A B).
Proof.
  intros [_ HA] [_ HB] r Hr. unfold aug in Hr. apply in_map_iff in Hr.
  destruct Hr as [[a b] [<- Hp]]. cbn [fst snd]. rewrite app_length.
  rewrite (HA a (in_combine_l _ _ _ _ Hp)), (HB b (in_combine_r _ _ _ _ Hp)). reflexivity.
Qed.

Lemma nth_aug n m k A B i : wf n m A -> wf n k B -> i < n ->
  nth i (aug A B) [] = nth i A [] ++ nth i B [].
Proof.
  intros HA HB Hi. unfold aug.
  rewrite (nth_map_combine (fun p : list Qc * list Qc => fst p ++ snd p) A B i [] [] [])
    by (rewrite ?(wf_length _ _ _ HA), ?(wf_length _ _ _ HB); exact Hi).
  reflexivity.
Qed.

Lemma aug_left n m k A B i j : wf n m A -> wf n k B -> i < n -> j < m ->
  nth j (nth i (aug A B) []) 0%Qc = mget A i j.
Proof.
  intros HA HB Hi Hj. rewrite (nth_aug n m k A B i HA HB Hi).
  rewrite app_nth1 by (rewrite (wf_row _ _ _ _ HA Hi); exact Hj). reflexivity.
Qed.

Lemma aug_right n m k A B i j : wf n m A -> wf n k B -> i < n ->
  nth (m + j) (nth i (aug A B) []) 0%Qc = mget B i j.
Proof.
  intros HA HB Hi. rewrite (nth_aug n m k A B i HA HB Hi).
  rewrite app_nth2 by (rewrite (wf_row _ _ _ _ HA Hi); lia).
  rewrite (wf_row _ _ _ _ HA Hi). replace (m + j - m) with j by lia. reflexivity.
Qed.

Lemma nth_skipn_add {X} n (l : list X) j d : nth j (skipn n l) d = nth (n + j) l d.
Proof.
  revert l. induction n as [|n IH]; intros l; [reflexivity|].
  destruct l as [|x l]; cbn [skipn plus nth]; [destruct j; reflexivity|apply IH].
Qed.

(* A X = B for the right block X of the reduced system *)
Lemma gj_aug_right n m A B res : wf n n A -> wf n m B ->
  gauss_jordan n 0 [] (aug A B) = Some res ->
  forall i j, i < n -> j < m ->
  qsum (map (fun l => (mget A i l * nth (n + j) (nth l res []) 0)%Qc) (seq 0 n)) = mget B i j.
Proof.
  intros HA HB H i j Hi Hj.
  destruct (gj_spec (n + m) n (aug A B) res (rows_len_aug n n m A B HA HB)
              (length_aug n n m A B HA HB) H) as (R1 & R2 & R3 & R4).
  set (Q := fun r : list Qc => forall j, j < m ->
         qsum (map (fun l => (nth (0 + l) r 0 * nth (n + j) (nth l res []) 0)%Qc) (seq 0 n))
         = nth (n + j) r 0%Qc).
  assert (HQ : linear (n + m) Q).
  { unfold Q. apply (linear_all (n + m) (fun j => j < m)). intros j' _.
    apply linear_eq; [apply linmap_sum|apply linmap_nth]. }
  assert (Hres : forall r, In r res -> Q r).
  { intros r Hr j' Hj'. destruct (In_nth res r [] Hr) as [i0 [Hi0 <-]]. rewrite R1 in Hi0.
    rewrite <- (qsum_delta (fun l => nth (n + j') (nth l res []) 0%Qc) i0 n Hi0).
    apply qsum_map_ext. intros l Hl. apply in_seq in Hl. cbn [plus].
    rewrite (R3 i0 l Hi0) by lia. reflexivity. }
  pose proof (proj2 (R4 Q HQ) Hres) as Hinit. clear Hres.
  assert (Hin : In (nth i (aug A B) []) (aug A B))
    by (apply nth_In; rewrite (length_aug n n m A B HA HB); exact Hi).
  pose proof (Hinit _ Hin j Hj) as Hres.
  rewrite (aug_right n n m A B i j HA HB Hi) in Hres. rewrite <- Hres.
  apply qsum_map_ext. intros l Hl. apply in_seq in Hl. cbn [plus].
  rewrite (aug_left n n m A B i l HA HB Hi) by lia. reflexivity.
Qed.

(* X A = I for the right block X of the reduced system [A | I] *)
Lemma gj_aug_left n A res : wf n n A ->
  gauss_jordan n 0 [] (aug A (identity n)) = Some res ->
  forall i j, i < n -> j < n ->
  qsum (map (fun l => (nth (n + l) (nth i res []) 0 * mget A l j)%Qc) (seq 0 n)) =
  if Nat.eqb i j then 1%Qc else 0%Qc.
Proof.
  intros HA H i j Hi Hj. assert (HI := wf_identity n).
  destruct (gj_spec (n + n) n (aug A (identity n)) res (rows_len_aug n n n A _ HA HI)
              (length_aug n n n A _ HA HI) H) as (R1 & R2 & R3 & R4).
  set (Q := fun r : list Qc => forall j, j < n ->
         qsum (map (fun l => (nth (n + l) r 0 * mget A l j)%Qc) (seq 0 n)) = nth j r 0%Qc).
  assert (HQ : linear (n + n) Q).
  { unfold Q. apply (linear_all (n + n) (fun j => j < n)). intros j' _.
    apply linear_eq; [apply linmap_sum|apply linmap_nth]. }
  assert (Hinit : forall r, In r (aug A (identity n)) -> Q r).
  { intros r Hr j' Hj'. destruct (In_nth _ r [] Hr) as [i0 [Hi0 <-]].
    rewrite (length_aug n n n A _ HA HI) in Hi0.
    rewrite (aug_left n n n A _ i0 j' HA HI Hi0 Hj').
    rewrite <- (qsum_delta (fun l => mget A l j') i0 n Hi0).
    apply qsum_map_ext. intros l Hl. apply in_seq in Hl.
    rewrite (aug_right n n n A _ i0 l HA HI Hi0), mget_identity by lia. reflexivity. }
  pose proof (proj1 (R4 Q HQ) Hinit) as Hres.
  assert (Hin : In (nth i res []) res) by (apply nth_In; rewrite R1; exact Hi).
  rewrite (Hres _ Hin j Hj). apply R3; assumption.
Qed.

(* ------------------------------------------------------------------ *)
(* G1: the matrix returned by [inverse] is a two-sided inverse           *)
(* ------------------------------------------------------------------ *)
Lemma inverse_unfold n A : wf n n A ->
  inverse A = match gauss_jordan n 0 [] (aug A (identity n)) with
              | Some rows => Some (map (skipn n) rows)
              | None => None
              end.
Proof. intros HA. unfold inverse, aug. cbv zeta. rewrite (wf_length _ _ _ HA). reflexivity. Qed.

Lemma mget_skipn n (res : list (list Qc)) i j : i < length res ->
  mget (map (skipn n) res) i j = nth (n + j) (nth i res []) 0%Qc.
Proof.
  intros Hi. unfold mget.
  rewrite (nth_map_lt (skipn n) res i [] [] Hi). apply nth_skipn_add.
Qed.

Theorem inverse_left n A X : 0 < n -> wf n n A -> inverse A = Some X -> mmul X A = identity n.
Proof.
  intros Hn HA H. assert (HX := inverse_wf n A X HA H).
  rewrite (inverse_unfold n A HA) in H.
  destruct (gauss_jordan n 0 [] (aug A (identity n))) as [res|] eqn:E; [|discriminate].
  injection H as <-.
  assert (Hlen : length res = n).
  { assert (HI := wf_identity n).
    exact (proj1 (gj_spec (n + n) n _ res (rows_len_aug n n n A _ HA HI)
                    (length_aug n n n A _ HA HI) E)). }
  apply (mat_ext n n).
  - apply (wf_mmul n n n); assumption.
  - apply wf_identity.
  - intros i j Hi Hj.
    rewrite (mget_mmul n n n _ A i j Hn HX HA Hi Hj), (mget_identity n i j Hi Hj).
    rewrite <- (gj_aug_left n A res HA E i j Hi Hj).
    apply qsum_map_ext. intros l _. rewrite mget_skipn by (unfold vec in *; lia). reflexivity.
Qed.

Theorem inverse_right n A X : 0 < n -> wf n n A -> inverse A = Some X -> mmul A X = identity n.
Proof.
  intros Hn HA H. assert (HX := inverse_wf n A X HA H).
  rewrite (inverse_unfold n A HA) in H.
  destruct (gauss_jordan n 0 [] (aug A (identity n))) as [res|] eqn:E; [|discriminate].
  injection H as <-.
  assert (HI := wf_identity n).
  assert (Hlen : length res = n).
  { exact (proj1 (gj_spec (n + n) n _ res (rows_len_aug n n n A _ HA HI)
                    (length_aug n n n A _ HA HI) E)). }
  apply (mat_ext n n).
  - apply (wf_mmul n n n); assumption.
  - apply wf_identity.
  - intros i j Hi Hj.
    rewrite (mget_mmul n n n A _ i j Hn HA HX Hi Hj).
    rewrite <- (gj_aug_right n n A (identity n) res HA HI E i j Hi Hj).
    apply qsum_map_ext. intros l Hl. apply in_seq in Hl.
    rewrite mget_skipn by (unfold vec in *; lia). reflexivity.
Qed.

(* G1 *)
Theorem inverse_sound n A X : 0 < n -> wf n n A -> inverse A = Some X ->
  mmul X A = identity n /\ mmul A X = identity n.
Proof.
  intros Hn HA H. split; [apply (inverse_left n A X)|apply (inverse_right n A X)]; assumption.
Qed.

(* ------------------------------------------------------------------ *)
(* G2: a trivial right kernel makes the elimination succeed              *)
(* ------------------------------------------------------------------ *)
Definition trivial_kernel (n : nat) (A : mat) : Prop :=
  forall y, length y = n -> mvec A y = repeat 0%Qc n -> y = repeat 0%Qc n.

Lemma aug_total n m A B : wf n n A -> wf n m B -> trivial_kernel n A ->
  exists res, gauss_jordan n 0 [] (aug A B) = Some res.
Proof.
  intros HA HB Hker.
  apply (gj_total (n + m) n); [exact (rows_len_aug n n m A B HA HB)|exact (length_aug n n m A B HA HB)|].
  intros y Hy Hk. apply Hker; [exact Hy|].
  apply (vec_ext n).
  - rewrite length_mvec. apply (wf_length _ _ _ HA).
  - apply repeat_length.
  - intros i Hi. rewrite nth_repeat0, (nth_mvec n n A y i HA Hy Hi).
    assert (Hin : In (nth i (aug A B) []) (aug A B))
      by (apply nth_In; rewrite (length_aug n n m A B HA HB); exact Hi).
    etransitivity; [|exact (Hk _ Hin)].
    apply qsum_map_ext. intros l Hl. apply in_seq in Hl. cbn [plus].
    rewrite (aug_left n n m A B i l HA HB Hi) by lia. reflexivity.
Qed.

Theorem inverse_complete n A : 0 < n -> wf n n A -> trivial_kernel n A ->
  exists X, inverse A = Some X.
Proof.
  intros Hn HA Hker. rewrite (inverse_unfold n A HA).
  destruct (aug_total n n A (identity n) HA (wf_identity n) Hker) as [res ->].
  eexists. reflexivity.
Qed.

Lemma veq_refl (a : list Qc) :
  forallb (fun q : Qc * Qc => Qc_eqb (fst q) (snd q)) (combine a a) = true.
Proof.
  induction a as [|x a IH]; [reflexivity|]. cbn [combine forallb fst snd].
  rewrite Qc_eqb_refl, IH. reflexivity.
Qed.

Lemma vec_eqb_refl (a : vec) : vec_eqb a a = true.
Proof. unfold vec_eqb. rewrite Nat.eqb_refl, veq_refl. reflexivity. Qed.

Lemma mat_eqb_refl (A : mat) : mat_eqb A A = true.
Proof.
  unfold mat_eqb. rewrite Nat.eqb_refl. cbn [andb].
  induction A as [|r A IH]; [reflexivity|]. cbn [combine forallb fst snd].
  rewrite Nat.eqb_refl, veq_refl, IH. reflexivity.
Qed.

Theorem inverse_cert_of_inverse n A X : 0 < n -> wf n n A -> inverse A = Some X ->
  inverse_cert A = Some X.
Proof.
  intros Hn HA H. unfold inverse_cert. rewrite H, (wf_length _ _ _ HA).
  rewrite (inverse_left n A X Hn HA H), (inverse_right n A X Hn HA H), mat_eqb_refl. reflexivity.
Qed.

(* G2 *)
Theorem inverse_cert_complete n A : 0 < n -> wf n n A -> trivial_kernel n A ->
  exists X, inverse_cert A = Some X.
Proof.
  intros Hn HA Hker. destruct (inverse_complete n A Hn HA Hker) as [X HX].
  exists X. apply (inverse_cert_of_inverse n); assumption.
Qed.

(* ------------------------------------------------------------------ *)
(* the solver                                                          *)
(* ------------------------------------------------------------------ *)
Definition colmat (b : list Qc) : mat := map (fun x => [x]) b.

Lemma wf_colmat n b : length b = n -> wf n 1 (colmat b).
Proof.
  intros Hb. split.
  - unfold colmat. rewrite map_length. exact Hb.
  - intros r Hr. unfold colmat in Hr. apply in_map_iff in Hr. destruct Hr as [x [<- _]]. reflexivity.
Qed.

Lemma mget_colmat b i : mget (colmat b) i 0 = nth i b 0%Qc.
Proof.
  unfold mget, colmat. destruct (Nat.lt_ge_cases i (length b)) as [Hi|Hi].
  - rewrite (nth_map_lt (fun x : Qc => [x]) b i [] 0%Qc Hi). reflexivity.
  - rewrite (nth_overflow (map _ b)) by (rewrite map_length; exact Hi).
    rewrite (nth_overflow b) by exact Hi. reflexivity.
Qed.

Lemma solve_aug (A : mat) (b : list Qc) :
  map (fun p : list Qc * Qc => fst p ++ [snd p]) (combine A b) = aug A (colmat b).
Proof.
  unfold aug, colmat. revert b. induction A as [|a A IH]; intros [|x b]; cbn [combine map]; try reflexivity.
  cbn [fst snd]. rewrite IH. reflexivity.
Qed.

Lemma solve_unfold n A b : wf n n A ->
  solve A b = match gauss_jordan n 0 [] (aug A (colmat b)) with
              | Some rows => Some (map (fun r => nth n r 0%Qc) rows)
              | None => None
              end.
Proof.
  intros HA. unfold solve. cbv zeta. rewrite (wf_length _ _ _ HA), solve_aug. reflexivity.
Qed.

Theorem solve_sound n A b x : wf n n A -> length b = n -> solve A b = Some x ->
  length x = n /\ mvec A x = b.
Proof.
  intros HA Hb H. rewrite (solve_unfold n A b HA) in H.
  destruct (gauss_jordan n 0 [] (aug A (colmat b))) as [res|] eqn:E; [|discriminate].
  injection H as <-. assert (HB := wf_colmat n b Hb).
  assert (Hlen : length res = n).
  { exact (proj1 (gj_spec (n + 1) n _ res (rows_len_aug n n 1 A _ HA HB)
                    (length_aug n n 1 A _ HA HB) E)). }
  assert (Hx : length (map (fun r : list Qc => nth n r 0%Qc) res) = n)
    by (rewrite map_length; exact Hlen).
  split; [exact Hx|].
  apply (vec_ext n).
  - rewrite length_mvec. apply (wf_length _ _ _ HA).
  - exact Hb.
  - intros i Hi. rewrite (nth_mvec n n A _ i HA Hx Hi).
    rewrite <- mget_colmat, <- (gj_aug_right n 1 A (colmat b) res HA HB E i 0 Hi) by lia.
    apply qsum_map_ext. intros l Hl. apply in_seq in Hl.
    rewrite (nth_map_lt (fun r : list Qc => nth n r 0%Qc) res l 0%Qc []) by (unfold vec in *; lia).
    rewrite Nat.add_0_r. reflexivity.
Qed.

(* G2 for the solver *)
Theorem solve_complete n A b : wf n n A -> length b = n -> trivial_kernel n A ->
  exists x, solve A b = Some x /\ length x = n /\ mvec A x = b.
Proof.
  intros HA Hb Hker.
  destruct (aug_total n 1 A (colmat b) HA (wf_colmat n b Hb) Hker) as [res E].
  assert (H : solve A b = Some (map (fun r : list Qc => nth n r 0%Qc) res)).
  { rewrite (solve_unfold n A b HA), E. reflexivity. }
  eexists. split; [exact H|]. apply (solve_sound n A b _ HA Hb H).
Qed.

(* ------------------------------------------------------------------ *)
(* G3: the fundamental matrix  K = I + 1 pi^T - T  of an ergodic chain    *)
(* ------------------------------------------------------------------ *)
Lemma dot_assoc n m v M y : 0 < n -> length v = n -> wf n m M -> length y = m ->
  qsum (map (fun i => (nth i v 0 * nth i (mvec M y) 0)%Qc) (seq 0 n)) =
  qsum (map (fun j => (nth j (vmul v M) 0 * nth j y 0)%Qc) (seq 0 m)).
Proof.
  intros Hn Hv HM Hy.
  transitivity (qsum (map (fun i => qsum (map (fun j => (nth i v 0 * mget M i j * nth j y 0)%Qc)
                                            (seq 0 m))) (seq 0 n))).
  - apply qsum_map_ext. intros i Hi. apply in_seq in Hi.
    rewrite (nth_mvec n m M y i HM Hy) by lia. rewrite <- qsum_map_scale_l.
    apply qsum_map_ext. intros j _. ring.
  - rewrite qsum_exchange. apply qsum_map_ext. intros j Hj. apply in_seq in Hj.
    rewrite (nth_vmul n m v M j Hn Hv HM) by lia. rewrite <- qsum_map_scale_r. reflexivity.
Qed.

Lemma mvec_ipm n p M y i : length p = n -> wf n n M -> length y = n -> i < n ->
  nth i (mvec (msub (madd (identity n) (outer (ones n) p)) M) y) 0%Qc =
  (nth i y 0 + qsum (map (fun j => (nth j p 0 * nth j y 0)%Qc) (seq 0 n)) - nth i (mvec M y) 0)%Qc.
Proof.
  intros Hp HM Hy Hi.
  assert (HO : wf n n (outer (ones n) p)).
  { assert (HO := wf_outer (ones n) p). rewrite length_ones, Hp in HO. exact HO. }
  assert (HIO : wf n n (madd (identity n) (outer (ones n) p)))
    by (apply wf_madd; [apply wf_identity|exact HO]).
  rewrite (nth_mvec_msub n n _ M _ i HIO HM Hy Hi).
  rewrite (nth_mvec_madd n n _ _ _ i (wf_identity n) HO Hy Hi).
  rewrite mvec_identity by exact Hy.
  rewrite (nth_mvec_outer n n _ p _ i (length_ones n) Hp Hy Hi).
  rewrite nth_ones by exact Hi. ring.
Qed.

Lemma mvec_mpow_fixed n T y k : 0 < n -> wf n n T -> length y = n -> mvec T y = y ->
  mvec (mpow T k) y = y.
Proof.
  intros Hn HT Hy E. induction k as [|k IH]; cbn [mpow].
  - rewrite (wf_length _ _ _ HT). apply mvec_identity. exact Hy.
  - rewrite (mvec_mmul n n n T (mpow T k) y Hn HT (wf_mpow n T k Hn HT) Hy), IH. exact E.
Qed.

Lemma row_sum_seq n P i : wf n n P -> rows_sum_one P -> i < n ->
  qsum (map (fun j => mget P i j) (seq 0 n)) = 1%Qc.
Proof.
  intros HP SP Hi. unfold mget.
  rewrite <- (qsum_nth_seq (nth i P []) n) by (apply (wf_row _ _ _ _ HP Hi)).
  apply SP, nth_In. rewrite (wf_length _ _ _ HP). exact Hi.
Qed.

(* maximum principle: a vector fixed by an entrywise positive stochastic matrix is constant *)
Lemma fixed_constant n P y : 0 < n -> wf n n P -> rows_sum_one P ->
  (forall i j, i < n -> j < n -> (0 < mget P i j)%Qc) ->
  length y = n -> mvec P y = y ->
  exists c, forall i, i < n -> nth i y 0%Qc = c.
Proof.
  intros Hn HP SP Hpos Hy E.
  destruct (min_exists (fun i => nth i y 0%Qc) n Hn) as [i0 [Hi0 Hmin]]. cbv beta in Hmin.
  exists (nth i0 y 0%Qc). intros j Hj.
  destruct (Qclt_le_dec (nth i0 y 0%Qc) (nth j y 0%Qc)) as [Hlt|Hle];
    [|apply Qcle_antisym; [exact Hle|apply Hmin; exact Hj]].
  exfalso.
  assert (Hz : qsum (map (fun l => (mget P i0 l * (nth l y 0 - nth i0 y 0))%Qc) (seq 0 n)) = 0%Qc).
  { transitivity (qsum (map (fun l => (mget P i0 l * nth l y 0)%Qc) (seq 0 n))
                  - qsum (map (fun l => mget P i0 l) (seq 0 n)) * nth i0 y 0)%Qc.
    - rewrite <- qsum_map_scale_r, <- qsum_map_minus. apply qsum_map_ext. intros l _. ring.
    - rewrite <- (nth_mvec n n P y i0 HP Hy Hi0), E, (row_sum_seq n P i0 HP SP Hi0). ring. }
  assert (Hp : (0 < qsum (map (fun l => (mget P i0 l * (nth l y 0 - nth i0 y 0))%Qc) (seq 0 n)))%Qc).
  { apply qsum_pos.
    - intros x Hx. apply in_map_iff in Hx. destruct Hx as [l [<- Hl]]. apply in_seq in Hl.
      apply Qcmult_nonneg; [apply Qclt_le_weak, Hpos; lia|].
      unfold Qcminus. rewrite <- Qcle_minus_iff. apply Hmin. lia.
    - exists (mget P i0 j * (nth j y 0 - nth i0 y 0))%Qc. split.
      + apply in_map_iff. exists j. split; [reflexivity|apply in_seq; lia].
      + apply Qcmult_pos; [apply Hpos; assumption|].
        unfold Qcminus. rewrite <- Qclt_minus_iff. exact Hlt. }
  rewrite Hz in Hp. exact (Qclt_irrefl _ Hp).
Qed.

Section Fundamental.
Variables (n k : nat) (T : mat) (pi : list Qc).
Hypothesis Hn : 0 < n.
Hypothesis HT : wf n n T.
Hypothesis NT : entries_nonneg T.
Hypothesis ST : rows_sum_one T.
Hypothesis Hpos : forall i j, i < n -> j < n -> (0 < mget (mpow T k) i j)%Qc.
Hypothesis Hpi : length pi = n.
Hypothesis piT : vmul pi T = pi.
Hypothesis pi1 : qsum pi = 1%Qc.
Let K := msub (madd (identity n) (outer (ones n) pi)) T.

Lemma fund_wfK : wf n n K.
Proof. unfold K. apply wf_ipm; assumption. Qed.

Lemma fund_kernel : trivial_kernel n K.
Proof.
  intros y Hy E.
  set (s := qsum (map (fun j => (nth j pi 0 * nth j y 0)%Qc) (seq 0 n))).
  assert (Hs : s = 0%Qc).
  { unfold s.
    transitivity (qsum (map (fun j => (nth j (vmul pi K) 0 * nth j y 0)%Qc) (seq 0 n))).
    { unfold K. rewrite (hs_piK n T pi Hn HT Hpi piT pi1). reflexivity. }
    rewrite <- (dot_assoc n n pi K y Hn Hpi fund_wfK Hy), E.
    transitivity (qsum (map (fun _ : nat => 0%Qc) (seq 0 n))); [|apply qsum_map_zero].
    apply qsum_map_ext. intros i _. rewrite nth_repeat0. ring. }
  assert (ETy : mvec T y = y).
  { apply (vec_ext n); [rewrite length_mvec; apply (wf_length _ _ _ HT)|exact Hy|].
    intros i Hi. assert (Hi' := mvec_ipm n pi T y i Hpi HT Hy Hi). fold K in Hi'. fold s in Hi'.
    rewrite E, nth_repeat0, Hs in Hi'.
    transitivity (nth i y 0 + 0 - (nth i y 0 + 0 - nth i (mvec T y) 0))%Qc; [ring|].
    rewrite <- Hi'. ring. }
  destruct (mpow_stochastic n T k Hn HT ST NT) as (SP & _ & _).
  destruct (fixed_constant n (mpow T k) y Hn (wf_mpow n T k Hn HT) SP Hpos Hy
              (mvec_mpow_fixed n T y k Hn HT Hy ETy)) as [c Hc].
  assert (Hc0 : c = 0%Qc).
  { rewrite <- Hs. unfold s.
    transitivity (qsum pi * c)%Qc; [rewrite pi1; ring|].
    rewrite (qsum_nth_seq pi n Hpi), <- qsum_map_scale_r.
    apply qsum_map_ext. intros j Hj. apply in_seq in Hj. rewrite (Hc j) by lia. reflexivity. }
  apply (vec_ext n); [exact Hy|apply repeat_length|].
  intros i Hi. rewrite nth_repeat0, (Hc i Hi). exact Hc0.
Qed.

(* G3 *)
Theorem fundamental_inverse_exists : exists Z, inverse_cert K = Some Z.
Proof. apply (inverse_cert_complete n K Hn fund_wfK fund_kernel). Qed.
End Fundamental.

Print Assumptions inverse_sound.
Print Assumptions inverse_complete.
Print Assumptions inverse_cert_complete.
Print Assumptions solve_sound.
Print Assumptions solve_complete.
Print Assumptions fundamental_inverse_exists.
