(* C13: discretization similarity = contingency-table formula *)
From Coq Require Import List ZArith Arith Bool Lia Permutation QArith Qcanon.
From MsmV Require Import Lib.Result Lib.PyList Lib.Sorting Lib.QMat Model.Labels Model.StateTraj
  Model.Events Model.Similarity.
From MsmV Require Import Proofs.MsmFacts.
Import ListNotations.
Local Open Scope nat_scope.

Definition in_range (n1 n2 : nat) (fr : list (nat * nat)) : Prop :=
  forall p, In p fr -> fst p < n1 /\ snd p < n2.

(* ====================================================================== *)
(* helpers: rationals                                                      *)
(* ====================================================================== *)

Lemma Qcinv_0 : (/ 0 = 0)%Qc.
Proof. apply Qc_is_canon. reflexivity. Qed.

Lemma Qcdiv_0_r (a : Qc) : (a / 0 = 0)%Qc.
Proof. unfold Qcdiv. rewrite Qcinv_0. ring. Qed.

Lemma qdiv0_eq (a b : Qc) : qdiv0 a b = (a / b)%Qc.
Proof.
  unfold qdiv0. destruct (Qc_eqb b 0) eqn:E; [|reflexivity].
  apply Qc_eqb_eq in E. subst b. symmetry. apply Qcdiv_0_r.
Qed.

Lemma Qc_of_nat_0 : Qc_of_nat 0 = 0%Qc.
Proof. unfold Qc_of_nat. apply Qc_of_Z_0. Qed.

Lemma Qc_of_Z_1 : Qc_of_Z 1 = 1%Qc.
Proof. apply Qc_is_canon. reflexivity. Qed.

Lemma Qc_of_nat_plus a b : Qc_of_nat (a + b) = (Qc_of_nat a + Qc_of_nat b)%Qc.
Proof. unfold Qc_of_nat. rewrite Nat2Z.inj_add. apply Qc_of_Z_plus. Qed.

Lemma Qc_of_nat_S a : Qc_of_nat (S a) = (1 + Qc_of_nat a)%Qc.
Proof. change (S a) with (1 + a). rewrite Qc_of_nat_plus. unfold Qc_of_nat at 1. cbn [Z.of_nat Pos.of_succ_nat]. now rewrite Qc_of_Z_1. Qed.

Lemma Qc_of_nat_eq_0 n : Qc_of_nat n = 0%Qc <-> n = 0.
Proof. unfold Qc_of_nat. rewrite Qc_of_Z_inj_0. lia. Qed.

Lemma Qc_of_nat_nonneg n : (0 <= Qc_of_nat n)%Qc.
Proof.
  unfold Qcle, Qc_of_nat, Qc_of_Z, Q2Qc. cbn [this]. rewrite !Qred_correct.
  change (inject_Z 0 <= inject_Z (Z.of_nat n))%Q. rewrite <- Zle_Qle. lia.
Qed.

Lemma quot_01 a b : a <= b ->
  (0 <= Qc_of_nat a / Qc_of_nat b)%Qc /\ (Qc_of_nat a / Qc_of_nat b <= 1)%Qc.
Proof.
  intros Hab. destruct b as [|b].
  - rewrite Qc_of_nat_0, Qcdiv_0_r. split; [apply Qcle_refl|]. unfold Qcle. cbn. discriminate.
  - unfold Qc_of_nat. apply Qc_div_01; lia.
Qed.

Lemma Qc_max_r a b : (b <= Qc_max a b)%Qc.
Proof.
  unfold Qc_max, Qc_leb. destruct (Qle_bool a b) eqn:E; [apply Qcle_refl|].
  unfold Qcle. destruct (Qlt_le_dec b a) as [H|H]; [apply Qlt_le_weak; exact H|].
  apply Qle_bool_iff in H. congruence.
Qed.

Lemma Qc_max_cases a b : Qc_max a b = a \/ Qc_max a b = b.
Proof. unfold Qc_max. destruct (Qc_leb a b); auto. Qed.

Lemma Qc_max_comm a b : Qc_max a b = Qc_max b a.
Proof.
  unfold Qc_max, Qc_leb. destruct (Qle_bool a b) eqn:E1; destruct (Qle_bool b a) eqn:E2; try reflexivity.
  - apply Qle_bool_iff in E1. apply Qle_bool_iff in E2. apply Qcle_antisym; assumption.
  - destruct (Qlt_le_dec b a) as [H|H].
    + apply Qlt_le_weak in H. apply Qle_bool_iff in H. congruence.
    + apply Qle_bool_iff in H. congruence.
Qed.

Lemma Qc_max_id a : Qc_max a a = a.
Proof. destruct (Qc_max_cases a a); assumption. Qed.

(* ---------- qsum ---------- *)
Lemma qsum_nil : qsum [] = 0%Qc.
Proof. reflexivity. Qed.
Lemma qsum_cons x l : qsum (x :: l) = (x + qsum l)%Qc.
Proof. reflexivity. Qed.

Lemma qsum_map_ext_in {A} (f g : A -> Qc) l : (forall x, In x l -> f x = g x) ->
  qsum (map f l) = qsum (map g l).
Proof. intros H. f_equal. apply map_ext_in. exact H. Qed.

Lemma qsum_map_plus {A} (f g : A -> Qc) l :
  qsum (map (fun x => (f x + g x)%Qc) l) = (qsum (map f l) + qsum (map g l))%Qc.
Proof.
  induction l as [|a l IH]; cbn [map]; rewrite ?qsum_nil, ?qsum_cons; [ring|].
  rewrite IH. ring.
Qed.

Lemma qsum_zero {A} (f : A -> Qc) l : (forall x, In x l -> f x = 0%Qc) -> qsum (map f l) = 0%Qc.
Proof.
  induction l as [|a l IH]; intros H; cbn [map]; rewrite ?qsum_nil, ?qsum_cons; [reflexivity|].
  rewrite IH by (intros x Hx; apply H; right; exact Hx).
  rewrite (H a) by (left; reflexivity). ring.
Qed.

Lemma qsum_swap {A B} (F : A -> B -> Qc) l1 l2 :
  qsum (map (fun i => qsum (map (fun j => F i j) l2)) l1)
  = qsum (map (fun j => qsum (map (fun i => F i j) l1)) l2).
Proof.
  induction l1 as [|a l1 IH].
  - cbn [map]. rewrite qsum_nil. symmetry. apply qsum_zero. intros; reflexivity.
  - cbn [map]. rewrite qsum_cons, IH.
    rewrite <- qsum_map_plus. apply qsum_map_ext_in. intros j _. rewrite qsum_cons. reflexivity.
Qed.

Lemma qsum_le {A} (f g : A -> Qc) l : (forall x, In x l -> (f x <= g x)%Qc) ->
  (qsum (map f l) <= qsum (map g l))%Qc.
Proof.
  induction l as [|a l IH]; intros H; cbn [map]; rewrite ?qsum_nil, ?qsum_cons; [apply Qcle_refl|].
  apply Qcplus_le_compat; [apply H; left; reflexivity|]. apply IH. intros x Hx. apply H. right. exact Hx.
Qed.

Lemma qsum_nonneg {A} (f : A -> Qc) l : (forall x, In x l -> (0 <= f x)%Qc) -> (0 <= qsum (map f l))%Qc.
Proof.
  intros H. rewrite <- (qsum_zero (fun _ : A => 0%Qc) l) by reflexivity.
  apply qsum_le. exact H.
Qed.

Lemma qsum_ones {A} (l : list A) : qsum (map (fun _ => 1%Qc) l) = Qc_of_nat (length l).
Proof.
  induction l as [|a l IH]; cbn [map length]; rewrite ?qsum_nil, ?qsum_cons.
  - symmetry. apply Qc_of_nat_0.
  - rewrite IH, Qc_of_nat_S. reflexivity.
Qed.

(* indicator sum over a range *)
Lemma qsum_ind_seq (h : nat -> Qc) y : forall n a, a <= y < a + n ->
  qsum (map (fun j => if Nat.eqb y j then h j else 0%Qc) (seq a n)) = h y.
Proof.
  induction n as [|n IH]; intros a Hy; [lia|].
  cbn [seq map]. rewrite qsum_cons. destruct (Nat.eqb_spec y a) as [->|Hne].
  - rewrite qsum_zero; [ring|]. intros x Hx. apply in_seq in Hx.
    destruct (Nat.eqb_spec a x); [lia|reflexivity].
  - rewrite IH by lia. ring.
Qed.

(* ====================================================================== *)
(* helpers: contingency counts                                             *)
(* ====================================================================== *)

Lemma n_ij_cons x y fr i j :
  n_ij ((x, y) :: fr) i j = (if Nat.eqb x i && Nat.eqb y j then 1 else 0) + n_ij fr i j.
Proof.
  unfold n_ij. cbn [filter fst snd]. destruct (Nat.eqb x i && Nat.eqb y j); reflexivity.
Qed.

Lemma n_row_cons x y fr i : n_row ((x, y) :: fr) i = (if Nat.eqb x i then 1 else 0) + n_row fr i.
Proof. unfold n_row. cbn [filter fst snd]. destruct (Nat.eqb x i); reflexivity. Qed.

Lemma n_col_cons x y fr j : n_col ((x, y) :: fr) j = (if Nat.eqb y j then 1 else 0) + n_col fr j.
Proof. unfold n_col. cbn [filter fst snd]. destruct (Nat.eqb y j); reflexivity. Qed.

Lemma n_ij_le_row fr i j : n_ij fr i j <= n_row fr i.
Proof.
  induction fr as [|[x y] fr IH]; [apply Nat.le_refl|].
  rewrite n_ij_cons, n_row_cons. destruct (Nat.eqb x i), (Nat.eqb y j); cbn [andb]; lia.
Qed.

Lemma n_ij_le_col fr i j : n_ij fr i j <= n_col fr j.
Proof.
  induction fr as [|[x y] fr IH]; [apply Nat.le_refl|].
  rewrite n_ij_cons, n_col_cons. destruct (Nat.eqb x i), (Nat.eqb y j); cbn [andb]; lia.
Qed.

(* regrouping a per-frame sum by contingency cell *)
Lemma regroup n1 n2 (g : nat -> nat -> Qc) fr : in_range n1 n2 fr ->
  qsum (map (fun p => g (fst p) (snd p)) fr)
  = qsum (map (fun i => qsum (map (fun j => (Qc_of_nat (n_ij fr i j) * g i j)%Qc) (seq 0 n2))) (seq 0 n1)).
Proof.
  induction fr as [|[x y] fr IH]; intros Hr.
  - cbn [map]. rewrite qsum_nil. symmetry. apply qsum_zero. intros i _. apply qsum_zero. intros j _.
    unfold n_ij. cbn [filter length]. rewrite Qc_of_nat_0. ring.
  - cbn [map fst snd]. rewrite qsum_cons.
    rewrite IH by (intros p Hp; apply Hr; right; exact Hp).
    destruct (Hr (x, y) (or_introl eq_refl)) as [Hx Hy]. cbn [fst snd] in Hx, Hy.
    rewrite <- (qsum_ind_seq (fun i => g i y) x n1 0) by lia.
    rewrite <- qsum_map_plus. apply qsum_map_ext_in. intros i _.
    transitivity (qsum (map (fun j => if Nat.eqb x i && Nat.eqb y j then g i j else 0%Qc) (seq 0 n2))
                  + qsum (map (fun j => (Qc_of_nat (n_ij fr i j) * g i j)%Qc) (seq 0 n2)))%Qc.
    + f_equal. destruct (Nat.eqb x i); cbn [andb].
      * symmetry. apply (qsum_ind_seq (fun j => g i j) y n2 0). lia.
      * symmetry. apply qsum_zero. reflexivity.
    + rewrite <- qsum_map_plus. apply qsum_map_ext_in. intros j _.
      rewrite n_ij_cons, Qc_of_nat_plus.
      destruct (Nat.eqb x i && Nat.eqb y j).
      * change (Qc_of_nat 1) with (Qc_of_Z 1). rewrite Qc_of_Z_1. ring.
      * rewrite Qc_of_nat_0. ring.
Qed.

Lemma sum_n_ij n1 n2 fr : in_range n1 n2 fr ->
  qsum (map (fun i => qsum (map (fun j => Qc_of_nat (n_ij fr i j)) (seq 0 n2))) (seq 0 n1))
  = Qc_of_nat (length fr).
Proof.
  intros Hr. rewrite <- qsum_ones. rewrite (regroup n1 n2 (fun _ _ => 1%Qc) fr Hr).
  apply qsum_map_ext_in. intros i _. apply qsum_map_ext_in. intros j _. ring.
Qed.

(* ---------- the specification with total division ---------- *)
Definition G (fr : list (nat * nat)) (sym : bool) (i j : nat) : Qc :=
  if sym then Qc_max (Qc_of_nat (n_ij fr i j) / Qc_of_nat (n_row fr i))%Qc
                     (Qc_of_nat (n_ij fr i j) / Qc_of_nat (n_col fr j))%Qc
  else (Qc_of_nat (n_ij fr i j) / Qc_of_nat (n_col fr j))%Qc.

Definition dsum (n1 n2 : nat) (F : nat -> nat -> Qc) : Qc :=
  qsum (map (fun i => qsum (map (fun j => F i j) (seq 0 n2))) (seq 0 n1)).

Lemma dsum_ext n1 n2 F F' : (forall i j, i < n1 -> j < n2 -> F i j = F' i j) -> dsum n1 n2 F = dsum n1 n2 F'.
Proof.
  intros H. unfold dsum. apply qsum_map_ext_in. intros i Hi. apply qsum_map_ext_in. intros j Hj.
  apply in_seq in Hi. apply in_seq in Hj. apply H; lia.
Qed.

Lemma dsum_le n1 n2 F F' : (forall i j, (F i j <= F' i j)%Qc) -> (dsum n1 n2 F <= dsum n1 n2 F')%Qc.
Proof. intros H. unfold dsum. apply qsum_le. intros i _. apply qsum_le. intros j _. apply H. Qed.

Lemma dsum_swap n1 n2 F : dsum n1 n2 F = dsum n2 n1 (fun j i => F i j).
Proof. unfold dsum. apply qsum_swap. Qed.

Lemma sim_spec_alt n1 n2 fr sym :
  sim_spec n1 n2 fr sym
  = (dsum n1 n2 (fun i j => Qc_of_nat (n_ij fr i j) * G fr sym i j) / Qc_of_nat (length fr))%Qc.
Proof.
  unfold sim_spec, dsum, G. cbv zeta. f_equal.
  apply qsum_map_ext_in. intros i _. apply qsum_map_ext_in. intros j _.
  rewrite !qdiv0_eq. reflexivity.
Qed.

Lemma G_01 fr sym i j : (0 <= G fr sym i j)%Qc /\ (G fr sym i j <= 1)%Qc.
Proof.
  pose proof (quot_01 _ _ (n_ij_le_row fr i j)) as Hr.
  pose proof (quot_01 _ _ (n_ij_le_col fr i j)) as Hc.
  unfold G. destruct sym; [|exact Hc].
  destruct (Qc_max_cases (Qc_of_nat (n_ij fr i j) / Qc_of_nat (n_row fr i))
                         (Qc_of_nat (n_ij fr i j) / Qc_of_nat (n_col fr j))) as [E|E]; rewrite E; assumption.
Qed.

Lemma term_bounds fr sym i j :
  (0 <= Qc_of_nat (n_ij fr i j) * G fr sym i j)%Qc /\
  (Qc_of_nat (n_ij fr i j) * G fr sym i j <= Qc_of_nat (n_ij fr i j))%Qc.
Proof.
  destruct (G_01 fr sym i j) as [H0 H1]. pose proof (Qc_of_nat_nonneg (n_ij fr i j)) as Hn.
  split.
  - replace 0%Qc with (0 * G fr sym i j)%Qc by ring. apply Qcmult_le_compat_r; assumption.
  - replace (Qc_of_nat (n_ij fr i j)) with (1 * Qc_of_nat (n_ij fr i j))%Qc at 2 by ring.
    rewrite Qcmult_comm. apply Qcmult_le_compat_r; assumption.
Qed.

Lemma Qc_of_nat_inv_nonneg n : (0 <= / Qc_of_nat n)%Qc.
Proof.
  destruct n as [|n].
  - rewrite Qc_of_nat_0, Qcinv_0. apply Qcle_refl.
  - assert (H : (0 <= Qc_of_Z 1 / Qc_of_Z (Z.of_nat (S n)))%Qc) by (apply Qc_div_01; lia).
    rewrite Qc_of_Z_1 in H. unfold Qcdiv in H. rewrite Qcmult_1_l in H. exact H.
Qed.

Lemma Qc_of_nat_len_ne0 {A} (l : list A) : l <> [] -> Qc_of_nat (length l) <> 0%Qc.
Proof. intros H E. apply Qc_of_nat_eq_0 in E. destruct l; [congruence|discriminate]. Qed.

(* the value is 1 as soon as every cell term equals its count *)
Lemma sim_one n1 n2 fr sym : in_range n1 n2 fr -> fr <> [] ->
  (forall i j, (Qc_of_nat (n_ij fr i j) * G fr sym i j)%Qc = Qc_of_nat (n_ij fr i j)) ->
  sim_spec n1 n2 fr sym = 1%Qc.
Proof.
  intros Hr Hne H. rewrite sim_spec_alt.
  rewrite (dsum_ext n1 n2 _ (fun i j => Qc_of_nat (n_ij fr i j))) by (intros; apply H).
  unfold dsum. rewrite (sum_n_ij n1 n2 fr Hr).
  pose proof (Qc_of_nat_len_ne0 fr Hne) as Hn. field. exact Hn.
Qed.

Lemma term_eq_count fr sym i j :
  n_ij fr i j = 0 \/ (n_ij fr i j = n_col fr j /\ (sym = true -> n_ij fr i j = n_row fr i)) ->
  (Qc_of_nat (n_ij fr i j) * G fr sym i j)%Qc = Qc_of_nat (n_ij fr i j).
Proof.
  intros [H0|[Hc Hrw]].
  - rewrite H0, Qc_of_nat_0. ring.
  - unfold G. destruct (Nat.eq_dec (n_ij fr i j) 0) as [H0|H0]; [rewrite H0, Qc_of_nat_0; ring|].
    assert (Hq : Qc_of_nat (n_ij fr i j) <> 0%Qc) by (intros E; apply Qc_of_nat_eq_0 in E; contradiction).
    destruct sym.
    + rewrite <- (Hrw eq_refl), <- Hc, Qc_max_id. field. exact Hq.
    + rewrite <- Hc. field. exact Hq.
Qed.

(* ====================================================================== *)
(* helpers: sorted-merge intersection and frame-index lists                *)
(* ====================================================================== *)

Definition memz (z : Z) (l : list Z) : bool := existsb (Z.eqb z) l.

Fixpoint ss (l : list Z) : Prop :=
  match l with
  | [] => True
  | x :: r => Forall (fun w => (x < w)%Z) r /\ ss r
  end.

Lemma memz_above z l : Forall (fun w => (z < w)%Z) l -> memz z l = false.
Proof.
  induction 1 as [|w l Hw _ IH]; [reflexivity|].
  unfold memz in *. cbn [existsb]. rewrite IH. destruct (Z.eqb_spec z w); [lia|reflexivity].
Qed.

Lemma filter_false {A} (f : A -> bool) l : (forall x, In x l -> f x = false) -> filter f l = [].
Proof.
  induction l as [|a l IH]; intros H; [reflexivity|]. cbn [filter].
  rewrite (H a) by (left; reflexivity). apply IH. intros x Hx. apply H. right. exact Hx.
Qed.

Lemma filter_memz_skip k a b : Forall (fun w => (k < w)%Z) a ->
  filter (fun z => memz z (k :: b)) a = filter (fun z => memz z b) a.
Proof.
  intros H. apply filter_ext_in. intros z Hz. rewrite Forall_forall in H. specialize (H z Hz).
  unfold memz. cbn [existsb]. destruct (Z.eqb_spec z k); [lia|reflexivity].
Qed.

Lemma intersect_fuel_count : forall fuel a b, ss a -> ss b -> length a + length b <= fuel ->
  intersect_fuel fuel a b = length (filter (fun z => memz z b) a).
Proof.
  induction fuel as [|f IH]; intros a b Ha Hb Hf.
  - destruct a; [reflexivity|cbn [length] in Hf; lia].
  - destruct a as [|x a']; [reflexivity|]. destruct b as [|y b'].
    + cbn [intersect_fuel]. rewrite filter_false; [reflexivity|]. reflexivity.
    + cbn [intersect_fuel]. destruct Ha as [Hxa Ha']. destruct Hb as [Hyb Hb'].
      cbn [length] in Hf.
      destruct (Z.eqb_spec x y) as [->|Hne].
      * rewrite IH by (try assumption; lia).
        cbn [filter]. unfold memz at 2. cbn [existsb]. rewrite Z.eqb_refl. cbn [orb length].
        rewrite filter_memz_skip by exact Hxa. reflexivity.
      * destruct (Z.ltb_spec y x) as [Hlt|Hge].
        -- rewrite IH; [|cbn [ss]; auto|exact Hb'|cbn [length]; lia].
           symmetry. f_equal. apply filter_memz_skip.
           constructor; [exact Hlt|]. eapply Forall_impl; [|exact Hxa]. cbn. intros; lia.
        -- rewrite IH; [|exact Ha'|cbn [ss]; auto|cbn [length]; lia].
           cbn [filter]. rewrite memz_above; [reflexivity|].
           constructor; [lia|]. eapply Forall_impl; [|exact Hyb]. cbn. intros; lia.
Qed.

Lemma intersect_count a b : ss a -> ss b -> intersect a b = length (filter (fun z => memz z b) a).
Proof. intros Ha Hb. unfold intersect. apply intersect_fuel_count; auto. Qed.

Lemma positions_from_ge s f : forall k, Forall (fun w => (k <= w)%Z) (positions_from k s f).
Proof.
  induction f as [|x f IH]; intros k; [constructor|]. cbn [positions_from].
  assert (H : Forall (fun w => (k <= w)%Z) (positions_from (k + 1) s f)).
  { eapply Forall_impl; [|apply IH]. cbn. intros; lia. }
  destruct (Nat.eqb x s); [constructor; [lia|exact H]|exact H].
Qed.

Lemma positions_from_gt s f k : Forall (fun w => (k < w)%Z) (positions_from (k + 1) s f).
Proof. eapply Forall_impl; [|apply positions_from_ge]. cbn. intros; lia. Qed.

Lemma positions_from_ss s f : forall k, ss (positions_from k s f).
Proof.
  induction f as [|x f IH]; intros k; [exact I|]. cbn [positions_from].
  destruct (Nat.eqb x s); [|apply IH]. cbn [ss]. split; [apply positions_from_gt|apply IH].
Qed.

Lemma positions_count i j : forall f1 f2 k, length f1 = length f2 ->
  length (filter (fun z => memz z (positions_from k j f2)) (positions_from k i f1))
  = n_ij (combine f1 f2) i j.
Proof.
  induction f1 as [|x f1 IH]; intros f2 k Hl; destruct f2 as [|y f2]; try discriminate; [reflexivity|].
  cbn [combine positions_from]. rewrite n_ij_cons. injection Hl as Hl.
  specialize (IH f2 (k + 1)%Z Hl).
  pose proof (positions_from_gt i f1 k) as G1. pose proof (positions_from_gt j f2 k) as G2.
  destruct (Nat.eqb x i), (Nat.eqb y j); cbn [andb filter].
  - unfold memz at 1. cbn [existsb]. rewrite Z.eqb_refl. cbn [orb length].
    rewrite filter_memz_skip by exact G1. rewrite IH. reflexivity.
  - rewrite memz_above by exact G2. rewrite IH. reflexivity.
  - rewrite filter_memz_skip by exact G1. rewrite IH. reflexivity.
  - rewrite IH. reflexivity.
Qed.

Lemma positions_len_row i : forall f1 f2 k, length f1 = length f2 ->
  length (positions_from k i f1) = n_row (combine f1 f2) i.
Proof.
  induction f1 as [|x f1 IH]; intros f2 k Hl; destruct f2 as [|y f2]; try discriminate; [reflexivity|].
  cbn [combine positions_from]. rewrite n_row_cons. injection Hl as Hl.
  specialize (IH f2 (k + 1)%Z Hl). destruct (Nat.eqb x i); cbn [length]; rewrite IH; reflexivity.
Qed.

Lemma positions_len_col j : forall f1 f2 k, length f1 = length f2 ->
  length (positions_from k j f2) = n_col (combine f1 f2) j.
Proof.
  induction f1 as [|x f1 IH]; intros f2 k Hl; destruct f2 as [|y f2]; try discriminate; [reflexivity|].
  cbn [combine positions_from]. rewrite n_col_cons. injection Hl as Hl.
  specialize (IH f2 (k + 1)%Z Hl). destruct (Nat.eqb y j); cbn [length]; rewrite IH; reflexivity.
Qed.

Lemma intersect_positions f1 f2 i j : length f1 = length f2 ->
  intersect (positions i f1) (positions j f2) = n_ij (combine f1 f2) i j.
Proof.
  intros Hl. unfold positions. rewrite intersect_count by apply positions_from_ss.
  apply positions_count. exact Hl.
Qed.

(* ---------- tables ---------- *)
Definition tab (n1 n2 : nat) (F : nat -> nat -> Qc) : mat :=
  map (fun i => map (fun j => F i j) (seq 0 n2)) (seq 0 n1).

Lemma nth_map_seq {A} (f : nat -> A) n k d : k < n -> nth k (map f (seq 0 n)) d = f k.
Proof.
  intros Hk. rewrite (nth_indep _ d (f 0)) by (rewrite map_length, seq_length; exact Hk).
  rewrite map_nth, seq_nth by exact Hk. reflexivity.
Qed.

Lemma mget_tab n1 n2 F i j : i < n1 -> j < n2 -> mget (tab n1 n2 F) i j = F i j.
Proof.
  intros Hi Hj. unfold mget, tab. rewrite (nth_map_seq _ n1 i []) by exact Hi.
  apply nth_map_seq. exact Hj.
Qed.

Lemma transpose_tab n1 n2 F : 0 < n1 -> transpose (tab n1 n2 F) = tab n2 n1 (fun j i => F i j).
Proof.
  intros Hn. unfold transpose.
  assert (Hc : ncols (tab n1 n2 F) = n2).
  { destruct n1 as [|n1]; [lia|]. unfold tab. cbn [seq map ncols]. now rewrite map_length, seq_length. }
  rewrite Hc. unfold tab at 2. apply map_ext_in. intros j Hj. apply in_seq in Hj.
  unfold col, tab. rewrite map_map. apply map_ext. intros i. apply nth_map_seq. lia.
Qed.

Lemma combine_map_same {A B C} (f : A -> B) (g : A -> C) l :
  combine (map f l) (map g l) = map (fun x => (f x, g x)) l.
Proof. induction l as [|a l IH]; [reflexivity|]. cbn [map combine]. now rewrite IH. Qed.

Lemma inter_tab (P1 P2 : nat -> list Z) n1 n2 :
  map (fun a => map (fun b => Qc_of_nat (intersect a b)) (map P2 (seq 0 n2))) (map P1 (seq 0 n1))
  = tab n1 n2 (fun i j => Qc_of_nat (intersect (P1 i) (P2 j))).
Proof. unfold tab. rewrite map_map. apply map_ext. intros i. now rewrite map_map. Qed.

Lemma norm_tab n1 n2 F (idx : nat -> list Z) :
  map (fun p => map (fun x => (x / Qc_of_nat (length (snd p)))%Qc) (fst p))
      (combine (tab n1 n2 F) (map idx (seq 0 n1)))
  = tab n1 n2 (fun i j => (F i j / Qc_of_nat (length (idx i)))%Qc).
Proof.
  unfold tab. rewrite combine_map_same, map_map. apply map_ext. intros i. cbn [fst snd].
  now rewrite map_map.
Qed.

(* ====================================================================== *)
(* main results                                                            *)
(* ====================================================================== *)

(* PRIORITY 1. the code-shaped computation (frame-index lists per state, sorted-merge
   intersection counts, two normalised tables, per-frame sum) equals the
   contingency-table formula *)
Lemma compare_idx_eq_spec n1 n2 f1 f2 sym :
  length f1 = length f2 -> (forall x, In x f1 -> x < n1) -> (forall x, In x f2 -> x < n2) ->
  compare_idx n1 n2 f1 f2 sym = sim_spec n1 n2 (combine f1 f2) sym.
Proof.
  intros Hl H1 H2.
  assert (Hr : in_range n1 n2 (combine f1 f2)).
  { intros [x y] Hp. cbn [fst snd]. split; [apply H1; eapply in_combine_l; exact Hp|apply H2; eapply in_combine_r; exact Hp]. }
  destruct (Nat.eq_dec n1 0) as [->|Hn1].
  - destruct f1 as [|x f1]; [|exfalso; specialize (H1 x (or_introl eq_refl)); lia].
    destruct f2; [|discriminate]. reflexivity.
  - rewrite sim_spec_alt. rewrite combine_length, <- Hl, Nat.min_id.
    unfold compare_idx. cbv zeta. f_equal.
    rewrite inter_tab. rewrite (norm_tab n1 n2 _ (fun s => positions s f1)).
    rewrite transpose_tab by lia. rewrite (norm_tab n2 n1 _ (fun s => positions s f2)).
    unfold dsum. rewrite <- (regroup n1 n2 (G (combine f1 f2) sym) (combine f1 f2) Hr).
    apply qsum_map_ext_in. intros p Hp. destruct (Hr p Hp) as [Hx Hy].
    rewrite !mget_tab by assumption. cbv beta.
    rewrite !intersect_positions by exact Hl. unfold positions.
    rewrite (positions_len_row _ f1 f2 _ Hl), (positions_len_col _ f1 f2 _ Hl).
    unfold G. reflexivity.
Qed.

(* PRIORITY 2. only the multiset of joint frames matters: permuting frames jointly, or
   splitting them into trajectories differently, changes nothing *)
Lemma filter_length_perm {A} (f : A -> bool) l l' : Permutation l l' ->
  length (filter f l) = length (filter f l').
Proof.
  induction 1 as [|x l l' _ IH|x y l|l l' l'' _ IH1 _ IH2].
  - reflexivity.
  - cbn [filter]. destruct (f x); cbn [length]; rewrite IH; reflexivity.
  - cbn [filter]. destruct (f x), (f y); reflexivity.
  - now rewrite IH1.
Qed.

Lemma sim_spec_perm n1 n2 fr fr' sym : Permutation fr fr' -> sim_spec n1 n2 fr sym = sim_spec n1 n2 fr' sym.
Proof.
  intros HP.
  assert (Hij : forall i j, n_ij fr i j = n_ij fr' i j) by (intros; unfold n_ij; apply filter_length_perm; exact HP).
  assert (Hrw : forall i, n_row fr i = n_row fr' i) by (intros; unfold n_row; apply filter_length_perm; exact HP).
  assert (Hcl : forall j, n_col fr j = n_col fr' j) by (intros; unfold n_col; apply filter_length_perm; exact HP).
  rewrite !sim_spec_alt. rewrite (Permutation_length HP). f_equal.
  apply dsum_ext. intros i j _ _. unfold G. rewrite Hij, Hrw, Hcl. reflexivity.
Qed.

(* PRIORITY 3. symmetric >= directed *)
Lemma sim_sym_ge_dir n1 n2 fr : in_range n1 n2 fr ->
  (sim_spec n1 n2 fr false <= sim_spec n1 n2 fr true)%Qc.
Proof.
  intros _. rewrite !sim_spec_alt. unfold Qcdiv.
  apply Qcmult_le_compat_r; [|apply Qc_of_nat_inv_nonneg].
  apply dsum_le. intros i j. rewrite !(Qcmult_comm (Qc_of_nat (n_ij fr i j))).
  apply Qcmult_le_compat_r; [|apply Qc_of_nat_nonneg].
  unfold G. apply Qc_max_r.
Qed.

(* PRIORITY 4. the symmetric value is unchanged when the arguments are swapped *)
Lemma n_ij_swap fr i j : n_ij (map (fun p => (snd p, fst p)) fr) j i = n_ij fr i j.
Proof.
  induction fr as [|[x y] fr IH]; [reflexivity|]. cbn [map fst snd].
  rewrite !n_ij_cons, IH, andb_comm. reflexivity.
Qed.
Lemma n_row_swap fr j : n_row (map (fun p => (snd p, fst p)) fr) j = n_col fr j.
Proof.
  induction fr as [|[x y] fr IH]; [reflexivity|]. cbn [map fst snd].
  rewrite n_row_cons, n_col_cons, IH. reflexivity.
Qed.
Lemma n_col_swap fr i : n_col (map (fun p => (snd p, fst p)) fr) i = n_row fr i.
Proof.
  induction fr as [|[x y] fr IH]; [reflexivity|]. cbn [map fst snd].
  rewrite n_row_cons, n_col_cons, IH. reflexivity.
Qed.

Lemma sim_sym_swap n1 n2 fr :
  sim_spec n1 n2 fr true = sim_spec n2 n1 (map (fun p => (snd p, fst p)) fr) true.
Proof.
  rewrite !sim_spec_alt. rewrite map_length. f_equal.
  rewrite dsum_swap. apply dsum_ext. intros j i _ _.
  unfold G. rewrite n_ij_swap, n_row_swap, n_col_swap. rewrite Qc_max_comm. reflexivity.
Qed.

(* PRIORITY 5. both values lie in [0,1] *)
Lemma sim_spec_01 n1 n2 fr sym : in_range n1 n2 fr -> fr <> [] ->
  (0 <= sim_spec n1 n2 fr sym)%Qc /\ (sim_spec n1 n2 fr sym <= 1)%Qc.
Proof.
  intros Hr Hne. rewrite sim_spec_alt.
  pose proof (Qc_of_nat_len_ne0 fr Hne) as Hn.
  pose proof (Qc_of_nat_inv_nonneg (length fr)) as Hinv.
  set (S := dsum n1 n2 (fun i j => (Qc_of_nat (n_ij fr i j) * G fr sym i j)%Qc)).
  assert (H0 : (0 <= S)%Qc).
  { unfold S, dsum. apply qsum_nonneg. intros i _. apply qsum_nonneg. intros j _. apply term_bounds. }
  assert (H1 : (S <= Qc_of_nat (length fr))%Qc).
  { rewrite <- (sum_n_ij n1 n2 fr Hr). unfold S. apply (dsum_le n1 n2 _ (fun i j => Qc_of_nat (n_ij fr i j))).
    intros i j. apply term_bounds. }
  unfold Qcdiv. split.
  - replace 0%Qc with (0 * / Qc_of_nat (length fr))%Qc by ring. apply Qcmult_le_compat_r; assumption.
  - replace 1%Qc with (Qc_of_nat (length fr) * / Qc_of_nat (length fr))%Qc by (field; exact Hn).
    apply Qcmult_le_compat_r; assumption.
Qed.

(* PRIORITY 6. the directed value is 1 whenever the second labeling refines the first
   (the first label is a function of the second); in particular identical partitions give 1 *)
Lemma sim_refine_dir_one n1 n2 fr (g : nat -> nat) : in_range n1 n2 fr -> fr <> [] ->
  (forall p, In p fr -> fst p = g (snd p)) -> sim_spec n1 n2 fr false = 1%Qc.
Proof.
  intros Hr Hne Hg. apply sim_one; [exact Hr|exact Hne|]. intros i j. apply term_eq_count.
  destruct (Nat.eq_dec i (g j)) as [E|E].
  - right. split; [|discriminate]. unfold n_ij, n_col. f_equal. apply filter_ext_in. intros p Hp.
    destruct (Nat.eqb_spec (snd p) j) as [Ej|Ej]; [|apply andb_false_r].
    rewrite andb_true_r. apply Nat.eqb_eq. rewrite (Hg p Hp), Ej. symmetry. exact E.
  - left. unfold n_ij. rewrite filter_false; [reflexivity|]. intros p Hp.
    destruct (Nat.eqb_spec (snd p) j) as [Ej|Ej]; [|apply andb_false_r].
    rewrite andb_true_r. apply Nat.eqb_neq. rewrite (Hg p Hp), Ej. intros E'. apply E. symmetry. exact E'.
Qed.

(* PRIORITY 7. identical partitions: symmetric value 1 as well *)
Lemma diag_counts f i j :
  (i <> j -> n_ij (map (fun x => (x, x)) f) i j = 0) /\
  n_ij (map (fun x => (x, x)) f) i i = n_row (map (fun x => (x, x)) f) i /\
  n_ij (map (fun x => (x, x)) f) i i = n_col (map (fun x => (x, x)) f) i.
Proof.
  induction f as [|x f [IH1 [IH2 IH3]]]; [repeat split; reflexivity|].
  cbn [map]. rewrite !n_ij_cons, n_row_cons, n_col_cons. repeat split.
  - intros Hne. rewrite (IH1 Hne).
    destruct (Nat.eqb_spec x i), (Nat.eqb_spec x j); cbn [andb]; try reflexivity. subst. contradiction.
  - rewrite IH2. destruct (Nat.eqb x i); reflexivity.
  - rewrite IH3. destruct (Nat.eqb x i); reflexivity.
Qed.

Lemma sim_identical_one n f sym : f <> [] -> (forall x, In x f -> x < n) ->
  sim_spec n n (map (fun x => (x, x)) f) sym = 1%Qc.
Proof.
  intros Hne Hlt. apply sim_one.
  - intros p Hp. apply in_map_iff in Hp. destruct Hp as [x [<- Hx]]. cbn [fst snd]. split; apply Hlt; exact Hx.
  - destruct f; [congruence|discriminate].
  - intros i j. apply term_eq_count. destruct (Nat.eq_dec i j) as [<-|E].
    + right. destruct (diag_counts f i i) as [_ [Hrw Hcl]]. split; [exact Hcl|intros _; exact Hrw].
    + left. apply (diag_counts f i j). exact E.
Qed.
