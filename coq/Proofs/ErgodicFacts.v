(* C14: ergodicity predicates and the transition graph *)
From Coq Require Import List ZArith Arith Bool Lia QArith Qcanon.
From MsmV Require Import Lib.Result Lib.PyList Lib.QMat Model.Ergodic Proofs.QMatFacts.
Import ListNotations.
Local Open Scope nat_scope.

(* ------------------------------------------------------------------ *)
(* helpers: order on Qc                                                *)
(* ------------------------------------------------------------------ *)
Lemma Qc_ltb_iff a b : Qc_ltb a b = true <-> (a < b)%Qc.
Proof.
  unfold Qc_ltb. rewrite negb_true_iff. split.
  - intros H. apply Qcnot_le_lt. intros Hle. unfold Qcle in Hle.
    apply Qle_bool_iff in Hle. congruence.
  - intros H. destruct (Qle_bool b a) eqn:E; [|reflexivity].
    apply Qle_bool_iff in E. exfalso. apply (Qclt_not_le _ _ H). exact E.
Qed.

Lemma Qc_ltb_false_iff a b : Qc_ltb a b = false <-> (b <= a)%Qc.
Proof.
  split.
  - intros H. apply Qcnot_lt_le. intros Hlt. apply Qc_ltb_iff in Hlt. congruence.
  - intros H. destruct (Qc_ltb a b) eqn:E; [|reflexivity].
    apply Qc_ltb_iff in E. exfalso. apply (Qclt_not_le _ _ E). exact H.
Qed.

Lemma Qc_0_lt_1 : (0 < 1)%Qc.
Proof. unfold Qclt, Qlt. cbn. lia. Qed.

Lemma atol8_pos : (0 < atol8)%Qc.
Proof. unfold Qclt, Qlt. cbn. lia. Qed.

Lemma Qclt_irrefl x : ~ (x < x)%Qc.
Proof. intros H. apply (Qclt_not_le _ _ H). apply Qcle_refl. Qed.

Lemma Qcmult_pos_iff a b : (0 <= a)%Qc -> (0 <= b)%Qc ->
  ((0 < a * b)%Qc <-> (0 < a)%Qc /\ (0 < b)%Qc).
Proof.
  intros Ha Hb. split.
  - intros H. split.
    + destruct (Qcle_lt_or_eq _ _ Ha) as [Hlt|Heq]; [exact Hlt|].
      exfalso. rewrite <- Heq in H. rewrite Qcmult_0_l in H. exact (Qclt_irrefl _ H).
    + destruct (Qcle_lt_or_eq _ _ Hb) as [Hlt|Heq]; [exact Hlt|].
      exfalso. rewrite <- Heq in H. rewrite Qcmult_0_r in H. exact (Qclt_irrefl _ H).
  - intros [Hpa Hpb]. rewrite <- (Qcmult_0_l b).
    apply Qcmult_lt_compat_r; assumption.
Qed.

Lemma In_le_qsum l x : (forall y, In y l -> (0 <= y)%Qc) -> In x l -> (x <= qsum l)%Qc.
Proof.
  intros Hnn Hin. destruct (In_nth l x 0%Qc Hin) as [j [Hj Hx]].
  rewrite <- Hx. apply nth_le_qsum; assumption.
Qed.

Lemma qsum_pos_iff l : (forall x, In x l -> (0 <= x)%Qc) ->
  ((0 < qsum l)%Qc <-> exists x, In x l /\ (0 < x)%Qc).
Proof.
  intros Hnn. split.
  - induction l as [|x l IH]; intros H.
    + rewrite qsum_nil in H. exfalso. exact (Qclt_irrefl _ H).
    + assert (Hx : (0 <= x)%Qc) by (apply Hnn; left; reflexivity).
      destruct (Qcle_lt_or_eq _ _ Hx) as [Hlt|Heq].
      * exists x. split; [left; reflexivity|exact Hlt].
      * rewrite qsum_cons, <- Heq, Qcplus_0_l in H.
        destruct IH as [y [Hy Hpy]].
        -- intros y Hy. apply Hnn. right; exact Hy.
        -- exact H.
        -- exists y. split; [right; exact Hy|exact Hpy].
  - intros [x [Hin Hpx]]. eapply Qclt_le_trans; [exact Hpx|].
    apply In_le_qsum; assumption.
Qed.

(* ------------------------------------------------------------------ *)
(* helpers: entries and the support graph                              *)
(* ------------------------------------------------------------------ *)
Lemma mget_In n m M i j : wf n m M -> i < n -> j < m ->
  In (nth i M []) M /\ In (mget M i j) (nth i M []).
Proof.
  intros HM Hi Hj. split.
  - apply nth_In. rewrite (wf_length _ _ _ HM). exact Hi.
  - unfold mget. apply nth_In. rewrite (wf_row _ _ _ _ HM Hi). exact Hj.
Qed.

Lemma mget_nonneg n m M i j : wf n m M -> entries_nonneg M -> i < n -> j < m ->
  (0 <= mget M i j)%Qc.
Proof.
  intros HM NM Hi Hj. destruct (mget_In n m M i j HM Hi Hj) as [H1 H2].
  exact (NM _ _ H1 H2).
Qed.

Lemma length_supp M : length (supp M) = length M.
Proof. unfold supp. apply map_length. Qed.

Lemma bget_supp n m M i j : wf n m M -> i < n -> j < m ->
  bget (supp M) i j = Qc_ltb 0 (mget M i j).
Proof.
  intros HM Hi Hj. unfold bget, supp, mget.
  rewrite (nth_map_lt (map (fun x => Qc_ltb 0 x)) M i [] [])
    by (rewrite (wf_length _ _ _ HM); exact Hi).
  apply (nth_map_lt (fun x => Qc_ltb 0 x) (nth i M []) j false 0%Qc).
  rewrite (wf_row _ _ _ _ HM Hi). exact Hj.
Qed.

Lemma entries_nonneg_mpow n M k : 0 < n -> wf n n M -> entries_nonneg M ->
  entries_nonneg (mpow M k).
Proof.
  intros Hn HM NM. induction k as [|k IH]; cbn [mpow].
  - apply entries_nonneg_identity.
  - apply (entries_nonneg_mmul n n n); try assumption. apply wf_mpow; assumption.
Qed.

(* PRIORITY 1. for a non-negative matrix, an entry of the k-th power is positive
   exactly when the support graph has a walk of length k *)
Lemma pos_pow_iff_walk n M k i j : 0 < n -> wf n n M -> entries_nonneg M -> i < n -> j < n ->
  ((0 < mget (mpow M k) i j)%Qc <-> walk (supp M) k i j).
Proof.
  intros Hn HM NM Hi Hj. revert i Hi.
  induction k as [|k IH]; intros i Hi.
  - cbn [mpow walk]. rewrite (wf_length _ _ _ HM), length_supp, (wf_length _ _ _ HM).
    rewrite (mget_identity n i j Hi Hj).
    destruct (Nat.eqb_spec i j) as [E|E].
    + split; [intros _; split; assumption|intros _; exact Qc_0_lt_1].
    + split; [intros H; exfalso; exact (Qclt_irrefl _ H)|intros [H _]; contradiction].
  - assert (HP : wf n n (mpow M k)) by (apply wf_mpow; assumption).
    assert (NP : entries_nonneg (mpow M k)) by (apply (entries_nonneg_mpow n); assumption).
    cbn [mpow walk]. rewrite length_supp, (wf_length _ _ _ HM).
    rewrite (mget_mmul n n n M (mpow M k) i j Hn HM HP Hi Hj).
    rewrite qsum_pos_iff.
    + split.
      * intros [x [Hin Hpx]]. apply in_map_iff in Hin. destruct Hin as [m [<- Hm]].
        apply in_seq in Hm. assert (Hm' : m < n) by lia.
        apply Qcmult_pos_iff in Hpx;
          [|apply (mget_nonneg n n); assumption|apply (mget_nonneg n n); assumption].
        destruct Hpx as [H1 H2]. exists m. split; [exact Hm'|]. split.
        -- rewrite (bget_supp n n M i m HM Hi Hm'). apply Qc_ltb_iff. exact H1.
        -- apply IH; assumption.
      * intros [m [Hm [Hb Hw]]].
        exists (mget M i m * mget (mpow M k) m j)%Qc. split.
        -- apply in_map_iff. exists m. split; [reflexivity|]. apply in_seq. lia.
        -- apply Qcmult_pos_iff;
             [apply (mget_nonneg n n); assumption|apply (mget_nonneg n n); assumption|].
           split.
           ++ rewrite (bget_supp n n M i m HM Hi Hm) in Hb. apply Qc_ltb_iff. exact Hb.
           ++ apply IH; assumption.
    + intros x Hin. apply in_map_iff in Hin. destruct Hin as [m [<- Hm]].
      apply in_seq in Hm.
      apply Qcmult_nonneg; apply (mget_nonneg n n); try assumption; lia.
Qed.

(* PRIORITY 2. the coded predicate, with the power written as the plain recursion *)
Lemma is_ergodic_unfold n M : 0 < n -> wf n n M ->
  is_ergodic atol8 M = is_tmat atol8 M && all_entries (fun x => Qc_ltb atol8 x) (mpow M (wexp n)).
Proof.
  intros Hn HM. unfold is_ergodic.
  rewrite (wf_length _ _ _ HM), (mpow_scaled_eq n M _ Hn HM). reflexivity.
Qed.

Lemma all_entries_mget p n m P i j : wf n m P -> all_entries p P = true -> i < n -> j < m ->
  p (mget P i j) = true.
Proof.
  intros HP H Hi Hj. destruct (mget_In n m P i j HP Hi Hj) as [H1 H2].
  unfold all_entries in H. rewrite forallb_forall in H.
  specialize (H _ H1). rewrite forallb_forall in H. exact (H _ H2).
Qed.

Lemma wexp_pos n : 1 <= wexp n.
Proof. unfold wexp. generalize ((n - 1) * (n - 1)). intros x. lia. Qed.

(* a row summing to one has a positive entry *)
Lemma row_has_edge n M i : wf n n M -> entries_nonneg M -> rows_sum_one M -> i < n ->
  exists m, m < n /\ bget (supp M) i m = true.
Proof.
  intros HM NM SM Hi.
  assert (Hin : In (nth i M []) M) by (apply nth_In; rewrite (wf_length _ _ _ HM); exact Hi).
  assert (Hpos : (0 < qsum (nth i M []))%Qc) by (rewrite (SM _ Hin); exact Qc_0_lt_1).
  apply qsum_pos_iff in Hpos; [|intros x Hx; exact (NM _ _ Hin Hx)].
  destruct Hpos as [x [Hx Hpx]].
  destruct (In_nth _ _ 0%Qc Hx) as [m [Hm Hnth]].
  rewrite (wf_row _ _ _ _ HM Hi) in Hm.
  exists m. split; [exact Hm|].
  rewrite (bget_supp n n M i m HM Hi Hm). apply Qc_ltb_iff.
  unfold mget. rewrite Hnth. exact Hpx.
Qed.

(* PRIORITY 3. soundness: a matrix reported ergodic has a strongly connected,
   aperiodic (indeed primitive) transition graph *)
Lemma ergodic_sound n M : 0 < n -> wf n n M -> entries_nonneg M -> rows_sum_one M ->
  is_ergodic atol8 M = true ->
  strongly_connected (supp M) /\ aperiodic (supp M) /\ primitive (supp M).
Proof.
  intros Hn HM NM SM He.
  rewrite (is_ergodic_unfold n M Hn HM) in He. apply andb_true_iff in He.
  destruct He as [_ Hall].
  assert (HP : wf n n (mpow M (wexp n))) by (apply wf_mpow; assumption).
  assert (Hw : forall i j, i < n -> j < n -> walk (supp M) (wexp n) i j).
  { intros i j Hi Hj. apply (pos_pow_iff_walk n M (wexp n) i j Hn HM NM Hi Hj).
    assert (H := all_entries_mget _ n n _ i j HP Hall Hi Hj). cbv beta in H.
    apply Qc_ltb_iff in H. eapply Qclt_trans; [exact atol8_pos|exact H]. }
  assert (Hlen : length (supp M) = n) by (rewrite length_supp; apply (wf_length _ _ _ HM)).
  split; [|split].
  - intros i j Hi Hj. rewrite Hlen in Hi, Hj. exists (wexp n). apply Hw; assumption.
  - intros d Hd.
    assert (H1 : Nat.divide d (wexp n)).
    { apply (Hd 0 (wexp n)); [rewrite Hlen; exact Hn|apply wexp_pos|apply Hw; assumption]. }
    assert (H2 : Nat.divide d (S (wexp n))).
    { apply (Hd 0 (S (wexp n))); [rewrite Hlen; exact Hn|lia|].
      destruct (row_has_edge n M 0 HM NM SM Hn) as [m [Hm Hb]].
      cbn [walk]. exists m. rewrite Hlen. split; [exact Hm|]. split; [exact Hb|].
      apply Hw; assumption. }
    assert (H3 : Nat.divide d 1).
    { replace 1 with (S (wexp n) - wexp n) by lia. apply Nat.divide_sub_r; assumption. }
    apply Nat.divide_1_r in H3. exact H3.
  - exists (wexp n). split; [apply wexp_pos|].
    intros i j Hi Hj. rewrite Hlen in Hi, Hj. apply Hw; assumption.
Qed.

(* PRIORITY 4. every ergodic matrix is fuzzy-ergodic; a non-stochastic one is neither *)
Lemma ergodic_implies_fuzzy M : is_ergodic atol8 M = true -> is_fuzzy_ergodic atol8 M = true.
Proof.
  unfold is_ergodic, is_fuzzy_ergodic. intros H. apply andb_true_iff in H.
  destruct H as [Ht Hall]. rewrite Ht. cbn [andb]. cbv zeta.
  unfold all_entries in Hall. rewrite forallb_forall in Hall.
  apply forallb_forall. intros [t row] Hin. cbn [fst snd].
  apply in_combine_r in Hin. specialize (Hall _ Hin). rewrite forallb_forall in Hall.
  apply forallb_forall. intros [t' x] Hin'. cbn [fst snd].
  apply in_combine_r in Hin'. specialize (Hall _ Hin').
  apply Qc_ltb_iff in Hall.
  assert (Hx : Qc_ltb 0 x = true).
  { apply Qc_ltb_iff. eapply Qclt_trans; [exact atol8_pos|exact Hall]. }
  rewrite Hx. reflexivity.
Qed.
Lemma nonstochastic_neither M : is_tmat atol8 M = false ->
  is_ergodic atol8 M = false /\ is_fuzzy_ergodic atol8 M = false /\ ergodic_mask atol8 M = Err ValueError.
Proof.
  intros H. unfold is_ergodic, is_fuzzy_ergodic, ergodic_mask. rewrite H.
  split; [reflexivity|]. split; reflexivity.
Qed.

(* PRIORITY 5. when no entry of the power lies in (0, atol] the threshold does not decide *)
Lemma forallb_ext_in {A} (f g : A -> bool) l :
  (forall x, In x l -> f x = g x) -> forallb f l = forallb g l.
Proof.
  induction l as [|x l IH]; intros H; cbn [forallb]; [reflexivity|].
  rewrite (H x) by (left; reflexivity). f_equal.
  apply IH. intros y Hy. apply H. right; exact Hy.
Qed.

Lemma atol_free_eq (P : mat) :
  (forall r x, In r P -> In x r -> x = 0%Qc \/ (atol8 < x)%Qc) ->
  all_entries (fun x => Qc_ltb atol8 x) P = all_entries (fun x => Qc_ltb 0 x) P.
Proof.
  intros H. unfold all_entries. apply forallb_ext_in. intros r Hr.
  apply forallb_ext_in. intros x Hx.
  destruct (H r x Hr Hx) as [->|Hlt].
  - transitivity false; [|symmetry].
    + apply Qc_ltb_false_iff. apply Qclt_le_weak. exact atol8_pos.
    + apply Qc_ltb_false_iff. apply Qcle_refl.
  - transitivity true; [|symmetry].
    + apply Qc_ltb_iff. exact Hlt.
    + apply Qc_ltb_iff. eapply Qclt_trans; [exact atol8_pos|exact Hlt].
Qed.

(* PRIORITY 6. boolean powers characterise walks *)
Definition bwf (n : nat) (G : bmat) : Prop := length G = n /\ forall r, In r G -> length r = n.

Lemma bwf_row n G i : bwf n G -> i < n -> length (nth i G []) = n.
Proof. intros [Hl Hr] Hi. apply Hr, nth_In. lia. Qed.

Lemma bwf_bident n : bwf n (bident n).
Proof.
  split.
  - unfold bident. rewrite map_length, seq_length. reflexivity.
  - intros r Hr. unfold bident in Hr. apply in_map_iff in Hr.
    destruct Hr as [i [<- _]]. rewrite map_length, seq_length. reflexivity.
Qed.

Lemma bget_bident n i j : i < n -> j < n -> bget (bident n) i j = Nat.eqb i j.
Proof.
  intros Hi Hj. unfold bget, bident.
  rewrite (nth_map_seq _ n i [] Hi).
  rewrite (nth_map_seq _ n j false Hj). reflexivity.
Qed.

Lemma bwf_bmul n A B : bwf n A -> bwf n B -> bwf n (bmul A B).
Proof.
  intros [HlA HrA] [HlB HrB]. split.
  - unfold bmul. rewrite map_length. exact HlA.
  - intros r Hr. unfold bmul in Hr. apply in_map_iff in Hr.
    destruct Hr as [r' [<- _]]. rewrite map_length, seq_length. exact HlB.
Qed.

Lemma bget_bmul n A B i j : bwf n A -> bwf n B -> i < n -> j < n ->
  bget (bmul A B) i j = existsb (fun k => bget A i k && bget B k j) (seq 0 n).
Proof.
  intros [HlA HrA] [HlB HrB] Hi Hj. unfold bget at 1. unfold bmul.
  rewrite (nth_map_lt (fun r => map (fun j => existsb (fun k => nth k r false && bget B k j)
                                       (seq 0 (length B))) (seq 0 (length B))) A i [] [])
    by lia.
  rewrite HlB. rewrite (nth_map_seq _ n j false Hj). reflexivity.
Qed.

Lemma bwf_bpow n G k : bwf n G -> bwf n (bpow G k).
Proof.
  intros HG. induction k as [|k IH]; cbn [bpow].
  - rewrite (proj1 HG). apply bwf_bident.
  - apply bwf_bmul; assumption.
Qed.

Lemma bpow_walk n G k i j : bwf n G -> i < n -> j < n -> (bget (bpow G k) i j = true <-> walk G k i j).
Proof.
  intros HG Hi Hj. revert i Hi. induction k as [|k IH]; intros i Hi.
  - cbn [bpow walk]. rewrite (proj1 HG). rewrite (bget_bident n i j Hi Hj).
    rewrite Nat.eqb_eq. split; [intros H; split; assumption|intros [H _]; exact H].
  - cbn [bpow walk]. rewrite (proj1 HG).
    rewrite (bget_bmul n G (bpow G k) i j HG (bwf_bpow n G k HG) Hi Hj).
    rewrite existsb_exists. split.
    + intros [m [Hm Hb]]. apply in_seq in Hm. apply andb_true_iff in Hb.
      destruct Hb as [H1 H2]. exists m. split; [lia|]. split; [exact H1|].
      apply IH; [lia|exact H2].
    + intros [m [Hm [H1 H2]]]. exists m. split; [apply in_seq; lia|].
      apply andb_true_iff. split; [exact H1|]. apply IH; assumption.
Qed.

(* PRIORITY 7. once all walks of length k exist they exist for every larger length
   (every vertex then has an out-edge) *)
Lemma walks_monotone n G k : bwf n G -> 1 <= k ->
  (forall i j, i < n -> j < n -> walk G k i j) ->
  forall k', k <= k' -> forall i j, i < n -> j < n -> walk G k' i j.
Proof.
  intros HG Hk Hw.
  assert (Hedge : forall i, i < n -> exists m, m < n /\ bget G i m = true).
  { intros i Hi. specialize (Hw i i Hi Hi). destruct k as [|k]; [lia|].
    cbn [walk] in Hw. destruct Hw as [m [Hm [Hb _]]]. rewrite (proj1 HG) in Hm.
    exists m. split; assumption. }
  intros k' Hk'. induction Hk' as [|k' Hle IH]; intros i j Hi Hj.
  - apply Hw; assumption.
  - destruct (Hedge i Hi) as [m [Hm Hb]]. cbn [walk]. exists m.
    rewrite (proj1 HG). split; [exact Hm|]. split; [exact Hb|]. apply IH; assumption.
Qed.

(* PRIORITY 8. completeness in the regime of metastable models: a graph that is
   connected in the sense of the lazy closure (I or G)^(n-1) and has at least one
   self-loop has walks of every length >= 2(n-1) between all vertices; note
   2(n-1) <= (n-1)^2+1 *)
Lemma bwf_bor n A B : bwf n A -> bwf n B -> bwf n (bor A B).
Proof.
  intros [HlA HrA] [HlB HrB]. split.
  - unfold bor. rewrite map_length, combine_length. lia.
  - intros r Hr. unfold bor in Hr. apply in_map_iff in Hr.
    destruct Hr as [[a b] [<- Hin]]. cbn [fst snd].
    rewrite map_length, combine_length.
    rewrite (HrA a (in_combine_l _ _ _ _ Hin)), (HrB b (in_combine_r _ _ _ _ Hin)). lia.
Qed.

Lemma combine_nth_lt {A B} (l1 : list A) (l2 : list B) i da db :
  i < length l1 -> i < length l2 ->
  nth i (combine l1 l2) (da, db) = (nth i l1 da, nth i l2 db).
Proof.
  revert l2 i. induction l1 as [|a l1 IH]; intros l2 i H1 H2; cbn [length] in H1; [lia|].
  destruct l2 as [|b l2]; cbn [length] in H2; [lia|].
  destruct i as [|i]; cbn [combine nth]; [reflexivity|]. apply IH; lia.
Qed.

Lemma nth_map_combine {A B C} (f : A * B -> C) (l1 : list A) (l2 : list B) i dc da db :
  i < length l1 -> i < length l2 ->
  nth i (map f (combine l1 l2)) dc = f (nth i l1 da, nth i l2 db).
Proof.
  intros H1 H2.
  rewrite (nth_map_lt f (combine l1 l2) i dc (da, db)) by (rewrite combine_length; lia).
  rewrite combine_nth_lt by assumption. reflexivity.
Qed.

Lemma bget_bor n A B i j : bwf n A -> bwf n B -> i < n -> j < n ->
  bget (bor A B) i j = bget A i j || bget B i j.
Proof.
  intros HA HB Hi Hj. unfold bget, bor.
  rewrite (nth_map_combine _ A B i [] [] []) by (rewrite ?(proj1 HA), ?(proj1 HB); exact Hi).
  cbn [fst snd].
  rewrite (nth_map_combine _ (nth i A []) (nth i B []) j false false false)
    by (rewrite ?(bwf_row n A i HA Hi), ?(bwf_row n B i HB Hi); exact Hj).
  reflexivity.
Qed.

Lemma ball_bget n B i j : bwf n B -> ball B = true -> i < n -> j < n -> bget B i j = true.
Proof.
  intros HB H Hi Hj. unfold ball in H. rewrite forallb_forall in H.
  assert (Hin : In (nth i B []) B) by (apply nth_In; rewrite (proj1 HB); exact Hi).
  specialize (H _ Hin). rewrite forallb_forall in H. unfold bget. apply H.
  apply nth_In. rewrite (bwf_row n B i HB Hi). exact Hj.
Qed.

(* a walk in the lazy graph (I or G) shortens to a walk in G *)
Lemma walk_lazy n G k : bwf n G -> forall i j, i < n ->
  walk (bor (bident n) G) k i j -> exists a, a <= k /\ walk G a i j.
Proof.
  intros HG.
  assert (HH : bwf n (bor (bident n) G)) by (apply bwf_bor; [apply bwf_bident|exact HG]).
  induction k as [|k IH]; intros i j Hi Hw.
  - cbn [walk] in Hw. destruct Hw as [E _]. exists 0. split; [lia|].
    cbn [walk]. split; [exact E|rewrite (proj1 HG); exact Hi].
  - cbn [walk] in Hw. destruct Hw as [m [Hm [Hb Hw]]]. rewrite (proj1 HH) in Hm.
    destruct (IH m j Hm Hw) as [a [Ha Hwa]].
    rewrite (bget_bor n (bident n) G i m (bwf_bident n) HG Hi Hm) in Hb.
    rewrite (bget_bident n i m Hi Hm) in Hb.
    apply orb_true_iff in Hb. destruct Hb as [Hb|Hb].
    + apply Nat.eqb_eq in Hb. subst m. exists a. split; [lia|exact Hwa].
    + exists (S a). split; [lia|]. cbn [walk]. exists m. rewrite (proj1 HG).
      split; [exact Hm|]. split; assumption.
Qed.

Lemma walk_app G a b i v j : walk G a i v -> walk G b v j -> walk G (a + b) i j.
Proof.
  revert i. induction a as [|a IH]; intros i Ha Hb.
  - cbn [walk] in Ha. destruct Ha as [E _]. subst v. exact Hb.
  - cbn [walk] in Ha. destruct Ha as [m [Hm [Hbm Hw]]].
    cbn [plus walk]. exists m. split; [exact Hm|]. split; [exact Hbm|].
    apply IH; assumption.
Qed.

Lemma walk_loop G v c : v < length G -> bget G v v = true -> walk G c v v.
Proof.
  intros Hv Hl. induction c as [|c IH]; cbn [walk].
  - split; [reflexivity|exact Hv].
  - exists v. split; [exact Hv|]. split; [exact Hl|exact IH].
Qed.

Lemma complete_with_loop n G v : bwf n G -> graph_connected G = true -> v < n -> bget G v v = true ->
  forall k, 2 * (n - 1) <= k -> forall i j, i < n -> j < n -> walk G k i j.
Proof.
  intros HG Hc Hv Hl k Hk i j Hi Hj.
  unfold graph_connected in Hc. rewrite (proj1 HG) in Hc.
  assert (HH : bwf n (bor (bident n) G)) by (apply bwf_bor; [apply bwf_bident|exact HG]).
  assert (HP : bwf n (bpow (bor (bident n) G) (n - 1))) by (apply bwf_bpow; exact HH).
  assert (Hreach : forall x y, x < n -> y < n -> exists a, a <= n - 1 /\ walk G a x y).
  { intros x y Hx Hy. apply (walk_lazy n G (n - 1) HG x y Hx).
    apply (bpow_walk n _ (n - 1) x y HH Hx Hy).
    apply (ball_bget n); assumption. }
  destruct (Hreach i v Hi Hv) as [a [Ha Hwa]].
  destruct (Hreach v j Hv Hj) as [b [Hb Hwb]].
  replace k with (a + ((k - a - b) + b)) by lia.
  apply (walk_app G a _ i v j Hwa).
  apply (walk_app G _ b v v j); [|exact Hwb].
  apply walk_loop; [rewrite (proj1 HG); exact Hv|exact Hl].
Qed.
Lemma wexp_ge n : 1 <= n -> 2 * (n - 1) <= wexp n.
Proof.
  intros _. unfold wexp. generalize (n - 1). intros m.
  destruct m as [|[|m]]; [lia|lia|nia].
Qed.
