(* C04: uniqueness of the stationary probability vector of a primitive stochastic matrix *)
From Coq Require Import List ZArith Arith Bool Lia QArith Qcanon.
From MsmV Require Import Lib.Result Lib.PyList Lib.QMat Model.Ergodic Proofs.QMatFacts Proofs.HSFacts Proofs.ErgodicFacts.
Import ListNotations.
Local Open Scope nat_scope.

(* a vector stationary for T is stationary for every power of T *)
Lemma stationary_mpow n T v k : 0 < n -> wf n n T -> length v = n -> vmul v T = v -> vmul v (mpow T k) = v.
Proof.
  intros Hn HT Hv Hs. induction k as [|k IH]; cbn [mpow].
  - rewrite (wf_length _ _ _ HT). apply vmul_identity; assumption.
  - rewrite (vmul_mmul n n n v T (mpow T k) Hn Hn Hv HT (wf_mpow n T k Hn HT)).
    rewrite Hs. exact IH.
Qed.

(* ------------------------------------------------------------------ *)
(* helpers: order facts on Qc and finite sums                          *)
(* ------------------------------------------------------------------ *)
Lemma Qc_0_lt_1 : (0 < 1)%Qc.
Proof. reflexivity. Qed.

Lemma Qc_pos_neq0 x : (0 < x)%Qc -> x <> 0%Qc.
Proof. intros Hx E. apply Qclt_not_eq in Hx. apply Hx. symmetry. exact E. Qed.

Lemma Qcmult_pos x y : (0 < x)%Qc -> (0 < y)%Qc -> (0 < x * y)%Qc.
Proof.
  intros Hx Hy. replace 0%Qc with (0 * y)%Qc by ring.
  apply Qcmult_lt_compat_r; assumption.
Qed.

Lemma Qcplus_pos_nonneg x y : (0 < x)%Qc -> (0 <= y)%Qc -> (0 < x + y)%Qc.
Proof.
  intros Hx Hy. apply Qclt_le_trans with x; [exact Hx|].
  assert (H : (x + 0 <= x + y)%Qc) by (apply Qcplus_le_compat; [apply Qcle_refl|exact Hy]).
  rewrite Qcplus_0_r in H. exact H.
Qed.

(* a sum of non-negative terms one of which is positive is positive *)
Lemma qsum_pos l : (forall x, In x l -> (0 <= x)%Qc) -> (exists x, In x l /\ (0 < x)%Qc) ->
  (0 < qsum l)%Qc.
Proof.
  induction l as [|a l IH]; intros Hnn [x [Hin Hx]]; [destruct Hin|].
  rewrite qsum_cons. destruct Hin as [->|Hin].
  - apply Qcplus_pos_nonneg; [exact Hx|].
    apply qsum_nonneg. intros y Hy. apply Hnn. right; exact Hy.
  - rewrite Qcplus_comm. apply Qcplus_pos_nonneg.
    + apply IH; [intros y Hy; apply Hnn; right; exact Hy|].
      exists x. split; assumption.
    + apply Hnn. left; reflexivity.
Qed.

(* a positive sum of non-negative terms has a positive term *)
Lemma qsum_pos_inv l : (forall x, In x l -> (0 <= x)%Qc) -> (0 < qsum l)%Qc ->
  exists x, In x l /\ (0 < x)%Qc.
Proof.
  induction l as [|a l IH]; intros Hnn Hs.
  - rewrite qsum_nil in Hs. apply Qclt_not_eq in Hs. exfalso. apply Hs. reflexivity.
  - destruct (Qclt_le_dec 0 a) as [Ha|Ha].
    + exists a. split; [left; reflexivity|exact Ha].
    + assert (Ea : a = 0%Qc).
      { apply Qcle_antisym; [exact Ha|]. apply Hnn. left; reflexivity. }
      rewrite qsum_cons, Ea, Qcplus_0_l in Hs.
      destruct IH as [x [Hin Hx]]; [intros y Hy; apply Hnn; right; exact Hy|exact Hs|].
      exists x. split; [right; exact Hin|exact Hx].
Qed.

(* a non-empty finite family of rationals has a minimum *)
Lemma min_exists (r : nat -> Qc) n : 0 < n ->
  exists i0, i0 < n /\ forall i, i < n -> (r i0 <= r i)%Qc.
Proof.
  induction n as [|n IH]; intros Hn; [lia|].
  destruct (Nat.eq_dec n 0) as [->|Hne].
  - exists 0. split; [lia|]. intros i Hi. replace i with 0 by lia. apply Qcle_refl.
  - destruct IH as [i0 [Hi0 Hmin]]; [lia|].
    destruct (Qclt_le_dec (r n) (r i0)) as [Hlt|Hle].
    + exists n. split; [lia|]. intros i Hi.
      destruct (Nat.eq_dec i n) as [->|Hin]; [apply Qcle_refl|].
      apply Qcle_trans with (r i0); [apply Qclt_le_weak; exact Hlt|].
      apply Hmin. lia.
    + exists i0. split; [lia|]. intros i Hi.
      destruct (Nat.eq_dec i n) as [->|Hin]; [exact Hle|].
      apply Hmin. lia.
Qed.

(* ------------------------------------------------------------------ *)
(* helpers: the vector  v - c w  and linearity of vmul                  *)
(* ------------------------------------------------------------------ *)
Definition vlin (n : nat) (v w : vec) (c : Qc) : vec :=
  map (fun i => (nth i v 0 - c * nth i w 0)%Qc) (seq 0 n).

Lemma length_vlin n v w c : length (vlin n v w c) = n.
Proof. unfold vlin. rewrite map_length, seq_length. reflexivity. Qed.

Lemma nth_vlin n v w c i : i < n ->
  nth i (vlin n v w c) 0%Qc = (nth i v 0 - c * nth i w 0)%Qc.
Proof.
  intros Hi. unfold vlin.
  exact (nth_map_seq (fun k => (nth k v 0 - c * nth k w 0)%Qc) n i 0%Qc Hi).
Qed.

Lemma vmul_vlin n P v w c : 0 < n -> wf n n P -> length v = n -> length w = n ->
  vmul (vlin n v w c) P = vlin n (vmul v P) (vmul w P) c.
Proof.
  intros Hn HP Hv Hw. apply (vec_ext n).
  - apply (length_vmul n n); assumption.
  - apply length_vlin.
  - intros j Hj.
    rewrite (nth_vmul n n _ P j Hn (length_vlin n v w c) HP Hj).
    rewrite (nth_vlin n _ _ c j Hj).
    rewrite (nth_vmul n n v P j Hn Hv HP Hj), (nth_vmul n n w P j Hn Hw HP Hj).
    rewrite <- qsum_map_scale_l, <- qsum_map_minus.
    apply qsum_map_ext. intros i Hi. apply in_seq in Hi.
    rewrite nth_vlin by lia. ring.
Qed.

(* a non-negative, non-zero vector times an entrywise positive matrix is entrywise positive *)
Lemma vmul_positive n P v : 0 < n -> wf n n P -> length v = n ->
  (forall i j, i < n -> j < n -> (0 < mget P i j)%Qc) ->
  (forall x, In x v -> (0 <= x)%Qc) -> (exists x, In x v /\ (0 < x)%Qc) ->
  forall j, j < n -> (0 < nth j (vmul v P) 0)%Qc.
Proof.
  intros Hn HP Hv Hpos Hnn [x [Hin Hx]] j Hj.
  rewrite (nth_vmul n n v P j Hn Hv HP Hj).
  apply qsum_pos.
  - intros y Hy. apply in_map_iff in Hy. destruct Hy as [i [<- Hi]]. apply in_seq in Hi.
    apply Qcmult_nonneg.
    + apply Hnn. apply nth_In. lia.
    + apply Qclt_le_weak. apply Hpos; lia.
  - destruct (In_nth v x 0%Qc Hin) as [i [Hi Hxi]].
    exists (nth i v 0 * mget P i j)%Qc. split.
    + apply in_map_iff. exists i. split; [reflexivity|apply in_seq; lia].
    + apply Qcmult_pos; [rewrite Hxi; exact Hx|apply Hpos; lia].
Qed.

(* a stationary probability vector of an entrywise positive matrix is entrywise positive *)
Lemma stationary_positive n P w : 0 < n -> wf n n P -> length w = n ->
  (forall i j, i < n -> j < n -> (0 < mget P i j)%Qc) ->
  (forall x, In x w -> (0 <= x)%Qc) -> qsum w = 1%Qc -> vmul w P = w ->
  forall i, i < n -> (0 < nth i w 0)%Qc.
Proof.
  intros Hn HP Hw Hpos Hwn Sw Ew i Hi.
  rewrite <- Ew. apply (vmul_positive n P w); try assumption.
  apply qsum_pos_inv; [exact Hwn|]. rewrite Sw. exact Qc_0_lt_1.
Qed.

(* uniqueness for an entrywise positive stochastic matrix *)
Lemma stationary_unique_positive n P v w : 0 < n -> wf n n P -> length v = n -> length w = n ->
  (forall i j, i < n -> j < n -> (0 < mget P i j)%Qc) ->
  (forall x, In x v -> (0 <= x)%Qc) -> (forall x, In x w -> (0 <= x)%Qc) ->
  qsum v = 1%Qc -> qsum w = 1%Qc -> vmul v P = v -> vmul w P = w -> v = w.
Proof.
  intros Hn HP Hv Hw Hpos Hvn Hwn Sv Sw Ev Ew.
  assert (Hwpos : forall i, i < n -> (0 < nth i w 0)%Qc)
    by (apply (stationary_positive n P w); assumption).
  destruct (min_exists (fun i => (nth i v 0 / nth i w 0)%Qc) n Hn) as [i0 [Hi0 Hmin]].
  cbv beta in Hmin.
  set (c := (nth i0 v 0 / nth i0 w 0)%Qc) in *.
  set (u := vlin n v w c).
  assert (Hlu : length u = n) by apply length_vlin.
  assert (Hu_nn : forall i, i < n -> (0 <= nth i u 0)%Qc).
  { intros i Hi. unfold u. rewrite nth_vlin by exact Hi.
    pose proof (Qcmult_le_compat_r _ _ (nth i w 0%Qc) (Hmin i Hi)
                  (Qclt_le_weak _ _ (Hwpos i Hi))) as H.
    replace (nth i v 0 / nth i w 0 * nth i w 0)%Qc with (nth i v 0%Qc) in H
      by (field; apply Qc_pos_neq0, Hwpos, Hi).
    apply Qcle_minus_iff in H. exact H. }
  assert (Hu0 : nth i0 u 0%Qc = 0%Qc).
  { unfold u. rewrite nth_vlin by exact Hi0. unfold c. field.
    apply Qc_pos_neq0, Hwpos, Hi0. }
  assert (EuP : vmul u P = u).
  { unfold u. rewrite (vmul_vlin n P v w c Hn HP Hv Hw), Ev, Ew. reflexivity. }
  assert (Hu_in : forall x, In x u -> (0 <= x)%Qc).
  { intros x Hx. destruct (In_nth u x 0%Qc Hx) as [i [Hi <-]]. apply Hu_nn. lia. }
  assert (Hnone : ~ exists x, In x u /\ (0 < x)%Qc).
  { intros Hex.
    pose proof (vmul_positive n P u Hn HP Hlu Hpos Hu_in Hex i0 Hi0) as H.
    rewrite EuP, Hu0 in H. apply Qclt_not_eq in H. apply H. reflexivity. }
  assert (Hu_zero : forall i, i < n -> nth i u 0%Qc = 0%Qc).
  { intros i Hi. destruct (Qclt_le_dec 0 (nth i u 0%Qc)) as [Hp|Hle].
    - exfalso. apply Hnone. exists (nth i u 0%Qc). split; [apply nth_In; lia|exact Hp].
    - apply Qcle_antisym; [exact Hle|apply Hu_nn; exact Hi]. }
  assert (Hvc : forall i, i < n -> nth i v 0%Qc = (c * nth i w 0)%Qc).
  { intros i Hi. pose proof (Hu_zero i Hi) as H. unfold u in H.
    rewrite nth_vlin in H by exact Hi.
    transitivity ((nth i v 0 - c * nth i w 0) + c * nth i w 0)%Qc; [ring|].
    rewrite H. ring. }
  assert (Hc : c = 1%Qc).
  { assert (E : qsum v = (c * qsum w)%Qc).
    { rewrite (qsum_nth_seq v n Hv), (qsum_nth_seq w n Hw), <- qsum_map_scale_l.
      apply qsum_map_ext. intros i Hi. apply in_seq in Hi. apply Hvc. lia. }
    rewrite Sv, Sw in E. transitivity (c * 1)%Qc; [ring|symmetry; exact E]. }
  apply (vec_ext n); [exact Hv|exact Hw|].
  intros i Hi. rewrite (Hvc i Hi), Hc. ring.
Qed.

(* the statement used by C04: if some power of the stochastic matrix T is entrywise positive
   (this is what is_ergodic tests, with k = (n-1)^2+1) then T has at most one stationary
   probability vector *)
Lemma stationary_unique n T k v w : 0 < n -> wf n n T -> length v = n -> length w = n ->
  (forall i j, i < n -> j < n -> (0 < mget (mpow T k) i j)%Qc) ->
  (forall x, In x v -> (0 <= x)%Qc) -> (forall x, In x w -> (0 <= x)%Qc) ->
  qsum v = 1%Qc -> qsum w = 1%Qc -> vmul v T = v -> vmul w T = w -> v = w.
Proof.
  intros Hn HT Hv Hw Hpos Hvn Hwn Sv Sw Ev Ew.
  apply (stationary_unique_positive n (mpow T k) v w); try assumption.
  - apply wf_mpow; assumption.
  - apply (stationary_mpow n); assumption.
  - apply (stationary_mpow n); assumption.
Qed.
