(* C05: dynamical coring *)
From Coq Require Import List ZArith Arith Bool Lia.
From MsmV Require Import Lib.Result Lib.PyList Lib.Sorting Model.Labels Model.StateTraj Model.Coring.
Import ListNotations.
Local Open Scope nat_scope.

(* ---------- plumbing ---------- *)
Lemma forallb_seq_shift (f : nat -> bool) a n : forall b,
  forallb f (seq (a + b) n) = forallb (fun k => f (a + k)) (seq b n).
Proof.
  induction n as [|n IH]; intros b; simpl; [reflexivity|].
  f_equal. replace (S (a + b)) with (a + S b) by lia. apply IH.
Qed.
Lemma forallb_ext_in {A} (f g : A -> bool) l : (forall x, In x l -> f x = g x) -> forallb f l = forallb g l.
Proof.
  induction l as [|x xs IH]; intros H; simpl; [reflexivity|].
  rewrite (H x (or_introl eq_refl)), IH; [reflexivity|]. intros y Hy. apply H. right. exact Hy.
Qed.
Lemma list_upd_app {A} (p : list A) x rest v : list_upd (p ++ x :: rest) (length p) v = p ++ v :: rest.
Proof. induction p as [|y p IH]; simpl; [reflexivity|now rewrite IH]. Qed.
Lemma nth_app_len {A} (p s : list A) k d : nth (length p + k) (p ++ s) d = nth k s d.
Proof. apply app_nth2_plus. Qed.
Lemma nth_app_len0 {A} (p s : list A) d : nth (length p) (p ++ s) d = nth 0 s d.
Proof. rewrite <- (Nat.add_0_r (length p)). apply nth_app_len. Qed.

(* generic suffix recursion with an arbitrary "opens a core here" test *)
Fixpoint core_refg (tst : list Z -> bool) (core : Z) (s : list Z) : list Z :=
  match s with
  | [] => []
  | x :: rest =>
      if Z.eqb x core then core :: core_refg tst core rest
      else if tst s then x :: core_refg tst x rest
      else core :: core_refg tst core rest
  end.
Lemma core_ref_g w c s : core_ref w c s = core_refg (window w) c s.
Proof. revert c; induction s as [|x rest IH]; intros c; simpl; [reflexivity|]. now rewrite !IH. Qed.

(* last-frame shortcut of the iterative mode, on a suffix *)
Definition wshort (w : nat) (s : list Z) : bool :=
  (w <=? length s) && Z.eqb (nth 0 s 0%Z) (nth (w - 1) s 0%Z).

(* _remains_in_core only looks at the frames from idx on *)
Lemma remains_app_full p s w : remains (length p) (p ++ s) w false = window w s.
Proof.
  unfold remains, window. rewrite app_length.
  destruct (Nat.leb_spec w (length s)) as [Hw|Hw].
  - destruct (Nat.leb_spec (length p + length s + 1) (length p + w)); [lia|]. cbn [andb].
    rewrite forallb_seq_shift. apply forallb_ext_in. intros k _.
    now rewrite nth_app_len0, nth_app_len.
  - destruct (Nat.leb_spec (length p + length s + 1) (length p + w)); [reflexivity|lia].
Qed.
Lemma remains_app_iter p s w : 1 <= w -> remains (length p) (p ++ s) w true = wshort w s.
Proof.
  intros H1. unfold remains, wshort. rewrite app_length.
  destruct (Nat.leb_spec w (length s)) as [Hw|Hw].
  - destruct (Nat.leb_spec (length p + length s + 1) (length p + w)); [lia|]. cbn [andb].
    replace (length p + w - 1) with (length p + (w - 1)) by lia.
    now rewrite nth_app_len0, nth_app_len.
  - destruct (Nat.leb_spec (length p + length s + 1) (length p + w)); [reflexivity|lia].
Qed.

(* the in-place loop equals the suffix recursion *)
Lemma core_step_at w iter (tst : list Z -> bool) p x rest c :
  (forall p s, remains (length p) (p ++ s) w iter = tst s) ->
  core_step w iter (c, p ++ x :: rest) (length p) =
    if Z.eqb x c then (c, p ++ x :: rest)
    else if tst (x :: rest) then (x, p ++ x :: rest) else (c, p ++ c :: rest).
Proof.
  intros Htst. unfold core_step. rewrite nth_app_len0. cbn [nth].
  destruct (Z.eqb x c); [reflexivity|]. rewrite Htst. destruct (tst _); [reflexivity|].
  now rewrite list_upd_app.
Qed.

Lemma fold_core_step w iter (tst : list Z -> bool) :
  (forall p s, remains (length p) (p ++ s) w iter = tst s) ->
  forall s p c, exists c',
    fold_left (core_step w iter) (seq (length p) (length s)) (c, p ++ s) = (c', p ++ core_refg tst c s).
Proof.
  intros Htst. induction s as [|x rest IH]; intros p c.
  - exists c. reflexivity.
  - cbn [length seq fold_left]. rewrite (core_step_at w iter tst) by exact Htst.
    assert (G : forall x1 c1, exists c',
              fold_left (core_step w iter) (seq (S (length p)) (length rest)) (c1, p ++ x1 :: rest)
              = (c', p ++ x1 :: core_refg tst c1 rest)).
    { intros x1 c1. specialize (IH (p ++ [x1]) c1). rewrite app_length in IH. cbn [length] in IH.
      rewrite Nat.add_1_r, <- app_assoc in IH. cbn [app] in IH.
      destruct IH as [c' IH]. exists c'. rewrite IH. now rewrite <- app_assoc. }
    cbn [core_refg]. destruct (Z.eqb_spec x c) as [->|Hne]; [apply G|].
    destruct (tst (x :: rest)); apply G.
Qed.

Lemma fold_core_step_full w t c :
  snd (fold_left (core_step w false) (seq 0 (length t)) (c, t)) = core_ref w c t.
Proof.
  destruct (fold_core_step w false (window w) (fun p s => remains_app_full p s w) t [] c) as [c' H].
  cbn [length app] in H. rewrite H. cbn [snd]. symmetry. apply core_ref_g.
Qed.
Lemma fold_core_step_iter w t c : 1 <= w ->
  snd (fold_left (core_step w true) (seq 0 (length t)) (c, t)) = core_refg (wshort w) c t.
Proof.
  intros H1.
  destruct (fold_core_step w true (wshort w) (fun p s => remains_app_iter p s w H1) t [] c) as [c' H].
  cbn [length app] in H. now rewrite H.
Qed.

(* the first core: find over indices = first_window over suffixes *)
Lemma find_first_gen w : forall s p,
  match find (fun idx => remains idx (p ++ s) w false) (seq (length p) (length s)) with
  | Some i => first_window w s = Some (nth i (p ++ s) 0%Z)
  | None => first_window w s = None
  end.
Proof.
  induction s as [|x rest IH]; intros p; simpl; [reflexivity|].
  rewrite remains_app_full. destruct (window w (x :: rest)) eqn:E.
  - rewrite nth_app_len0. reflexivity.
  - specialize (IH (p ++ [x])). rewrite app_length, <- app_assoc in IH. cbn [length app] in IH.
    rewrite Nat.add_1_r in IH. exact IH.
Qed.

Lemma core_single_full_eq_ref w t : core_single t w false = core_single_ref w t.
Proof.
  unfold core_single, core_single_ref, find_first_core_idx.
  pose proof (find_first_gen w t []) as H. cbn [length app] in H.
  destruct (find _ _) as [i0|]; rewrite H; [|reflexivity].
  now rewrite fold_core_step_full.
Qed.

(* ---------- elementary consequences ---------- *)
Lemma core_refg_length tst c s : length (core_refg tst c s) = length s.
Proof.
  revert c; induction s as [|x rest IH]; intros c; simpl; [reflexivity|].
  destruct (Z.eqb x c); [simpl; now rewrite IH|]. destruct (tst _); simpl; now rewrite IH.
Qed.
Lemma core_refg_labels tst c s y : In y (core_refg tst c s) -> y = c \/ In y s.
Proof.
  revert c; induction s as [|x rest IH]; intros c; simpl; [tauto|].
  destruct (Z.eqb x c).
  - intros [H|H]; [left; congruence|]. apply IH in H. tauto.
  - destruct (tst _).
    + intros [H|H]; [right; left; exact H|]. apply IH in H. destruct H as [->|H]; [right; left; reflexivity|right; right; exact H].
    + intros [H|H]; [left; congruence|]. apply IH in H. tauto.
Qed.
Lemma first_window_In w s c : first_window w s = Some c -> In c s.
Proof.
  induction s as [|x rest IH]; simpl; [discriminate|].
  destruct (window w (x :: rest)); [intros H; left; congruence|]. intros H. right. apply IH. exact H.
Qed.

Lemma core_single_length t w r : core_single t w false = Ok r -> length r = length t.
Proof.
  rewrite core_single_full_eq_ref. unfold core_single_ref. destruct (first_window w t); [|discriminate].
  intros H; injection H as <-. rewrite core_ref_g. apply core_refg_length.
Qed.
Lemma core_single_labels t w r y : core_single t w false = Ok r -> In y r -> In y t.
Proof.
  rewrite core_single_full_eq_ref. unfold core_single_ref. destruct (first_window w t) as [c|] eqn:E; [|discriminate].
  intros H; injection H as <-. rewrite core_ref_g. intros Hy. apply core_refg_labels in Hy as [->|Hy]; [|exact Hy].
  eapply first_window_In. exact E.
Qed.

(* ---------- windows ---------- *)
Lemma window_spec w s : 1 <= w ->
  (window w s = true <-> w <= length s /\ forall k, k < w -> nth k s 0%Z = nth 0 s 0%Z).
Proof.
  intros H1. unfold window. rewrite andb_true_iff, Nat.leb_le, forallb_forall. split.
  - intros [Hl Hf]. split; [exact Hl|]. intros k Hk. destruct k as [|k]; [reflexivity|].
    symmetry. apply Z.eqb_eq. apply Hf. apply in_seq. lia.
  - intros [Hl Hf]. split; [exact Hl|]. intros k Hk. apply in_seq in Hk. apply Z.eqb_eq. symmetry. apply Hf. lia.
Qed.

Lemma core_refg_const_prefix tst x : forall rest m, m <= length rest ->
  (forall k, k < m -> nth k rest 0%Z = x) ->
  forall k, k < m -> nth k (core_refg tst x rest) 0%Z = x.
Proof.
  induction rest as [|y r IH]; intros m Hm Hall k Hk; [simpl in Hm; lia|].
  assert (Hy : y = x) by (apply (Hall 0); lia). subst y.
  cbn [core_refg]. rewrite Z.eqb_refl. destruct k as [|k]; [reflexivity|].
  cbn [nth]. apply (IH (m - 1)); [simpl in Hm; lia| |lia].
  intros j Hj. apply (Hall (S j)). lia.
Qed.

Definition covered (w : nat) (out : list Z) (i : nat) : Prop :=
  exists a, a <= i /\ i < a + w /\ a + w <= length out /\
            forall k, a <= k -> k < a + w -> nth k out 0%Z = nth i out 0%Z.

Lemma covered_cons w h out i : covered w out i -> covered w (h :: out) (S i).
Proof.
  intros (a & H1 & H2 & H3 & H4). exists (S a). repeat split; try (simpl; lia).
  intros k Hk1 Hk2. destruct k as [|k]; [lia|]. cbn [nth]. apply H4; lia.
Qed.

Lemma cover_or_prefix w : 1 <= w -> forall s c i, i < length s ->
  covered w (core_ref w c s) i \/ (forall k, k <= i -> nth k (core_ref w c s) 0%Z = c).
Proof.
  intros H1. induction s as [|x rest IH]; intros c i Hi; [simpl in Hi; lia|].
  assert (Keep : forall out', out' = core_ref w c rest ->
            covered w (c :: out') i \/ (forall k, k <= i -> nth k (c :: out') 0%Z = c)).
  { intros out' ->. destruct i as [|i]; [right; intros k Hk; replace k with 0 by lia; reflexivity|].
    destruct (IH c i) as [Hc|Hp]; [simpl in Hi; lia| |].
    - left. apply covered_cons. exact Hc.
    - right. intros k Hk. destruct k as [|k]; [reflexivity|]. cbn [nth]. apply Hp. lia. }
  cbn [core_ref]. destruct (Z.eqb_spec x c) as [->|Hne]; [apply Keep; reflexivity|].
  destruct (window w (x :: rest)) eqn:Ew; [|apply Keep; reflexivity].
  apply (window_spec w _ H1) in Ew as [Hl Hall]. cbn [nth] in Hall.
  set (out' := core_ref w x rest).
  assert (Hpre : forall k, k < w -> nth k (x :: out') 0%Z = x).
  { intros k Hk. destruct k as [|k]; [reflexivity|]. cbn [nth]. unfold out'. rewrite core_ref_g.
    apply (core_refg_const_prefix _ x rest (w - 1)); [simpl in Hl; lia| |lia].
    intros j Hj. apply (Hall (S j)). lia. }
  assert (Hlen : length (x :: out') = length (x :: rest)).
  { unfold out'. rewrite core_ref_g. simpl. now rewrite core_refg_length. }
  left. destruct (Nat.lt_ge_cases i w) as [Hiw|Hiw].
  - exists 0. repeat split; [lia|lia|rewrite Hlen; lia|].
    intros k _ Hk. rewrite !Hpre by lia. reflexivity.
  - destruct i as [|i]; [lia|]. destruct (IH x i) as [Hc|Hp]; [simpl in Hi; lia| |].
    + apply covered_cons. exact Hc.
    + fold out' in Hp.
      assert (Hall' : forall k, k <= S i -> nth k (x :: out') 0%Z = x).
      { intros k Hk. destruct k as [|k]; [reflexivity|]. cbn [nth]. apply Hp. lia. }
      exists (S i + 1 - w). repeat split; [lia|lia|rewrite Hlen; lia|].
      intros k Hk1 Hk2. rewrite !Hall' by lia. reflexivity.
Qed.

Lemma first_window_prefix w : 1 <= w -> forall t c, first_window w t = Some c ->
  exists i0, i0 + w <= length t /\ forall k, k < i0 + w -> nth k (core_ref w c t) 0%Z = c.
Proof.
  intros H1. induction t as [|x rest IH]; intros c Hf; [discriminate|].
  cbn [first_window] in Hf. destruct (window w (x :: rest)) eqn:Ew.
  - injection Hf as ->. apply (window_spec w _ H1) in Ew as [Hl Hall]. cbn [nth] in Hall.
    exists 0. split; [lia|]. intros k Hk. cbn [core_ref]. rewrite Z.eqb_refl.
    destruct k as [|k]; [reflexivity|]. cbn [nth]. rewrite core_ref_g.
    apply (core_refg_const_prefix _ c rest (w - 1)); [simpl in Hl; lia| |lia].
    intros j Hj. apply (Hall (S j)). lia.
  - destruct (IH c Hf) as (i0 & Hi0 & Hall). exists (S i0). split; [simpl; lia|].
    intros k Hk. cbn [core_ref]. rewrite Ew.
    assert (E : (if Z.eqb x c then c :: core_ref w c rest else c :: core_ref w c rest) = c :: core_ref w c rest)
      by (destruct (Z.eqb x c); reflexivity).
    rewrite E. destruct k as [|k]; [reflexivity|]. cbn [nth]. apply Hall. lia.
Qed.

(* every maximal constant run of the cored trajectory has length >= w *)
Lemma core_single_ref_runs w t r : 1 <= w -> core_single_ref w t = Ok r -> runs_ge w r.
Proof.
  intros H1. unfold core_single_ref. destruct (first_window w t) as [c|] eqn:Ef; [|discriminate].
  intros H; injection H as <-.
  assert (Hlen : length (core_ref w c t) = length t) by (rewrite core_ref_g; apply core_refg_length).
  intros i Hi. rewrite Hlen in Hi.
  destruct (cover_or_prefix w H1 t c i Hi) as [Hc|Hp]; [exact Hc|].
  destruct (first_window_prefix w H1 t c Ef) as (i0 & Hi0 & Hall).
  assert (Hblock : forall k, k < Nat.max (i + 1) (i0 + w) -> nth k (core_ref w c t) 0%Z = c).
  { intros k Hk. destruct (Nat.le_gt_cases k i) as [Hki|Hki]; [apply Hp; exact Hki|apply Hall; lia]. }
  destruct (Nat.le_gt_cases (i + w) (Nat.max (i + 1) (i0 + w))) as [Hc|Hc].
  - exists i. repeat split; [lia|lia|rewrite Hlen; lia|]. intros k Hk1 Hk2. rewrite !Hblock by lia. reflexivity.
  - exists (Nat.max (i + 1) (i0 + w) - w). repeat split; [lia|lia|rewrite Hlen; lia|].
    intros k Hk1 Hk2. rewrite !Hblock by lia. reflexivity.
Qed.

Lemma runs_ge_mono m m' t : 1 <= m' -> m' <= m -> runs_ge m t -> runs_ge m' t.
Proof.
  intros H1 Hm H i Hi. destruct (H i Hi) as (a & A1 & A2 & A3 & A4).
  destruct (Nat.le_gt_cases (i + m') (a + m)) as [Hc|Hc].
  - exists i. repeat split; try lia. intros k K1 K2. apply A4; lia.
  - exists (a + m - m'). repeat split; try lia. intros k K1 K2. apply A4; lia.
Qed.

(* ---------- the iterative shortcut ---------- *)
Lemma shortcut_sound w p s : 2 <= w -> runs_ge (w - 1) (p ++ s) -> wshort w s = window w s.
Proof.
  intros H2 Hr. unfold wshort.
  destruct (window w s) eqn:Ew.
  - apply (window_spec w s) in Ew as [Hl Hall]; [|lia].
    apply Nat.leb_le in Hl as Hl'. rewrite Hl'. cbn [andb]. apply Z.eqb_eq. symmetry. apply Hall. lia.
  - destruct (Nat.leb_spec w (length s)) as [Hl|Hl]; [|reflexivity]. cbn [andb].
    destruct (Z.eqb_spec (nth 0 s 0%Z) (nth (w - 1) s 0%Z)) as [Heq|Hne]; [|reflexivity].
    exfalso.
    assert (Hno : ~ (forall k, k < w -> nth k s 0%Z = nth 0 s 0%Z)).
    { intros Hall. assert (window w s = true) by (apply window_spec; [lia|split; assumption]). congruence. }
    apply Hno. intros k Hk.
    destruct (Z.eq_dec (nth k s 0%Z) (nth 0 s 0%Z)) as [E|E]; [exact E|exfalso].
    (* frame k of the suffix lies in a constant block of w-1 frames of p ++ s, which
       must reach frame 0 or frame w-1 of the suffix *)
    destruct (Hr (length p + k)) as (a & A1 & A2 & A3 & A4); [rewrite app_length; lia|].
    rewrite nth_app_len in A4.
    destruct (Nat.le_gt_cases a (length p)) as [Ha|Ha].
    + specialize (A4 (length p)). rewrite nth_app_len0 in A4. apply E. symmetry. apply A4; lia.
    + assert (Hin : a <= length p + (w - 1) /\ length p + (w - 1) < a + (w - 1)) by lia.
      specialize (A4 (length p + (w - 1)) (proj1 Hin) (proj2 Hin)). rewrite nth_app_len in A4.
      apply E. rewrite <- A4. symmetry. exact Heq.
Qed.

Lemma core_refg_short_eq w : 2 <= w -> forall s p c, runs_ge (w - 1) (p ++ s) ->
  core_refg (wshort w) c s = core_ref w c s.
Proof.
  intros H2. induction s as [|x rest IH]; intros p c Hr; [reflexivity|].
  cbn [core_refg core_ref]. rewrite (shortcut_sound w p (x :: rest) H2 Hr).
  assert (Hr' : runs_ge (w - 1) ((p ++ [x]) ++ rest)) by (rewrite <- app_assoc; exact Hr).
  rewrite !(IH (p ++ [x])) by exact Hr'. reflexivity.
Qed.

(* on inputs whose runs are all >= w-1 the two modes of one stage coincide *)
Lemma core_single_iter_eq w t : 2 <= w -> runs_ge (w - 1) t ->
  core_single t w true = core_single t w false.
Proof.
  intros H2 Hr. unfold core_single. destruct (find_first_core_idx t w) as [i0|]; [|reflexivity].
  rewrite fold_core_step_iter by lia. rewrite fold_core_step_full.
  f_equal. apply (core_refg_short_eq w H2 t []). exact Hr.
Qed.

Lemma runs_ge_1 t : runs_ge 1 t.
Proof. intros i Hi. exists i. repeat split; try lia. intros k K1 K2. replace k with i by lia. reflexivity. Qed.

(* ---------- stages and the iterative schedule ---------- *)
Definition all_runs_ge (m : nat) (ts : list (list Z)) : Prop := forall t, In t ts -> runs_ge m t.

Lemma mapM_ext_in {A B} (f g : A -> res B) l : (forall x, In x l -> f x = g x) -> mapM f l = mapM g l.
Proof.
  induction l as [|x xs IH]; intros H; simpl; [reflexivity|].
  rewrite (H x (or_introl eq_refl)), IH; [reflexivity|]. intros y Hy. apply H. right. exact Hy.
Qed.
Lemma mapM_Ok_In {A B} (f : A -> res B) l r : mapM f l = Ok r ->
  forall y, In y r -> exists x, In x l /\ f x = Ok y.
Proof.
  revert r; induction l as [|x xs IH]; intros r H y Hy; simpl in H.
  - injection H as <-. destruct Hy.
  - destruct (f x) as [b|] eqn:E; cbn [bind] in H; [|discriminate].
    destruct (mapM f xs) as [bs|] eqn:E2; cbn [bind] in H; [|discriminate]. injection H as <-.
    destruct Hy as [<-|Hy]; [exists x; split; [left; reflexivity|exact E]|].
    destruct (IH bs eq_refl y Hy) as (x' & H1 & H2). exists x'. split; [right; exact H1|exact H2].
Qed.
Lemma mapM_length {A B} (f : A -> res B) l r : mapM f l = Ok r -> length r = length l.
Proof.
  revert r; induction l as [|x xs IH]; intros r H; simpl in H; [injection H as <-; reflexivity|].
  destruct (f x); cbn [bind] in H; [|discriminate]. destruct (mapM f xs); cbn [bind] in H; [|discriminate].
  injection H as <-. simpl. f_equal. apply IH. reflexivity.
Qed.

Lemma core_stage_full_runs w ts r : 1 <= w -> core_stage w false ts = Ok r -> all_runs_ge w r.
Proof.
  intros H1 H t Ht. destruct (mapM_Ok_In _ _ _ H t Ht) as (x & _ & Hx).
  rewrite core_single_full_eq_ref in Hx. eapply core_single_ref_runs; eassumption.
Qed.
Lemma core_stage_iter_eq w ts : 2 <= w -> all_runs_ge (w - 1) ts -> core_stage w true ts = core_stage w false ts.
Proof. intros H2 Hr. apply mapM_ext_in. intros t Ht. apply core_single_iter_eq; [exact H2|apply Hr; exact Ht]. Qed.

Lemma fold_stage_err {A} (f : nat -> A -> res A) l k :
  fold_left (fun r w => bind r (f w)) l (Err k) = Err k.
Proof. induction l as [|x xs IH]; simpl; [reflexivity|exact IH]. Qed.

Lemma fold_stages_eq : forall n a r, 2 <= a ->
  (match r with Ok ts => all_runs_ge (a - 1) ts | Err _ => True end) ->
  fold_left (fun r w => bind r (core_stage w true)) (seq a n) r
  = fold_left (fun r w => bind r (core_stage w false)) (seq a n) r.
Proof.
  induction n as [|n IH]; intros a r Ha Hr; [reflexivity|]. cbn [seq fold_left].
  destruct r as [ts|k]; cbn [bind].
  - rewrite (core_stage_iter_eq a ts Ha Hr). apply IH; [lia|].
    destruct (core_stage a false ts) as [r2|] eqn:E; [|exact I].
    replace (S a - 1) with a by lia. eapply core_stage_full_runs; [lia|exact E].
  - now rewrite !fold_stage_err.
Qed.

(* iterative coring = the plain rule applied successively with windows 2..tau *)
Lemma coring_kernel_iter_eq ts lag :
  coring_kernel ts lag true
  = fold_left (fun r w => bind r (core_stage w false)) (seq 2 (lag - 1)) (Ok ts).
Proof.
  unfold coring_kernel. apply fold_stages_eq; [lia|]. intros t _. apply runs_ge_1.
Qed.

(* stage-by-stage reference: per trajectory, suffix rule *)
Definition stage_ref (w : nat) (ts : list (list Z)) : res (list (list Z)) := mapM (core_single_ref w) ts.
Lemma core_stage_ref w ts : core_stage w false ts = stage_ref w ts.
Proof. apply mapM_ext_in. intros t _. apply core_single_full_eq_ref. Qed.

(* ---------- idempotence ---------- *)
Lemma core_ref_fix w : 1 <= w -> forall s pre c, runs_ge w (pre ++ s) ->
  (length pre = 0 -> nth 0 s 0%Z = c) ->
  (forall j, S j = length pre -> nth j (pre ++ s) 0%Z = c) ->
  core_ref w c s = s.
Proof.
  intros H1. induction s as [|x rest IH]; intros pre c Hr H0 Hl; [reflexivity|].
  assert (Hnext : forall c', c' = x -> core_ref w c' rest = rest).
  { intros c' ->. apply (IH (pre ++ [x]) x).
    - rewrite <- app_assoc. exact Hr.
    - rewrite app_length. simpl. lia.
    - intros j Hj. rewrite app_length in Hj. simpl in Hj. assert (j = length pre) by lia. subst j.
      rewrite <- app_assoc. cbn [app]. now rewrite nth_app_len0. }
  cbn [core_ref]. destruct (Z.eqb_spec x c) as [E|E].
  - rewrite <- E. f_equal. apply Hnext. reflexivity.
  - assert (Hw : window w (x :: rest) = true).
    { apply window_spec; [exact H1|]. cbn [nth].
      destruct (Hr (length pre)) as (a & A1 & A2 & A3 & A4); [rewrite app_length; simpl; lia|].
      rewrite nth_app_len0 in A4. cbn [nth] in A4.
      assert (Ha : a = length pre).
      { destruct (Nat.eq_dec a (length pre)) as [Ha|Ha]; [exact Ha|exfalso].
        destruct (length pre) as [|lp] eqn:Elp; [lia|].
        specialize (A4 lp). rewrite (Hl lp eq_refl) in A4. apply E. symmetry. apply A4; lia. }
      subst a. rewrite app_length in A3. split; [simpl in *; lia|].
      intros k Hk. specialize (A4 (length pre + k)). rewrite nth_app_len in A4. apply A4; lia. }
    rewrite Hw. f_equal. apply Hnext. reflexivity.
Qed.

Lemma core_single_ref_fix w r : 1 <= w -> r <> [] -> runs_ge w r -> core_single_ref w r = Ok r.
Proof.
  intros H1 Hne Hr. unfold core_single_ref. destruct r as [|x rest]; [congruence|].
  assert (Hw : window w (x :: rest) = true).
  { apply window_spec; [exact H1|]. cbn [nth].
    destruct (Hr 0) as (a & A1 & A2 & A3 & A4); [simpl; lia|]. assert (a = 0) by lia. subst a.
    split; [lia|]. intros k Hk. apply A4; lia. }
  cbn [first_window]. rewrite Hw. f_equal. apply (core_ref_fix w H1 (x :: rest) [] x).
  - exact Hr.
  - reflexivity.
  - intros j Hj. simpl in Hj. lia.
Qed.

Lemma core_single_ref_nonempty w t r : 1 <= w -> core_single_ref w t = Ok r -> r <> [].
Proof.
  intros H1. unfold core_single_ref. destruct (first_window w t) as [c|] eqn:E; [|discriminate].
  intros H; injection H as <-. apply first_window_In in E. destruct t as [|x rest]; [destruct E|].
  cbn [core_ref]. destruct (Z.eqb x c); [discriminate|]. destruct (window w _); discriminate.
Qed.

(* coring a cored trajectory changes nothing *)
Lemma core_single_idempotent w t r : 1 <= w ->
  core_single t w false = Ok r -> core_single r w false = Ok r.
Proof.
  intros H1. rewrite !core_single_full_eq_ref. intros H.
  apply core_single_ref_fix; [exact H1| |].
  - eapply core_single_ref_nonempty; eassumption.
  - eapply core_single_ref_runs; eassumption.
Qed.

Lemma mapM_fix {A} (f : A -> res A) l : (forall x, In x l -> f x = Ok x) -> mapM f l = Ok l.
Proof.
  induction l as [|x xs IH]; intros H; simpl; [reflexivity|].
  rewrite (H x (or_introl eq_refl)). cbn [bind]. rewrite IH; [reflexivity|]. intros y Hy. apply H. right. exact Hy.
Qed.

(* a set whose trajectories are non-empty with all runs >= m is a fixed point of
   every stage w <= m, hence of the whole schedule, in both modes *)
Lemma stage_fix w m ts : 1 <= w -> w <= m -> all_runs_ge m ts -> (forall t, In t ts -> t <> []) ->
  core_stage w false ts = Ok ts.
Proof.
  intros H1 Hm Hr Hne. apply mapM_fix. intros t Ht. rewrite core_single_full_eq_ref.
  apply core_single_ref_fix; [exact H1|apply Hne; exact Ht|].
  eapply runs_ge_mono; [exact H1|exact Hm|apply Hr; exact Ht].
Qed.

Lemma fold_stages_fix m ts : all_runs_ge m ts -> (forall t, In t ts -> t <> []) ->
  forall n a, 1 <= a -> a + n <= S m ->
  fold_left (fun r w => bind r (core_stage w false)) (seq a n) (Ok ts) = Ok ts.
Proof.
  intros Hr Hne. induction n as [|n IH]; intros a Ha Hb; [reflexivity|]. cbn [seq fold_left bind].
  rewrite (stage_fix a m ts) by (try assumption; lia). apply IH; lia.
Qed.

Lemma coring_kernel_runs ts lag iter r : 2 <= lag ->
  coring_kernel ts lag iter = Ok r -> all_runs_ge lag r /\ (forall t, In t r -> t <> []) /\ length r = length ts.
Proof.
  intros H2. destruct iter.
  - rewrite coring_kernel_iter_eq.
    (* peel the last stage off the schedule *)
    replace (lag - 1) with (S (lag - 2)) by lia. rewrite seq_S, fold_left_app. cbn [fold_left].
    replace (2 + (lag - 2)) with lag by lia.
    set (prev := fold_left _ (seq 2 (lag - 2)) (Ok ts)).
    assert (Hlen : forall n a r0 r1, fold_left (fun r w => bind r (core_stage w false)) (seq a n) (Ok r0) = Ok r1 -> length r1 = length r0).
    { induction n as [|n IH]; intros a r0 r1 H; cbn [seq fold_left] in H; [injection H as <-; reflexivity|].
      cbn [bind] in H. destruct (core_stage a false r0) as [r'|k] eqn:E; [|rewrite fold_stage_err in H; discriminate].
      apply IH in H. apply mapM_length in E. lia. }
    destruct prev as [p|k] eqn:Ep; cbn [bind]; [|discriminate]. intros H.
    split; [eapply core_stage_full_runs; [lia|exact H]|]. split.
    + intros t Ht. destruct (mapM_Ok_In _ _ _ H t Ht) as (x & _ & Hx).
      rewrite core_single_full_eq_ref in Hx. eapply core_single_ref_nonempty; [|exact Hx]. lia.
    + apply mapM_length in H. unfold prev in Ep. apply Hlen in Ep. lia.
  - unfold coring_kernel. cbn [fold_left bind]. intros H.
    split; [eapply core_stage_full_runs; [lia|exact H]|]. split.
    + intros t Ht. destruct (mapM_Ok_In _ _ _ H t Ht) as (x & _ & Hx).
      rewrite core_single_full_eq_ref in Hx. eapply core_single_ref_nonempty; [|exact Hx]. lia.
    + apply mapM_length in H. exact H.
Qed.

Lemma coring_kernel_idempotent ts lag iter r : 2 <= lag ->
  coring_kernel ts lag iter = Ok r -> coring_kernel r lag iter = Ok r.
Proof.
  intros H2 H. destruct (coring_kernel_runs ts lag iter r H2 H) as (Hr & Hne & _).
  destruct iter.
  - rewrite coring_kernel_iter_eq. apply (fold_stages_fix lag r Hr Hne); lia.
  - unfold coring_kernel. cbn [fold_left bind]. apply (stage_fix lag lag r); try assumption; lia.
Qed.

(* error iff some trajectory has no core at some stage (plain mode: one stage) *)
Lemma core_single_err_iff w t : 1 <= w ->
  (core_single t w false = Err LagtimeError <-> first_window w t = None) /\
  (forall k, core_single t w false = Err k -> k = LagtimeError).
Proof.
  intros H1. rewrite core_single_full_eq_ref. unfold core_single_ref.
  destruct (first_window w t); split; try split; try discriminate; try reflexivity.
  intros k H. congruence.
Qed.
Lemma first_window_none w t : 1 <= w ->
  (first_window w t = None <-> forall i, i < length t -> window w (skipn i t) = false).
Proof.
  intros H1. induction t as [|x rest IH]; simpl.
  - split; [intros _ i Hi; lia|reflexivity].
  - destruct (window w (x :: rest)) eqn:E; split.
    + discriminate.
    + intros H. specialize (H 0). simpl in H. rewrite E in H. discriminate H. lia.
    + intros H i Hi. destruct i as [|i]; [exact E|]. simpl. apply IH; [exact H|lia].
    + intros H. apply IH. intros i Hi. apply (H (S i)). lia.
Qed.
