(* Model of msmhelper.msm.msm.equilibrium_population on exact rationals.
   The eigenvector of eigenvalue one (LAPACK in the code) is modelled by the
   exact solution of  x (T - I) = 0, sum x = 1, returned only after the exact
   check  x T = x, sum x = 1, x >= 0  (certificate). Definitions only. *)
From Coq Require Import List ZArith Arith Bool QArith Qcanon.
From MsmV Require Import Lib.Result Lib.PyList Lib.QMat Model.Ergodic.
Import ListNotations.
Local Open Scope nat_scope.

Definition is_stationary (T : mat) (v : vec) : bool :=
  vec_eqb (vmul v T) v && Qc_eqb (qsum v) 1 && forallb (fun x => Qc_leb 0 x) v.

(* equations: for every column j < n-1:  sum_i x_i (T_ij - delta_ij) = 0 ; last: sum_i x_i = 1 *)
Definition stationary (T : mat) : option vec :=
  let n := length T in
  let A := map (fun j => if Nat.eqb j (n - 1) then ones n
                         else map (fun i => (mget T i j - (if Nat.eqb i j then 1 else 0))%Qc) (seq 0 n))
               (seq 0 n) in
  let b := map (fun j => if Nat.eqb j (n - 1) then 1%Qc else 0%Qc) (seq 0 n) in
  match solve A b with
  | Some x => if is_stationary T x then Some x else None
  | None => None
  end.

(* tmat[np.ix_(mask, mask)] *)
Definition select {A} (mask : list bool) (l : list A) : list A :=
  map snd (filter (fun p => fst p) (combine mask l)).
Definition restrict_mat (mask : list bool) (T : mat) : mat := map (select mask) (select mask T).
(* eigenvectors = zeros(n); eigenvectors[mask] = v *)
Fixpoint scatter (mask : list bool) (v : vec) : vec :=
  match mask with
  | [] => []
  | true :: m => match v with x :: v' => x :: scatter m v' | [] => 0%Qc :: scatter m [] end
  | false :: m => 0%Qc :: scatter m v
  end.

(* equilibrium_population(tmat, allow_non_ergodic); None = the exact eigenvector is
   not unique / not certified (degenerate eigenspace: LAPACK's choice) *)
Definition peq (T : mat) (allow : bool) : res (option vec) :=
  let erg := is_ergodic atol8 T in
  if negb allow && negb erg then Err ValueError
  else if erg then Ok (stationary T)
  else
    mask <- ergodic_mask atol8 T ;;
    Ok (match stationary (row_normalize (restrict_mat mask T)) with
        | Some v => Some (scatter mask v)
        | None => None
        end).

(* relational oracle for the second clause (any accepted matrix): the vector v
   (rationalised implementation output) is non-negative up to tol, sums to one up
   to tol and is stationary, up to tol, for T restricted and row-renormalised to
   the support of v *)
Definition peq_ok (tol : Qc) (T : mat) (v : vec) : bool :=
  let sup := map (fun x => Qc_ltb tol x) v in
  let T2 := row_normalize (restrict_mat sup T) in
  let w := select sup v in
  let w2 := vmul w T2 in
  Nat.eqb (length v) (length T)
  && forallb (fun x => Qc_leb (- tol) x) v
  && Qc_leb (Qc_abs (qsum v - 1)) tol
  && forallb (fun p => Qc_leb (Qc_abs (fst p - snd p)) tol) (combine w2 w).
