(* Aliasing model of the StateTraj value object (C02) and of the public API (C18).
   A world holds the private arrays of the object and the arrays a caller can
   reach (constructor arguments and everything returned so far).  Accessors
   COPY: they hand out fresh arrays; the constructor copies its arguments.
   That NumPy's .copy(), arithmetic and fancy indexing allocate is an assumption
   about NumPy which the harness checks with np.shares_memory on every run. *)
From Coq Require Import List ZArith Arith Bool.
From MsmV Require Import Lib.Result Lib.PyList Lib.Sorting Model.Labels Model.StateTraj.
Import ListNotations.
Local Open Scope nat_scope.

Record world := {
  priv : list (list Z);      (* private arrays of the object: index trajectories, states *)
  user : list (list Z)       (* arrays the caller holds *)
}.

Inductive accessor := ATrajs | AIndex | AStates | AFlat | AIndexFlat.

(* what an accessor computes from the private arrays (last private array = states) *)
Definition view (a : accessor) (p : list (list Z)) : list (list Z) :=
  let states := last p [] in
  let idx := removelast p in
  match a with
  | AIndex => idx
  | AStates => [states]
  | AIndexFlat => [concat idx]
  | ATrajs => map (map (fun i => nth (Z.to_nat i) states 0%Z)) idx
  | AFlat => [concat (map (map (fun i => nth (Z.to_nat i) states 0%Z)) idx)]
  end.

Inductive op :=
| Read (a : accessor)                 (* returned arrays become reachable by the caller *)
| WriteUser (k i : nat) (v : Z)       (* in-place write into an array the caller holds *)
| Rebuild.                            (* StateTraj(obj): returns obj itself *)

Definition step (w : world) (o : op) : world :=
  match o with
  | Read a => {| priv := priv w; user := user w ++ view a (priv w) |}
  | WriteUser k i v => {| priv := priv w; user := list_upd (user w) k (list_upd (nth k (user w) []) i v) |}
  | Rebuild => w
  end.

(* construction from caller-held arrays: the object keeps copies *)
Definition construct (args : list (list Z)) (s : statetraj) : world :=
  {| priv := index_trajs s ++ [st_states s]; user := args |}.

Definition observe (a : accessor) (w : world) : list (list Z) := view a (priv w).

(* ---- C18: a public API call reads its arguments and allocates its results ---- *)
(* args: indices of caller-held arrays it reads; f: the (pure) function computed *)
Definition api_call (w : world) (args : list nat) (f : list (list Z) -> list (list Z)) : world :=
  {| priv := priv w; user := user w ++ f (map (fun k => nth k (user w) []) args) |}.
