(* Model of msmhelper.utils.tests: is_transition_matrix, is_ergodic,
   is_fuzzy_ergodic, ergodic_mask; boolean transition graphs. Definitions only. *)
From Coq Require Import List ZArith Arith Bool QArith Qcanon.
From MsmV Require Import Lib.Result Lib.PyList Lib.QMat.
Import ListNotations.
Local Open Scope nat_scope.

Definition atol8 : Qc := Q2Qc (1 # 100000000).

(* is_quadratic: square, at least 2x2 *)
Definition is_quadratic (M : mat) : bool := is_square M && negb (Nat.leb (length M) 1).

(* is_transition_matrix(matrix, atol): every row sums to one within atol, or the
   state is unvisited (row sum and column sum both zero) *)
Definition is_tmat (atol : Qc) (M : mat) : bool :=
  is_quadratic M &&
  forallb (fun rc => Qc_leb (Qc_abs (fst rc - 1)) atol
                     || (Qc_eqb (fst rc) 0 && Qc_eqb (snd rc) 0))
          (combine (rowsums M) (colsums M)).

Definition wexp (n : nat) : nat := (n - 1) * (n - 1) + 1.   (* Wielandt exponent *)

Definition all_entries (p : Qc -> bool) (M : mat) : bool := forallb (forallb p) M.

Definition is_ergodic (atol : Qc) (M : mat) : bool :=
  is_tmat atol8 M && all_entries (fun x => Qc_ltb atol x) (mpow_scaled M (wexp (length M))).

Definition is_fuzzy_ergodic (atol : Qc) (M : mat) : bool :=
  is_tmat atol8 M &&
  (let rcs := map (fun rc => (fst rc + snd rc)%Qc) (combine (rowsums M) (colsums M)) in
   let trap := map (fun x => Qc_leb (Qc_abs (x - (1 + 1))) atol || Qc_leb (Qc_abs x) atol) rcs in
   let P := mpow_scaled M (wexp (length M)) in
   forallb (fun ir => forallb (fun jx => Qc_ltb 0 (snd jx) || fst ir || fst jx)
                              (combine trap (snd ir)))
           (combine trap P)).

Definition bmat := list (list bool).
Definition btranspose (B : bmat) : bmat :=
  map (fun j => map (fun r => nth j r false) B) (seq 0 (length B)).
Definition count_true (l : list bool) : nat := length (filter (fun b => b) l).

Definition ergodic_mask (atol : Qc) (M : mat) : res (list bool) :=
  if negb (is_tmat atol8 M) then Err ValueError else
  let B := map (map (fun x => Qc_ltb atol x)) (mpow_scaled M (wexp (length M))) in
  let Bt := btranspose B in
  let S := map (fun p => map (fun q => fst q && snd q) (combine (fst p) (snd p))) (combine B Bt) in
  let counts := map count_true S in
  let mx := fold_left Nat.max counts 0 in
  Ok (map (fun c => Nat.eqb c mx) counts).

(* ---------------- boolean graphs (specification side) ---------------- *)
Definition supp (M : mat) : bmat := map (map (fun x => Qc_ltb 0 x)) M.
Definition bget (B : bmat) (i j : nat) : bool := nth j (nth i B []) false.
Definition bmul (A B : bmat) : bmat :=
  map (fun r => map (fun j => existsb (fun k => nth k r false && bget B k j) (seq 0 (length B)))
                    (seq 0 (length B))) A.
Definition bident (n : nat) : bmat := map (fun i => map (fun j => Nat.eqb i j) (seq 0 n)) (seq 0 n).
Fixpoint bpow (B : bmat) (k : nat) : bmat :=
  match k with O => bident (length B) | S k' => bmul B (bpow B k') end.
Definition ball (B : bmat) : bool := forallb (forallb (fun b => b)) B.
Definition bor (A B : bmat) : bmat :=
  map (fun p => map (fun q => fst q || snd q) (combine (fst p) (snd p))) (combine A B).

(* walks of exact length k in the graph G (on vertices < n) *)
Fixpoint walk (G : bmat) (k : nat) (i j : nat) : Prop :=
  match k with
  | O => i = j /\ i < length G
  | S k' => exists m, m < length G /\ bget G i m = true /\ walk G k' m j
  end.

Definition strongly_connected (G : bmat) : Prop :=
  forall i j, i < length G -> j < length G -> exists k, walk G k i j.
Definition aperiodic (G : bmat) : Prop :=
  forall d, (forall i k, i < length G -> 1 <= k -> walk G k i i -> Nat.divide d k) -> d = 1.
Definition primitive (G : bmat) : Prop :=
  exists k, 1 <= k /\ forall i j, i < length G -> j < length G -> walk G k i j.

(* independent executable graph test used for the differential cross-check:
   strong connectivity by lazy closure (I or G)^(n-1), period as the gcd of the
   closed-walk lengths at vertex 0 up to 2 n^2 *)
Definition graph_connected (G : bmat) : bool := ball (bpow (bor (bident (length G)) G) (length G - 1)).
Definition graph_period (G : bmat) : nat :=
  let n := length G in
  snd (fold_left (fun st k => let P := bmul G (fst st) in
                              (P, if bget P 0 0 then Nat.gcd (snd st) k else snd st))
                 (seq 1 (2 * n * n)) (bident n, 0)).
Definition graph_ergodic (G : bmat) : bool := graph_connected G && Nat.eqb (graph_period G) 1.

(* stochastic with exact row sums, non-negative entries *)
Definition stochastic (M : mat) : bool :=
  is_square M && all_entries (fun x => Qc_leb 0 x) M && forallb (fun s => Qc_eqb s 1) (rowsums M).
Definition nonneg (M : mat) : bool := all_entries (fun x => Qc_leb 0 x) M.

(* ---- graph-level specification of the ergodic mask (executable oracle) ---- *)
Definition reach (G : bmat) : bmat := bpow (bor (bident (length G)) G) (length G - 1).
Definition same_class (R : bmat) (i j : nat) : bool := bget R i j && bget R j i.
Definition class_of (R : bmat) (i : nat) : list nat := filter (fun j => same_class R i j) (seq 0 (length R)).
Definition has_internal_edge (G R : bmat) (i : nat) : bool :=
  existsb (fun j => existsb (fun k => bget G j k) (class_of R i)) (class_of R i).
Definition class_closed (G R : bmat) (i : nat) : bool :=
  forallb (fun j => forallb (fun k => negb (bget G j k) || same_class R i k) (seq 0 (length G))) (class_of R i).
(* G restricted to the class of i *)
Definition restrict (G R : bmat) (i : nat) : bmat :=
  map (fun a => map (fun b => same_class R i a && same_class R i b && bget G a b) (seq 0 (length G))) (seq 0 (length G)).
Definition class_period (G R : bmat) (i : nat) : nat :=
  let H := restrict G R i in
  let n := length G in
  snd (fold_left (fun st k => let P := bmul H (fst st) in
                              (P, if bget P i i then Nat.gcd (snd st) k else snd st))
                 (seq 1 (2 * n * n)) (bident n, 0)).

(* Some mask when the property's guard holds: every class with a cycle is
   aperiodic and the largest closed class is larger than every other (non-closed) class,
   singletons without a cycle included *)
Definition mask_spec (G : bmat) : option (list bool) :=
  let n := length G in
  let R := reach G in
  let idx := seq 0 n in
  let cyc := map (has_internal_edge G R) idx in
  let closed := map (fun i => class_closed G R i && has_internal_edge G R i) idx in
  let size := map (fun i => length (class_of R i)) idx in
  let aper := forallb (fun i => negb (nth i cyc false) || Nat.eqb (class_period G R i) 1) idx in
  let maxclosed := fold_left Nat.max (map (fun i => if nth i closed false then nth i size 0 else 0) idx) 0 in
  let dominated := forallb (fun i => nth i closed false || Nat.ltb (nth i size 0) maxclosed) idx in
  if aper && dominated && Nat.ltb 0 maxclosed then
    Some (map (fun i => nth i closed false && Nat.eqb (nth i size 0) maxclosed) idx)
  else None.

(* flags used to decide which clause of C04 applies *)
Definition all_classes_aperiodic (G : bmat) : bool :=
  let R := reach G in
  forallb (fun i => negb (has_internal_edge G R i) || Nat.eqb (class_period G R i) 1) (seq 0 (length G)).
(* number of closed classes (with a cycle): count class representatives *)
Definition n_closed_classes (G : bmat) : nat :=
  let R := reach G in
  length (filter (fun i => class_closed G R i && has_internal_edge G R i
                           && Nat.eqb (hd i (class_of R i)) i) (seq 0 (length G))).
