(* Model of msmhelper.io: the text written by savetxt (np.savetxt with the
   "# "-prefixed header block) and the table read back by opentxt (pandas C
   parser semantics: comment character, blank lines, whitespace separation, line
   ends LF / CR), column selection, row limit, limits files, openmicrostates.
   Bytes are natural numbers (ASCII codes).  Definitions only. *)
From Coq Require Import List ZArith NArith Arith Bool.
From MsmV Require Import Lib.Result Lib.PyList Lib.Sorting.
Import ListNotations.
Local Open Scope nat_scope.

Definition byte := nat.
Definition bLF : byte := 10.  Definition bCR : byte := 13.  Definition bSP : byte := 32.
Definition bTAB : byte := 9.  Definition bHASH : byte := 35. Definition bMINUS : byte := 45.
Definition bDOT : byte := 46. Definition b0 : byte := 48.

(* ---------------- writer ---------------- *)
Fixpoint digits_go (fuel : nat) (n : N) (acc : list byte) : list byte :=
  match fuel with
  | O => acc
  | S f => if N.eqb n 0 then acc
           else digits_go f (N.div n 10) ((b0 + N.to_nat (N.modulo n 10)) :: acc)
  end.
Definition render_N (n : N) : list byte :=
  if N.eqb n 0 then [b0] else digits_go (S (N.size_nat n)) n [].
Definition render_Z (z : Z) : list byte :=
  (if Z.ltb z 0 then [bMINUS] else []) ++ render_N (Z.abs_N z).

Inductive fmt := F5 (* '%.5f' *) | F0 (* '%.0f' *) | FD (* '%d' *).
Definition render_num (f : fmt) (z : Z) : list byte :=
  match f with
  | F5 => render_Z z ++ [bDOT; b0; b0; b0; b0; b0]
  | _ => render_Z z
  end.

Fixpoint join (sep : list byte) (parts : list (list byte)) : list byte :=
  match parts with
  | [] => []
  | [p] => p
  | p :: rest => p ++ sep ++ join sep rest
  end.
Definition render_row (f : fmt) (row : list Z) : list byte := join [bSP] (map (render_num f) row) ++ [bLF].
(* header block: every line prefixed by "# " *)
Definition render_header (lines : list (list byte)) : list byte :=
  concat (map (fun l => [bHASH; bSP] ++ l ++ [bLF]) lines).
Definition render (f : fmt) (header_lines : list (list byte)) (table : list (list Z)) : list byte :=
  render_header header_lines ++ concat (map (render_row f) table).

(* ---------------- reader ---------------- *)
Definition is_eol (b : byte) : bool := Nat.eqb b bLF || Nat.eqb b bCR.
Definition is_ws (b : byte) : bool := Nat.eqb b bSP || Nat.eqb b bTAB.
Definition is_digit (b : byte) : bool := Nat.leb b0 b && Nat.leb b 57.

(* split on a separator predicate, keeping empty pieces *)
Fixpoint split_on (p : byte -> bool) (s : list byte) (cur : list byte) : list (list byte) :=
  match s with
  | [] => [rev cur]
  | b :: rest => if p b then rev cur :: split_on p rest [] else split_on p rest (b :: cur)
  end.
Definition lines_of (s : list byte) : list (list byte) := split_on is_eol s [].
(* drop everything from the first comment character on *)
Fixpoint strip_comment (cs : list byte) (l : list byte) : list byte :=
  match l with
  | [] => []
  | b :: rest => if existsb (Nat.eqb b) cs then [] else b :: strip_comment cs rest
  end.
Definition tokens (l : list byte) : list (list byte) :=
  filter (fun t => negb (Nat.eqb (length t) 0)) (split_on is_ws l []).

Fixpoint parse_digits (s : list byte) (acc : N) : option N :=
  match s with
  | [] => Some acc
  | b :: rest => if is_digit b then parse_digits rest (acc * 10 + N.of_nat (b - b0))%N else None
  end.
(* integer literal with optional sign and an optional all-zero fraction ("12", "-3", "12.00000") *)
Definition parse_num (t : list byte) : option Z :=
  let '(neg, body) := match t with
                      | b :: r => if Nat.eqb b bMINUS then (true, r) else (false, t)
                      | [] => (false, [])
                      end in
  match split_on (Nat.eqb bDOT) body [] with
  | [ip] => match ip, parse_digits ip 0%N with
            | _ :: _, Some n => Some (if neg then (- Z.of_N n)%Z else Z.of_N n)
            | _, _ => None end
  | [ip; fp] => match ip, parse_digits ip 0%N, forallb (Nat.eqb b0) fp with
                | _ :: _, Some n, true => Some (if neg then (- Z.of_N n)%Z else Z.of_N n)
                | _, _, _ => None end
  | _ => None
  end.

Fixpoint all_some {A} (l : list (option A)) : option (list A) :=
  match l with
  | [] => Some []
  | Some x :: t => match all_some t with Some r => Some (x :: r) | None => None end
  | None :: _ => None
  end.

(* the table of a file: rows of integers; Err if a token is not a number or rows are ragged *)
Definition parse_table (cs : list byte) (s : list byte) : res (list (list Z)) :=
  let rows := filter (fun r => negb (Nat.eqb (length r) 0)) (map (fun l => tokens (strip_comment cs l)) (lines_of s)) in
  match all_some (map (fun r => all_some (map parse_num r)) rows) with
  | None => Err ValueError
  | Some t =>
      match t with
      | [] => Err ValueError                                   (* EmptyDataError *)
      | r0 :: _ => if forallb (fun r => Nat.eqb (length r) (length r0)) t then Ok t else Err ValueError
      end
  end.

(* opentxt(usecols=cols, nrows=k): columns in the requested order.  As coded: pandas
   reads the sorted columns, then swapcols(array, argsort(cols), arange) moves column m of
   the sorted read to position argsort(cols)[m] *)
Fixpoint ins_sorted (x : nat * nat) (l : list (nat * nat)) : list (nat * nat) :=
  match l with
  | [] => [x]
  | y :: t => if Nat.ltb (fst x) (fst y) then x :: l else y :: ins_sorted x t
  end.
Definition argsort_nat (cols : list nat) : list nat :=
  map snd (fold_left (fun acc x => ins_sorted x acc) (combine cols (seq 0 (length cols))) []).
Definition select_cols (cols : list nat) (row : list Z) : list Z :=
  let idx := argsort_nat cols in
  let sorted_cols := map (fun i => nth i cols 0) idx in
  let read := map (fun c => nth c row 0%Z) sorted_cols in          (* what pandas returns *)
  (* array_swapped.T[idx] = array.T[arange]: position idx[m] receives read[m] *)
  fold_left (fun out m => list_upd out (nth m idx 0) (nth m read 0%Z)) (seq 0 (length cols)) read.

Definition opentxt (cs : list byte) (s : list byte) (cols : option (list nat)) (nrows : option nat)
  : res (list (list Z)) :=
  t <- parse_table cs s ;;
  let t1 := match nrows with Some k => firstn k t | None => t end in
  match cols with
  | None => Ok t1
  | Some c =>
      if forallb (fun j => Nat.ltb j (match t with r :: _ => length r | [] => 0 end)) c
      then Ok (map (select_cols c) t1) else Err ValueError
  end.

(* open_limits / opentxt_limits: cumulative limits must end at the data length *)
Definition split_limits {A} (data : list A) (limits : option (list nat)) : res (list (list A)) :=
  match limits with
  | None => Ok [data]
  | Some ls => if Nat.eqb (list_sum ls) (length data) then Ok (split_lens ls data) else Err ValueError
  end.

(* openmicrostates: integer dtype required; single column required *)
Inductive dtype := Int8 | Int16 | Int32 | Int64 | Float64.
Definition dtype_wrap (d : dtype) (z : Z) : Z :=
  let bits := match d with Int8 => 8 | Int16 => 16 | Int32 => 32 | _ => 64 end%Z in
  let m := (2 ^ bits)%Z in
  ((z + m / 2) mod m - m / 2)%Z.
Definition openmicrostates (cs : list byte) (s : list byte) (limits : option (list nat)) (d : option dtype)
  : res (dtype * list (list Z)) :=
  match d with
  | Some Float64 => Err TypeError
  | _ =>
      let dt := match d with Some x => x | None => Int16 end in
      t <- parse_table cs s ;;
      parts <- split_limits t limits ;;
      match t with
      | r :: _ => if Nat.eqb (length r) 1
                  then Ok (dt, map (map (fun row => dtype_wrap dt (nth 0 row 0%Z))) parts)
                  else Err FileError
      | [] => Err ValueError
      end
  end.
