(* Model of msmhelper.md.corrections (dynamical coring). Definitions only. *)
From Coq Require Import List ZArith Arith Bool.
From MsmV Require Import Lib.Result Lib.PyList Lib.Sorting Model.Labels Model.StateTraj.
Import ListNotations.
Local Open Scope nat_scope.

(* _remains_in_core(idx, traj, lagtime, iterative) *)
Definition remains (idx : nat) (t : list Z) (w : nat) (iter : bool) : bool :=
  if length t + 1 <=? idx + w then false
  else if iter then Z.eqb (nth idx t 0%Z) (nth (idx + w - 1) t 0%Z)
  else forallb (fun k => Z.eqb (nth idx t 0%Z) (nth k t 0%Z)) (seq (idx + 1) (w - 1)).

(* first index at which a core starts (always the full check) *)
Definition find_first_core_idx (t : list Z) (w : nat) : option nat :=
  find (fun idx => remains idx t w false) (seq 0 (length t)).

(* one loop iteration of _dynamical_coring_single_traj on the state
   (current core, partially rewritten trajectory) *)
Definition core_step (w : nat) (iter : bool) (st : Z * list Z) (idx : nat) : Z * list Z :=
  let '(core, cored) := st in
  if Z.eqb (nth idx cored 0%Z) core then (core, cored)
  else if remains idx cored w iter then (nth idx cored 0%Z, cored)
  else (core, list_upd cored idx core).

Definition core_single (t : list Z) (w : nat) (iter : bool) : res (list Z) :=
  match find_first_core_idx t w with
  | None => Err LagtimeError
  | Some i0 =>
      Ok (snd (fold_left (core_step w iter) (seq 0 (length t)) (nth i0 t 0%Z, t)))
  end.

(* _dynamical_coring_single_lagtime: every trajectory on its own *)
Definition core_stage (w : nat) (iter : bool) (ts : list (list Z)) : res (list (list Z)) :=
  mapM (fun t => core_single t w iter) ts.

(* _dynamical_coring: schedule 2..lag (iterative) or [lag] *)
Definition coring_kernel (ts : list (list Z)) (lag : nat) (iter : bool) : res (list (list Z)) :=
  fold_left (fun r w => bind r (core_stage w iter))
            (if iter then seq 2 (lag - 1) else [lag]) (Ok ts).

(* md.dynamical_coring(trajs, lagtime, iterative); lag is a Python int *)
Definition dynamical_coring (ts : list (list Z)) (lag : Z) (iter : bool) : res (list (list Z)) :=
  s <- mk ts ;;
  cur <- trajs s ;;
  if (lag <=? 0)%Z then Err ValueError
  else if (lag =? 1)%Z then Ok cur
  else coring_kernel cur (Z.to_nat lag) iter.

(* ---------------- specification ---------------- *)
(* the suffix s starts with w equal frames *)
Definition window (w : nat) (s : list Z) : bool :=
  (w <=? length s) && forallb (fun k => Z.eqb (nth 0 s 0%Z) (nth k s 0%Z)) (seq 1 (w - 1)).

(* reference rule by recursion on the suffix with the current core *)
Fixpoint core_ref (w : nat) (core : Z) (s : list Z) : list Z :=
  match s with
  | [] => []
  | x :: rest =>
      if Z.eqb x core then core :: core_ref w core rest
      else if window w s then x :: core_ref w x rest
      else core :: core_ref w core rest
  end.

(* label of the first window, if any *)
Fixpoint first_window (w : nat) (s : list Z) : option Z :=
  match s with
  | [] => None
  | x :: rest => if window w s then Some x else first_window w rest
  end.

Definition core_single_ref (w : nat) (t : list Z) : res (list Z) :=
  match first_window w t with
  | None => Err LagtimeError
  | Some c => Ok (core_ref w c t)
  end.

(* every frame lies in a block of m consecutive equal frames
   (= every maximal constant run has length >= m) *)
Definition runs_ge (m : nat) (t : list Z) : Prop :=
  forall i, i < length t ->
    exists a, a <= i /\ i < a + m /\ a + m <= length t /\
              forall k, a <= k -> k < a + m -> nth k t 0%Z = nth i t 0%Z.

(* executable version of runs_ge via run-length encoding *)
Fixpoint rle (t : list Z) : list (Z * nat) :=
  match t with
  | [] => []
  | x :: rest =>
      match rle rest with
      | (y, n) :: tl => if Z.eqb x y then (y, S n) :: tl else (x, 1) :: (y, n) :: tl
      | [] => [(x, 1)]
      end
  end.
Definition runs_geb (m : nat) (t : list Z) : bool := forallb (fun p => m <=? snd p) (rle t).
