(* Model of msmhelper.statetraj.StateTraj (value part). Definitions only. *)
From Coq Require Import List ZArith Arith Bool.
From MsmV Require Import Lib.Result Lib.PyList Lib.Sorting Model.Labels.
Import ListNotations.
Local Open Scope Z_scope.

Record statetraj := { st_idx : list (list nat); st_states : list Z }.

(* StateTraj.__init__: three label -> index branches *)
Definition mk (ts : list (list Z)) : res statetraj :=
  let states := unique ts in
  let n := length states in
  if list_eqb states (arange n) then
    Ok {| st_idx := map (map Z.to_nat) ts; st_states := states |}
  else if list_eqb states (arange1 n) then
    Ok {| st_idx := map (map (fun v => Z.to_nat (v - 1))) ts; st_states := arange1 n |}
  else
    p <- rename_by_index ts ;;
    Ok {| st_idx := map (map Z.to_nat) (fst p); st_states := snd p |}.

Definition nstates (s : statetraj) : nat := length (st_states s).
Definition ntrajs (s : statetraj) : nat := length (st_idx s).
Definition nframes (s : statetraj) : nat := list_sum (map (@length nat) (st_idx s)).
Definition index_trajs (s : statetraj) : list (list Z) := map (map Z.of_nat) (st_idx s).

(* StateTraj.trajs: three branches again *)
Definition trajs (s : statetraj) : res (list (list Z)) :=
  let n := nstates s in
  if list_eqb (st_states s) (arange1 n) then Ok (map (map (fun i => Z.of_nat i + 1)) (st_idx s))
  else if list_eqb (st_states s) (arange n) then Ok (index_trajs s)
  else shift_nested (index_trajs s) (arange n) (st_states s).

Definition state_to_idx (s : statetraj) (x : Z) : res nat :=
  match index_of x (st_states s) with Some k => Ok k | None => Err ValueError end.

(* specification form *)
Definition mk_spec (ts : list (list Z)) : statetraj :=
  {| st_idx := map (map (rank (unique ts))) ts; st_states := unique ts |}.
