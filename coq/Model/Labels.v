(* Model of msmhelper.utils._utils: shift_data, rename_by_index,
   rename_by_population, unique, _flatten_data/_unflatten_data.
   Definitions only. *)
From Coq Require Import List ZArith Arith Bool.
From MsmV Require Import Lib.Result Lib.PyList Lib.Sorting.
Import ListNotations.
Local Open Scope Z_scope.

(* ndarray.astype(np.int32): two's complement wrap *)
Definition wrap32 (z : Z) : Z := (z + 2147483648) mod 4294967296 - 2147483648.

(* NumPy integer indexing into an axis of length len: negative indices wrap
   once, anything else is an IndexError *)
Definition norm_index (len : Z) (i : Z) : res Z :=
  if (0 <=? i) && (i <? len) then Ok i
  else if (i <? 0) && (- len <=? i) then Ok (i + len)
  else Err IndexError.

(* conv = arange(len); conv[keys] = vals (later assignments win); conv[i] *)
Definition lookup_last (tbl : list (Z * Z)) (i : Z) : Z :=
  fold_left (fun acc kv => if fst kv =? i then snd kv else acc) tbl i.

(* shift_data on flattened data *)
Definition shift_flat (data old new : list Z) : res (list Z) :=
  match min_of data, min_of new, max_of data with
  | Some md, Some mn, Some mx =>
      let off := Z.min md mn in
      let len := mx - off + 1 in
      if negb (Nat.eqb (length old) (length new)) then Err ValueError else
      keys <- mapM (norm_index len) (map (fun v => v - off) old) ;;
      let tbl := combine keys (map (fun v => v - off) new) in
      Ok (map (fun v => wrap32 (lookup_last tbl (v - off)) + off) data)
  | _, _, _ => Err ValueError
  end.

(* list of arrays / lists: flattened with cumulative limits, split back *)
Definition shift_nested (ls : list (list Z)) (old new : list Z) : res (list (list Z)) :=
  match ls with
  | [] => Err ValueError          (* np.concatenate([]) *)
  | _ => rmap (split_lens (map (@length Z) ls)) (shift_flat (concat ls) old new)
  end.

(* np.unique over all trajectories, with counts *)
Definition unique (ls : list (list Z)) : list Z := usort (concat ls).
Definition unique_counts (ls : list (list Z)) : list Z * list nat :=
  let flat := concat ls in
  let st := usort flat in (st, map (fun s => count_Z s flat) st).

Definition rename_by_index (ls : list (list Z)) : res (list (list Z) * list Z) :=
  let states := unique ls in
  r <- shift_nested ls states (arange (length states)) ;;
  Ok (r, states).

(* stable insertion of (count,label) keeping ascending count order: np.argsort
   (stable for the small arrays concerned), then reversed *)
Fixpoint ins_by_count (c : nat) (s : Z) (l : list (nat * Z)) : list (nat * Z) :=
  match l with
  | [] => [(c, s)]
  | (c', s') :: t => if Nat.ltb c c' then (c, s) :: l else (c', s') :: ins_by_count c s t
  end.

Definition argsort_counts (states : list Z) (pop : list nat) : list Z :=
  map snd (fold_left (fun acc cs => ins_by_count (fst cs) (snd cs) acc) (combine pop states) []).

Definition rename_by_population (ls : list (list Z)) : res (list (list Z) * list Z) :=
  let '(states, pop) := unique_counts ls in
  let perm := rev (argsort_counts states pop) in
  r <- shift_nested ls perm (arange1 (length perm)) ;;
  Ok (r, perm).

(* relational oracle for rename_by_population (ties are the sort's choice) *)
Fixpoint nonincreasing (l : list nat) : bool :=
  match l with
  | a :: ((b :: _) as t) => Nat.leb b a && nonincreasing t
  | _ => true
  end.

Definition rename_pop_ok (ls out : list (list Z)) (perm : list Z) : bool :=
  let flat := concat ls in
  list_eqb (usort perm) (usort flat)
  && Nat.eqb (length perm) (length (usort flat))
  && nonincreasing (map (fun s => count_Z s flat) perm)
  && list_eqb (concat out) (map (fun x => Z.of_nat (S (rank perm x))) flat)
  && list_eqb (map (fun l => Z.of_nat (length l)) out) (map (fun l => Z.of_nat (length l)) ls).

(* specification: simultaneous substitution *)
Definition subst (old new : list Z) (x : Z) : Z :=
  match index_of x old with
  | Some k => nth k new x
  | None => x
  end.
