(* Model of msmhelper.msm.tests (Chapman-Kolmogorov test). Definitions only. *)
From Coq Require Import List ZArith Arith Bool QArith Qcanon.
From MsmV Require Import Lib.Result Lib.PyList Lib.Sorting Lib.QMat Model.Labels Model.StateTraj Model.Msm
  Model.Ergodic Model.Peq Model.HS.
Import ListNotations.
Local Open Scope nat_scope.

(* _calc_times: lagtime * arange(1, floor(tmax / lagtime) + 1) *)
Definition calc_times (lag tmax : nat) : list nat := map (fun k => lag * k) (seq 1 (tmax / lag)).

(* diagonal of the k-th power, k = 1 .. ntimes, one curve per state *)
Definition diag_of (M : mat) : vec := map (fun i => mget M i i) (seq 0 (length M)).
Definition model_curves (T : mat) (ntimes : nat) : list vec :=
  (* curves[s][k-1] = (T^k)[s,s] *)
  let diags := map (fun k => diag_of (mpow_scaled T k)) (seq 1 ntimes) in
  map (fun s => map (fun d => nth s d 0%Qc) diags) (seq 0 (length T)).

Record ckeq := { ck_curves : list vec; ck_times : list nat; ck_erg : bool; ck_fuzzy : bool; ck_states : list Z }.

(* _chapman_kolmogorov_test for a plain object *)
Definition ck_model_plain (s : statetraj) (lag tmax : nat) : ckeq :=
  let T := fst (emm s lag) in
  let times := calc_times lag tmax in
  {| ck_curves := model_curves T (length times); ck_times := times;
     ck_erg := is_ergodic atol8 T; ck_fuzzy := is_fuzzy_ergodic atol8 T; ck_states := st_states s |}.

(* ... and for a lumped object (Hummer-Szabo model); None = certificate failed *)
Definition ck_model_lumped (l : lumped) (lag tmax : nat) : res (option ckeq) :=
  r <- lumped_emm l lag ;;
  Ok (match r with
      | None => None
      | Some (T, st) =>
          let times := calc_times lag tmax in
          Some {| ck_curves := model_curves T (length times); ck_times := times;
                  ck_erg := is_ergodic atol8 T; ck_fuzzy := is_fuzzy_ergodic atol8 T; ck_states := st |}
      end).

(* reference at the (given) time t: diagonal of the model estimated directly at lag t from
   the plain (macro) state trajectory *)
Definition ck_reference_at (macro : statetraj) (t : nat) : vec * bool * bool :=
  let T := fst (emm macro t) in (diag_of T, is_ergodic atol8 T, is_fuzzy_ergodic atol8 T).
