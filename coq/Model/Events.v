(* Model of msmhelper.md.timescales (waiting times, pathways) and the
   sorted-merge intersection of md.comparison._intersect. Definitions only. *)
From Coq Require Import List ZArith Arith Bool.
From MsmV Require Import Lib.Result Lib.PyList Lib.Sorting Model.Labels Model.StateTraj.
Import ListNotations.
Local Open Scope nat_scope.

(* _estimate_events_singletraj: loop over the frames with the automaton state
   (propagates_forwards, idx_start); idx is the index of the head of t *)
Fixpoint events_from (idx : nat) (op : bool) (i0 : nat) (t S F : list Z) : list (nat * nat) :=
  match t with
  | [] => []
  | x :: rest =>
      if negb op && mem_Z x S then events_from (idx + 1) true idx rest S F
      else if op && mem_Z x F then (i0, idx) :: events_from (idx + 1) false i0 rest S F
      else events_from (idx + 1) op i0 rest S F
  end.
Definition events (t S F : list Z) : list (nat * nat) := events_from 0 false 0 t S F.

Definition wt_single (t S F : list Z) : list Z :=
  map (fun p => Z.of_nat (snd p - fst p)) (events t S F).

(* loop erasure inside one event: reset on a start-basin label, truncate at
   the first earlier occurrence, append *)
Definition erase_step (S : list Z) (path : list Z) (x : Z) : list Z :=
  (if mem_Z x S then []
   else match index_of x path with
        | Some k => firstn k path
        | None => path
        end) ++ [x].
Definition loop_erase (S : list Z) (slice : list Z) : list Z := fold_left (erase_step S) slice [].

(* traj[a : b+1] *)
Definition sub (t : list Z) (a b : nat) : list Z := firstn (b + 1 - a) (skipn a t).

Definition paths_single (t S F : list Z) : list (list Z * Z) :=
  map (fun p => (loop_erase S (sub t (fst p) (snd p)), Z.of_nat (snd p - fst p))) (events t S F).

(* md._intersect: sorted merge, with explicit fuel |a| + |b| *)
Fixpoint intersect_fuel (fuel : nat) (a b : list Z) : nat :=
  match fuel with
  | O => O
  | S f =>
      match a, b with
      | x :: a', y :: b' =>
          if Z.eqb x y then S (intersect_fuel f a' b')
          else if Z.ltb y x then intersect_fuel f a b'
          else intersect_fuel f a' b
      | _, _ => O
      end
  end.
Definition intersect (a b : list Z) : nat := intersect_fuel (length a + length b) a b.

(* validation shared by md.estimate_waiting_times / estimate_paths *)
Definition validate (states start final : list Z) : res (list Z * list Z) :=
  let s := usort start in let f := usort final in
  if negb (Nat.eqb (intersect s f) 0) then Err ValueError
  else if negb (Nat.eqb (intersect s states) (length s)) then Err ValueError
  else if negb (Nat.eqb (intersect f states) (length f)) then Err ValueError
  else Ok (s, f).

Definition estimate_waiting_times (ts : list (list Z)) (start final : list Z) : res (list Z) :=
  st <- mk ts ;;
  sf <- validate (st_states st) start final ;;
  cur <- trajs st ;;
  Ok (concat (map (fun t => wt_single t (fst sf) (snd sf)) cur)).

(* dictionary: association list path -> times, keys in first-occurrence order,
   values in occurrence order *)
Fixpoint dict_add (d : list (list Z * list Z)) (k : list Z) (v : Z) : list (list Z * list Z) :=
  match d with
  | [] => [(k, [v])]
  | (k', vs) :: rest => if list_eqb k k' then (k', vs ++ [v]) :: rest else (k', vs) :: dict_add rest k v
  end.
Definition group (l : list (list Z * Z)) : list (list Z * list Z) :=
  fold_left (fun d kv => dict_add d (fst kv) (snd kv)) l [].

Definition estimate_paths (ts : list (list Z)) (start final : list Z) : res (list (list Z * list Z)) :=
  st <- mk ts ;;
  sf <- validate (st_states st) start final ;;
  cur <- trajs st ;;
  Ok (group (concat (map (fun t => paths_single t (fst sf) (snd sf)) cur))).

(* ---------------- specification ---------------- *)
Fixpoint first_in (P : list Z) (s : list Z) : option nat :=
  match s with
  | [] => None
  | x :: rest => if mem_Z x P then Some 0
                 else match first_in P rest with Some k => Some (S k) | None => None end
  end.

(* "first frame in S at or after the current position, then the first later
   frame in F, emit, continue after it"; off is the index of the head of s *)
Fixpoint events_ref (fuel off : nat) (s S F : list Z) : list (nat * nat) :=
  match fuel with
  | O => []
  | Datatypes.S f =>
      match first_in S s with
      | None => []
      | Some a =>
          match first_in F (skipn (a + 1) s) with
          | None => []
          | Some b => (off + a, off + a + 1 + b)
                      :: events_ref f (off + a + 1 + b + 1) (skipn (a + 1 + b + 1) s) S F
          end
      end
  end.
