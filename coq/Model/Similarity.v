(* Model of msmhelper.md.comparison.compare_discretization. Definitions only. *)
From Coq Require Import List ZArith Arith Bool QArith Qcanon.
From MsmV Require Import Lib.Result Lib.PyList Lib.Sorting Lib.QMat Model.Labels Model.StateTraj Model.Events.
Import ListNotations.
Local Open Scope nat_scope.

(* np.where(flat == state)[0]: ascending frame indices showing the state *)
Fixpoint positions_from (k : Z) (s : nat) (flat : list nat) : list Z :=
  match flat with
  | [] => []
  | x :: rest => if Nat.eqb x s then k :: positions_from (k + 1)%Z s rest
                 else positions_from (k + 1)%Z s rest
  end.
Definition positions (s : nat) (flat : list nat) : list Z := positions_from 0%Z s flat.

Definition Qc_of_nat (n : nat) : Qc := Qc_of_Z (Z.of_nat n).

(* _compare_discretization on two flattened index trajectories *)
Definition compare_idx (n1 n2 : nat) (f1 f2 : list nat) (symmetric : bool) : Qc :=
  let idx1 := map (fun s => positions s f1) (seq 0 n1) in
  let idx2 := map (fun s => positions s f2) (seq 0 n2) in
  let inter := map (fun a => map (fun b => Qc_of_nat (intersect a b)) idx2) idx1 in   (* n_ij *)
  let i12 := map (fun p => map (fun x => (x / Qc_of_nat (length (snd p)))%Qc) (fst p)) (combine inter idx1) in
  let i21 := map (fun p => map (fun x => (x / Qc_of_nat (length (snd p)))%Qc) (fst p)) (combine (transpose inter) idx2) in
  let per_frame := map (fun p =>
        let a := mget i12 (fst p) (snd p) in
        let b := mget i21 (snd p) (fst p) in
        if symmetric then Qc_max a b else b) (combine f1 f2) in
  (qsum per_frame / Qc_of_nat (length f1))%Qc.

(* method: 0 = symmetric, 1 = directed, anything else = unknown *)
Definition compare_discretization (ts1 ts2 : list (list Z)) (method : Z) : res Qc :=
  s1 <- mk ts1 ;;
  s2 <- mk ts2 ;;
  if negb ((method =? 0)%Z || (method =? 1)%Z) then Err ValueError
  else if negb (Nat.eqb (nframes s1) (nframes s2)) then Err ValueError
  else if Nat.eqb (nstates s1) 1 || Nat.eqb (nstates s2) 1 then Err ValueError
  else Ok (compare_idx (nstates s1) (nstates s2) (concat (st_idx s1)) (concat (st_idx s2)) (method =? 0)%Z).

(* ---------------- specification: contingency table ---------------- *)
Definition n_ij (fr : list (nat * nat)) (i j : nat) : nat :=
  length (filter (fun p => Nat.eqb (fst p) i && Nat.eqb (snd p) j) fr).
Definition n_row (fr : list (nat * nat)) (i : nat) : nat := length (filter (fun p => Nat.eqb (fst p) i) fr).
Definition n_col (fr : list (nat * nat)) (j : nat) : nat := length (filter (fun p => Nat.eqb (snd p) j) fr).

Definition qdiv0 (a b : Qc) : Qc := if Qc_eqb b 0 then 0 else (a / b)%Qc.

(* directed: (1/N) sum_ij n_ij^2 / n_.j ; symmetric: (1/N) sum_ij n_ij max(n_ij/n_i., n_ij/n_.j) *)
Definition sim_spec (n1 n2 : nat) (fr : list (nat * nat)) (symmetric : bool) : Qc :=
  (qsum (map (fun i => qsum (map (fun j =>
      let n := Qc_of_nat (n_ij fr i j) in
      let a := qdiv0 n (Qc_of_nat (n_row fr i)) in
      let b := qdiv0 n (Qc_of_nat (n_col fr j)) in
      (n * (if symmetric then Qc_max a b else b))%Qc) (seq 0 n2))) (seq 0 n1))
   / Qc_of_nat (length fr))%Qc.
