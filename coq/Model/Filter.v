(* Model of msmhelper.utils.filtering: Gaussian filter (any odd-length kernel w,
   edge values repeated), running mean (np.convolve(..., 'same')), and of the
   chunking helper plot._ck_test._split_array.  Definitions only. *)
From Coq Require Import List ZArith Arith Bool QArith Qcanon.
From MsmV Require Import Lib.Result Lib.PyList Lib.QMat.
Import ListNotations.
Local Open Scope nat_scope.

(* x[clamp(i)] for a signed index: mode='nearest' *)
Definition clamp_get (xs : vec) (i : Z) : Qc :=
  let n := Z.of_nat (length xs) in
  nth (Z.to_nat (Z.max 0 (Z.min (n - 1) i))) xs 0%Qc.

(* correlation with the kernel w of odd length 2r+1, centred *)
Definition gfilt (w : vec) (xs : vec) : vec :=
  let r := Z.of_nat ((length w - 1) / 2) in
  map (fun i => qsum (map (fun k => (nth k w 0 * clamp_get xs (Z.of_nat i + Z.of_nat k - r))%Qc)
                          (seq 0 (length w))))
      (seq 0 (length xs)).

(* 2-d input (rows = frames): every column filtered on its own *)
Definition gfilt2d (w : vec) (tbl : mat) : mat := transpose (map (gfilt w) (transpose tbl)).

(* np.convolve(a, ones(w)/w, mode='same') for w <= len(a): entry i = (1/w) sum_{k<w} a[i + (w-1)/2 - k],
   zeros outside the series *)
Definition zget (xs : vec) (i : Z) : Qc :=
  if (i <? 0)%Z || (Z.of_nat (length xs) <=? i)%Z then 0%Qc else nth (Z.to_nat i) xs 0%Qc.
Definition runningmean (xs : vec) (w : nat) : vec :=
  map (fun i => (qsum (map (fun k => zget xs (Z.of_nat i + Z.of_nat ((w - 1) / 2) - Z.of_nat k)) (seq 0 w))
                 / Qc_of_Z (Z.of_nat w))%Qc)
      (seq 0 (length xs)).

(* documented window: from i - (w - 1 - (w-1)/2) to i + (w-1)/2 inclusive *)
Definition window_mean (xs : vec) (w : nat) (i : nat) : Qc :=
  let lo := (Z.of_nat i - Z.of_nat (w - 1 - (w - 1) / 2))%Z in
  (qsum (map (fun j => zget xs (lo + Z.of_nat j)) (seq 0 w)) / Qc_of_Z (Z.of_nat w))%Qc.

(* _split_array(array, chunksize): consecutive chunks of at most chunksize, none empty *)
Definition split_array {A} (l : list A) (chunk : nat) : list (list A) :=
  let k := length l / chunk in
  let pieces := split_lens (repeat chunk k) l ++ [skipn (k * chunk) l] in
  if Nat.eqb (length (last pieces [])) 0 then removelast pieces else pieces.
