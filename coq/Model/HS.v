(* Model of LumpedStateTraj (assignment, macro trajectories) and of the
   Hummer-Szabo projection in LumpedStateTraj._estimate_markov_model on exact
   rationals. Matrix inverses are certified at run time (inverse_cert).
   Definitions only. *)
From Coq Require Import List ZArith Arith Bool QArith Qcanon.
From MsmV Require Import Lib.Result Lib.PyList Lib.Sorting Lib.QMat Model.Labels Model.StateTraj
  Model.Msm Model.Ergodic Model.Peq.
Import ListNotations.
Local Open Scope nat_scope.

Record lumped := {
  lu_micro : statetraj;          (* index trajectories and states of the microstates *)
  lu_macrostates : list Z;       (* np.unique(macrotrajs) *)
  lu_assign : list Z;            (* macro label of every microstate (first occurrence) *)
  lu_positive : bool
}.

(* LumpedStateTraj.__init__ *)
Definition mk_lumped (macro micro : list (list Z)) (positive : bool) : res lumped :=
  let macrostates := unique macro in
  s <- mk micro ;;
  mt <- trajs s ;;                       (* microstate_trajs *)
  let mflat := concat mt in
  let Mflat := concat macro in
  (* state_assignment[idx] = macrotrajs_flatten[find_first(microstate, microtrajs_flatten)] *)
  let assign := map (fun ms => match index_of ms mflat with
                               | Some k => nth k Mflat 0%Z
                               | None => nth (length Mflat - 1) Mflat 0%Z   (* find_first = -1: last element *)
                               end) (st_states s) in
  Ok {| lu_micro := s; lu_macrostates := macrostates; lu_assign := assign; lu_positive := positive |}.

(* _state_assignment_idx = shift_data(state_assignment, states, arange(nstates)) *)
Definition assign_idx (l : lumped) : res (list nat) :=
  r <- shift_flat (lu_assign l) (lu_macrostates l) (arange (length (lu_macrostates l))) ;;
  Ok (map Z.to_nat r).

(* LumpedStateTraj.trajs = shift_data(_trajs, arange(nmicro), state_assignment) *)
Definition lumped_trajs (l : lumped) : res (list (list Z)) :=
  shift_nested (index_trajs (lu_micro l)) (arange (nstates (lu_micro l))) (lu_assign l).

(* aggregation matrix: A[i, assign_idx[i]] = 1 *)
Definition aggregation (nmacro : nat) (aidx : list nat) : mat :=
  map (fun a => map (fun j => if Nat.eqb a j then 1%Qc else 0%Qc) (seq 0 nmacro)) aidx.

(* the projection formula on an exact micro model T with stationary vector pi *)
Definition hs_formula (T : mat) (pi : vec) (A : mat) (positive : bool) : option mat :=
  let n := length T in
  let m := ncols A in
  let pA := vmul pi A in                                        (* peq_a *)
  let K := msub (madd (identity n) (outer (ones n) pi)) T in    (* 1 + 1 pi^T - T *)
  match inverse_cert K with
  | None => None
  | Some Z =>
      let N := mmul (transpose A) (mmul (diag pi) (mmul Z A)) in
      match inverse_cert N with
      | None => None
      | Some M2 =>
          let TA := msub (madd (identity m) (outer (ones m) pA)) (mmul M2 (diag pA)) in
          let TA' := if positive then map (map (fun x => if Qc_ltb x 0 then 0%Qc else x)) TA else TA in
          Some (row_normalize TA')
      end
  end.

(* LumpedStateTraj.estimate_markov_model(lagtime); None = certificate failed *)
Definition lumped_emm (l : lumped) (lag : nat) : res (option (mat * list Z)) :=
  let T := fst (emm (lu_micro l) lag) in
  if negb (is_ergodic atol8 T) then Err TypeError else
  aidx <- assign_idx l ;;
  Ok (match stationary T with
      | None => None
      | Some pi =>
          match hs_formula T pi (aggregation (length (lu_macrostates l)) aidx) (lu_positive l) with
          | Some TA => Some (TA, lu_macrostates l)
          | None => None
          end
      end).

Definition lumped_estimate (macro micro : list (list Z)) (positive : bool) (lag : nat)
  : res (option (mat * list Z)) :=
  l <- mk_lumped macro micro positive ;; lumped_emm l lag.

(* exact checks applied to a (rationalised) lumped matrix *)
Definition rows_sum_to_one (tol : Qc) (M : mat) : bool :=
  forallb (fun r => Qc_leb (Qc_abs (qsum r - 1)) tol) M.
Definition stationary_within (tol : Qc) (M : mat) (v : vec) : bool :=
  forallb (fun p => Qc_leb (Qc_abs (fst p - snd p)) tol) (combine (vmul v M) v).
