(* Model of msmhelper.msm.msm: transition counting, row normalisation,
   estimate_markov_model.  Definitions only. *)
From Coq Require Import List ZArith Arith Bool QArith Qcanon.
From MsmV Require Import Lib.Result Lib.PyList Lib.Sorting Lib.QMat Model.Labels Model.StateTraj.
Import ListNotations.

(* zip(traj[:-lagtime], traj[lagtime:]) *)
Definition pairs {A} (lag : nat) (t : list A) : list (A * A) :=
  combine (slice_to_neg lag t) (slice_from lag t).

Definition zmat := list (list Z).
Definition zeros (n m : nat) : zmat := repeat (repeat 0%Z m) n.
Definition zget (M : zmat) (a b : nat) : Z := nth b (nth a M []) 0%Z.
(* T_count[a, b] += 1 *)
Definition incr (M : zmat) (a b : nat) : zmat :=
  list_upd M a (list_upd (nth a M []) b (nth b (nth a M []) 0 + 1)%Z).

Definition count_traj (M : zmat) (lag : nat) (t : list nat) : zmat :=
  fold_left (fun M ab => incr M (fst ab) (snd ab)) (pairs lag t) M.

(* _generate_transition_count_matrix *)
Definition count_matrix (n lag : nat) (ts : list (list nat)) : zmat :=
  fold_left (fun M t => count_traj M lag t) ts (zeros n n).

(* StateTraj.estimate_markov_model: (row-normalised counts, states) *)
Definition emm (s : statetraj) (lag : nat) : mat * list Z :=
  (row_normalize (mat_of_Z (count_matrix (nstates s) lag (st_idx s))), st_states s).

(* msm.estimate_markov_model(trajs, lagtime) *)
Definition estimate_markov_model (ts : list (list Z)) (lag : nat) : res (mat * list Z) :=
  s <- mk ts ;; Ok (emm s lag).

(* ---------------- specification ---------------- *)
(* number of frame pairs (k, k+lag) inside trajectory t going a -> b *)
Definition pair_count (lag : nat) (t : list nat) (a b : nat) : nat :=
  length (filter (fun k => Nat.eqb (nth k t O) a && Nat.eqb (nth (k + lag) t O) b)
                 (seq 0 (length t - lag))).
Definition Spec_C (lag : nat) (ts : list (list nat)) (a b : nat) : nat :=
  list_sum (map (fun t => pair_count lag t a b) ts).
