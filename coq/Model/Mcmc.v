(* Model of msmhelper.msm.timescales: _get_cummat, _propagate_MCMC(_step),
   _estimate_waiting_times, _estimate_transition_times, _estimate_times
   (list / histogram forms) and utils.datasets.propagate_tmat.  The uniform
   draws are an explicit argument (list of exact rationals).  Definitions only. *)
From Coq Require Import List ZArith Arith Bool QArith Qcanon.
From MsmV Require Import Lib.Result Lib.PyList Lib.Sorting Lib.QMat Model.Labels Model.StateTraj Model.Msm Model.Events.
Import ListNotations.
Local Open Scope nat_scope.

(* np.argsort(row)[::-1]: ascending stable insertion sort of (value, index), reversed *)
Fixpoint ins_asc (x : Qc * nat) (l : list (Qc * nat)) : list (Qc * nat) :=
  match l with
  | [] => [x]
  | y :: t => if Qc_ltb (fst x) (fst y) then x :: l else y :: ins_asc x t
  end.
Definition argsort_desc (row : vec) : list nat :=
  rev (map snd (fold_left (fun acc x => ins_asc x acc) (combine row (seq 0 (length row))) [])).

Fixpoint cumsum_from (acc : Qc) (l : vec) : vec :=
  match l with [] => [] | x :: t => (acc + x)%Qc :: cumsum_from (acc + x)%Qc t end.
Definition cumsum (l : vec) : vec := cumsum_from 0%Qc l.

(* one row of (cummat_perm, state_perm): cumulative sums of the row sorted by descending
   probability; from the last column with T_ij > 0 on the value is forced to 1
   (idx_last = max(count_nonzero(row), 1) - 1; cummat_perm[idx, idx_last:] = 1) *)
Definition count_nonzero (row : vec) : nat := length (filter (fun x => negb (Qc_eqb x 0)) row).
Definition cum_row (row : vec) : vec * list nat :=
  let perm := argsort_desc row in
  let c := cumsum (map (fun k => nth k row 0%Qc) perm) in
  let idx_last := Nat.max (count_nonzero row) 1 - 1 in
  (firstn idx_last c ++ repeat 1%Qc (length c - idx_last), perm).

Definition cummat := list (vec * list nat).

Definition get_cummat (T : mat) : res cummat :=
  if existsb (existsb (fun x => Qc_ltb x 0)) T then Err ValueError else Ok (map cum_row T).

(* first column whose cumulative value exceeds the draw (strictly) *)
Fixpoint first_lt (c : vec) (u : Qc) : option nat :=
  match c with
  | [] => None
  | x :: t => if Qc_ltb u x then Some 0
              else match first_lt t u with Some k => Some (S k) | None => None end
  end.
Fixpoint argmax_from (best : Qc) (bi i : nat) (l : vec) : nat :=
  match l with
  | [] => bi
  | x :: t => if Qc_ltb best x then argmax_from x i (S i) t else argmax_from best bi (S i) t
  end.
Definition argmax (l : vec) : nat := match l with [] => 0 | x :: t => argmax_from x 0 1 t end.

(* _propagate_MCMC_step with the draw u *)
Definition mc_step (cm : cummat) (from : nat) (u : Qc) : nat :=
  let '(c, p) := nth from cm ([], []) in
  match first_lt c u with
  | Some k => nth k p 0
  | None => nth (argmax c) p 0
  end.

(* states visited after each draw *)
Fixpoint chain_from (cm : cummat) (s : nat) (us : list Qc) : list nat :=
  match us with
  | [] => []
  | u :: r => let s' := mc_step cm s u in s' :: chain_from cm s' r
  end.
(* _propagate_MCMC(cummat, start, steps): frame 0 is the start, steps-1 draws *)
Definition propagate (cm : cummat) (start : nat) (us : list Qc) : list nat := start :: chain_from cm start us.

(* utils.datasets.propagate_tmat: row-normalised cumulative sums, identity permutation *)
Definition tmat_cummat (T : mat) : cummat :=
  map (fun r => (cumsum r, seq 0 (length T))) (row_normalize T).

(* ---------------- waiting / transition time counters ---------------- *)
Fixpoint count_add (d : list (nat * nat)) (k : nat) : list (nat * nat) :=
  match d with
  | [] => [(k, 1)]
  | (k', c) :: t => if Nat.eqb k k' then (k', S c) :: t else (k', c) :: count_add t k
  end.

(* _estimate_waiting_times: the chain is propagated inside the loop *)
Fixpoint wt_online (cm : cummat) (idx : nat) (op : bool) (i0 : nat) (state : nat)
         (S F : list nat) (us : list Qc) (d : list (nat * nat)) : list (nat * nat) :=
  match us with
  | [] => d
  | u :: r =>
      let s := mc_step cm state u in
      if negb op && existsb (Nat.eqb s) S then wt_online cm (idx + 1) true idx s S F r d
      else if op && existsb (Nat.eqb s) F then wt_online cm (idx + 1) false i0 s S F r (count_add d (idx - i0))
      else wt_online cm (idx + 1) op i0 s S F r d
  end.
(* _estimate_transition_times: re-open on every start-set hit *)
Fixpoint tt_online (cm : cummat) (idx : nat) (op : bool) (i0 : nat) (state : nat)
         (S F : list nat) (us : list Qc) (d : list (nat * nat)) : list (nat * nat) :=
  match us with
  | [] => d
  | u :: r =>
      let s := mc_step cm state u in
      if existsb (Nat.eqb s) S then tt_online cm (idx + 1) true idx s S F r d
      else if op && existsb (Nat.eqb s) F then tt_online cm (idx + 1) false i0 s S F r (count_add d (idx - i0))
      else tt_online cm (idx + 1) op i0 s S F r d
  end.

(* np.repeat(keys, values) *)
Definition expand (d : list (nat * nat)) : list nat := concat (map (fun kc => repeat (fst kc) (snd kc)) d).

(* histogram form: pts[time] = count; density pts/(sum*lag); edges arange(len+1)*lag *)
Definition hist_pts (d : list (nat * nat)) : list nat :=
  let mx := fold_left Nat.max (map fst d) 0 in
  map (fun t => fold_left (fun acc kc => if Nat.eqb (fst kc) t then snd kc else acc) d 0) (seq 0 (mx + 1)).
Definition hist_density (d : list (nat * nat)) (lag : nat) : vec :=
  let pts := hist_pts d in
  let tot := list_sum pts in
  map (fun c => (Qc_of_Z (Z.of_nat c) / (Qc_of_Z (Z.of_nat tot) * Qc_of_Z (Z.of_nat lag)))%Qc) pts.
Definition hist_edges (d : list (nat * nat)) (lag : nat) : list nat :=
  map (fun k => k * lag) (seq 0 (length (hist_pts d) + 1)).

(* ---------------- specification side ---------------- *)
(* durations of the events of the realised chain (frames = states after each draw) *)
Definition chain_durations (realised : list nat) (S F : list nat) : list nat :=
  map (fun p => snd p - fst p)
      (events (map Z.of_nat realised) (map Z.of_nat S) (map Z.of_nat F)).
(* transition events: from the LAST start-set frame of each waiting event *)
Definition last_start (t : list nat) (S : list nat) (s e : nat) : nat :=
  fold_left (fun acc k => if existsb (Nat.eqb (nth k t 0)) S then k else acc) (seq s (e - s)) s.
Definition chain_tt_durations (realised : list nat) (S F : list nat) : list nat :=
  map (fun p => snd p - last_start realised S (fst p) (snd p))
      (events (map Z.of_nat realised) (map Z.of_nat S) (map Z.of_nat F)).
