(* Model of the decision logic of msmhelper.msm.timescales.implied_timescales and of
   the ordering / selection rule of msm.utils.linalg; exact checkers for
   eigen-pairs (the spectrum itself is LAPACK's).  Definitions only. *)
From Coq Require Import List ZArith Arith Bool QArith Qcanon.
From MsmV Require Import Lib.Result Lib.PyList Lib.QMat.
Import ListNotations.
Local Open Scope nat_scope.

(* complex numbers as pairs of exact rationals *)
Definition cplx := (Qc * Qc)%type.
Definition cadd (a b : cplx) : cplx := ((fst a + fst b)%Qc, (snd a + snd b)%Qc).
Definition csub (a b : cplx) : cplx := ((fst a - fst b)%Qc, (snd a - snd b)%Qc).
Definition cmul (a b : cplx) : cplx :=
  ((fst a * fst b - snd a * snd b)%Qc, (fst a * snd b + snd a * fst b)%Qc).
Definition cscale (q : Qc) (a : cplx) : cplx := ((q * fst a)%Qc, (q * snd a)%Qc).
Definition cnorm1 (a : cplx) : Qc := (Qc_abs (fst a) + Qc_abs (snd a))%Qc.     (* |re| + |im| >= |a| *)
Definition csum (l : list cplx) : cplx := fold_right cadd (0%Qc, 0%Qc) l.

(* what the implied-timescale rule does with an eigenvalue, by class *)
Inductive evclass := RealNonPos | RealUnit (* 0 < lambda < 1 *) | RealGeOne | Complex.
Definition classify (lam : cplx) : evclass :=
  if negb (Qc_eqb (snd lam) 0) then Complex
  else if Qc_leb (fst lam) 0 then RealNonPos
  else if Qc_ltb (fst lam) 1 then RealUnit
  else RealGeOne.

(* outcome of the rule: NaN, or the positive number -tau / ln(lambda) *)
Inductive itsval := ItsNaN | ItsMinusTauOverLn (tau : nat) (lam : Qc) | ItsComplex (tau : nat) (lam : cplx).
Definition its_rule (tau : nat) (lam : cplx) : itsval :=
  match classify lam with
  | RealNonPos => ItsNaN
  | RealUnit => ItsMinusTauOverLn tau (fst lam)
  | RealGeOne => ItsNaN            (* ln(1) = 0: masked division; > 1 cannot occur for a stochastic matrix *)
  | Complex => ItsComplex tau lam
  end.

(* selection: eigenvalues sorted descending, drop the first, take ntimescales *)
Definition select_its {A} (ntimescales : nat) (sorted_desc : list A) : list A := firstn ntimescales (tl sorted_desc).

(* numpy sorts complex numbers lexicographically (real part, then imaginary part) *)
Definition clt (a b : cplx) : bool := Qc_ltb (fst a) (fst b) || (Qc_eqb (fst a) (fst b) && Qc_ltb (snd a) (snd b)).
Fixpoint desc_sorted (l : list cplx) : bool :=
  match l with
  | a :: ((b :: _) as t) => negb (clt a b) && desc_sorted t
  | _ => true
  end.

(* residual of a left (v T = lam v) or right (T v = lam v) eigen-pair, max-norm bound via |re|+|im| *)
Definition cvec := list cplx.
Definition cdot_q (r : vec) (v : cvec) : cplx := csum (map (fun p => cscale (fst p) (snd p)) (combine r v)).
Definition apply_right (T : mat) (v : cvec) : cvec := map (fun r => cdot_q r v) T.
Definition apply_left (T : mat) (v : cvec) : cvec := apply_right (transpose T) v.
Definition residual_ok (left : bool) (tol : Qc) (T : mat) (lam : cplx) (v : cvec) : bool :=
  let w := if left then apply_left T v else apply_right T v in
  Nat.eqb (length v) (length T) &&
  forallb (fun p => Qc_leb (cnorm1 (csub (fst p) (cmul lam (snd p)))) tol) (combine w v) &&
  existsb (fun x => Qc_ltb tol (cnorm1 x)) v.      (* not the zero vector *)

Definition trace (T : mat) : Qc := qsum (map (fun i => mget T i i) (seq 0 (length T))).

(* second eigenvalue of a two-state stochastic matrix, exactly *)
Definition two_state_lambda (T : mat) : Qc := (mget T 0 0 + mget T 1 1 - 1)%Qc.
