(* Field-generic statement of the Hummer-Szabo identities (MathComp); second,
   independent formalisation of the mathematics behind C03. *)
From mathcomp Require Import all_ssreflect all_algebra.
Set Implicit Arguments. Unset Strict Implicit. Unset Printing Implicit Defensive.
Import GRing.Theory.
Local Open Scope ring_scope.

Section HS.
Variable F : fieldType.
Variables n m : nat.
Variable T : 'M[F]_n.            (* microstate transition matrix *)
Variable p : 'rV[F]_n.           (* stationary row vector *)
Variable A : 'M[F]_(n, m).       (* 0/1 aggregation matrix *)
Let one_n : 'cV[F]_n := const_mx 1.
Let one_m : 'cV[F]_m := const_mx 1.
Hypothesis T1 : T *m one_n = one_n.
Hypothesis pT : p *m T = p.
Hypothesis p1 : p *m one_n = 1%:M.
Hypothesis A1 : A *m one_m = one_n.
Let D := diag_mx p.
Let pA : 'rV[F]_m := p *m A.
Let DA := diag_mx pA.
Let K := 1%:M + one_n *m p - T.
Hypothesis Ku : K \in unitmx.
Let Z := invmx K.
Let N := A^T *m D *m Z *m A.
Hypothesis Nu : N \in unitmx.
Let M2 := invmx N.
Definition TA := 1%:M + one_m *m pA - M2 *m DA.

Lemma diag_ones k (d : 'rV[F]_k) : diag_mx d *m (const_mx 1 : 'cV_k) = d^T.
Proof.
apply/matrixP=> i j; rewrite !mxE (bigD1 i) //= !mxE eqxx mulr1n mulr1.
rewrite big1 ?addr0 ?ord1 // => l ne; rewrite !mxE eq_sym (negbTE ne) mulr0n mul0r //.
Qed.
Lemma ones_diag k (d : 'rV[F]_k) : (const_mx 1 : 'rV_k) *m diag_mx d = d.
Proof.
apply/matrixP=> i j; rewrite !mxE (bigD1 j) //= !mxE eqxx mulr1n mul1r.
rewrite big1 ?addr0 ?ord1 // => l ne; rewrite !mxE (negbTE ne) mulr0n mulr0 //.
Qed.
Lemma K1 : K *m one_n = one_n.
Proof. by rewrite /K mulmxBl mulmxDl mul1mx -mulmxA p1 mulmx1 T1 addrK. Qed.
Lemma Z1 : Z *m one_n = one_n.
Proof. by rewrite -{1}K1 mulmxA mulVmx // mul1mx. Qed.
Lemma pK : p *m K = p.
Proof. by rewrite /K mulmxBr mulmxDr mulmx1 mulmxA p1 mul1mx pT addrK. Qed.
Lemma pZ : p *m Z = p.
Proof. by rewrite -{1}pK -mulmxA mulmxV // mulmx1. Qed.
Lemma N1 : N *m one_m = pA^T.
Proof. by rewrite /N -!mulmxA A1 Z1 diag_ones /pA trmx_mul. Qed.
Lemma oneN : (const_mx 1 : 'rV_m) *m N = pA.
Proof.
rewrite /N !mulmxA.
have -> : (const_mx 1 : 'rV_m) *m A^T = (const_mx 1 : 'rV_n).
  by rewrite -[LHS]trmxK trmx_mul trmxK trmx_const A1 trmx_const.
by rewrite ones_diag pZ.
Qed.
Lemma pA1 : pA *m one_m = 1%:M.
Proof. by rewrite /pA -mulmxA A1 p1. Qed.

Theorem hs_rowsum : TA *m one_m = one_m.
Proof.
rewrite /TA mulmxBl mulmxDl mul1mx -[one_m *m pA *m one_m]mulmxA pA1 mulmx1.
by rewrite -[M2 *m DA *m one_m]mulmxA diag_ones -N1 mulmxA mulVmx // mul1mx addrK.
Qed.
Theorem hs_stationary : pA *m TA = pA.
Proof.
rewrite /TA mulmxBr mulmxDr mulmx1 [pA *m (one_m *m pA)]mulmxA pA1 mul1mx.
by rewrite [pA *m (M2 *m DA)]mulmxA -{3}oneN -[_ *m N *m M2]mulmxA mulmxV // mulmx1 ones_diag addrK.
Qed.
End HS.
Print Assumptions hs_rowsum.
Print Assumptions hs_stationary.
