(* C09 - Chapman-Kolmogorov test reports powers of T(tau) against direct T(k tau).
   Statements only. *)
From Coq Require Import List ZArith Arith Bool QArith Qcanon.
From MsmV Require Import Lib.Result Lib.PyList Lib.QMat Model.StateTraj Model.Msm Model.Ergodic Model.HS Model.CkTest.
From MsmV Require Import Proofs.QMatFacts Proofs.CkFacts.
Import ListNotations.
Local Open Scope nat_scope.

(* the model curve is evaluated at the times k*tau, k >= 1, k*tau <= tmax, all of them *)
Theorem calc_times_spec_thm : forall lag tmax t, 1 <= lag ->
  (In t (calc_times lag tmax) <-> exists k, 1 <= k /\ t = lag * k /\ t <= tmax).
Proof. exact calc_times_spec. Qed.
Print Assumptions calc_times_spec_thm.

Theorem calc_times_increasing_thm : forall lag tmax i j, 1 <= lag -> i < j -> j < tmax / lag ->
  nth i (calc_times lag tmax) 0 < nth j (calc_times lag tmax) 0.
Proof. exact calc_times_increasing. Qed.
Print Assumptions calc_times_increasing_thm.

Theorem calc_times_empty_thm : forall lag tmax, tmax < lag -> calc_times lag tmax = [].
Proof. exact calc_times_empty. Qed.
Print Assumptions calc_times_empty_thm.

(* powers: T^(a+b) = T^a T^b; powers of a stochastic matrix stay stochastic with entries in [0,1] *)
Theorem mpow_add_thm : forall n M a b, 0 < n -> wf n n M -> mpow M (a + b) = mmul (mpow M a) (mpow M b).
Proof. exact mpow_add. Qed.
Print Assumptions mpow_add_thm.

Theorem mpow_stochastic_thm : forall n M k, 0 < n -> wf n n M -> rows_sum_one M -> entries_nonneg M ->
  rows_sum_one (mpow M k) /\ entries_nonneg (mpow M k) /\
  (forall i j, i < n -> j < n -> (mget (mpow M k) i j <= 1)%Qc).
Proof. exact mpow_stochastic. Qed.
Print Assumptions mpow_stochastic_thm.

(* the curve of state s at the k-th model time is the s-diagonal element of the k-th power
   (computed by the integer-scaled power, which equals the plain power) *)
Theorem curve_is_power_diag : forall n T ntimes s k, 0 < n -> wf n n T -> s < n -> k < ntimes ->
  nth k (nth s (model_curves T ntimes) []) 0%Qc = mget (mpow T (k + 1)) s s.
Proof.
  intros n T ntimes s k Hn Hwf Hs Hk. unfold model_curves.
  assert (HL : length T = n) by (destruct Hwf as [H _]; exact H). rewrite HL.
  set (f := fun s0 => map (fun d : vec => nth s0 d 0%Qc)
                          (map (fun k0 => diag_of (mpow_scaled T k0)) (seq 1 ntimes))).
  rewrite (nth_indep _ [] (f 0)) by (rewrite map_length, seq_length; exact Hs).
  rewrite (map_nth f), seq_nth by exact Hs. unfold f. cbn [plus].
  rewrite map_map.
  set (g := fun k0 => nth s (diag_of (mpow_scaled T k0)) 0%Qc).
  rewrite (nth_indep _ 0%Qc (g 0)) by (rewrite map_length, seq_length; exact Hk).
  rewrite (map_nth g), seq_nth by exact Hk. unfold g, diag_of.
  rewrite (mpow_scaled_eq n) by assumption.
  assert (HL2 : length (mpow T (1 + k)) = n) by (destruct (wf_mpow n T (1 + k) Hn Hwf) as [H _]; exact H).
  rewrite HL2.
  set (h := fun i => mget (mpow T (1 + k)) i i).
  rewrite (nth_indep _ 0%Qc (h 0)) by (rewrite map_length, seq_length; exact Hs).
  rewrite (map_nth h), seq_nth by exact Hs. unfold h. cbn [plus]. now rewrite Nat.add_comm.
Qed.
Print Assumptions curve_is_power_diag.

(* the reference at time t is the model estimated directly at lag t from the plain macro
   trajectory (never the projection): definitional in the model, compared by the harness *)
Theorem reference_uses_macro : forall macro t,
  fst (fst (ck_reference_at macro t)) = diag_of (fst (emm macro t)).
Proof. reflexivity. Qed.
Print Assumptions reference_uses_macro.

Example ck_example : calc_times 2 7 = [2; 4; 6] /\ calc_times 5 4 = [].
Proof. vm_compute. split; reflexivity. Qed.
Print Assumptions ck_example.
