(* C17 - Results do not depend on how the trajectories are represented.
   Every accepted container form denotes a list of integer lists; the analyses
   are functions of that denotation (the model takes nothing else).  Relabelling
   theorems: statements only. *)
From Coq Require Import List ZArith Arith Bool.
From MsmV Require Import Lib.Result Lib.PyList Lib.Sorting Model.Labels Model.StateTraj Model.Msm Model.Coring Model.Events.
From MsmV Require Import Proofs.MsmFacts Proofs.CoringFacts Proofs.EventsFacts Proofs.ViewsFacts.
Import ListNotations.
Local Open Scope nat_scope.

(* strictly increasing relabelling: state lists are relabelled, ranks (hence index
   trajectories and every matrix, timescale, waiting time, similarity) unchanged *)
Theorem monotone_states : forall phi l, increasing phi -> usort (map phi l) = map phi (usort l).
Proof. exact usort_map_increasing. Qed.
Print Assumptions monotone_states.

Theorem monotone_ranks : forall phi l x, increasing phi -> In x l ->
  rank (usort (map phi l)) (phi x) = rank (usort l) x.
Proof. exact rank_map_increasing. Qed.
Print Assumptions monotone_ranks.

(* arbitrary bijective (injective) relabelling: counts are carried along, i.e. rows
   and columns of every matrix are permuted consistently *)
Theorem bijective_counts : forall phi lag ts x y, injective phi ->
  Label_C lag (map (map phi) ts) (phi x) (phi y) = Label_C lag ts x y.
Proof. exact Label_C_injective. Qed.
Print Assumptions bijective_counts.

(* cored trajectories, events and pathways are relabelled accordingly *)
Theorem coring_relabel : forall phi w t, injective phi ->
  core_single_ref w (map phi t) = rmap (map phi) (core_single_ref w t).
Proof. exact core_single_ref_injective. Qed.
Print Assumptions coring_relabel.

Theorem events_relabel : forall phi t S F, injective phi ->
  events (map phi t) (map phi S) (map phi F) = events t S F.
Proof. exact events_injective. Qed.
Print Assumptions events_relabel.

Theorem paths_relabel : forall phi S sl, injective phi ->
  loop_erase (map phi S) (map phi sl) = map phi (loop_erase S sl).
Proof. exact loop_erase_injective. Qed.
Print Assumptions paths_relabel.

Example relabel_example :
  usort (map (fun z => 3 * z - 7)%Z [4; -1; 4; 2]%Z) = map (fun z => 3 * z - 7)%Z (usort [4; -1; 4; 2]%Z).
Proof. vm_compute. reflexivity. Qed.
Print Assumptions relabel_example.
