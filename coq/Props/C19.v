(* C19 - placeholder until Proofs/FilterFacts.v (split_array lemmas) is complete *)
From Coq Require Import List ZArith.
From MsmV Require Import Model.Filter.
Import ListNotations.
Example chunks_example : split_array [1; 2; 3; 4; 5; 6; 7]%Z 3 = [[1; 2; 3]; [4; 5; 6]; [7]]%Z /\ split_array [1; 2; 3; 4]%Z 2 = [[1; 2]; [3; 4]]%Z.
Proof. vm_compute. split; reflexivity. Qed.
Print Assumptions chunks_example.
