(* C19 - Command-line tools produce exactly what the API yields on the same files.
   Partial: click, the file system and the figure code are outside the model.  The
   commands are compositions of pieces whose theorems are in C05 (per-trajectory
   coring, per_trajectory / coring_app), C16 (limits split: limits_pieces, reader
   round trip) and C20 (per-column filter); proved here is the chunking helper. *)
From Coq Require Import List ZArith Arith Bool.
From MsmV Require Import Lib.Result Lib.PyList Model.Filter Model.Coring Model.TextIO
  Proofs.FilterFacts Proofs.CoringFacts Proofs.TextIOFacts.
Import ListNotations.
Local Open Scope nat_scope.

(* figures: the state list is partitioned into consecutive chunks, none lost or repeated ... *)
Theorem split_array_partition : forall (l : list Z) chunk, 1 <= chunk -> concat (split_array l chunk) = l.
Proof. intros l chunk. apply split_array_concat. Qed.
Print Assumptions split_array_partition.

(* ... every chunk non-empty and of at most rows x cols states *)
Theorem split_array_chunk_sizes : forall (l : list Z) chunk c, 1 <= chunk -> In c (split_array l chunk) ->
  1 <= length c /\ length c <= chunk.
Proof. intros l chunk c. apply split_array_sizes. Qed.
Print Assumptions split_array_chunk_sizes.

(* coring command: with a limits file every trajectory is cored on its own: the pieces given by
   the limits are exactly the trajectories handed to the per-trajectory map *)
Theorem cli_no_cross_boundary : forall (rows : list (list Z)) ls parts w iter,
  split_limits rows (Some ls) = Ok parts ->
  map (@length (list Z)) parts = ls /\ concat parts = rows /\
  forall ts, core_stage w iter ts = mapM (fun t => core_single t w iter) ts.
Proof.
  intros rows ls parts w iter H. destruct (split_limits_spec rows ls parts H) as [H1 H2].
  split; [exact H1|]. split; [exact H2|]. reflexivity.
Qed.
Print Assumptions cli_no_cross_boundary.

Example chunks_example :
  split_array [1; 2; 3; 4; 5; 6; 7]%Z 3 = [[1; 2; 3]; [4; 5; 6]; [7]]%Z /\ split_array [1; 2; 3; 4]%Z 2 = [[1; 2]; [3; 4]]%Z.
Proof. vm_compute. split; reflexivity. Qed.
Print Assumptions chunks_example.
