(* C11 - Trajectories are independent pieces in every analysis. Statements only. *)
From Coq Require Import List ZArith Arith Bool Permutation.
From MsmV Require Import Lib.Result Lib.PyList Lib.Sorting Model.Labels Model.StateTraj Model.Msm Model.Coring Model.Events.
From MsmV Require Import Proofs.MsmFacts Proofs.CoringFacts Proofs.EventsFacts Proofs.ViewsFacts.
Import ListNotations.
Local Open Scope nat_scope.

(* the counts behind a model are the sum of the per-trajectory counts ... *)
Theorem counts_app : forall lag ts1 ts2 x y,
  Label_C lag (ts1 ++ ts2) x y = Label_C lag ts1 x y + Label_C lag ts2 x y.
Proof. exact Label_C_app. Qed.
Print Assumptions counts_app.

(* ... unchanged by reordering the trajectories ... *)
Theorem counts_perm : forall lag ts ts' x y, Permutation ts ts' -> Label_C lag ts x y = Label_C lag ts' x y.
Proof. exact Label_C_perm. Qed.
Print Assumptions counts_perm.

(* ... and cutting a trajectory in two removes exactly the straddling pairs *)
Theorem counts_cut_thm : forall lag t1 t2 x y, 1 <= lag ->
  label_pair_count lag (t1 ++ t2) x y
  = label_pair_count lag t1 x y + label_pair_count lag t2 x y + straddle lag t1 t2 x y.
Proof. exact counts_cut. Qed.
Print Assumptions counts_cut_thm.

(* coring, waiting times and pathway events of a set = concatenation of the per-trajectory results *)
Theorem coring_map : forall w iter ts, core_stage w iter ts = mapM (fun t => core_single t w iter) ts.
Proof. reflexivity. Qed.
Print Assumptions coring_map.

Theorem coring_app : forall w iter ts1 ts2 r, core_stage w iter (ts1 ++ ts2) = Ok r ->
  exists r1 r2, core_stage w iter ts1 = Ok r1 /\ core_stage w iter ts2 = Ok r2 /\ r = r1 ++ r2.
Proof. exact core_stage_app. Qed.
Print Assumptions coring_app.

Theorem wt_concat_map : forall (cur : list (list Z)) S F cur',
  concat (map (fun t => wt_single t S F) (cur ++ cur'))
  = concat (map (fun t => wt_single t S F) cur) ++ concat (map (fun t => wt_single t S F) cur').
Proof. intros. now rewrite map_app, concat_app. Qed.
Print Assumptions wt_concat_map.

Theorem paths_concat_map : forall (cur : list (list Z)) S F cur',
  concat (map (fun t => paths_single t S F) (cur ++ cur'))
  = concat (map (fun t => paths_single t S F) cur) ++ concat (map (fun t => paths_single t S F) cur').
Proof. intros. now rewrite map_app, concat_app. Qed.
Print Assumptions paths_concat_map.

Example cut_example :
  label_pair_count 2 ([1; 2; 1; 2] ++ [2; 1])%Z 1%Z 2%Z = 1
  /\ label_pair_count 2 [1; 2; 1; 2]%Z 1%Z 2%Z = 0 /\ straddle 2 [1; 2; 1; 2]%Z [2; 1]%Z 1%Z 2%Z = 1
  /\ label_pair_count 2 ([1; 2; 1; 2] ++ [2; 1])%Z 2%Z 1%Z = 1.
Proof. vm_compute. repeat split; reflexivity. Qed.
Print Assumptions cut_example.
