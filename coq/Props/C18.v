(* C18 - Analyses are pure: arguments untouched, repeatable, generator-independent.
   Partial by nature: that a compiled kernel does not write through a buffer is a
   runtime fact.  The theorems are about the model's discipline (a call reads
   argument values and allocates its results); the byte snapshots and repeated
   calls of the harness are the tie. *)
From Coq Require Import List ZArith Arith Bool.
From MsmV Require Import Lib.Result Model.StateTraj Model.Heap Proofs.HeapFacts.
Import ListNotations.

Theorem api_frame_thm : forall w args f k, k < length (user w) ->
  nth k (user (api_call w args f)) [] = nth k (user w) [].
Proof. exact api_frame. Qed.
Print Assumptions api_frame_thm.

Theorem api_history_frame : forall (calls : list (list nat * (list (list Z) -> list (list Z)))) w k,
  k < length (user w) ->
  nth k (user (fold_left (fun w c => api_call w (fst c) (snd c)) calls w)) [] = nth k (user w) [].
Proof. exact api_calls_frame. Qed.
Print Assumptions api_history_frame.

Theorem api_deterministic_thm : forall w w' args f,
  map (fun k => nth k (user w) []) args = map (fun k => nth k (user w') []) args ->
  skipn (length (user w)) (user (api_call w args f)) = skipn (length (user w')) (user (api_call w' args f)).
Proof. exact api_deterministic. Qed.
Print Assumptions api_deterministic_thm.

(* the object passed to a call is not changed either: calls never touch private arrays *)
Theorem api_object_untouched : forall w args f, priv (api_call w args f) = priv w.
Proof. reflexivity. Qed.
Print Assumptions api_object_untouched.

Example frame_example :
  user (api_call {| priv := []; user := [[1; 2]; [3]]%Z |} [0] (fun a => map (map (Z.add 1)) a))
  = [[1; 2]; [3]; [2; 3]]%Z.
Proof. vm_compute. reflexivity. Qed.
Print Assumptions frame_example.
