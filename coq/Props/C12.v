(* C12 - Compiled and interpreted execution, and any thread count, agree.
   The model is configuration-free: every model function is one total Gallina
   function whose result (value or error kind) both configurations are compared
   against in every other property's check.  What can be stated as a theorem is
   the order-freedom of the exact reduction behind the parallel kernels; that
   numba compiles the kernels faithfully is a runtime fact covered only by the
   differential runs (JIT on/off, NUMBA_NUM_THREADS in {1,2,3,16}). *)
From Coq Require Import List ZArith Arith Bool Permutation QArith Qcanon.
From MsmV Require Import Lib.Result Lib.QMat Proofs.MiscFacts.
Import ListNotations.

Theorem prange_order_free : forall l l' : list Qc, Permutation l l' -> qsum l = qsum l'.
Proof. exact qsum_perm. Qed.
Print Assumptions prange_order_free.

Theorem prange_chunking_free : forall chunks : list (list Qc), qsum (map qsum chunks) = qsum (concat chunks).
Proof. exact qsum_chunks. Qed.
Print Assumptions prange_chunking_free.

(* error kinds are values of a six-valued type: "rejected iff rejected with the same kind"
   is decidable equality of results *)
Theorem errkind_eq_dec : forall a b : errkind, {a = b} + {a <> b}.
Proof. decide equality. Qed.
Print Assumptions errkind_eq_dec.

Example chunk_example :
  qsum (map qsum [[1; 1]; []; [1]]%Qc) = qsum [1; 1; 1]%Qc.
Proof. vm_compute. reflexivity. Qed.
Print Assumptions chunk_example.
