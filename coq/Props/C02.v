(* C02 - StateTraj / LumpedStateTraj are faithful, isolated views of the input.
   Statements only. *)
From Coq Require Import List ZArith Arith Bool.
From MsmV Require Import Lib.Result Lib.PyList Lib.Sorting Model.Labels Model.StateTraj Model.HS Model.Heap.
From MsmV Require Import Proofs.LabelsFacts Proofs.MsmFacts Proofs.StateTrajFacts Proofs.ViewsFacts Proofs.HeapFacts.
Import ListNotations.
Local Open Scope nat_scope.

(* the constructor (all three label branches) builds ranks in the sorted distinct labels *)
Theorem mk_is_spec : forall ts,
  concat ts <> [] -> (forall v, In v (concat ts) -> small29 v) -> mk ts = Ok (mk_spec ts).
Proof. exact mk_spec_correct. Qed.
Print Assumptions mk_is_spec.

(* the object reports the input back exactly: same trajectories, lengths, labels *)
Theorem trajs_mk : forall ts,
  concat ts <> [] -> (forall v, In v (concat ts) -> small29 v) -> trajs (mk_spec ts) = Ok ts.
Proof. exact trajs_mk_spec. Qed.
Print Assumptions trajs_mk.

Theorem states_mk : forall ts, st_states (mk_spec ts) = usort (concat ts).
Proof. exact states_mk_spec. Qed.
Print Assumptions states_mk.

Theorem index_rank_thm : forall ts, st_idx (mk_spec ts) = map (map (rank (unique ts))) ts.
Proof. exact index_rank. Qed.
Print Assumptions index_rank_thm.

Theorem counters_mk : forall ts,
  ntrajs (mk_spec ts) = length ts /\ nframes (mk_spec ts) = length (concat ts) /\
  nstates (mk_spec ts) = length (usort (concat ts)).
Proof. exact counters_mk_spec. Qed.
Print Assumptions counters_mk.

(* a lumped object reports the macro trajectories, the micro trajectories and the
   micro -> macro assignment it was built from, for every consistent lumping f *)
Theorem lumped_views_thm : forall (f : Z -> Z) macro micro pos,
  concat micro <> [] -> (forall v, In v (concat micro) -> small29 v) ->
  (forall v, In v (concat micro) -> small29 (f v)) -> macro = map (map f) micro ->
  exists l, mk_lumped macro micro pos = Ok l /\
    lumped_trajs l = Ok macro /\ trajs (lu_micro l) = Ok micro /\
    lu_assign l = map f (unique micro) /\ lu_macrostates l = unique macro /\ lu_positive l = pos.
Proof. exact lumped_views. Qed.
Print Assumptions lumped_views_thm.

(* isolation (about the aliasing model: accessors copy, the constructor copies):
   for every sequence of reads and in-place writes by the caller, every accessor
   still reports what it reported at construction; StateTraj(obj) is obj *)
Theorem isolation_thm : forall ops w a, observe a (fold_left step ops w) = observe a w.
Proof. exact isolation. Qed.
Print Assumptions isolation_thm.

Theorem rebuild_same_object : forall w, step w Rebuild = w.
Proof. exact rebuild_same. Qed.
Print Assumptions rebuild_same_object.

Example views_example :
  rmap st_states (mk [[7; -2; 7]; [5; 7]]%Z) = Ok [-2; 5; 7]%Z
  /\ bind (mk [[7; -2; 7]; [5; 7]]%Z) trajs = Ok [[7; -2; 7]; [5; 7]]%Z
  /\ bind (mk_lumped [[1; 1; 2; 2; 1]]%Z [[4; 9; 6; 7; 4]]%Z false) lumped_trajs = Ok [[1; 1; 2; 2; 1]]%Z.
Proof. vm_compute. repeat split; reflexivity. Qed.
Print Assumptions views_example.
