(* C06 - Trajectory waiting times and pathways are exact event extractions.
   Statements only; proofs in Proofs/EventsFacts.v *)
From Coq Require Import List ZArith Arith Bool Permutation Sorted.
From MsmV Require Import Lib.Result Lib.PyList Lib.Sorting Model.Labels Model.StateTraj Model.Events.
From MsmV Require Import Proofs.EventsFacts.
Import ListNotations.
Local Open Scope nat_scope.

(* the automaton (open flag, start index) = "first frame in S while no event is
   open, then the first later frame in F, emit, continue after it"; an event
   still open at the end of the trajectory is dropped (events_ref returns []) *)
Theorem events_eq_ref_thm : forall t S F, events t S F = events_ref (length t) 0 t S F.
Proof. exact events_eq_ref. Qed.
Print Assumptions events_eq_ref_thm.

Theorem events_inside_trajectory : forall fuel off s S F p, In p (events_ref fuel off s S F) ->
  off <= fst p /\ fst p < snd p /\ snd p < off + length s.
Proof. exact events_ref_bounds. Qed.
Print Assumptions events_inside_trajectory.

Theorem events_ordered_disjoint : forall fuel off s S F,
  StronglySorted (fun p q => snd p < fst q) (events_ref fuel off s S F).
Proof. exact events_ref_sorted. Qed.
Print Assumptions events_ordered_disjoint.

Theorem events_sound_thm : forall t S F p, In p (events t S F) ->
  mem_Z (nth (fst p) t 0%Z) S = true /\ mem_Z (nth (snd p) t 0%Z) F = true /\
  (forall k, fst p < k -> k < snd p -> mem_Z (nth k t 0%Z) F = false).
Proof. exact events_sound. Qed.
Print Assumptions events_sound_thm.

(* waiting times of a set = concatenation of the per-trajectory lists, in order
   (definitional: the outer loop only concatenates) *)
Theorem wt_concat : forall ts start final r,
  estimate_waiting_times ts start final = Ok r ->
  exists st sf cur, mk ts = Ok st /\ validate (st_states st) start final = Ok sf /\ trajs st = Ok cur /\
    r = concat (map (fun t => wt_single t (fst sf) (snd sf)) cur).
Proof.
  intros ts start final r. unfold estimate_waiting_times.
  destruct (mk ts) as [st|] eqn:E1; cbn [bind]; [|discriminate].
  destruct (validate _ _ _) as [sf|] eqn:E2; cbn [bind]; [|discriminate].
  destruct (trajs st) as [cur|] eqn:E3; cbn [bind]; [|discriminate].
  intros H; injection H as <-. exists st, sf, cur. repeat split; assumption.
Qed.
Print Assumptions wt_concat.

(* loop-erased keys: no label repeats, ends at the final-set frame, consecutive
   labels are observed transitions, begins at the LAST start-set frame *)
Theorem path_nodup : forall S slice, NoDup (loop_erase S slice).
Proof. exact loop_erase_nodup. Qed.
Print Assumptions path_nodup.

Theorem path_last : forall S slice x, exists p, loop_erase S (slice ++ [x]) = p ++ [x].
Proof. exact loop_erase_last. Qed.
Print Assumptions path_last.

Theorem path_steps_observed : forall S slice a b,
  adjacent a b (loop_erase S slice) -> adjacent a b slice.
Proof. exact loop_erase_steps. Qed.
Print Assumptions path_steps_observed.

Theorem path_labels_occur : forall S slice x, In x (loop_erase S slice) -> In x slice.
Proof. exact loop_erase_incl. Qed.
Print Assumptions path_labels_occur.

Theorem path_head : forall S pre x post,
  mem_Z x S = true -> (forall y, In y post -> mem_Z y S = false) ->
  exists tl, loop_erase S (pre ++ x :: post) = x :: tl /\ (forall y, In y tl -> mem_Z y S = false).
Proof. exact loop_erase_head. Qed.
Print Assumptions path_head.

(* the dictionary partitions exactly the events; keys distinct; the times of a
   key are those of its events in order of occurrence *)
Theorem paths_partition : forall l, Permutation (flatten_dict (group l)) l.
Proof. exact group_partition. Qed.
Print Assumptions paths_partition.

Theorem paths_keys_distinct : forall l, NoDup (map fst (group l)).
Proof. exact group_keys_nodup. Qed.
Print Assumptions paths_keys_distinct.

Theorem paths_values_in_order : forall l k vs, In (k, vs) (group l) ->
  vs = map snd (filter (fun kv => list_eqb (fst kv) k) l).
Proof. exact group_values. Qed.
Print Assumptions paths_values_in_order.

(* validation: the sorted-merge count equals the number of common labels *)
Theorem intersect_spec_thm : forall a b, ssorted a -> ssorted b ->
  intersect a b = length (filter (fun x => mem_Z x b) a).
Proof. exact intersect_spec. Qed.
Print Assumptions intersect_spec_thm.

Example events_example :
  events [1; 2; 3; 1; 2; 2; 3; 1; 3; 1]%Z [1]%Z [3]%Z = [(0, 2); (3, 6); (7, 8)]
  /\ loop_erase [1]%Z [1; 2; 3; 4; 2; 5; 4; 3; 6]%Z = [1; 2; 5; 4; 3; 6]%Z.
Proof. vm_compute. split; reflexivity. Qed.
Print Assumptions events_example.
