(* C13 - Discretization similarity equals its contingency-table formula.
   Statements only; proofs in Proofs/SimilarityFacts.v *)
From Coq Require Import List ZArith Arith Bool Permutation QArith Qcanon.
From MsmV Require Import Lib.Result Lib.PyList Lib.Sorting Lib.QMat Model.Labels Model.StateTraj
  Model.Events Model.Similarity Proofs.SimilarityFacts.
Import ListNotations.
Local Open Scope nat_scope.

(* the computation as coded (frame-index lists per state, sorted-merge counts,
   two normalised tables, per-frame sum, /N) = the contingency formula
   directed  (1/N) sum_ij n_ij^2 / n_.j
   symmetric (1/N) sum_ij n_ij max(n_ij/n_i., n_ij/n_.j) *)
Theorem model_eq_formula : forall n1 n2 f1 f2 sym,
  length f1 = length f2 -> (forall x, In x f1 -> x < n1) -> (forall x, In x f2 -> x < n2) ->
  compare_idx n1 n2 f1 f2 sym = sim_spec n1 n2 (combine f1 f2) sym.
Proof. exact compare_idx_eq_spec. Qed.
Print Assumptions model_eq_formula.

(* permuting frames jointly / splitting them into trajectories differently *)
Theorem frame_perm_invariant : forall n1 n2 fr fr' sym,
  Permutation fr fr' -> sim_spec n1 n2 fr sym = sim_spec n1 n2 fr' sym.
Proof. exact sim_spec_perm. Qed.
Print Assumptions frame_perm_invariant.

Theorem sym_ge_dir : forall n1 n2 fr, in_range n1 n2 fr ->
  (sim_spec n1 n2 fr false <= sim_spec n1 n2 fr true)%Qc.
Proof. exact sim_sym_ge_dir. Qed.
Print Assumptions sym_ge_dir.

Theorem sym_swap : forall n1 n2 fr,
  sim_spec n1 n2 fr true = sim_spec n2 n1 (map (fun p => (snd p, fst p)) fr) true.
Proof. exact sim_sym_swap. Qed.
Print Assumptions sym_swap.

Theorem sim_01 : forall n1 n2 fr sym, in_range n1 n2 fr -> fr <> [] ->
  (0 <= sim_spec n1 n2 fr sym)%Qc /\ (sim_spec n1 n2 fr sym <= 1)%Qc.
Proof. exact sim_spec_01. Qed.
Print Assumptions sim_01.

Theorem refine_dir_one : forall n1 n2 fr (g : nat -> nat), in_range n1 n2 fr -> fr <> [] ->
  (forall p, In p fr -> fst p = g (snd p)) -> sim_spec n1 n2 fr false = 1%Qc.
Proof. exact sim_refine_dir_one. Qed.
Print Assumptions refine_dir_one.

Theorem identical_is_one : forall n f sym, f <> [] -> (forall x, In x f -> x < n) ->
  sim_spec n n (map (fun x => (x, x)) f) sym = 1%Qc.
Proof. exact sim_identical_one. Qed.
Print Assumptions identical_is_one.

Example sim_example :
  rmap (fun q : Qc => this q) (compare_discretization [[0;0;1;1;2;2;2;0]%Z] [[5;5;5;7;7;7;5;5]%Z] 0) = Ok (17 # 24)%Q
  /\ rmap (fun q : Qc => this q) (compare_discretization [[1;2;1]%Z] [[3;3;3]%Z] 0) = Err ValueError.
Proof. vm_compute. split; reflexivity. Qed.
Print Assumptions sim_example.
