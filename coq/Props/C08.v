(* C08 - MSM waiting/transition times are first-passage statistics of the chain.
   Statements only; proofs in Proofs/McmcFacts.v.  Partial: the distributional
   sentence ("first-passage-time distribution implied by T") reduces to C07's
   interval theorem plus this exact coupling plus generator uniformity (trusted). *)
From Coq Require Import List ZArith Arith Bool Permutation QArith Qcanon.
From MsmV Require Import Lib.Result Lib.PyList Lib.QMat Model.Events Model.Mcmc Proofs.McmcFacts.
Import ListNotations.
Local Open Scope nat_scope.

(* the online waiting-time counter = durations of the events (first entry into the start
   set while closed -> next hit of the final set) of the chain realised by the same draws *)
Theorem wt_online_offline_thm : forall cm start S F us,
  Permutation (expand (wt_online cm 0 false 0 start S F us []))
              (chain_durations (chain_from cm start us) S F).
Proof. exact wt_online_offline. Qed.
Print Assumptions wt_online_offline_thm.

(* transition times: from the LAST visit of the start set; for disjoint start/final sets *)
Theorem tt_online_offline_thm : forall cm start S F us, (forall x, In x S -> ~ In x F) ->
  Permutation (expand (tt_online cm 0 false 0 start S F us []))
              (chain_tt_durations (chain_from cm start us) S F).
Proof. exact tt_online_offline. Qed.
Print Assumptions tt_online_offline_thm.

(* histogram form: edges are consecutive multiples of the lag, bin k holds the fraction of
   events lasting k lag times, the density integrates to one *)
Theorem edges_multiples : forall d lag k, k <= length (hist_pts d) -> nth k (hist_edges d lag) 0 = k * lag.
Proof. exact hist_edges_multiples. Qed.
Print Assumptions edges_multiples.

Theorem bin_k_fraction : forall d lag k, 0 < lag -> 0 < list_sum (hist_pts d) -> k < length (hist_pts d) ->
  (nth k (hist_density d lag) 0 * Qc_of_Z (Z.of_nat lag)
   = Qc_of_Z (Z.of_nat (nth k (hist_pts d) 0%nat)) / Qc_of_Z (Z.of_nat (list_sum (hist_pts d))))%Qc.
Proof. exact hist_bin_fraction. Qed.
Print Assumptions bin_k_fraction.

Theorem density_integrates_to_one : forall d lag, 0 < lag -> 0 < list_sum (hist_pts d) ->
  qsum (map (fun x => (x * Qc_of_Z (Z.of_nat lag))%Qc) (hist_density d lag)) = 1%Qc.
Proof. exact hist_density_integrates. Qed.
Print Assumptions density_integrates_to_one.

Example wt_example :
  let cm := [([Q2Qc (1#2); 1%Qc], [1; 0]%nat); ([Q2Qc (1#2); 1%Qc], [0; 1]%nat)] in
  let us := map (fun z => Q2Qc (z # 10)) [7; 2; 2; 9; 1; 6; 3]%Z in
  chain_from cm 1%nat us = [1; 0; 1; 1; 0; 0; 1] /\
  expand (wt_online cm 0 false 0 1%nat [0] [1] us []) = [1; 2].
Proof. vm_compute. split; reflexivity. Qed.
Print Assumptions wt_example.
