(* C16 - Text input/output round-trips data and honours columns and limits.
   Statements only; proofs in Proofs/TextIOFacts.v.  Partial: pandas / numpy
   parsers and printers are MODELLED at byte level (Model/TextIO.v); the tie
   compares bytes and tables in both directions. *)
From Coq Require Import List ZArith NArith Arith Bool.
From MsmV Require Import Lib.Result Lib.PyList Model.TextIO Proofs.TextIOFacts.
Import ListNotations.
Local Open Scope nat_scope.

(* a number written in any of the formats %.5f / %.0f / %d is read back *)
Theorem number_roundtrip : forall f z, parse_num (render_num f z) = Some z.
Proof. exact parse_render_num. Qed.
Print Assumptions number_roundtrip.

(* whatever integer table is written, with any header lines (free of line ends; the
   writer splits the header text at LF / CR), is read back identically: comment lines ignored *)
Theorem roundtrip_thm : forall f header_lines table ncols,
  (forall l, In l header_lines -> no_eol l) ->
  table <> [] -> 1 <= ncols -> (forall r, In r table -> length r = ncols) ->
  parse_table [bHASH] (render f header_lines table) = Ok table.
Proof. exact roundtrip. Qed.
Print Assumptions roundtrip_thm.

(* requested columns in the requested order (sorted read + swap back, as coded) *)
Theorem cols_order : forall cols row j, NoDup cols -> (forall c, In c cols -> c < length row) ->
  j < length cols -> nth j (select_cols cols row) 0%Z = nth (nth j cols 0) row 0%Z.
Proof. exact select_cols_order. Qed.
Print Assumptions cols_order.

Theorem cols_count : forall cols row, length (select_cols cols row) = length cols.
Proof. exact select_cols_length. Qed.
Print Assumptions cols_count.

Theorem nrows_prefix : forall cs s k t, parse_table cs s = Ok t -> opentxt cs s None (Some k) = Ok (firstn k t).
Proof. exact opentxt_nrows. Qed.
Print Assumptions nrows_prefix.

(* limits: pieces of exactly the listed lengths whose concatenation is the whole file;
   limits that do not add up are rejected; no limits file = one piece *)
Theorem limits_pieces : forall (data : list (list Z)) ls parts, split_limits data (Some ls) = Ok parts ->
  map (@length (list Z)) parts = ls /\ concat parts = data.
Proof. intros data ls parts. apply split_limits_spec. Qed.
Print Assumptions limits_pieces.

Theorem limits_reject : forall (data : list (list Z)) ls, list_sum ls <> length data ->
  split_limits data (Some ls) = Err ValueError.
Proof. intros data ls. apply split_limits_reject. Qed.
Print Assumptions limits_reject.

(* microstate reader: requested integer dtype, 16 bit only by default; non-integer rejected *)
Theorem micro_dtype : forall cs s lim d dt parts, openmicrostates cs s lim d = Ok (dt, parts) ->
  dt = match d with Some x => x | None => Int16 end /\ dt <> Float64.
Proof. exact openmicrostates_dtype. Qed.
Print Assumptions micro_dtype.

Theorem micro_rejects_float : forall cs s lim, openmicrostates cs s lim (Some Float64) = Err TypeError.
Proof. exact openmicrostates_float. Qed.
Print Assumptions micro_rejects_float.

Theorem micro_labels_unchanged : forall z, (-32768 <= z < 32768)%Z -> dtype_wrap Int16 z = z.
Proof. exact dtype_wrap_fits. Qed.
Print Assumptions micro_labels_unchanged.

Example io_example :
  opentxt [bHASH] (render F5 [[104; 35; 105]] [[1; -2; 300]; [40000; 5; -6]]%Z) (Some [2; 0]) None
  = Ok [[300; 1]; [-6; 40000]]%Z
  /\ is_ok (parse_table [bHASH] (render F5 [[104; 13; 105]] [[1; 2]]%Z)) = false.
Proof. vm_compute. split; reflexivity. Qed.
Print Assumptions io_example.
