(* C16 - placeholder until Proofs/TextIOFacts.v is complete *)
From Coq Require Import List ZArith.
From MsmV Require Import Lib.Result Model.TextIO.
Import ListNotations.
Example io_example :
  opentxt [bHASH] (render F5 [[104; 35; 105]] [[1; -2; 300]; [40000; 5; -6]]%Z) (Some [2; 0]) None
  = Ok [[300; 1]; [-6; 40000]]%Z.
Proof. vm_compute. reflexivity. Qed.
Print Assumptions io_example.
