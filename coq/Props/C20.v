(* C20 - placeholder until Proofs/FilterFacts.v is complete *)
From Coq Require Import List ZArith QArith Qcanon.
From MsmV Require Import Lib.QMat Model.Filter.
Import ListNotations.
Example rm_example :
  map (fun q : Qc => this q) (runningmean [1; 1 + 1; 1 + 1 + 1; 1 + 1 + 1 + 1]%Qc 4) = [3 # 4; 3 # 2; 5 # 2; 9 # 4]%Q.
Proof. vm_compute. reflexivity. Qed.
Print Assumptions rm_example.
