(* C20 - Smoothing filters are per-column, shape-preserving weighted averages.
   Statements only; proofs in Proofs/FilterFacts.v.  The theorems hold for EVERY
   odd-length, non-negative, normalised, symmetric kernel; that SciPy's kernel is
   the truncated Gaussian is validated numerically by the harness. *)
From Coq Require Import List ZArith Arith Bool QArith Qcanon.
From MsmV Require Import Lib.Result Lib.PyList Lib.QMat Model.Filter Proofs.FilterFacts.
Import ListNotations.
Local Open Scope nat_scope.

Theorem gfilt_length_thm : forall w xs, length (gfilt w xs) = length xs.
Proof. exact gfilt_length. Qed.
Print Assumptions gfilt_length_thm.

Theorem gfilt_linear_thm : forall w xs ys a b, length xs = length ys ->
  gfilt w (map (fun p => (a * fst p + b * snd p)%Qc) (combine xs ys))
  = map (fun p => (a * fst p + b * snd p)%Qc) (combine (gfilt w xs) (gfilt w ys)).
Proof. exact gfilt_linear. Qed.
Print Assumptions gfilt_linear_thm.

Theorem gfilt_const_thm : forall w c n, qsum w = 1%Qc -> gfilt w (repeat c n) = repeat c n.
Proof. exact gfilt_const. Qed.
Print Assumptions gfilt_const_thm.

Theorem gfilt_bounds_thm : forall w xs lo hi, (forall x, In x w -> (0 <= x)%Qc) -> qsum w = 1%Qc ->
  (forall x, In x xs -> (lo <= x)%Qc /\ (x <= hi)%Qc) ->
  forall y, In y (gfilt w xs) -> (lo <= y)%Qc /\ (y <= hi)%Qc.
Proof. exact gfilt_bounds. Qed.
Print Assumptions gfilt_bounds_thm.

Theorem gfilt_reverse_thm : forall w xs, kernel_ok w -> gfilt w (rev xs) = rev (gfilt w xs).
Proof. exact gfilt_reverse. Qed.
Print Assumptions gfilt_reverse_thm.

(* a table is filtered column by column: definitional (gfilt2d maps gfilt over the columns) *)
Theorem gfilt2d_columnwise : forall w tbl, gfilt2d w tbl = transpose (map (gfilt w) (transpose tbl)).
Proof. reflexivity. Qed.
Print Assumptions gfilt2d_columnwise.

Theorem rm_length : forall xs w, length (runningmean xs w) = length xs.
Proof. exact runningmean_length. Qed.
Print Assumptions rm_length.

Theorem rm_eq_window : forall xs w i, 1 <= w -> i < length xs ->
  nth i (runningmean xs w) 0%Qc = window_mean xs w i.
Proof. exact runningmean_window. Qed.
Print Assumptions rm_eq_window.

Theorem rm_w1_id : forall xs, runningmean xs 1 = xs.
Proof. exact runningmean_w1. Qed.
Print Assumptions rm_w1_id.

Example rm_example :
  map (fun q : Qc => this q) (runningmean [1; 1 + 1; 1 + 1 + 1; 1 + 1 + 1 + 1]%Qc 4) = [3 # 4; 3 # 2; 5 # 2; 9 # 4]%Q.
Proof. vm_compute. reflexivity. Qed.
Print Assumptions rm_example.
