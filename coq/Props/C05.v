(* C05 - Dynamical coring follows the published rule on every trajectory
   separately.  Statements only; proofs in Proofs/CoringFacts.v, CoringWrap.v *)
From Coq Require Import List ZArith Arith Bool.
From MsmV Require Import Lib.Result Lib.PyList Lib.Sorting Model.Labels Model.StateTraj Model.Coring.
From MsmV Require Import Proofs.LabelsFacts Proofs.CoringFacts Proofs.CoringWrap Proofs.RunsFacts Proofs.FastEntries.
Import ListNotations.
Local Open Scope nat_scope.

(* the in-place single-pass loop = the reference rule (suffix recursion):
   a frame opens a new core only if the next w frames exist and all show its
   label, otherwise it takes the current core; frames before the first core
   take the first core; an error iff there is no window at all *)
Theorem single_eq_ref : forall w t, core_single t w false = core_single_ref w t.
Proof. exact core_single_full_eq_ref. Qed.
Print Assumptions single_eq_ref.

Theorem length_preserved : forall t w r, core_single t w false = Ok r -> length r = length t.
Proof. exact core_single_length. Qed.
Print Assumptions length_preserved.

Theorem labels_subset : forall t w r y, core_single t w false = Ok r -> In y r -> In y t.
Proof. exact core_single_labels. Qed.
Print Assumptions labels_subset.

(* every maximal constant run of the result has length >= w *)
Theorem runs_ge_result : forall w t r, 1 <= w -> core_single_ref w t = Ok r -> runs_ge w r.
Proof. exact core_single_ref_runs. Qed.
Print Assumptions runs_ge_result.

(* the last-frame shortcut of the iterative mode is sound on inputs whose
   runs are all >= w-1, at every scan position ... *)
Theorem shortcut_sound_thm : forall w p s, 2 <= w -> runs_ge (w - 1) (p ++ s) -> wshort w s = window w s.
Proof. exact shortcut_sound. Qed.
Print Assumptions shortcut_sound_thm.

Theorem stage_modes_agree : forall w t, 2 <= w -> runs_ge (w - 1) t ->
  core_single t w true = core_single t w false.
Proof. exact core_single_iter_eq. Qed.
Print Assumptions stage_modes_agree.

(* ... hence the whole kernel, in both modes, equals the reference rule applied
   per trajectory, successively with windows 2..tau (iterative) or once with tau *)
Theorem iterative_eq_successive : forall ts lag iter, coring_kernel ts lag iter = coring_ref ts lag iter.
Proof. exact coring_kernel_eq_ref. Qed.
Print Assumptions iterative_eq_successive.

(* trajectories are processed one by one (no state leaks between them) *)
Theorem per_trajectory : forall w iter ts, core_stage w iter ts = mapM (fun t => core_single t w iter) ts.
Proof. reflexivity. Qed.
Print Assumptions per_trajectory.

(* result: same number of trajectories, all runs >= tau, no empty trajectory *)
Theorem kernel_result_runs : forall ts lag iter r, 2 <= lag ->
  coring_kernel ts lag iter = Ok r ->
  all_runs_ge lag r /\ (forall t, In t r -> t <> []) /\ length r = length ts.
Proof. exact coring_kernel_runs. Qed.
Print Assumptions kernel_result_runs.

(* coring an already cored result changes nothing *)
Theorem idempotent : forall ts lag iter r, 2 <= lag ->
  coring_kernel ts lag iter = Ok r -> coring_kernel r lag iter = Ok r.
Proof. exact coring_kernel_idempotent. Qed.
Print Assumptions idempotent.

(* an error instead of a partial result exactly when a trajectory has no core *)
Theorem error_iff_no_core : forall w t, 1 <= w ->
  (core_single t w false = Err LagtimeError <-> first_window w t = None) /\
  (forall k, core_single t w false = Err k -> k = LagtimeError).
Proof. exact core_single_err_iff. Qed.
Print Assumptions error_iff_no_core.

Theorem no_core_means_no_window : forall w t, 1 <= w ->
  (first_window w t = None <-> forall i, i < length t -> window w (skipn i t) = false).
Proof. exact first_window_none. Qed.
Print Assumptions no_core_means_no_window.

(* the public wrapper: lag <= 0 rejected, lag = 1 returns the input, else the kernel *)
Theorem wrapper_spec : forall ts lag iter,
  concat ts <> [] -> (forall v, In v (concat ts) -> small29 v) ->
  dynamical_coring ts lag iter =
    if (lag <=? 0)%Z then Err ValueError
    else if (lag =? 1)%Z then Ok ts
    else coring_kernel ts (Z.to_nat lag) iter.
Proof. exact dynamical_coring_wrapper. Qed.
Print Assumptions wrapper_spec.

(* "every frame lies in a block of m equal frames" is the same as "every maximal constant run
   has length >= m": the executable run-length test (used on the implementation's output) decides it *)
Theorem runs_geb_decides : forall m t, 1 <= m -> (runs_geb m t = true <-> runs_ge m t).
Proof. exact runs_geb_iff. Qed.
Print Assumptions runs_geb_decides.

(* non-vacuity *)
(* the runner's fast entry (503) answers with the reference schedule: on well-formed input that is the
   public wrapper itself *)
Theorem fast_coring_is_wrapper_thm : forall ts lag iter,
  concat ts <> [] -> (forall v, In v (concat ts) -> small29 v) ->
  dynamical_coring ts lag iter =
    if (lag <=? 0)%Z then Err ValueError
    else if (lag =? 1)%Z then Ok ts
    else coring_ref ts (Z.to_nat lag) iter.
Proof. exact fast_coring_is_wrapper. Qed.
Print Assumptions fast_coring_is_wrapper_thm.

Example coring_example :
  dynamical_coring [[1; 1; 1; 2; 1; 2; 2; 2; 1; 1]; [5; 5; 5; 7]]%Z 3 true
    = Ok [[1; 1; 1; 1; 1; 2; 2; 2; 2; 2]; [5; 5; 5; 5]]%Z
  /\ dynamical_coring [[1; 2; 1; 2]]%Z 2 false = Err LagtimeError
  /\ runs_geb 3 [1; 1; 1; 1; 1; 2; 2; 2; 2; 2]%Z = true.
Proof. vm_compute. repeat split; reflexivity. Qed.
Print Assumptions coring_example.
