(* C07 - Markov-chain propagation samples exactly the estimated model.
   Statements only; proofs in Proofs/McmcFacts.v.  The uniform draws are an
   explicit argument; uniformity/independence of the generator is trusted. *)
From Coq Require Import List ZArith Arith Bool Permutation QArith Qcanon.
From MsmV Require Import Lib.Result Lib.PyList Lib.QMat Model.Mcmc Proofs.McmcFacts.
Import ListNotations.
Local Open Scope nat_scope.

(* the next column is a function of the draw alone: the first cumulative value strictly above u *)
Theorem first_lt_spec_thm : forall c u k,
  first_lt c u = Some k <->
  k < length c /\ (u < nth k c 0)%Qc /\ forall j, j < k -> (nth j c 0 <= u)%Qc.
Proof. exact first_lt_spec. Qed.
Print Assumptions first_lt_spec_thm.

(* for nondecreasing cumulative values the draws mapped to column k are one half-open interval *)
Theorem step_interval_thm : forall c u k, nondecreasing c ->
  (first_lt c u = Some k <->
   k < length c /\ (u < nth k c 0)%Qc /\ (k = 0 \/ (nth (k - 1) c 0 <= u)%Qc)).
Proof. exact step_interval. Qed.
Print Assumptions step_interval_thm.

Theorem step_total : forall c u, c <> [] -> last c 0%Qc = 1%Qc -> (u < 1)%Qc -> exists k, first_lt c u = Some k.
Proof. exact first_lt_total. Qed.
Print Assumptions step_total.

Theorem cumsum_diff_thm : forall l k, k < length l ->
  (nth k (cumsum l) 0 - (if Nat.eqb k 0 then 0 else nth (k - 1) (cumsum l) 0) = nth k l 0)%Qc.
Proof. exact cumsum_diff. Qed.
Print Assumptions cumsum_diff_thm.

(* one row of the cumulative matrix of a stochastic row: nondecreasing, ends in 1, valid
   permutation, and the interval of column k has length exactly T[i, perm k] *)
Theorem cum_row_spec_thm : forall row, row <> [] -> (forall x, In x row -> (0 <= x)%Qc) -> qsum row = 1%Qc ->
  let c := fst (cum_row row) in let p := snd (cum_row row) in
  length c = length row /\ Permutation p (seq 0 (length row)) /\ nondecreasing c /\
  last c 0%Qc = 1%Qc /\
  forall k, k < length row ->
    (nth k c 0 - (if Nat.eqb k 0 then 0 else nth (k - 1) c 0) = nth (nth k p 0%nat) row 0)%Qc.
Proof. exact cum_row_spec. Qed.
Print Assumptions cum_row_spec_thm.

(* an unobserved transition (T_ij = 0) is never sampled, for any draw in [0,1) *)
Theorem zero_prob_never_thm : forall row u j,
  row <> [] -> (forall x, In x row -> (0 <= x)%Qc) -> qsum row = 1%Qc ->
  j < length row -> nth j row 0%Qc = 0%Qc -> (0 <= u)%Qc -> (u < 1)%Qc ->
  forall k, first_lt (fst (cum_row row)) u = Some k -> nth k (snd (cum_row row)) 0 <> j.
Proof. exact zero_prob_never. Qed.
Print Assumptions zero_prob_never_thm.

(* a chain of requested length N (N-1 draws) has N frames, starts in the start state, stays in range *)
Theorem chain_length : forall cm s us, length (propagate cm s us) = S (length us).
Proof. exact propagate_length. Qed.
Print Assumptions chain_length.

Theorem chain_head : forall cm s us, hd 0 (propagate cm s us) = s.
Proof. exact propagate_head. Qed.
Print Assumptions chain_head.

Theorem chain_in_range : forall n cm s us, 0 < n -> cm_in_range n cm -> s < n ->
  (forall r, In r cm -> snd r <> []) -> forall x, In x (propagate cm s us) -> x < n.
Proof. exact propagate_in_range. Qed.
Print Assumptions chain_in_range.

Example step_example :
  mc_step [([Q2Qc (1#2); 1%Qc], [1; 0]%nat)] 0%nat (Q2Qc (1#2)) = 0%nat
  /\ mc_step [([Q2Qc (1#2); 1%Qc], [1; 0]%nat)] 0%nat (Q2Qc (49#100)) = 1%nat
  /\ rmap (map (fun r => (map (fun q : Qc => this q) (fst r), snd r))) (get_cummat (row_normalize (mat_of_Z [[1; 0; 3]]%Z)))
     = Ok [([3 # 4; 1; 1]%Q, [2; 0; 1]%nat)].
Proof. vm_compute. repeat split; reflexivity. Qed.
Print Assumptions step_example.
