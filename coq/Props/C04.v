(* C04 - Equilibrium population is the stationary probability vector.
   Statements only.  First clause (peq_closed_unique_thm): for a stochastic, threshold-free matrix whose only
   closed class is aperiodic and larger than every other class, the model's answer is THE unique probability
   vector pi with pi T = pi, zero outside that class - existence, finding it, stationarity for T itself
   and uniqueness among all stationary probability vectors of T are proved (Proofs/PeqClosed.v, on the
   mask theorem of C14, the Wielandt bound and the totality of the exact solver).  Second clause:
   peq_general (what is returned is stationary for the renormalised restriction to the mask).  Third:
   peq_strict_rejects.  Left to the tie: LAPACK's eigenvector against the exact vector (1e-9). *)
From Coq Require Import List ZArith Arith Bool QArith Qcanon.
From MsmV Require Import Lib.Result Lib.PyList Lib.QMat Model.Ergodic Model.Peq Proofs.QMatFacts Proofs.HSFacts Proofs.ErgodicFacts Proofs.UniqueFacts Proofs.PeqFacts Proofs.GaussFacts Proofs.Totality Proofs.MaskFacts Proofs.PeqClosed.
Import ListNotations.
Local Open Scope nat_scope.

(* whatever vector the model returns for an ergodic matrix is a probability vector with pi T = pi *)
Theorem peq_ergodic_stationary : forall T allow v,
  is_ergodic atol8 T = true -> peq T allow = Ok (Some v) ->
  vmul v T = v /\ qsum v = 1%Qc /\ (forall x, In x v -> (0 <= x)%Qc).
Proof.
  intros T allow v He. unfold peq. rewrite He. cbn [negb andb]. rewrite Bool.andb_false_r.
  intros H. injection H as H. apply stationary_spec. exact H.
Qed.
Print Assumptions peq_ergodic_stationary.

(* for any other accepted matrix: the certified vector of the renormalised restriction, zero outside the mask *)
Theorem peq_general : forall T v,
  is_ergodic atol8 T = false -> peq T true = Ok (Some v) ->
  exists mask w, ergodic_mask atol8 T = Ok mask /\ v = scatter mask w /\
    let T' := row_normalize (restrict_mat mask T) in
    vmul w T' = w /\ qsum w = 1%Qc /\ (forall x, In x w -> (0 <= x)%Qc).
Proof.
  intros T v He. unfold peq. rewrite He. cbn [negb andb].
  destruct (ergodic_mask atol8 T) as [mask|] eqn:Em; cbn [bind]; [|discriminate].
  destruct (stationary _) as [w|] eqn:Es; [|discriminate].
  intros H. injection H as <-. exists mask, w. split; [reflexivity|]. split; [reflexivity|].
  apply stationary_spec. exact Es.
Qed.
Print Assumptions peq_general.

(* with allow_non_ergodic=False every non-ergodic input is rejected *)
Theorem peq_strict_rejects : forall T, is_ergodic atol8 T = false -> peq T false = Err ValueError.
Proof. intros T He. unfold peq. now rewrite He. Qed.
Print Assumptions peq_strict_rejects.

(* uniqueness: a stochastic matrix some power of which is entrywise positive has at most
   one stationary probability vector ... *)
Theorem stationary_unique_thm : forall n T k v w, 0 < n -> wf n n T -> length v = n -> length w = n ->
  (forall i j, i < n -> j < n -> (0 < mget (mpow T k) i j)%Qc) ->
  (forall x, In x v -> (0 <= x)%Qc) -> (forall x, In x w -> (0 <= x)%Qc) ->
  qsum v = 1%Qc -> qsum w = 1%Qc -> vmul v T = v -> vmul w T = w -> v = w.
Proof. exact stationary_unique. Qed.
Print Assumptions stationary_unique_thm.

(* ... so for a matrix reported ergodic the returned vector is THE unique probability
   vector pi with pi T = pi *)
Theorem peq_unique : forall n T allow v w, 0 < n -> wf n n T -> is_ergodic atol8 T = true ->
  peq T allow = Ok (Some v) -> length v = n -> length w = n ->
  (forall x, In x w -> (0 <= x)%Qc) -> qsum w = 1%Qc -> vmul w T = w -> v = w.
Proof. exact peq_is_the_stationary_vector. Qed.
Print Assumptions peq_unique.

(* existence: for a stochastic matrix with an entrywise positive power the exact solver always finds the
   stationary probability vector (the model never answers "no unique stationary vector" there); together with
   stationary_unique_thm: it exists, is found, and is the only one *)
Theorem stationary_exists_thm : forall n k T, 0 < n -> wf n n T -> entries_nonneg T -> rows_sum_one T ->
  (forall i j, i < n -> j < n -> (0 < mget (mpow T k) i j)%Qc) ->
  exists pi, stationary T = Some pi /\ length pi = n /\
    vmul pi T = pi /\ qsum pi = 1%Qc /\ (forall t, In t pi -> (0 <= t)%Qc).
Proof. exact stationary_exists_spec. Qed.
Print Assumptions stationary_exists_thm.
(* FIRST CLAUSE, complete: under the guard of the property (stochastic, away from the 1e-8 threshold, c's class the
   only closed class, aperiodic, larger than every other class; `guard` spells it out) peq returns a vector, it is a
   probability vector stationary for T itself, zero outside the class, and every stationary probability vector
   of T equals it *)
Theorem peq_closed_unique_thm : forall n M c, guard n M c ->
  exists v, peq M true = Ok (Some v) /\ length v = n /\
    vmul v M = v /\ qsum v = 1%Qc /\ (forall x, In x v -> (0 <= x)%Qc) /\
    (forall i, i < n -> ~ comm (supp M) c i -> nth i v 0%Qc = 0%Qc) /\
    (forall u, length u = n -> (forall x, In x u -> (0 <= x)%Qc) -> qsum u = 1%Qc -> vmul u M = u -> u = v).
Proof. exact peq_closed_unique. Qed.
Print Assumptions peq_closed_unique_thm.
(* the non-ergodic branch in detail: the executable mask is exactly the closed class, the exact solver finds the
   stationary vector of the renormalised restriction, and scattering it gives a stationary vector of T *)
Theorem peq_closed_found_thm : forall n M c, guard n M c -> is_ergodic atol8 M = false ->
  exists mask w, ergodic_mask atol8 M = Ok mask /\
    (forall i, i < n -> (nth i mask false = true <-> comm (supp M) c i)) /\
    stationary (row_normalize (restrict_mat mask M)) = Some w /\
    peq M true = Ok (Some (scatter mask w)) /\
    length (scatter mask w) = n /\
    vmul (scatter mask w) M = scatter mask w /\ qsum (scatter mask w) = 1%Qc /\
    (forall x, In x (scatter mask w) -> (0 <= x)%Qc) /\
    (forall i, i < n -> ~ comm (supp M) c i -> nth i (scatter mask w) 0%Qc = 0%Qc).
Proof. exact peq_closed_found. Qed.
Print Assumptions peq_closed_found_thm.
(* stationary probability vectors carry no mass on transient states *)
Theorem stationary_zero_on_transient_thm : forall n M c u, guard n M c ->
  length u = n -> (forall x, In x u -> (0 <= x)%Qc) -> qsum u = 1%Qc -> vmul u M = u ->
  forall i, i < n -> ~ comm (supp M) c i -> nth i u 0%Qc = 0%Qc.
Proof. exact stationary_zero_on_transient. Qed.
Print Assumptions stationary_zero_on_transient_thm.
(* the guard is satisfiable: closed class {0,1}, transient state 2 with a self loop, not ergodic *)
Example guard_example_thm : guard 3 Tex 0 /\ is_ergodic atol8 Tex = false.
Proof. split; [exact guard_example | exact guard_example_nonergodic]. Qed.
Print Assumptions guard_example_thm.

Example peq_example :
  let T := row_normalize (mat_of_Z [[1; 1; 0]; [1; 3; 0]; [1; 1; 2]]%Z) in
  rmap (option_map (map (fun q : Qc => this q))) (peq T true) = Ok (Some [1 # 3; 2 # 3; 0]%Q)
  /\ peq T false = Err ValueError.
Proof. vm_compute. split; reflexivity. Qed.
Print Assumptions peq_example.
