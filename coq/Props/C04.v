(* C04 - placeholder *)
From Coq Require Import List ZArith QArith Qcanon.
From MsmV Require Import Lib.Result Lib.QMat Model.Ergodic Model.Peq.
Import ListNotations.
Example peq_example :
  let T := row_normalize (mat_of_Z [[1; 1; 0]; [1; 3; 0]; [1; 1; 2]]%Z) in
  rmap (option_map (map (fun q : Qc => this q))) (peq T true) = Ok (Some [1 # 3; 2 # 3; 0]%Q)
  /\ peq T false = Err ValueError.
Proof. vm_compute. split; reflexivity. Qed.
Print Assumptions peq_example.
