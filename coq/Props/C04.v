(* C04 - Equilibrium population is the stationary probability vector.
   Statements only.  Existence/stationarity are certified per case and proved for
   whatever the model returns; uniqueness is proved for matrices reported ergodic
   (some power entrywise positive).  Partial: for a reducible matrix whose only
   closed class is aperiodic the reduction to the restricted matrix (mask = closed
   class) is compared, not proved; LAPACK's choice in degenerate eigenspaces is
   only checked relationally. *)
From Coq Require Import List ZArith Arith Bool QArith Qcanon.
From MsmV Require Import Lib.Result Lib.PyList Lib.QMat Model.Ergodic Model.Peq Proofs.QMatFacts Proofs.HSFacts Proofs.ErgodicFacts Proofs.UniqueFacts Proofs.PeqFacts Proofs.GaussFacts Proofs.Totality.
Import ListNotations.
Local Open Scope nat_scope.

(* whatever vector the model returns for an ergodic matrix is a probability vector with pi T = pi *)
Theorem peq_ergodic_stationary : forall T allow v,
  is_ergodic atol8 T = true -> peq T allow = Ok (Some v) ->
  vmul v T = v /\ qsum v = 1%Qc /\ (forall x, In x v -> (0 <= x)%Qc).
Proof.
  intros T allow v He. unfold peq. rewrite He. cbn [negb andb]. rewrite Bool.andb_false_r.
  intros H. injection H as H. apply stationary_spec. exact H.
Qed.
Print Assumptions peq_ergodic_stationary.

(* for any other accepted matrix: the certified vector of the renormalised restriction, zero outside the mask *)
Theorem peq_general : forall T v,
  is_ergodic atol8 T = false -> peq T true = Ok (Some v) ->
  exists mask w, ergodic_mask atol8 T = Ok mask /\ v = scatter mask w /\
    let T' := row_normalize (restrict_mat mask T) in
    vmul w T' = w /\ qsum w = 1%Qc /\ (forall x, In x w -> (0 <= x)%Qc).
Proof.
  intros T v He. unfold peq. rewrite He. cbn [negb andb].
  destruct (ergodic_mask atol8 T) as [mask|] eqn:Em; cbn [bind]; [|discriminate].
  destruct (stationary _) as [w|] eqn:Es; [|discriminate].
  intros H. injection H as <-. exists mask, w. split; [reflexivity|]. split; [reflexivity|].
  apply stationary_spec. exact Es.
Qed.
Print Assumptions peq_general.

(* with allow_non_ergodic=False every non-ergodic input is rejected *)
Theorem peq_strict_rejects : forall T, is_ergodic atol8 T = false -> peq T false = Err ValueError.
Proof. intros T He. unfold peq. now rewrite He. Qed.
Print Assumptions peq_strict_rejects.

(* uniqueness: a stochastic matrix some power of which is entrywise positive has at most
   one stationary probability vector ... *)
Theorem stationary_unique_thm : forall n T k v w, 0 < n -> wf n n T -> length v = n -> length w = n ->
  (forall i j, i < n -> j < n -> (0 < mget (mpow T k) i j)%Qc) ->
  (forall x, In x v -> (0 <= x)%Qc) -> (forall x, In x w -> (0 <= x)%Qc) ->
  qsum v = 1%Qc -> qsum w = 1%Qc -> vmul v T = v -> vmul w T = w -> v = w.
Proof. exact stationary_unique. Qed.
Print Assumptions stationary_unique_thm.

(* ... so for a matrix reported ergodic the returned vector is THE unique probability
   vector pi with pi T = pi *)
Theorem peq_unique : forall n T allow v w, 0 < n -> wf n n T -> is_ergodic atol8 T = true ->
  peq T allow = Ok (Some v) -> length v = n -> length w = n ->
  (forall x, In x w -> (0 <= x)%Qc) -> qsum w = 1%Qc -> vmul w T = w -> v = w.
Proof. exact peq_is_the_stationary_vector. Qed.
Print Assumptions peq_unique.

(* existence: for a stochastic matrix with an entrywise positive power the exact solver always finds the
   stationary probability vector (the model never answers "no unique stationary vector" there); together with
   stationary_unique_thm: it exists, is found, and is the only one *)
Theorem stationary_exists_thm : forall n k T, 0 < n -> wf n n T -> entries_nonneg T -> rows_sum_one T ->
  (forall i j, i < n -> j < n -> (0 < mget (mpow T k) i j)%Qc) ->
  exists pi, stationary T = Some pi /\ length pi = n /\
    vmul pi T = pi /\ qsum pi = 1%Qc /\ (forall t, In t pi -> (0 <= t)%Qc).
Proof. exact stationary_exists_spec. Qed.
Print Assumptions stationary_exists_thm.

Example peq_example :
  let T := row_normalize (mat_of_Z [[1; 1; 0]; [1; 3; 0]; [1; 1; 2]]%Z) in
  rmap (option_map (map (fun q : Qc => this q))) (peq T true) = Ok (Some [1 # 3; 2 # 3; 0]%Q)
  /\ peq T false = Err ValueError.
Proof. vm_compute. split; reflexivity. Qed.
Print Assumptions peq_example.
