(* C15 - Relabelling utilities apply exactly the requested label map.
   Only statements; proofs live in Proofs/LabelsFacts.v. *)
From Coq Require Import List ZArith Arith.
From MsmV Require Import Lib.Result Lib.PyList Lib.Sorting Model.Labels Proofs.LabelsFacts.
Import ListNotations.
Local Open Scope Z_scope.

(* shift_data = simultaneous substitution, for every data set and every map
   whose old values are distinct and lie between the data minimum and maximum
   (the documented guard); labels within +-2^30 so the int32 cast is exact. *)
Theorem shift_spec : forall data old new : list Z,
  data <> [] -> new <> [] -> NoDup old -> length old = length new ->
  (forall o, In o old -> exists lo hi, In lo data /\ In hi data /\ lo <= o <= hi) ->
  (forall v, In v data \/ In v new -> small v) ->
  shift_flat data old new = Ok (map (subst old new) data).
Proof. exact shift_flat_spec. Qed.
Print Assumptions shift_spec.

Theorem shift_nested_spec_thm : forall (ls : list (list Z)) (old new : list Z),
  concat ls <> [] -> new <> [] -> NoDup old -> length old = length new ->
  (forall o, In o old -> exists lo hi, In lo (concat ls) /\ In hi (concat ls) /\ lo <= o <= hi) ->
  (forall v, In v (concat ls) \/ In v new -> small v) ->
  shift_nested ls old new = Ok (map (map (subst old new)) ls).
Proof. exact shift_nested_spec. Qed.
Print Assumptions shift_nested_spec_thm.

(* simultaneous: the k-th old value becomes the k-th new value (so swaps and
   cycles work), everything else is untouched *)
Theorem subst_hit_thm : forall old new k d,
  NoDup old -> length old = length new -> (k < length old)%nat ->
  subst old new (nth k old 0) = nth k new d.
Proof. exact subst_hit. Qed.
Print Assumptions subst_hit_thm.

Theorem subst_untouched_thm : forall old new x, ~ In x old -> subst old new x = x.
Proof. exact subst_untouched. Qed.
Print Assumptions subst_untouched_thm.

(* whatever the map, a successful call keeps the container structure *)
Theorem structure_preserved : forall ls old new r,
  shift_nested ls old new = Ok r ->
  map (@length Z) r = map (@length Z) ls /\
  exists flat, shift_flat (concat ls) old new = Ok flat /\ concat r = flat.
Proof. exact shift_nested_structure. Qed.
Print Assumptions structure_preserved.

Theorem rename_index_spec : forall ls,
  concat ls <> [] -> (forall v, In v (concat ls) -> small29 v) ->
  rename_by_index ls =
    Ok (map (map (fun x => Z.of_nat (rank (unique ls) x))) ls, unique ls).
Proof. exact rename_by_index_spec. Qed.
Print Assumptions rename_index_spec.

Theorem rename_index_roundtrip_thm : forall ls x,
  In x (concat ls) -> nth (rank (unique ls) x) (unique ls) 0 = x.
Proof. exact rename_index_roundtrip. Qed.
Print Assumptions rename_index_roundtrip_thm.

Theorem unique_spec_thm : forall ls,
  ssorted (unique ls) /\ (forall x, In x (unique ls) <-> exists l, In l ls /\ In x l).
Proof. exact unique_spec. Qed.
Print Assumptions unique_spec_thm.

Theorem unique_determined_thm : forall ls st,
  ssorted st -> (forall x, In x st <-> In x (concat ls)) -> st = unique ls.
Proof. exact unique_determined. Qed.
Print Assumptions unique_determined_thm.

(* the oracle applied to the implementation's rename_by_population output
   means what the property says *)
Theorem rename_pop_oracle_sound : forall ls out perm,
  rename_pop_ok ls out perm = true ->
  (forall x, In x perm <-> In x (concat ls)) /\ NoDup perm /\
  (forall i, (S i < length perm)%nat ->
     (count_Z (nth (S i) perm 0%Z) (concat ls) <= count_Z (nth i perm 0%Z) (concat ls))%nat) /\
  map (@length Z) out = map (@length Z) ls /\
  (forall k, (k < length (concat ls))%nat ->
     1 <= nth k (concat out) 0 <= Z.of_nat (length perm) /\
     nth (Z.to_nat (nth k (concat out) 0 - 1)) perm 0 = nth k (concat ls) 0).
Proof. exact rename_pop_ok_sound. Qed.
Print Assumptions rename_pop_oracle_sound.

(* non-vacuity: a swap with an untouched value, negative labels, ragged input *)
Example shift_example :
  shift_nested [[-3; 5; 2]; [5]] [-3; 5] [5; -3] = Ok [[5; -3; 2]; [-3]].
Proof. vm_compute. reflexivity. Qed.
Print Assumptions shift_example.

Example rename_pop_example :
  rename_by_population [[7; 7; -2]; [9; 7; 9]] = Ok ([[1; 1; 3]; [2; 1; 2]], [7; 9; -2])
  /\ rename_pop_ok [[7; 7; -2]; [9; 7; 9]] [[1; 1; 3]; [2; 1; 2]] [7; 9; -2] = true.
Proof. vm_compute. split; reflexivity. Qed.
Print Assumptions rename_pop_example.
