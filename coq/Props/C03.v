(* C03 - placeholder *)
From Coq Require Import List ZArith QArith Qcanon.
From MsmV Require Import Lib.Result Lib.QMat Model.HS.
Import ListNotations.
Example hs_example :
  match lumped_estimate [[1;1;1;2;2;1;2;2;1;1;2;1]%Z] [[0;1;0;3;2;0;3;2;1;0;2;1]%Z] false 1 with
  | Ok (Some (TA, st)) => st = [1; 2]%Z /\ map (map (fun q : Qc => this q)) TA = [[379 # 904; 525 # 904]; [735 # 904; 169 # 904]]%Q
  | _ => False
  end.
Proof. vm_compute. split; reflexivity. Qed.
Print Assumptions hs_example.
