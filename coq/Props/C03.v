(* C03 - Hummer-Szabo lumped model: rows normalised, aggregated equilibrium
   stationary.  Algebra under run-time certified inverses (the executable formula
   returns a matrix only after checking K Z = Z K = I and N M = M N = I exactly).
   Statements only; proofs in Proofs/HSFacts.v on Proofs/QMatFacts.v.
   A second, field-generic formalisation is in Abstract/HS_mathcomp.v. *)
From Coq Require Import List ZArith Arith Bool QArith Qcanon.
From MsmV Require Import Lib.Result Lib.PyList Lib.QMat Model.Ergodic Model.Peq Model.HS Proofs.QMatFacts Proofs.HSFacts Proofs.HSIdentity Proofs.GaussFacts Proofs.Totality.
Import ListNotations.
Local Open Scope nat_scope.

Theorem inverse_certificate : forall A X, inverse_cert A = Some X ->
  mmul A X = identity (length A) /\ mmul X A = identity (length A).
Proof. exact inverse_cert_spec. Qed.
Print Assumptions inverse_certificate.

Theorem stationary_certificate : forall T v, stationary T = Some v ->
  vmul v T = v /\ qsum v = 1%Qc /\ (forall x, In x v -> (0 <= x)%Qc).
Proof. exact stationary_spec. Qed.
Print Assumptions stationary_certificate.

(* whenever the executable projection returns a matrix for positive=False, its rows
   sum to one and the per-macrostate sums of the equilibrium populations are stationary *)
Theorem hs_rowsum_stationary : forall n m T pi A R,
  0 < n -> 0 < m -> wf n n T -> length pi = n -> wf n m A ->
  rows_sum_one T -> vmul pi T = pi -> qsum pi = 1%Qc -> rows_sum_one A ->
  hs_formula T pi A false = Some R ->
  rows_sum_one R /\ vmul (vmul pi A) R = vmul pi A.
Proof. exact hs_formula_sound. Qed.
Print Assumptions hs_rowsum_stationary.

(* positive=True: no negative entry; rows sum to one (or are all zero) *)
Theorem hs_positive : forall T pi A R, hs_formula T pi A true = Some R ->
  (forall r x, In r R -> In x r -> (0 <= x)%Qc) /\
  (forall r, In r R -> qsum r = 1%Qc \/ qsum r = 0%Qc).
Proof. exact hs_formula_positive. Qed.
Print Assumptions hs_positive.

(* the aggregation matrix of an assignment has exactly one 1 per row (A 1 = 1) *)
Theorem aggregation_is_partition : forall nmacro aidx, (forall a, In a aidx -> a < nmacro) ->
  wf (length aidx) nmacro (aggregation nmacro aidx) /\ rows_sum_one (aggregation nmacro aidx).
Proof. exact aggregation_rows. Qed.
Print Assumptions aggregation_is_partition.

(* when every macrostate holds exactly one microstate (the assignment is a permutation) the
   lumped matrix is A^T T A: the microstate model itself in the order of the macrostate labels *)
Theorem hs_identity_lumping_thm : forall n T pi aidx Z M2,
  0 < n -> wf n n T -> length pi = n ->
  length aidx = n -> NoDup aidx -> (forall a, In a aidx -> a < n) ->
  wf n n Z -> wf n n M2 ->
  mmul Z (msub (madd (identity n) (outer (ones n) pi)) T) = identity n ->
  mmul M2 (mmul (transpose (aggregation n aidx)) (mmul (diag pi) (mmul Z (aggregation n aidx)))) = identity n ->
  msub (madd (identity n) (outer (ones n) (vmul pi (aggregation n aidx))))
       (mmul M2 (diag (vmul pi (aggregation n aidx))))
  = mmul (transpose (aggregation n aidx)) (mmul T (aggregation n aidx)).
Proof. exact hs_identity_lumping. Qed.
Print Assumptions hs_identity_lumping_thm.

(* a non-ergodic micro model is refused (TypeError) before projecting *)
Theorem hs_refuses_nonergodic : forall l lag,
  is_ergodic atol8 (fst (Model.Msm.emm (lu_micro l) lag)) = false -> lumped_emm l lag = Err TypeError.
Proof. intros l lag H. unfold lumped_emm. now rewrite H. Qed.
Print Assumptions hs_refuses_nonergodic.

(* returned labels are the macrostate list of the object (ascending distinct macro labels,
   see lumped_views_thm in C02) *)
Theorem hs_labels : forall l lag TA st, lumped_emm l lag = Ok (Some (TA, st)) -> st = lu_macrostates l.
Proof.
  intros l lag TA st. unfold lumped_emm. destruct (negb _); [discriminate|].
  destruct (assign_idx l); cbn [bind]; [|discriminate].
  destruct (stationary _); [|discriminate]. destruct (hs_formula _ _ _ _); [|discriminate].
  intros H. injection H as _ <-. reflexivity.
Qed.
Print Assumptions hs_labels.

(* ---- the executable formula is TOTAL on the property's domain ---- *)
(* Gauss-Jordan elimination: sound without the run-time check, and complete for matrices with a trivial kernel *)
Theorem gauss_jordan_inverse_sound : forall n A X, 0 < n -> wf n n A -> inverse A = Some X ->
  mmul X A = identity n /\ mmul A X = identity n.
Proof. exact inverse_sound. Qed.
Print Assumptions gauss_jordan_inverse_sound.

Theorem gauss_jordan_inverse_complete : forall n A, 0 < n -> wf n n A -> trivial_kernel n A ->
  exists X, inverse_cert A = Some X.
Proof. exact inverse_cert_complete. Qed.
Print Assumptions gauss_jordan_inverse_complete.

(* for a stochastic matrix with an entrywise positive power (what "ergodic" means, C14) and ANY assignment of
   the n microstates onto m macrostates that uses every macrostate, the stationary vector is found and both
   inverses of the Hummer-Szabo formula exist: the model never answers "certificate failed" on the domain of
   the property, for either value of positive *)
Theorem hs_total_on_ergodic_input : forall n m k T aidx positive,
  0 < n -> 0 < m -> wf n n T -> entries_nonneg T -> rows_sum_one T ->
  (forall i j, i < n -> j < n -> (0 < mget (mpow T k) i j)%Qc) ->
  length aidx = n -> (forall a, In a aidx -> a < m) -> (forall a, a < m -> In a aidx) ->
  exists pi R, stationary T = Some pi /\ hs_formula T pi (aggregation m aidx) positive = Some R.
Proof. exact ergodic_total. Qed.
Print Assumptions hs_total_on_ergodic_input.

Example hs_example :
  match lumped_estimate [[1;1;1;2;2;1;2;2;1;1;2;1]%Z] [[0;1;0;3;2;0;3;2;1;0;2;1]%Z] false 1 with
  | Ok (Some (TA, st)) => st = [1; 2]%Z /\ map (map (fun q : Qc => this q)) TA = [[379 # 904; 525 # 904]; [735 # 904; 169 # 904]]%Q
  | _ => False
  end.
Proof. vm_compute. split; reflexivity. Qed.
Print Assumptions hs_example.
