(* C14 - placeholder until Proofs/ErgodicFacts.v is complete *)
From Coq Require Import List ZArith QArith Qcanon.
From MsmV Require Import Lib.Result Lib.QMat Model.Ergodic.
Import ListNotations.
Example ergodic_example :
  let M := mat_of_Z [[0; 1]; [1; 1]]%Z in
  is_ergodic atol8 (row_normalize M) = true /\ graph_ergodic (supp (row_normalize M)) = true
  /\ is_ergodic atol8 (row_normalize (mat_of_Z [[0; 1]; [1; 0]]%Z)) = false.
Proof. vm_compute. repeat split; reflexivity. Qed.
Print Assumptions ergodic_example.
