(* C14 - Ergodicity predicates agree with the transition graph.
   Statements only; proofs in Proofs/ErgodicFacts.v (on Proofs/QMatFacts.v). *)
From Coq Require Import List ZArith Arith Bool QArith Qcanon.
From MsmV Require Import Lib.Result Lib.PyList Lib.QMat Model.Ergodic Proofs.QMatFacts Proofs.ErgodicFacts Proofs.ErgodicFinite Proofs.Wielandt Proofs.ErgodicFull Proofs.MaskFacts Proofs.MaskCorollary.
Import ListNotations.
Local Open Scope nat_scope.

(* an entry of the k-th power of a non-negative matrix is positive exactly when
   the transition graph has a walk of length k *)
Theorem pos_pow_iff_walk_thm : forall n M k i j,
  0 < n -> wf n n M -> entries_nonneg M -> i < n -> j < n ->
  ((0 < mget (mpow M k) i j)%Qc <-> walk (supp M) k i j).
Proof. exact pos_pow_iff_walk. Qed.
Print Assumptions pos_pow_iff_walk_thm.

(* the executable predicate (integer-scaled square-and-multiply power) is the
   thresholded plain power with the Wielandt exponent (n-1)^2+1 *)
Theorem is_ergodic_unfold_thm : forall n M, 0 < n -> wf n n M ->
  is_ergodic atol8 M = is_tmat atol8 M && all_entries (fun x => Qc_ltb atol8 x) (mpow M (wexp n)).
Proof. exact is_ergodic_unfold. Qed.
Print Assumptions is_ergodic_unfold_thm.

(* soundness: reported ergodic => strongly connected, aperiodic, primitive *)
Theorem ergodic_sound_thm : forall n M,
  0 < n -> wf n n M -> entries_nonneg M -> rows_sum_one M -> is_ergodic atol8 M = true ->
  strongly_connected (supp M) /\ aperiodic (supp M) /\ primitive (supp M).
Proof. exact ergodic_sound. Qed.
Print Assumptions ergodic_sound_thm.

(* completeness in full generality (Wielandt's bound, Proofs/Wielandt.v): a strongly connected,
   aperiodic graph on n vertices has walks of length exactly (n-1)^2+1 between all pairs *)
Theorem ergodic_complete_thm : forall n G, bwf n G -> 0 < n ->
  strongly_connected G -> aperiodic G -> forall i j, i < n -> j < n -> walk G (wexp n) i j.
Proof. exact wielandt. Qed.
Print Assumptions ergodic_complete_thm.

(* hence the predicate that runs is characterised exactly: for a matrix accepted as transition
   matrix whose Wielandt power has no entry in (0, 1e-8], "ergodic" is reported if and only if the
   transition graph is strongly connected and aperiodic *)
Theorem is_ergodic_iff_graph_thm : forall n M, 0 < n -> wf n n M -> entries_nonneg M -> rows_sum_one M ->
  is_tmat atol8 M = true -> power_threshold_free n M ->
  (is_ergodic atol8 M = true <-> strongly_connected (supp M) /\ aperiodic (supp M)).
Proof. exact is_ergodic_iff_graph. Qed.
Print Assumptions is_ergodic_iff_graph_thm.

(* the boolean power test decides "strongly connected and aperiodic" for every size *)
Theorem bpow_wexp_iff_graph_thm : forall n G, bwf n G -> 0 < n ->
  (ball (bpow G (wexp n)) = true <-> strongly_connected G /\ aperiodic G).
Proof. exact bpow_wexp_iff_graph. Qed.
Print Assumptions bpow_wexp_iff_graph_thm.

(* ---- the mask clause ---- *)
(* the lazy closure (I or G)^(n-1) decides reachability *)
Theorem reach_spec_thm : forall n G i j, bwf n G -> 0 < n -> i < n -> j < n ->
  (bget (reach G) i j = true <-> reachable G i j).
Proof. exact reach_spec. Qed.
Print Assumptions reach_spec_thm.

(* for a state whose closed-walk lengths have gcd 1, "walks of length (n-1)^2+1 in both directions"
   is exactly "same communicating class" (Wielandt's bound inside the class) *)
Theorem sym_power_is_class_thm : forall n G i j, bwf n G -> 0 < n -> i < n -> j < n -> aperiodic_at G i ->
  (walk G (wexp n) i j /\ walk G (wexp n) j i <-> comm G i j).
Proof. exact sym_power_is_class. Qed.
Print Assumptions sym_power_is_class_thm.

Theorem sym_power_acyclic_thm : forall n G i j, bwf n G -> 0 < n -> i < n -> ~ cyclic G i ->
  ~ (walk G (wexp n) i j /\ walk G (wexp n) j i).
Proof. exact sym_power_acyclic. Qed.
Print Assumptions sym_power_acyclic_thm.

(* the executable mask: when every class with a cycle is aperiodic, the mask marks exactly the
   states whose communicating class has maximal size (states on no cycle count as size 0) *)
Theorem ergodic_mask_classes_thm : forall n M mask, 0 < n -> wf n n M -> entries_nonneg M -> rows_sum_one M ->
  is_tmat atol8 M = true -> power_threshold_free n M ->
  (forall i, i < n -> cyclic (supp M) i -> aperiodic_at (supp M) i) ->
  ergodic_mask atol8 M = Ok mask ->
  length mask = n /\
  forall i, i < n -> (nth i mask false = true <-> forall j, j < n -> csize (supp M) j <= csize (supp M) i).
Proof. exact ergodic_mask_classes. Qed.
Print Assumptions ergodic_mask_classes_thm.

(* ... in the wording of the property: if the largest closed class is larger than every class that
   is not closed, the mask marks exactly the states of the largest closed class (classes, on ties) *)
Theorem mask_largest_closed_thm : forall n M mask c, 0 < n -> wf n n M -> entries_nonneg M -> rows_sum_one M ->
  is_tmat atol8 M = true -> power_threshold_free n M ->
  (forall i, i < n -> cyclic (supp M) i -> aperiodic_at (supp M) i) ->
  ergodic_mask atol8 M = Ok mask ->
  let G := supp M in
  c < n -> class_closed G (reach G) c = true ->
  (forall j, j < n -> class_closed G (reach G) j = true -> csize G j <= csize G c) ->
  (forall j, j < n -> class_closed G (reach G) j = false -> csize G j < csize G c) ->
  forall i, i < n ->
    (nth i mask false = true <-> class_closed G (reach G) i = true /\ csize G i = csize G c).
Proof. exact mask_largest_closed. Qed.
Print Assumptions mask_largest_closed_thm.

(* special case kept from the first development: lazily connected graphs with a self-loop
   (the regime of metastable MD models) already have all walks of every length >= 2(n-1) *)
Theorem ergodic_complete_loop_partial : forall n G v,
  bwf n G -> graph_connected G = true -> v < n -> bget G v v = true ->
  forall k, 2 * (n - 1) <= k -> forall i j, i < n -> j < n -> walk G k i j.
Proof. exact complete_with_loop. Qed.
Print Assumptions ergodic_complete_loop_partial.

Theorem wielandt_exponent_covers_loop_bound : forall n, 1 <= n -> 2 * (n - 1) <= wexp n.
Proof. exact wexp_ge. Qed.
Print Assumptions wielandt_exponent_covers_loop_bound.

(* cross-validation of the INDEPENDENT executable graph test used by the harness (lazy closure +
   gcd of closed-walk lengths): for ALL transition graphs on at most 4 vertices it agrees with the
   power test with the Wielandt exponent (strongly
   connected by lazy closure, period 1); exhaustive enumeration inside the kernel
   (vm_compute over all 2^16 + 2^9 + 2^4 + 2 graphs), bound in the statement *)
Theorem ergodic_complete_le4 : forall n G, bwf n G -> 1 <= n -> n <= 4 ->
  graph_ergodic G = ball (bpow G (wexp n)).
Proof. exact wielandt_le4. Qed.
Print Assumptions ergodic_complete_le4.

Theorem walks_monotone_thm : forall n G k, bwf n G -> 1 <= k ->
  (forall i j, i < n -> j < n -> walk G k i j) ->
  forall k', k <= k' -> forall i j, i < n -> j < n -> walk G k' i j.
Proof. exact walks_monotone. Qed.
Print Assumptions walks_monotone_thm.

Theorem bpow_walk_thm : forall n G k i j, bwf n G -> i < n -> j < n ->
  (bget (bpow G k) i j = true <-> walk G k i j).
Proof. exact bpow_walk. Qed.
Print Assumptions bpow_walk_thm.

(* when no exact entry of the power lies in (0, 1e-8] the threshold does not decide *)
Theorem atol_free_eq_thm : forall P : mat,
  (forall r x, In r P -> In x r -> x = 0%Qc \/ (atol8 < x)%Qc) ->
  all_entries (fun x => Qc_ltb atol8 x) P = all_entries (fun x => Qc_ltb 0 x) P.
Proof. exact atol_free_eq. Qed.
Print Assumptions atol_free_eq_thm.

Theorem ergodic_implies_fuzzy_thm : forall M, is_ergodic atol8 M = true -> is_fuzzy_ergodic atol8 M = true.
Proof. exact ergodic_implies_fuzzy. Qed.
Print Assumptions ergodic_implies_fuzzy_thm.

Theorem nonstochastic_neither_thm : forall M, is_tmat atol8 M = false ->
  is_ergodic atol8 M = false /\ is_fuzzy_ergodic atol8 M = false /\ ergodic_mask atol8 M = Err ValueError.
Proof. exact nonstochastic_neither. Qed.
Print Assumptions nonstochastic_neither_thm.

Example ergodic_example :
  let M := row_normalize (mat_of_Z [[0; 1]; [1; 1]]%Z) in
  is_ergodic atol8 M = true /\ graph_ergodic (supp M) = true
  /\ is_ergodic atol8 (row_normalize (mat_of_Z [[0; 1]; [1; 0]]%Z)) = false
  /\ ergodic_mask atol8 (row_normalize (mat_of_Z [[1; 1; 0]; [1; 1; 0]; [0; 0; 1]]%Z)) = Ok [true; true; false].
Proof. vm_compute. repeat split; reflexivity. Qed.
Print Assumptions ergodic_example.
