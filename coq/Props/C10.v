(* C10 - Implied timescales are -tau/ln(lambda) of the model eigenvalues, else
   undefined.  Partial: the spectrum is LAPACK's and ln is libm's; proved are the
   real-analysis facts that make the rule meaningful, the case analysis of the rule,
   the exact second eigenvalue of two-state models; eigen-pairs returned by the
   implementation are checked by the exact residual checker of Model/Its.v.
   The lemmas about ln import Coq's Reals (classical real-number axioms). *)
From Coq Require Import List ZArith Arith Bool QArith Qcanon Reals.
From MsmV Require Import Lib.QMat Model.Its Proofs.ItsFacts.
Import ListNotations.

Theorem its_pos_thm : forall tau lam : R, (0 < tau)%R -> (0 < lam < 1)%R -> (0 < - tau / ln lam)%R.
Proof. exact its_pos. Qed.
Print Assumptions its_pos_thm.

Theorem its_mono_thm : forall tau l1 l2 : R, (0 < tau)%R -> (0 < l1)%R -> (l1 < l2)%R -> (l2 < 1)%R ->
  (- tau / ln l1 < - tau / ln l2)%R.
Proof. exact its_mono. Qed.
Print Assumptions its_mono_thm.

(* for a real eigenvalue the rule yields NaN or -tau/ln(lambda) with 0 < lambda < 1,
   which is positive by its_pos_thm: never a negative or otherwise spurious number *)
Theorem rule_never_spurious : forall tau (lam : Qc),
  its_rule tau (lam, 0%Qc) = ItsNaN \/
  (its_rule tau (lam, 0%Qc) = ItsMinusTauOverLn tau lam /\ Qc_ltb 0 lam = true /\ Qc_ltb lam 1 = true).
Proof. exact rule_real_cases. Qed.
Print Assumptions rule_never_spurious.

Theorem two_state_lambda_thm : forall a b : Qc,
  let T := [[a; 1 - a]; [1 - b; b]]%Qc in
  vmul [1; - (1)]%Qc T = map (fun x => (two_state_lambda T * x)%Qc) [1; - (1)]%Qc.
Proof. exact two_state_lambda_spec. Qed.
Print Assumptions two_state_lambda_thm.

Theorem selection_count : forall (A : Type) (n : nat) (l : list A),
  (n <= length l - 1)%nat -> length (select_its n l) = n.
Proof. intros A n l. apply select_its_length. Qed.
Print Assumptions selection_count.

Example rule_example :
  its_rule 2 (Q2Qc (-1 # 3), 0%Qc) = ItsNaN /\ its_rule 2 (0%Qc, 0%Qc) = ItsNaN
  /\ its_rule 2 (Q2Qc (1 # 2), 0%Qc) = ItsMinusTauOverLn 2 (Q2Qc (1 # 2))
  /\ residual_ok true (Q2Qc (1 # 1000000000)) [[Q2Qc (1#2); Q2Qc (1#2)]; [Q2Qc (1#4); Q2Qc (3#4)]]
       (Q2Qc (1#4), 0%Qc) [(1%Qc, 0%Qc); ((- (1))%Qc, 0%Qc)] = true.
Proof. vm_compute. repeat split; reflexivity. Qed.
Print Assumptions rule_example.
