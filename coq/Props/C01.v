(* C01 - MSM estimate = row-normalised lagged transition counts.
   Statements only; proofs in Proofs/MsmFacts.v. *)
From Coq Require Import List ZArith Arith QArith Qcanon.
From MsmV Require Import Lib.Result Lib.PyList Lib.Sorting Lib.QMat
  Model.Labels Model.StateTraj Model.Msm Proofs.LabelsFacts Proofs.MsmFacts Proofs.FastEntries.
Import ListNotations.
Local Open Scope nat_scope.

(* zip(traj[:-lag], traj[lag:]): the k-th pair is (traj[k], traj[k+lag]) ... *)
Theorem pairs_spec_thm : forall (lag : nat) (t : list Z) (k : nat) (d : Z),
  1 <= lag -> k + lag < length t ->
  nth_error (pairs lag t) k = Some (nth k t d, nth (k + lag) t d).
Proof. intros; apply pairs_spec; assumption. Qed.
Print Assumptions pairs_spec_thm.

(* ... there are exactly |traj| - lag of them, none when |traj| <= lag *)
Theorem pairs_length_thm : forall (lag : nat) (t : list Z), 1 <= lag -> length (pairs lag t) = length t - lag.
Proof. intros; apply pairs_length; assumption. Qed.
Print Assumptions pairs_length_thm.

(* the counting kernel (nested in-place loop) computes the table of
   in-trajectory pair counts, for every number and length of trajectories *)
Theorem count_matrix_spec_thm : forall n lag ts a b, 1 <= lag -> all_below n ts ->
  zget (count_matrix n lag ts) a b = Z.of_nat (Spec_C lag ts a b).
Proof. exact count_matrix_spec. Qed.
Print Assumptions count_matrix_spec_thm.

(* the three constructor branches (0-based copy / 1-based minus one /
   rename_by_index) all produce the rank in the ascending distinct labels *)
Theorem ctor_branches_agree : forall ts,
  concat ts <> [] -> (forall v, In v (concat ts) -> small29 v) -> mk ts = Ok (mk_spec ts).
Proof. exact mk_spec_correct. Qed.
Print Assumptions ctor_branches_agree.

(* the whole estimator: states = ascending distinct labels (unique by
   unique_determined_thm in C15), T[i,j] = C_ij / sum_k C_ik with C counted
   inside single trajectories at exactly this lag; zero rows stay zero;
   entries in [0,1]; rows sum to 1 or 0 *)
Theorem emm_entry : forall ts lag,
  concat ts <> [] -> (forall v, In v (concat ts) -> small29 v) -> 1 <= lag ->
  exists T, estimate_markov_model ts lag = Ok (T, unique ts) /\
    length T = length (unique ts) /\
    forall i j, i < length (unique ts) -> j < length (unique ts) ->
      let x := nth i (unique ts) 0%Z in let y := nth j (unique ts) 0%Z in
      mget T i j = (if Nat.eqb (Label_row lag ts x) 0 then 0
                    else Qc_of_Z (Z.of_nat (Label_C lag ts x y)) / Qc_of_Z (Z.of_nat (Label_row lag ts x)))%Qc
      /\ (0 <= mget T i j)%Qc /\ (mget T i j <= 1)%Qc
      /\ qsum (nth i T []) = (if Nat.eqb (Label_row lag ts x) 0 then 0 else 1)%Qc.
Proof. exact estimate_markov_model_spec. Qed.
Print Assumptions emm_entry.

(* no pair is counted across a trajectory boundary ... *)
Theorem no_cross_boundary : forall lag ts1 ts2 x y,
  Label_C lag (ts1 ++ ts2) x y = Label_C lag ts1 x y + Label_C lag ts2 x y.
Proof. exact Label_C_app. Qed.
Print Assumptions no_cross_boundary.

(* ... every counted pair is (k, k+lag) in one trajectory, at this lag only *)
Theorem counted_pairs_are_lagged : forall lag t x y, 0 < label_pair_count lag t x y ->
  exists k, k + lag < length t /\ nth k t 0%Z = x /\ nth (k + lag) t 0%Z = y.
Proof. exact label_pair_count_pos. Qed.
Print Assumptions counted_pairs_are_lagged.

Theorem short_traj_contributes_nothing : forall lag t x y, length t <= lag -> label_pair_count lag t x y = 0.
Proof. exact label_pair_count_short. Qed.
Print Assumptions short_traj_contributes_nothing.

(* function API = method on the constructed object (definitional in the model;
   compared on the implementation by the harness) *)
Theorem emm_fun_eq_method : forall ts lag,
  estimate_markov_model ts lag = bind (mk ts) (fun s => Ok (emm s lag)).
Proof. reflexivity. Qed.
Print Assumptions emm_fun_eq_method.

(* non-vacuity: two trajectories, gapped unsorted labels, one shorter than the lag *)
(* the counts the runner's fast entry (102) reports for long inputs - the code-shaped fold over the
   constructed object - are the label-level in-trajectory pair counts of the specification *)
Theorem fast_counts_are_label_counts_thm : forall ts lag s i j,
  concat ts <> [] -> (forall v, In v (concat ts) -> small29 v) -> 1 <= lag ->
  mk ts = Ok s -> i < length (unique ts) -> j < length (unique ts) ->
  zget (count_matrix (nstates s) lag (st_idx s)) i j
  = Z.of_nat (Label_C lag ts (nth i (unique ts) 0%Z) (nth j (unique ts) 0%Z)).
Proof. exact fast_counts_are_label_counts. Qed.
Print Assumptions fast_counts_are_label_counts_thm.

Example emm_example :
  rmap (fun p => (map (map (fun q : Qc => this q)) (fst p), snd p))
       (estimate_markov_model [[7; -2; 7; 7]%Z; [-2]%Z; [5; 7]%Z] 2)
  = Ok ([[0; 0; 1]; [0; 0; 0]; [0; 0; 1]]%Q, [-2; 5; 7]%Z).
Proof. vm_compute. reflexivity. Qed.
Print Assumptions emm_example.
