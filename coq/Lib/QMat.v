(* Exact rational vectors and matrices as lists (executable form). *)
From Coq Require Import List ZArith Arith Bool QArith Qcanon.
Import ListNotations.
Local Open Scope Qc_scope.

Definition Qc_of_Z (z : Z) : Qc := Q2Qc (inject_Z z).
Definition qsum (l : list Qc) : Qc := fold_right Qcplus 0 l.
Definition vec := list Qc.
Definition mat := list (list Qc).

Definition mget (M : mat) (i j : nat) : Qc := nth j (nth i M []) 0.
Definition vget (v : vec) (i : nat) : Qc := nth i v 0.

Fixpoint vdot (a b : vec) : Qc :=
  match a, b with
  | x :: xs, y :: ys => x * y + vdot xs ys
  | _, _ => 0
  end.

(* column j of M *)
Definition col (M : mat) (j : nat) : vec := map (fun r => nth j r 0) M.
Definition ncols (M : mat) : nat := match M with [] => O | r :: _ => length r end.
Definition transpose (M : mat) : mat := map (col M) (seq 0 (ncols M)).
Definition mmul (A B : mat) : mat :=
  let Bt := transpose B in map (fun r => map (fun c => vdot r c) Bt) A.
Definition vmul (v : vec) (M : mat) : vec := map (fun c => vdot v c) (transpose M).  (* row vector times matrix *)
Definition mvec (M : mat) (v : vec) : vec := map (fun r => vdot r v) M.
Definition identity (n : nat) : mat :=
  map (fun i => map (fun j => if Nat.eqb i j then 1 else 0) (seq 0 n)) (seq 0 n).
Definition madd (A B : mat) : mat := map (fun p => map (fun q => fst q + snd q) (combine (fst p) (snd p))) (combine A B).
Definition msub (A B : mat) : mat := map (fun p => map (fun q => fst q - snd q) (combine (fst p) (snd p))) (combine A B).
Definition diag (v : vec) : mat :=
  map (fun i => map (fun j => if Nat.eqb i j then nth i v 0 else 0) (seq 0 (length v))) (seq 0 (length v)).
Definition outer (a b : vec) : mat := map (fun x => map (fun y => x * y) b) a.
Definition ones (n : nat) : vec := repeat 1 n.

(* matrix power: simple recursion (specification form) *)
Fixpoint mpow (M : mat) (k : nat) : mat :=
  match k with
  | O => identity (length M)
  | S k' => mmul M (mpow M k')
  end.

(* square-and-multiply on positive exponents (execution form) *)
Fixpoint mpow_pos (M : mat) (p : positive) : mat :=
  match p with
  | xH => M
  | xO q => let H := mpow_pos M q in mmul H H
  | xI q => let H := mpow_pos M q in mmul M (mmul H H)
  end.
Definition mpow_fast (M : mat) (k : nat) : mat :=
  match k with O => identity (length M) | S _ => mpow_pos M (Pos.of_nat k) end.

Definition Qc_leb (a b : Qc) : bool := Qle_bool a b.
Definition Qc_ltb (a b : Qc) : bool := negb (Qle_bool b a).
Definition Qc_abs (a : Qc) : Qc := if Qc_ltb a 0 then - a else a.
Definition Qc_max (a b : Qc) : Qc := if Qc_leb a b then b else a.
Definition Qc_eqb (a b : Qc) : bool := Qeq_bool a b.

Definition rowsums (M : mat) : vec := map qsum M.
Definition colsums (M : mat) : vec := map qsum (transpose M).

(* msm.row_normalize_matrix: rows with zero sum are divided by 1 *)
Definition row_normalize (M : mat) : mat :=
  map (fun r => let s := qsum r in let d := if Qc_eqb s 0 then 1 else s in map (fun x => x / d) r) M.

Definition mat_of_Z (M : list (list Z)) : mat := map (map Qc_of_Z) M.
Definition is_square (M : mat) : bool := forallb (fun r => Nat.eqb (length r) (length M)) M.

(* ---- integer-scaled power: the same power computed without rational
   normalisation (common denominator L, integer matrix A = L * M, A^k / L^k) ---- *)
Definition zdot (a b : list Z) : Z := fold_right Z.add 0%Z (map (fun p => (fst p * snd p)%Z) (combine a b)).
Definition zcol (M : list (list Z)) (j : nat) : list Z := map (fun r => nth j r 0%Z) M.
Definition ztranspose (M : list (list Z)) : list (list Z) :=
  map (zcol M) (seq 0 (match M with [] => O | r :: _ => length r end)).
Definition zmmul (A B : list (list Z)) : list (list Z) :=
  let Bt := ztranspose B in map (fun r => map (fun c => zdot r c) Bt) A.
Definition zidentity (n : nat) : list (list Z) :=
  map (fun i => map (fun j => if Nat.eqb i j then 1%Z else 0%Z) (seq 0 n)) (seq 0 n).
Fixpoint zmpow_pos (M : list (list Z)) (p : positive) : list (list Z) :=
  match p with
  | xH => M
  | xO q => let H := zmpow_pos M q in zmmul H H
  | xI q => let H := zmpow_pos M q in zmmul M (zmmul H H)
  end.
Definition zmpow (M : list (list Z)) (k : nat) : list (list Z) :=
  match k with O => zidentity (length M) | S _ => zmpow_pos M (Pos.of_nat k) end.

Definition plcm (a b : positive) : positive := Z.to_pos (Z.lcm (Zpos a) (Zpos b)).
Definition common_den (M : mat) : positive :=
  fold_right (fun r acc => fold_right (fun q acc' => plcm (Qden (this q)) acc') acc r) 1%positive M.
Definition scale_to_Z (L : positive) (M : mat) : list (list Z) :=
  map (map (fun q => (Qnum (this q) * (Zpos L / Zpos (Qden (this q))))%Z)) M.
Definition mpow_scaled (M : mat) (k : nat) : mat :=
  let L := common_den M in
  let Lk := Pos.pow L (Pos.of_nat k) in
  match k with
  | O => identity (length M)
  | S _ => map (map (fun z => Q2Qc (Qmake z Lk))) (zmpow (scale_to_Z L M) k)
  end.

(* ---- Gauss-Jordan elimination on an augmented matrix (rows = equations).
   Returns the reduced rows; None when a pivot column has no non-zero entry. ---- *)
Definition row_scale (c : Qc) (r : vec) : vec := map (fun x => (c * x)%Qc) r.
Definition row_sub (r s : vec) (c : Qc) : vec := map (fun p => (fst p - c * snd p)%Qc) (combine r s).

(* find the first row (from position k on) with a non-zero entry in column k *)
Fixpoint find_pivot (k : nat) (rows : list vec) : option (vec * list vec) :=
  match rows with
  | [] => None
  | r :: rest =>
      if Qc_eqb (nth k r 0%Qc) 0 then
        match find_pivot k rest with
        | Some (p, others) => Some (p, r :: others)
        | None => None
        end
      else Some (r, rest)
  end.

(* done: already reduced rows (pivots 0..k-1), todo: remaining rows *)
Fixpoint gauss_jordan (fuel k : nat) (done todo : list vec) : option (list vec) :=
  match fuel with
  | O => match todo with [] => Some done | _ => None end
  | S f =>
      match todo with
      | [] => Some done
      | _ =>
          match find_pivot k todo with
          | None => None
          | Some (p, others) =>
              let p' := row_scale (/ nth k p 0)%Qc p in
              let elim := fun r => row_sub r p' (nth k r 0%Qc) in
              gauss_jordan f (S k) (map elim done ++ [p']) (map elim others)
          end
      end
  end.

(* inverse of a square matrix: reduce [A | I], read off the right half *)
Definition inverse (A : mat) : option mat :=
  let n := length A in
  match gauss_jordan n 0 [] (map (fun p => fst p ++ snd p) (combine A (identity n))) with
  | Some rows => Some (map (skipn n) rows)
  | None => None
  end.
(* solve A x = b *)
Definition solve (A : mat) (b : vec) : option vec :=
  let n := length A in
  match gauss_jordan n 0 [] (map (fun p => fst p ++ [snd p]) (combine A b)) with
  | Some rows => Some (map (fun r => nth n r 0%Qc) rows)
  | None => None
  end.

Definition mat_eqb (A B : mat) : bool :=
  Nat.eqb (length A) (length B) &&
  forallb (fun p => Nat.eqb (length (fst p)) (length (snd p)) &&
                    forallb (fun q => Qc_eqb (fst q) (snd q)) (combine (fst p) (snd p))) (combine A B).
Definition vec_eqb (a b : vec) : bool :=
  Nat.eqb (length a) (length b) && forallb (fun q => Qc_eqb (fst q) (snd q)) (combine a b).

(* certified inverse: returned only if A * X = I and X * A = I *)
Definition inverse_cert (A : mat) : option mat :=
  match inverse A with
  | Some X => if mat_eqb (mmul A X) (identity (length A)) && mat_eqb (mmul X A) (identity (length A))
              then Some X else None
  | None => None
  end.
