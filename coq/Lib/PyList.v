(* Python list / NumPy 1-d array semantics on Coq lists. *)
From Coq Require Import List ZArith Arith Lia Bool.
Import ListNotations.

(* l[k:] and l[:-k] for k >= 1.  NB: Python's l[:-0] is l[:0] = []. *)
Definition slice_from {A} (k : nat) (l : list A) : list A := skipn k l.
Definition slice_to_neg {A} (k : nat) (l : list A) : list A :=
  match k with
  | O => []
  | _ => firstn (length l - k) l
  end.

(* functional update (in-place array write) *)
Fixpoint list_upd {A} (l : list A) (i : nat) (v : A) : list A :=
  match l, i with
  | [], _ => []
  | _ :: xs, O => v :: xs
  | x :: xs, S j => x :: list_upd xs j v
  end.

Fixpoint mem_Z (x : Z) (l : list Z) : bool :=
  match l with
  | [] => false
  | y :: ys => if Z.eqb x y then true else mem_Z x ys
  end.

(* first index of an element, as nat *)
Fixpoint index_of (x : Z) (l : list Z) : option nat :=
  match l with
  | [] => None
  | y :: ys => if Z.eqb x y then Some O
               else match index_of x ys with Some k => Some (S k) | None => None end
  end.

Definition Zmin_list (d : Z) (l : list Z) : Z := fold_left Z.min l d.
Definition Zmax_list (d : Z) (l : list Z) : Z := fold_left Z.max l d.
Definition Zsum (l : list Z) : Z := fold_left Z.add l 0%Z.

Definition min_of (l : list Z) : option Z :=
  match l with [] => None | x :: xs => Some (Zmin_list x xs) end.
Definition max_of (l : list Z) : option Z :=
  match l with [] => None | x :: xs => Some (Zmax_list x xs) end.

(* split a flat list into pieces of the given lengths (np.split at the
   cumulative limits, last empty piece dropped) *)
Fixpoint split_lens {A} (lens : list nat) (l : list A) : list (list A) :=
  match lens with
  | [] => []
  | n :: ns => firstn n l :: split_lens ns (skipn n l)
  end.

Lemma list_upd_length {A} (l : list A) i v : length (list_upd l i v) = length l.
Proof. revert i; induction l as [|x xs IH]; intros [|i]; simpl; auto. Qed.

Lemma mem_Z_In x l : mem_Z x l = true <-> In x l.
Proof.
  induction l as [|y ys IH]; simpl; [split; [discriminate|tauto]|].
  destruct (Z.eqb_spec x y) as [->|Hne]; [tauto|].
  rewrite IH; split; [tauto|]. intros [H|H]; [congruence|exact H].
Qed.

Lemma split_lens_concat {A} (lens : list nat) (l : list A) :
  length l = list_sum lens -> concat (split_lens lens l) = l.
Proof.
  revert l; induction lens as [|n ns IH]; intros l H; simpl in *.
  - destruct l; [reflexivity|discriminate].
  - rewrite IH; [apply firstn_skipn|]. rewrite skipn_length; lia.
Qed.

Lemma split_lens_lengths {A} (lens : list nat) (l : list A) :
  length l = list_sum lens -> map (@length A) (split_lens lens l) = lens.
Proof.
  revert l; induction lens as [|n ns IH]; intros l H; simpl in *; [reflexivity|].
  rewrite firstn_length, IH; [f_equal; lia|]. rewrite skipn_length; lia.
Qed.

Lemma split_lens_of_concat {A} (ls : list (list A)) :
  split_lens (map (@length A) ls) (concat ls) = ls.
Proof.
  induction ls as [|l ls IH]; simpl; [reflexivity|].
  rewrite firstn_app, Nat.sub_diag, firstn_all, firstn_O, app_nil_r.
  rewrite skipn_app, Nat.sub_diag, skipn_all; simpl. now rewrite IH.
Qed.
