(* Sorted-distinct label lists (np.unique), ranks. *)
From Coq Require Import List ZArith Arith Lia Bool Sorted.
From MsmV Require Import Lib.PyList.
Import ListNotations.
Local Open Scope Z_scope.

(* insert into a strictly increasing list, keeping it strictly increasing *)
Fixpoint uinsert (x : Z) (l : list Z) : list Z :=
  match l with
  | [] => [x]
  | y :: ys => if x <? y then x :: l
               else if x =? y then l
               else y :: uinsert x ys
  end.

(* np.unique: ascending distinct values *)
Definition usort (l : list Z) : list Z := fold_right uinsert [] l.

(* count occurrences *)
Fixpoint count_Z (x : Z) (l : list Z) : nat :=
  match l with
  | [] => O
  | y :: ys => if x =? y then S (count_Z x ys) else count_Z x ys
  end.

(* rank of a label in a state list; labels not present map to 0
   (never used on absent labels by the model) *)
Definition rank (states : list Z) (x : Z) : nat :=
  match index_of x states with Some k => k | None => O end.

Fixpoint arange_from (z : Z) (n : nat) : list Z := match n with O => [] | S k => z :: arange_from (z + 1) k end.
Definition arange (n : nat) : list Z := arange_from 0 n.
Definition arange1 (n : nat) : list Z := arange_from 1 n.

Fixpoint list_eqb (a b : list Z) : bool :=
  match a, b with
  | [], [] => true
  | x :: xs, y :: ys => (x =? y) && list_eqb xs ys
  | _, _ => false
  end.

Inductive ssorted : list Z -> Prop :=
| ss_nil : ssorted []
| ss_one x : ssorted [x]
| ss_cons x y l : x < y -> ssorted (y :: l) -> ssorted (x :: y :: l).

Lemma list_eqb_eq a b : list_eqb a b = true <-> a = b.
Proof.
  revert b; induction a as [|x xs IH]; intros [|y ys]; simpl; split; try congruence; try discriminate.
  - intros H. apply andb_true_iff in H as [H1 H2]. apply Z.eqb_eq in H1. apply IH in H2. congruence.
  - intros H. injection H as -> ->. rewrite Z.eqb_refl. simpl. now apply IH.
Qed.

Definition lb (x : Z) (l : list Z) : Prop := forall y, In y l -> x < y.

Lemma ssorted_inv x l : ssorted (x :: l) -> ssorted l /\ lb x l.
Proof.
  revert x; induction l as [|y ys IH]; intros x H.
  - split; [constructor|intros y []].
  - inversion H as [| |? ? ? Hxy Hs]; subst. split; [exact Hs|].
    destruct (IH _ Hs) as [_ Hlb]. intros z [->|Hz]; [exact Hxy|].
    specialize (Hlb z Hz). lia.
Qed.

Lemma ssorted_cons x l : ssorted l -> lb x l -> ssorted (x :: l).
Proof.
  intros Hs Hlb. destruct l as [|y ys]; [constructor|].
  constructor; [apply Hlb; left; reflexivity|exact Hs].
Qed.

Lemma uinsert_In x y l : In y (uinsert x l) <-> y = x \/ In y l.
Proof.
  induction l as [|z zs IH]; simpl; [intuition|].
  destruct (Z.ltb_spec x z); [simpl; intuition|].
  destruct (Z.eqb_spec x z) as [->|]; [simpl; intuition|].
  simpl. rewrite IH. intuition.
Qed.

Lemma uinsert_sorted x l : ssorted l -> ssorted (uinsert x l).
Proof.
  induction l as [|z zs IH]; intros Hs; simpl; [constructor|].
  destruct (Z.ltb_spec x z) as [Hlt|Hge]; [constructor; assumption|].
  destruct (Z.eqb_spec x z) as [->|Hne]; [assumption|].
  destruct (ssorted_inv _ _ Hs) as [Hs' Hlb].
  apply ssorted_cons; [apply IH; exact Hs'|].
  intros y Hy. apply uinsert_In in Hy as [->|Hy]; [lia|apply Hlb; exact Hy].
Qed.

Lemma usort_In x l : In x (usort l) <-> In x l.
Proof.
  induction l as [|y ys IH]; simpl; [tauto|].
  rewrite uinsert_In, IH. intuition.
Qed.

Lemma usort_sorted l : ssorted (usort l).
Proof. induction l as [|y ys IH]; simpl; [constructor|apply uinsert_sorted; exact IH]. Qed.

(* a strictly increasing list is determined by its set of elements *)
Lemma ssorted_unique a b :
  ssorted a -> ssorted b -> (forall x, In x a <-> In x b) -> a = b.
Proof.
  revert b; induction a as [|x xs IH]; intros b Ha Hb Hab.
  - destruct b as [|y ys]; [reflexivity|]. exfalso. apply (Hab y). left; reflexivity.
  - destruct b as [|y ys]; [exfalso; apply (Hab x); left; reflexivity|].
    destruct (ssorted_inv _ _ Ha) as [Ha' Hlx]. destruct (ssorted_inv _ _ Hb) as [Hb' Hly].
    assert (x = y) as ->.
    { assert (Hx : In x (y :: ys)) by (apply Hab; left; reflexivity).
      assert (Hy : In y (x :: xs)) by (apply Hab; left; reflexivity).
      destruct Hx as [->|Hx]; [reflexivity|]. destruct Hy as [->|Hy]; [reflexivity|].
      specialize (Hlx _ Hy). specialize (Hly _ Hx). lia. }
    f_equal. apply IH; [assumption|assumption|].
    intros z. split; intros Hz.
    + assert (H : In z (y :: ys)) by (apply Hab; right; exact Hz).
      destruct H as [<-|H]; [|exact H]. specialize (Hlx _ Hz). lia.
    + assert (H : In z (y :: xs)) by (apply Hab; right; exact Hz).
      destruct H as [<-|H]; [|exact H]. specialize (Hly _ Hz). lia.
Qed.

Lemma ssorted_NoDup l : ssorted l -> NoDup l.
Proof.
  induction l as [|x xs IH]; intros Hs; [constructor|].
  destruct (ssorted_inv _ _ Hs) as [Hs' Hlb]. constructor; [|apply IH; exact Hs'].
  intros Hin. specialize (Hlb _ Hin). lia.
Qed.

Lemma index_of_Some x l k : index_of x l = Some k -> nth_error l k = Some x /\ (k < length l)%nat.
Proof.
  revert k; induction l as [|y ys IH]; simpl; intros k H; [discriminate|].
  destruct (Z.eqb_spec x y) as [->|Hne].
  - injection H as <-. simpl. split; [reflexivity|lia].
  - destruct (index_of x ys) as [j|] eqn:E; [|discriminate]. injection H as <-.
    destruct (IH _ eq_refl) as [H1 H2]. simpl. split; [exact H1|lia].
Qed.

Lemma index_of_In x l : In x l -> exists k, index_of x l = Some k.
Proof.
  induction l as [|y ys IH]; simpl; intros H; [contradiction|].
  destruct (Z.eqb_spec x y) as [->|Hne]; [eexists; reflexivity|].
  destruct H as [H|H]; [congruence|]. destruct (IH H) as [k ->]. eexists; reflexivity.
Qed.

Lemma rank_nth states x : In x states -> nth (rank states x) states 0 = x /\ (rank states x < length states)%nat.
Proof.
  intros H. unfold rank. destruct (index_of_In _ _ H) as [k Hk]. rewrite Hk.
  destruct (index_of_Some _ _ _ Hk) as [H1 H2]. split; [|exact H2].
  apply nth_error_nth. exact H1.
Qed.

Lemma index_of_nth_NoDup l k : NoDup l -> (k < length l)%nat -> index_of (nth k l 0) l = Some k.
Proof.
  revert k; induction l as [|y ys IH]; intros k Hnd Hk; simpl in *; [lia|].
  inversion Hnd as [|? ? Hnin Hnd']; subst.
  destruct k as [|k]; [rewrite Z.eqb_refl; reflexivity|].
  destruct (Z.eqb_spec (nth k ys 0) y) as [E|Hne].
  - exfalso. apply Hnin. rewrite <- E. apply nth_In. lia.
  - rewrite IH; [reflexivity|assumption|lia].
Qed.
