(* Result monad: Python exceptions become error kinds. *)
From Coq Require Import List ZArith.
Import ListNotations.

Inductive errkind :=
| ValueError | TypeError | LagtimeError | NotImplementedError
| IndexError | FileError | OtherError.

Inductive res (A : Type) :=
| Ok (a : A)
| Err (k : errkind).
Arguments Ok {A} a.
Arguments Err {A} k.

Definition bind {A B} (r : res A) (f : A -> res B) : res B :=
  match r with Ok a => f a | Err k => Err k end.

Definition rmap {A B} (f : A -> B) (r : res A) : res B :=
  match r with Ok a => Ok (f a) | Err k => Err k end.

Notation "x <- r ;; k" := (bind r (fun x => k))
  (at level 61, r at next level, right associativity).

(* map a result-returning function over a list, first error wins
   (Python: the loop raises at the first failing element). *)
Fixpoint mapM {A B} (f : A -> res B) (l : list A) : res (list B) :=
  match l with
  | [] => Ok []
  | x :: xs => y <- f x ;; ys <- mapM f xs ;; Ok (y :: ys)
  end.

Definition errcode (k : errkind) : Z :=
  match k with
  | ValueError => 1 | TypeError => 2 | LagtimeError => 3
  | NotImplementedError => 4 | IndexError => 5 | FileError => 6
  | OtherError => 7
  end%Z.

Definition is_ok {A} (r : res A) : bool :=
  match r with Ok _ => true | Err _ => false end.
