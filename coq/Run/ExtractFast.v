(* Second extraction of the same dispatcher, with Coq's standard-library
   ExtrOcamlZBigInt (positive/N/Z as Zarith integers).  Used for speed; its
   answers are cross-checked against the ExtrOcamlBasic-only extraction
   (Extract.v) and against vm_compute inside Coq. *)
From Coq Require Import ZArith ExtrOcamlBasic ExtrOcamlZBigInt.
From Coq Require Extraction.
From MsmV Require Import Run.Run.
Extraction Language OCaml.
Extraction "Run/modelfast.ml" run Z.add Z.mul Z.opp Z.div_eucl Z.of_nat Z.ltb Z.eqb Z.sub.
