(* Dispatcher: one entry point for every executable model function. *)
From Coq Require Import List ZArith Arith Bool QArith Qcanon.
From MsmV Require Import Lib.Result Lib.PyList Lib.Sorting Run.Wire.
From MsmV Require Import Lib.QMat Model.Labels Model.StateTraj Model.Msm Proofs.MsmFacts Model.Coring Proofs.CoringFacts Proofs.CoringWrap Model.Events Model.Similarity Spec.Wrappers Model.Ergodic Model.Peq Model.HS Model.Mcmc Model.CkTest Model.Its Model.TextIO Model.Filter.
Import ListNotations.
Local Open Scope Z_scope.

Definition dnested : dec (list (list Z)) := dlist (dlist dZ).

Definition run_labels (e : Z) (a : list Z) : option (list Z) :=
  if e =? 1501 then
    match dpair dnested (dpair (dlist dZ) (dlist dZ)) a with
    | Some ((ls, (old, new)), _) =>
        Some (eres enested (shift_nested ls old new)
              ++ enested (map (map (subst old new)) ls))
    | None => None end
  else if e =? 1502 then
    match dpair (dlist dZ) (dpair (dlist dZ) (dlist dZ)) a with
    | Some ((d, (old, new)), _) =>
        Some (eres eZs (shift_flat d old new) ++ eZs (map (subst old new) d))
    | None => None end
  else if e =? 1503 then
    match dnested a with
    | Some (ls, _) =>
        Some (eres (fun p => enested (fst p) ++ eZs (snd p)) (rename_by_index ls))
    | None => None end
  else if e =? 1504 then
    match dnested a with
    | Some (ls, _) =>
        Some (eres (fun p => enested (fst p) ++ eZs (snd p)) (rename_by_population ls))
    | None => None end
  else if e =? 1505 then
    match dpair dnested (dpair dnested (dlist dZ)) a with
    | Some ((ls, (out, perm)), _) => Some (ebool (rename_pop_ok ls out perm))
    | None => None end
  else if e =? 1506 then
    match dnested a with
    | Some (ls, _) => let '(st, c) := unique_counts ls in Some (eZs st ++ enats c)
    | None => None end
  else None.

Definition run_msm (e : Z) (a : list Z) : option (list Z) :=
  if e =? 101 then
    match dpair dnested dnat a with
    | Some ((ts, lag), _) =>
        let st := unique ts in
        Some (eres (fun p => eQmat (fst p) ++ eZs (snd p)) (estimate_markov_model ts lag)
              ++ eZs st
              ++ eZmat (map (fun x => map (fun y => Z.of_nat (Label_C lag ts x y)) st) st))
    | None => None end
  else if e =? 102 then
    (* same answer layout, but the counts are those of the code-shaped fold (count_matrix), not of the
       nth-based specification form (quadratic in the trajectory length): for very long trajectories;
       count_matrix_spec_thm (C01) proves the two equal *)
    match dpair dnested dnat a with
    | Some ((ts, lag), _) =>
        let st := unique ts in
        Some (eres (fun p => eQmat (fst p) ++ eZs (snd p)) (estimate_markov_model ts lag)
              ++ eZs st
              ++ match mk ts with
                 | Ok s => eZmat (count_matrix (nstates s) lag (st_idx s))
                 | Err _ => eZmat []
                 end)
    | None => None end
  else None.

Definition run_coring (e : Z) (a : list Z) : option (list Z) :=
  if e =? 501 then
    match dpair dnested (dpair dZ dbool) a with
    | Some ((ts, (lag, iter)), _) =>
        Some (eres enested (dynamical_coring ts lag iter)
              ++ eres enested (if lag <=? 0 then Err ValueError else if lag =? 1 then Ok ts
                               else coring_ref ts (Z.to_nat lag) iter))
    | None => None end
  else if e =? 503 then
    (* same answer layout as 501, both halves computed by the structurally recursive reference rule
       (linear in the length); for very long trajectories, where the code-shaped kernel model with its
       indexed list updates is quadratic. wrapper_spec / single_eq_ref (C05) prove the two equal *)
    match dpair dnested (dpair dZ dbool) a with
    | Some ((ts, (lag, iter)), _) =>
        let r := if lag <=? 0 then Err ValueError else if lag =? 1 then Ok ts
                 else coring_ref ts (Z.to_nat lag) iter in
        Some (eres enested r ++ eres enested r)
    | None => None end
  else if e =? 502 then   (* all maximal runs >= m ? *)
    match dpair dnested dnat a with
    | Some ((ts, m), _) => Some (ebool (forallb (runs_geb m) ts))
    | None => None end
  else None.

Definition edict (d : list (list Z * list Z)) : list Z :=
  elist (fun kv => eZs (fst kv) ++ eZs (snd kv)) d.

Definition run_events (e : Z) (a : list Z) : option (list Z) :=
  if e =? 601 then
    match dpair dnested (dpair (dlist dZ) (dlist dZ)) a with
    | Some ((ts, (st, fi)), _) =>
        Some (eres eZs (estimate_waiting_times ts st fi) ++ eres eZs (wt_ref ts st fi))
    | None => None end
  else if e =? 602 then
    match dpair dnested (dpair (dlist dZ) (dlist dZ)) a with
    | Some ((ts, (st, fi)), _) =>
        Some (eres edict (estimate_paths ts st fi) ++ eres edict (paths_ref ts st fi))
    | None => None end
  else if e =? 1301 then
    match dpair dnested (dpair dnested dZ) a with
    | Some ((t1, (t2, m)), _) =>
        Some (eres eQ (compare_discretization t1 t2 m) ++ eres eQ (sim_ref t1 t2 m))
    | None => None end
  else None.

Definition dQmat : dec (list (list Qc)) := dlist (dlist dQ).
Definition ebools (l : list bool) : list Z := elist ebool l.

(* threshold-freeness of a case: no entry of the exact power in (0, atol], and
   no row sum whose distance from one is within 1e-12 of the 1e-8 tolerance *)
Definition tiny12 : Qc := Q2Qc (1 # 1000000000000).
Definition threshold_free (M : mat) : bool :=
  let P := mpow_scaled M (wexp (length M)) in
  all_entries (fun x => Qc_eqb x 0 || Qc_ltb (atol8 + tiny12) x || Qc_ltb x 0) P.
Definition rows_clear (M : mat) : bool :=
  forallb (fun s => let d := Qc_abs (s - 1) in Qc_leb d (atol8 - tiny12) || Qc_ltb (atol8 + tiny12) d) (rowsums M).

Definition run_ergodic (e : Z) (a : list Z) : option (list Z) :=
  if e =? 1401 then
    match dQmat a with
    | Some (M, _) =>
        Some (ebool (is_tmat atol8 M) ++ ebool (is_ergodic atol8 M) ++ ebool (is_fuzzy_ergodic atol8 M)
              ++ eres ebools (ergodic_mask atol8 M)
              ++ ebool (graph_ergodic (supp M)) ++ ebool (threshold_free M) ++ ebool (rows_clear M)
              ++ ebool (stochastic M) ++ eopt ebools (mask_spec (supp M)))
    | None => None end
  else None.

Definition run_peq (e : Z) (a : list Z) : option (list Z) :=
  if e =? 401 then
    match dpair dQmat dbool a with
    | Some ((T, allow), _) =>
        Some (eres (eopt eQs) (peq T allow) ++ ebool (is_ergodic atol8 T) ++ ebool (stochastic T)
              ++ ebool (threshold_free T) ++ ebool (rows_clear T) ++ eopt ebools (mask_spec (supp T))
              ++ ebool (all_classes_aperiodic (supp T)) ++ [Z.of_nat (n_closed_classes (supp T))])
    | None => None end
  else if e =? 402 then
    match dpair dQ (dpair dQmat (dlist dQ)) a with
    | Some ((tol, (T, v)), _) => Some (ebool (peq_ok tol T v))
    | None => None end
  else if e =? 301 then
    match dpair dnested (dpair dnested (dpair dbool dnat)) a with
    | Some ((macro, (micro, (pos, lag))), _) =>
        let r := lumped_estimate macro micro pos lag in
        (* aggregated equilibrium populations, for the stationarity check of the implementation *)
        let pA := match mk_lumped macro micro pos with
                  | Ok l => match assign_idx l, stationary (fst (emm (lu_micro l) lag)) with
                            | Ok aidx, Some pi => Some (vmul pi (aggregation (length (lu_macrostates l)) aidx))
                            | _, _ => None end
                  | Err _ => None end in
        Some (eres (eopt (fun p => eQmat (fst p) ++ eZs (snd p))) r ++ eopt eQs pA
              ++ eres (fun p => eQmat (fst p) ++ eZs (snd p)) (estimate_markov_model macro lag)
              ++ eres (fun p => eQmat (fst p) ++ eZs (snd p) ++ ebool (threshold_free (fst p)))
                      (estimate_markov_model micro lag))
    | None => None end
  else if e =? 302 then
    match dpair dQ (dpair dQmat (dlist dQ)) a with
    | Some ((tol, (M, v)), _) => Some (ebool (rows_sum_to_one tol M) ++ ebool (stationary_within tol M v)
                                        ++ ebool (forallb (forallb (fun x => Qc_leb 0 x)) M))
    | None => None end
  else None.

Definition run_views (e : Z) (a : list Z) : option (list Z) :=
  if e =? 201 then
    match dnested a with
    | Some (ts, _) =>
        let enc := fun s : statetraj =>
          eZs (st_states s) ++ enested (index_trajs s) ++ eres enested (trajs s)
          ++ [Z.of_nat (ntrajs s); Z.of_nat (nframes s); Z.of_nat (nstates s)] in
        Some (eres enc (mk ts) ++ enc (mk_spec ts))
    | None => None end
  else if e =? 202 then
    match dpair dnested dnested a with
    | Some ((macro, micro), _) =>
        Some (eres (fun l : lumped =>
                eres enested (lumped_trajs l) ++ eres enested (trajs (lu_micro l))
                ++ eZs (lu_assign l) ++ eZs (lu_macrostates l) ++ eZs (st_states (lu_micro l))
                ++ enested (index_trajs (lu_micro l))
                ++ eres enested (bind (assign_idx l) (fun ai =>
                     shift_nested (index_trajs (lu_micro l)) (arange (nstates (lu_micro l))) (map Z.of_nat ai))))
              (mk_lumped macro micro false))
    | None => None end
  else None.

Definition dcm : dec cummat := dlist (dpair (dlist dQ) (dlist dnat)).
Definition ecm (cm : cummat) : list Z := elist (fun r => eQs (fst r) ++ enats (snd r)) cm.
Definition edict2 (d : list (nat * nat)) : list Z := elist (fun kc => [Z.of_nat (fst kc); Z.of_nat (snd kc)]) d.

Definition run_mcmc (e : Z) (a : list Z) : option (list Z) :=
  if e =? 701 then      (* one row, many draws *)
    match dpair (dlist dQ) (dpair (dlist dnat) (dlist dQ)) a with
    | Some ((c, (p, us)), _) => Some (enats (map (fun u => mc_step [(c, p)] 0 u) us))
    | None => None end
  else if e =? 702 then
    match dpair dcm (dpair dnat (dlist dQ)) a with
    | Some ((cm, (start, us)), _) => Some (enats (propagate cm start us))
    | None => None end
  else if e =? 703 then  (* exact cumulative matrix of the model estimated from trajectories *)
    match dpair dnested dnat a with
    | Some ((ts, lag), _) =>
        Some (eres (fun p => eQmat (fst p) ++ eZs (snd p) ++ eres ecm (get_cummat (fst p)))
                   (estimate_markov_model ts lag))
    | None => None end
  else if e =? 704 then  (* cumulative matrix of a user matrix (propagate_tmat) *)
    match dQmat a with
    | Some (T, _) => Some (ebool (is_tmat atol8 T) ++ ecm (tmat_cummat T))
    | None => None end
  else if e =? 801 then
    match dpair dcm (dpair dnat (dpair (dlist dnat) (dpair (dlist dnat) (dlist dQ)))) a with
    | Some ((cm, (start, (Ss, (Fs, us)))), _) =>
        let real := chain_from cm start us in
        let dw := wt_online cm 0 false 0 start Ss Fs us [] in
        let dt := tt_online cm 0 false 0 start Ss Fs us [] in
        Some (edict2 dw ++ enats (chain_durations real Ss Fs) ++ edict2 dt ++ enats (chain_tt_durations real Ss Fs)
              ++ enats real)
    | None => None end
  else if e =? 802 then
    match dpair (dlist (dpair dnat dnat)) dnat a with
    | Some ((d, lag), _) => Some (enats (hist_pts d) ++ eQs (hist_density d lag) ++ enats (hist_edges d lag))
    | None => None end
  else None.

Definition eck (c : ckeq) : list Z :=
  elist eQs (ck_curves c) ++ enats (ck_times c) ++ ebool (ck_erg c) ++ ebool (ck_fuzzy c) ++ eZs (ck_states c).
Definition eref (macro : statetraj) (lags : list nat) : list Z :=
  elist (fun t => let '(d, e, f) := ck_reference_at macro t in
                  eQs d ++ ebool e ++ ebool f
                  ++ ebool (threshold_free (fst (emm macro t)) && rows_clear (fst (emm macro t)))) lags.

Definition run_ck (e : Z) (a : list Z) : option (list Z) :=
  if e =? 901 then
    match dpair dnested (dpair dnat (dpair dnat (dlist dnat))) a with
    | Some ((ts, (lag, (tmax, refs))), _) =>
        Some (eres (fun s => eck (ck_model_plain s lag tmax)
                             ++ ebool (threshold_free (fst (emm s lag)) && rows_clear (fst (emm s lag)))
                             ++ eref s refs) (mk ts))
    | None => None end
  else if e =? 902 then
    match dpair dnested (dpair dnested (dpair dnat (dpair dnat (dlist dnat)))) a with
    | Some ((macro, (micro, (lag, (tmax, refs)))), _) =>
        Some (eres (fun l => eres (eopt eck) (ck_model_lumped l lag tmax)
                             ++ ebool (threshold_free (fst (emm (lu_micro l) lag)))
                             ++ eres (fun s => eref s refs) (mk macro)) (mk_lumped macro micro false))
    | None => None end
  else None.

Definition dcplx : dec cplx := dpair dQ dQ.
Definition eclass (c : evclass) : Z :=
  match c with RealNonPos => 0 | RealUnit => 1 | RealGeOne => 2 | Complex => 3 end.

Definition run_its (e : Z) (a : list Z) : option (list Z) :=
  if e =? 1001 then   (* eigen-pairs: residuals, ordering, trace *)
    match dpair dbool (dpair dQ (dpair dQmat (dpair (dlist dcplx) (dlist (dlist dcplx))))) a with
    | Some ((isleft, (tol, (T, (lams, vecs)))), _) =>
        Some (ebools (map (fun p => residual_ok isleft tol T (fst p) (snd p)) (combine lams vecs))
              ++ ebool (desc_sorted lams)
              ++ eQ (trace T) ++ eQ (fst (csum lams)) ++ eQ (snd (csum lams)))
    | None => None end
  else if e =? 1002 then   (* classes of eigenvalues; exact lambda_2 of a two-state model from trajectories *)
    match dlist dcplx a with
    | Some (lams, _) => Some (eZs (map (fun l => eclass (classify l)) lams))
    | None => None end
  else if e =? 1003 then
    match dpair dnested dnat a with
    | Some ((ts, lag), _) =>
        Some (eres (fun p => eQmat (fst p) ++ eQ (two_state_lambda (fst p)) ++ eQ (trace (fst p)))
                   (estimate_markov_model ts lag))
    | None => None end
  else None.

Definition dfmt : dec fmt := fun l =>
  match dZ l with Some (z, r) => Some ((if z =? 0 then F5 else if z =? 1 then F0 else FD), r) | None => None end.
Definition ddtype : dec (option dtype) := fun l =>
  match dZ l with
  | Some (z, r) => Some ((if z =? 0 then None else if z =? 8 then Some Int8 else if z =? 16 then Some Int16
                          else if z =? 32 then Some Int32 else if z =? 64 then Some Int64 else Some Float64), r)
  | None => None end.
Definition dopt {A} (d : dec A) : dec (option A) := fun l =>
  match dZ l with
  | Some (z, r) => if z =? 0 then Some (None, r)
                   else match d r with Some (a, r') => Some (Some a, r') | None => None end
  | None => None end.
Definition edtype (d : dtype) : Z := match d with Int8 => 8 | Int16 => 16 | Int32 => 32 | Int64 => 64 | Float64 => 1 end.

Definition run_io (e : Z) (a : list Z) : option (list Z) :=
  if e =? 1601 then
    match dpair dfmt (dpair (dlist (dlist dnat)) dnested) a with
    | Some ((f, (hdr, tbl)), _) => Some (enats (render f hdr tbl))
    | None => None end
  else if e =? 1602 then
    match dpair (dlist dnat) (dpair (dlist dnat) (dpair (dopt (dlist dnat)) (dopt dnat))) a with
    | Some ((cs, (bytes, (cols, nrows))), _) => Some (eres enested (opentxt cs bytes cols nrows))
    | None => None end
  else if e =? 1603 then
    match dpair (dlist dnat) (dpair (dlist dnat) (dpair (dopt (dlist dnat)) ddtype)) a with
    | Some ((cs, (bytes, (lims, dt))), _) =>
        Some (eres (fun p => edtype (fst p) :: enested (snd p)) (openmicrostates cs bytes lims dt))
    | None => None end
  else if e =? 1604 then
    match dpair dnested (dopt (dlist dnat)) a with
    | Some ((rows, lims), _) => Some (eres (elist enested) (split_limits rows lims))
    | None => None end
  else None.

Definition run_filter (e : Z) (a : list Z) : option (list Z) :=
  if e =? 2001 then
    match dpair (dlist dQ) (dlist dQ) a with
    | Some ((w, xs), _) => Some (eQs (gfilt w xs))
    | None => None end
  else if e =? 2002 then
    match dpair (dlist dQ) dQmat a with
    | Some ((w, tbl), _) => Some (eQmat (gfilt2d w tbl))
    | None => None end
  else if e =? 2003 then
    match dpair (dlist dQ) dnat a with
    | Some ((xs, w), _) => Some (eQs (runningmean xs w) ++ eQs (map (window_mean xs w) (seq 0 (length xs))))
    | None => None end
  else if e =? 1901 then
    match dpair dnat dnat a with
    | Some ((n, chunk), _) => Some (enested (split_array (map Z.of_nat (seq 0 n)) chunk))
    | None => None end
  else None.

Definition run (req : list Z) : list Z :=
  match req with
  | [] => malformed
  | e :: a =>
      match run_labels e a with
      | Some r => r
      | None =>
      match run_msm e a with
      | Some r => r
      | None =>
      match run_coring e a with
      | Some r => r
      | None =>
      match run_events e a with
      | Some r => r
      | None =>
      match run_ergodic e a with
      | Some r => r
      | None =>
      match run_peq e a with
      | Some r => r
      | None =>
      match run_views e a with
      | Some r => r
      | None =>
      match run_mcmc e a with
      | Some r => r
      | None =>
      match run_ck e a with
      | Some r => r
      | None =>
      match run_its e a with
      | Some r => r
      | None =>
      match run_io e a with
      | Some r => r
      | None =>
      match run_filter e a with
      | Some r => r
      | None => malformed
      end end end end end end end end end end end end
  end.
