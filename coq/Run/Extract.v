From Coq Require Import ZArith ExtrOcamlBasic.
From Coq Require Extraction.
From MsmV Require Import Run.Run.
Extraction Language OCaml.

Extraction "Run/model.ml" run Z.add Z.mul Z.opp Z.div_eucl Z.of_nat Z.ltb Z.eqb Z.sub.
