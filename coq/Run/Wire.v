(* Wire format between harness and model: flat lists of integers. *)
From Coq Require Import List ZArith Arith Bool QArith Qcanon.
From MsmV Require Import Lib.Result.
Import ListNotations.
Local Open Scope Z_scope.

Definition dec (A : Type) := list Z -> option (A * list Z).

Definition dZ : dec Z := fun l => match l with x :: r => Some (x, r) | [] => None end.
Definition dnat : dec nat := fun l =>
  match l with x :: r => if x <? 0 then None else Some (Z.to_nat x, r) | [] => None end.
Definition dbool : dec bool := fun l =>
  match l with x :: r => Some (negb (x =? 0), r) | [] => None end.

Fixpoint drep {A} (d : dec A) (n : nat) (l : list Z) : option (list A * list Z) :=
  match n with
  | O => Some ([], l)
  | S k => match d l with
           | Some (a, r) => match drep d k r with
                            | Some (xs, r') => Some (a :: xs, r')
                            | None => None end
           | None => None end
  end.

Definition dlist {A} (d : dec A) : dec (list A) := fun l =>
  match dnat l with Some (n, r) => drep d n r | None => None end.

Definition dpair {A B} (da : dec A) (db : dec B) : dec (A * B) := fun l =>
  match da l with
  | Some (a, r) => match db r with Some (b, r') => Some ((a, b), r') | None => None end
  | None => None end.

Definition eZs (l : list Z) : list Z := Z.of_nat (length l) :: l.
Definition enats (l : list nat) : list Z := Z.of_nat (length l) :: map Z.of_nat l.
Definition elist {A} (e : A -> list Z) (l : list A) : list Z :=
  Z.of_nat (length l) :: concat (map e l).
Definition enested (ls : list (list Z)) : list Z := elist eZs ls.
Definition ebool (b : bool) : list Z := [if b then 1 else 0].
Definition eres {A} (e : A -> list Z) (r : res A) : list Z :=
  match r with Ok a => 0 :: e a | Err k => [1; errcode k] end.
Definition eopt {A} (e : A -> list Z) (o : option A) : list Z :=
  match o with None => [0] | Some a => 1 :: e a end.

Definition eQ (q : Qc) : list Z := [Qnum (this q); Zpos (Qden (this q))].
Definition eQs (l : list Qc) : list Z := elist eQ l.
Definition eQmat (m : list (list Qc)) : list Z := elist eQs m.
Definition eZmat (m : list (list Z)) : list Z := elist eZs m.
Definition dQ : dec Qc := fun l =>
  match l with
  | n :: d :: r => if 0 <? d then Some (Q2Qc (Qmake n (Z.to_pos d)), r) else None
  | _ => None end.

(* a malformed request is answered by the single token -999999 *)
Definition malformed : list Z := [-999999].
