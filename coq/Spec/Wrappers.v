(* Specification-shaped public-API wrappers (validation written directly on
   label sets, reference extraction). Definitions only; used as oracles. *)
From Coq Require Import List ZArith Arith Bool QArith Qcanon.
From MsmV Require Import Lib.Result Lib.PyList Lib.Sorting Lib.QMat Model.Labels Model.StateTraj
  Model.Events Model.Similarity.
Import ListNotations.
Local Open Scope nat_scope.

Definition basins_valid (ts : list (list Z)) (start final : list Z) : bool :=
  let all := concat ts in
  negb (existsb (fun x => mem_Z x final) start)
  && forallb (fun x => mem_Z x all) start && forallb (fun x => mem_Z x all) final.

Definition wt_ref (ts : list (list Z)) (start final : list Z) : res (list Z) :=
  if basins_valid ts start final then
    Ok (concat (map (fun t => map (fun p => Z.of_nat (snd p - fst p))
                                  (events_ref (length t) 0 t start final)) ts))
  else Err ValueError.

Definition paths_ref (ts : list (list Z)) (start final : list Z) : res (list (list Z * list Z)) :=
  if basins_valid ts start final then
    Ok (group (concat (map (fun t => map (fun p => (loop_erase start (sub t (fst p) (snd p)),
                                                    Z.of_nat (snd p - fst p)))
                                         (events_ref (length t) 0 t start final)) ts)))
  else Err ValueError.

Definition sim_ref (ts1 ts2 : list (list Z)) (method : Z) : res Qc :=
  let f1 := concat ts1 in let f2 := concat ts2 in
  let s1 := usort f1 in let s2 := usort f2 in
  if negb ((method =? 0)%Z || (method =? 1)%Z) then Err ValueError
  else if negb (Nat.eqb (length f1) (length f2)) then Err ValueError
  else if Nat.eqb (length s1) 1 || Nat.eqb (length s2) 1 then Err ValueError
  else Ok (sim_spec (length s1) (length s2)
                    (combine (map (rank s1) f1) (map (rank s2) f2)) (method =? 0)%Z).
