# -*- coding: utf-8 -*-
"""Implementation side: runs in /venv/bin/python with PYTHONPATH=/repo/src.

Reads JSON lines (lists of cases), answers JSON lines (lists of results).
Each result is produced by props.<prop>.impl(case) and is canonical JSON.
"""
import importlib
import json
import os
import sys
import traceback


def errkind(exc):
    name = type(exc).__name__
    for k in ('ValueError', 'TypeError', 'LagtimeError', 'NotImplementedError',
              'IndexError', 'FileError'):
        if name == k:
            return k
    # subclasses
    if isinstance(exc, NotImplementedError):
        return 'NotImplementedError'
    if isinstance(exc, IndexError):
        return 'IndexError'
    if isinstance(exc, ValueError):
        return 'ValueError'
    if isinstance(exc, TypeError):
        return 'TypeError'
    return 'Other:' + name


def broken_hook(exc):
    """The harness reaches a few private helpers of the package (listed per property under
    'trusted'). When such a helper is gone, renamed or has another signature the exception is raised
    in a harness frame, not inside the package: that is a broken correspondence, not a failing input."""
    tb = exc.__traceback__
    last = None
    while tb is not None:
        last = tb
        tb = tb.tb_next
    if last is None:
        return None
    fn = last.tb_frame.f_code.co_filename
    here = os.path.dirname(os.path.abspath(__file__))
    if not os.path.abspath(fn).startswith(here):
        return None
    msg = str(exc)
    obj = getattr(exc, 'obj', None)
    owner = getattr(obj, '__name__', '') if type(obj).__name__ == 'module' else getattr(type(obj), '__module__', '')
    if isinstance(exc, (AttributeError, ImportError, NameError)) and ('msmhelper' in msg or str(owner).startswith('msmhelper')):
        return '%s: %s (%s:%d)' % (type(exc).__name__, msg[:160], os.path.basename(fn), last.tb_lineno)
    if isinstance(exc, TypeError) and any(k in msg for k in ('positional argument', 'unexpected keyword', 'required positional', 'takes ')):
        return '%s: %s (%s:%d)' % (type(exc).__name__, msg[:160], os.path.basename(fn), last.tb_lineno)
    return None


def main():
    prop = sys.argv[1]
    import msmhelper
    import os
    root = os.path.join(os.environ.get('VERIF_REPO', '/repo'), 'src')
    assert msmhelper.__file__.startswith(root), msmhelper.__file__
    mod = importlib.import_module('props.' + prop.lower())
    if hasattr(mod, 'impl_init'):
        mod.impl_init()
    sys.stdout.write('READY\n')
    sys.stdout.flush()
    real_stdout = sys.stdout
    for line in sys.stdin:
        cases = json.loads(line)
        out = []
        for case in cases:
            try:
                sys.stdout = sys.stderr  # keep library prints off the channel
                out.append(mod.impl(case))
            except BaseException as exc:  # noqa
                if isinstance(exc, (KeyboardInterrupt, SystemExit)):
                    raise
                res = {'err': errkind(exc), 'msg': str(exc)[:200]}
                hook = broken_hook(exc)
                if hook:
                    res['hook'] = hook
                out.append(res)
            finally:
                sys.stdout = real_stdout
        real_stdout.write(json.dumps(out) + '\n')
        real_stdout.flush()


if __name__ == '__main__':
    main()
