# -*- coding: utf-8 -*-
"""Helpers used on the implementation side (inside the worker)."""
import numpy as np


def canon(x):
    """Canonical JSON form of arrays / lists of arrays / scalars."""
    if isinstance(x, np.ndarray):
        return {'t': 'arr', 'shape': list(x.shape), 'dtype': str(x.dtype),
                'int': bool(np.issubdtype(x.dtype, np.integer)),
                'v': [int(v) for v in x.flatten()] if np.issubdtype(x.dtype, np.integer) or x.dtype == bool
                else [float(v).hex() for v in x.flatten()]}
    if isinstance(x, (list, tuple)):
        return {'t': 'list', 'items': [canon(y) for y in x]}
    if isinstance(x, (bool, np.bool_)):
        return {'t': 'bool', 'v': bool(x)}
    if isinstance(x, (int, np.integer)):
        return {'t': 'int', 'v': int(x)}
    if isinstance(x, (float, np.floating)):
        return {'t': 'float', 'v': float(x).hex()}
    return {'t': 'other', 'v': repr(x)[:100]}


DTYPES = {'int8': np.int8, 'int16': np.int16, 'int32': np.int32, 'int64': np.int64,
          'uint8': np.uint8, 'uint16': np.uint16}


def build(form, trajs, dtypes=None):
    """Build the container `form` denoting the trajectories `trajs`
    (list of lists of ints)."""
    def dt(k):
        if dtypes is None:
            return np.int64
        return DTYPES[dtypes[k % len(dtypes)]]
    if form == 'list':        # flat python list of ints (single trajectory)
        return [int(v) for v in trajs[0]]
    if form == 'tuple':
        return tuple(int(v) for v in trajs[0])
    if form == 'arr1':
        return np.array(trajs[0], dtype=dt(0))
    if form == 'arr2':
        return np.array(trajs, dtype=dt(0))
    if form == 'lol':
        return [[int(v) for v in t] for t in trajs]
    if form == 'loa':
        return [np.array(t, dtype=dt(k)) for k, t in enumerate(trajs)]
    if form == 'toa':
        return tuple(np.array(t, dtype=dt(k)) for k, t in enumerate(trajs))
    if form == 'obj':
        import msmhelper as mh
        return mh.StateTraj([np.array(t, dtype=dt(k)) for k, t in enumerate(trajs)])
    raise ValueError(form)


def tolists(trajs):
    return [[int(v) for v in t] for t in trajs]
