# -*- coding: utf-8 -*-
"""Helpers used on the implementation side (inside the worker)."""
import numpy as np


def canon(x):
    """Canonical JSON form of arrays / lists of arrays / scalars."""
    if isinstance(x, np.ndarray):
        return {'t': 'arr', 'shape': list(x.shape), 'dtype': str(x.dtype),
                'int': bool(np.issubdtype(x.dtype, np.integer)),
                'v': [int(v) for v in x.flatten()] if np.issubdtype(x.dtype, np.integer) or x.dtype == bool
                else [float(v).hex() for v in x.flatten()]}
    if isinstance(x, (list, tuple)):
        return {'t': 'list', 'items': [canon(y) for y in x]}
    if isinstance(x, (bool, np.bool_)):
        return {'t': 'bool', 'v': bool(x)}
    if isinstance(x, (int, np.integer)):
        return {'t': 'int', 'v': int(x)}
    if isinstance(x, (float, np.floating)):
        return {'t': 'float', 'v': float(x).hex()}
    return {'t': 'other', 'v': repr(x)[:100]}


DTYPES = {'int8': np.int8, 'int16': np.int16, 'int32': np.int32, 'int64': np.int64,
          'uint8': np.uint8, 'uint16': np.uint16}


def build(form, trajs, dtypes=None, layout=None):
    """Build the container `form` denoting the trajectories `trajs`
    (list of lists of ints). layout='alt': the same values in another memory layout
    (Fortran-ordered / transposed 2-d arrays, strided 1-d views)."""
    if layout == 'alt':
        form = {'arr2': 'arr2f' if len(trajs) % 2 else 'arr2t', 'arr1': 'arr1s', 'loa': 'loas'}.get(form, form)
        if form == 'arr1s' and not len(trajs[0]):
            form = 'arr1'
    elif layout == 'lumped' and form in ('loa', 'obj', 'toa', 'lol'):
        form = 'lumped'
    def dt(k):
        if dtypes is None:
            return np.int64
        return DTYPES[dtypes[k % len(dtypes)]]
    if form == 'list':        # flat python list of ints (single trajectory)
        return [int(v) for v in trajs[0]]
    if form == 'tuple':
        return tuple(int(v) for v in trajs[0])
    if form == 'arr1':
        return np.array(trajs[0], dtype=dt(0))
    if form == 'arr2':
        return np.array(trajs, dtype=dt(0))
    if form == 'lol':
        return [[int(v) for v in t] for t in trajs]
    def row(k, t):            # 'pylist': this row stays a plain Python list among arrays
        if dtypes is not None and dtypes[k % len(dtypes)] == 'pylist':
            return [int(v) for v in t]
        return np.array(t, dtype=dt(k))
    if form == 'loa':
        return [row(k, t) for k, t in enumerate(trajs)]
    if form == 'toa':
        return tuple(row(k, t) for k, t in enumerate(trajs))
    if form == 'obj':
        import msmhelper as mh
        return mh.StateTraj([np.array(t, dtype=dt(k)) for k, t in enumerate(trajs)])
    # ---- the same values in other memory layouts (views, Fortran order, strides)
    if form == 'arr2f':       # 2-d, Fortran-contiguous
        return np.asfortranarray(np.array(trajs, dtype=dt(0)))
    if form == 'arr2t':       # 2-d, a transposed view of a C array
        return np.ascontiguousarray(np.array(trajs, dtype=dt(0)).T).T
    if form == 'arr1s':       # 1-d, a strided view (every second element of a longer buffer)
        buf = np.zeros(2 * len(trajs[0]), dtype=dt(0))
        buf[::2] = trajs[0]
        return buf[::2]
    if form == 'loas' and len(trajs) >= 2 and len(trajs) % 2 == 0 and (dtypes is None or len(set(dtypes)) == 1) and all(len(t) for t in trajs):
        # contiguous views that together cover ONE buffer, which holds the trajectories in REVERSED order
        # (memory order differs from list order; what counts is the list)
        base = np.concatenate([np.array(t, dtype=dt(0)) for t in reversed(trajs)])
        ends = np.cumsum([len(t) for t in reversed(trajs)])
        views = [base[e - len(t):e] for e, t in zip(ends, reversed(trajs))]
        return views[::-1]
    if form == 'loas':        # list of strided / reversed-twice views
        out = []
        for k, t in enumerate(trajs):
            buf = np.zeros(2 * len(t) + 1, dtype=dt(k))
            buf[1::2] = t
            out.append(buf[1::2])
        return out
    if form == 'lumped':      # a LumpedStateTraj whose MACRO trajectories are `trajs`
        import msmhelper as mh
        return mh.LumpedStateTraj([np.array(t, dtype=dt(k)) for k, t in enumerate(trajs)], refine(trajs))
    raise ValueError(form)


def refine(trajs):
    """micro trajectories for `trajs` as macro trajectories: the most frequent macro label a is split into
    the two micro labels 3a-1000 and 3a-999 (alternating by frame), every other label b becomes 3b-1000;
    micro and macro alphabets differ in values and in number, and the micro model usually stays ergodic"""
    from collections import Counter
    cnt = Counter(int(v) for t in trajs for v in t)
    top = cnt.most_common(1)[0][0] if cnt else None
    return [np.array([3 * int(v) - 1000 + (i % 2 if int(v) == top else 0) for i, v in enumerate(t)], dtype=np.int64)
            for k, t in enumerate(trajs)]


def tolists(trajs):
    return [[int(v) for v in t] for t in trajs]


def alt_layouts(M):
    """the same 2-d float matrix in other memory layouts: Fortran order, a transposed view of the
    transposed copy, and a strided window of a larger buffer"""
    M = np.asarray(M)
    big = np.full((2 * M.shape[0] + 1, 2 * M.shape[1] + 1), 0.123, dtype=M.dtype)
    big[1::2, 1::2] = M
    ro = M.copy()
    ro.setflags(write=False)
    return {'fortran': np.asfortranarray(M), 'transposed-view': np.ascontiguousarray(M.T).T, 'strided': big[1::2, 1::2], 'read-only': ro}


def reused_container(form, decoy, trajs, dtypes, first_use):
    """A container that was handed to the library with OTHER contents before (first_use(container) is
    called, errors ignored) and was then changed in place to denote `trajs`: lists are cleared and
    refilled / extended, arrays of equal shape are overwritten. Returns None when the form cannot be
    changed in place (tuples, objects, different array shapes)."""
    if form in ('lol', 'loa', 'list'):
        c = build(form, decoy, dtypes)
        try:
            first_use(c)
        except Exception:  # noqa
            pass
        new = build(form, trajs, dtypes)
        del c[:]
        c.extend(new)
        return c
    if form in ('arr1', 'arr2'):
        new = build(form, trajs, dtypes)
        old = build(form, decoy, dtypes)
        if old.shape != new.shape:
            return None
        try:
            first_use(old)
        except Exception:  # noqa
            pass
        old[...] = new
        return old
    return None
