# -*- coding: utf-8 -*-
"""Battery of public analysis calls (implementation side), canonical JSON out."""
import math

import numpy as np


def _f(x):
    x = float(x)
    return 'nan' if math.isnan(x) else x.hex()


def _guard(fn):
    try:
        return fn()
    except Exception as exc:  # noqa
        from worker import errkind
        return {'err': errkind(exc), 'msg': str(exc)[:120]}


def battery(data, lag, S, F, which=None, data2=None, tmax=None):
    import msmhelper as mh
    out = {}
    which = which or ['emm', 'its', 'ck', 'coring', 'wt', 'paths']

    def emm():
        T, st = mh.msm.estimate_markov_model(data, lag)
        return {'T': [_f(v) for v in T.flatten()], 'n': int(T.shape[0]), 'st': [int(s) for s in st]}

    def emm_method():
        T, st = mh.StateTraj(data).estimate_markov_model(lag)
        return {'T': [_f(v) for v in T.flatten()], 'n': int(T.shape[0]), 'st': [int(s) for s in st]}

    def its():
        r = mh.msm.implied_timescales(data, [lag, lag + 1])
        return {'v': [_f(v) for v in np.asarray(r).flatten()], 'shape': list(np.shape(r))}

    def ck():
        r = mh.msm.chapman_kolmogorov_test(data, [lag], tmax or 3 * lag + 2)
        res = {}
        for k, d in r.items():
            res[str(k)] = {'time': [int(t) for t in d['time']],
                           'ck': {str(int(s)): [_f(v) for v in c] for s, c in d['ck'].items()},
                           'erg': [bool(b) for b in np.atleast_1d(d['is_ergodic'])],
                           'fuzzy': [bool(b) for b in np.atleast_1d(d['is_fuzzy_ergodic'])]}
        return res

    def coring():
        r = mh.md.dynamical_coring(data, max(lag, 1), iterative=True)
        return {'trajs': [[int(v) for v in t] for t in r.trajs]}

    def wt():
        return {'v': [int(v) for v in mh.md.estimate_waiting_times(data, S, F)]}

    def paths():
        d = mh.md.estimate_paths(data, S, F)
        return {'d': sorted([[int(x) for x in k], [int(v) for v in vs]] for k, vs in d.items())}

    def sim():
        return {'v': _f(mh.md.compare_discretization(data, data2, method='symmetric')),
                'd': _f(mh.md.compare_discretization(data, data2, method='directed'))}

    table = {'emm': emm, 'emm_method': emm_method, 'its': its, 'ck': ck, 'coring': coring, 'wt': wt,
             'paths': paths, 'sim': sim}
    for name in which:
        out[name] = _guard(table[name])
    return out
