# -*- coding: utf-8 -*-
"""Shared generators.  Every random choice comes from the rng passed in."""
import itertools
import os


def budget(n):
    """random-case budget, raised by the source-drift sentinel (VERIF_BOOST)"""
    return n * int(os.environ.get('VERIF_BOOST', '1'))


def alphabet(rng, k=None, kind=None):
    """A list of k distinct integer labels in a style drawn from the brief's
    list: 0-based, 1-based, gapped, negative, mixed-sign, large."""
    if k is None:
        k = rng.randint(2, 6)
    kind = kind or rng.choice(['zero', 'zero', 'one', 'gapped', 'negative', 'mixed', 'large', 'minus1', 'imitate', 'wide'])
    if kind == 'wide' and k < 2:
        kind = 'gapped'
    if kind == 'imitate' and k < 2:
        kind = 'gapped'
    if kind == 'zero':
        labs = list(range(k))
    elif kind == 'one':
        labs = list(range(1, k + 1))
    elif kind == 'gapped':
        labs = sorted(rng.sample(range(0, 4 * k + 3), k))
    elif kind == 'negative':
        labs = sorted(rng.sample(range(-4 * k - 3, 0), k))
    elif kind == 'mixed':
        labs = sorted(rng.sample(range(-2 * k - 2, 2 * k + 3), k))
    elif kind == 'imitate':
        # alphabets that pass a PARTIAL test for 0..n-1 / 1..n: the same maximum, minimum, sum or length
        v = rng.choice(['max0', 'max0', 'max1', 'min0', 'min1', 'sum0'])
        if v in ('max0', 'max1'):
            top = k - 1 if v == 'max0' else k
            m = rng.randint(1, k - 1)                                   # labels below the imitated range
            low = rng.sample(range(-k - 3, 0 if v == 'max0' else 1), m)
            labs = sorted(low + rng.sample(range(top - (k - 1), top), k - m - 1) + [top])
        elif v in ('min0', 'min1'):
            b = 0 if v == 'min0' else 1
            labs = sorted([b] + rng.sample(range(b + 1, b + 3 * k + 2), k - 1))
            if labs[-1] == b + k - 1:
                labs[-1] += rng.randint(1, 3)
        else:
            d = rng.randint(1, 3)
            labs = list(range(k))
            labs[0] -= d
            labs[-1] += d
    elif kind == 'wide':
        # a spread beyond 2^16 (lookup tables indexed by label - minimum get big), small labels of both signs inside
        far = rng.choice([1, 1, -1]) * rng.randint(66000, 200000)
        w = max(3, k - 1)           # dense small labels: a non-negative label below its rank is likely
        labs = sorted(rng.sample(range(-w, w + 1), k - 1) + [far])
    elif kind == 'minus1':
        labs = sorted(set([-1] + rng.sample(range(-3, 2 * k + 2), k - 1)))
        while len(labs) < k:
            labs.append(labs[-1] + rng.randint(1, 3))
    else:
        labs = sorted(rng.sample(range(-30000, 30001), k))
    return labs, kind


def traj(rng, labs, n, sticky=None):
    """A trajectory of length n over labs; `sticky` is the probability of
    repeating the previous label (metastable look)."""
    if sticky is None:
        sticky = rng.choice([0.0, 0.5, 0.8, 0.9])
    out = []
    for _ in range(n):
        if out and rng.random() < sticky:
            out.append(out[-1])
        else:
            out.append(rng.choice(labs))
    return out


def length(rng, lag=None, big=False):
    opts = [1, 2, 3, 5, 8, 13, 21, 34]
    if lag:
        opts += [max(1, lag - 1), lag, lag + 1, 2 * lag + 1]
    n = rng.choice(opts + [rng.randint(3, 40)] * 6)
    if big and rng.random() < 0.05:
        n = rng.randint(200, 2000)
    return n


def trajset(rng, labs=None, ntraj=None, lag=None, big=False, equal=False, minlen=1):
    """A set of trajectories (list of lists)."""
    if labs is None:
        labs, _ = alphabet(rng)
    if ntraj is None:
        ntraj = rng.choice([1, 1, 2, 2, 3, 4, 6])
    if equal:
        n = max(minlen, length(rng, lag, big))
        return [traj(rng, labs, n) for _ in range(ntraj)]
    if ntraj >= 2 and minlen <= 1 and not equal and rng.random() < 0.04:
        return [[rng.choice(labs)] for _ in range(ntraj)]          # every trajectory has exactly ONE frame
    if ntraj >= 3 and rng.random() < 0.15:
        # ragged, but the total equals ntraj times the FIRST length (looks 'equally long' to a test on the sum)
        n0 = max(minlen + 1, rng.randint(2, 12))
        rest = [n0] * (ntraj - 1)
        for _ in range(rng.randint(1, 6)):
            i, j = rng.sample(range(ntraj - 1), 2) if ntraj > 2 else (0, 0)
            if i != j and rest[i] > minlen:
                rest[i] -= 1
                rest[j] += 1
        return [traj(rng, labs, n) for n in [n0] + rest]
    return [traj(rng, labs, max(minlen, length(rng, lag, big))) for _ in range(ntraj)]


def all_trajs(labels, maxlen, minlen=1):
    for n in range(minlen, maxlen + 1):
        for t in itertools.product(labels, repeat=n):
            yield list(t)


def fits(trajs, dtype):
    lo, hi = {'int8': (-128, 127), 'int16': (-32768, 32767),
              'int32': (-2**31, 2**31 - 1), 'int64': (-2**63, 2**63 - 1)}[dtype]
    return all(lo <= v <= hi for t in trajs for v in t)


def runs_traj(rng, labs, nruns, long_runs=(130, 150, 200, 255, 256, 300)):
    """a trajectory given by explicit run lengths, some of them longer than 127 / 255 frames"""
    out, prev = [], None
    for _ in range(nruns):
        a = rng.choice([x for x in labs if x != prev] or labs)
        n = rng.choice([1, 1, 2, 3, 5, 8] + list(long_runs))
        out += [a] * n
        prev = a
    return out


def narrow_set(rng, style=None):
    """trajectory sets that stress narrow integer types: contiguous 0- or 1-based labels (the
    constructor keeps the input dtype for those), trajectories longer than 127 / 255 frames in
    int8 / uint8, or more than 128 states spread over arrays of different widths (narrow first).
    Returns (trajs, dtypes, tag)."""
    style = style or rng.choice(['long-int8', 'long-int8', 'many-mixed', 'many-unsigned', 'full-range', 'narrow-many'])
    base = rng.choice([0, 1])
    if style == 'full-range':
        # a narrow signed type used over its whole range: negative minimum, span beyond the type's maximum
        dt = rng.choice(['int8', 'int8', 'int16'])
        hi = 127 if dt == 'int8' else 32767
        k = rng.randint(3, 5)
        labs = sorted(set([rng.randint(-hi - 1, -hi // 2), rng.randint(hi // 2 + 1, hi)]
                          + [rng.randint(-hi // 2, hi // 2) for _ in range(k - 2)]))
        trajs = [traj(rng, labs, rng.randint(20, 60), sticky=0.5) for _ in range(rng.choice([1, 2, 3]))]
        trajs[0] = trajs[0] + labs + labs[::-1]
        return trajs, [dt] * len(trajs), style
    if style == 'narrow-many':
        # ONE narrow type for all trajectories and enough contiguous states that i * n + j leaves the type
        dt = rng.choice(['uint8', 'uint8', 'int8', 'int16', 'int8neg'])
        if dt == 'int8neg':
            # int8 used from a negative base over more than 128 contiguous states (label - base leaves the type)
            dt, base = 'int8', -rng.randint(60, 128)
            k = rng.randint(129, min(200, 127 - base + 1))
        else:
            k = {'uint8': rng.randint(17, 60), 'int8': rng.randint(12, 40), 'int16': rng.randint(182, 200)}[dt]
        labs = list(range(base, base + k))
        order = labs[:]
        rng.shuffle(order)
        t1 = order + traj(rng, labs, rng.randint(200, 500), sticky=0.3) + order[::-1]
        trajs = [t1] + [traj(rng, labs, rng.randint(30, 200), sticky=0.3) for _ in range(rng.choice([0, 0, 1, 2]))]
        return trajs, [dt] * len(trajs), style
    if style == 'long-int8':
        k = rng.randint(2, 4)
        labs = list(range(base, base + k))
        trajs = [runs_traj(rng, labs, rng.randint(3, 9)) for _ in range(rng.choice([1, 1, 2]))]
        trajs[0] = trajs[0] + labs
        return trajs, [rng.choice(['int8', 'uint8', 'int16'])] * len(trajs), style
    k = rng.choice([129, 129, 130, 131, rng.randint(129, 180), 255, 256, 257, 258])     # just past the int8 / uint8 boundaries
    if style == 'many-unsigned':
        k = min(k, 256 - base)          # the wide trajectory is a uint8 array
    labs = list(range(base, base + k))
    low = labs[:100]
    t1 = traj(rng, low, rng.randint(50, 150), sticky=0.3)
    order = labs[:]
    rng.shuffle(order)
    t2 = order + traj(rng, labs, rng.randint(50, 150), sticky=0.2)
    t3 = traj(rng, low, rng.randint(1, 30), sticky=0.5)
    if style == 'many-mixed':
        if rng.random() < 0.4:
            # the only wide array sits at position 31, 32, 33 or 64 of a long list of narrow ones
            lead = rng.choice([31, 32, 32, 33, 64])
            shorts = [traj(rng, low, rng.randint(2, 9), sticky=0.5) for _ in range(lead)]
            return shorts + [t2, t3], ['int8'] * lead + [rng.choice(['int16', 'int64']), 'int8'], style + '-pos%d' % lead
        return [t1, t2, t3], ['int8', rng.choice(['int16', 'int64']), 'int8'], style
    return [t1, t2, t3], ['int8', 'uint8', 'int8'], style


def expand(case):
    """trajectories of a case: given literally ('trajs') or run-length encoded ('rle': per trajectory
    a list of [label, count]) so that replay files of very long trajectories stay small"""
    if case.get('trajs') is not None:
        return case['trajs']
    return [[a for a, n in t for _ in range(n)] for t in case['rle']]


def rare_rle(rng, labs):
    """one long trajectory in which the first state has several 1e5 outgoing counts and two
    transitions that were seen once or twice only (probability below 1e-5)"""
    a, rest = labs[0], labs[1:]
    t = []
    for _ in range(rng.randint(2, 3)):
        t.append([a, rng.randint(110000, 140000)])
        b = rng.choice(rest)
        t.append([b, rng.randint(1, 6)])
        if len(rest) > 1 and rng.random() < 0.6:
            t.append([rng.choice([x for x in rest if x != b]), rng.randint(1, 4)])
    t.append([a, rng.randint(2, 9)])
    return [t]


def empty_positions(rng, ntraj):
    """positions (indices into the final list) at which zero-length trajectories are inserted:
    front, middle, end, or several (typed integer arrays of length 0 are accepted input)"""
    kind = rng.choice(['end', 'end', 'front', 'middle', 'middle', 'both', 'double-middle'])
    total = ntraj
    pos = []
    if kind in ('front', 'both'):
        pos.append(0)
    if kind in ('middle', 'double-middle') and ntraj >= 2:
        pos.append(rng.randint(1, ntraj - 1))
        if kind == 'double-middle':
            pos.append(pos[-1])
    if kind in ('end', 'both') or not pos:
        pos.append(total)
    return sorted(pos)


def insert_empties(trajs, pos):
    out = [list(t) for t in trajs]
    for k, p in enumerate(sorted(pos)):
        out.insert(min(p + k, len(out)), [])
    return out


def many_short(rng, labs, lag):
    """more than 256 trajectories, the first ones shorter than the lag"""
    n = rng.randint(257, 330)
    trajs = [[rng.choice(labs) for _ in range(rng.randint(1, max(1, lag - 1)))] for _ in range(rng.randint(1, 2))]
    while len(trajs) < n:
        trajs.append([rng.choice(labs) for _ in range(rng.randint(1, 9))])
    return trajs


def with_layouts(rng, cases, p_alt=0.15, p_lumped=0.0):
    """orthogonal input classes: the same trajectories in another memory layout (Fortran / transposed
    2-d arrays, strided views) and - where the analysis accepts it - as a LumpedStateTraj whose
    macrostate trajectories they are"""
    for case in cases:
        if isinstance(case, dict) and case.get('alpha') != 'enum' and 'layout' not in case and not case.get('lumped'):
            r = rng.random()
            if r < p_alt and case.get('form') in ('arr2', 'arr1', 'loa'):
                case['layout'] = 'alt'
            elif p_alt <= r < p_alt + p_lumped and case.get('form') in ('loa', 'obj', 'toa', 'lol') and not case.get('dtypes') \
                    and all(len(t) for t in case.get('trajs', [[]])):
                case['layout'] = 'lumped'
            if 'iter' in case and rng.random() < 0.08:
                case['itertype'] = rng.choice(['np', 'int'])          # the mode flag as NumPy bool / 0-1 integer
            longest = max([len(t) for t in case.get('trajs') or [[]] if isinstance(t, list)] or [0])
            if 'lag' in case and rng.random() < (0.3 if longest > 250 else 0.08) and -100 < case['lag'] < 100:
                # numpy integer scalars as lag time; unsigned ones too (negating them wraps: 254 for uint8(2))
                signed = ['int8', 'int16', 'int32', 'int64']
                case['lagtype'] = rng.choice(signed + ['uint8', 'uint8', 'uint16', 'uint32', 'uint64'] if case['lag'] > 0 else signed)
        yield case


def size_classes(rng, labs=None, lag=2, sticky=0.85):
    """trajectory sets of unusual SIZE (yields (trajs, tag)): several hundred trajectories, one
    trajectory of more than 2^16 frames, more than 64 / 128 / 256 states, zero-length members"""
    kind = rng.choice(['many-trajs', 'long', 'many-states', 'many-states', 'empties'])
    if labs is None:
        labs, _ = alphabet(rng, k=rng.randint(2, 4))
    if kind == 'many-trajs':
        return many_short(rng, labs, lag), kind
    if kind == 'long':
        return [traj(rng, labs, rng.randint(66000, 69000), sticky=sticky), traj(rng, labs, 7, sticky=sticky)], kind
    if kind == 'many-states':
        k = rng.choice([65, 66, 70, 128, 129, 131, 257, 260])
        base = rng.choice([0, 1, -30])
        wide = [base + 3 * i for i in range(k)] if rng.random() < 0.4 else list(range(base, base + k))
        t, cur = [], 0
        for _ in range(rng.randint(1500, 2500)):
            t.append(wide[cur])
            r = rng.random()
            cur = cur if r < sticky else (cur + 1) % k if r < sticky + 0.12 else rng.randrange(k)
        return [t + wide, wide[::-1] + traj(rng, wide[:5], 30, sticky=sticky)], kind
    trajs = trajset(rng, labs, ntraj=rng.choice([2, 3, 4]))
    return insert_empties(trajs, empty_positions(rng, len(trajs))), kind


def with_decoys(rng, cases, p=0.1):
    """container reuse: the list / array passed to the library held other trajectories in an earlier call"""
    for case in cases:
        if isinstance(case, dict) and case.get('alpha') != 'enum' and not case.get('layout') and not case.get('dtypes') \
                and case.get('form') in ('lol', 'loa', 'list', 'arr1', 'arr2') and rng.random() < p \
                and sum(len(t) for t in case.get('trajs', [])) < 3000:
            trajs = case['trajs']
            pool = sorted({v for t in trajs for v in t}) or [0]
            if case['form'] in ('arr1', 'arr2'):
                decoy = [[rng.choice(pool) for _ in t] for t in trajs]
            else:
                decoy = [[rng.choice(pool) for _ in range(rng.randint(1, 12))] for _ in range(rng.randint(1, 4))]
                if case['form'] == 'list':
                    decoy = decoy[:1]
            case['decoy'] = decoy
        yield case
