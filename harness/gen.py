# -*- coding: utf-8 -*-
"""Shared generators.  Every random choice comes from the rng passed in."""
import itertools
import os


def budget(n):
    """random-case budget, raised by the source-drift sentinel (VERIF_BOOST)"""
    return n * int(os.environ.get('VERIF_BOOST', '1'))


def alphabet(rng, k=None, kind=None):
    """A list of k distinct integer labels in a style drawn from the brief's
    list: 0-based, 1-based, gapped, negative, mixed-sign, large."""
    if k is None:
        k = rng.randint(2, 6)
    kind = kind or rng.choice(['zero', 'zero', 'one', 'gapped', 'negative', 'mixed', 'large', 'minus1'])
    if kind == 'zero':
        labs = list(range(k))
    elif kind == 'one':
        labs = list(range(1, k + 1))
    elif kind == 'gapped':
        labs = sorted(rng.sample(range(0, 4 * k + 3), k))
    elif kind == 'negative':
        labs = sorted(rng.sample(range(-4 * k - 3, 0), k))
    elif kind == 'mixed':
        labs = sorted(rng.sample(range(-2 * k - 2, 2 * k + 3), k))
    elif kind == 'minus1':
        labs = sorted(set([-1] + rng.sample(range(-3, 2 * k + 2), k - 1)))
        while len(labs) < k:
            labs.append(labs[-1] + rng.randint(1, 3))
    else:
        labs = sorted(rng.sample(range(-30000, 30001), k))
    return labs, kind


def traj(rng, labs, n, sticky=None):
    """A trajectory of length n over labs; `sticky` is the probability of
    repeating the previous label (metastable look)."""
    if sticky is None:
        sticky = rng.choice([0.0, 0.5, 0.8, 0.9])
    out = []
    for _ in range(n):
        if out and rng.random() < sticky:
            out.append(out[-1])
        else:
            out.append(rng.choice(labs))
    return out


def length(rng, lag=None, big=False):
    opts = [1, 2, 3, 5, 8, 13, 21, 34]
    if lag:
        opts += [max(1, lag - 1), lag, lag + 1, 2 * lag + 1]
    n = rng.choice(opts + [rng.randint(3, 40)] * 6)
    if big and rng.random() < 0.05:
        n = rng.randint(200, 2000)
    return n


def trajset(rng, labs=None, ntraj=None, lag=None, big=False, equal=False, minlen=1):
    """A set of trajectories (list of lists)."""
    if labs is None:
        labs, _ = alphabet(rng)
    if ntraj is None:
        ntraj = rng.choice([1, 1, 2, 2, 3, 4, 6])
    if equal:
        n = max(minlen, length(rng, lag, big))
        return [traj(rng, labs, n) for _ in range(ntraj)]
    return [traj(rng, labs, max(minlen, length(rng, lag, big))) for _ in range(ntraj)]


def all_trajs(labels, maxlen, minlen=1):
    for n in range(minlen, maxlen + 1):
        for t in itertools.product(labels, repeat=n):
            yield list(t)


def fits(trajs, dtype):
    lo, hi = {'int8': (-128, 127), 'int16': (-32768, 32767),
              'int32': (-2**31, 2**31 - 1), 'int64': (-2**63, 2**63 - 1)}[dtype]
    return all(lo <= v <= hi for t in trajs for v in t)
