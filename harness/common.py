# -*- coding: utf-8 -*-
"""Shared machinery of the correspondence harness.

No property logic lives here: wire encoding, the mrun bridge, the
implementation worker bridge, evidence writing, known-finding lookup.
"""
import json
import os
import subprocess
import sys
import time
from fractions import Fraction

VERIF = os.path.dirname(os.path.dirname(os.path.abspath(__file__)))
COQ = os.path.join(VERIF, 'coq')
MRUN = os.path.join(VERIF, 'bin', 'mrun')
PY = '/venv/bin/python'
# the tree under test: /repo; VERIF_REPO points the harness at a scratch copy (mutation experiments only)
REPO = os.environ.get('VERIF_REPO', '/repo')
ERRCODE = {
    'ValueError': 1, 'TypeError': 2, 'LagtimeError': 3,
    'NotImplementedError': 4, 'IndexError': 5, 'FileError': 6, 'Other': 7,
}
ERRNAME = {v: k for k, v in ERRCODE.items()}
MALFORMED = -999999


# ---------------------------------------------------------------- encoders
def eZs(l):
    l = [int(x) for x in l]
    return [len(l)] + l


def enested(ls):
    out = [len(ls)]
    for l in ls:
        out += eZs(l)
    return out


def ebool(b):
    return [1 if b else 0]


def eQ(x):
    """exact rational of a float / Fraction / int as 'num den'."""
    f = Fraction(x)
    return [f.numerator, f.denominator]


def eQs(l):
    out = [len(l)]
    for x in l:
        out += eQ(x)
    return out


def eQmat(m):
    m = [list(r) for r in m]
    out = [len(m)]
    for r in m:
        out += eQs(r)
    return out


class Reader:
    """Decoder over the integer tokens of a model answer."""

    def __init__(self, toks):
        self.t = toks
        self.i = 0

    def Z(self):
        v = self.t[self.i]
        self.i += 1
        return v

    def bool(self):
        return self.Z() != 0

    def Zs(self):
        n = self.Z()
        out = self.t[self.i:self.i + n]
        if len(out) != n:
            raise ValueError('short answer')
        self.i += n
        return out

    def list(self, f):
        return [f() for _ in range(self.Z())]

    def nested(self):
        return self.list(self.Zs)

    def Q(self):
        n, d = self.Z(), self.Z()
        return Fraction(n, d)

    def Qs(self):
        return self.list(self.Q)

    def Qmat(self):
        return self.list(self.Qs)

    def res(self, f):
        tag = self.Z()
        if tag == 0:
            return ('ok', f())
        return ('err', ERRNAME.get(self.Z(), 'Other'))

    def opt(self, f):
        tag = self.Z()
        return None if tag == 0 else f()

    def done(self):
        return self.i == len(self.t)


SAMPLE = []          # reservoir of (request, answer) pairs for the extraction cross-check
_seen = [0]
HEAVY = {1401, 401, 301, 901, 902, 703, 101}


def _remember(req, ans):
    import random as _r
    if len(req) > 300:
        return
    _seen[0] += 1
    if len(SAMPLE) < 400:
        SAMPLE.append((list(req), list(ans)))
    else:
        k = _r.Random(_seen[0]).randrange(_seen[0])
        if k < 400:
            SAMPLE[k] = (list(req), list(ans))


def mrun(requests, binary=None, remember=True):
    """Evaluate requests (lists of ints) with the extracted model."""
    if not requests:
        return []
    text = '\n'.join(' '.join(str(int(x)) for x in r) for r in requests) + '\n'
    p = subprocess.run(
        ['sh', '-c', 'ulimit -s unlimited 2>/dev/null; exec "$0"', binary or MRUN],
        input=text, capture_output=True, text=True,
    )
    if p.returncode != 0:
        raise RuntimeError('mrun failed: %s' % p.stderr[-2000:])
    lines = p.stdout.split('\n')
    if lines and lines[-1] == '':
        lines.pop()
    if len(lines) != len(requests):
        raise RuntimeError(
            'mrun answered %d lines for %d requests' % (len(lines), len(requests)))
    out = []
    for k, ln in enumerate(lines):
        toks = [int(x) for x in ln.split()]
        if toks == [MALFORMED]:
            raise RuntimeError('model rejected request as malformed: %r' % (requests[k][:40],))
        out.append(toks)
    if remember and binary is None:
        for rq, an in zip(requests, out):
            _remember(rq, an)
    return out


def cross_check(tier):
    """Validate the fast extraction: the same requests through the ExtrOcamlBasic-only
    runner (mrun_ref) and, in the thorough tier, inside Coq with vm_compute."""
    light = [(r, a) for r, a in SAMPLE if not (r[0] in HEAVY and len(r) > 60)]
    light = light[:40 if tier == 'quick' else 300]
    res = {'mrun_ref_compared': 0, 'vm_compute_compared': 0, 'mismatches': []}
    if not light:
        return res
    ref = mrun([r for r, _ in light], binary=os.path.join(VERIF, 'bin', 'mrun_ref'), remember=False)
    res['mrun_ref_compared'] = len(ref)
    for (r, a), b in zip(light, ref):
        if a != b:
            res['mismatches'].append({'request': r[:40], 'mrun': a[:40], 'mrun_ref': b[:40]})
    if tier == 'thorough':
        small = [(r, a) for r, a in light if len(r) <= 120][:150]
        try:
            vm = coq_eval([r for r, _ in small])
            res['vm_compute_compared'] = len(vm)
            for (r, a), b in zip(small, vm):
                if a != b:
                    res['mismatches'].append({'request': r[:40], 'mrun': a[:40], 'vm_compute': b[:40]})
        except Exception as exc:  # noqa
            res['vm_compute_error'] = str(exc)[:300]
    return res


def coq_eval(requests, tag='x'):
    """Evaluate the same requests inside Coq with vm_compute (cross-check of
    the extraction and the driver).  Returns list of token lists."""
    import tempfile
    d = tempfile.mkdtemp(prefix='msmv_cases_', dir='/var/tmp')
    try:
        src = os.path.join(d, 'cases_%s.v' % tag)
        with open(src, 'w') as fh:
            fh.write('From Coq Require Import List ZArith.\nFrom MsmV Require Import Run.Run.\n'
                     'Import ListNotations.\nLocal Open Scope Z_scope.\n')
            for k, r in enumerate(requests):
                lit = '; '.join('(%d)' % int(x) for x in r)
                fh.write('Definition r%d := Eval vm_compute in run [%s].\n' % (k, lit))
            fh.write('Set Printing Width 1000000. Set Printing Depth 1000000.\n')
            for k in range(len(requests)):
                fh.write('Print r%d.\n' % k)
        p = subprocess.run(['timeout', '600', 'coqc', '-Q', COQ, 'MsmV', src],
                           capture_output=True, text=True, cwd=d)
        if p.returncode != 0:
            raise RuntimeError('coqc cases failed: ' + p.stderr[-2000:])
        outs = []
        import re
        for m in re.finditer(r'r(\d+) = \[([^\]]*)\]', p.stdout.replace('\n', ' ')):
            body = m.group(2).strip()
            toks = [int(x.strip().strip('()')) for x in body.split(';')] if body else []
            outs.append(toks)
        if len(outs) != len(requests):
            raise RuntimeError('coq_eval parsed %d of %d' % (len(outs), len(requests)))
        return outs
    finally:
        import shutil
        shutil.rmtree(d, ignore_errors=True)


# ---------------------------------------------------------- impl worker
class Worker:
    """A persistent subprocess that imports msmhelper from /repo/src under a
    given configuration and evaluates property cases."""

    def __init__(self, prop, jit=True, threads=None, extra_env=None):
        env = dict(os.environ)
        env['PYTHONPATH'] = os.path.join(REPO, 'src') + os.pathsep + os.path.join(VERIF, 'harness')
        env['VERIF_REPO'] = REPO
        env['PYTHONHASHSEED'] = '0'
        env['MPLBACKEND'] = 'Agg'
        env.pop('NUMBA_DISABLE_JIT', None)
        if not jit:
            env['NUMBA_DISABLE_JIT'] = '1'
        if threads is not None:
            env['NUMBA_NUM_THREADS'] = str(threads)
        if extra_env:
            env.update(extra_env)
        self.env, self.prop = env, prop
        self.name = ('jit' if jit else 'nojit') + ('' if threads is None else '-t%d' % threads)
        self.crashes = 0
        self._start()

    def _start(self):
        self.p = subprocess.Popen(
            [PY, os.path.join(VERIF, 'harness', 'worker.py'), self.prop],
            stdin=subprocess.PIPE, stdout=subprocess.PIPE, env=self.env, text=True,
            cwd='/var/tmp',
        )
        import queue
        import threading
        self.q = queue.Queue()

        def pump(stream, q):
            for line in stream:
                q.put(line)
            q.put('')
        threading.Thread(target=pump, args=(self.p.stdout, self.q), daemon=True).start()
        hello = self._readline(600)
        if not hello or not hello.startswith('READY'):
            raise RuntimeError('worker failed to start: %r' % hello)

    def _readline(self, timeout):
        import queue
        try:
            return self.q.get(timeout=timeout)
        except queue.Empty:
            return None

    def _chunk(self, chunk):
        """Evaluate a chunk; a crash of the interpreter (e.g. memory corruption in a
        compiled kernel) is isolated by bisection and reported as error kind Crash."""
        try:
            self.p.stdin.write(json.dumps(chunk) + '\n')
            self.p.stdin.flush()
            # watchdog: a hanging implementation (e.g. a kernel that loops forever) must not hang the check
            line = self._readline(120 + int(os.environ.get('VERIF_CASE_TIMEOUT', '2')) * len(chunk))
        except (BrokenPipeError, OSError):
            line = ''
        if line:
            return json.loads(line)
        hung = line is None
        rc = 'timeout' if hung else self.p.poll()
        try:
            self.p.kill()
        except Exception:
            pass
        self.crashes += 1
        if self.crashes > 40:
            raise RuntimeError('worker %s keeps dying' % self.name)
        self._start()
        if len(chunk) == 1:
            return [{'err': 'Hang' if hung else 'Crash', 'msg': 'interpreter %s on this case' % ('did not answer in time' if hung else 'died (exit %s)' % rc)}]
        h = len(chunk) // 2
        return self._chunk(chunk[:h]) + self._chunk(chunk[h:])

    def run(self, cases):
        out = []
        CH = 200
        for k in range(0, len(cases), CH):
            out += self._chunk(cases[k:k + CH])
        return out

    def close(self):
        try:
            self.p.stdin.close()
            self.p.wait(timeout=20)
        except Exception:
            self.p.kill()


# ------------------------------------------------------- known findings
def load_known():
    path = os.path.join(VERIF, 'KNOWN_FINDINGS.json')
    if not os.path.exists(path):
        return []
    with open(path) as fh:
        return json.load(fh)


def known_ids(prop):
    return {e['id']: e for e in load_known()
            if e.get('property') == prop and e.get('status') == 'known'}


def short(x, n=400):
    s = json.dumps(x, default=str)
    return s if len(s) <= n else s[:n] + '...'


class Timer:
    def __init__(self):
        self.t0 = time.time()

    def s(self):
        return round(time.time() - self.t0, 2)


def frac_close(fl, fr, tol):
    """|float - Fraction| <= tol, exactly."""
    import math
    if isinstance(fl, float) and (math.isnan(fl) or math.isinf(fl)):
        return False
    return abs(Fraction(fl) - fr) <= Fraction(tol)


TOL_T = Fraction(1, 10**12)


def hexes_close(hexes, fracs, tol=TOL_T):
    """every float (given as hex strings, row-major) is within tol of the exact rational at the
    same position; the property texts fix values, not the rounding of one particular formula, so a
    harmless rewrite of the arithmetic (reciprocal multiplication, other summation order) must pass"""
    flat = [x for row in fracs for x in row] if fracs and isinstance(fracs[0], list) else list(fracs)
    if len(hexes) != len(flat):
        return False
    for h, q in zip(hexes, flat):
        if h == 'nan' or not frac_close(float.fromhex(h), q, tol):
            return False
    return True


def emm_entry(trajs):
    """model entry for estimate_markov_model: 101 also evaluates the nth-based specification form of the
    counts (quadratic in the length); beyond 3000 frames 102 returns the code-shaped counts, proved equal"""
    return 101 if sum(len(t) for t in trajs) <= 3000 and len({v for t in trajs for v in t}) <= 12 else 102
