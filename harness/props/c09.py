# -*- coding: utf-8 -*-
"""C09 - Chapman-Kolmogorov test."""
from fractions import Fraction

import common as C
import gen as G

PROP = 'C09'
THEOREMS = ['calc_times_spec_thm', 'calc_times_increasing_thm', 'calc_times_empty_thm', 'mpow_add_thm',
            'mpow_stochastic_thm', 'curve_is_power_diag', 'reference_uses_macro']
CONFIGS = [dict(jit=True)]
CONFIGS_THOROUGH = [dict(jit=True), dict(jit=False)]
RULE = ('random trajectory sets (plain and lumped, 2..5 states, 1..3 trajectories), non-empty unsorted '
        'lists of positive lags (also above tmax), integer tmax with tmax/lag <= 12 (thorough 24), plus '
        'malformed lags/tmax. Compared: per lag the model times (exact), the curve of every state against '
        'the diagonal of the exact k-th power of the exact model (Hummer-Szabo model for lumped input) '
        'within 1e-10, ergodicity flags (threshold-free cases); the reference grid must be strictly '
        'increasing integers from the smallest lag to at most tmax, and each reference value is compared '
        'with the exact model estimated at that lag from the plain macro trajectory; keys are the state '
        'labels. Non-trivial: >= 2 lags and >= 3 model time points.'
        ' Added classes: primitive chains without self transitions and 2-cycles, lag times as int8/int16 arrays with tmax beyond that type, slowly interconverting chains (matrix-power entries between 1e-8 and 1e-6), returned arrays rescaled/overwritten before a second identical call.'
        ' Later: bijective lumpings in another label order, arrays of different integer widths with > 128 states (relational), a state entered but never left at the lag, a trajectory alone in its own state.'
        ' Fifth/sixth batch: unsigned lag arrays, one narrow type with >= 17 states, badly lumped driven rings with `positive` switched on the shared object.')
TRUSTED = ['np.linalg.matrix_power in floats (1e-10)', 'the geomspace/around reference grid is checked as stated, not modelled']
ASSUMPTIONS = ['tmax, lags < 2^26 (float floor(tmax/lag) equals integer division)']
BATCH = 40
TOL = Fraction(1, 10**10)


def gen(rng, tier):
    n = G.budget(60) if tier == 'quick' else 700
    for _ in range(n):
        k = rng.randint(2, 5 if tier == 'quick' else 6)
        labs, akind = G.alphabet(rng, k=k)
        trajs = [G.traj(rng, labs, rng.randint(60, 250), sticky=rng.choice([0.4, 0.7, 0.85])) for _ in range(rng.choice([1, 2, 3]))]
        present = sorted({v for t in trajs for v in t})
        if len(present) < 2:
            continue
        maxk = 12 if tier == 'quick' else 24
        lags = rng.sample(range(1, 9), rng.randint(1, 3))
        tmax = rng.randint(min(lags), min(lags) * rng.randint(1, maxk))
        lumped = rng.random() < 0.35 and len(present) >= 3
        case = {'trajs': trajs, 'lags': lags, 'tmax': tmax, 'lumped': lumped, 'alpha': akind, 'mal': None}
        if lumped:
            f = {v: 70 + (i * 2) // len(present) for i, v in enumerate(present)}
            if rng.random() < 0.3:      # one microstate per macrostate, macro labels in another order
                tgt = rng.sample(range(10, 60), len(present))
                f = dict(zip(present, tgt))
            case['macro'] = [[f[v] for v in t] for t in trajs]
        r = rng.random()
        if r < 0.04:
            case['lags'] = [0] + lags
            case['mal'] = 'lag0'
        elif r < 0.08:
            case['tmax'] = -1
            case['mal'] = 'tmax'
        yield case
    for _ in range(3 if tier == 'quick' else 40):
        # a driven ring walk lumped badly: the Hummer-Szabo projection has negative entries, so the two settings of
        # `positive` give different lumped models (the shared object is switched between them, see impl)
        k = rng.randint(5, 7)
        labs = rng.sample(range(0, 30), k)
        t, cur = [], 0
        for _i in range(rng.randint(700, 1500)):
            t.append(labs[cur])
            r = rng.random()
            cur = (cur + 1) % k if r < 0.8 else cur if r < 0.95 else (cur - 1) % k
        cuts = sorted(rng.sample(range(1, k), 2))
        f = {labs[i]: 10 * (1 + sum(i >= c for c in cuts)) for i in range(k)}
        lag = rng.choice([1, 2])
        yield {'trajs': [t], 'lags': [lag], 'tmax': lag * rng.randint(3, 6), 'lumped': True, 'alpha': 'ring-bad-lumping', 'mal': None,
               'macro': [[f[v] for v in t]]}
    for case in gen_extra(rng, tier):
        yield case
    for _ in range(8 if tier == 'quick' else 150):
        labs, akind = G.alphabet(rng, k=rng.randint(3, 5))
        rng.shuffle(labs)
        if rng.random() < 0.5:
            # the last state shows up only in the final frames: entered, never left at this lag (T has a zero row)
            late, rest = labs[0], labs[1:]
            lag = rng.choice([1, 2, 3])
            t = G.traj(rng, rest, rng.randint(60, 150), sticky=0.6) + [late] * rng.randint(1, lag)
            yield {'trajs': [t], 'lags': [lag], 'tmax': lag * rng.randint(2, 5), 'lumped': False, 'alpha': akind, 'mal': None, 'style': 'late-state'}
        else:
            # one trajectory stays in a state nobody else visits: T(t) is fuzzy ergodic at best, never ergodic
            lone, rest = labs[0], labs[1:]
            trajs = [G.traj(rng, rest, rng.randint(60, 150), sticky=0.6) + rest, [lone] * rng.randint(10, 40)]
            yield {'trajs': trajs, 'lags': [1, 2], 'tmax': rng.randint(4, 9), 'lumped': False, 'alpha': akind, 'mal': None, 'style': 'lone-state'}
    for _ in range(2 if tier == 'quick' else 30):        # arrays of different integer widths, narrow first, > 128 states
        trajs, dtypes, tag = G.narrow_set(rng, rng.choice(['many-mixed', 'many-unsigned', 'narrow-many', 'narrow-many', 'full-range']))
        yield {'trajs': trajs, 'lags': [2, 1], 'tmax': 4, 'lumped': False, 'alpha': tag, 'mal': None, 'style': 'narrow', 'dtypes': dtypes}
    for _ in range(8 if tier == 'quick' else 100):
        # lag times handed over as a narrow signed integer array, tmax beyond that type's range
        k = rng.randint(2, 4)
        labs, akind = G.alphabet(rng, k=k)
        trajs = [G.traj(rng, labs, rng.randint(400, 700), sticky=0.8) + labs]
        lt = rng.choice(['int8', 'int8', 'int16', 'uint8', 'uint8', 'uint16'])
        lags = rng.sample([1, 2, 3, 9, 50, 100], rng.randint(1, 2))
        tmax = rng.choice([127, 128, 200, 300]) if lt in ('int8', 'uint8') else 40000
        if lt in ('int16', 'uint16'):
            lags = [rng.choice([5000, 9000, 20000])]
            trajs = [G.traj(rng, labs, rng.randint(21000, 24000), sticky=0.8) + labs]
        yield {'trajs': trajs, 'lags': lags, 'tmax': tmax, 'lumped': False, 'alpha': akind, 'mal': None, 'style': 'typed-lags', 'lagtype': lt}
    for _ in range(1 if tier == 'quick' else 6):
        # slowly interconverting states: entries of the Wielandt power between 1e-8 and 1e-6
        labs = rng.sample([0, 1, 2, 4, 7], 3)
        dwell = rng.choice([8000, 10000, 12000])
        rle = [[[labs[i % 3], dwell + rng.randint(0, 50)] for i in range(7)]]
        yield {'trajs': None, 'rle': rle, 'lags': [1], 'tmax': 3, 'lumped': False, 'alpha': 'slow', 'mal': None, 'style': 'slow'}


def _girth3(rng):
    # primitive chain without self transitions and without 2-cycles: ring 0>1>..>k-1>0 plus a chord j>0
    import math
    k = rng.randint(4, 6)
    js = [j for j in range(2, k - 1) if math.gcd(j + 1, k) == 1]
    j = rng.choice(js) if js else 2
    labs, akind = G.alphabet(rng, k=k)
    rng.shuffle(labs)
    t = [rng.randrange(k)]
    for _ in range(rng.randint(40, 160)):
        c = t[-1]
        t.append(0 if c == j and rng.random() < 0.5 else (c + 1) % k)
    return [labs[c] for c in t], akind


def gen_extra(rng, tier):
    for _ in range(6 if tier == 'quick' else 80):
        t, akind = _girth3(rng)
        lag = 1
        yield {'trajs': [t], 'lags': [lag] + rng.sample([2, 3], rng.randint(0, 1)), 'tmax': rng.randint(3, 9), 'lumped': False,
               'alpha': akind, 'mal': None, 'style': 'girth3'}


def corpus():
    return [{'trajs': [[0, 1, 0, 1, 1, 0, 0, 1, 1, 0, 1, 1, 1, 0, 0, 0, 1]], 'lags': [4, 1, 2], 'tmax': 8, 'lumped': False, 'alpha': 'corpus', 'mal': None},
            {'trajs': [[0, 1, 0, 1, 1, 0, 0, 1, 1, 0, 1, 1, 1, 0, 0, 0, 1]], 'lags': [5, 2], 'tmax': 4, 'lumped': False, 'alpha': 'corpus', 'mal': None}]


def impl(case):
    import numpy as np
    import msmhelper as mh
    from implutil import DTYPES
    dts = case.get('dtypes')
    trajs = [np.array(t, dtype=DTYPES[dts[i % len(dts)]] if dts else None) for i, t in enumerate(G.expand(case))]
    data = mh.LumpedStateTraj([np.array(t) for t in case['macro']], trajs) if case['lumped'] else trajs
    if case.get('style') == 'narrow':
        # too many states for the exact model (Wielandt power of a 180 x 180 rational matrix): relational check
        # only - the result must be the one for the same trajectories held as int64 arrays
        def grab(d):
            res = mh.msm.ck_test(d, case['lags'], case['tmax'])
            return {str(k): ([int(t) for t in v['time']], {str(int(s)): [float(x).hex() for x in c] for s, c in v['ck'].items()}) for k, v in res.items()}
        a = grab(trajs)
        b = grab([np.array(t, dtype=np.int64) for t in G.expand(case)])
        return {'narrow_same': a == b}
    lags = np.array(case['lags'], dtype=case['lagtype']) if case.get('lagtype') else case['lags']
    r = mh.msm.ck_test(data, lags, case['tmax'])
    r2 = mh.msm.chapman_kolmogorov_test(data, lags, case['tmax'])
    out = {}
    for k, d in r.items():
        out[str(k)] = {'time': [int(t) if float(t).is_integer() else float(t) for t in d['time']],
                       'ck': {str(int(s)): [float(v).hex() for v in c] for s, c in d['ck'].items()},
                       'erg': [bool(b) for b in np.atleast_1d(d['is_ergodic'])],
                       'fuzzy': [bool(b) for b in np.atleast_1d(d['is_fuzzy_ergodic'])]}
    # the caller owns the returned arrays: rescaling / overwriting them must not leak into a later call
    def snap(res):
        return {str(k): (np.array(d['time'], dtype=float).tolist(), {str(s): np.array(c, dtype=float).tolist() for s, c in d['ck'].items()})
                for k, d in res.items()}
    before = snap(r2)
    for d in r.values():
        try:
            d['time'] *= 7
            for c in d['ck'].values():
                c[...] = -1.0
        except Exception:  # noqa
            pass
    r3 = mh.msm.ck_test(data, lags, case['tmax'])
    flip = None
    if case['lumped']:
        # the public attribute `positive` of the SAME lumped object is switched between calls: every call answers for
        # the setting it finds (= a fresh object built with that setting), also when the lag times repeat
        def tried(f):
            try:
                return snap(f())
            except Exception as exc:  # noqa
                return {'err': type(exc).__name__}
        data.positive = True
        on = tried(lambda: mh.msm.ck_test(data, lags, case['tmax']))
        fresh_on = tried(lambda: mh.msm.ck_test(mh.LumpedStateTraj([np.array(t) for t in case['macro']], trajs, positive=True), lags, case['tmax']))
        data.positive = False
        off = tried(lambda: mh.msm.ck_test(data, lags, case['tmax']))
        flip = bool(on == fresh_on and off == before)
    return {'ok': out, 'alias_keys': sorted(map(str, r2.keys())) == sorted(map(str, r.keys())),
            'fresh': snap(r3) == before and snap(r2) == before, 'flip': flip}


def requests(case):
    return []


def _eck(rd):
    return {'curves': rd.list(rd.Qs), 'times': rd.Zs(), 'erg': rd.bool(), 'fuzzy': rd.bool(), 'states': rd.Zs()}


def judge(case, ibc, answers):
    probs = []
    for cfg, r in ibc.items():
        def P(kind, what):
            probs.append({'kind': kind, 'cfg': cfg, 'what': what, 'finding': None})
        if case.get('style') == 'narrow':
            if r.get('narrow_same') is not True:
                P('impl-vs-spec', 'ck_test on arrays of different integer widths differs from the result on the same trajectories as int64 arrays: %s' % C.short(r, 100))
            continue
        if case['mal']:
            if r.get('err') != 'TypeError':
                P('impl-vs-spec', 'malformed %s not rejected with TypeError: %s' % (case['mal'], C.short(r, 80)))
            continue
        if r.get('flip') is False:
            P('impl-vs-spec', 'lumped object: after switching its attribute `positive` the CK test does not answer for the setting in force '
              '(differs from a fresh object built with it, or does not return to the first answer when switched back)')
        if r.get('fresh') is False:
            P('impl-vs-spec', 'editing the arrays of one result in place changed another / a later result of the same call')
        if 'err' in r:
            # a lumped micro model that is not ergodic at some lag is refused (TypeError): compare with the model below
            res = None
        else:
            res = r['ok']
        lags = sorted(case['lags'])
        refs = res['md']['time'] if res else []
        if res:
            if not all(isinstance(t, int) for t in refs) or any(a >= b for a, b in zip(refs, refs[1:])):
                P('impl-vs-spec', 'reference times are not strictly increasing integers: %s' % refs[:8])
                continue
            if refs and (refs[0] != lags[0] or refs[-1] > case['tmax']):
                P('impl-vs-spec', 'reference times %s..%s do not start at the smallest lag %d / exceed tmax %d' % (
                    refs[0], refs[-1], lags[0], case['tmax']))
            if sorted(res.keys()) != sorted([str(x) for x in lags] + ['md']):
                P('impl-vs-spec', 'result keys %s, expected the lags and md' % sorted(res.keys()))
                continue
        reqs = []
        for lag in lags:
            if case['lumped']:
                reqs.append([902] + C.enested(case['macro']) + C.enested(G.expand(case)) + [lag, case['tmax']] + C.eZs(refs))
            else:
                reqs.append([901] + C.enested(G.expand(case)) + [lag, case['tmax']] + C.eZs(refs))
        ans = C.mrun(reqs)
        refdone = False
        if res is None and case['lumped']:
            # the lumped estimate is refused (TypeError) as soon as the micro model at ONE of the lags is not ergodic
            refusable = False
            for a in ans:
                rd0 = C.Reader(a)
                top0 = rd0.res(lambda: (rd0.res(lambda: rd0.opt(lambda: _eck(rd0))), rd0.bool()))
                if top0[0] != 'ok' or top0[1][0][0] == 'err' or not top0[1][1]:
                    refusable = True
            if refusable and r.get('err') == 'TypeError':
                continue
        for lag, a in zip(lags, ans):
            rd = C.Reader(a)
            if case['lumped']:
                top = rd.res(lambda: (rd.res(lambda: rd.opt(lambda: _eck(rd))), rd.bool(),
                                      rd.res(lambda: rd.list(lambda: (rd.Qs(), rd.bool(), rd.bool(), rd.bool())))))
                if top[0] != 'ok':
                    continue
                mres, tfree, ref = top[1]
                if mres[0] == 'err':
                    if tfree and res is not None:
                        P('impl-vs-spec', 'lag %d: micro model not ergodic, the lumped estimate must be refused' % lag)
                    continue
                if mres[1] is None:
                    probs.append({'kind': 'model-vs-spec', 'cfg': '-', 'finding': None, 'what': 'HS certificate failed'})
                    continue
                m = mres[1]
                ref = ref[1] if ref[0] == 'ok' else None
                tfree_model = tfree
            else:
                top = rd.res(lambda: (_eck(rd), rd.bool(), rd.list(lambda: (rd.Qs(), rd.bool(), rd.bool(), rd.bool()))))
                m, tfree_model, ref = top[1]
            if res is None:
                if tfree_model:
                    P('impl-vs-spec', 'ck_test raised %s (%s) on valid input' % (r['err'], r.get('msg')))
                break
            got = res[str(lag)]
            if got['time'] != m['times']:
                P('impl-vs-spec', 'lag %d: model times %s, expected %s' % (lag, got['time'][:8], m['times'][:8]))
                continue
            if sorted(got['ck'].keys(), key=int) != [str(s) for s in m['states']]:
                P('impl-vs-spec', 'lag %d: curves keyed by %s, states are %s' % (lag, sorted(got['ck']), m['states']))
                continue
            for si, s in enumerate(m['states']):
                vals = [float.fromhex(x) for x in got['ck'][str(s)]]
                bad = [k for k in range(len(vals)) if not C.frac_close(vals[k], m['curves'][si][k], TOL)]
                if bad:
                    k = bad[0]
                    P('impl-vs-spec', 'lag %d state %s: curve at t=%d is %r, (T^%d)[s,s] = %.12f' % (
                        lag, s, m['times'][k], vals[k], k + 1, float(m['curves'][si][k])))
                    break
            if tfree_model and (got['erg'] != [m['erg']] or got['fuzzy'] != [m['fuzzy']]):
                P('impl-vs-spec', 'lag %d: flags %s/%s, predicates of the model matrix %s/%s' % (lag, got['erg'], got['fuzzy'], m['erg'], m['fuzzy']))
            if not refdone and ref is not None:
                refdone = True
                md = res['md']
                if sorted(md['ck'].keys(), key=int) != [str(s) for s in m['states']]:
                    P('impl-vs-spec', 'reference curves keyed by %s, states are %s' % (sorted(md['ck']), m['states']))
                    continue
                for ti, t in enumerate(refs):
                    diag, e, f, tf = ref[ti]
                    for si, s in enumerate(m['states']):
                        v = float.fromhex(md['ck'][str(s)][ti])
                        if not C.frac_close(v, diag[si], TOL):
                            P('impl-vs-spec', 'reference at t=%d state %s: %r, direct estimate from the macro trajectory %.12f' % (t, s, v, float(diag[si])))
                            break
                    else:
                        if tf and (md['erg'][ti] != e or md['fuzzy'][ti] != f):
                            P('impl-vs-spec', 'reference flags at t=%d: %s/%s vs %s/%s' % (t, md['erg'][ti], md['fuzzy'][ti], e, f))
                        continue
                    break
    return probs


def nontrivial(case, ibc):
    return case['mal'] is None and len(case['lags']) >= 2 and case['tmax'] // min(case['lags']) >= 3


def describe(case, ibc):
    r = next(iter(ibc.values()))
    return ['lumped:%s' % case['lumped'], 'nlags:%d' % len(case['lags']), 'malformed:%s' % case['mal'],
            'npoints:%d' % (case['tmax'] // max(1, min([x for x in case['lags'] if x > 0] or [1]))),
            'outcome:' + ('err-' + r['err'] if 'err' in r else 'ok')]
