# -*- coding: utf-8 -*-
"""C15 - relabelling utilities (shift_data, rename_by_index,
rename_by_population, unique)."""
import itertools

import common as C
import gen as G

PROP = 'C15'
THEOREMS = ['shift_spec', 'shift_nested_spec_thm', 'subst_hit_thm', 'subst_untouched_thm',
            'structure_preserved', 'rename_index_spec', 'rename_index_roundtrip_thm',
            'unique_spec_thm', 'unique_determined_thm', 'rename_pop_oracle_sound']
CONFIGS = [dict(jit=True)]
CONFIGS_THOROUGH = [dict(jit=True), dict(jit=False)]
RULE = ('random data over all label alphabets and container forms with maps drawn from the '
        'occurring label range (cycles, swaps, partial and non-injective maps) plus a malformed '
        'stream (old values outside the data range); thorough adds all data over 4 values of '
        'length <= 6 with all maps on <= 3 old values. Non-trivial: the map has a cycle, a '
        'non-injective target or the container is ragged/2-d, or the call is a rename/unique '
        'with >= 3 labels.'
        " Added classes: int8/uint8/int16/int32 arrays with label spreads beyond the type's maximum and beyond 2^18, zero-length trajectories at the front/middle/end of a list of arrays, Fortran/transposed/strided layouts."
        ' Later: complete maps of a gap-free alphabet listed in arbitrary order, 2^20 + k frames with a label only in the last frame.'
        ' Fifth/sixth batch: rows of different types in one list (narrow array first).')
TRUSTED = ['NumPy fancy indexing / astype / split are modelled (Model/Labels.v), not verified']
ASSUMPTIONS = ['labels within +-2^30 (int32 cast exact); old values distinct']
BATCH = 4000


# ------------------------------------------------------------ generation
def _maps(rng, vals_lo, vals_hi, present):
    """a map old->new with old inside [lo,hi]"""
    style = rng.choice(['swap', 'cycle', 'partial', 'noninj', 'fresh', 'absent_old', 'fullperm'])
    if style == 'fullperm' and len(present) >= 3:
        # every label of the alphabet is mapped, listed in an arbitrary order (often smallest first, largest last)
        old = present[:]
        rng.shuffle(old)
        if rng.random() < 0.6:
            mid = [v for v in old if v not in (present[0], present[-1])]
            old = [present[0]] + mid + [present[-1]]
        new = [rng.randint(vals_lo, vals_hi + 40) for _ in old] if rng.random() < 0.5 else rng.sample(range(vals_lo, vals_lo + 10 * len(old)), len(old))
        return old, new
    pool = list(range(vals_lo, vals_hi + 1))
    if style == 'swap' and len(present) >= 2:
        a, b = rng.sample(present, 2)
        return [a, b], [b, a]
    if style == 'cycle' and len(present) >= 3:
        k = rng.randint(3, min(5, len(present)))
        cyc = rng.sample(present, k)
        return cyc, cyc[1:] + cyc[:1]
    if style == 'noninj' and len(present) >= 2:
        k = rng.randint(2, min(4, len(present)))
        old = rng.sample(present, k)
        tgt = rng.choice(old + [rng.randint(vals_lo - 5, vals_hi + 5)])
        return old, [tgt] * k
    if style == 'absent_old' and len(pool) > len(present):
        absent = [v for v in pool if v not in present]
        k = rng.randint(1, min(3, len(absent)))
        old = rng.sample(absent, k) + rng.sample(present, min(1, len(present)))
        return old, [rng.randint(vals_lo - 50, vals_hi + 50) for _ in old]
    k = rng.randint(1, min(4, len(present)))
    old = rng.sample(present, k)
    return old, [rng.randint(vals_lo - 40, vals_hi + 40) for _ in old]


def _gen0(rng, tier):
    n = G.budget(700) if tier == 'quick' else 12000
    for _ in range(n):
        labs, akind = G.alphabet(rng)
        form = rng.choice(['list', 'arr1', 'arr2', 'lol', 'loa', 'loa', 'tuple'])
        trajs = G.trajset(rng, labs, equal=(form == 'arr2'))
        if form in ('list', 'arr1', 'tuple'):
            trajs = trajs[:1]
        present = sorted({v for t in trajs for v in t})
        r = rng.random()
        if r < 0.62:
            old, new = _maps(rng, present[0], present[-1], present)
            yield {'k': 'shift', 'form': form, 'trajs': trajs, 'old': old, 'new': new, 'alpha': akind}
        elif r < 0.70:   # malformed: old outside data range
            old = [present[-1] + rng.randint(1, 9)] if rng.random() < 0.6 else [present[0] - rng.randint(1, 9)]
            new = [rng.choice(present)]
            yield {'k': 'shift', 'form': form, 'trajs': trajs, 'old': old, 'new': new, 'alpha': akind,
                   'malformed': True}
        elif r < 0.82:
            yield {'k': 'rbi', 'form': form, 'trajs': trajs, 'alpha': akind}
        elif r < 0.94:
            yield {'k': 'rbp', 'form': form, 'trajs': trajs, 'alpha': akind}
        else:
            yield {'k': 'unique', 'form': form, 'trajs': trajs, 'alpha': akind}
    for _ in range(G.budget(160) if tier == 'quick' else 4000):
        # narrow integer arrays whose label span exceeds the type's maximum; zero-length trajectories
        # at the front, in the middle and at the END of a list of arrays
        dtype = rng.choice(['int8', 'int8', 'int16', 'uint8', 'int32'])
        lo, hi = {'int8': (-128, 127), 'int16': (-32768, 32767), 'uint8': (0, 255), 'int32': (-200000, 200000)}[dtype]
        k = rng.randint(2, 6)
        labs = sorted(set([rng.choice([lo, lo + 1, lo + 5]), rng.choice([hi, hi - 1, hi - 3])] + [rng.randint(lo, hi) for _ in range(k)]))
        form = rng.choice(['arr1', 'arr2', 'loa', 'loa'])
        trajs = G.trajset(rng, labs, equal=(form == 'arr2'))
        if form == 'arr1':
            trajs = trajs[:1]
        if form == 'loa' and rng.random() < 0.6:
            pos = rng.choice(['end', 'end', 'front', 'middle', 'both'])
            if pos in ('end', 'both'):
                trajs = trajs + [[]] * rng.randint(1, 2)
            if pos in ('front', 'both'):
                trajs = [[]] + trajs
            if pos == 'middle':
                trajs = trajs[:1] + [[]] + trajs[1:]
        present = sorted({v for t in trajs for v in t})
        r = rng.random()
        if r < 0.7:
            old, new = _maps(rng, present[0], present[-1], present)
            if rng.random() < 0.7:      # keep the data minimum the overall minimum
                new = [max(v, present[0]) for v in new]
            yield {'k': 'shift', 'form': form, 'trajs': trajs, 'old': old, 'new': new, 'alpha': 'narrow-' + dtype, 'dtype': dtype}
        else:
            yield {'k': rng.choice(['rbi', 'rbp', 'unique']), 'form': form, 'trajs': trajs, 'alpha': 'narrow-' + dtype, 'dtype': dtype}
    for _ in range(G.budget(60) if tier == 'quick' else 1500):
        # rows of DIFFERENT types in one list: a narrow array first, then wider arrays or plain lists whose labels
        # lie outside the narrow type (the common type is the wide one)
        first = rng.choice(['int8', 'int8', 'uint8', 'int16'])
        lo, hi = {'int8': (-128, 127), 'int16': (-32768, 32767), 'uint8': (0, 255)}[first]
        inside = sorted(set(rng.randint(max(lo, -40), min(hi, 40)) for _ in range(rng.randint(2, 4))))
        outside = sorted(set(rng.choice([hi + rng.randint(1, 300), lo - rng.randint(1, 300)]) for _ in range(rng.randint(1, 3))))
        nrows = rng.randint(2, 4)
        trajs = [G.traj(rng, inside, rng.randint(3, 12))] + [G.traj(rng, inside + outside, rng.randint(3, 12)) + outside for _ in range(nrows - 1)]
        dtypes = [first] + [rng.choice(['int64', 'int32', 'pylist', 'pylist']) for _ in range(nrows - 1)]
        if rng.random() < 0.3:
            trajs.insert(0, [])
            dtypes.insert(0, first)          # an EMPTY plain list would be a float64 array to NumPy: zero-length rows are typed arrays
        present = sorted({v for t in trajs for v in t})
        form = 'loa'
        if rng.random() < 0.5:
            old, new = _maps(rng, present[0], present[-1], present)
            yield {'k': 'shift', 'form': form, 'trajs': trajs, 'old': old, 'new': new, 'alpha': 'mixed-rows-' + first, 'dtypes': dtypes, 'layout': None}
        else:
            yield {'k': rng.choice(['rbi', 'rbp', 'unique', 'unique']), 'form': form, 'trajs': trajs, 'alpha': 'mixed-rows-' + first, 'dtypes': dtypes, 'layout': None}
    for _ in range(1 if tier == 'quick' else 3):                   # more than 2^20 frames, a label that occurs only in the last few
        labs = [0, 1, 2, 3]
        n = 2**20 + rng.choice([1, 3, 5, 7])
        t = [labs[(i // 97) % 3] for i in range(n - 1)] + [3]            # the new label is the very last frame
        for kk in ('unique', 'rbi'):
            yield {'k': kk, 'form': 'arr1', 'trajs': [t], 'alpha': 'huge'}
    if tier == 'thorough':
        vals = [-1, 0, 2, 3]
        for L in range(1, 7):
            for data in itertools.product(vals, repeat=L):
                present = sorted(set(data))
                lo, hi = present[0], present[-1]
                cand = [v for v in range(lo, hi + 1)]
                for k in range(1, min(3, len(cand)) + 1):
                    for old in itertools.permutations(cand, k):
                        if list(old) != sorted(old):
                            continue
                        for new in itertools.product([-2, 0, 3], repeat=k):
                            yield {'k': 'shift', 'form': 'arr1', 'trajs': [list(data)],
                                   'old': list(old), 'new': list(new), 'alpha': 'enum'}
        yield 'EXHAUSTIVE'


def gen(rng, tier):
    return G.with_layouts(rng, _gen0(rng, tier), p_alt=0.2)


def corpus():
    return [
        {'k': 'shift', 'form': 'loa', 'trajs': [[-3, 5, 2], [5]], 'old': [-3, 5], 'new': [5, -3], 'alpha': 'corpus'},
        {'k': 'shift', 'form': 'arr2', 'trajs': [[1, 2, 3], [3, 2, 1]], 'old': [1, 2, 3], 'new': [2, 3, 1], 'alpha': 'corpus'},
        {'k': 'shift', 'form': 'list', 'trajs': [[0, 1, 2, 7]], 'old': [7, 0], 'new': [-9, -9], 'alpha': 'corpus'},
        {'k': 'rbp', 'form': 'lol', 'trajs': [[7, 7, -2], [9, 7, 9]], 'alpha': 'corpus'},
        {'k': 'rbi', 'form': 'loa', 'trajs': [[30000, -30000, 5], [5, 5]], 'alpha': 'corpus'},
    ]


def shrink(case):
    trajs = case['trajs']
    if case.get('dtypes'):        # per-row types: rows cannot be dropped without re-aligning them
        return
    if len(trajs) > 1 and case['form'] not in ('list', 'arr1', 'tuple'):
        for k in range(len(trajs)):
            c = dict(case)
            c['trajs'] = trajs[:k] + trajs[k + 1:]
            yield c
    for k, t in enumerate(trajs):
        if len(t) > 1 and case['form'] != 'arr2':
            for cut in (t[:len(t) // 2], t[len(t) // 2:], t[:-1], t[1:]):
                c = dict(case)
                c['trajs'] = trajs[:k] + [cut] + trajs[k + 1:]
                yield c
    if case['k'] == 'shift' and len(case['old']) > 1:
        for k in range(len(case['old'])):
            c = dict(case)
            c['old'] = case['old'][:k] + case['old'][k + 1:]
            c['new'] = case['new'][:k] + case['new'][k + 1:]
            yield c


# --------------------------------------------------------- implementation
def impl(case):
    import msmhelper as mh
    from implutil import build, canon
    data = build(case['form'], case['trajs'], dtypes=case.get('dtypes') or ([case['dtype']] if case.get('dtype') else None), layout=case.get('layout'))
    k = case['k']

    def intact():
        # the argument must still denote the input (perm[renamed] reproduces the INPUT)
        from implutil import tolists
        import numpy as np
        cur = data
        if isinstance(cur, np.ndarray):
            cur = cur.tolist() if cur.ndim == 2 else [cur.tolist()]
        elif cur and not isinstance(cur[0], (list, tuple, np.ndarray)):
            cur = [list(cur)]
        return tolists(cur) == case['trajs']
    if k == 'shift':
        r = mh.shift_data(data, case['old'], case['new'])
        return {'ok': canon(r), 'intact': intact()}
    if k == 'rbi':
        r, perm = mh.rename_by_index(data, return_permutation=True)
        r2 = mh.rename_by_index(data)
        return {'ok': canon(r), 'perm': canon(perm), 'same': canon(r2) == canon(r), 'intact': intact()}
    if k == 'rbp':
        r, perm = mh.rename_by_population(data, return_permutation=True)
        r2 = mh.rename_by_population(data)
        return {'ok': canon(r), 'perm': canon(perm), 'same': canon(r2) == canon(r), 'intact': intact()}
    if k == 'unique':
        st, cnt = mh.unique(data, return_counts=True)
        st2 = mh.unique(data)
        return {'st': canon(st), 'cnt': canon(cnt), 'st2': canon(st2)}
    raise ValueError(k)


# ------------------------------------------------------------------ model
def requests(case):
    k = case['k']
    t = case['trajs']
    if k == 'shift':
        return [[1501] + C.enested(t) + C.eZs(case['old']) + C.eZs(case['new'])]
    if k == 'rbi':
        return [[1503] + C.enested(t)]
    if k == 'rbp':
        return [[1504] + C.enested(t), [1506] + C.enested(t)]
    return [[1506] + C.enested(t)]


def _shape_ok(form, trajs, c):
    """container structure of the implementation output vs the input form"""
    if form in ('list', 'arr1', 'tuple'):
        return c['t'] == 'arr' and c['shape'] == [len(trajs[0])] and c['int']
    if form == 'arr2':
        return c['t'] == 'arr' and c['shape'] == [len(trajs), len(trajs[0])] and c['int']
    return (c['t'] == 'list' and len(c['items']) == len(trajs) and
            all(i['t'] == 'arr' and i['shape'] == [len(t)] and i['int']
                for i, t in zip(c['items'], trajs)))


def _values(form, c):
    if c['t'] == 'arr':
        if len(c['shape']) == 2:
            n = c['shape'][1]
            return [c['v'][i * n:(i + 1) * n] for i in range(c['shape'][0])]
        return [c['v']]
    return [i['v'] for i in c['items']]


def in_guard(case):
    data = [v for t in case['trajs'] for v in t]
    return (len(set(case['old'])) == len(case['old']) and len(case['old']) == len(case['new'])
            and all(min(data) <= o <= max(data) for o in case['old']) and len(case['new']) > 0)


def judge(case, ibc, answers):
    probs = []
    k = case['k']
    for cfg, r in ibc.items():
        def P(kind, what, finding=None):
            probs.append({'kind': kind, 'cfg': cfg, 'what': what, 'finding': finding})
        if r.get('intact') is False:
            P('impl-vs-spec', 'the input container was modified by the call, so the result no longer corresponds to it')
        if k == 'shift':
            rd = C.Reader(answers[0])
            model = rd.res(rd.nested)
            spec = rd.nested()
            if 'err' in r:
                if model != ('err', r['err']):
                    P('impl-vs-model', 'impl raised %s, model %s' % (r['err'], C.short(model, 80)))
                if in_guard(case):
                    P('impl-vs-spec', 'shift_data raised %s inside the documented guard' % r['err'])
                continue
            c = r['ok']
            if not _shape_ok(case['form'], case['trajs'], c):
                P('impl-vs-spec', 'container structure changed: %s' % C.short(c, 120))
                continue
            vals = _values(case['form'], c)
            if model != ('ok', vals):
                P('impl-vs-model', 'impl %s model %s' % (C.short(vals, 120), C.short(model, 120)))
            if in_guard(case) and vals != spec:
                P('impl-vs-spec', 'impl %s differs from simultaneous substitution %s' % (
                    C.short(vals, 120), C.short(spec, 120)))
            if in_guard(case) and model != ('ok', spec):
                P('model-vs-spec', 'model %s spec %s' % (C.short(model, 100), C.short(spec, 100)))
        elif k in ('rbi', 'rbp'):
            rd = C.Reader(answers[0])
            model = rd.res(lambda: (rd.nested(), rd.Zs()))
            if 'err' in r:
                P('impl-vs-spec', 'rename raised %s' % r['err'])
                continue
            if not r['same']:
                P('impl-vs-spec', 'return_permutation changes the renamed data')
            if not _shape_ok(case['form'], case['trajs'], r['ok']):
                P('impl-vs-spec', 'container structure changed: %s' % C.short(r['ok'], 120))
                continue
            vals, perm = _values(case['form'], r['ok']), r['perm']['v']
            if k == 'rbi':
                if model != ('ok', (vals, perm)):
                    P('impl-vs-spec', 'impl %s model %s' % (C.short((vals, perm), 120), C.short(model, 120)))
            else:
                rd2 = C.Reader(answers[1])
                rd2.Zs()
                counts = rd2.Zs()
                ok = C.Reader(C.mrun([[1505] + C.enested(case['trajs']) + C.enested(vals) + C.eZs(perm)])[0]).bool()
                if not ok:
                    P('impl-vs-spec', 'rename_by_population output fails the oracle: %s perm %s' % (
                        C.short(vals, 100), perm))
                if len(set(counts)) == len(counts) and model != ('ok', (vals, perm)):
                    P('impl-vs-model', 'no ties, impl %s model %s' % (C.short((vals, perm), 100), C.short(model, 100)))
        else:
            rd = C.Reader(answers[0])
            st, cnt = rd.Zs(), rd.Zs()
            if 'err' in r:
                P('impl-vs-spec', 'unique raised %s' % r['err'])
            elif r['st']['v'] != st or r['cnt']['v'] != cnt or r['st2']['v'] != st:
                P('impl-vs-spec', 'unique: impl %s/%s model %s/%s' % (r['st']['v'], r['cnt']['v'], st, cnt))
    return probs


def nontrivial(case, ibc):
    if case['k'] == 'shift':
        old, new = case['old'], case['new']
        cyc = bool(set(old) & set(new)) and old != new
        noninj = len(set(new)) < len(new)
        ragged = len({len(t) for t in case['trajs']}) > 1 or case['form'] == 'arr2'
        return cyc or noninj or ragged
    return len({v for t in case['trajs'] for v in t}) >= 3


def describe(case, ibc):
    r = next(iter(ibc.values()))
    return ['call:' + case['k'], 'form:' + case['form'] + ('/' + case['layout'] if case.get('layout') else ''), 'alphabet:' + case['alpha'],
            'ntraj:%d' % len(case['trajs']),
            'outcome:' + ('err-' + r['err'] if 'err' in r else 'ok')]
