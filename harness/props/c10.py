# -*- coding: utf-8 -*-
"""C10 - implied timescales and eigen-solvers."""
import math
from fractions import Fraction

import common as C
import gen as G

PROP = 'C10'
THEOREMS = ['its_pos_thm', 'its_mono_thm', 'rule_never_spurious', 'two_state_lambda_thm', 'selection_count']
CONFIGS = [dict(jit=True)]
CONFIGS_THOROUGH = [dict(jit=True), dict(jit=False)]
RULE = ('(a) eigen-solvers: random real square matrices (2..8, rational entries, also stochastic, '
        'symmetric, near-cyclic with complex pairs) through left/right_eigenvectors and *_eigenvalues with '
        'nvals in {None, 1..n}: every returned pair is checked by the exact residual |vT - lambda v| (or '
        '|Tv - lambda v|) <= 1e-9 max(1,|T|), order descending, count = nvals, sum of eigenvalues = trace. '
        '(b) implied_timescales on random trajectory sets with >= 2 states (plain and lumped), lists of '
        'lags, ntimescales in 1..n-1 and default: the eigenvalues of the model (validated as in (a)) are '
        'classified by the exact rule; entries must be -tau/ln(lambda) (1e-9 relative; libm) for real '
        'lambda in (0,1), NaN for real lambda <= 0, positive-finite-or-NaN for complex lambda, never '
        'negative; two-state models are compared with the exact lambda_2 = T00+T11-1. Non-trivial: a '
        'non-positive or complex eigenvalue or >= 2 timescales.'
        ' Added classes: 17..20 states with truncated requests (the k requested eigenvalues must be the k largest of the full call), driven rings with eigenvalues near the whole unit circle, Fortran/transposed/strided layouts (same eigen-pairs).'
        ' Later: slow reversible chains (lambda_2 within 1e-5 of one), lag lists with an unusable lag in front, reducible models with eigenvalue one twice, matrices intact after eigenvalue-only calls, a second identical call after the result was overwritten.'
        ' Fifth/sixth batch: typed (unsigned) lag lists, near-symmetric matrices, a genuine positive eigenvalue of 5e-9.')
TRUSTED = ['the spectrum is LAPACK\'s (validated a posteriori by exact residuals)', 'ln evaluated by libm in the harness',
           'eigenvalues within 1e-9 of 0 or 1 are treated as boundary (NaN or any non-negative value accepted)']
ASSUMPTIONS = []
BATCH = 60


def gen(rng, tier):
    n = G.budget(60) if tier == 'quick' else 2500
    for _ in range(n):      # eigen-solver cases
        k = rng.randint(2, 8 if tier == 'thorough' else 6)
        if rng.random() < 0.15:
            k = rng.randint(17, 20)      # large matrices (code paths that depend on the dimension)
        style = rng.choice(['general', 'stochastic', 'symmetric', 'cyclic', 'near-symmetric'])
        M = [[Fraction(rng.randint(-9, 9), rng.choice([1, 2, 4, 5])) for _ in range(k)] for _ in range(k)]
        if style in ('symmetric', 'near-symmetric'):
            M = [[M[min(i, j)][max(i, j)] for j in range(k)] for i in range(k)]
            if style == 'near-symmetric':
                # symmetric up to a relative 1e-6..8e-6 in a few entries: "close" for np.allclose, yet a different matrix
                for _p in range(rng.randint(1, 3)):
                    i, j = rng.sample(range(k), 2)
                    if M[i][j] == 0:
                        M[i][j] = M[j][i] = Fraction(rng.choice([-7, 3, 5]))
                    M[i][j] = M[i][j] * (1 + Fraction(rng.randint(1, 8), 10**6))
        elif style in ('stochastic', 'cyclic'):
            Cm = [[(rng.randint(0, 9) if rng.random() < 0.6 else 0) for _ in range(k)] for _ in range(k)]
            if style == 'cyclic':
                Cm = [[0] * k for _ in range(k)]
                for i in range(k):
                    Cm[i][(i + 1) % k] = 8
                    Cm[i][i] = rng.randint(0, 2)
            for i in range(k):
                if not sum(Cm[i]):
                    Cm[i][i] = 1
            M = [[Fraction(c, sum(r)) for c in r] for r in Cm]
        yield {'k': 'eig', 'M': [[str(x) for x in r] for r in M], 'nvals': rng.choice([None, None, 1, rng.randint(1, k), rng.randint(2, max(2, k // 2))]), 'style': style}
    for _ in range(n):      # implied timescales
        k = rng.randint(2, 5)
        big = rng.random() < 0.12        # many states: driven rings have eigenvalues near the whole unit circle
        if big:
            k = rng.randint(17, 19)
        labs, akind = G.alphabet(rng, k=k)
        style = rng.choice(['sticky', 'sticky', 'alternating', 'cyclic', 'random'])
        if big:
            style = rng.choice(['cyclic', 'cyclic', 'random'])
        trajs = []
        for _ in range(rng.choice([1, 2])):
            L = rng.randint(30, 200) * (6 if big else 1)
            if style == 'alternating':
                t = [labs[(i + (rng.random() < 0.15)) % 2] for i in range(L)]
            elif style == 'cyclic':
                t, cur = [], 0
                for i in range(L):
                    t.append(labs[cur])
                    cur = (cur + (1 if rng.random() < 0.9 else 0)) % k
            else:
                t = G.traj(rng, labs, L, sticky=0.8 if style == 'sticky' else 0.0)
            trajs.append(t)
        present = sorted({v for t in trajs for v in t})
        if len(present) < 2:
            continue
        lags = rng.sample(range(1, 6), rng.randint(1, 3))
        if rng.random() < 0.15 and not big:
            longest = max(len(t) for t in trajs)
            lags.insert(rng.randrange(len(lags) + 1), longest + rng.choice([0, 1, 7]))      # a lag no trajectory can serve
        nts = rng.choice([None, None, 1, rng.randint(1, len(present) - 1)])
        if big:
            nts = rng.choice([1, 2, 3, 5, 8, len(present) - 2, None])
        lumped = len(present) >= 3 and rng.random() < 0.25 and not big
        case = {'k': 'its', 'trajs': trajs, 'lags': lags, 'nts': nts, 'style': style, 'lumped': lumped, 'alpha': akind}
        if max(lags) < 100 and rng.random() < 0.25:
            # the lag list as a NumPy array of a narrow / unsigned type, or as a list of NumPy scalars
            case['lagtype'] = rng.choice(['int8', 'int16', 'int64', 'uint8', 'uint8', 'uint16', 'uint32', 'uint64', 'list-uint8', 'list-int8'])
        if lumped:
            f = {v: 40 + (i * 2) // len(present) for i, v in enumerate(present)}
            case['macro'] = [[f[v] for v in t] for t in trajs]
            nm = len({f[v] for v in present})
            if case['nts'] is not None:
                case['nts'] = min(case['nts'], nm - 1)
        yield case
    for case in gen_tiny(rng, tier):
        yield case
    for case in gen_slow(rng, tier):
        yield case
    for case in gen_traps(rng, tier):
        yield case


def gen_traps(rng, tier):
    for _ in range(3 if tier == 'quick' else 40):
        # several closed sets: trajectories on disjoint state sets, or ending in different trap states
        labs, akind = G.alphabet(rng, k=rng.randint(4, 6))
        rng.shuffle(labs)
        h = len(labs) // 2
        if rng.random() < 0.5:
            trajs = [G.traj(rng, labs[:h], rng.randint(30, 80), sticky=0.6) + labs[:h], G.traj(rng, labs[h:], rng.randint(30, 80), sticky=0.6) + labs[h:]]
        else:
            core = labs[:-2]
            trajs = [G.traj(rng, core, rng.randint(20, 50), sticky=0.5) + core + [labs[-2]] * rng.randint(3, 9),
                     G.traj(rng, core, rng.randint(20, 50), sticky=0.5) + core + [labs[-1]] * rng.randint(3, 9)]
        yield {'k': 'its', 'trajs': trajs, 'lags': rng.sample([1, 2, 3], rng.randint(1, 3)), 'nts': rng.choice([None, 1, 2]),
               'style': 'traps', 'lumped': False, 'alpha': akind}


def gen_slow(rng, tier):
    for _ in range(1 if tier == 'quick' else 4):
        # very slow but connected chains: second eigenvalue within 1e-5 of one, timescale > 1e5 lag times
        k = rng.choice([2, 3])
        labs = rng.sample([0, 1, 2, 4, 9], k)
        dwell = rng.choice([200000, 250000, 300000])
        # two states, or a star 0-1, 0-2 (a tree: reversible, hence a real spectrum)
        order = [0, 1, 0, 1, 0] if k == 2 else [0, 1, 0, 2, 0, 1, 0, 2, 0]
        rle = [[[labs[i], dwell + rng.randint(0, 99)] for i in order]]
        yield {'k': 'its', 'trajs': None, 'rle': rle, 'lags': [1, rng.choice([2, 5])], 'nts': None, 'style': 'slow', 'lumped': False, 'alpha': 'slow'}


def gen_tiny(rng, tier):
    for _ in range(1 if tier == 'quick' else 4):
        # a two-state model whose count matrix has determinant ONE (Cassini triple of Fibonacci numbers, or
        # [[10001, 10101], [10101, 10202]]): the second eigenvalue is a genuine positive 2.5e-9 .. 5.2e-9, far above
        # rounding (1e-16) - its timescale -tau/ln(lambda) = 0.05 is a number, not NaN
        a, b, d = rng.choice([(4181, 6765, 10946), (10001, 10101, 10202)])
        labs = rng.sample([0, 1, 3, 8], 2)
        q0, r0 = divmod(a, b + 1)
        q1, r1 = divmod(d, b)
        t = []
        for i in range(b + 1):
            t.append([labs[0], 1 + q0 + (1 if i < r0 else 0)])
            if i < b:
                t.append([labs[1], 1 + q1 + (1 if i < r1 else 0)])
        yield {'k': 'its', 'trajs': None, 'rle': [t], 'lags': [1], 'nts': None, 'style': 'tiny-eigenvalue', 'lumped': False, 'alpha': 'tiny-eigenvalue'}


def corpus():
    return [{'k': 'its', 'trajs': [[0, 1, 0, 1, 0, 1, 1, 0, 1, 0]], 'lags': [1, 2], 'nts': None, 'style': 'corpus', 'lumped': False, 'alpha': 'corpus'},
            {'k': 'eig', 'M': [['1/2', '1/2'], ['1/4', '3/4']], 'nvals': None, 'style': 'corpus'},
            {'k': 'eig', 'M': [['0', '1', '0'], ['0', '0', '1'], ['1', '0', '0']], 'nvals': 2, 'style': 'corpus'}]


def _c(z):
    z = complex(z)
    return [z.real.hex(), z.imag.hex()]


def impl(case):
    import numpy as np
    import msmhelper as mh
    from msmhelper.msm.utils import linalg
    if case['k'] == 'eig':
        M = np.array([[float(Fraction(x)) for x in r] for r in case['M']])
        out = {}
        for name, f in (('left', linalg.left_eigenvectors), ('right', linalg.right_eigenvectors)):
            vals, vecs = f(M, nvals=case['nvals'])
            out[name] = {'vals': [_c(v) for v in vals], 'vecs': [[_c(x) for x in v] for v in vecs]}
            out[name]['all'] = [_c(v) for v in f(M)[0]]
        from implutil import alt_layouts
        diff = []
        for lname, A in alt_layouts(M).items():
            keep = A.copy()
            for name, f in (('left', linalg.left_eigenvectors), ('right', linalg.right_eigenvectors)):
                vals, vecs = f(A, nvals=case['nvals'])
                if [_c(v) for v in vals] != out[name]['vals']:
                    diff.append('%s eigenvalues of a %s matrix differ from those of the C-ordered matrix' % (name, lname))
                elif [[_c(x) for x in v] for v in vecs] != out[name]['vecs']:
                    diff.append('%s eigenvectors of a %s matrix differ from those of the C-ordered matrix' % (name, lname))
            if not np.array_equal(keep, A):
                diff.append('a %s matrix was modified' % lname)
        out['layout_diff'] = diff
        keepM = M.copy()
        out['lvals'] = [_c(v) for v in linalg.left_eigenvalues(M, nvals=case['nvals'])]
        Mf = np.asfortranarray(keepM)
        linalg.right_eigenvalues(Mf, nvals=case['nvals'])
        out['M_intact'] = bool(np.array_equal(M, keepM) and np.array_equal(Mf, keepM))
        # ... and the eigen-pairs asked for AFTER the eigenvalue-only calls on the same arrays are unchanged
        again = linalg.left_eigenvectors(M, nvals=case['nvals'])
        out['pairs_again'] = [_c(v) for v in again[0]] == out['left']['vals'] and [[_c(x) for x in v] for v in again[1]] == out['left']['vecs']
        out['rvals'] = [_c(v) for v in linalg.right_eigenvalues(M, nvals=case['nvals'])]
        return out
    trajs = [np.array(t) for t in G.expand(case)]
    data = mh.LumpedStateTraj([np.array(t) for t in case['macro']], trajs) if case['lumped'] else trajs
    lags = case['lags']
    lt = case.get('lagtype')
    if lt:
        lags = [np.dtype(lt[5:]).type(v) for v in lags] if lt.startswith('list-') else np.array(lags, dtype=lt)
    its = mh.msm.implied_timescales(data, lags, ntimescales=case['nts'])
    keep = np.array(its, dtype=float, copy=True)
    try:
        its[...] = -3.0           # the caller owns the result; a second call must not see this
    except Exception:  # noqa
        pass
    its2 = np.asarray(mh.msm.implied_timescales(data, lags, ntimescales=case['nts']), dtype=float)
    fresh = bool(its2.shape == keep.shape and np.array_equal(its2, keep, equal_nan=True))
    its = keep
    rows = []
    obj = data if case['lumped'] else mh.StateTraj(trajs)
    for lag in case['lags']:
        try:
            T, _ = obj.estimate_markov_model(lag)
            vals, vecs = linalg.left_eigenvectors(T)
            rows.append({'T': [[float(x).hex() for x in r] for r in T], 'vals': [_c(v) for v in vals],
                         'vecs': [[_c(x) for x in v] for v in vecs]})
        except Exception as exc:  # noqa
            rows.append({'err': type(exc).__name__})
    return {'its': [['nan' if math.isnan(x) else float(x).hex() for x in r] for r in np.asarray(its, dtype=float)],
            'shape': list(np.shape(its)), 'rows': rows, 'nstates': int(obj.nstates), 'fresh': fresh}


def requests(case):
    if case['k'] == 'its' and not case['lumped']:
        return [[1003] + C.enested(G.expand(case)) + [lag] for lag in case['lags']] if not case.get('rle') else []
    return []


def _cq(p):
    return [Fraction(float.fromhex(p[0])), Fraction(float.fromhex(p[1]))]


def _pairs_ok(T, left, vals, vecs, tol):
    req = [1001] + C.ebool(left) + C.eQ(tol) + C.eQmat(T) + [len(vals)]
    for v in vals:
        req += C.eQ(v[0]) + C.eQ(v[1])
    req += [len(vecs)]
    for vec in vecs:
        req += [len(vec)]
        for x in vec:
            req += C.eQ(x[0]) + C.eQ(x[1])
    rd = C.Reader(C.mrun([req])[0])
    return rd.list(rd.bool), rd.bool(), rd.Q(), rd.Q(), rd.Q()


def judge(case, ibc, answers):
    probs = []
    for cfg, r in ibc.items():
        def P(kind, what, finding=None):
            probs.append({'kind': kind, 'cfg': cfg, 'what': what, 'finding': finding})
        if 'err' in r:
            refused = False
            if case['k'] == 'its' and case['lumped'] and r['err'] == 'TypeError':
                # a lumped object refuses (TypeError) when the micro model at some lag is not ergodic (C03)
                from props import c03
                for lag in case['lags']:
                    a = C.mrun([[301] + C.enested(case['macro']) + C.enested(G.expand(case)) + C.ebool(False) + [lag]])[0]
                    model, _, _, emicro = c03.decode(a)
                    if model[0] == 'err' or not (emicro[0] == 'ok' and emicro[1][2]):
                        refused = True
            if not refused:
                P('impl-vs-spec', 'call failed: %s %s' % (r['err'], r.get('msg')))
            continue
        if case['k'] == 'eig':
            T = [[Fraction(x) for x in row] for row in case['M']]
            n = len(T)
            norm = max(1, max(sum(abs(x) for x in row) for row in T))
            tol = Fraction(1, 10**9) * norm * 4
            want = n if case['nvals'] is None else case['nvals']
            for name in ('left', 'right'):
                vals = [_cq(v) for v in r[name]['vals']]
                vecs = [[_cq(x) for x in v] for v in r[name]['vecs']]
                if len(vals) != want or len(vecs) != want:
                    P('impl-vs-spec', '%s: %d eigenvalues / %d vectors returned, requested %d' % (name, len(vals), len(vecs), want))
                    continue
                full = [_cq(v) for v in r[name]['all']]
                if len(full) != n or any(abs(a[0] - b[0]) > tol or abs(a[1] - b[1]) > tol for a, b in zip(vals, full)):
                    P('impl-vs-spec', '%s: the %d requested eigenvalues %s are not the %d largest of the full spectrum %s' % (
                        name, want, [float(v[0]) for v in vals][:6], want, [float(v[0]) for v in full][:6]))
                oks, desc, tr, sre, sim = _pairs_ok(T, name == 'left', vals, vecs, tol)
                if not all(oks):
                    k = oks.index(False)
                    P('impl-vs-spec', '%s eigen-pair %d fails the residual test: lambda=%s' % (name, k, [float(x) for x in vals[k]]))
                if not desc:
                    P('impl-vs-spec', '%s eigenvalues are not in descending order: %s' % (name, [float(v[0]) for v in vals]))
                if want == n and (abs(sre - tr) > tol * n or abs(sim) > tol * n):
                    P('impl-vs-spec', '%s eigenvalues do not sum to the trace' % name)
            for d in r.get('layout_diff') or []:
                P('impl-vs-spec', d)
            if r.get('M_intact') is False:
                P('impl-vs-spec', 'an eigenvalue-only call overwrote the matrix passed to it')
            if r.get('pairs_again') is False:
                P('impl-vs-spec', 'left_eigenvectors after eigenvalue-only calls on the same matrix returns other pairs')
            if r['lvals'] != r['left']['vals'] or r['rvals'] != r['right']['vals']:
                P('impl-vs-spec', '*_eigenvalues differ from the values returned by *_eigenvectors')
            continue
        # implied timescales
        if r.get('fresh') is False:
            P('impl-vs-spec', 'a second identical call returns other timescales after the first result was overwritten by the caller')
        nts = case['nts'] if case['nts'] is not None else r['nstates'] - 1
        if r['shape'] != [len(case['lags']), nts]:
            P('impl-vs-spec', 'result shape %s, expected %s' % (r['shape'], [len(case['lags']), nts]))
            continue
        for li, lag in enumerate(case['lags']):
            row = r['rows'][li]
            if 'err' in row:
                continue
            T = [[Fraction(float.fromhex(x)) for x in rr] for rr in row['T']]
            vals = [_cq(v) for v in row['vals']]
            vecs = [[_cq(x) for x in v] for v in row['vecs']]
            tol = Fraction(1, 10**9) * 4
            oks, desc, tr, sre, sim = _pairs_ok(T, True, vals, vecs, tol)
            if not all(oks) or not desc:
                # the eigen-solver itself returned something that is not an eigen-decomposition of the model
                # matrix (this call comes AFTER implied_timescales in the same process, on the same matrix)
                P('impl-vs-spec', 'lag %d: left_eigenvectors(T) after implied_timescales returns invalid or unordered '
                  'eigen-pairs: values %s' % (lag, [[float(x) for x in v] for v in vals][:4]))
                continue
            classes = C.Reader(C.mrun([[1002, len(vals)] + [x for v in vals for x in C.eQ(v[0]) + C.eQ(v[1])]])[0]).Zs()
            got = r['its'][li]
            for k in range(nts):
                lam, cl = vals[k + 1], classes[k + 1]
                g = got[k]
                gv = None if g == 'nan' else float.fromhex(g)
                re = float(lam[0])
                near0, near1 = abs(re) < 1e-9 and float(lam[1]) == 0, abs(re - 1) < 1e-9 and float(lam[1]) == 0
                if gv is not None and (gv < 0 or math.isinf(gv) and not near1):
                    P('impl-vs-spec', 'lag %d, timescale %d: %r for eigenvalue %s (must be positive or NaN)' % (
                        lag, k + 1, gv, [float(x) for x in lam]), 'its-masked-leak' if gv == -lag else None)
                    continue
                if near0 or near1:
                    continue
                if cl == 0 and gv is not None:
                    P('impl-vs-spec', 'lag %d, timescale %d: %r for the non-positive real eigenvalue %r (must be NaN)' % (lag, k + 1, gv, re),
                      'its-masked-leak' if gv == -lag else None)
                elif cl == 1:
                    want = -lag / math.log(re)
                    if gv is None or abs(gv - want) > 1e-9 * max(1.0, abs(want)):
                        P('impl-vs-spec', 'lag %d, timescale %d: %r, -tau/ln(lambda) = %r' % (lag, k + 1, gv, want))
                elif cl == 3 and gv is not None and not (gv > 0 and math.isfinite(gv)):
                    P('impl-vs-spec', 'lag %d, timescale %d: %r for a complex eigenvalue' % (lag, k + 1, gv))
            # two-state models: exact second eigenvalue
            if not case['lumped'] and r['nstates'] == 2 and answers:
                rd = C.Reader(answers[li])
                m = rd.res(lambda: (rd.Qmat(), rd.Q(), rd.Q()))
                if m[0] == 'ok' and all(sum(row) == 1 for row in m[1][0]):     # T00+T11-1 is lambda_2 only for a stochastic matrix
                    lam2 = m[1][1]
                    g = got[0]
                    gv = None if g == 'nan' else float.fromhex(g)
                    if 1e-9 < lam2 < 1 - Fraction(1, 10**9):
                        want = -lag / math.log(float(lam2))
                        if gv is None or abs(gv - want) > 1e-9 * max(1.0, abs(want)):
                            P('impl-vs-spec', 'two-state model, lag %d: %r, exact lambda_2 = %s gives %r' % (lag, gv, lam2, want))
                    elif lam2 < -Fraction(1, 10**9) and gv is not None:
                        P('impl-vs-spec', 'two-state model, lag %d: %r although lambda_2 = %s < 0' % (lag, gv, lam2),
                          'its-masked-leak' if gv == -lag else None)
    return probs


def nontrivial(case, ibc):
    r = next(iter(ibc.values()))
    if case['k'] == 'eig':
        return any(float.fromhex(v[1]) != 0 or float.fromhex(v[0]) <= 0 for v in r.get('left', {}).get('vals', []))
    return 'its' in r and (r['shape'][1] >= 2 or any(x == 'nan' for row in r['its'] for x in row))


def describe(case, ibc):
    r = next(iter(ibc.values()))
    if case['k'] == 'eig':
        return ['call:eig', 'style:' + case['style'], 'n:%d' % len(case['M']), 'nvals:%s' % case['nvals']]
    return ['call:its', 'style:' + case['style'], 'lumped:%s' % case['lumped'], 'ntimescales:%s' % case['nts'],
            'has-nan:%s' % any(x == 'nan' for row in r.get('its', []) for x in row), 'lagtype:%s' % case.get('lagtype')]
