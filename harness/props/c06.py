# -*- coding: utf-8 -*-
"""C06 - md waiting times and pathways."""
import itertools

import common as C
import gen as G

PROP = 'C06'
THEOREMS = ['events_eq_ref_thm', 'events_inside_trajectory', 'events_ordered_disjoint', 'events_sound_thm',
            'wt_concat', 'path_nodup', 'path_last', 'path_steps_observed', 'path_labels_occur', 'path_head',
            'paths_partition', 'paths_keys_distinct', 'paths_values_in_order', 'intersect_spec_thm']
CONFIGS = [dict(jit=True), dict(jit=False)]
RULE = ('random multi-trajectory sets over all label alphabets with disjoint non-empty start/final '
        'subsets of the occurring labels (basins of several states, events straddling a seam, open '
        'final events, loops revisiting the start basin) plus a malformed stream (overlapping or '
        'absent states); thorough adds all trajectories over 4 labels up to length 7 with every '
        'disjoint non-empty (S,F). Compared: waiting-time list in order, pathway dictionary (keys as '
        'sets, per-key times in occurrence order), error kinds. Non-trivial: >= 1 closed event and '
        '>= 1 frame outside both basins.'
        ' Added classes: narrow integer arrays with > 127/255 frames, zero-length member trajectories, > 256 trajectories / > 2^16 frames / > 64..260 states, other memory layouts, a LumpedStateTraj whose macro trajectories are the input.'
        ' Later: 40..60 sparsely labelled states with basins of ~20 labels on short trajectories, long excursions over 6..12 labels (interleaving loops), basin labels outside the range of a narrow array type (rejected as absent), the other analysis run on the same object first, reused containers.')
TRUSTED = ['numba typed List/Dict conversion exercised, not modelled']
ASSUMPTIONS = ['labels within +-2^29']
BATCH = 6000


def _basins(rng, present):
    k = len(present)
    a = rng.randint(1, max(1, k // 2))
    S = rng.sample(present, a)
    rest = [p for p in present if p not in S]
    if not rest:
        return S, []
    F = rng.sample(rest, rng.randint(1, max(1, len(rest) // 2)))
    return S, F


def _gen0(rng, tier):
    n = G.budget(1500) if tier == 'quick' else 20000
    for _ in range(n):
        labs, akind = G.alphabet(rng, k=rng.randint(2, 6))
        form = rng.choice(['loa', 'loa', 'lol', 'arr1', 'list', 'obj', 'arr2'])
        trajs = G.trajset(rng, labs, big=True, equal=(form == 'arr2'))
        if form in ('list', 'arr1'):
            trajs = trajs[:1]
        present = sorted({v for t in trajs for v in t})
        if len(present) < 2:
            continue
        S, F = _basins(rng, present)
        if not F:
            continue
        r = rng.random()
        mal = None
        if r < 0.05:
            F = F + [rng.choice(S)]
            mal = 'overlap'
        elif r < 0.10:
            absent = max(present) + rng.randint(1, 5)
            (S if rng.random() < 0.5 else F).append(absent)
            mal = 'absent'
        elif r < 0.2:
            S = S + [S[0]]          # duplicates, unsorted
            rng.shuffle(F)
        yield {'k': rng.choice(['wt', 'paths']), 'trajs': trajs, 'S': S, 'F': F, 'form': form,
               'alpha': akind, 'mal': mal}
    for _ in range(G.budget(40) if tier == 'quick' else 1500):     # narrow integer types, more than 127 / 255 frames
        base = rng.choice([0, 1])
        labs = list(range(base, base + rng.randint(2, 4)))
        trajs = [G.traj(rng, labs, rng.randint(130, 420), sticky=rng.choice([0.5, 0.8])) + labs for _ in range(rng.choice([1, 2]))]
        S, F = _basins(rng, labs)
        if F:
            yield {'k': rng.choice(['wt', 'paths']), 'trajs': trajs, 'S': S, 'F': F, 'form': 'loa', 'alpha': 'long-narrow',
                   'mal': None, 'dtypes': [rng.choice(['int8', 'uint8', 'int16'])]}
    for _ in range(G.budget(80) if tier == 'quick' else 2000):     # zero-length trajectories inside the set
        labs, akind = G.alphabet(rng, k=rng.randint(2, 4))
        trajs = G.trajset(rng, labs, ntraj=rng.choice([2, 3, 4, 5]), big=False)
        present = sorted({v for t in trajs for v in t})
        if len(present) < 2:
            continue
        S, F = _basins(rng, present)
        if not F:
            continue
        trajs = G.insert_empties(trajs, G.empty_positions(rng, len(trajs)))
        yield {'k': rng.choice(['wt', 'paths']), 'trajs': trajs, 'S': S, 'F': F, 'form': rng.choice(['loa', 'loa', 'obj']),
               'alpha': akind + '+empty', 'mal': None}
    for _ in range(G.budget(20) if tier == 'quick' else 1500):     # long excursions over 6..12 labels: loops that interleave (x..y..x..z..y)
        labs, akind = G.alphabet(rng, k=rng.randint(6, 12))
        trajs = [G.traj(rng, labs, rng.randint(50, 120), sticky=0.1) for _ in range(rng.choice([1, 2]))]
        present = sorted({v for t in trajs for v in t})
        if len(present) < 4:
            continue
        yield {'k': 'paths', 'trajs': trajs, 'S': [present[0]], 'F': [present[-1]], 'form': rng.choice(['loa', 'lol', 'arr1'] if len(trajs) == 1 else ['loa', 'lol']),
               'alpha': akind + '+long-excursions', 'mal': None}
    for _ in range(G.budget(12) if tier == 'quick' else 300):      # narrow integer arrays and basin labels outside that type's range (absent: rejected)
        base = rng.choice([0, 1])
        labs = list(range(base, base + rng.randint(3, 5)))
        trajs = [G.traj(rng, labs, rng.randint(20, 60), sticky=0.5) + labs]
        dt = rng.choice(['uint8', 'int8', 'int16'])
        far = {'uint8': [256 + labs[1], -255 + labs[1], 258], 'int8': [256 + labs[0], -256 + labs[2], 128 + labs[1] + 128], 'int16': [65536 + labs[1], -65536 + labs[2]]}[dt]
        S, F = [labs[0]], [labs[-1]]
        (S if rng.random() < 0.5 else F).append(rng.choice(far))
        yield {'k': rng.choice(['wt', 'paths']), 'trajs': trajs, 'S': S, 'F': F, 'form': 'loa', 'alpha': 'narrow-absent', 'mal': 'absent', 'dtypes': [dt]}
    for _ in range(G.budget(6) if tier == 'quick' else 150):       # 40..60 sparsely labelled states, short trajectories, basins of ~20 labels
        k = rng.randint(40, 60)
        step = rng.choice([100, 37, 1000])
        base = rng.choice([0, -2000, 5])
        labs = [base + step * i for i in range(k)]
        trajs = [G.traj(rng, labs, rng.randint(60, 100), sticky=0.3) for _ in range(rng.choice([1, 2, 3]))]
        present = sorted({v for t in trajs for v in t})
        if len(present) < 30:
            continue
        pool = present[:]
        rng.shuffle(pool)
        a = rng.randint(14, min(25, len(pool) // 2))
        yield {'k': rng.choice(['wt', 'paths']), 'trajs': trajs, 'S': pool[:a], 'F': pool[a:a + rng.randint(14, min(25, len(pool) - a))],
               'form': rng.choice(['loa', 'lol', 'obj']), 'alpha': 'sparse-big-basins', 'mal': None}
    for _ in range(G.budget(10) if tier == 'quick' else 150):      # unusual sizes (many trajectories / frames / states)
        trajs, tag = G.size_classes(rng, sticky=0.7)
        present = sorted({v for t in trajs for v in t})
        if len(present) < 2:
            continue
        S, F = [present[0]] + ([present[len(present) // 3]] if len(present) > 4 else []), [present[-1]] + ([present[-2]] if len(present) > 70 else [])
        if tag == 'many-states' and rng.random() < 0.6:       # large basins (20+ labels each) of a sparse alphabet
            pool = present[:]
            rng.shuffle(pool)
            S, F = pool[:rng.randint(14, 30)], pool[30:30 + rng.randint(14, 30)]
        yield {'k': 'wt' if tag == 'long' else rng.choice(['wt', 'paths']), 'trajs': trajs, 'S': S, 'F': F, 'form': rng.choice(['loa', 'obj']),
               'alpha': 'size-' + tag, 'mal': None}
    if tier == 'thorough':
        labs = [0, 1, 2, 3]
        subsets = [list(c) for r in range(1, 4) for c in itertools.combinations(labs, r)]
        for t in G.all_trajs(labs, 7, minlen=2):
            present = set(t)
            for S in subsets:
                if not set(S) <= present:
                    continue
                for F in subsets:
                    if set(F) & set(S) or not set(F) <= present:
                        continue
                    yield {'k': 'paths', 'trajs': [t], 'S': S, 'F': F, 'form': 'arr1', 'alpha': 'enum', 'mal': None}
                    yield {'k': 'wt', 'trajs': [t], 'S': S, 'F': F, 'form': 'arr1', 'alpha': 'enum', 'mal': None}
        yield 'EXHAUSTIVE'


def gen(rng, tier):
    return G.with_decoys(rng, G.with_layouts(rng, _gen0(rng, tier), p_alt=0.12, p_lumped=0.1))


def corpus():
    return [
        {'k': 'wt', 'trajs': [[1, 2, 3, 1, 2], [2, 2, 3, 1, 2, 2, 3]], 'S': [1], 'F': [3], 'form': 'loa', 'alpha': 'corpus', 'mal': None},
        {'k': 'paths', 'trajs': [[1, 2, 3, 4, 2, 5, 4, 3, 6]], 'S': [1], 'F': [6], 'form': 'arr1', 'alpha': 'corpus', 'mal': None},
        {'k': 'paths', 'trajs': [[1, 2, 1, 3, 2, 4, 1, 1, 4], [4, 1, 2, 4]], 'S': [1], 'F': [4], 'form': 'loa', 'alpha': 'corpus', 'mal': None},
        {'k': 'wt', 'trajs': [[0, 1, 2, 0, 2]], 'S': [0, 1], 'F': [1, 2], 'form': 'arr1', 'alpha': 'corpus', 'mal': 'overlap'},
    ]


def shrink(case):
    trajs = case['trajs']
    if len(trajs) > 1 and case['form'] not in ('list', 'arr1'):
        for k in range(len(trajs)):
            c = dict(case)
            c['trajs'] = trajs[:k] + trajs[k + 1:]
            yield c
    if case['form'] != 'arr2':
        for k, t in enumerate(trajs):
            if len(t) > 1:
                for cut in (t[:len(t) // 2], t[len(t) // 2:], t[:-1], t[1:]):
                    c = dict(case)
                    c['trajs'] = trajs[:k] + [cut] + trajs[k + 1:]
                    yield c


def impl(case):
    import msmhelper as mh
    from implutil import build
    data = build(case['form'], case['trajs'], case.get('dtypes'), case.get('layout'))
    if case.get('decoy'):
        from implutil import reused_container
        alt = reused_container(case['form'], case['decoy'], case['trajs'], case.get('dtypes'), lambda c: mh.md.estimate_waiting_times(c, case['S'], case['F']))
        data = data if alt is None else alt
    if case['form'] == 'obj' or case.get('layout') == 'lumped':
        # the same object went through the OTHER analysis (and a re-estimate) before
        for pre in (mh.md.estimate_paths, mh.md.estimate_waiting_times):
            try:
                pre(data, case['S'], case['F'])
            except Exception:  # noqa
                pass
    if case['k'] == 'wt':
        r = mh.md.estimate_waiting_times(data, case['S'], case['F'])
        return {'ok': [int(v) for v in r]}
    d = mh.md.estimate_paths(data, case['S'], case['F'])
    return {'ok': [[[int(x) for x in k], [int(v) for v in vs]] for k, vs in d.items()]}


def requests(case):
    e = 601 if case['k'] == 'wt' else 602
    return [[e] + C.enested(case['trajs']) + C.eZs(case['S']) + C.eZs(case['F'])]


def _dict(rd):
    return rd.list(lambda: [rd.Zs(), rd.Zs()])


def _canon(kind, v):
    if kind == 'wt' or v[0] == 'err':
        return v
    return ('ok', sorted(v[1]))


def judge(case, ibc, answers):
    probs = []
    rd = C.Reader(answers[0])
    if case['k'] == 'wt':
        model, spec = rd.res(rd.Zs), rd.res(rd.Zs)
    else:
        model, spec = rd.res(lambda: _dict(rd)), rd.res(lambda: _dict(rd))
    model, spec = _canon(case['k'], model), _canon(case['k'], spec)
    if model != spec:
        probs.append({'kind': 'model-vs-spec', 'cfg': '-', 'what': 'model %s spec %s' % (
            C.short(model, 150), C.short(spec, 150)), 'finding': None})
    for cfg, r in ibc.items():
        got = ('err', r['err']) if 'err' in r else ('ok', r['ok'])
        got = _canon(case['k'], got)
        if got != spec:
            probs.append({'kind': 'impl-vs-spec', 'cfg': cfg, 'finding': None,
                          'what': '%s gave %s, reference extraction gives %s' % (
                              case['k'], C.short(got, 200), C.short(spec, 200))})
    return probs


def nontrivial(case, ibc):
    r = next(iter(ibc.values()))
    if 'err' in r:
        return case['mal'] is not None
    outside = any(v not in case['S'] and v not in case['F'] for t in case['trajs'] for v in t)
    return len(r['ok']) >= 1 and outside


def describe(case, ibc):
    r = next(iter(ibc.values()))
    return ['call:' + case['k'], 'form:' + case['form'] + ('/' + case['layout'] if case.get('layout') else ''), 'alphabet:' + case['alpha'],
            'ntraj:%d' % len(case['trajs']), 'malformed:%s' % case['mal'],
            'outcome:' + ('err-' + r['err'] if 'err' in r else ('events' if r['ok'] else 'none'))]
