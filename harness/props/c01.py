# -*- coding: utf-8 -*-
"""C01 - estimate_markov_model = row-normalised lagged transition counts."""
import itertools
from fractions import Fraction

import common as C
import gen as G

PROP = 'C01'
THEOREMS = ['pairs_spec_thm', 'pairs_length_thm', 'count_matrix_spec_thm', 'ctor_branches_agree',
            'emm_entry', 'no_cross_boundary', 'counted_pairs_are_lagged',
            'short_traj_contributes_nothing', 'emm_fun_eq_method', 'fast_counts_are_label_counts_thm']
CONFIGS = [dict(jit=True), dict(jit=False)]
RULE = ('random trajectory sets (1-6 trajectories, lengths incl. 1 and below the lag, all label '
        'alphabets, uniform dtypes int8..int64, container forms) x lag 1..12; thorough adds all sets '
        'of <= 2 trajectories over 3 labels with total length <= 8 x lag 1..4. Compared: states and '
        'every T[i,j] within 1e-12 of the exact C_ij/S_i of the model, function and method. '
        'Non-trivial: >= 2 non-zero rows in C and (a trajectory not longer than the lag or >= 2 trajectories).'
        ' Added classes: narrow integer arrays (runs > 127/255 frames, > 128 states over arrays of different widths/signedness), (N,1) arrays, zero-length member trajectories, > 256 trajectories, one trajectory of > 2^16 frames, Fortran/transposed/strided memory layouts, lag times given as NumPy integer scalars; after the estimate the returned (T, states) are overwritten and the estimate repeated on the same object.'
        ' Later: state counts at the int8/uint8 boundaries (127..130, 255..258), a container that held other trajectories in an earlier call (changed in place), objects that served coring / reads before, many snippets of lag+1 frames, > 100000 frames in several trajectories.'
        ' Fifth/sixth batch: unsigned NumPy lag times with > 256 frames, alphabets that imitate an index alphabet (same max / min / sum), balanced ragged lengths, int8 from a negative base over > 128 states, spreads beyond 2^16, single-frame sets.')
TRUSTED = ['float division within 1e-12 of the exact quotient (measured on every case, not proved)',
           'numba typed-list conversion is exercised, not modelled']
ASSUMPTIONS = ['labels within +-2^29', 'zero-length trajectories only as typed integer arrays (a python [] becomes a float array and is rejected by the library)']
BATCH = 5000


def _gen0(rng, tier):
    n = G.budget(500) if tier == 'quick' else 15000
    for _ in range(n):
        labs, akind = G.alphabet(rng)
        lag = rng.choice([1, 1, 2, 2, 3, 4, 5, 7, 12])
        form = rng.choice(['loa', 'loa', 'lol', 'arr2', 'arr1', 'list', 'obj', 'toa'])
        trajs = G.trajset(rng, labs, lag=lag, big=True, equal=(form == 'arr2'))
        if form in ('list', 'arr1'):
            trajs = trajs[:1]
        dts = [d for d in ('int8', 'int16', 'int32', 'int64') if G.fits(trajs, d)]
        yield {'trajs': trajs, 'lag': lag, 'form': form, 'dtype': rng.choice(dts), 'alpha': akind}
    for _ in range(G.budget(24) if tier == 'quick' else 600):      # narrow integer types, long runs, > 128 states
        trajs, dtypes, tag = G.narrow_set(rng)
        yield {'trajs': trajs, 'lag': rng.choice([1, 2, 3]), 'form': 'loa', 'dtype': dtypes[0], 'dtypes': dtypes, 'alpha': tag}
    for _ in range(G.budget(10) if tier == 'quick' else 200):      # N single-frame trajectories as an (N,1) array
        labs, akind = G.alphabet(rng, k=rng.randint(2, 4))
        trajs = [[rng.choice(labs)] for _ in range(rng.randint(2, 9))]
        yield {'trajs': trajs, 'lag': 1, 'form': rng.choice(['arr2', 'loa', 'lol']), 'dtype': 'int64', 'alpha': 'single-frames'}
    for _ in range(G.budget(40) if tier == 'quick' else 1000):      # zero-length trajectories inside the set
        labs, akind = G.alphabet(rng)
        lag = rng.choice([1, 1, 2, 3, 5])
        trajs = G.trajset(rng, labs, lag=lag, big=False)
        trajs = G.insert_empties(trajs, G.empty_positions(rng, len(trajs)))
        dts = [d for d in ('int8', 'int16', 'int32', 'int64') if G.fits(trajs, d)]
        yield {'trajs': trajs, 'lag': lag, 'form': rng.choice(['loa', 'loa', 'toa', 'obj']), 'dtype': rng.choice(dts), 'alpha': akind + '+empty'}
    for _ in range(G.budget(6) if tier == 'quick' else 60):         # several hundred trajectories
        labs, akind = G.alphabet(rng, k=rng.randint(2, 4))
        lag = rng.choice([1, 2, 3, 4, 7])
        yield {'trajs': G.many_short(rng, labs, lag), 'lag': lag, 'form': rng.choice(['loa', 'lol', 'obj']), 'dtype': 'int64', 'alpha': akind + '+many'}
    for _ in range(G.budget(10) if tier == 'quick' else 300):        # many snippets of exactly lag + 1 (and lag, lag + 2) frames
        labs, akind = G.alphabet(rng, k=rng.randint(2, 4))
        lag = rng.choice([1, 2, 3, 5])
        trajs = [[rng.choice(labs) for _ in range(lag + rng.choice([1, 1, 1, 0, 2]))] for _ in range(rng.randint(3, 40))]
        trajs.insert(rng.randrange(len(trajs)), G.traj(rng, labs, rng.randint(20, 60)))
        yield {'trajs': trajs, 'lag': lag, 'form': rng.choice(['loa', 'lol', 'obj']), 'dtype': 'int64', 'alpha': akind + '+snippets'}
    for _ in range(1 if tier == 'quick' else 3):                     # several trajectories, more than 100000 frames in total
        labs, akind = G.alphabet(rng, k=rng.randint(2, 3))
        yield {'trajs': [G.traj(rng, labs, rng.randint(50000, 60000), sticky=0.5) for _ in range(rng.choice([2, 4]))], 'lag': rng.choice([1, 2]),
               'form': 'loa', 'dtype': 'int64', 'alpha': akind + '+big-set'}
    for _ in range(1 if tier == 'quick' else 4):                     # a trajectory of more than 2^16 frames
        labs, akind = G.alphabet(rng, k=rng.randint(2, 4))
        yield {'trajs': [G.traj(rng, labs, rng.randint(66000, 72000), sticky=0.6), G.traj(rng, labs, 5)], 'lag': rng.choice([2, 3, 7]),
               'form': 'loa', 'dtype': 'int64', 'alpha': akind + '+long'}
    if tier == 'thorough':
        labs = [0, 1, 2]
        for total in range(1, 9):
            for seq in itertools.product(labs, repeat=total):
                for cut in range(0, total):
                    trajs = [list(seq)] if cut == 0 else [list(seq[:cut]), list(seq[cut:])]
                    for lag in (1, 2, 3, 4):
                        yield {'trajs': trajs, 'lag': lag, 'form': 'loa', 'dtype': 'int64', 'alpha': 'enum'}
        yield 'EXHAUSTIVE'


def gen(rng, tier):
    return G.with_decoys(rng, G.with_layouts(rng, _gen0(rng, tier), p_alt=0.15))


def corpus():
    return [
        {'trajs': [[7, -2, 7, 7], [-2], [5, 7]], 'lag': 2, 'form': 'loa', 'dtype': 'int64', 'alpha': 'corpus'},
        {'trajs': [[1, 2, 1, 2, 2], [2, 1]], 'lag': 1, 'form': 'lol', 'dtype': 'int64', 'alpha': 'corpus'},
        {'trajs': [[0, 1], [1, 0]], 'lag': 1, 'form': 'arr2', 'dtype': 'int8', 'alpha': 'corpus'},
        {'trajs': [[3, 3, 3]], 'lag': 5, 'form': 'arr1', 'dtype': 'int16', 'alpha': 'corpus'},
    ]


def shrink(case):
    trajs = case['trajs']
    if len(trajs) > 1 and case['form'] not in ('list', 'arr1'):
        for k in range(len(trajs)):
            c = dict(case)
            c['trajs'] = trajs[:k] + trajs[k + 1:]
            yield c
    if case['form'] != 'arr2':
        for k, t in enumerate(trajs):
            if len(t) > 1:
                for cut in (t[:len(t) // 2], t[len(t) // 2:], t[:-1], t[1:]):
                    c = dict(case)
                    c['trajs'] = trajs[:k] + [cut] + trajs[k + 1:]
                    yield c
    if case['lag'] > 1:
        c = dict(case)
        c['lag'] = case['lag'] - 1
        yield c


def impl(case):
    import msmhelper as mh
    from implutil import build, canon
    data = build(case['form'], case['trajs'], case.get('dtypes') or [case['dtype']], case.get('layout'))
    if case.get('decoy'):
        from implutil import reused_container
        alt = reused_container(case['form'], case['decoy'], case['trajs'], case.get('dtypes') or [case['dtype']],
                                lambda c: mh.msm.estimate_markov_model(c, case['lag']))
        data = data if alt is None else alt
    import numpy as np
    lag = np.dtype(case['lagtype']).type(case['lag']) if case.get('lagtype') else case['lag']
    T, st = mh.msm.estimate_markov_model(data, lag)
    data2 = build(case['form'], case['trajs'], case.get('dtypes') or [case['dtype']], case.get('layout'))
    obj = mh.StateTraj(data2)
    # the object served other analyses before (coring with windows 2 and 3, reading its trajectories)
    for w in (2, 3):
        try:
            mh.md.dynamical_coring(obj, w)
        except Exception:  # noqa
            pass
    _ = obj.trajs, obj.index_trajs
    T2, st2 = obj.estimate_markov_model(lag)
    out = {'T': canon(T), 'st': canon(st), 'T2': canon(T2), 'st2': canon(st2)}
    # the caller owns what was returned: overwriting it must not reach a later estimate on the same object
    import numpy as np
    if isinstance(T2, np.ndarray) and isinstance(st2, np.ndarray) and st2.size:
        T2[...] = -7.0
        st2 += 1
        T3, st3 = obj.estimate_markov_model(case['lag'])
        T4, st4 = mh.msm.estimate_markov_model(obj, case['lag'])
        out['fresh'] = canon(T3) == out['T2'] and canon(st3) == out['st2'] and canon(T4) == out['T2'] and canon(st4) == out['st2']
    return out


def requests(case):
    return [[C.emm_entry(case['trajs'])] + C.enested(case['trajs']) + [case['lag']]]


def decode(ans):
    rd = C.Reader(ans)
    model = rd.res(lambda: (rd.Qmat(), rd.Zs()))
    st = rd.Zs()
    Cm = rd.list(rd.Zs)
    return model, st, Cm


def expected_T(Cm):
    out = []
    for row in Cm:
        s = sum(row)
        out.append([Fraction(0) if s == 0 else Fraction(c, s) for c in row])
    return out


def judge(case, ibc, answers):
    probs = []
    model, st, Cm = decode(answers[0])
    spec_T = expected_T(Cm)
    if model != ('ok', (spec_T, st)):
        probs.append({'kind': 'model-vs-spec', 'cfg': '-', 'what': 'model %s spec %s' % (
            C.short(model, 150), C.short((spec_T, st), 150)), 'finding': None})
    exp = [float(x).hex() for row in spec_T for x in row]
    n = len(st)
    for cfg, r in ibc.items():
        def P(kind, what, finding=None):
            probs.append({'kind': kind, 'cfg': cfg, 'what': what, 'finding': finding})
        if 'err' in r:
            P('impl-vs-spec', 'estimate_markov_model raised %s: %s' % (r['err'], r.get('msg')))
            continue
        for tag, T, s in (('function', r['T'], r['st']), ('method', r['T2'], r['st2'])):
            if s['v'] != st:
                P('impl-vs-spec', '%s: states %s, expected ascending distinct labels %s' % (tag, s['v'], st))
            elif T['shape'] != [n, n]:
                P('impl-vs-spec', '%s: shape %s' % (tag, T['shape']))
            elif not C.hexes_close(T['v'], spec_T):
                bad = [(k // n, k % n) for k in range(n * n) if not C.hexes_close([T['v'][k]], [spec_T[k // n][k % n]])][:3]
                P('impl-vs-spec', '%s: T differs from C_ij/S_i at %s: got %s expected %s' % (
                    tag, bad, [float.fromhex(T['v'][i * n + j]) for i, j in bad],
                    [str(spec_T[i][j]) for i, j in bad]))
        if r['T'] != r['T2'] or r['st'] != r['st2']:
            P('impl-vs-spec', 'function API and StateTraj method disagree')
        if r.get('fresh') is False:
            P('impl-vs-spec', 'overwriting the returned (T, states) changes a later estimate on the same StateTraj object')
    return probs


def nontrivial(case, ibc):
    trajs, lag = case['trajs'], case['lag']
    r = next(iter(ibc.values()))
    if 'err' in r:
        return False
    n = r['T']['shape'][0]
    v = r['T']['v']
    nz = sum(1 for i in range(n) if any(float.fromhex(x) != 0 for x in v[i * n:(i + 1) * n]))
    return nz >= 2 and (len(trajs) >= 2 or any(len(t) <= lag for t in trajs))


def describe(case, ibc):
    r = next(iter(ibc.values()))
    return ['form:' + case['form'] + ('/' + case['layout'] if case.get('layout') else ''), 'dtype:' + case['dtype'], 'alphabet:' + case['alpha'],
            'ntraj:%d' % len(case['trajs']), 'lag:%d' % case['lag'],
            'short:%s' % any(len(t) <= case['lag'] for t in case['trajs']),
            'outcome:' + ('err-' + r['err'] if 'err' in r else 'ok')]
