# -*- coding: utf-8 -*-
"""C05 - dynamical coring."""
import common as C
import gen as G

PROP = 'C05'
THEOREMS = ['single_eq_ref', 'length_preserved', 'labels_subset', 'runs_ge_result',
            'shortcut_sound_thm', 'stage_modes_agree', 'iterative_eq_successive', 'per_trajectory',
            'kernel_result_runs', 'idempotent', 'error_iff_no_core', 'no_core_means_no_window',
            'wrapper_spec', 'runs_geb_decides', 'fast_coring_is_wrapper_thm']
CONFIGS = [dict(jit=True), dict(jit=False)]
RULE = ('quick: all trajectories over 3 labels up to length 6 x tau 1..4 x both modes, plus random '
        'multi-trajectory sets (different lengths, all alphabets incl. label -1, tau <= 12, tau <= 0); '
        'thorough: all trajectories over 3 labels up to length 10 x tau 1..5 x both modes (the '
        "property's own quantifier) plus 20k random sets. Compared: cored trajectories / error kind "
        'against the reference rule; on the implementation output also run lengths >= tau and '
        'idempotence. Non-trivial: result differs from the input or an error is raised.'
        ' Added classes: int8/uint8/int16 arrays with runs longer than 127/255 frames, repeated coring calls on one StateTraj object, > 256 trajectories / > 2^16 frames / > 64 states / zero-length members, other memory layouts, NumPy integer lag times.'
        ' Later: direct coring with a smaller window before iterative coring on the same object, the mode flag as NumPy bool / integer, arrays of different signedness with > 128 states, reused containers.')
TRUSTED = ['numba typed List / np.unique re-wrapping of the result is exercised, not modelled']
ASSUMPTIONS = ['labels within +-2^29', 'every trajectory has at least one frame']
BATCH = 6000


def _gen0(rng, tier):
    maxlen, taus = (6, (1, 2, 3, 4)) if tier == 'quick' else (10, (1, 2, 3, 4, 5))
    for t in G.all_trajs([0, 1, 2], maxlen):
        for tau in taus:
            for it in (True, False):
                yield {'trajs': [t], 'lag': tau, 'iter': it, 'form': 'arr1', 'alpha': 'enum'}
    yield 'EXHAUSTIVE'
    n = G.budget(400) if tier == 'quick' else 20000
    for _ in range(n):
        labs, akind = G.alphabet(rng, k=rng.randint(2, 4))
        lag = rng.choice([1, 2, 2, 3, 3, 4, 5, 7, 12, 0, -2])
        form = rng.choice(['loa', 'loa', 'lol', 'arr2', 'arr1', 'list', 'obj'])
        trajs = [G.traj(rng, labs, G.length(rng, max(lag, 1)), sticky=rng.choice([0.6, 0.8, 0.9, 0.95]))
                 for _ in range(rng.choice([1, 2, 2, 3, 4]))]
        if form == 'arr2':
            n0 = len(trajs[0])
            trajs = [G.traj(rng, labs, n0, sticky=0.85) for _ in trajs]
        if form in ('list', 'arr1'):
            trajs = trajs[:1]
        yield {'trajs': trajs, 'lag': lag, 'iter': rng.random() < 0.6, 'form': form, 'alpha': akind}
    for _ in range(G.budget(40) if tier == 'quick' else 1500):     # narrow integer types with runs longer than 127 / 255 frames
        trajs, dtypes, tag = G.narrow_set(rng, 'long-int8')
        yield {'trajs': trajs, 'lag': rng.choice([2, 2, 3, 5, 9]), 'iter': rng.random() < 0.5, 'form': 'loa', 'alpha': tag, 'dtypes': dtypes}
    for _ in range(G.budget(12) if tier == 'quick' else 300):      # one object: direct coring with a smaller window first, then iterative
        labs, akind = G.alphabet(rng, k=rng.randint(2, 3))
        trajs = [G.traj(rng, labs, rng.randint(12, 40), sticky=0.7) for _ in range(rng.choice([1, 2]))]
        t0 = rng.choice([2, 3, 4])
        yield {'trajs': trajs, 'lag': t0 + rng.choice([1, 2]), 'iter': True, 'form': 'obj', 'alpha': akind, 'pre': [[t0, False]]}
    for _ in range(G.budget(4) if tier == 'quick' else 100):       # arrays of different widths / signedness with > 128 states
        trajs, dtypes, tag = G.narrow_set(rng, rng.choice(['many-mixed', 'many-unsigned', 'narrow-many', 'narrow-many', 'full-range']))
        yield {'trajs': trajs, 'lag': rng.choice([1, 2]), 'iter': rng.random() < 0.5, 'form': 'loa', 'alpha': tag, 'dtypes': dtypes}
    for _ in range(G.budget(10) if tier == 'quick' else 150):      # unusual sizes (many trajectories / frames / states, empty members)
        trajs, tag = G.size_classes(rng, lag=3, sticky=0.9)
        yield {'trajs': trajs, 'lag': rng.choice([2, 3, 5]), 'iter': rng.random() < 0.5, 'form': rng.choice(['loa', 'obj']), 'alpha': 'size-' + tag}
    for _ in range(G.budget(30) if tier == 'quick' else 1000):     # the same StateTraj object cored repeatedly
        labs, akind = G.alphabet(rng, k=rng.randint(2, 4))
        trajs = [G.traj(rng, labs, rng.randint(8, 40), sticky=0.8) for _ in range(rng.choice([1, 2]))]
        yield {'trajs': trajs, 'lag': rng.choice([2, 3, 5]), 'iter': rng.random() < 0.5, 'form': 'obj', 'alpha': akind,
               'pre': [[rng.choice([1, 2, 3, 5, 7]), rng.random() < 0.5] for _ in range(rng.randint(1, 3))]}


def gen(rng, tier):
    return G.with_decoys(rng, G.with_layouts(rng, _gen0(rng, tier), p_alt=0.1))


def corpus():
    return [
        {'trajs': [[-1, -1, -1, 0, 0, 0]], 'lag': 2, 'iter': True, 'form': 'arr1', 'alpha': 'corpus'},
        {'trajs': [[0, 0, 1, 1, 0, 0, 0, 1], [1, 1, 0, 0, 0]], 'lag': 2, 'iter': True, 'form': 'loa', 'alpha': 'corpus'},
        {'trajs': [[0, 0, 1, 1, 0, 0, 0]], 'lag': 3, 'iter': True, 'form': 'arr1', 'alpha': 'corpus'},
        {'trajs': [[0, 1, 0, 1, 1]], 'lag': 2, 'iter': False, 'form': 'arr1', 'alpha': 'corpus'},
        {'trajs': [[7, 3, 7, 3, 7, 7, 7]], 'lag': 3, 'iter': True, 'form': 'list', 'alpha': 'corpus'},
        {'trajs': [[1, 1, 1, 2, 1, 2, 2, 2, 1, 1], [5, 5, 5, 7]], 'lag': 3, 'iter': True, 'form': 'loa', 'alpha': 'corpus'},
    ]


def shrink(case):
    trajs = case['trajs']
    if len(trajs) > 1 and case['form'] not in ('list', 'arr1'):
        for k in range(len(trajs)):
            c = dict(case)
            c['trajs'] = trajs[:k] + trajs[k + 1:]
            yield c
    if case['form'] != 'arr2':
        for k, t in enumerate(trajs):
            if len(t) > 1:
                for cut in (t[:len(t) // 2], t[len(t) // 2:], t[:-1], t[1:]):
                    c = dict(case)
                    c['trajs'] = trajs[:k] + [cut] + trajs[k + 1:]
                    yield c
    if case['lag'] > 2:
        c = dict(case)
        c['lag'] = case['lag'] - 1
        yield c


def impl(case):
    import msmhelper as mh
    from implutil import build, tolists
    data = build(case['form'], case['trajs'], case.get('dtypes'), case.get('layout'))
    if case.get('decoy'):
        from implutil import reused_container
        alt = reused_container(case['form'], case['decoy'], case['trajs'], case.get('dtypes'), lambda c: mh.md.dynamical_coring(c, case['lag'], iterative=case['iter']))
        data = data if alt is None else alt
    for tau, it in case.get('pre', []):       # earlier calls on the SAME object must not change later results
        try:
            mh.md.dynamical_coring(data, tau, iterative=it)
        except Exception:  # noqa
            pass
    lag = __import__('numpy').dtype(case['lagtype']).type(case['lag']) if case.get('lagtype') else case['lag']
    import numpy as _np
    itflag = {None: case['iter'], 'np': _np.bool_(case['iter']), 'int': int(case['iter'])}[case.get('itertype')]
    r = mh.md.dynamical_coring(data, lag, iterative=itflag)
    out = tolists(r.trajs)
    res = {'ok': out, 'ntrajs': int(r.ntrajs)}
    # coring the cored result again
    try:
        r2 = mh.md.dynamical_coring([__import__('numpy').array(t) for t in out], case['lag'],
                                    iterative=case['iter'])
        res['again'] = tolists(r2.trajs)
    except Exception as exc:  # noqa
        res['again'] = 'err:' + type(exc).__name__
    return res


def requests(case):
    return [[501 if sum(len(t) for t in case['trajs']) <= 4000 else 503] + C.enested(case['trajs']) + [case['lag']] + C.ebool(case['iter'])]


def runs_ok(t, m):
    k = 0
    while k < len(t):
        j = k
        while j < len(t) and t[j] == t[k]:
            j += 1
        if j - k < m:
            return False
        k = j
    return True


def classify(case, r, spec):
    """known-finding matchers (narrow)"""
    if 'err' in r and spec[0] == 'ok':
        if r['err'] == 'LagtimeError' and any(-1 in t for t in case['trajs']):
            return 'coring-sentinel-minus-one'
        if (r['err'] == 'ValueError' and 'inhomogeneous' in r.get('msg', '')
                and len({len(t) for t in case['trajs']}) > 1):
            return 'coring-ragged-typed-list'
    return None


def judge(case, ibc, answers):
    probs = []
    rd = C.Reader(answers[0])
    model = rd.res(rd.nested)
    spec = rd.res(rd.nested)
    if model != spec:
        probs.append({'kind': 'model-vs-spec', 'cfg': '-', 'what': 'model %s spec %s' % (
            C.short(model, 150), C.short(spec, 150)), 'finding': None})
    for cfg, r in ibc.items():
        def P(kind, what, finding=None):
            probs.append({'kind': kind, 'cfg': cfg, 'what': what, 'finding': finding})
        got = ('err', r['err']) if 'err' in r else ('ok', r['ok'])
        if got != spec:
            P('impl-vs-spec', 'dynamical_coring gave %s, reference rule gives %s' % (
                C.short(got, 160), C.short(spec, 160)), classify(case, r, spec))
            continue
        if got[0] == 'ok':
            if r['ntrajs'] != len(case['trajs']):
                P('impl-vs-spec', 'number of trajectories changed')
            # run lengths >= tau need no separate test here: the output equals the reference rule, for which
            # runs_ge_result / runs_geb_decides are theorems; the executable test is applied to a sample
            if case['lag'] >= 2 and case['alpha'] == 'corpus' and \
                    not C.Reader(C.mrun([[502] + C.enested(r['ok']) + [case['lag']]])[0]).bool():
                P('impl-property', 'a maximal run of the result is shorter than tau: %s' % C.short(r['ok'], 120))
            if r['again'] != r['ok']:
                f = None
                if isinstance(r['again'], str) and 'ValueError' in r['again'] and \
                        len({len(t) for t in case['trajs']}) > 1:
                    f = 'coring-ragged-typed-list'
                P('impl-property', 'coring the cored result gives %s' % C.short(r['again'], 120), f)
    return probs


def nontrivial(case, ibc):
    r = next(iter(ibc.values()))
    return 'err' in r or r.get('ok') != case['trajs']


def describe(case, ibc):
    r = next(iter(ibc.values()))
    return ['form:' + case['form'] + ('/' + case['layout'] if case.get('layout') else ''), 'alphabet:' + case['alpha'], 'ntraj:%d' % len(case['trajs']),
            'tau:%d' % case['lag'], 'iterative:%s' % case['iter'],
            'outcome:' + ('err-' + r['err'] if 'err' in r else ('changed' if r['ok'] != case['trajs'] else 'unchanged'))]
