# -*- coding: utf-8 -*-
"""C13 - compare_discretization = contingency-table formula."""
import itertools
from fractions import Fraction

import common as C
import gen as G

PROP = 'C13'
THEOREMS = ['model_eq_formula', 'frame_perm_invariant', 'sym_ge_dir', 'sym_swap', 'sim_01',
            'refine_dir_one', 'identical_is_one']
CONFIGS = [dict(jit=True), dict(jit=False), dict(jit=True, threads=3)]
CONFIGS_THOROUGH = [dict(jit=True), dict(jit=False), dict(jit=True, threads=3), dict(jit=True, threads=5), dict(jit=True, threads=2)]
RULE = ('random pairs of labelings of the same frames (2..12 states each, arbitrary integer labels, '
        'split into trajectories differently on both sides, N from 2 to 3000; thorough also N = 1e5) '
        'and both methods, plus a malformed stream (unequal frame counts, single-state labelings, '
        'unknown method); thorough adds all pairs of labelings of <= 5 frames over 3x3 states. '
        'Compared: |value - exact rational| <= 1e-10, error kinds. Non-trivial: neither labeling '
        'refines the other.'
        ' Added classes: int8/uint8 index-like labelings with 10..12 x 12 states, the same StateTraj objects compared repeatedly and in swapped roles, zero-length pieces in the splittings, strided views, frame counts at and around powers of two, 3 worker threads in the quick tier (5 and 2 in the thorough tier).'
        " Later: one contingency cell with > 46341 frames, both labelings single-state and equal (rejected), int8/int16 gapped labelings spanning more than the type's maximum."
        ' Fifth/sixth batch: labelings handed over as LumpedStateTraj, skewed populations.')
TRUSTED = ['float summation order of the prange reduction (bounded by the 1e-10 tolerance)']
ASSUMPTIONS = ['labels within +-2^29']
BATCH = 3000
TOL = Fraction(1, 10**10)


def _split(rng, flat):
    """split a flat list into 1..3 trajectories"""
    n = len(flat)
    k = rng.choice([1, 1, 2, 3])
    cuts = sorted(rng.sample(range(1, n), min(k - 1, n - 1))) if n > 1 else []
    out, a = [], 0
    for c in cuts + [n]:
        out.append(flat[a:c])
        a = c
    return [t for t in out if t]


def gen(rng, tier):
    n = G.budget(500) if tier == 'quick' else 5000
    for it in range(n):
        k1, k2 = rng.randint(2, 12), rng.randint(2, 12)
        l1, a1 = G.alphabet(rng, k=k1)
        l2, a2 = G.alphabet(rng, k=k2)
        N = rng.choice([2, 3, 5, 8, 20, 50, 200, 1000, 3000, 256, 1024, 4096, 8192, 4095, 4097])
        if tier == 'thorough' and it < 12:
            N = 100000
        style = rng.choice(['indep', 'refine', 'coarse', 'noisy', 'same'])
        f1 = G.traj(rng, l1, N)
        if style == 'indep':
            f2 = G.traj(rng, l2, N)
        elif style == 'same':
            m = {a: l2[i % k2] for i, a in enumerate(l1)} if k2 >= k1 else None
            f2 = [m[a] for a in f1] if m else G.traj(rng, l2, N)
        elif style == 'refine':   # second refines first
            f2 = [l2[(l1.index(a) * 2 + rng.randint(0, 1)) % k2] if k2 >= 2 * k1 else rng.choice(l2) for a in f1]
        elif style == 'coarse':
            f2 = [l2[l1.index(a) % max(1, k2 // 2)] for a in f1]
        else:
            f2 = [l2[l1.index(a) % k2] if rng.random() < 0.8 else rng.choice(l2) for a in f1]
        mal = None
        r = rng.random()
        method = rng.choice(['symmetric', 'directed'])
        if r < 0.04:
            f2 = f2[:-1] if len(f2) > 1 else f2 + f2
            mal = 'frames'
        elif r < 0.07:
            f2 = [f2[0]] * len(f2)
            mal = 'single'
        elif r < 0.09:        # BOTH labelings single-state (also identical ones): still rejected
            f1 = [f1[0]] * len(f1)
            f2 = list(f1) if rng.random() < 0.6 else [f2[0]] * len(f1)
            mal = 'single'
        elif r < 0.11:
            method = 'other'
            mal = 'method'
        case = {'t1': _split(rng, f1), 't2': _split(rng, f2), 'method': method, 'mal': mal, 'alpha': a1 + '/' + a2}
        r2 = rng.random()
        if r2 < 0.08:
            case['empties'] = [[rng.randint(0, 3) for _ in range(rng.randint(0, 2))], [rng.randint(0, 3) for _ in range(rng.randint(0, 2))]]
        elif r2 < 0.16:
            case['layout'] = 'alt'
        elif r2 < 0.28 and mal is None:
            # 'StateTraj like': a labeling handed over as the MACRO side of a LumpedStateTraj (more micro than macro states)
            case['aslumped'] = rng.choice([[1], [2], [1, 2]])
        yield case
    for _ in range(G.budget(24) if tier == 'quick' else 600):
        # strongly SKEWED populations: a dominant state against states of one to three frames in the other labeling
        # (population ratio far beyond 32 or 64), the rare frames placed at the first / last frame of the dominant state
        N = rng.choice([rng.randint(100, 400), rng.randint(400, 3000), 2 ** rng.randint(7, 11) + rng.choice([-1, 0, 1])])
        A, B, X, Y = 3, 8, 0, 5
        f1 = [A] * N
        for p_ in rng.sample(range(N), rng.randint(1, 3)):
            f1[p_] = B
        f2 = [X] * N
        idxA = [i for i, v in enumerate(f1) if v == A]
        rare = set(rng.sample(range(N), rng.randint(0, 2)))
        rare.add(idxA[-1] if rng.random() < 0.7 else idxA[0])
        for p_ in rare:
            f2[p_] = Y
        if rng.random() < 0.3:
            f2 = [v if rng.random() < 0.97 else 9 for v in f2]
        if rng.random() < 0.5:
            f1, f2 = f2, f1
        yield {'t1': _split(rng, f1), 't2': _split(rng, f2), 'method': rng.choice(['symmetric', 'directed']), 'mal': None, 'alpha': 'skewed'}
    for _ in range(1 if tier == 'quick' else 6):                   # one contingency cell with far more than 46341 frames
        N = rng.choice([60000, 100000])
        a, b = rng.sample([0, 1, 3, 7], 2)
        f1 = [a] * (N - N // 20) + [b] * (N // 20)
        style = rng.choice(['same', 'refine'])
        f2 = [v + 10 for v in f1] if style == 'same' else [v + 10 + (i % 2 if v == b else 0) for i, v in enumerate(f1)]
        yield {'t1': [f1[:N // 3], f1[N // 3:]], 't2': [f2], 'method': rng.choice(['symmetric', 'directed']), 'mal': None, 'alpha': 'dominant-cell'}
    for _ in range(G.budget(30) if tier == 'quick' else 300):      # narrow integer types, many index-like states
        k1, k2 = rng.choice([(11, 12), (12, 11), (12, 12), (12, 12), (10, 12)])
        base = rng.choice([0, 1])
        l1, l2 = list(range(base, base + k1)), list(range(base, base + k2))
        N = rng.choice([300, 600, 1500])
        f1 = G.traj(rng, l1, N, sticky=0.5) + l1
        f2 = [l2[(l1.index(x) + (rng.random() < 0.3)) % k2] for x in f1[:N]] + l2[:k1] if k2 >= k1 else G.traj(rng, l2, N, sticky=0.5) + (l2 + l2)[:k1]
        f2 = (f2 + l2)[:len(f1)]
        yield {'t1': [f1], 't2': [f2], 'method': rng.choice(['symmetric', 'directed']), 'mal': None, 'alpha': 'index-narrow',
               'dtypes': [rng.choice(['int8', 'uint8', 'int16']), rng.choice(['int8', 'int64'])]}
    for _ in range(G.budget(12) if tier == 'quick' else 200):      # int8 / int16 arrays with gapped labels spanning more than the type's maximum
        dt = rng.choice(['int8', 'int8', 'int16'])
        lo, hi = (-128, 127) if dt == 'int8' else (-32768, 32767)
        l1 = sorted(set([rng.randint(lo, lo + 30), rng.randint(hi - 30, hi)] + [rng.randint(lo, hi) for _ in range(rng.randint(1, 4))]))
        l2, _ = G.alphabet(rng, k=rng.randint(2, 5))
        N = rng.randint(30, 300)
        f1, f2 = G.traj(rng, l1, N) + l1, G.traj(rng, l2, N + len(l1))
        if len(set(f2)) < 2:
            continue
        yield {'t1': _split(rng, f1), 't2': _split(rng, f2), 'method': rng.choice(['symmetric', 'directed']), 'mal': None,
               'alpha': 'narrow-wide-span', 'dtypes': [dt, 'int64']}
    for _ in range(G.budget(20) if tier == 'quick' else 200):      # the SAME StateTraj objects compared repeatedly
        k1, k2 = rng.randint(2, 5), rng.randint(2, 5)
        l1, _ = G.alphabet(rng, k=k1)
        l2, _ = G.alphabet(rng, k=k2)
        N = rng.randint(10, 80)
        f1, f2 = G.traj(rng, l1, N) + l1[:2], G.traj(rng, l2, N) + l2[:2]
        yield {'t1': [f1], 't2': [f2], 'method': rng.choice(['symmetric', 'directed']), 'mal': None, 'alpha': 'objects', 'repeat': rng.randint(1, 3)}
    if tier == 'thorough':
        for N in range(2, 6):
            for f1 in itertools.product([0, 1, 2], repeat=N):
                if len(set(f1)) < 2:
                    continue
                for f2 in itertools.product([4, 6, 9], repeat=N):
                    if len(set(f2)) < 2:
                        continue
                    for m in ('symmetric', 'directed'):
                        yield {'t1': [list(f1)], 't2': [list(f2)], 'method': m, 'mal': None, 'alpha': 'enum'}
        yield 'EXHAUSTIVE'


def corpus():
    return [
        {'t1': [[0] * 10 + [1] * 10], 't2': [[0] * 7 + [1] * 3 + [2] * 10], 'method': 'directed', 'mal': None, 'alpha': 'corpus'},
        {'t1': [[0, 0, 1, 1, 2, 2, 2, 0]], 't2': [[5, 5, 5, 7], [7, 7, 5, 5]], 'method': 'symmetric', 'mal': None, 'alpha': 'corpus'},
        {'t1': [[1, 2, 1, 2, 1, 2]], 't2': [[1, 2, 1, 2, 1, 2], [3, 3, 4]], 'method': 'symmetric', 'mal': 'frames', 'alpha': 'corpus'},
    ]


def shrink(case):
    f1 = [v for t in case['t1'] for v in t]
    f2 = [v for t in case['t2'] for v in t]
    if len(f1) == len(f2) and len(f1) > 2:
        n = len(f1)
        for a, b in ((0, n // 2), (n // 2, n), (0, n - 1), (1, n)):
            c = dict(case)
            c['t1'], c['t2'] = [f1[a:b]], [f2[a:b]]
            yield c


def impl(case):
    import numpy as np
    import msmhelper as mh
    from implutil import DTYPES
    d1, d2 = (case.get('dtypes') or ['int64', 'int64'])
    t1 = [np.array(t, dtype=DTYPES[d1]) for t in case['t1']]
    t2 = [np.array(t, dtype=DTYPES[d2]) for t in case['t2']]
    if case.get('empties'):
        # zero-length pieces in one or both splittings; strided views of the frames
        e1, e2 = case['empties']
        for pos in sorted(e1):
            t1.insert(min(pos, len(t1)), np.array([], dtype=DTYPES[d1]))
        for pos in sorted(e2):
            t2.insert(min(pos, len(t2)), np.array([], dtype=DTYPES[d2]))
    if case.get('layout') == 'alt':
        def strided(a):
            buf = np.zeros(2 * len(a), dtype=a.dtype)
            buf[::2] = a
            return buf[::2]
        t1, t2 = [strided(a) for a in t1], [strided(a) for a in t2]
    if case.get('aslumped'):
        from implutil import refine
        if 1 in case['aslumped']:
            t1 = mh.LumpedStateTraj(t1, refine(t1))
        if 2 in case['aslumped']:
            t2 = mh.LumpedStateTraj(t2, refine(t2))
    if case.get('repeat'):
        # shared objects: earlier comparisons (also with swapped roles) must not change later ones
        o1, o2 = mh.StateTraj(t1), mh.StateTraj(t2)
        for k in range(case['repeat']):
            mh.md.compare_discretization(o1, o2, method='directed' if k % 2 else 'symmetric')
            mh.md.compare_discretization(o2, o1, method=case['method'])
        v = mh.md.compare_discretization(o1, o2, method=case['method'])
    else:
        v = mh.md.compare_discretization(t1, t2, method=case['method'])
    return {'ok': float(v).hex()}


def requests(case):
    m = {'symmetric': 0, 'directed': 1}.get(case['method'], 7)
    return [[1301] + C.enested(case['t1']) + C.enested(case['t2']) + [m]]


def judge(case, ibc, answers):
    probs = []
    rd = C.Reader(answers[0])
    model, spec = rd.res(rd.Q), rd.res(rd.Q)
    if model != spec:
        probs.append({'kind': 'model-vs-spec', 'cfg': '-', 'what': 'model %s spec %s' % (model, spec), 'finding': None})
    for cfg, r in ibc.items():
        def P(kind, what):
            probs.append({'kind': kind, 'cfg': cfg, 'what': what, 'finding': None})
        if 'err' in r:
            if spec != ('err', r['err']):
                P('impl-vs-spec', 'raised %s (%s), formula gives %s' % (r['err'], r.get('msg'), C.short(spec, 80)))
            continue
        if spec[0] == 'err':
            P('impl-vs-spec', 'returned %s but the input must be rejected (%s)' % (float.fromhex(r['ok']), case['mal']))
            continue
        v = float.fromhex(r['ok'])
        if not C.frac_close(v, spec[1], TOL):
            P('impl-vs-spec', 'similarity %r, contingency formula gives %s = %.12f' % (v, spec[1], float(spec[1])))
    return probs


def nontrivial(case, ibc):
    if case['mal']:
        return False
    f1 = [v for t in case['t1'] for v in t]
    f2 = [v for t in case['t2'] for v in t]
    m12, m21 = {}, {}
    r12 = r21 = True
    for a, b in zip(f1, f2):
        if m12.setdefault(a, b) != b:
            r12 = False
        if m21.setdefault(b, a) != a:
            r21 = False
    return not r12 and not r21


def describe(case, ibc):
    r = next(iter(ibc.values()))
    N = sum(len(t) for t in case['t1'])
    return ['method:' + case['method'], 'malformed:%s' % case['mal'],
            'N:%s' % ('<=8' if N <= 8 else '<=200' if N <= 200 else '<=3000' if N <= 3000 else '1e5'),
            'splits:%d/%d' % (len(case['t1']), len(case['t2'])),
            'outcome:' + ('err-' + r['err'] if 'err' in r else 'value')]
