# -*- coding: utf-8 -*-
"""C12 - compiled vs interpreted execution and thread counts agree."""
from fractions import Fraction

import common as C
import gen as G

PROP = 'C12'
THEOREMS = ['prange_order_free', 'prange_chunking_free', 'errkind_eq_dec']
CONFIGS = [dict(jit=True), dict(jit=False), dict(jit=True, threads=1), dict(jit=True, threads=3)]
CONFIGS_THOROUGH = [dict(jit=True), dict(jit=False), dict(jit=True, threads=1), dict(jit=True, threads=2),
                    dict(jit=True, threads=3), dict(jit=False, threads=2)]
RULE = ('the same public calls (estimate_markov_model, dynamical_coring, md waiting times/paths, '
        'compare_discretization, row_normalize_matrix, matrix_power, find_first, ck_test, '
        'implied_timescales, LumpedStateTraj model) on trajectory sets of equal and different lengths, all '
        'label alphabets, all integer widths (including narrow widths with many states) and matrices, '
        'executed in subprocesses with NUMBA_DISABLE_JIT in {0,1} and NUMBA_NUM_THREADS in {1,3,16} '
        '(thorough: also 2) plus numba.set_num_threads inside the compiled process. Compared pairwise: '
        'integers/labels identical, floats within 1e-12 (1e-9 across thread counts), errors of the same '
        'kind. Non-trivial: >= 2 trajectories and a non-error result, or an error in all configurations.'
        ' Added classes: float32 and integer matrices for row_normalize_matrix, one contingency cell with > 65535 frames, 32..200 trajectories (one without a core), search values outside the range of a narrow array / non-integral.'
        ' Later: Fortran-ordered / transposed matrices for matrix_power and the ergodicity tests, basin labels >= 64 next to a trajectory with small labels only, macro data shorter than micro data.'
        ' Fifth/sixth batch: one StateTraj object over a sequence of calls, index lists differing in length by > 64x, a lag no trajectory can serve.')
TRUSTED = ['numba code generation and scheduling (runtime; the model cannot exhibit a miscompilation, only its effect)']
ASSUMPTIONS = []
BATCH = 60
WIDTHS = ('int8', 'int16', 'int32', 'int64')


def gen(rng, tier):
    n = G.budget(70) if tier == 'quick' else 2500
    for it in range(n):
        style = rng.choice(['small', 'small', 'many', 'large'])
        if style == 'many':            # many index-like states in a narrow dtype
            k = rng.choice([12, 13, 17, 20, 24])
            labs = list(range(k)) if rng.random() < 0.5 else list(range(1, k + 1))
            akind = 'index%d' % k
        else:
            labs, akind = G.alphabet(rng, k=rng.randint(2, 6))
        lag = rng.choice([1, 1, 2, 3])
        nt = rng.choice([1, 2, 3])
        equal = rng.random() < 0.3
        L = rng.randint(20, 60)
        trajs = [G.traj(rng, labs, L if equal else rng.randint(5, 80) * (3 if style == 'many' else 1),
                        sticky=rng.choice([0.0, 0.5, 0.8])) for _ in range(nt)]
        if style == 'many':
            trajs[0] = trajs[0] + labs        # make sure every index-like state occurs
        present = sorted({v for t in trajs for v in t})
        if len(present) < 2:
            continue
        fits = [w for w in WIDTHS if G.fits(trajs, w)]
        N = sum(len(t) for t in trajs)
        other = [rng.choice(present[:max(2, len(present) // 2)]) for _ in range(N)]
        M = [[Fraction(rng.randint(0, 9), 1) for _ in range(len(present))] for _ in present]
        yield {'trajs': trajs, 'lag': lag, 'S': [present[0]], 'F': [present[-1]], 'dtype': fits[0] if rng.random() < 0.6 else rng.choice(fits),
               'other': other, 'M': [[str(x) for x in r] for r in M], 'alpha': akind, 'big': False}
    for _ in range(3 if tier == 'quick' else 40):
        # 32..200 trajectories (thread-parallel paths over trajectories); sometimes one of them has no core
        labs, akind = G.alphabet(rng, k=rng.randint(2, 3))
        nt = rng.choice([32, 33, 40, 64, 100, 200])
        trajs = [G.traj(rng, labs, rng.randint(8, 30), sticky=0.85) for _ in range(nt)]
        if rng.random() < 0.6:        # a trajectory that alternates: no window of 3 equal frames
            k = rng.randrange(nt)
            trajs[k] = [labs[i % 2] for i in range(rng.randint(4, 12))]
        present = sorted({v for t in trajs for v in t})
        N = sum(len(t) for t in trajs)
        yield {'trajs': trajs, 'lag': 3, 'S': [present[0]], 'F': [present[-1]], 'dtype': 'int64',
               'other': [rng.choice(present) for _ in range(N)], 'M': [['1', '2'], ['3', '4']], 'alpha': akind + '+many-trajs', 'big': True}
    for _ in range(5 if tier == 'quick' else 60):
        # a lag time that no trajectory of the set can serve (every trajectory at most lag frames long): no pairs at all,
        # the same all-zero model with and without the JIT
        labs, akind = G.alphabet(rng, k=rng.randint(2, 3))
        lag = rng.choice([2, 3, 4, 5])
        trajs = [G.traj(rng, labs, rng.randint(1, lag), sticky=0.3) for _ in range(rng.choice([1, 2, 3]))]
        trajs[0] = (labs + trajs[0])[:lag] if lag >= len(labs) else trajs[0]
        present = sorted({v for t in trajs for v in t})
        if len(present) < 2:
            continue
        N = sum(len(t) for t in trajs)
        yield {'trajs': trajs, 'lag': lag, 'S': [present[0]], 'F': [present[-1]], 'dtype': 'int64', 'other': [rng.choice(present) for _ in range(N)],
               'M': [['1', '2'], ['3', '4']], 'alpha': akind + '+lag-beyond-all', 'big': True}
    for _ in range(6 if tier == 'quick' else 80):
        # strongly UNBALANCED populations: a state seen once or twice among 2^k +- a few frames of another one (index
        # lists whose lengths differ by far more than a factor 64), and a single basin state among > 64 states
        if rng.random() < 0.7:
            N = 2 ** rng.randint(6, 10) + rng.choice([-2, -1, 0, 1, 2, 3])
            r1, r2 = rng.choice([1, 2]), rng.choice([1, 2, 3])
            a = [0] * (N - r1) + [1] * r1
            b = [5] * (N - r2) + [7] * r2
            if rng.random() < 0.4:
                p_ = rng.randrange(N - 3)
                a = a[p_:] + a[:p_]
            yield {'trajs': [a], 'lag': 1, 'S': [0], 'F': [1], 'dtype': 'int64', 'other': b, 'M': [['1', '2'], ['3', '4']],
                   'alpha': 'unbalanced', 'big': True}
        else:
            k = rng.choice([65, 100, 127, 128, 129])
            t = [i % k for i in range(k * rng.randint(2, 5) + rng.randint(0, 5))]
            yield {'trajs': [t], 'lag': 1, 'S': [rng.randrange(k)], 'F': [0], 'dtype': 'int64', 'other': [v % 2 for v in t],
                   'M': [['1', '2'], ['3', '4']], 'alpha': 'single-basin-of-%d' % k, 'big': True}
    # one labeling pair with far more than 65535 frames of a single (state1, state2) pair
    N = 150001
    a = [0] * 100000 + [1] * 30000 + [2] * 20001
    b = [5] * 100000 + [7] * 25000 + [9] * 25001
    yield {'trajs': [a[:70000], a[70000:70010], a[70010:]], 'lag': 1, 'S': [0], 'F': [2], 'dtype': 'int64',
           'other': b, 'M': [['1', '2'], ['3', '4']], 'alpha': 'long', 'big': True}
    for _ in range(2 if tier == 'quick' else 20):   # long labelings for the parallel reduction
        N = rng.choice([1009, 5003, 20011] if tier == 'quick' else [1009, 20011, 100003])
        a = G.traj(rng, [0, 1, 2, 3], N, sticky=0.7)
        b = [x if rng.random() < 0.8 else rng.choice([5, 7, 9]) + 0 * x for x in a]
        yield {'trajs': [a[:500], a[500:508], a[508:]], 'lag': 1, 'S': [0], 'F': [3], 'dtype': 'int64',
               'other': [5 + (v % 3) if v < 3 else 9 for v in b], 'M': [['1', '2'], ['3', '4']], 'alpha': 'long', 'big': True}


def corpus():
    labs = list(range(12))
    t = [i % 12 for i in range(60)] + [3, 3, 3, 11, 11, 0]
    return [{'trajs': [t, t[5:40], t[:7]], 'lag': 1, 'S': [0], 'F': [11], 'dtype': 'int8', 'other': [v % 3 for v in t + t[5:40] + t[:7]],
             'M': [['1', '2'], ['3', '4']], 'alpha': 'index12', 'big': False}]


def impl(case):
    import numpy as np
    import numba
    import msmhelper as mh
    from analyses import battery, _f, _guard
    from implutil import DTYPES
    dt = DTYPES[case['dtype']]
    data = lambda: [np.array(t, dtype=dt) for t in case['trajs']]  # noqa
    N = sum(len(t) for t in case['trajs'])
    flat2 = np.array(case['other'][:N])
    which = ['emm', 'coring', 'wt', 'paths'] if case['big'] else ['emm', 'its', 'ck', 'coring', 'wt', 'paths']
    out = battery(data(), case['lag'], case['S'], case['F'], which=which)
    out['sim'] = battery(data(), case['lag'], case['S'], case['F'], which=['sim'], data2=flat2)['sim']
    if not numba.config.DISABLE_JIT:
        cur = numba.get_num_threads()
        res = {}
        for k in (1, 2, 3, 16):
            if k <= numba.config.NUMBA_NUM_THREADS:
                numba.set_num_threads(k)
                res[str(k)] = battery(data(), case['lag'], case['S'], case['F'], which=['sim'], data2=flat2)['sim']
        numba.set_num_threads(cur)
        out['sim_threads'] = res
    M = np.array([[float(Fraction(x)) for x in r] for r in case['M']])
    out['rownorm'] = _guard(lambda: [_f(v) for v in mh.msm.row_normalize_matrix(M).flatten()])

    def rn32():
        r = mh.msm.row_normalize_matrix(M.astype(np.float32))
        return {'dtype': str(r.dtype), 'v': [_f(v) for v in r.flatten()]}
    out['rownorm32'] = _guard(rn32)
    out['rownorm_int'] = _guard(lambda: [_f(v) for v in mh.msm.row_normalize_matrix(M.astype(np.int64)).flatten()])
    out['mpow'] = _guard(lambda: [_f(v) for v in mh.utils.matrix_power(mh.msm.row_normalize_matrix(M), 5).flatten()])
    Mn = mh.msm.row_normalize_matrix(M)
    for tag, A in (('mpow_F', np.asfortranarray(Mn)), ('mpow_T', np.ascontiguousarray(Mn.T).T)):
        for pw in (2, 5):
            out['%s%d' % (tag, pw)] = _guard(lambda A=A, pw=pw: [_f(v) for v in mh.utils.matrix_power(A, pw).flatten()])
    out['erg_F'] = _guard(lambda: [bool(mh.utils.tests.is_ergodic(np.asfortranarray(Mn))), bool(mh.utils.tests.is_fuzzy_ergodic(np.asfortranarray(Mn)))])

    def high_basin():
        # one trajectory with labels below 64 only, another one holding the labels 70 and 130; basins name the high labels
        small = np.array([abs(int(v)) % 7 for v in case['trajs'][0]] + [6, 2, 6, 3, 2], dtype=dt if str(np.dtype(dt)) != 'int8' else np.int16)
        other = np.array([70, 2, 2, 130, 70, 3, 2, 70], dtype=small.dtype)
        return {'wt': [int(v) for v in mh.md.estimate_waiting_times([small, other], [70], [2])],
                'paths': sorted([[int(x) for x in k], [int(v) for v in vs]] for k, vs in mh.md.estimate_paths([small, other], [130, 70], [3]).items())}
    out['high_basin'] = _guard(high_basin)
    out['find_first'] = _guard(lambda: [int(mh.utils.find_first(v, np.array(case['trajs'][0], dtype=dt))) for v in case['S'] + case['F'] + [987654]])
    # search values outside the range of a narrow array type, and non-integral ones
    narrow = np.array([abs(int(v)) % 100 for v in case['trajs'][0]], dtype=np.int8)
    for tag, sv in (('ff_300', 300), ('ff_neg_u8', -1), ('ff_half', 2.5), ('ff_big', 2**40)):
        arr = narrow.astype(np.uint8) if tag == 'ff_neg_u8' else narrow
        out[tag] = _guard(lambda sv=sv, arr=arr: int(mh.utils.find_first(sv, arr)))
    def lumped_short():
        # macrostate data with fewer frames than the microstate data: rejected alike in every configuration
        tr = data()
        macro = [np.array([1 + int(v) % 2 for v in tr[0][:max(1, len(tr[0]) // 2)]])] + [np.array([1 + int(v) % 2 for v in t]) for t in tr[1:]]
        lt = mh.LumpedStateTraj(macro, tr)
        return {'assign': [int(v) for v in lt.state_assignment]}
    out['lumped_short'] = _guard(lumped_short)

    def shared():
        # ONE StateTraj object reused over a sequence of calls (coring first, then coring again with other windows,
        # waiting times, pathways): every return value is compared between the configurations, so a compiled path
        # that keeps state in the object (or works in place on what it cached) shows up against the interpreted one
        st = mh.StateTraj(data())
        res = {}
        for tag, tau, it in (('cor2', 2, True), ('cor3', 3, False), ('cor2b', 2, True), ('cor4', 4, True)):
            res[tag] = _guard(lambda tau=tau, it=it: [[int(v) for v in t] for t in mh.md.dynamical_coring(st, tau, iterative=it).trajs])
        res['wt'] = _guard(lambda: sorted(int(v) for v in mh.md.estimate_waiting_times(st, case['S'], case['F'])))
        res['paths'] = _guard(lambda: sorted([[int(x) for x in k], [int(v) for v in vs]] for k, vs in mh.md.estimate_paths(st, case['S'], case['F']).items()))
        res['trajs'] = [[int(v) for v in t] for t in st.trajs]
        res['emm'] = _guard(lambda: [_f(v) for v in st.estimate_markov_model(case['lag'])[0].flatten()])
        return res
    out['shared'] = _guard(shared)
    if not case['big']:
        present = sorted({v for t in case['trajs'] for v in t})
        f = {v: 100 + (i * 2) // max(1, len(present)) for i, v in enumerate(present)}

        def lumped():
            lt = mh.LumpedStateTraj([np.array([f[v] for v in t]) for t in case['trajs']], data())
            T, st = lt.estimate_markov_model(case['lag'])
            return {'T': [_f(v) for v in T.flatten()], 'st': [int(s) for s in st]}
        out['lumped'] = _guard(lumped)
    return out


from fractions import Fraction  # noqa: E402


def requests(case):
    return []


def _cmp(a, b, tol):
    from props.c11 import _close
    if isinstance(a, dict) and 'err' in a or isinstance(b, dict) and 'err' in b:
        return isinstance(a, dict) and isinstance(b, dict) and a.get('err') == b.get('err')
    return _close(a, b, tol)


def judge(case, ibc, answers):
    probs = []
    names = list(ibc)
    ref = names[0]
    for cfg in names:
        r = ibc[cfg]
        if 'err' in r and 'emm' not in r:
            probs.append({'kind': 'impl-vs-spec', 'cfg': cfg, 'finding': None, 'what': 'battery failed: %s %s' % (r['err'], r.get('msg'))})
            return probs
    for cfg in names[1:]:
        for key, val in ibc[ref].items():
            if key == 'sim_threads':
                continue
            other = ibc[cfg].get(key)
            cross_threads = ('-t' in cfg) or ('-t' in ref)
            tol = 1e-9 if key == 'sim' and cross_threads else 1e-12
            if not _cmp(val, other, tol):
                probs.append({'kind': 'impl-vs-spec', 'cfg': cfg, 'finding': None,
                              'what': '%s differs between %s and %s: %s vs %s' % (key, ref, cfg, C.short(val, 130), C.short(other, 130))})
    for cfg in names:
        st = ibc[cfg].get('sim_threads')
        if st:
            vals = list(st.items())
            for k, v in vals[1:]:
                if not _cmp(vals[0][1], v, 1e-9):
                    probs.append({'kind': 'impl-vs-spec', 'cfg': cfg, 'finding': None,
                                  'what': 'compare_discretization depends on the thread count: %s threads %s, %s threads %s' % (
                                      vals[0][0], vals[0][1], k, v)})
    return probs


def nontrivial(case, ibc):
    r = next(iter(ibc.values()))
    return len(case['trajs']) >= 2 and 'emm' in r and 'err' not in r['emm']


def describe(case, ibc):
    return ['dtype:' + case['dtype'], 'alphabet:' + case['alpha'].rstrip('0123456789'), 'ntraj:%d' % len(case['trajs']),
            'nstates:%d' % len({v for t in case['trajs'] for v in t}), 'long:%s' % case['big']]
