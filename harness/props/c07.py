# -*- coding: utf-8 -*-
"""C07 - Markov-chain propagation samples exactly the estimated model."""
from fractions import Fraction

import common as C
import gen as G

PROP = 'C07'
THEOREMS = ['first_lt_spec_thm', 'step_interval_thm', 'step_total', 'cumsum_diff_thm', 'cum_row_spec_thm',
            'zero_prob_never_thm', 'chain_length', 'chain_head', 'chain_in_range']
CONFIGS = [dict(jit=True), dict(jit=False)]
RULE = ('estimated models with 2..8 states over all label alphabets, lag 1..4, every start state, chain '
        'lengths 1..200 (also chains that do not visit all states). JIT off: the uniform draw is INJECTED '
        '(module-global random replaced by a replay stub) at 0, at every cumulative breakpoint of the '
        'row, at its two neighbouring floats, at midpoints and at 1-2^-53, and the next state is compared '
        "with the model step evaluated on the exact dyadic values of the implementation's own cumulative "
        'matrix. JIT on: draws are RECORDED (numba generator seeded, N draws read, re-seeded) and the '
        'chain of propagate_MCMC / propagate_tmat must equal the model chain label for label. In both: '
        'cumulative matrix vs exact cumulative sums of the exact T (1e-12, interval of column k has length '
        'T[i,perm k]), N frames, first frame = start, labels of the input only, identical output from '
        'identical generator state. Non-trivial: >= 3 states and a row with a zero entry.'
        ' Added classes: a transition of probability < 1e-5 (3.6e5 frames), > 64/128/256 states, user matrices with entries ~1e-6 (the table propagate_tmat really passes to the kernel is captured), related history first (the same frames joined/split, or as LumpedStateTraj, are sampled before).'
        ' Later: chains of 4097..9000 frames on models without self transitions, user matrices normalised only within 1e-8, StateTraj objects (negative gapped labels) whose trajectories were read before.'
        ' Fifth/sixth batch: user matrices with trailing zeros whose float cumulative sum stops below one, NumPy (unsigned) lag times with > 256 frames.')
TRUSTED = ['uniformity and independence of the Mersenne twister draws (CPython / numba)',
           'the 1e-12 gap between float and exact cumulative sums is measured, not proved']
ASSUMPTIONS = ['draws u in [0,1)']
BATCH = 60


def gen(rng, tier):
    n = G.budget(90) if tier == 'quick' else 3000
    for _ in range(n):
        k = rng.randint(2, 8 if tier == 'thorough' else 6)
        labs, akind = G.alphabet(rng, k=k)
        lag = rng.choice([1, 1, 2, 3, 4])
        trajs = [G.traj(rng, labs, rng.randint(30, 150), sticky=rng.choice([0.2, 0.5, 0.8])) for _ in range(rng.choice([1, 2, 3]))]
        present = sorted({v for t in trajs for v in t})
        if len(present) < 2:
            continue
        steps = rng.choice([1, 1, 2, 3, 5, 10, 50, 200] if tier == 'quick' else list(range(1, 65)))
        yield {'trajs': trajs, 'lag': lag, 'start': rng.choice(present), 'steps': steps, 'seed': rng.randrange(2**31),
               'alpha': akind, 'tmat': None}
    for _i in range(4 if tier == 'quick' else 60):
        # the lag time as a NumPy integer scalar (signed and unsigned, narrow) and a trajectory of more than 256 frames
        # whose later part changes the counts
        labs, akind = G.alphabet(rng, k=rng.randint(3, 4))
        first = G.traj(rng, labs[:-1], rng.randint(260, 300), sticky=0.6)
        t = first + G.traj(rng, labs, rng.randint(150, 400), sticky=0.3) + labs
        yield {'trajs': [t], 'lag': rng.choice([1, 2, 3]), 'start': rng.choice(labs), 'steps': rng.choice([20, 200]), 'seed': rng.randrange(2**31),
               'alpha': akind + '+typed-lag', 'tmat': None, 'lagtype': ['uint8', 'uint16', 'uint8', 'int8', 'uint64', 'int16'][_i % 6]}
    for _ in range(2 if tier == 'quick' else 12):       # transitions with probability below 1e-5
        labs, akind = G.alphabet(rng, k=rng.randint(2, 4))
        rle = G.rare_rle(rng, labs)
        yield {'trajs': None, 'rle': rle, 'lag': 1, 'start': labs[0], 'steps': rng.choice([5, 50]), 'seed': rng.randrange(2**31),
               'alpha': akind, 'tmat': None}
    for _ in range(2 if tier == 'quick' else 12):       # chains longer than 4096 / 8192 frames on a model without self transitions
        k = rng.randint(3, 5)
        labs, akind = G.alphabet(rng, k=k)
        rng.shuffle(labs)
        t, cur = [], 0
        for _i in range(rng.randint(60, 120)):
            t.append(labs[cur])
            cur = (cur + rng.choice([1, 1, 2])) % k
        yield {'trajs': [t], 'lag': 1, 'start': t[0], 'steps': rng.choice([4097, 4100, 8193, 9000]), 'seed': rng.randrange(2**31),
               'alpha': akind + '+long-chain', 'tmat': None}
    for _ in range(2 if tier == 'quick' else 12):       # more than 64 / 128 / 256 states
        trajs, tag = G.size_classes(rng, sticky=0.5)
        while tag != 'many-states':
            trajs, tag = G.size_classes(rng, sticky=0.5)
        present = sorted({v for t in trajs for v in t})
        yield {'trajs': trajs, 'lag': 1, 'start': rng.choice(present), 'steps': rng.choice([50, 300]), 'seed': rng.randrange(2**31),
               'alpha': 'many-states', 'tmat': None}
    for _ in range(10 if tier == 'quick' else 300):     # user-supplied matrices
        k = rng.randint(2, 6)
        T = []
        for i in range(k):
            row = [rng.randint(0, 6) if rng.random() < 0.7 else 0 for _ in range(k)]
            if not any(row):
                row[rng.randrange(k)] = 1
            T.append([str(Fraction(c, sum(row))) for c in row])
        yield {'trajs': None, 'lag': 1, 'start': rng.randrange(k), 'steps': rng.choice([1, 2, 10, 100]), 'seed': rng.randrange(2**31),
               'alpha': 'tmat', 'tmat': T}
    for _ in range(3 if tier == 'quick' else 60):       # user matrices normalised only within the accepted 1e-8: sampled as the NORMALISED matrix
        k = rng.randint(2, 4)
        T = []
        for i in range(k):
            row = [rng.randint(1, 9) for _ in range(k)]
            q = [Fraction(c, sum(row)) for c in row]
            q[rng.randrange(k)] += Fraction(rng.choice([-6, -3, 4, 7]), 10**9)
            T.append([str(x) for x in q])
        yield {'trajs': None, 'lag': 1, 'start': rng.randrange(k), 'steps': rng.choice([10, 100]), 'seed': rng.randrange(2**31),
               'alpha': 'tmat-offnorm', 'tmat': T}
    for _ in range(4 if tier == 'quick' else 60):       # a StateTraj object (negative, gapped labels) whose trajectories were read before
        labs = sorted(rng.sample(range(-9, 12), rng.randint(3, 4)))
        if labs[0] >= 0:
            labs[0] = -rng.randint(1, 5)
        t = G.traj(rng, labs, rng.randint(40, 120), sticky=0.5) + labs
        yield {'trajs': [t], 'lag': 1, 'start': rng.choice(labs), 'steps': rng.choice([20, 100]), 'seed': rng.randrange(2**31),
               'alpha': 'negative-gapped', 'tmat': None, 'asobj': True}
    for _ in range(4 if tier == 'quick' else 80):
        # user matrices whose rows END in zeros and whose floating-point cumulative sum stops just BELOW one
        # (0.28 + 0.33 + 0.16 + 0.23 = 0.9999999999999999): the draws next to one then fall through the scan
        k = rng.randint(5, 8)
        T = []
        for i in range(k):
            for _try in range(300):
                nz = rng.randint(4, k - 1)
                parts = [rng.randint(1, 60) for _ in range(nz)]
                row = [Fraction(c, sum(parts)).limit_denominator(100) for c in parts]
                row[-1] = 1 - sum(row[:-1])
                if row[-1] <= 0:
                    continue
                acc = 0.0
                for x in row:
                    acc += float(x)
                if acc < 1.0 or _try == 299:
                    break
            T.append([str(x) for x in row] + ['0'] * (k - nz))
        yield {'trajs': None, 'lag': 1, 'start': rng.randrange(k), 'steps': rng.choice([10, 100]), 'seed': rng.randrange(2**31),
               'alpha': 'tmat-trailing-zeros', 'tmat': T}
    for _ in range(3 if tier == 'quick' else 60):       # user matrices with transitions of probability ~1e-6
        k = rng.randint(2, 4)
        T = []
        for i in range(k):
            row = [rng.randint(1, 4) if (j != i and rng.random() < 0.8) else 0 for j in range(k)]
            row[i] = 10**6 - sum(row)
            T.append([str(Fraction(c, 10**6)) for c in row])
        yield {'trajs': None, 'lag': 1, 'start': rng.randrange(k), 'steps': rng.choice([10, 100]), 'seed': rng.randrange(2**31),
               'alpha': 'tmat-rare', 'tmat': T}


def corpus():
    return [{'trajs': [[0, 1, 0, 1, 1, 0]], 'lag': 1, 'start': 0, 'steps': 1, 'seed': 5, 'alpha': 'corpus', 'tmat': None},
            {'trajs': [[0, 0, 1, 0, 0, 1, 0, 1], [2, 2, 0, 2, 0, 2, 2]], 'lag': 1, 'start': 1, 'steps': 40, 'seed': 11, 'alpha': 'corpus', 'tmat': None},
            {'trajs': None, 'lag': 1, 'start': 0, 'steps': 5, 'seed': 3, 'alpha': 'tmat', 'tmat': [['1/2', '1/2'], ['1', '0']]}]


_rec = None


def impl_init():
    global _rec
    import random
    import numba
    import numpy as np

    @numba.njit
    def seed(s):
        random.seed(s)
        np.random.seed(s)

    @numba.njit
    def record(n):
        out = np.empty(n)
        for i in range(n):
            out[i] = random.random()
        return out
    _rec = (seed, record)


def related(trajs, lag, call):
    import numpy as np
    if len(trajs) >= 2:
        other = [np.concatenate(trajs)]
    elif len(trajs[0]) >= 4:
        h = len(trajs[0]) // 2
        other = [trajs[0][:h].copy(), trajs[0][h:].copy()]
    else:
        other = None
    try:
        if other is not None:
            call(other)
    except Exception:  # noqa
        pass
    try:
        import msmhelper as mh
        from implutil import refine
        if sum(len(t) for t in trajs) > 3000 or len({int(v) for t in trajs for v in t}) > 12:
            return
        call(mh.LumpedStateTraj([t.copy() for t in trajs], refine(trajs)))
    except Exception:  # noqa
        pass


class _Stub:
    def __init__(self, us):
        self.us = list(us)
        self.k = 0

    def random(self):
        u = self.us[self.k]
        self.k += 1
        return u


def impl(case):
    import math
    import random as pyrandom
    import numpy as np
    import numba
    import msmhelper as mh
    import msmhelper.utils.datasets as ds
    from msmhelper.msm import timescales as ts
    out = {}
    nojit = bool(numba.config.DISABLE_JIT)
    lagv = np.dtype(case['lagtype']).type(case['lag']) if case.get('lagtype') else case['lag']      # NumPy integer scalar as lag time
    if case['tmat'] is None:
        trajs = [np.array(t) for t in G.expand(case)]
        st = mh.StateTraj(trajs)
        out['states'] = [int(s) for s in st.states]
        if case.get('asobj'):
            # the object is what gets passed on; its trajectories, repr and iteration were used before
            _ = st.trajs, repr(st), [x for x in st], st.trajs_flatten, st == st
            trajs = st
        # history: the same frames cut differently (joined into one trajectory, or the first one cut in
        # two) are sampled FIRST; nothing of that call may survive into the calls on `trajs`
        related(trajs, lagv, lambda d: ts.propagate_MCMC(d, lagv, 3))
        try:
            cm, perm = ts._get_cummat(trajs, lagv)
        except (AttributeError, TypeError) as exc:
            # the instrumented private helper is gone / changed: public-API part only
            out['hook_local'] = '_get_cummat: %s' % str(exc)[:120]
            cm = perm = None
    else:
        T = np.array([[float(Fraction(x)) for x in r] for r in case['tmat']])
        n = len(T)
        cm = np.cumsum(mh.msm.row_normalize_matrix(T), axis=1)
        perm = np.tile(np.arange(n), (n, 1))
        out['states'] = list(range(n))
        # the sampling table propagate_tmat REALLY hands to the chain kernel (captured by wrapping the
        # kernel symbol the module imported); falls back to the recomputed table when that symbol is gone
        seen = []
        inner = getattr(ds, '_propagate_MCMC', None)
        if inner is None:
            out['hook_local'] = 'datasets._propagate_MCMC is gone'
        else:
            def spy(*a, **kw):
                c = kw.get('cummat', a[0] if a else None)
                seen.append((np.array(c[0], dtype=float), np.array(c[1])))
                return inner(*a, **kw)
            ds._propagate_MCMC = spy
            try:
                ds.propagate_tmat(T, 2, start=0)
            except Exception:  # noqa
                pass
            finally:
                ds._propagate_MCMC = inner
            if seen and seen[0][0].shape == cm.shape:
                cm, perm = seen[0]
            else:
                out['hook_local'] = 'propagate_tmat no longer passes (cummat, perm) to _propagate_MCMC'
    if cm is not None:
        out['cm'] = [[float(x).hex() for x in r] for r in cm]
        out['perm'] = [[int(x) for x in r] for r in perm]
    n = len(out['states'])
    # ---- injected draws (interpreted mode only)
    if nojit and cm is not None and not hasattr(ts, '_propagate_MCMC_step'):
        out['hook_local'] = '_propagate_MCMC_step is gone'
    elif nojit and cm is not None:
        inj = []
        for i in range(n):
            us = {0.0, 1.0 - 2.0**-53, 0.5}
            prev = 0.0
            for c in cm[i]:
                c = float(c)
                for u in (c, math.nextafter(c, 0.0), math.nextafter(c, 2.0), (prev + c) / 2):
                    if 0.0 <= u < 1.0:
                        us.add(u)
                prev = c
            us = sorted(us)
            stub = _Stub(us)
            old = ts.random
            ts.random = stub
            try:
                nxt = [int(ts._propagate_MCMC_step((cm, perm), i)) for _ in us]
            finally:
                ts.random = old
            inj.append({'row': i, 'us': [u.hex() for u in us], 'next': nxt})
        out['inject'] = inj
    # ---- recorded draws
    seed, record = _rec
    N = case['steps']

    def draws(k):
        if nojit:
            pyrandom.seed(case['seed'])
            d = [pyrandom.random() for _ in range(k)]
            pyrandom.seed(case['seed'])
            return d
        seed(case['seed'])
        d = [float(x) for x in record(k)]
        seed(case['seed'])
        return d
    us = draws(max(N - 1, 0))
    out['us'] = [u.hex() for u in us]

    def guarded(f):
        try:
            return [int(v) for v in f()]
        except Exception as exc:  # noqa
            return {'err': type(exc).__name__, 'msg': str(exc)[:100]}
    if case['tmat'] is None:
        out['chain'] = guarded(lambda: ts.propagate_MCMC(trajs, lagv, N, start=case['start']))
        draws(0)
        out['chain2'] = guarded(lambda: ts.propagate_MCMC(trajs, lagv, N, start=case['start']))
        out['badstart'] = guarded(lambda: ts.propagate_MCMC(trajs, lagv, N, start=max(out['states']) + (8 if max(out['states']) == -8 else 7)))
    else:
        out['chain'] = guarded(lambda: ds.propagate_tmat(T, N, start=case['start']))
        draws(0)
        out['chain2'] = guarded(lambda: ds.propagate_tmat(T, N, start=case['start']))
        out['badstart'] = None
    return out


def requests(case):
    if case['tmat'] is None:
        return [[703] + C.enested(G.expand(case)) + [case['lag']]]
    return [[704] + C.eQmat([[Fraction(x) for x in r] for r in case['tmat']])]


def _cm(rd):
    return rd.list(lambda: (rd.Qs(), rd.Zs()))


def check_cummat(cm, perm, Tex, states, P, estimated=True):
    """cumulative matrix: interval k of row i has length T[i, perm k]; last value is 1; permutation valid"""
    n = len(states)
    tol = Fraction(1, 10**12)
    for i in range(n):
        if sorted(perm[i]) != list(range(n)):
            P('impl-vs-spec', 'row %d: state permutation %s is not a permutation' % (i, perm[i]))
            break
        prev = Fraction(0)
        for k in range(n):
            want = Tex[i][perm[i][k]]
            if sum(Tex[i]) == 0:
                break
            if abs((cm[i][k] - prev) - want) > tol:
                P('impl-vs-spec', 'row %d: draws mapped to state %s form an interval of length %s, T = %s' % (
                    i, states[perm[i][k]], float(cm[i][k] - prev), float(want)))
                break
            prev = cm[i][k]
        if cm[i][-1] != 1 and estimated:
            P('impl-vs-spec', 'row %d: last cumulative value is %s, not 1' % (i, float(cm[i][-1])))


def judge(case, ibc, answers):
    probs = []
    rd = C.Reader(answers[0])
    if case['tmat'] is None:
        m = rd.res(lambda: (rd.Qmat(), rd.Zs(), rd.res(lambda: _cm(rd))))
        if m[0] != 'ok' or m[1][2][0] != 'ok':
            probs.append({'kind': 'model-vs-spec', 'cfg': '-', 'finding': None, 'what': 'model rejected the input: %s' % C.short(m, 100)})
            return probs
        Tex, states, cmex = m[1][0], m[1][1], m[1][2][1]
    else:
        rd.bool()
        cmex = _cm(rd)
        Tex = [[Fraction(x) for x in r] for r in case['tmat']]
        Tex = [[x / sum(r) if sum(r) else x for x in r] for r in Tex]
        states = list(range(len(Tex)))
    n = len(states)
    tol = Fraction(1, 10**12)
    for cfg, r in ibc.items():
        def P(kind, what, finding=None):
            probs.append({'kind': kind, 'cfg': cfg, 'what': what, 'finding': finding})
        if 'err' in r:
            P('impl-vs-spec', 'harness call failed: %s %s' % (r['err'], r.get('msg')))
            continue
        if r['states'] != states:
            P('impl-vs-spec', 'state list %s != %s' % (r['states'], states))
            continue
        if r.get('hook_local'):
            P('correspondence', 'instrumented private helper no longer matches: %s' % r['hook_local'])
        if 'cm' in r:
            cm = [[Fraction(float.fromhex(x)) for x in row] for row in r['cm']]
            perm = r['perm']
            check_cummat(cm, perm, Tex, states, P, estimated=case['tmat'] is None)
        else:
            cm = perm = None      # only the checks that need no sampling table remain
        # injected draws: model step on the implementation's own (rationalised) cumulative row
        for inj in r.get('inject', []):
            i = inj['row']
            us = [Fraction(float.fromhex(u)) for u in inj['us']]
            ans = C.Reader(C.mrun([[701] + C.eQs(cm[i]) + C.eZs(perm[i]) + C.eQs(us)])[0]).Zs()
            if ans != inj['next']:
                k = next(j for j in range(len(us)) if ans[j] != inj['next'][j])
                P('impl-vs-spec', 'row %d, draw u=%r: implementation moves to index %d, inverse-CDF rule gives %d' % (
                    i, float(us[k]), inj['next'][k], ans[k]))
            # unobserved transitions are never sampled
            for u, nx in zip(us, inj['next']):
                if sum(Tex[i]) and Tex[i][nx] == 0:
                    P('impl-vs-spec', 'row %d: draw %r samples the unobserved transition to %s' % (i, float(u), states[nx]))
                    break
        # recorded draws: whole chain
        us = [Fraction(float.fromhex(u)) for u in r['us']]
        N = case['steps']
        start_idx = states.index(case['start'])
        ch = r['chain']
        if cm is None:
            if not isinstance(ch, dict):
                if len(ch) != N:
                    P('impl-vs-spec', 'chain has %d frames, requested %d' % (len(ch), N))
                elif ch[0] != case['start'] and not (case['start'] == -1 and case['tmat'] is None):
                    P('impl-vs-spec', 'chain starts in %s, requested start %s' % (ch[0], case['start']))
                if not set(ch) <= set(states):
                    P('impl-vs-spec', 'chain contains labels that are not states of the input')
                if r['chain2'] != ch and not (case['start'] == -1 and case['tmat'] is None):
                    P('impl-vs-spec', 'same generator state, different output')
            continue
        req = [702, n]
        for i in range(n):
            req += C.eQs(cm[i]) + C.eZs(perm[i])
        req += [start_idx] + C.eQs(us)
        mchain = [states[k] for k in C.Reader(C.mrun([req])[0]).Zs()]
        if isinstance(ch, dict):
            f = None
            if ch['err'] == 'IndexError' and case['tmat'] is None and max(mchain) != max(states):
                f = 'mcmc-short-chain-indexerror'
            P('impl-vs-spec', 'propagation raised %s (%s); expected the chain %s' % (ch['err'], ch.get('msg'), C.short(mchain, 80)), f)
        else:
            if len(ch) != N:
                P('impl-vs-spec', 'chain has %d frames, requested %d' % (len(ch), N))
            elif ch[0] != case['start']:
                P('impl-vs-spec', 'chain starts in %s, requested start %s' % (ch[0], case['start']),
                  'mcmc-start-minus-one' if case['start'] == -1 and case['tmat'] is None else None)
            elif ch != mchain and not (case['start'] == -1 and case['tmat'] is None):
                P('impl-vs-spec', 'chain %s differs from the model chain on the same draws %s' % (C.short(ch, 90), C.short(mchain, 90)))
            if not set(ch) <= set(states):
                P('impl-vs-spec', 'chain contains labels that are not states of the input')
            if r['chain2'] != ch:
                P('impl-vs-spec', 'same generator state, different output',
                  'mcmc-start-minus-one' if case['start'] == -1 and case['tmat'] is None else None)
        if r.get('badstart') is not None and not (isinstance(r['badstart'], dict) and r['badstart']['err'] == 'ValueError'):
            P('impl-vs-spec', 'a start state that does not occur was not rejected with ValueError: %s' % C.short(r['badstart'], 80))
    return probs


def nontrivial(case, ibc):
    r = next(iter(ibc.values()))
    if 'cm' not in r:
        return False
    n = len(r['cm'])
    zero = any(float.fromhex(a) == float.fromhex(b) for row in r['cm'] for a, b in zip(row, row[1:]))
    return n >= 3 and zero


def describe(case, ibc):
    r = next(iter(ibc.values()))
    return ['kind:' + ('tmat' if case['tmat'] else 'estimated'), 'alphabet:' + case['alpha'], 'lag:%d' % case['lag'],
            'steps:%s' % ('1' if case['steps'] == 1 else '<=10' if case['steps'] <= 10 else '>10'),
            'nstates:%d' % len(r.get('cm', [])),
            'chain:' + ('err-' + r['chain']['err'] if isinstance(r.get('chain'), dict) else 'ok')]
