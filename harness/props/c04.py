# -*- coding: utf-8 -*-
"""C04 - equilibrium population."""
from fractions import Fraction

import common as C
from props import c14

PROP = 'C04'
THEOREMS = ['peq_ergodic_stationary', 'peq_general', 'peq_strict_rejects', 'stationary_unique_thm', 'peq_unique', 'stationary_exists_thm',
            'peq_closed_unique_thm', 'peq_closed_found_thm', 'stationary_zero_on_transient_thm', 'guard_example_thm']
CONFIGS = [dict(jit=True)]
CONFIGS_THOROUGH = [dict(jit=True), dict(jit=False)]
RULE = ('row-stochastic matrices from random sparse count matrices with 2..8 states (irreducible, '
        'reducible with transient / absorbing / never-entered / never-visited states, periodic, '
        'block-diagonal ties), Wielandt-extremal graphs, both values of allow_non_ergodic, plus '
        'non-stochastic inputs. Clause 1: |pi_impl - pi_exact| <= 1e-9 whenever the exact certified '
        'stationary vector of the (restricted, renormalised) matrix is unique; clause 2: the exact '
        'checker peq_ok on the rationalised output (real, >= -1e-9, sums to 1, stationary for the '
        'support restriction) for every accepted matrix; clause 3: ValueError iff strict mode and not '
        'ergodic. Cases where an exact power entry is within 1e-12 of the 1e-8 threshold are skipped '
        '(counted). Non-trivial: >= 3 states and reducible/periodic/extremal, or ergodic with a zero entry.'
        ' Added classes: one ndarray refilled in place between two calls, Fortran/transposed/strided layouts of the matrix (same result required where the vector is unique), nearly symmetric count matrices with equal row totals, closed classes with a state of stationary probability 1e-6..1e-4.'
        ' Later: the flag as NumPy bool / integer, read-only matrices.')
TRUSTED = ['LAPACK eig chooses the eigenvector (degenerate eigenspaces are only checked relationally)',
           'first clause proved in full for the model (peq_closed_unique_thm: found, stationary for T, zero outside the class, '
           'unique among all stationary probability vectors) under the guard that every class with a cycle is aperiodic '
           '(slightly stronger than the property text, which only asks this of the closed class); the per-case certificate of '
           'the exact solver is kept but is redundant there']
ASSUMPTIONS = ['smallest stationary probability well above 1e-8 (threshold-free cases only)']
BATCH = 300
TOL = Fraction(1, 10**9)


def gen(rng, tier):
    for case in c14.gen(rng, tier if tier == 'quick' else 'thorough-noenum'):
        if case == 'EXHAUSTIVE' or case['k'] != 'mat':
            continue
        case = dict(case)
        case['allow'] = rng.random() < 0.7
        case['flagtype'] = rng.choice([None, None, None, 'np', 'int'])
        yield case


def corpus():
    out = []
    for c in c14.corpus():
        for allow in (True, False):
            d = dict(c)
            d['allow'] = allow
            out.append(d)
    return out


def impl(case):
    import numpy as np
    import msmhelper as mh
    M = np.array([[float(Fraction(x)) for x in r] for r in case['M']], dtype=np.float64)
    if case.get('prev'):
        new = M
        M = np.array([[float(Fraction(x)) for x in r] for r in case['prev']], dtype=np.float64)
        try:
            mh.msm.equilibrium_population(M, allow_non_ergodic=True)
        except Exception:  # noqa
            pass
        M[:] = new      # same ndarray object, new contents
    # the flag as the caller may hold it: a Python bool, a NumPy bool (e.g. from a comparison) or 0 / 1
    flag = {None: case['allow'], 'np': np.bool_(case['allow']), 'int': int(case['allow'])}[case.get('flagtype')]
    v = mh.msm.equilibrium_population(M, allow_non_ergodic=flag)
    v2 = mh.msm.peq(M, allow_non_ergodic=case['allow'])
    layout_diff = []
    if not np.iscomplexobj(v) and M.ndim == 2 and M.shape[0] == M.shape[1]:
        from implutil import alt_layouts
        for lname, A in alt_layouts(M).items():
            keep = A.copy()
            try:
                w = mh.msm.equilibrium_population(A, allow_non_ergodic=case['allow'])
                if np.iscomplexobj(w) or not np.allclose(w, v, rtol=0, atol=1e-12, equal_nan=True):
                    layout_diff.append('%s matrix gives %s, C-ordered %s' % (lname, np.asarray(w).tolist(), np.asarray(v).tolist()))
            except Exception as exc:  # noqa
                layout_diff.append('%s matrix raises %s' % (lname, type(exc).__name__))
            if not np.array_equal(keep, A):
                layout_diff.append('a %s matrix was modified' % lname)
    if np.iscomplexobj(v):
        return {'complex': True, 'v': [complex(x).real.hex() for x in v], 'im': max(abs(complex(x).imag) for x in v)}
    return {'v': [float(x).hex() for x in v], 'alias_same': bool(np.array_equal(v, v2, equal_nan=True)), 'layout_diff': layout_diff}


def requests(case):
    return [[401] + C.eQmat(c14._F(case)) + C.ebool(case['allow'])]


def decode(ans):
    rd = C.Reader(ans)
    d = {'peq': rd.res(lambda: rd.opt(rd.Qs)), 'erg': rd.bool(), 'stoch': rd.bool(),
         'tfree': rd.bool(), 'rclear': rd.bool()}
    d['mspec'] = rd.opt(lambda: rd.list(rd.bool))
    d['aper'] = rd.bool()
    d['nclosed'] = rd.Z()
    return d


def judge(case, ibc, answers):
    probs = []
    m = decode(answers[0])
    if not (m['tfree'] and m['rclear']):
        return probs
    if any(Fraction(x) < 0 for row in case['M'] for x in row):
        return probs      # negative entries: outside the property's domain (matrices from count matrices)
    import math
    for cfg, r in ibc.items():
        def P(kind, what):
            probs.append({'kind': kind, 'cfg': cfg, 'what': what, 'finding': None})
        clause1 = m['stoch'] and m['mspec'] is not None and m['nclosed'] == 1
        if 'err' in r:
            if m['peq'][0] == 'err':
                if m['peq'][1] != r['err']:
                    P('impl-vs-spec', 'raised %s, expected %s' % (r['err'], m['peq'][1]))
            elif clause1 or m['erg']:
                P('impl-vs-spec', 'raised %s (%s) on a matrix with a single, aperiodic, largest closed class; '
                  'exact populations %s' % (r['err'], r.get('msg'), C.short(m['peq'], 100)))
            # otherwise: the matrix was not accepted; the property fixes nothing (e.g. the 1x1
            # restriction that the eigen-solver refuses with TypeError)
            continue
        if m['peq'][0] == 'err':
            P('impl-vs-spec', 'returned %s although the input must be rejected (%s)' % (
                C.short(r, 100), 'strict mode, not ergodic' if not case['allow'] else 'not a transition matrix'))
            continue
        if r.get('complex'):
            P('impl-vs-spec', 'complex-valued populations returned (max |imag| %g)' % r['im'])
            continue
        if not r['alias_same']:
            P('impl-vs-spec', 'peq alias differs from equilibrium_population')
        if (clause1 or m['erg']) and r.get('layout_diff'):
            P('impl-vs-spec', 'the result depends on the memory layout of the matrix: %s' % '; '.join(r['layout_diff'])[:300])
        v = [float.fromhex(x) for x in r['v']]
        if any(math.isnan(x) or math.isinf(x) for x in v):
            P('impl-vs-spec', 'non-finite populations %s' % v)
            continue
        exact = m['peq'][1]
        if exact is not None:
            bad = [k for k in range(len(v)) if not C.frac_close(v[k], exact[k], TOL)]
            if len(v) != len(exact) or bad:
                P('impl-vs-spec', 'populations %s, exact stationary vector %s' % (v, [float(x) for x in exact]))
        ok = C.Reader(C.mrun([[402] + C.eQ(TOL) + C.eQmat(c14._F(case)) + C.eQs([Fraction(x) for x in v])])[0]).bool()
        if not ok:
            probs.append({'kind': 'impl-property', 'cfg': cfg,
                          'finding': 'peq-periodic-class' if (case['allow'] and not m['aper'] and not m['erg']) else None,
                          'what': 'result %s is not a probability vector stationary for the renormalised '
                                  'restriction to its support' % v})
    return probs


def nontrivial(case, ibc):
    n = len(case['M'])
    return n >= 3 and any(Fraction(x) == 0 for row in case['M'] for x in row)


def describe(case, ibc):
    r = next(iter(ibc.values()))
    return ['n:%d' % len(case['M']), 'style:' + case['style'].split('-')[0], 'allow:%s' % case['allow'],
            'outcome:' + ('err-' + r['err'] if 'err' in r else 'vector'),
            'reused-buffer:%s' % bool(case.get('prev'))]
